/- helper lemmas for C04 (miter): reading a consistent valuation of the miter -/
import CG.Proofs.MiterFanin
set_option linter.unusedSimpArgs false
set_option linter.unusedVariables false
namespace CG
namespace Miter
open Circuit

/-! ### gate facts -/

theorem gateFn_input (l : List Bool) : gateFn "input" l = none := by
  unfold gateFn
  simp

theorem gateFn_buf1 (a : Bool) : gateFn "buf" [a] = some a := by
  unfold gateFn
  simp

theorem gateFn_xor2 (a b : Bool) : gateFn "xor" [a, b] = some (a != b) := by
  unfold gateFn
  simp [xorL]

theorem satTy_one (e : Name) : satTy [e] = "buf" := by
  unfold satTy; simp

theorem satTy_two (a b : Name) (l : List Name) : satTy (a :: b :: l) = "or" := by
  unfold satTy; simp

theorem satTy_nil : satTy [] = "0" := rfl

/-- `sat` computes the disjunction of the comparators; with no compared endpoint it is the constant `"0"` -/
theorem gateFn_satTy' (ep : List Name) (f : Name → Bool) :
    gateFn (satTy ep) (ep.map f) = some (ep.any f) := by
  match ep with
  | [] => rw [satTy_nil]; rfl
  | [e] => rw [satTy_one]; simp [gateFn_buf1]
  | a :: b :: l =>
    rw [satTy_two]
    unfold gateFn
    simp [List.any_map]

theorem gateFn_satTy (ep : List Name) (hep : ep ≠ []) (f : Name → Bool) :
    gateFn (satTy ep) (ep.map f) = some (ep.any f) := gateFn_satTy' ep f

theorem satTy_cases (ep : List Name) : satTy ep = "or" ∨ satTy ep = "buf" ∨ satTy ep = "0" := by
  unfold satTy
  by_cases h0 : ep.isEmpty = true
  · rw [if_pos h0]; exact Or.inr (Or.inr rfl)
  · rw [if_neg h0]
    by_cases h : ep.length > 1
    · rw [if_pos h]; exact Or.inl rfl
    · rw [if_neg h]; exact Or.inr (Or.inl rfl)

theorem eq_nil_of_satTy_zero {ep : List Name} (h : satTy ep = "0") : ep = [] := by
  cases ep with
  | nil => rfl
  | cons a l =>
    cases l with
    | nil => rw [satTy_one] at h; exact absurd h (by decide)
    | cons b l => rw [satTy_two] at h; exact absurd h (by decide)

theorem satTy_cases_ne (ep : List Name) (hne : ep ≠ []) : satTy ep = "or" ∨ satTy ep = "buf" := by
  rcases satTy_cases ep with h | h | h
  · exact Or.inl h
  · exact Or.inr h
  · exfalso
    cases ep with
    | nil => exact hne rfl
    | cons a l =>
      cases l with
      | nil => rw [satTy_one] at h; exact absurd h (by decide)
      | cons b l => rw [satTy_two] at h; exact absurd h (by decide)

/-! ### node membership -/

section view
variable {c0 c1 m : Circuit} {sp ep : List Name}

theorem MView.mem_c0 (V : MView c0 c1 sp ep m) {p : Name × Attr} (hp : p ∈ c0.nodes) :
    (pref "c0" p.1, stripA p.2) ∈ m.nodes := by
  rw [V.nodes]
  simp only [List.mem_append]
  exact Or.inl (Or.inl (Or.inl (Or.inl (List.mem_map.2 ⟨p, hp, rfl⟩))))

theorem MView.mem_c1 (V : MView c0 c1 sp ep m) {p : Name × Attr} (hp : p ∈ c1.nodes) :
    (pref "c1" p.1, stripA p.2) ∈ m.nodes := by
  rw [V.nodes]
  simp only [List.mem_append]
  exact Or.inl (Or.inl (Or.inl (Or.inr (List.mem_map.2 ⟨p, hp, rfl⟩))))

theorem MView.mem_tie (V : MView c0 c1 sp ep m) {s : Name} (hs : s ∈ sp) :
    (s, ({ ty := some "input", out := some false } : Attr)) ∈ m.nodes := by
  rw [V.nodes]
  simp only [List.mem_append]
  exact Or.inl (Or.inl (Or.inr (List.mem_map.2 ⟨s, hs, rfl⟩)))

theorem MView.mem_sat (V : MView c0 c1 sp ep m) : satNode ep ∈ m.nodes := by
  rw [V.nodes]
  simp only [List.mem_append]
  exact Or.inl (Or.inr (by simp))

theorem MView.mem_dif (V : MView c0 c1 sp ep m) {e : Name} (he : e ∈ ep) :
    (dif e, ({ ty := some "xor", out := some false } : Attr)) ∈ m.nodes := by
  rw [V.nodes]
  simp only [List.mem_append]
  exact Or.inr (List.mem_map.2 ⟨e, he, rfl⟩)

theorem MView.cases (V : MView c0 c1 sp ep m) {p : Name × Attr} (hp : p ∈ m.nodes) :
    (∃ q ∈ c0.nodes, p = (pref "c0" q.1, stripA q.2)) ∨ (∃ q ∈ c1.nodes, p = (pref "c1" q.1, stripA q.2)) ∨
    (∃ s ∈ sp, p = (s, ({ ty := some "input", out := some false } : Attr))) ∨ p = satNode ep ∨
    (∃ e ∈ ep, p = (dif e, ({ ty := some "xor", out := some false } : Attr))) := by
  rw [V.nodes] at hp
  simp only [List.mem_append, List.mem_singleton] at hp
  rcases hp with (((hp | hp) | hp) | hp) | hp
  · obtain ⟨q, hq, rfl⟩ := List.mem_map.1 hp
    exact Or.inl ⟨q, hq, rfl⟩
  · obtain ⟨q, hq, rfl⟩ := List.mem_map.1 hp
    exact Or.inr (Or.inl ⟨q, hq, rfl⟩)
  · obtain ⟨q, hq, rfl⟩ := List.mem_map.1 hp
    exact Or.inr (Or.inr (Or.inl ⟨q, hq, rfl⟩))
  · exact Or.inr (Or.inr (Or.inr (Or.inl hp)))
  · obtain ⟨q, hq, rfl⟩ := List.mem_map.1 hp
    exact Or.inr (Or.inr (Or.inr (Or.inr ⟨q, hq, rfl⟩)))

theorem MView.has_sat (V : MView c0 c1 sp ep m) : m.has "sat" = true :=
  (has_iff_mem m "sat").2 (List.mem_map.2 ⟨satNode ep, V.mem_sat, rfl⟩)

/-! ### reading a consistent valuation -/

theorem MView.sem_c0 (V : MView c0 c1 sp ep m) (h0 : WF c0) (hsp : sp.Nodup) (hin : ∀ s ∈ sp, s ∈ c0.inputs)
    (v : Val) (hv : Consistent m v) : Consistent c0 (fun n => v (pref "c0" n)) := by
  intro p hp t ht b hb
  by_cases hne : t = "input"
  · subst hne; rw [gateFn_input] at hb; cases hb
  · have hns : p.1 ∉ sp := by
      intro hs
      have := (mem_inputs_of_mem h0.nodup (a := p.2) hp).1 (hin _ hs)
      rw [ht] at this; injection this with this; exact hne this
    apply hv _ (V.mem_c0 hp) t (stripA_ty_of_ne ht hne) b
    simp only []
    rw [V.fanin_c0 hsp, if_neg hns, List.append_nil, gate_map_pref]
    exact hb

theorem MView.sem_c1 (V : MView c0 c1 sp ep m) (h1 : WF c1) (hsp : sp.Nodup) (hin : ∀ s ∈ sp, s ∈ c1.inputs)
    (v : Val) (hv : Consistent m v) : Consistent c1 (fun n => v (pref "c1" n)) := by
  intro p hp t ht b hb
  by_cases hne : t = "input"
  · subst hne; rw [gateFn_input] at hb; cases hb
  · have hns : p.1 ∉ sp := by
      intro hs
      have := (mem_inputs_of_mem h1.nodup (a := p.2) hp).1 (hin _ hs)
      rw [ht] at this; injection this with this; exact hne this
    apply hv _ (V.mem_c1 hp) t (stripA_ty_of_ne ht hne) b
    simp only []
    rw [V.fanin_c1 hsp, if_neg hns, List.append_nil, gate_map_pref]
    exact hb

theorem stripA_input {a : Attr} (h : a.ty = some "input") : (stripA a).ty = some "buf" := by
  simp [stripA, h]

theorem MView.sem_tie0 (V : MView c0 c1 sp ep m) (h0 : WF c0) (hsp : sp.Nodup) {s : Name} (hs : s ∈ sp)
    (hin : s ∈ c0.inputs) (hnf : c0.fanin s = []) (v : Val) (hv : Consistent m v) : v (pref "c0" s) = v s := by
  obtain ⟨a, ha⟩ := has_exists (mem_inputs_has hin)
  have hty : a.ty = some "input" := (mem_inputs_of_mem h0.nodup ha).1 hin
  apply hv _ (V.mem_c0 ha) "buf" (stripA_input hty)
  simp only []
  rw [V.fanin_c0 hsp, if_pos hs, hnf]
  exact gateFn_buf1 _

theorem MView.sem_tie1 (V : MView c0 c1 sp ep m) (h1 : WF c1) (hsp : sp.Nodup) {s : Name} (hs : s ∈ sp)
    (hin : s ∈ c1.inputs) (hnf : c1.fanin s = []) (v : Val) (hv : Consistent m v) : v (pref "c1" s) = v s := by
  obtain ⟨a, ha⟩ := has_exists (mem_inputs_has hin)
  have hty : a.ty = some "input" := (mem_inputs_of_mem h1.nodup ha).1 hin
  apply hv _ (V.mem_c1 ha) "buf" (stripA_input hty)
  simp only []
  rw [V.fanin_c1 hsp, if_pos hs, hnf]
  exact gateFn_buf1 _

theorem MView.sem_dif (V : MView c0 c1 sp ep m) (hep : ep.Nodup) {e : Name} (he : e ∈ ep)
    (v : Val) (hv : Consistent m v) : v (dif e) = (v (pref "c0" e) != v (pref "c1" e)) := by
  apply hv _ (V.mem_dif he) "xor" rfl
  simp only []
  rw [V.fanin_dif hep he]
  exact gateFn_xor2 _ _

theorem MView.sem_sat (V : MView c0 c1 sp ep m) (hep : ep.Nodup)
    (v : Val) (hv : Consistent m v) :
    v "sat" = true ↔ ∃ e ∈ ep, v (pref "c0" e) ≠ v (pref "c1" e) := by
  have hs : v "sat" = ep.any (fun e => v (dif e)) := by
    apply hv _ V.mem_sat (satTy ep) rfl
    show gateFn (satTy ep) ((m.fanin "sat").map v) = _
    rw [V.fanin_sat, List.map_map]
    exact gateFn_satTy' ep _
  rw [hs, List.any_eq_true]
  constructor
  · rintro ⟨e, he, h⟩
    refine ⟨e, he, ?_⟩
    rw [V.sem_dif hep he v hv] at h
    simpa using h
  · rintro ⟨e, he, h⟩
    refine ⟨e, he, ?_⟩
    rw [V.sem_dif hep he v hv]
    simpa using h

/-! ### inputs and outputs -/

theorem mem_inputs_iff (c : Circuit) (x : Name) :
    x ∈ c.inputs ↔ ∃ p ∈ c.nodes, p.1 = x ∧ p.2.ty = some "input" := by
  unfold inputs filterType
  simp only [List.mem_map, List.mem_filter]
  constructor
  · rintro ⟨p, ⟨hp, hq⟩, e⟩
    refine ⟨p, hp, e, ?_⟩
    cases hty : p.2.ty with
    | none => rw [hty] at hq; simp at hq
    | some t => rw [hty] at hq; simp at hq; rw [hq]
  · rintro ⟨p, hp, e, ht⟩
    exact ⟨p, ⟨hp, by rw [ht]; simp⟩, e⟩

theorem satTy_ne_input (ep : List Name) : satTy ep ≠ "input" := by
  rcases satTy_cases ep with h | h | h <;> rw [h] <;> decide

theorem MView.inputs (V : MView c0 c1 sp ep m) (x : Name) : x ∈ m.inputs ↔ x ∈ sp := by
  rw [mem_inputs_iff]
  constructor
  · rintro ⟨p, hp, rfl, ht⟩
    rcases V.cases hp with ⟨q, _, rfl⟩ | ⟨q, _, rfl⟩ | ⟨s, hs, rfl⟩ | rfl | ⟨e, _, rfl⟩
    · exact absurd ht (stripA_ty_ne_input q.2)
    · exact absurd ht (stripA_ty_ne_input q.2)
    · exact hs
    · simp only [satNode] at ht
      injection ht with ht
      exact absurd ht (satTy_ne_input ep)
    · simp only [] at ht
      injection ht with ht
      exact absurd ht (by decide)
  · intro hs
    exact ⟨_, V.mem_tie hs, rfl, rfl⟩

theorem MView.outputs (V : MView c0 c1 sp ep m) : m.outputs = ["sat"] := by
  unfold Circuit.outputs
  rw [V.nodes]
  simp only [List.filter_append, List.map_append]
  have e1 : ∀ (c : Circuit) (name : Name), (nodesOf c name).filter (fun p => p.2.out.getD false) = [] := by
    intro c name
    rw [List.filter_eq_nil_iff]
    intro p hp
    obtain ⟨q, _, rfl⟩ := List.mem_map.1 hp
    simp only [stripA_out_false]
    decide
  have e2 : (tieNodes sp).filter (fun p => p.2.out.getD false) = [] := by
    rw [List.filter_eq_nil_iff]
    intro p hp
    obtain ⟨q, _, rfl⟩ := List.mem_map.1 hp
    simp
  have e3 : (difNodes ep).filter (fun p => p.2.out.getD false) = [] := by
    rw [List.filter_eq_nil_iff]
    intro p hp
    obtain ⟨q, _, rfl⟩ := List.mem_map.1 hp
    simp
  rw [e1, e1, e2, e3]
  simp [satNode]

end view

end Miter
end CG
