/- C15 (character level) helper: the layout of the text `circuit_to_bench` emits, and the reader on it -/
import CG.Proofs.BenchTextParse
set_option linter.unusedSimpArgs false
set_option linter.unusedVariables false
namespace CG
namespace BenchText
open Regex Bench

theorem tailOf_append (a b : List (List Char)) : tailOf (a ++ b) = tailOf a ++ tailOf b := by
  induction a with
  | nil => rfl
  | cons x a ih => simp [tailOf, ih]

theorem tailOf_join {α : Type} (f : α → List Char) (xs : List α) :
    '\n' :: (xs.map (fun x => f x ++ ['\n'])).flatten = tailOf (xs.map f) ++ ['\n'] := by
  induction xs with
  | nil => rfl
  | cons x xs ih =>
    simp only [List.map_cons, List.flatten_cons, tailOf, List.cons_append, List.append_assoc]
    rw [← ih]
    simp

theorem join_toList' {α : Type} (l : List α) (f : α → String) :
    (String.join (l.map f)).toList = (l.map (fun x => (f x).toList)).flatten := by
  rw [String.toList_join]
  induction l with
  | nil => rfl
  | cons x l ih => simp [ih]

/-- the layout of the written text as a list of lines -/
theorem layout_list {α β : Type} (hdr : List Char) (ins : List α) (gi : α → List Char) (outs : List β)
    (go : β → List Char) (G G3 : List (List Char)) (h : (G = [] ∧ G3 = [[]]) ∨ (G ≠ [] ∧ G3 = [])) :
    hdr ++ ['\n'] ++ (ins.map (fun x => gi x ++ ['\n'])).flatten ++ ['\n'] ++
      (outs.map (fun x => go x ++ ['\n'])).flatten ++ ['\n'] ++ ['\n'].intercalate G =
    ['\n'].intercalate (hdr :: (ins.map gi ++ ([[]] ++ (outs.map go ++ ([[]] ++ (G ++ G3)))))) := by
  rw [intercalate_eq_tailOf]
  simp only [tailOf_append]
  have hB : tailOf [[]] = ['\n'] := rfl
  have hG : tailOf G ++ tailOf G3 = '\n' :: ['\n'].intercalate G := by
    rcases h with ⟨rfl, rfl⟩ | ⟨hne, rfl⟩
    · rfl
    · obtain ⟨g, G', rfl⟩ := List.exists_cons_of_ne_nil hne
      rw [intercalate_eq_tailOf]
      simp [tailOf]
  rw [hG, hB]
  have h1 := tailOf_join gi ins
  have h2 := tailOf_join go outs
  calc _ = hdr ++ ('\n' :: (ins.map (fun x => gi x ++ ['\n'])).flatten) ++
            ('\n' :: (outs.map (fun x => go x ++ ['\n'])).flatten) ++ ('\n' :: ['\n'].intercalate G) := by simp
    _ = _ := by rw [h1, h2]; simp

/-- the characters of a canonical line -/
theorem ok_chars {l : Ln} (h : l.ok) : ∀ x ∈ l.chars, idC.mem x = true ∨ x ∈ [' ', '=', '(', ')', ','] := by
  have hK : ∀ K : List Char, AllLetter K → ∀ x ∈ K, idC.mem x = true := fun K hK x hx => idC_of_letter (hK x hx)
  have hA : ∀ A : List Char, AllArg A → ∀ x ∈ A, idC.mem x = true ∨ x ∈ [' ', '=', '(', ')', ','] := by
    intro A hA x hx
    rcases hA x hx with h | rfl | rfl
    · exact Or.inl h
    · exact Or.inr (by decide)
    · exact Or.inr (by decide)
  cases l with
  | inp n =>
    intro x hx
    simp only [Ln.chars, List.mem_append, List.mem_cons, List.not_mem_nil, or_false] at hx
    rcases hx with hx | rfl | hx | rfl
    · exact Or.inl (hK kINPUT (by decide) x hx)
    · exact Or.inr (by decide)
    · exact Or.inl (h.all x hx)
    · exact Or.inr (by decide)
  | out n =>
    intro x hx
    simp only [Ln.chars, List.mem_append, List.mem_cons, List.not_mem_nil, or_false] at hx
    rcases hx with hx | rfl | hx | rfl
    · exact Or.inl (hK kOUTPUT (by decide) x hx)
    · exact Or.inr (by decide)
    · exact Or.inl (h.all x hx)
    · exact Or.inr (by decide)
  | gate n K A =>
    obtain ⟨hn, hKm, hAA, _⟩ := h
    intro x hx
    simp only [Ln.chars, List.mem_append, List.mem_cons, List.not_mem_nil, or_false] at hx
    rcases hx with hx | rfl | rfl | rfl | hx | rfl | hx | rfl
    · exact Or.inl (hn.all x hx)
    · exact Or.inr (by decide)
    · exact Or.inr (by decide)
    · exact Or.inr (by decide)
    · exact Or.inl (hK K (upKws_letters hKm).1 x hx)
    · exact Or.inr (by decide)
    · exact hA A hAA x hx
    · exact Or.inr (by decide)
  | dff n A =>
    obtain ⟨hn, hAA, _⟩ := h
    intro x hx
    simp only [Ln.chars, List.mem_append, List.mem_cons, List.not_mem_nil, or_false] at hx
    rcases hx with hx | rfl | rfl | rfl | hx | rfl | hx | rfl
    · exact Or.inl (hn.all x hx)
    · exact Or.inr (by decide)
    · exact Or.inr (by decide)
    · exact Or.inr (by decide)
    · exact Or.inl (hK kDFF (by decide) x hx)
    · exact Or.inr (by decide)
    · exact hA A hAA x hx
    · exact Or.inr (by decide)
  | blank => intro x hx; cases hx

theorem ok_no_nl {l : Ln} (h : l.ok) : '\n' ∉ l.chars ∧ '#' ∉ l.chars := by
  constructor
  · intro hm
    rcases ok_chars h _ hm with h1 | h1
    · exact (idC_ne h1).2.2.2.2.2.1 rfl
    · exact absurd h1 (by decide)
  · intro hm
    rcases ok_chars h _ hm with h1 | h1
    · exact (idC_ne h1).2.2.2.2.2.2.2 rfl
    · exact absurd h1 (by decide)

/-- the reader on a text made of canonical lines without comments -/
theorem parse_plain (text : String) (L : List Stmt) (hL : L ≠ []) (hok : ∀ s ∈ L, StOK s)
    (h : text.toList = ['\n'].intercalate (L.map (fun s => (lnOf s).chars))) : Bench.parse text = some (collect L) := by
  apply parse_of_lines text L hL hok
  rw [stripComments_lines text _ (by simpa using hL) ?_ h]
  · rw [List.map_map]
    congr 1
    apply List.map_congr_left
    intro s hs
    exact stripLine_of_not_mem (ok_no_nl (hok s hs).ln).2
  · intro l hl
    obtain ⟨s, hs, rfl⟩ := List.mem_map.mp hl
    exact (ok_no_nl (hok s hs).ln).1

/-- the reader on a text made of a comment line followed by canonical lines -/
theorem parse_header (text : String) (nm : List Char) (hnm : '\n' ∉ nm) (L : List Stmt) (hok : ∀ s ∈ L, StOK s)
    (h : text.toList = ['\n'].intercalate (('#' :: nm) :: L.map (fun s => (lnOf s).chars))) :
    Bench.parse text = some (collect L) := by
  have : collect L = collect (Stmt.dffNet "" :: L) := rfl
  rw [this]
  apply parse_of_lines text (Stmt.dffNet "" :: L) (by simp)
  · intro s hs
    rcases List.mem_cons.mp hs with rfl | hs
    · trivial
    · exact hok s hs
  rw [stripComments_lines text _ (by simp) ?_ h]
  · rw [List.map_cons, List.map_cons, stripLine_hash, List.map_map]
    congr 2
    apply List.map_congr_left
    intro s hs
    exact stripLine_of_not_mem (ok_no_nl (hok s hs).ln).2
  · intro l hl
    rcases List.mem_cons.mp hl with rfl | hl
    · intro hm
      rcases List.mem_cons.mp hm with hm | hm
      · exact absurd hm (by decide)
      · exact hnm hm
    · obtain ⟨s, hs, rfl⟩ := List.mem_map.mp hl
      exact (ok_no_nl (hok s hs).ln).1

/-! ### the writer's text -/

def IsGate : Stmt → Prop | .gate _ _ _ => True | _ => False

theorem collect_append (A B : List Stmt) : collect (A ++ B) =
    (A.filterMap selIn ++ B.filterMap selIn) ++ (A.filterMap selGate ++ B.filterMap selGate) ++
    (A.filterMap selDffNet ++ B.filterMap selDffNet) ++ (A.filterMap selDff ++ B.filterMap selDff) ++
    (A.filterMap selOut ++ B.filterMap selOut) := by
  simp [collect, List.filterMap_append]

theorem sel_inputs (ins : List String) : (ins.map Stmt.input).filterMap selIn = ins.map Stmt.input ∧
    (ins.map Stmt.input).filterMap selGate = [] ∧ (ins.map Stmt.input).filterMap selDffNet = [] ∧
    (ins.map Stmt.input).filterMap selDff = [] ∧ (ins.map Stmt.input).filterMap selOut = [] := by
  induction ins with
  | nil => simp
  | cons i ins ih => simp [selIn, selGate, selDffNet, selDff, selOut, ih]

theorem sel_outputs (outs : List String) : (outs.map Stmt.output).filterMap selOut = outs.map Stmt.output ∧
    (outs.map Stmt.output).filterMap selGate = [] ∧ (outs.map Stmt.output).filterMap selDffNet = [] ∧
    (outs.map Stmt.output).filterMap selDff = [] ∧ (outs.map Stmt.output).filterMap selIn = [] := by
  induction outs with
  | nil => simp
  | cons i outs ih => simp [selIn, selGate, selDffNet, selDff, selOut, ih]

theorem sel_gates (gs : List Stmt) (h : ∀ g ∈ gs, IsGate g) : gs.filterMap selGate = gs ∧
    gs.filterMap selIn = [] ∧ gs.filterMap selDffNet = [] ∧ gs.filterMap selDff = [] ∧ gs.filterMap selOut = [] := by
  induction gs with
  | nil => simp
  | cons g gs ih =>
    have hg := h g (by simp)
    have := ih (fun x hx => h x (by simp [hx]))
    cases g with
    | gate n t is =>
      exact ⟨by rw [List.filterMap_cons_some (f := selGate) (b := Stmt.gate n t is) rfl, this.1],
        by rw [List.filterMap_cons_none (f := selIn) rfl, this.2.1],
        by rw [List.filterMap_cons_none (f := selDffNet) rfl, this.2.2.1],
        by rw [List.filterMap_cons_none (f := selDff) rfl, this.2.2.2.1],
        by rw [List.filterMap_cons_none (f := selOut) rfl, this.2.2.2.2]⟩
    | input n => cases hg
    | output n => cases hg
    | dff q d => cases hg
    | dffNet n => cases hg

theorem collect_layout (ins outs : List String) (gs : List Stmt) (h : ∀ g ∈ gs, IsGate g) (B3 : List Stmt)
    (hB3 : B3 = [Stmt.dffNet ""] ∨ B3 = []) :
    collect (ins.map Stmt.input ++ ([Stmt.dffNet ""] ++ (outs.map Stmt.output ++ ([Stmt.dffNet ""] ++ (gs ++ B3))))) =
      ins.map Stmt.input ++ gs ++ outs.map Stmt.output := by
  obtain ⟨i1, i2, i3, i4, i5⟩ := sel_inputs ins
  obtain ⟨o1, o2, o3, o4, o5⟩ := sel_outputs outs
  obtain ⟨g1, g2, g3, g4, g5⟩ := sel_gates gs h
  have d1 : [Stmt.dffNet ""].filterMap selIn = [] := rfl
  have d2 : [Stmt.dffNet ""].filterMap selGate = [] := rfl
  have d3 : [Stmt.dffNet ""].filterMap selDffNet = [] := rfl
  have d4 : [Stmt.dffNet ""].filterMap selDff = [] := rfl
  have d5 : [Stmt.dffNet ""].filterMap selOut = [] := rfl
  rcases hB3 with rfl | rfl <;>
    simp only [collect, List.filterMap_append, List.filterMap_nil, i1, i2, i3, i4, i5, o1, o2, o3, o4, o5, g1, g2, g3, g4,
      g5, d1, d2, d3, d4, d5, List.append_nil, List.nil_append, List.append_assoc]

/-- **the reader on the writer's text** -/
theorem parse_written (name : String) (ins outs : List String) (gs : List Stmt) (hname : '\n' ∉ name.toList)
    (hins : ∀ i ∈ ins, NameOK i) (houts : ∀ o ∈ outs, NameOK o) (hgs : ∀ g ∈ gs, StOK g ∧ IsGate g) :
    Bench.parse ("# " ++ name ++ "\n" ++
      String.join (ins.map (fun i => renderStmt (.input i) ++ "\n")) ++ "\n" ++
      String.join (outs.map (fun o => renderStmt (.output o) ++ "\n")) ++ "\n" ++
      "\n".intercalate (gs.map renderStmt)) = some (ins.map Stmt.input ++ gs ++ outs.map Stmt.output) := by
  obtain ⟨B3, hB3, hB3'⟩ : ∃ B3 : List Stmt, ((gs = [] ∧ B3 = [Stmt.dffNet ""]) ∨ (gs ≠ [] ∧ B3 = [])) ∧
      (B3 = [Stmt.dffNet ""] ∨ B3 = []) := by
    by_cases h : gs = []
    · exact ⟨[Stmt.dffNet ""], Or.inl ⟨h, rfl⟩, Or.inl rfl⟩
    · exact ⟨[], Or.inr ⟨h, rfl⟩, Or.inr rfl⟩
  have hcol := collect_layout ins outs gs (fun g hg => (hgs g hg).2) B3 hB3'
  rw [← hcol]
  apply parse_header _ (' ' :: name.toList) (by
    intro hm
    rcases List.mem_cons.mp hm with hm | hm
    · exact absurd hm (by decide)
    · exact hname hm)
  · intro s hs
    simp only [List.mem_append, List.mem_map, List.mem_singleton] at hs
    rcases hs with ⟨i, hi, rfl⟩ | rfl | ⟨o, ho, rfl⟩ | rfl | hs | hs
    · exact hins i hi
    · trivial
    · exact houts o ho
    · trivial
    · exact (hgs s hs).1
    · rcases hB3' with rfl | rfl
      · rw [List.mem_singleton.mp hs]; trivial
      · cases hs
  · simp only [String.toList_append, join_toList', String.toList_intercalate, render_chars, List.map_map]
    have e1 : ("# " : String).toList = ['#', ' '] := rfl
    have e2 : ("\n" : String).toList = ['\n'] := rfl
    rw [e1, e2]
    have key := layout_list (['#', ' '] ++ name.toList) ins (fun i => (lnOf (Stmt.input i)).chars) outs
      (fun o => (lnOf (Stmt.output o)).chars) (gs.map (fun s => (lnOf s).chars)) (B3.map (fun s => (lnOf s).chars)) (by
        rcases hB3 with ⟨rfl, rfl⟩ | ⟨hne, rfl⟩
        · exact Or.inl ⟨rfl, rfl⟩
        · exact Or.inr ⟨by simpa using hne, rfl⟩)
    simp only [List.map_append, List.map_map, List.map_cons, List.map_nil]
    have e3 : (lnOf (Stmt.dffNet "")).chars = [] := rfl
    rw [e3]
    have e4 : gs.map (String.toList ∘ renderStmt) = gs.map (fun s => (lnOf s).chars) :=
      List.map_congr_left (fun s _ => render_chars s)
    rw [e4]
    exact key

end BenchText
end CG
