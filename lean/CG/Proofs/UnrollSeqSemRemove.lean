/- C09 (sequential_unroll, semantics): `Circuit.remove` of nodes that are either unloaded or free inputs with a single
   buffer load changes no other node's function -/
import CG.Proofs.Unroll
import CG.Proofs.Strip
set_option linter.unusedSimpArgs false
set_option linter.unusedVariables false
namespace CG
namespace USS
open Circuit

/-! ### `remove` as a filter -/

theorem remove_nodes (c : Circuit) : ∀ ns : List Name,
    (c.remove ns).nodes = c.nodes.filter (fun p => !ns.contains p.1) := by
  intro ns
  unfold Circuit.remove
  induction ns generalizing c with
  | nil =>
    simp only [List.foldl_nil, List.contains_nil, Bool.not_false]
    exact (List.filter_eq_self.2 (fun _ _ => rfl)).symm
  | cons n ns ih =>
    simp only [List.foldl_cons]
    rw [ih]
    show (c.nodes.filter (fun p => !(p.1 == n))).filter (fun p => !ns.contains p.1) = _
    rw [List.filter_filter]
    apply List.filter_congr
    intro p _
    simp only [List.contains_cons, Bool.not_or]
    rw [Bool.and_comm]

theorem remove_edges (c : Circuit) : ∀ ns : List Name,
    (c.remove ns).edges = c.edges.filter (fun e => !ns.contains e.1 && !ns.contains e.2) := by
  intro ns
  unfold Circuit.remove
  induction ns generalizing c with
  | nil =>
    simp only [List.foldl_nil, List.contains_nil, Bool.not_false]
    exact (List.filter_eq_self.2 (fun _ _ => rfl)).symm
  | cons n ns ih =>
    simp only [List.foldl_cons]
    rw [ih]
    show (c.edges.filter (fun e => !(e.1 == n) && !(e.2 == n))).filter _ = _
    rw [List.filter_filter]
    apply List.filter_congr
    intro e _
    simp only [List.contains_cons, Bool.not_or]
    cases (e.1 == n) <;> cases (e.2 == n) <;> cases (ns.contains e.1) <;> cases (ns.contains e.2) <;> rfl

theorem remove_bbs (c : Circuit) (ns : List Name) : (c.remove ns).bbs = c.bbs := by
  unfold Circuit.remove
  induction ns generalizing c with
  | nil => rfl
  | cons n ns ih => simp only [List.foldl_cons]; rw [ih]; rfl

theorem remove_append (c : Circuit) (a b : List Name) : (c.remove a).remove b = c.remove (a ++ b) := by
  unfold Circuit.remove
  rw [List.foldl_append]

theorem remove_mem_nodes {c : Circuit} {ns : List Name} {p : Name × Attr} :
    p ∈ (c.remove ns).nodes ↔ p ∈ c.nodes ∧ p.1 ∉ ns := by
  rw [remove_nodes, List.mem_filter]
  simp

theorem remove_mem_edges {c : Circuit} {ns : List Name} {e : Name × Name} :
    e ∈ (c.remove ns).edges ↔ e ∈ c.edges ∧ e.1 ∉ ns ∧ e.2 ∉ ns := by
  rw [remove_edges, List.mem_filter]
  simp

theorem remove_attr? (c : Circuit) (ns : List Name) (m : Name) :
    (c.remove ns).attr? m = if m ∈ ns then none else c.attr? m := by
  unfold Circuit.attr?
  rw [remove_nodes, lookup_filter_key (fun k => !ns.contains k)]
  by_cases h : m ∈ ns
  · simp [h]
  · simp [h]

theorem remove_has (c : Circuit) (ns : List Name) (m : Name) :
    (c.remove ns).has m = true ↔ c.has m = true ∧ m ∉ ns := by
  rw [has_eq_isSome, has_eq_isSome, remove_attr?]
  by_cases h : m ∈ ns
  · simp [h]
  · simp [h]

theorem remove_ty? (c : Circuit) (ns : List Name) (m : Name) :
    (c.remove ns).ty? m = if m ∈ ns then none else c.ty? m := by
  unfold Circuit.ty?
  rw [remove_attr?]
  by_cases h : m ∈ ns
  · simp [h]
  · simp [h]

theorem remove_wf {c : Circuit} (h : WF c) (ns : List Name) : WF (c.remove ns) := by
  refine ⟨?_, ?_, ?_⟩
  · have : (c.remove ns).nodeNames = c.nodeNames.filter (fun k => !ns.contains k) := by
      unfold Circuit.nodeNames
      rw [remove_nodes, List.filter_map]
      rfl
    rw [this]
    exact nodup_filter _ h.nodup
  · rw [remove_edges]
    exact nodup_filter _ h.edgesNodup
  · intro e he
    obtain ⟨h1, h2, h3⟩ := remove_mem_edges.1 he
    obtain ⟨a, b⟩ := h.closed e h1
    exact ⟨(remove_has c ns e.1).2 ⟨a, h2⟩, (remove_has c ns e.2).2 ⟨b, h3⟩⟩

theorem remove_fanin (c : Circuit) (ns : List Name) {y : Name} (hy : y ∉ ns) :
    (c.remove ns).fanin y = (c.fanin y).filter (fun u => !ns.contains u) := by
  unfold Circuit.fanin
  rw [remove_edges, List.filter_filter, List.filter_map, List.filter_filter]
  congr 1
  apply List.filter_congr
  intro e _
  simp only [Function.comp]
  by_cases h : e.2 = y
  · subst h
    have : ns.contains e.2 = false := by
      cases hh : ns.contains e.2 with
      | false => rfl
      | true => exact absurd (List.contains_iff_mem.1 hh) hy
    simp only [this, Bool.not_false, Bool.and_true, beq_self_eq_true, Bool.true_and]
  · have : (e.2 == y) = false := by simpa using h
    simp only [this, Bool.and_false, Bool.false_and]

theorem remove_mem_fanout {c : Circuit} {ns : List Name} {x y : Name} :
    y ∈ (c.remove ns).fanout x ↔ y ∈ c.fanout x ∧ x ∉ ns ∧ y ∉ ns := by
  rw [mem_fanout, mem_fanout, remove_mem_edges]

/-! ### removable nodes -/

/-- a node whose removal leaves every other node's equation intact: no load at all, or a free input whose only load
    is a buffer driven by nothing else -/
def Removable (c : Circuit) (x : Name) : Prop :=
  c.fanout x = [] ∨ (c.ty? x = some "input" ∧ ∃ y, c.fanout x = [y] ∧ c.ty? y = some "buf" ∧ c.fanin y = [x])

theorem ty?_of_mem {c : Circuit} (hnd : c.nodeNames.Nodup) {p : Name × Attr} (hp : p ∈ c.nodes) {t : String}
    (ht : p.2.ty = some t) : c.ty? p.1 = some t := by
  unfold Circuit.ty?
  rw [attr?_of_mem hnd (n := p.1) (a := p.2) hp]
  exact ht

theorem mem_of_ty? {c : Circuit} {x : Name} {t : String} (h : c.ty? x = some t) :
    ∃ a, (x, a) ∈ c.nodes ∧ a.ty = some t := by
  unfold Circuit.ty? at h
  cases ha : c.attr? x with
  | none => rw [ha] at h; cases h
  | some a =>
    rw [ha] at h
    exact ⟨a, attr?_mem ha, h⟩

theorem gateFn_buf_nil : gateFn "buf" [] = none := by simp [gateFn]
theorem gateFn_buf_single (a : Bool) : gateFn "buf" [a] = some a := by simp [gateFn]
theorem gateFn_input (l : List Bool) : gateFn "input" l = none := by simp [gateFn]

/-- consistent valuations restrict -/
theorem remove_restrict {c : Circuit} (hc : WF c) {R : List Name}
    (hR : ∀ x ∈ R, c.has x = true → Removable c x) {v : Val} (hv : Consistent c v) :
    Consistent (c.remove R) v := by
  intro p hp t ht b hg
  obtain ⟨hpc, hpR⟩ := remove_mem_nodes.1 hp
  rw [remove_fanin c R hpR] at hg
  by_cases hx : ∃ x ∈ c.fanin p.1, x ∈ R
  · obtain ⟨x, hxf, hxR⟩ := hx
    have he : (x, p.1) ∈ c.edges := mem_fanin.1 hxf
    rcases hR x hxR (hc.closed _ he).1 with h0 | ⟨_, y, hfo, hty, hfi⟩
    · have : p.1 ∈ c.fanout x := mem_fanout.2 he
      rw [h0] at this; cases this
    · have hy : p.1 = y := by
        have : p.1 ∈ c.fanout x := mem_fanout.2 he
        rw [hfo] at this
        simpa using this
      have htb : t = "buf" := by
        have := ty?_of_mem hc.nodup hpc ht
        rw [hy, hty] at this
        injection this with this
        exact this.symm
      subst htb
      rw [hy, hfi] at hg
      have hc' : R.contains x = true := List.contains_iff_mem.2 hxR
      simp only [List.filter_cons, hc', Bool.not_true, Bool.false_eq_true, if_false, List.filter_nil, List.map_nil,
        gateFn_buf_nil] at hg
      cases hg
  · have hf : (c.fanin p.1).filter (fun u => !R.contains u) = c.fanin p.1 := by
      apply List.filter_eq_self.2
      intro u hu
      cases hh : R.contains u with
      | false => rfl
      | true => exact absurd ⟨u, hu, List.contains_iff_mem.1 hh⟩ hx
    rw [hf] at hg
    exact hv p hpc t ht b hg

/-- the values given to removed free inputs: the value of the single load -/
def ext1 (c : Circuit) (R : List Name) (v' : Val) : Val := fun x =>
  if x ∈ R ∧ c.has x = true ∧ c.ty? x = some "input" then
    (match c.fanout x with | [y] => v' y | _ => false)
  else v' x

/-- the extension of a valuation of `c.remove R` to `c` -/
def extVal (c : Circuit) (R : List Name) (v' : Val) : Val := fun x =>
  if x ∈ R ∧ c.has x = true ∧ c.ty? x ≠ some "input" then
    (match c.ty? x with
     | some t => (gateFn t ((c.fanin x).map (ext1 c R v'))).getD false
     | none => false)
  else ext1 c R v' x

theorem ext1_off {c : Circuit} {R : List Name} (v' : Val) {x : Name} (h : x ∉ R) : ext1 c R v' x = v' x := by
  unfold ext1
  rw [if_neg (fun hh => h hh.1)]

theorem extVal_off {c : Circuit} {R : List Name} (v' : Val) {x : Name} (h : x ∉ R) : extVal c R v' x = v' x := by
  unfold extVal
  rw [if_neg (fun hh => h hh.1), ext1_off v' h]

theorem extVal_input {c : Circuit} {R : List Name} (v' : Val) {x : Name} (h : c.ty? x = some "input") :
    extVal c R v' x = ext1 c R v' x := by
  unfold extVal
  rw [if_neg (fun hh => hh.2.2 h)]

/-- consistent valuations extend -/
theorem remove_extend {c : Circuit} (hc : WF c) {R : List Name}
    (hR : ∀ x ∈ R, c.has x = true → Removable c x) {v' : Val} (hv' : Consistent (c.remove R) v') :
    Consistent c (extVal c R v') := by
  intro p hp t ht b hg
  have hty : c.ty? p.1 = some t := ty?_of_mem hc.nodup hp ht
  have hhas : c.has p.1 = true := has_of_ty? hty
  by_cases hpR : p.1 ∈ R
  · by_cases hin : t = "input"
    · subst hin
      rw [gateFn_input] at hg; cases hg
    · -- an unloaded node: its value is computed from its fan-in
      have hne : c.ty? p.1 ≠ some "input" := by
        rw [hty]
        intro e
        injection e with e
        exact hin e
      have hmap : (c.fanin p.1).map (extVal c R v') = (c.fanin p.1).map (ext1 c R v') := by
        apply List.map_congr_left
        intro z hz
        have he : (z, p.1) ∈ c.edges := mem_fanin.1 hz
        by_cases hzR : z ∈ R
        · rcases hR z hzR (hc.closed _ he).1 with h0 | ⟨hzi, _⟩
          · have : p.1 ∈ c.fanout z := mem_fanout.2 he
            rw [h0] at this; cases this
          · exact extVal_input v' hzi
        · rw [extVal_off v' hzR, ext1_off v' hzR]
      rw [hmap] at hg
      unfold extVal
      rw [if_pos ⟨hpR, hhas, hne⟩, hty]
      simp only [hg, Option.getD_some]
  · rw [extVal_off v' hpR]
    have hp' : p ∈ (c.remove R).nodes := remove_mem_nodes.2 ⟨hp, hpR⟩
    by_cases hx : ∃ x ∈ c.fanin p.1, x ∈ R
    · obtain ⟨x, hxf, hxR⟩ := hx
      have he : (x, p.1) ∈ c.edges := mem_fanin.1 hxf
      have hxhas := (hc.closed _ he).1
      rcases hR x hxR hxhas with h0 | ⟨hxi, y, hfo, hyt, hfi⟩
      · have : p.1 ∈ c.fanout x := mem_fanout.2 he
        rw [h0] at this; cases this
      · have hy : p.1 = y := by
          have : p.1 ∈ c.fanout x := mem_fanout.2 he
          rw [hfo] at this
          simpa using this
        have htb : t = "buf" := by
          rw [hy, hyt] at hty
          injection hty with hty
          exact hty.symm
        subst htb
        rw [hy, hfi] at hg
        simp only [List.map_cons, List.map_nil, gateFn_buf_single] at hg
        injection hg with hg
        rw [← hg, extVal_input v' hxi]
        unfold ext1
        rw [if_pos ⟨hxR, hxhas, hxi⟩, hfo, hy]
    · have hall : ∀ u ∈ c.fanin p.1, u ∉ R := fun u hu huR => hx ⟨u, hu, huR⟩
      have hf : (c.fanin p.1).filter (fun u => !R.contains u) = c.fanin p.1 := by
        apply List.filter_eq_self.2
        intro u hu
        cases hh : R.contains u with
        | false => rfl
        | true => exact absurd (List.contains_iff_mem.1 hh) (hall u hu)
      apply hv' p hp' t ht b
      rw [remove_fanin c R hpR, hf]
      have : (c.fanin p.1).map (extVal c R v') = (c.fanin p.1).map v' :=
        List.map_congr_left (fun u hu => extVal_off v' (hall u hu))
      rw [← this]
      exact hg

end USS
end CG
