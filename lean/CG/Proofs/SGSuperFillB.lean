/- C17 (super-circuit) helpers, part 3b: `fill_blackbox` succeeds on the instance at the head of the registry, and the
   registry afterwards. -/
import CG.Proofs.SGSuperFillA
set_option linter.unusedSectionVars false
set_option linter.unusedVariables false
set_option linter.unusedSimpArgs false
namespace CG
namespace SGSuper
open Supergates SGA Circuit

theorem sameSet_refl (a : List Name) : sameSet a a = true := by
  unfold sameSet
  have : a.all a.contains = true := by
    rw [List.all_eq_true]
    intro x hx
    exact List.contains_iff_mem.mpr hx
  rw [this]; rfl

/-- the checks of `fill_blackbox` pass -/
theorem fill_ok (t sub : Circuit) (i : Name) (bb : BBox) (ord : Ord)
    (h1 : t.bbs.lookup i = some bb) (h2 : sub.bbs = [])
    (h3 : sub.nodes.any (fun q => q.2.ty.isNone) = false)
    (h4 : sub.inputs = bb.ins) (h5 : sub.outputs = bb.outs)
    (h6 : ∀ n, sub.has n = true → t.has (pref i n) = false) :
    ∃ t', t.fillBlackbox i sub ord = (t', .ok) := by
  have k6 : sub.nodeNames.any (fun n => t.has (pref i n)) = false := by
    rw [List.any_eq_false]
    intro n hn
    rw [h6 n ((Circuit.has_iff_mem sub n).mpr hn)]
    simp
  unfold fillBlackbox
  rw [h1]
  simp only []
  rw [h2, h3, h4, h5, sameSet_refl, sameSet_refl, k6]
  exact ⟨_, rfl⟩

section step
variable {c2 : Circuit} {K1 K2 : List (Found × Circuit)} {p : Found × Circuit} {t : Circuit}

theorem lookup_head (D : MixDesc c2 K1 (p :: K2) t) : t.bbs.lookup (inst p.1.head) = some (bbOf p) := by
  rw [D.bbs, List.map_cons, List.lookup_cons]
  simp

/-- no spliced name is taken -/
theorem fresh (hN : NamesOK c2) (hok : ∀ q ∈ K1 ++ p :: K2, SGOk c2 q)
    (hnd : ((K1 ++ p :: K2).map (·.1.head)).Nodup) (D : MixDesc c2 K1 (p :: K2) t) :
    ∀ n, p.2.has n = true → t.has (pref (inst p.1.head) n) = false := by
  intro n hn
  have Hp : SGOk c2 p := hok p (List.mem_append.mpr (Or.inr List.mem_cons_self))
  have hh := Hp.head_c2
  have hnc := Hp.node_c2 hn
  cases hc : t.has (pref (inst p.1.head) n) with
  | false => rfl
  | true =>
    exfalso
    rw [← pre_eq] at hc
    rcases (D.has _).mp hc with h | ⟨q, hq, m, hm, e⟩ | ⟨q, hq, g, hg, e⟩
    · have := hN.preFree _ _ hh hnc
      rw [isNet_c2 hok h] at this
      cases this
    · have Hq : SGOk c2 q := hok q (List.mem_append.mpr (Or.inl hq))
      have := (hN.preInj _ _ _ _ hh hnc Hq.head_c2 (Hq.node_c2 hm) e).1
      exact heads_ne_left hnd q hq this.symm
    · have Hq : SGOk c2 q := hok q (List.mem_append.mpr (Or.inr hq))
      exact hN.prePin _ _ _ _ hh hnc Hq.head_c2 (Hq.pinname_c2 ((pinname_iff g).mpr hg)) e

theorem fill_succeeds (hN : NamesOK c2) (ord : Ord) (hok : ∀ q ∈ K1 ++ p :: K2, SGOk c2 q)
    (hnd : ((K1 ++ p :: K2).map (·.1.head)).Nodup) (D : MixDesc c2 K1 (p :: K2) t) :
    ∃ t', t.fillBlackbox (inst p.1.head) p.2 ord = (t', .ok) := by
  have Hp : SGOk c2 p := hok p (List.mem_append.mpr (Or.inr List.mem_cons_self))
  exact fill_ok t p.2 (inst p.1.head) (bbOf p) ord (lookup_head D) Hp.bbs_nil Hp.typed rfl Hp.outputs_eq
    (fresh hN hok hnd D)

/-- the registry after the fill -/
theorem bbs_after (hnd : ((K1 ++ p :: K2).map (·.1.head)).Nodup) (D : MixDesc c2 K1 (p :: K2) t) :
    t.bbs.filter (fun q => !(q.1 == inst p.1.head)) = K2.map (fun q => (inst q.1.head, bbOf q)) := by
  rw [D.bbs, List.map_cons, List.filter_cons]
  simp only [beq_self_eq_true, Bool.not_true, Bool.false_eq_true, if_false]
  rw [List.filter_eq_self]
  intro a ha
  obtain ⟨q, hq, rfl⟩ := List.mem_map.mp ha
  have : inst q.1.head ≠ inst p.1.head := fun e => heads_ne_right hnd q hq (inst_inj e)
  simpa using this

end step

end SGSuper
end CG
