/- C20 (second half, Verilog readers): the pin clauses of `LintClean`, the registry, and the resulting theorem about
   both readers (over the helper-level mirror `CG.FV` of C14's vocabulary) -/
import CG.Proofs.LintProdF5
import CG.Props.C20
set_option linter.unusedSimpArgs false
set_option linter.unusedVariables false
namespace CG
namespace LintProdFV
open Circuit FV

section
variable {r : RMod} {bbs : List BBox} {t0 t1 : Name} {c : Circuit}

/-- a node of type `bb_input` / `bb_output` is a pin of a blackbox statement -/
theorem pin_stmt (h : Restricted r bbs) (hd : Driven r bbs) (hs : Spec r bbs t0 t1 c) {n : Name} {t : String}
    (hty : c.ty? n = some t) (ht : t = "bb_input" ∨ t = "bb_output") :
    ∃ ty inst pins d g, RStmt.bb ty inst pins ∈ r.stmts ∧ bbs.find? (fun b => b.name == ty) = some d ∧
      n = inst ++ "." ++ g ∧ ((t = "bb_input" ∧ g ∈ d.ins) ∨ (t = "bb_output" ∧ g ∈ d.outs)) := by
  rcases ty_cases h hd hs hty with h1 | ⟨_, rfl⟩ | ⟨_, rfl⟩
  · rcases h1 with ⟨_, rfl⟩ | ⟨s, hm, hdt⟩
    · exact absurd ht (by decide)
    · have hok := h.stmts s hm
      cases s with
      | gate ty inst out ops =>
        obtain ⟨_, rfl⟩ := hdt
        rcases ht with rfl | rfl
        · exact absurd rfl (gate_facts hok.1).2.1
        · exact absurd rfl (gate_facts hok.1).2.2.1
      | assign l rr =>
        obtain ⟨_, rfl⟩ := hdt
        exact absurd ht (by decide)
      | bb ty inst pins =>
        obtain ⟨d, hdf, hc⟩ := hdt
        rcases hc with ⟨p, hp, hpo', rfl⟩ | ⟨g, hg, rfl, rfl⟩ | ⟨g, hg, rfl, rfl⟩
        · exact absurd ht (by decide)
        · exact ⟨ty, inst, pins, d, g, hm, hdf, rfl, Or.inl ⟨rfl, hg⟩⟩
        · exact ⟨ty, inst, pins, d, g, hm, hdf, rfl, Or.inr ⟨rfl, hg⟩⟩
  · exact absurd ht (by decide)
  · exact absurd ht (by decide)

theorem spec_bbOut (h : Restricted r bbs) (hd : Driven r bbs) (ht0 : t0 ∈ tieNames) (ht1 : t1 ∈ tieNames)
    (hs : Spec r bbs t0 t1 c) :
    ∀ e ∈ c.edges, c.ty? e.1 = some "bb_output" → c.ty? e.2 = some "buf" ∧ (c.fanout e.1).length ≤ 1 := by
  intro e he hty
  obtain ⟨ty, inst, pins, d, g, hm, hdf, e1, hc⟩ := pin_stmt h hd hs hty (Or.inr rfl)
  have hg : g ∈ d.outs := by
    rcases hc with ⟨hc, _⟩ | ⟨_, hg⟩
    · exact absurd hc (by decide)
    · exact hg
  have hok := h.stmts _ hm
  obtain ⟨_, hinst, d', hdf', hpl, hnd2, hpn, hpm, hpo⟩ := hok
  rw [hdf] at hdf'; injection hdf' with hdf'; subst hdf'
  have hdt : (RStmt.bb ty inst pins).dty bbs (inst ++ "." ++ g) "bb_output" :=
    ⟨d, hdf, Or.inr (Or.inr ⟨g, hg, rfl, rfl⟩)⟩
  -- every edge leaving the pin goes to the net connected to it
  have key : ∀ v, (inst ++ "." ++ g, v) ∈ c.edges → (g, some (ROp.net v)) ∈ pins := by
    intro v hv
    obtain ⟨s', hm', a, b, hedge, e2⟩ := (hs.edges _).1 hv
    injection e2 with e3 e4
    subst e4
    obtain ⟨ha, hdt'⟩ := src_pin h ht0 ht1 hm' hedge hinst e3.symm
    have := (RL.of_restricted h).same_stmt hm' hm hdt' hdt
    subst this
    subst ha
    obtain ⟨d2, hd2, p, o, hp, hcase⟩ := hedge
    rw [hdf] at hd2; injection hd2 with hd2; subst hd2
    rcases hcase with ⟨_, e5, _⟩ | ⟨_, e5, rfl⟩
    · exfalso
      have : Plain (inst ++ "." ++ g) := (hpo _ hp _ rfl).1 _ (by rw [← e5]; simp [ROp.nets])
      exact pin_not_plain inst g this
    · injection e5 with e5
      have := VR.pin_inj_right e5
      subst this
      exact hp
  have hv : (g, some (ROp.net e.2)) ∈ pins := key e.2 (by rw [← e1]; exact he)
  refine ⟨?_, ?_⟩
  · exact ty_of_defTy hs (Or.inr ⟨_, hm, d, hdf, Or.inl ⟨g, hv, hg, rfl⟩⟩)
  · rw [e1]
    apply length_le_one_of (fanout_nodup hs.wf.edgesNodup _) (a := e.2)
    intro u hu
    have hu' := key u (mem_fanout.1 hu)
    have := eq_of_keys_nodup hpn hu' hv
    injection this with this
    injection this

theorem spec_noBBInFanout (h : Restricted r bbs) (hd : Driven r bbs) (ht0 : t0 ∈ tieNames) (ht1 : t1 ∈ tieNames)
    (hs : Spec r bbs t0 t1 c) : ∀ e ∈ c.edges, c.ty? e.1 ≠ some "bb_input" := by
  intro e he hty
  obtain ⟨ty, inst, pins, d, g, hm, hdf, e1, hc⟩ := pin_stmt h hd hs hty (Or.inl rfl)
  have hg : g ∈ d.ins := by
    rcases hc with ⟨_, hg⟩ | ⟨hc, _⟩
    · exact hg
    · exact absurd hc (by decide)
  have hinst : Plain inst := (h.stmts _ hm).2.1
  obtain ⟨s', hm', a, b, hedge, e2⟩ := (hs.edges _).1 he
  have e3 : a.nm t0 t1 = inst ++ "." ++ g := by rw [← e1, e2]
  obtain ⟨_, hdt'⟩ := src_pin h ht0 ht1 hm' hedge hinst e3
  have hD1 : DefTy bbs r.inputs r.stmts (inst ++ "." ++ g) "bb_output" := Or.inr ⟨s', hm', hdt'⟩
  have hD2 : DefTy bbs r.inputs r.stmts (inst ++ "." ++ g) "bb_input" :=
    Or.inr ⟨_, hm, d, hdf, Or.inr (Or.inl ⟨g, hg, rfl, rfl⟩)⟩
  exact absurd ((RL.of_restricted h).defTy_fun hD1 hD2) (by decide)

/-- **the circuit of a netlist without floating wires is lint-clean** -/
theorem spec_lintClean (h : Restricted r bbs) (hd : Driven r bbs) (ht0 : t0 ∈ tieNames) (ht1 : t1 ∈ tieNames)
    (hs : Spec r bbs t0 t1 c) : LintClean c :=
  ⟨hs.wf, spec_typed h hs, spec_noFanin h hd ht0 ht1 hs, spec_single h hd hs, spec_multi h hd hs,
    spec_bbOut h hd ht0 ht1 hs, spec_noBBInFanout h hd ht0 ht1 hs⟩

/-! ### the registry -/

theorem hasDot_plain {n : Name} (h : Plain n) : hasDot n = false := by
  unfold hasDot
  cases hc : n.toList.contains '.' with
  | false => rfl
  | true => exact absurd hc h.nodot

theorem hasDot_tie {n : Name} (h : n ∈ tieNames) : hasDot n = false := by
  simp only [tieNames, List.mem_cons, List.not_mem_nil, or_false] at h
  rcases h with rfl | rfl | rfl | rfl | rfl <;> decide

theorem spec_registryOK (h : Restricted r bbs) (hd : Driven r bbs) (ht0 : t0 ∈ tieNames) (ht1 : t1 ∈ tieNames)
    (hs : Spec r bbs t0 t1 c) : C20.RegistryOK c := by
  refine ⟨?_, ?_⟩
  · intro x hx hdot
    obtain ⟨a, ha⟩ := spec_has hs ((has_iff_mem c x).2 hx)
    rcases ha with ⟨t, ht, _⟩ | ⟨rfl, _⟩ | ⟨rfl, _⟩ | ⟨hf, _⟩
    · rcases ht with ⟨hi, _⟩ | ⟨s, hm, hdt⟩
      · rw [hasDot_plain (h.inputsPlain x hi)] at hdot; cases hdot
      · rcases dty_cases (h.stmts s hm) hdt with ⟨hp, _, _⟩ | ⟨inst, g, hi, hpi, _, e, _⟩
        · rw [hasDot_plain hp] at hdot; cases hdot
        · cases s with
          | gate ty inst' out ops => cases hi
          | assign l rr => cases hi
          | bb ty inst' pins =>
            simp only [RStmt.instName, List.cons.injEq, and_true] at hi
            subst hi
            obtain ⟨_, _, d, hdf, _⟩ := h.stmts _ hm
            rw [e, LintLink.dotPrefix_pin inst' g (hasDot_plain hpi), LintLink.lookup_ne_none_iff]
            exact ⟨(inst', d), (hs.bbs _).2 ⟨_, hm, d, hdf, rfl⟩, rfl⟩
    · rw [hasDot_tie ht0] at hdot; cases hdot
    · rw [hasDot_tie ht1] at hdot; cases hdot
    · exact absurd hf (no_floating h hd x)
  · intro q hq hv
    obtain ⟨s, hm, hreg⟩ := (hs.bbs q).1 hq
    cases s with
    | gate ty inst out ops => exact hreg
    | assign l rr => exact hreg
    | bb ty inst pins =>
      obtain ⟨d, hdf, rfl⟩ := hreg
      rcases hv with ⟨g, hg, hv⟩ | ⟨g, hg, hv⟩
      · apply hv
        exact ty_of_defTy hs (Or.inr ⟨_, hm, d, hdf, Or.inr (Or.inl ⟨g, hg, rfl, rfl⟩)⟩)
      · apply hv
        exact ty_of_defTy hs (Or.inr ⟨_, hm, d, hdf, Or.inr (Or.inr ⟨g, hg, rfl, rfl⟩)⟩)

/-- **both Verilog readers** succeed on a netlist of the restricted subset without floating wires, and their results
    pass lint for every set-iteration order -/
theorem readers_pass_lint (h : Restricted r bbs) (hd : Driven r bbs) (ord ordIn ord' ord'' : Ord) (hord : OrdOK ord)
    (hordIn : OrdOK ordIn) (hord' : OrdOK ord') (hord'' : OrdOK ord'') :
    ∃ cf cv, FastVerilog.assemble r.toFParsed bbs ord ordIn = .ok cf ∧ Verilog.transform r.toModule bbs ord' = .ok cv ∧
      lint cf {} ord'' = Outcome.ok ∧ lint cv {} ord'' = Outcome.ok := by
  obtain ⟨cf, hf, sf⟩ := fast_spec h ord ordIn hord hordIn
  obtain ⟨cv, hv, sv⟩ := full_spec h ord' hord'
  have m0 : "tie0" ∈ tieNames := by decide
  have m1 : "tie1" ∈ tieNames := by decide
  have m2 : "tie_0" ∈ tieNames := by decide
  have m3 : "tie_1" ∈ tieNames := by decide
  exact ⟨cf, cv, hf, hv,
    C20.lint_accepts cf ord'' hord'' (spec_lintClean h hd m0 m1 sf) (spec_registryOK h hd m0 m1 sf),
    C20.lint_accepts cv ord'' hord'' (spec_lintClean h hd m2 m3 sv) (spec_registryOK h hd m2 m3 sv)⟩

end

end LintProdFV
end CG
