/- C11: `sensitivity_transform_ok` as first stated (no name-clash hypothesis) is FALSE.  The transform adds every startpoint
   `s` of the cone as a fresh input next to the synthesised nodes `orig_<x>`, `pc_<y>`, `inv_<s'>_<x>`, `dif_out_<s'>`,
   `sen_out_<o>`, and the copies `inv_<s>_<x>` / `inv_<s'>_<x'>` of two different startpoints may coincide.  Six
   lint-clean, blackbox-free, acyclic counterexamples, one per clause of the added hypotheses `hclash` / `hsep` of
   `C11.sensitivity_transform_ok'`; all other hypotheses of the first statement hold and the transform fails. -/
import CG.Props.C11
namespace CG
namespace SensOkCex
open Circuit

def inp : Attr := { ty := some "input", out := some false }

/-- the inputs `ins` feeding one `and` gate `g` -/
def mk (ins : List Name) : Circuit :=
  { nodes := ins.map (fun s => (s, inp)) ++ [("g", { ty := some "and", out := some true })],
    edges := ins.map (fun s => (s, "g")) }

/-- every hypothesis of the first statement of `C11.sensitivity_transform_ok` holds (with `ord = id`), yet the call fails -/
def Refutes (c : Circuit) (n : Name) (sp tfi : List Name) : Prop :=
  C11.Good c ∧ Acyclic c ∧ c.has n = true ∧ Query.startpoints c [n] = .ok sp ∧ sp ≠ [] ∧
  Query.transitiveFanin c [n] = .ok tfi ∧ (∀ x ∈ n :: tfi, x ≠ "" ∧ Circuit.isDigit0 x = false) ∧
  (∀ x ∈ n :: tfi, c.ty? x ≠ some "bb_input" ∧ c.ty? x ≠ some "bb_output") ∧
  ¬ ∃ sen, Tx.sensitivityTransform c n id = .ok sen

theorem fails_of {c : Circuit} {n : Name} (h : (Tx.sensitivityTransform c n id).toOption = none) :
    ¬ ∃ sen, Tx.sensitivityTransform c n id = .ok sen := by
  rintro ⟨sen, hs⟩
  exact SensE.toOption_none h sen hs

/-- a startpoint called `orig_a` next to the startpoint `a` (clashes with the original copy of `a`) -/
def cexOrig : Circuit := mk ["a", "orig_a"]
/-- a startpoint called `inv_a_g` next to the startpoint `a` (clashes with the copy of `g` in `inv_a`) -/
def cexInv : Circuit := mk ["a", "inv_a_g"]
/-- a startpoint called `dif_out_a` next to the startpoint `a` (clashes with the comparator of the copy `inv_a`) -/
def cexDif : Circuit := mk ["a", "dif_out_a"]
/-- a startpoint called `pc_in_0` (clashes with the first input of the population counter) -/
def cexPc : Circuit := mk ["a", "pc_in_0"]
/-- a startpoint called `sen_out_0` (clashes with the first output buffer) -/
def cexOut : Circuit := mk ["a", "sen_out_0"]
/-- the startpoints `a`, `a_b` and the cone nodes `b_g`, `g`: `inv_a` ++ `_b_g` = `inv_a_b` ++ `_g` -/
def cexSep : Circuit :=
  { nodes := [("a", inp), ("a_b", inp), ("b_g", { ty := some "and", out := some false }),
              ("g", { ty := some "buf", out := some true })],
    edges := [("a", "b_g"), ("a_b", "b_g"), ("b_g", "g")] }

theorem refutes_orig : Refutes cexOrig "g" ["a", "orig_a"] ["a", "orig_a"] := by
  refine ⟨⟨?_, rfl, by decide⟩, ⟨fun x => if x = "g" then 1 else 0, by decide⟩, by decide,
    SensE.ok_of_toOption (by decide +kernel), by simp, SensE.ok_of_toOption (by decide +kernel), by decide, by decide,
    fails_of (by decide +kernel)⟩
  exact Limit.lintClean_of_checks cexOrig ⟨by decide, by decide, by decide⟩ (by decide) (by decide) (by decide)

theorem refutes_inv : Refutes cexInv "g" ["a", "inv_a_g"] ["a", "inv_a_g"] := by
  refine ⟨⟨?_, rfl, by decide⟩, ⟨fun x => if x = "g" then 1 else 0, by decide⟩, by decide,
    SensE.ok_of_toOption (by decide +kernel), by simp, SensE.ok_of_toOption (by decide +kernel), by decide, by decide,
    fails_of (by decide +kernel)⟩
  exact Limit.lintClean_of_checks cexInv ⟨by decide, by decide, by decide⟩ (by decide) (by decide) (by decide)

theorem refutes_dif : Refutes cexDif "g" ["a", "dif_out_a"] ["a", "dif_out_a"] := by
  refine ⟨⟨?_, rfl, by decide⟩, ⟨fun x => if x = "g" then 1 else 0, by decide⟩, by decide,
    SensE.ok_of_toOption (by decide +kernel), by simp, SensE.ok_of_toOption (by decide +kernel), by decide, by decide,
    fails_of (by decide +kernel)⟩
  exact Limit.lintClean_of_checks cexDif ⟨by decide, by decide, by decide⟩ (by decide) (by decide) (by decide)

theorem refutes_pc : Refutes cexPc "g" ["a", "pc_in_0"] ["a", "pc_in_0"] := by
  refine ⟨⟨?_, rfl, by decide⟩, ⟨fun x => if x = "g" then 1 else 0, by decide⟩, by decide,
    SensE.ok_of_toOption (by decide +kernel), by simp, SensE.ok_of_toOption (by decide +kernel), by decide, by decide,
    fails_of (by decide +kernel)⟩
  exact Limit.lintClean_of_checks cexPc ⟨by decide, by decide, by decide⟩ (by decide) (by decide) (by decide)

theorem refutes_out : Refutes cexOut "g" ["a", "sen_out_0"] ["a", "sen_out_0"] := by
  refine ⟨⟨?_, rfl, by decide⟩, ⟨fun x => if x = "g" then 1 else 0, by decide⟩, by decide,
    SensE.ok_of_toOption (by decide +kernel), by simp, SensE.ok_of_toOption (by decide +kernel), by decide, by decide,
    fails_of (by decide +kernel)⟩
  exact Limit.lintClean_of_checks cexOut ⟨by decide, by decide, by decide⟩ (by decide) (by decide) (by decide)

theorem refutes_sep : Refutes cexSep "g" ["a", "a_b"] ["b_g", "a", "a_b"] := by
  refine ⟨⟨?_, rfl, by decide⟩, ⟨fun x => if x = "g" then 2 else if x = "b_g" then 1 else 0, by decide⟩, by decide,
    SensE.ok_of_toOption (by decide +kernel), by simp, SensE.ok_of_toOption (by decide +kernel), by decide, by decide,
    fails_of (by decide +kernel)⟩
  exact Limit.lintClean_of_checks cexSep ⟨by decide, by decide, by decide⟩ (by decide) (by decide) (by decide)

/-- the clause of the added hypotheses each counterexample violates -/
theorem violated :
    ("orig_a" : Name) = "orig_" ++ "a" ∧ ("inv_a_g" : Name) = "inv_" ++ "a" ++ "_" ++ "g" ∧
    ("dif_out_a" : Name) = "dif_out_" ++ "a" ∧ ("pc_in_0" : Name) = "pc_" ++ "in_0" ∧
    ("sen_out_0" : Name) = "sen_out_" ++ toString 0 ∧
    (("a" : Name) ++ "_" ++ "b_g" = "a_b" ++ "_" ++ "g" ∧ ("a" : Name) ≠ "a_b") := by
  decide

/-- hence the first statement of `C11.sensitivity_transform_ok` is refuted outright -/
theorem sensitivity_transform_ok_false :
    ¬ ∀ (c : Circuit) (n : Name) (ord : Ord) (_ : OrdOK ord) (_ : C11.Good c) (_ : Acyclic c) (_ : c.has n = true)
        (sp : List Name) (_ : Query.startpoints c [n] = .ok sp) (_ : sp ≠ [])
        (tfi : List Name) (_ : Query.transitiveFanin c [n] = .ok tfi)
        (_ : ∀ x ∈ n :: tfi, x ≠ "" ∧ Circuit.isDigit0 x = false)
        (_ : ∀ x ∈ n :: tfi, c.ty? x ≠ some "bb_input" ∧ c.ty? x ≠ some "bb_output"),
        ∃ sen, Tx.sensitivityTransform c n ord = .ok sen := by
  intro hall
  obtain ⟨hg, hac, hn, hsp, hne, htfi, hnames, hnbb, hfail⟩ := refutes_orig
  exact hfail (hall cexOrig "g" id (fun l => List.Perm.refl l) hg hac hn _ hsp hne _ htfi hnames hnbb)

end SensOkCex
end CG
