/- C15 helper: `add_blackbox(dff, inst, {"D": d, "Q": q})` evaluated -/
import CG.Proofs.BenchAdds
import CG.Proofs.ApiBB
set_option linter.unusedSimpArgs false
set_option linter.unusedVariables false
namespace CG
namespace BenchP
open Circuit Ternary Bench

/-- `add(m, t)` with default flags on a fresh acceptable name -/
theorem add_fresh_plain (c : Circuit) (m : Name) (t : String) (hf : c.has m = false) (hok : Limit.NameOK m)
    (ht : T.supported.contains t = true) :
    c.add { n := m, ty := t } = (c.addNodeAttr m { ty := some t, out := some false }, .ok, m) := by
  rw [add_redef_irrel c _ rfl hf]
  rw [add_eq_addTail c _ m rfl (fun _ => rfl) hok ht (by simp) (by simp)]
  simp [addTail, connect]

theorem pins_one (inst : Name) (c : Circuit) (t p : String) (hf : c.has (inst ++ "." ++ p) = false)
    (hok : Limit.NameOK (inst ++ "." ++ p)) (ht : T.supported.contains t = true) :
    addBlackbox.pins inst c t [p] = (c.addNodeAttr (inst ++ "." ++ p) { ty := some t, out := some false }, .ok) := by
  rw [pins_cons, add_fresh_plain c _ t hf hok ht]
  simp only [if_true]
  rw [addBlackbox.pins]

theorem go_dff (inst : Name) (c3 c4 c5 : Circuit) (d q : Name)
    (h4 : c3.connect [d] [inst ++ "." ++ "D"] = (c4, .ok)) (h5 : c4.connect [inst ++ "." ++ "Q"] [q] = (c5, .ok)) :
    addBlackbox.go dffBB inst c3 [("D", [d]), ("Q", [q])] = (c5, .ok) := by
  rw [addBlackbox.go]
  have e1 : dffBB.ins.contains "D" = true := by decide
  rw [if_pos e1, h4]
  simp only []
  rw [addBlackbox.go]
  have e2 : ¬ (dffBB.ins.contains "Q" = true) := by decide
  have e3 : dffBB.outs.contains "Q" = true := by decide
  rw [if_neg e2, if_pos e3, h5]
  simp only []
  rw [addBlackbox.go]

theorem addBlackbox_eq (c c1 c2 c5 : Circuit) (inst : Name) (conns : List (Name × List Name))
    (hnone : c.bbs.lookup inst = none)
    (h1 : addBlackbox.pins inst c "bb_input" ["D"] = (c1, .ok))
    (h2 : addBlackbox.pins inst c1 "bb_output" ["Q"] = (c2, .ok))
    (h3 : addBlackbox.go dffBB inst (c2.setBB inst dffBB) conns = (c5, .ok)) :
    c.addBlackbox dffBB inst conns id = (c5, .ok) := by
  unfold addBlackbox
  rw [hnone]
  simp only [Option.isSome_none, Bool.false_eq_true, if_false, id, dffBB]
  rw [h1]
  simp only []
  rw [h2]
  simp only []
  exact h3

theorem setBB_fresh (c : Circuit) (inst : Name) (bb : BBox) (h : c.bbs.lookup inst = none) :
    c.setBB inst bb = { c with bbs := c.bbs ++ [(inst, bb)] } := by
  unfold setBB
  rw [h]
  rfl

def pinAttrD : Attr := { ty := some "bb_input", out := some false }
def pinAttrQ : Attr := { ty := some "bb_output", out := some false }

theorem connectCheck_bbout (c : Circuit) (u v : Name) (hu : c.ty? u = some "bb_output") (hv : c.ty? v = some "buf")
    (hfo : c.fanout u = []) (hfi : c.fanin v = []) : c.connectCheck [u] [v] = none := by
  unfold connectCheck
  have h1 : c.has u = true := has_of_ty? hu
  have h2 : c.has v = true := has_of_ty? hv
  have g : connectCheck.goV c [u] [v] = none := by
    apply Limit.goV_none
    intro v' hv'
    rw [List.mem_singleton] at hv'; rw [hv']
    exact ⟨"buf", hv, by rw [Limit.T_connectL0]; decide, fun _ => by rw [hfi]; simp⟩
  simp only [List.any_cons, List.any_nil, h1, h2, Bool.not_true, Bool.or_false, Bool.false_eq_true, if_false, g]
  rw [connectCheck.goU]
  simp only [hu]
  have e2 : (T.connectL 2).contains "bb_output" = false := by rw [Limit.T_connectL2]; decide
  have e3 : (T.connectL 3).contains "bb_output" = true := by rw [Limit.T_connectL3]; decide
  simp only [e2, e3, Bool.false_eq_true, if_false, if_true, List.any_cons, List.any_nil, hv, hfo, bne_self_eq_false,
    Bool.or_false, List.length_nil, List.length_cons]
  simp [connectCheck.goU]

theorem fanout_nil_of {t : Circuit} {n : Name} (h : ∀ e ∈ t.edges, e.1 ≠ n) : t.fanout n = [] := by
  unfold Circuit.fanout
  rw [List.map_eq_nil_iff, List.filter_eq_nil_iff]
  intro e he
  simpa using h e he

theorem bbs_of_nodes_conn {c c' : Circuit} {us vs : List Name} (h : c.connect us vs = (c', .ok)) : c'.bbs = c.bbs := by
  have := connect_bbs c us vs
  rw [h] at this; exact this

theorem addEdge_name (c : Circuit) (u v : Name) : (c.addEdge u v).name = c.name := by
  unfold addEdge; split <;> rfl

theorem addEdges_inner_name (u : Name) (vs : List Name) (c : Circuit) :
    (vs.foldl (fun c v => c.addEdge u v) c).name = c.name := by
  induction vs generalizing c with
  | nil => rfl
  | cons v vs ih => rw [List.foldl_cons, ih, addEdge_name]

theorem addEdges_name (c : Circuit) (us vs : List Name) : (c.addEdges us vs).name = c.name := by
  unfold addEdges
  induction us generalizing c with
  | nil => rfl
  | cons u us ih => rw [List.foldl_cons, ih, addEdges_inner_name]

theorem name_of_conn {c c' : Circuit} {us vs : List Name} (h : c.connect us vs = (c', .ok)) : c'.name = c.name := by
  unfold connect at h
  split at h
  · injection h with h _; rw [← h]
  · split at h
    · injection h with h _; rw [← h]
    · injection h with h _; rw [← h, addEdges_name]

theorem pinD_ne_pinQ (inst : Name) : inst ++ "." ++ "D" ≠ inst ++ "." ++ "Q" := by
  intro h
  rw [String.append_right_inj] at h
  exact absurd h (by decide)

/-- the flop instantiation: two fresh pins, the registry entry and the two wires -/
theorem addBlackbox_dff (c : Circuit) (inst d q : Name)
    (hnone : c.bbs.lookup inst = none) (hok : Limit.NameOK inst)
    (hD : c.has (inst ++ "." ++ "D") = false) (hQ : c.has (inst ++ "." ++ "Q") = false)
    (hDe : ∀ e ∈ c.edges, e.2 ≠ inst ++ "." ++ "D") (hQe : ∀ e ∈ c.edges, e.1 ≠ inst ++ "." ++ "Q")
    (hd : d.isEmpty = false) (hq : q.isEmpty = false)
    (hdty : ∃ t, c.ty? d = some t ∧ (T.connectL 2).contains t = false ∧ (T.connectL 3).contains t = false)
    (hqty : c.ty? q = some "buf") (hqfi : ∀ e ∈ c.edges, e.2 ≠ q) :
    ∃ c', c.addBlackbox dffBB inst [("D", if d.isEmpty then [] else [d]), ("Q", if q.isEmpty then [] else [q])] id
        = (c', .ok) ∧
      c'.nodes = c.nodes ++ [(inst ++ "." ++ "D", pinAttrD), (inst ++ "." ++ "Q", pinAttrQ)] ∧
      (∀ e, e ∈ c'.edges ↔ e ∈ c.edges ∨ e = (d, inst ++ "." ++ "D") ∨ e = (inst ++ "." ++ "Q", q)) ∧
      (c.edges.Nodup → c'.edges.Nodup) ∧
      c'.bbs = c.bbs ++ [(inst, dffBB)] ∧ c'.name = c.name := by
  rw [hd, hq]
  simp only [Bool.false_eq_true, if_false]
  have okD : Limit.NameOK (inst ++ "." ++ "D") := (hok.append _).append _
  have okQ : Limit.NameOK (inst ++ "." ++ "Q") := (hok.append _).append _
  have hsupI : T.supported.contains "bb_input" = true := by rw [Limit.T_supported]; decide
  have hsupO : T.supported.contains "bb_output" = true := by rw [Limit.T_supported]; decide
  -- the pins
  have h1 := pins_one inst c "bb_input" "D" hD okD hsupI
  rw [Limit.addNodeAttr_fresh c _ _ hD] at h1
  generalize hc1 : ({ c with nodes := c.nodes ++ [(inst ++ "." ++ "D", ({ ty := some "bb_input", out := some false } : Attr))] } : Circuit) = c1 at h1
  have n1 : c1.nodes = c.nodes ++ [(inst ++ "." ++ "D", pinAttrD)] := by rw [← hc1]; rfl
  have e1 : c1.edges = c.edges := by rw [← hc1]
  have b1 : c1.bbs = c.bbs := by rw [← hc1]
  have nm1 : c1.name = c.name := by rw [← hc1]
  have hQ1 : c1.has (inst ++ "." ++ "Q") = false := by
    cases hh : c1.has (inst ++ "." ++ "Q") with
    | false => rfl
    | true =>
      rcases (Limit.ext_has n1 _).mp hh with h | h
      · rw [hQ] at h; cases h
      · exact absurd h.symm (pinD_ne_pinQ inst)
  have h2 := pins_one inst c1 "bb_output" "Q" hQ1 okQ hsupO
  rw [Limit.addNodeAttr_fresh c1 _ _ hQ1] at h2
  generalize hc2 : ({ c1 with nodes := c1.nodes ++ [(inst ++ "." ++ "Q", ({ ty := some "bb_output", out := some false } : Attr))] } : Circuit) = c2 at h2
  have n2 : c2.nodes = c1.nodes ++ [(inst ++ "." ++ "Q", pinAttrQ)] := by rw [← hc2]; rfl
  have e2 : c2.edges = c.edges := by rw [← hc2]; exact e1
  have b2 : c2.bbs = c.bbs := by rw [← hc2]; exact b1
  have nm2 : c2.name = c.name := by rw [← hc2]; exact nm1
  -- the registry
  have hnone2 : c2.bbs.lookup inst = none := by rw [b2]; exact hnone
  have hc3 := setBB_fresh c2 inst dffBB hnone2
  obtain ⟨c3, hc3def⟩ : ∃ c3, c3 = c2.setBB inst dffBB := ⟨_, rfl⟩
  rw [← hc3def] at hc3
  have n3 : c3.nodes = c2.nodes := by rw [hc3]
  have e3 : c3.edges = c.edges := by rw [hc3]; exact e2
  have b3 : c3.bbs = c.bbs ++ [(inst, dffBB)] := by rw [hc3]; simp only []; rw [b2]
  have nm3 : c3.name = c.name := by rw [hc3]; exact nm2
  -- facts about c3
  have has1 : ∀ x, c.has x = true → c1.has x = true := fun x hx => (Limit.ext_has n1 x).mpr (Or.inl hx)
  have has2 : ∀ x, c1.has x = true → c2.has x = true := fun x hx => (Limit.ext_has n2 x).mpr (Or.inl hx)
  have has3 : ∀ x, c.has x = true → c3.has x = true := fun x hx => by
    rw [has_congr n3]; exact has2 x (has1 x hx)
  have ty3 : ∀ x, c.has x = true → c3.ty? x = c.ty? x := fun x hx => by
    rw [ty?_congr n3, Limit.ext_ty_old n2 (has1 x hx), Limit.ext_ty_old n1 hx]
  have hasD1 : c1.has (inst ++ "." ++ "D") = true := (Limit.ext_has n1 _).mpr (Or.inr rfl)
  have hasD3 : c3.has (inst ++ "." ++ "D") = true := by rw [has_congr n3]; exact has2 _ hasD1
  have hasQ3 : c3.has (inst ++ "." ++ "Q") = true := by
    rw [has_congr n3]; exact (Limit.ext_has n2 _).mpr (Or.inr rfl)
  have tyD3 : c3.ty? (inst ++ "." ++ "D") = some "bb_input" := by
    rw [ty?_congr n3, Limit.ext_ty_old n2 hasD1, Limit.ext_ty_new n1 hD]; rfl
  have tyQ3 : c3.ty? (inst ++ "." ++ "Q") = some "bb_output" := by
    rw [ty?_congr n3, Limit.ext_ty_new n2 hQ1]; rfl
  obtain ⟨td, htd, htd2, htd3⟩ := hdty
  have hdhas : c.has d = true := has_of_ty? htd
  have hqhas : c.has q = true := has_of_ty? hqty
  -- first wire
  obtain ⟨c4, hc4, s4⟩ := Ternary.connect_ok c3 [d] [inst ++ "." ++ "D"] (Or.inr (Or.inr (by
    refine Limit.connectCheck_none c3 _ _ ?_ ?_ ?_ ?_
    · intro u hu; rw [List.mem_singleton] at hu; rw [hu]; exact has3 d hdhas
    · intro v hv; rw [List.mem_singleton] at hv; rw [hv]; exact hasD3
    · intro v hv
      rw [List.mem_singleton] at hv; rw [hv]
      refine ⟨"bb_input", tyD3, by rw [Limit.T_connectL0]; decide, fun _ => ?_⟩
      have : c3.fanin (inst ++ "." ++ "D") = [] := by
        apply fanin_nil_of; rw [e3]; exact hDe
      rw [this]; simp
    · intro u hu
      rw [List.mem_singleton] at hu; rw [hu]
      exact ⟨td, by rw [ty3 d hdhas]; exact htd, htd2, htd3⟩)))
  have e4 : ∀ e, e ∈ c4.edges ↔ e ∈ c.edges ∨ e = (d, inst ++ "." ++ "D") := by
    intro e
    rw [s4.edges, e3]
    simp only [List.mem_singleton]
    constructor
    · rintro (h | ⟨h, h'⟩)
      · exact Or.inl h
      · exact Or.inr (Prod.ext h h')
    · rintro (h | h)
      · exact Or.inl h
      · rw [h]; exact Or.inr ⟨rfl, rfl⟩
  have qneD : q ≠ inst ++ "." ++ "D" := by
    intro h; rw [h, hD] at hqhas; cases hqhas
  have qneQ : q ≠ inst ++ "." ++ "Q" := by
    intro h; rw [h, hQ] at hqhas; cases hqhas
  -- second wire
  obtain ⟨c5, hc5, s5⟩ := Ternary.connect_ok c4 [inst ++ "." ++ "Q"] [q] (Or.inr (Or.inr (by
    apply connectCheck_bbout
    · rw [ty?_congr s4.nodes]; exact tyQ3
    · rw [ty?_congr s4.nodes, ty3 q hqhas]; exact hqty
    · apply fanout_nil_of
      intro e he
      rcases (e4 e).mp he with h | h
      · exact hQe e h
      · rw [h]; exact fun h' => by
          have : d = inst ++ "." ++ "Q" := h'
          rw [this, hQ] at hdhas; cases hdhas
    · apply fanin_nil_of
      intro e he
      rcases (e4 e).mp he with h | h
      · exact hqfi e h
      · rw [h]; exact fun h' => qneD h'.symm)))
  refine ⟨c5, ?_, ?_, ?_, ?_, ?_, ?_⟩
  · exact addBlackbox_eq c c1 c2 c5 inst _ hnone h1 h2 (hc3def ▸ go_dff inst c3 c4 c5 d q hc4 hc5)
  · rw [s5.nodes, s4.nodes, n3, n2, n1, List.append_assoc]; rfl
  · intro e
    rw [s5.edges, e4]
    simp only [List.mem_singleton]
    constructor
    · rintro ((h | h) | ⟨h, h'⟩)
      · exact Or.inl h
      · exact Or.inr (Or.inl h)
      · exact Or.inr (Or.inr (Prod.ext h h'))
    · rintro (h | h | h)
      · exact Or.inl (Or.inl h)
      · exact Or.inl (Or.inr h)
      · rw [h]; exact Or.inr ⟨rfl, rfl⟩
  · intro hnd
    apply s5.nodupE
    apply s4.nodupE
    rw [e3]; exact hnd
  · rw [bbs_of_nodes_conn hc5, bbs_of_nodes_conn hc4, b3]
  · rw [name_of_conn hc5, name_of_conn hc4, nm3]

end BenchP
end CG
