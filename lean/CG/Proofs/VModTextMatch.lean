/- C14 (text level, module extraction) helper: on a text of the writer's shape in which `endmodule` occurs as a word only
   at the end, the module-extraction pattern matches at position 0 and group 1 is the text without its last character -/
import CG.Proofs.VModTextDen
namespace CG
namespace VMT
open Regex BenchText

/-- the writer's text, as far as the pattern cares: `module NAME (P);Bd endmodule\n` with `Bd` ending in a newline -/
def shapeOf (w P Bd : List Char) : List Char :=
  'm' :: 'o' :: 'd' :: 'u' :: 'l' :: 'e' :: ' ' :: (w ++ ' ' :: '(' :: (P ++ ')' :: ';' :: (Bd ++ (kwE ++ ['\n']))))

theorem den_ws (ctx : Ctx) (s : List Char) (c : Caps) : Den ctx (.set wsS) (' ' :: s) c s c :=
  ⟨' ', rfl, by decide, rfl⟩

theorem lastW_append_nl (pre Bd : List Char) (hBd : Bd.getLast? = some '\n') : lastW (pre ++ Bd) = false := by
  unfold lastW
  rw [List.getLast?_append, hBd]
  rfl

theorem lastW_append_kwE (pre : List Char) : lastW (pre ++ kwE) = true := by
  unfold lastW
  rw [List.getLast?_append]
  rfl

theorem headW_kwE (s : List Char) : headW (kwE ++ s) = true := rfl

/-- a declarative match of the whole text but the last newline exists -/
theorem den_exists (ctx : Ctx) (hd : ctx.dotall = true) (w P Bd : List Char) (hT : txt ctx = shapeOf w P Bd)
    (hBd : Bd.getLast? = some '\n') : ∃ c', Den ctx (rxMod w) (txt ctx) [] ['\n'] c' := by
  suffices h : ∃ c1, Den ctx (litThen ['m', 'o', 'd', 'u', 'l', 'e'] (.seq (.plus (.set wsS) true) (litThen w rxTail)))
      (txt ctx) [] ['\n'] c1 by
    obtain ⟨c1, h⟩ := h
    exact ⟨_, c1, h, rfl⟩
  refine ⟨?c, ?h⟩
  case c => exact [(2, ctx.s.size - (Bd ++ (kwE ++ ['\n'])).length, ctx.s.size - (kwE ++ ['\n']).length)]
  rw [den_litThen]
  refine ⟨' ' :: (w ++ ' ' :: '(' :: (P ++ ')' :: ';' :: (Bd ++ (kwE ++ ['\n'])))), hT, ?_⟩
  refine ⟨_, _, ⟨_, _, den_ws ctx _ [], 0, rfl, rfl⟩, ?_⟩
  rw [den_litThen]
  refine ⟨_, rfl, ?_⟩
  -- `\s*`
  refine ⟨_, _, ⟨1, _, _, den_ws ctx _ [], by simp, rfl, rfl⟩, ?_⟩
  -- `\(`
  refine ⟨_, _, (den_ch ctx '(' _ _ _ _).2 ⟨rfl, rfl⟩, ?_⟩
  -- `.*?`
  refine ⟨_, _, den_star_any ctx hd false [] P _, ?_⟩
  -- `\);`
  refine ⟨_, _, (den_ch ctx ')' _ _ _ _).2 ⟨rfl, rfl⟩, ?_⟩
  refine ⟨_, _, (den_ch ctx ';' _ _ _ _).2 ⟨rfl, rfl⟩, ?_⟩
  -- `(.*?)`
  refine ⟨_, _, ⟨_, den_star_any ctx hd false [] Bd _, rfl⟩, ?_⟩
  -- `\bendmodule\b`
  have e1 : txt ctx = ('m' :: 'o' :: 'd' :: 'u' :: 'l' :: 'e' :: ' ' :: (w ++ ' ' :: '(' :: (P ++ [')', ';'])) ++ Bd) ++
      (kwE ++ ['\n']) := by
    rw [hT]; simp [shapeOf]
  have e2 : txt ctx = (('m' :: 'o' :: 'd' :: 'u' :: 'l' :: 'e' :: ' ' :: (w ++ ' ' :: '(' :: (P ++ [')', ';'])) ++ Bd) ++ kwE) ++
      ['\n'] := by
    rw [hT]; simp [shapeOf]
  refine ⟨_, _, ⟨?_, rfl, rfl⟩, ?_⟩
  · rw [wbAt_split ctx _ _ e1, lastW_append_nl _ _ hBd, headW_kwE]
    rfl
  rw [den_litThen]
  refine ⟨_, rfl, ?_, rfl, rfl⟩
  rw [wbAt_split ctx _ _ e2, lastW_append_kwE]
  rfl

/-- every declarative match from the start of the text ends right after a whole-word `endmodule`; group 1 is the match -/
theorem den_end (ctx : Ctx) (w s' : List Char) (c' : Caps) (h : Den ctx (rxMod w) (txt ctx) [] s' c') :
    capOf c' 1 = some (0, ctx.s.size - s'.length) ∧ ∃ pre, txt ctx = pre ++ kwE ++ s' ∧ BrkL pre ∧ BrkR s' := by
  obtain ⟨c1, hin, rfl⟩ := h
  refine ⟨by simp [capOf], ?_⟩
  rw [den_litThen] at hin
  obtain ⟨s1, e1, s2, c2, hplus, h3⟩ := hin
  obtain ⟨w1, e2⟩ := Den.suffix ctx _ _ _ _ _ hplus
  rw [den_litThen] at h3
  obtain ⟨s3, e3, s4, c4, hA, s5, c5, hB, s6, c6, hC, s7, c7, hD, s8, c8, hE, s9, c9, hG, s10, c10, hW, hK⟩ := h3
  obtain ⟨a, e4⟩ := Den.suffix ctx _ _ _ _ _ hA
  obtain ⟨e5, -⟩ := (den_ch ctx _ _ _ _ _).1 hB
  obtain ⟨b, e6⟩ := Den.suffix ctx _ _ _ _ _ hC
  obtain ⟨e7, -⟩ := (den_ch ctx _ _ _ _ _).1 hD
  obtain ⟨e8, -⟩ := (den_ch ctx _ _ _ _ _).1 hE
  obtain ⟨d, e9⟩ := Den.suffix ctx _ _ _ _ _ hG
  obtain ⟨hw1, e10, -⟩ := hW
  rw [den_litThen] at hK
  obtain ⟨s11, e11, hw2, e12, -⟩ := hK
  subst e12
  subst e10
  let pre := ['m', 'o', 'd', 'u', 'l', 'e'] ++ w1 ++ w ++ a ++ ['('] ++ b ++ [')', ';'] ++ d
  have eT : txt ctx = pre ++ kwE ++ s' := by
    rw [e1, e2, e3, e4, e5, e6, e7, e8, e9, e11]
    simp [pre]
  refine ⟨pre, eT, ?_, ?_⟩
  · have := wbAt_split ctx pre (kwE ++ s') (by rw [eT, List.append_assoc])
    rw [e11] at hw1
    rw [hw1, headW_kwE] at this
    apply brkL_of_lastW
    cases hl : lastW pre with
    | false => rfl
    | true => rw [hl] at this; cases this
  · have := wbAt_split ctx (pre ++ kwE) s' eT
    rw [hw2, lastW_append_kwE] at this
    apply brkR_of_headW
    cases hl : headW s' with
    | false => rfl
    | true => rw [hl] at this; cases this

theorem need_rxMod (s : Array Char) (w : List Char) (hw : w.length ≤ s.size) : need s.size (rxMod w) ≤ fuelFor s := by
  simp only [rxMod, rxTail, need, need_litThen, ch, kwE, fuelFor, List.length_cons, List.length_nil]
  omega

/-- **the matcher on the writer's text**: it succeeds at position 0, the match is everything but the last newline, and
    so is group 1 -/
theorem match_module (ctx : Ctx) (hd : ctx.dotall = true) (w P Bd : List Char) (hT : txt ctx = shapeOf w P Bd)
    (hBd : Bd.getLast? = some '\n')
    (huniq : ∀ pre post, txt ctx = pre ++ kwE ++ post → BrkL pre → BrkR post → post = ['\n']) :
    ∃ caps, m ctx (fuelFor ctx.s) (rxMod w) 0 [] k0 = some (ctx.s.size - 1, caps) ∧
      capOf caps 1 = some (0, ctx.s.size - 1) := by
  obtain ⟨c0, hex⟩ := den_exists ctx hd w P Bd hT hBd
  have hw : w.length ≤ ctx.s.size := by
    rw [← txt_length, hT]
    simp only [shapeOf, List.length_cons, List.length_append]
    omega
  have hsome := m_complete ctx (rxMod w) (fuelFor ctx.s) 0 [] k0 ['\n'] c0 (Nat.zero_le _) (need_rxMod ctx.s w hw)
    (by simpa using hex) rfl
  cases hm : m ctx (fuelFor ctx.s) (rxMod w) 0 [] k0 with
  | none => rw [hm] at hsome; cases hsome
  | some x =>
    obtain ⟨s', c', h1, h2⟩ := m_sound ctx _ _ 0 [] k0 x (Nat.zero_le _) hm
    rw [List.drop_zero] at h1
    obtain ⟨hcap, pre, eT, hl, hr⟩ := den_end ctx w s' c' h1
    have hs' := huniq pre s' eT hl hr
    subst hs'
    simp only [k0, Option.some.injEq] at h2
    subst h2
    exact ⟨c', rfl, hcap⟩

end VMT
end CG
