/- C17 (super-circuit) helpers, part 9: the corrected statement, all side facts discharged -/
import CG.Proofs.SGSuperMain
import CG.Proofs.SGSuperFacts2
namespace CG
namespace SGSuper
open Supergates SGA Circuit

theorem super_fill_main (c : Circuit) (ord : Ord) (hord : OrdOK ord) (hc : LintClean c) (hnobb : c.bbs = [])
    (hac : Acyclic c) (hname : ∀ n, 2 < (c.fanin n).length → Circuit.isDigit0 n = false)
    (hbo : ∀ n, c.ty? n ≠ some "bb_output") (hout : c.outputs.length = 1)
    (c2 : Circuit) (hc2 : Tx.limitFanin c 2 ord = .ok c2) (hN : NamesOK c2)
    (hd : (algo c2 (ord c2.outputs)).headsDistinct = true) :
    ∃ s m full, runSuper c ord = .ok (s, m) ∧ fillAll s m ord = .ok full ∧
      (∀ x, x ∈ c.inputs ↔ x ∈ full.inputs) ∧ (∀ x, x ∈ c.outputs ↔ x ∈ full.outputs) ∧
      (∀ v, Consistent c v → ∃ w, Consistent full w ∧ (∀ x ∈ c.inputs, w x = v x) ∧ ∀ x ∈ c.outputs, w x = v x) ∧
      (∀ w, Consistent full w → ∃ v, Consistent c v ∧ (∀ x ∈ c.inputs, v x = w x) ∧ ∀ x ∈ c.outputs, v x = w x) := by
  obtain ⟨c2', hlim, _, _, houts, _, hlc, _, hacy, hfi, hbo2, hperm⟩ :=
    SGRun.run_limited c ord hord hc hnobb hac hname hbo
  have : c2' = c2 := by rw [hlim] at hc2; injection hc2
  subst this
  have h1 : c2'.outputs.length = 1 := by rw [houts]; exact hout
  exact super_fill_of_xdisj c ord hord hc hnobb hac hname hbo hout c2' hlim hN hd
    (kept_x_disj c2' hlc hacy hfi hbo2 (ord c2'.outputs) hperm hd h1)

end SGSuper
end CG
