/- C14 (character level, fast parser) helper: the instance pattern `rxInst` on the lines of a module text -/
import CG.Proofs.FastTextDefs
import CG.Proofs.BenchTextSpecGate
import CG.Proofs.VModTextMatch
set_option linter.unusedSimpArgs false
set_option linter.unusedVariables false
namespace CG
namespace FT
open Regex BenchText

/-! ### characters -/

theorem nsemi_mem (x : Char) : nsemi.mem x = true ↔ x.toNat ≠ 59 := by
  simp only [CSet.mem, nsemi, List.any_cons, List.any_nil, Bool.or_false, if_true, Bool.not_eq_true', Bool.and_eq_false_iff,
    Bool.or_eq_true, Bool.and_eq_true, decide_eq_true_eq, decide_eq_false_iff_not, le_iff, Char.reduceToNat]
  omega
theorem idQ_mem_i (x : Char) : idQ.mem x = true ↔
    ((97 ≤ x.toNat ∧ x.toNat ≤ 122) ∨ (65 ≤ x.toNat ∧ x.toNat ≤ 90) ∨ (48 ≤ x.toNat ∧ x.toNat ≤ 57) ∨ x.toNat = 95 ∨
      x.toNat = 39) := by
  simp only [CSet.mem, idQ, List.any_cons, List.any_nil, Bool.or_false, Bool.false_eq_true, if_false,
    Bool.or_eq_true, Bool.and_eq_true, decide_eq_true_eq, le_iff, Char.reduceToNat]
  omega
theorem nsemi_of_ne {x : Char} (h : x ≠ ';') : nsemi.mem x = true := by
  rw [nsemi_mem]; intro e; exact h ((eq_iff _ _).mpr (by rw [e]; rfl))
theorem ne_of_nsemi {x : Char} (h : nsemi.mem x = true) : x ≠ ';' := by
  rw [nsemi_mem] at h; intro e; rw [e] at h; exact h rfl
theorem idC_ne2 {x : Char} (h : idC.mem x = true) : x ≠ ';' ∧ x ≠ '(' := by
  rw [idC_mem] at h
  simp only [ne_eq, eq_iff, Char.reduceToNat]
  omega
theorem ws_ne2 {x : Char} (h : wsS.mem x = true) : x ≠ ';' ∧ x ≠ '(' := by
  rw [wsS_mem] at h
  simp only [ne_eq, eq_iff, Char.reduceToNat]
  omega
theorem idQ_ne2 {x : Char} (h : idQ.mem x = true) : x ≠ ';' ∧ x ≠ '(' := by
  rw [idQ_mem_i] at h
  simp only [ne_eq, eq_iff, Char.reduceToNat]
  omega
theorem letter_ne2 {x : Char} (h : isLetter x) : x ≠ ';' ∧ x ≠ '(' := idC_ne2 (idC_of_letter h)

/-- two decompositions into a maximal run of `P` characters followed by a non-`P` character (or nothing) coincide -/
theorem span_unique {P : Char → Prop} : ∀ {a a' b b' : List Char}, a ++ b = a' ++ b' → (∀ x ∈ a, P x) → (∀ x ∈ a', P x) →
    (∀ x t, b = x :: t → ¬ P x) → (∀ x t, b' = x :: t → ¬ P x) → a = a' ∧ b = b'
  | [], [], _, _, h, _, _, _, _ => ⟨rfl, h⟩
  | [], y :: a', b, b', h, _, ha', hb, _ => absurd (ha' y (by simp)) (hb y _ h)
  | x :: a, [], b, b', h, ha, _, _, hb' => absurd (ha x (by simp)) (hb' x _ h.symm)
  | x :: a, y :: a', b, b', h, ha, ha', hb, hb' => by
    simp only [List.cons_append, List.cons.injEq] at h
    obtain ⟨e1, e2⟩ := span_unique h.2 (fun z hz => ha z (by simp [hz])) (fun z hz => ha' z (by simp [hz])) hb hb'
    exact ⟨by rw [h.1, e1], e2⟩

section
variable (ctx : Ctx)

theorem need_rxInst (s : Array Char) : need s.size rxInst ≤ fuelFor s := by
  simp only [rxInst, need, ws1, ws, ident, ch, fuelFor]
  omega

/-- words matched by `(ident)\s+(ident)\s*\(([^;]+)\);` -/
theorem den_rxInst (s s' : List Char) (c' : Caps) :
    Den ctx rxInst s [] s' c' ↔
      ∃ x idr w0 w1 y idr2 w2 z ops, idS.mem x = true ∧ AllIdC idr ∧ wsS.mem w0 = true ∧ AllWs w1 ∧ idS.mem y = true ∧
        AllIdC idr2 ∧ AllWs w2 ∧ nsemi.mem z = true ∧ (∀ o ∈ ops, nsemi.mem o = true) ∧
        s = x :: (idr ++ (w0 :: (w1 ++ (y :: (idr2 ++ (w2 ++ '(' :: (z :: (ops ++ ')' :: ';' :: s')))))))) ∧
        c' = [(3, ctx.s.size - (z :: (ops ++ ')' :: ';' :: s')).length, ctx.s.size - (')' :: ';' :: s').length),
              (2, ctx.s.size - (y :: (idr2 ++ (w2 ++ '(' :: (z :: (ops ++ ')' :: ';' :: s'))))).length,
                  ctx.s.size - (w2 ++ '(' :: (z :: (ops ++ ')' :: ';' :: s'))).length),
              (1, ctx.s.size - s.length,
                  ctx.s.size - (w0 :: (w1 ++ (y :: (idr2 ++ (w2 ++ '(' :: (z :: (ops ++ ')' :: ';' :: s'))))))).length)] := by
  unfold rxInst ws1
  simp only [den_seq, den_group, den_ws, den_ch, den_ident, den_plus_set]
  constructor
  · rintro ⟨s1, c1, ⟨c0, ⟨x, idr, rfl, hx, hidr, rfl⟩, rfl⟩, s2, c2, ⟨w0, w1, rfl, hw0, hw1, rfl⟩, s3, c3,
      ⟨c4, ⟨y, idr2, rfl, hy, hidr2, rfl⟩, rfl⟩, s4, c5, ⟨w2, rfl, hw2, rfl⟩, s5, c6, ⟨rfl, rfl⟩, s6, c7,
      ⟨c8, ⟨z, ops, rfl, hz, hops, rfl⟩, rfl⟩, s7, c9, ⟨rfl, rfl⟩, rfl, rfl⟩
    exact ⟨x, idr, w0, w1, y, idr2, w2, z, ops, hx, hidr, hw0, hw1, hy, hidr2, hw2, hz, hops, rfl, rfl⟩
  · rintro ⟨x, idr, w0, w1, y, idr2, w2, z, ops, hx, hidr, hw0, hw1, hy, hidr2, hw2, hz, hops, rfl, rfl⟩
    exact ⟨_, _, ⟨[], ⟨x, idr, rfl, hx, hidr, rfl⟩, rfl⟩, _, _, ⟨w0, w1, rfl, hw0, hw1, rfl⟩, _, _,
      ⟨_, ⟨y, idr2, rfl, hy, hidr2, rfl⟩, rfl⟩, _, _, ⟨w2, rfl, hw2, rfl⟩, _, _, ⟨rfl, rfl⟩, _, _,
      ⟨_, ⟨z, ops, rfl, hz, hops, rfl⟩, rfl⟩, _, _, ⟨rfl, rfl⟩, rfl, rfl⟩

theorem inst_nil {s' : List Char} {c' : Caps} : ¬ Den ctx rxInst [] [] s' c' := by
  rw [den_rxInst]
  rintro ⟨x, idr, w0, w1, y, idr2, w2, z, ops, _, _, _, _, _, _, _, _, _, e, _⟩
  cases e

theorem inst_first {c : Char} (hc : idS.mem c = false) {r s' : List Char} {c' : Caps} :
    ¬ Den ctx rxInst (c :: r) [] s' c' := by
  rw [den_rxInst]
  rintro ⟨x, idr, w0, w1, y, idr2, w2, z, ops, hx, _, _, _, _, _, _, _, _, e, _⟩
  simp only [List.cons.injEq] at e
  rw [← e.1, hc] at hx
  cases hx

/-- a match contains a `(` before its first `;` -/
theorem inst_paren {s s' : List Char} {c' : Caps} (h : Den ctx rxInst s [] s' c') :
    ∃ a b, s = a ++ '(' :: b ∧ ';' ∉ a := by
  rw [den_rxInst] at h
  obtain ⟨x, idr, w0, w1, y, idr2, w2, z, ops, hx, hidr, hw0, hw1, hy, hidr2, hw2, hz, hops, e, hc⟩ := h
  refine ⟨x :: (idr ++ (w0 :: (w1 ++ (y :: (idr2 ++ w2))))), z :: (ops ++ ')' :: ';' :: s'), ?_, ?_⟩
  · rw [e]; simp
  · intro hm
    simp only [List.mem_cons, List.mem_append] at hm
    rcases hm with hm | hm | hm | hm | hm | hm | hm
    · rw [← hm] at hx; exact absurd hx (by decide)
    · exact (idC_ne2 (hidr _ hm)).1 rfl
    · rw [← hm] at hw0; exact absurd hw0 (by decide)
    · exact (ws_ne2 (hw1 _ hm)).1 rfl
    · rw [← hm] at hy; exact absurd hy (by decide)
    · exact (idC_ne2 (hidr2 _ hm)).1 rfl
    · exact (ws_ne2 (hw2 _ hm)).1 rfl

/-- the captures of an instance line -/
def instCaps (ty inst sp A rest : List Char) : Caps :=
  [(3, ctx.s.size - (A ++ ')' :: ';' :: rest).length, ctx.s.size - (')' :: ';' :: rest).length),
   (2, ctx.s.size - (inst ++ (sp ++ '(' :: (A ++ ')' :: ';' :: rest))).length,
       ctx.s.size - (sp ++ '(' :: (A ++ ')' :: ';' :: rest)).length),
   (1, ctx.s.size - (ty ++ ' ' :: (inst ++ (sp ++ '(' :: (A ++ ')' :: ';' :: rest)))).length,
       ctx.s.size - (' ' :: (inst ++ (sp ++ '(' :: (A ++ ')' :: ';' :: rest)))).length)]

theorem inst_success {ty inst sp A rest : List Char} (hty : IdentL ty) (hinst : IdentL inst) (hsp : AllWs sp)
    (hA : ';' ∉ A) (hne : A ≠ []) :
    Den ctx rxInst (ty ++ ' ' :: (inst ++ (sp ++ '(' :: (A ++ ')' :: ';' :: rest)))) [] rest
      (instCaps ctx ty inst sp A rest) := by
  obtain ⟨x, r, rfl, hx, hr⟩ := hty
  obtain ⟨y, r2, rfl, hy, hr2⟩ := hinst
  obtain ⟨z, ops, rfl⟩ := List.exists_cons_of_ne_nil hne
  rw [den_rxInst]
  refine ⟨x, r, ' ', [], y, r2, sp, z, ops, hx, hr, ws_space, by simp [AllWs], hy, hr2, hsp, ?_, ?_, by simp,
    by simp [instCaps]⟩
  · exact nsemi_of_ne (fun e => hA (by rw [e]; simp))
  · intro o ho
    exact nsemi_of_ne (fun e => hA (by rw [← e]; simp [ho]))

/-- the only declarative match at the start of an instance line is the whole statement -/
theorem inst_align {ty inst sp A rest s' : List Char} {c' : Caps} (hty : IdentL ty) (hinst : IdentL inst) (hsp : AllWs sp)
    (hA : ';' ∉ A)
    (h : Den ctx rxInst (ty ++ ' ' :: (inst ++ (sp ++ '(' :: (A ++ ')' :: ';' :: rest)))) [] s' c') :
    s' = rest ∧ c' = instCaps ctx ty inst sp A rest := by
  rw [den_rxInst] at h
  obtain ⟨x, idr, w0, w1, y, idr2, w2, z, ops, hx, hidr, hw0, hw1, hy, hidr2, hw2, hz, hops, e, hc⟩ := h
  have htyall := hty.all
  obtain ⟨i0, ir, rfl, hi0, hir⟩ := hinst
  have hxall : ∀ a ∈ x :: idr, idC.mem a = true := by
    intro a ha
    rcases List.mem_cons.mp ha with rfl | ha
    · exact idC_of_idS hx
    · exact hidr a ha
  -- the type name
  have e1 : ty ++ (' ' :: ((i0 :: ir) ++ (sp ++ '(' :: (A ++ ')' :: ';' :: rest)))) =
      (x :: idr) ++ (w0 :: (w1 ++ (y :: (idr2 ++ (w2 ++ '(' :: (z :: (ops ++ ')' :: ';' :: s'))))))) := e
  obtain ⟨E1, E1'⟩ := span_unique (P := fun c => idC.mem c = true) e1 htyall hxall
    (by intro a t ha; injection ha with ha _; rw [← ha]; decide)
    (by intro a t ha; injection ha with ha _; rw [← ha]; exact fun hh => not_ws_of_idC hh hw0)
  injection E1' with E1a E1b
  -- the blank
  have e2 : [] ++ ((i0 :: ir) ++ (sp ++ '(' :: (A ++ ')' :: ';' :: rest))) =
      w1 ++ (y :: (idr2 ++ (w2 ++ '(' :: (z :: (ops ++ ')' :: ';' :: s'))))) := E1b
  obtain ⟨E2, E2'⟩ := span_unique (P := fun c => wsS.mem c = true) e2 (by simp) hw1
    (by intro a t ha; injection ha with ha _; rw [← ha]; exact fun hh => not_idS_of_ws hh hi0)
    (by intro a t ha; injection ha with ha _; rw [← ha]; exact fun hh => not_idS_of_ws hh hy)
  -- align at `(`
  have e3 : ((i0 :: ir) ++ sp) ++ '(' :: (A ++ ')' :: ';' :: rest) =
      (y :: (idr2 ++ w2)) ++ '(' :: (z :: (ops ++ ')' :: ';' :: s')) := by
    simpa only [List.cons_append, List.append_assoc, List.nil_append] using E2'
  have hno1 : '(' ∉ y :: (idr2 ++ w2) := by
    intro hm
    simp only [List.mem_cons, List.mem_append] at hm
    rcases hm with hm | hm | hm
    · rw [← hm] at hy; exact absurd hy (by decide)
    · exact (idC_ne2 (hidr2 _ hm)).2 rfl
    · exact (ws_ne2 (hw2 _ hm)).2 rfl
  have hno2 : '(' ∉ (i0 :: ir) ++ sp := by
    intro hm
    simp only [List.cons_append, List.mem_cons, List.mem_append] at hm
    rcases hm with hm | hm | hm
    · rw [← hm] at hi0; exact absurd hi0 (by decide)
    · exact (idC_ne2 (hir _ hm)).2 rfl
    · exact (ws_ne2 (hsp _ hm)).2 rfl
  obtain ⟨E3, _, E3'⟩ := split_first e3 hno1 hno2
  -- the instance name
  have hyall : ∀ a ∈ y :: idr2, idC.mem a = true := by
    intro a ha
    rcases List.mem_cons.mp ha with rfl | ha
    · exact idC_of_idS hy
    · exact hidr2 a ha
  have hiall : ∀ a ∈ i0 :: ir, idC.mem a = true := by
    intro a ha
    rcases List.mem_cons.mp ha with rfl | ha
    · exact idC_of_idS hi0
    · exact hir a ha
  have e4 : (i0 :: ir) ++ sp = (y :: idr2) ++ w2 := E3
  obtain ⟨E4, E4'⟩ := span_unique (P := fun c => idC.mem c = true) e4 hiall hyall
    (by intro a t ha hh; exact not_ws_of_idC hh (hsp a (by rw [ha]; simp)))
    (by intro a t ha hh; exact not_ws_of_idC hh (hw2 a (by rw [ha]; simp)))
  -- align at `;`
  have e5 : (A ++ [')']) ++ ';' :: rest = ((z :: ops) ++ [')']) ++ ';' :: s' := by
    simpa only [List.cons_append, List.append_assoc, List.nil_append] using E3'
  have hno3 : ';' ∉ (z :: ops) ++ [')'] := by
    intro hm
    simp only [List.cons_append, List.mem_cons, List.mem_append, List.not_mem_nil, or_false] at hm
    rcases hm with hm | hm | hm
    · exact ne_of_nsemi hz hm.symm
    · exact ne_of_nsemi (hops _ hm) rfl
    · exact absurd hm (by decide)
  have hno4 : ';' ∉ A ++ [')'] := by
    intro hm
    simp only [List.mem_append, List.mem_cons, List.not_mem_nil, or_false] at hm
    rcases hm with hm | hm
    · exact hA hm
    · exact absurd hm (by decide)
  obtain ⟨E5, _, E5'⟩ := split_first e5 hno3 hno4
  have E6 : A = z :: ops := List.append_cancel_right E5
  subst E1 E6 E5' E4' E1a E2
  injection E4 with E4a E4b
  subst E4a E4b
  refine ⟨rfl, ?_⟩
  rw [hc]
  simp [instCaps]

theorem lead_none : ∀ u t rest s' c', u ++ t = [' ', ' '] → t ≠ [] → ¬ Den ctx rxInst (t ++ rest) [] s' c' := by
  intro u t rest s' c' hu ht
  rcases suf_cons hu with rfl | ⟨u', e⟩
  · exact inst_first ctx (by decide)
  · rcases suf_cons e with rfl | ⟨u'', e'⟩
    · exact inst_first ctx (by decide)
    · simp only [List.append_eq_nil_iff] at e'
      exact absurd e'.2 ht

/-- `  TY INST<sp>(A);` -/
theorem inst_hit {ty inst sp A : List Char} (hty : IdentL ty) (hinst : IdentL inst) (hsp : AllWs sp)
    (hA : ';' ∉ A) (hne : A ≠ []) :
    PieceOK ctx rxInst 3 ⟨[' ', ' '], ty ++ ' ' :: (inst ++ (sp ++ '(' :: (A ++ [')', ';']))),
      some [String.ofList ty, String.ofList inst, String.ofList A]⟩ := by
  intro p rest hp hd
  have hd : (txt ctx).drop p = [' ', ' '] ++ ((ty ++ ' ' :: (inst ++ (sp ++ '(' :: (A ++ [')', ';'])))) ++ rest) := hd
  refine ⟨noneIn_of_den ctx rxInst [' ', ' '] (lead_none ctx) p _ hp hd, ?_⟩
  show _ ≠ [] ∧ ∃ caps, m ctx (fuelFor ctx.s) rxInst (p + 2) [] k0 =
    some (p + 2 + (ty ++ ' ' :: (inst ++ (sp ++ '(' :: (A ++ [')', ';'])))).length, caps) ∧ grp ctx 3 caps = _
  refine ⟨by simp, ?_⟩
  have hle : p + 2 ≤ ctx.s.size := le_of_drop ctx hp hd
  have hd2 : (txt ctx).drop (p + 2) = (ty ++ ' ' :: (inst ++ (sp ++ '(' :: (A ++ [')', ';'])))) ++ rest :=
    drop_add ctx hd
  have hd' : (txt ctx).drop (p + 2) = ty ++ ' ' :: (inst ++ (sp ++ '(' :: (A ++ ')' :: ';' :: rest))) := by
    rw [hd2]; simp
  have hm := m_some ctx (fuelFor ctx.s) rxInst (p + 2) hle (need_rxInst ctx.s) rest (instCaps ctx ty inst sp A rest)
    (by rw [hd']; exact inst_success ctx hty hinst hsp hA hne)
    (by intro s' c' h; rw [hd'] at h; exact inst_align ctx hty hinst hsp hA h)
  refine ⟨instCaps ctx ty inst sp A rest, ?_, ?_⟩
  · rw [hm, end_pos ctx hle hd2]
  · rw [instCaps, grp3]
    have e1 : (txt ctx).drop (p + 2) = [] ++ (ty ++ ' ' :: (inst ++ (sp ++ '(' :: (A ++ ')' :: ';' :: rest)))) := by
      rw [hd']; rfl
    have e2 : (txt ctx).drop (p + 2) = (ty ++ [' ']) ++ (inst ++ (sp ++ '(' :: (A ++ ')' :: ';' :: rest))) := by
      rw [hd']; simp
    have e3 : (txt ctx).drop (p + 2) = (ty ++ ' ' :: (inst ++ (sp ++ ['(']))) ++ (A ++ ')' :: ';' :: rest) := by
      rw [hd']; simp
    rw [slice_eq ctx hle e1, slice_eq ctx hle e2, slice_eq ctx hle e3]

theorem inst_nl : PieceOK ctx rxInst 3 ⟨[], ['\n'], none⟩ := by
  apply pieceOK_miss
  intro u t rest s' c' hu ht
  rcases suf_cons hu with rfl | ⟨u', e⟩
  · exact inst_first ctx (by decide)
  · simp only [List.append_eq_nil_iff] at e
    exact absurd e.2 ht

theorem semi_of_argQ {args : List Char} (hargs : AllArgQ args) : ';' ∉ args := by
  intro hm
  rcases hargs _ hm with h | h | h
  · exact (idQ_ne2 h).1 rfl
  · exact absurd h (by decide)
  · exact absurd h (by decide)

theorem semi_of_pinQ {pins : List Char} (hpins : AllPinQ pins) : ';' ∉ pins := by
  intro hm
  rcases hpins _ hm with h | h | h | h | h | h
  · exact (idQ_ne2 h).1 rfl
  all_goals exact absurd h (by decide)

/-- `  TY INST(ARGS);` -/
theorem inst_hit_gate {ty inst args : List Char} (hty : IdentL ty) (hinst : IdentL inst) (hargs : AllArgQ args) (hne : args ≠ []) :
    PieceOK ctx rxInst 3 ⟨[' ', ' '], ty ++ ' ' :: (inst ++ '(' :: (args ++ [')', ';'])),
      some [String.ofList ty, String.ofList inst, String.ofList args]⟩ :=
  inst_hit ctx hty hinst (sp := []) (by simp [AllWs]) (semi_of_argQ hargs) hne

/-- `  TY INST (PINS);` -/
theorem inst_hit_bb {ty inst pins : List Char} (hty : IdentL ty) (hinst : IdentL inst) (hpins : AllPinQ pins) (hne : pins ≠ []) :
    PieceOK ctx rxInst 3 ⟨[' ', ' '], ty ++ ' ' :: (inst ++ ' ' :: '(' :: (pins ++ [')', ';'])),
      some [String.ofList ty, String.ofList inst, String.ofList pins]⟩ :=
  inst_hit ctx hty hinst (sp := [' ']) (by intro x hx; rw [List.mem_singleton.mp hx]; exact ws_space)
    (semi_of_pinQ hpins) hne

/-- a line without `(` before its closing `;` -/
theorem inst_miss_line {L : List Char} (hL : '(' ∉ L) : PieceOK ctx rxInst 3 ⟨[], L ++ [';', '\n'], none⟩ := by
  apply pieceOK_miss
  intro u t rest s' c' hu ht h
  rcases suf_append hu with ⟨X', ⟨u', hX⟩, e⟩ | ⟨u', e⟩
  · obtain ⟨a, b, e2, ha⟩ := inst_paren ctx h
    rw [e] at e2
    have e3 : X' ++ ';' :: ('\n' :: rest) = a ++ '(' :: b := by simpa using e2
    have hX' : '(' ∉ X' := fun hm => hL (mem_of_suf hX hm)
    obtain ⟨_, e4, _⟩ := split_first e3 ha hX'
    exact absurd e4 (by decide)
  · rcases suf_cons e with rfl | ⟨u'', e'⟩
    · exact inst_first ctx (by decide) h
    · rcases suf_cons e' with rfl | ⟨u3, e''⟩
      · exact inst_first ctx (by decide) h
      · simp only [List.append_eq_nil_iff] at e''
        exact absurd e''.2 ht

theorem inst_miss_decl {kw n : List Char} (hkw : AllLetter kw) (hn : IdentL n) : PieceOK ctx rxInst 3 ⟨[], declLine kw n, none⟩ := by
  have e : declLine kw n = (' ' :: ' ' :: (kw ++ ' ' :: n)) ++ [';', '\n'] := by simp [declLine]
  rw [e]
  apply inst_miss_line
  intro hm
  simp only [List.mem_cons, List.mem_append] at hm
  rcases hm with hm | hm | hm | hm | hm
  · exact absurd hm (by decide)
  · exact absurd hm (by decide)
  · exact (letter_ne2 (hkw _ hm)).2 rfl
  · exact absurd hm (by decide)
  · exact (idC_ne2 (hn.all _ hm)).2 rfl

theorem inst_miss_asg {l r : List Char} (hl : IdentL l) (hr : RhsL r) : PieceOK ctx rxInst 3 ⟨[], asgLine l r, none⟩ := by
  have e : asgLine l r = (' ' :: ' ' :: (kAssign ++ ' ' :: (l ++ ' ' :: '=' :: ' ' :: r))) ++ [';', '\n'] := by
    simp [asgLine]
  rw [e]
  apply inst_miss_line
  obtain ⟨x, r', rfl, hx, hr'⟩ := hr
  intro hm
  simp only [List.mem_cons, List.mem_append] at hm
  rcases hm with hm | hm | hm | hm | hm | hm | hm | hm | hm | hm
  · exact absurd hm (by decide)
  · exact absurd hm (by decide)
  · exact absurd hm (by decide)
  · exact absurd hm (by decide)
  · exact (idC_ne2 (hl.all _ hm)).2 rfl
  · exact absurd hm (by decide)
  · exact absurd hm (by decide)
  · exact absurd hm (by decide)
  · rw [← hm] at hx; exact absurd hx (by decide)
  · exact (idQ_ne2 (hr' _ hm)).2 rfl

/-- no match inside a final `endmodule\n` -/
theorem tail_none {u t s' : List Char} {c' : Caps} (hu : u ++ t = VMT.kwE ++ ['\n']) :
    ¬ Den ctx rxInst t [] s' c' := by
  intro hden
  have hlet : AllLetter VMT.kwE := by decide
  have hall : AllIdC VMT.kwE := fun a ha => idC_of_letter (hlet a ha)
  rcases suf_append hu with ⟨X', ⟨u', hX⟩, e⟩ | ⟨u', e⟩
  · rw [den_rxInst] at hden
    obtain ⟨x, idr, w0, w1, y, idr2, w2, z, ops, hx, hidr, hw0, hw1, hy, hidr2, hw2, hz, hops, e2, hc⟩ := hden
    rw [e] at e2
    have e3 : X' ++ ['\n'] =
        (x :: idr) ++ (w0 :: (w1 ++ (y :: (idr2 ++ (w2 ++ '(' :: (z :: (ops ++ ')' :: ';' :: s'))))))) := e2
    have hxall : ∀ a ∈ x :: idr, idC.mem a = true := by
      intro a ha
      rcases List.mem_cons.mp ha with rfl | ha
      · exact idC_of_idS hx
      · exact hidr a ha
    obtain ⟨_, E⟩ := span_unique (P := fun c => idC.mem c = true) e3 (fun a ha => hall a (mem_of_suf hX ha)) hxall
      (by intro a t ha; injection ha with ha _; rw [← ha]; decide)
      (by intro a t ha; injection ha with ha _; rw [← ha]; exact fun hh => not_ws_of_idC hh hw0)
    injection E with _ E
    cases w1 <;> cases E
  · rcases suf_cons e with rfl | ⟨u'', e'⟩
    · exact inst_first ctx (by decide) hden
    · simp only [List.append_eq_nil_iff] at e'
      rw [e'.2] at hden
      exact inst_nil ctx hden

/-- the closing `endmodule\n` at the very end of the text -/
theorem inst_tail {p : Nat} (hp : p ≤ ctx.s.size) (h : (txt ctx).drop p = VMT.kwE ++ ['\n']) :
    ∀ i, p ≤ i → i ≤ ctx.s.size → m ctx (fuelFor ctx.s) rxInst i [] k0 = none := by
  intro i h1 h2
  apply m_none ctx _ _ i h2
  intro s' c'
  have hd : (txt ctx).drop i = (VMT.kwE ++ ['\n']).drop (i - p) := by
    rw [← h, List.drop_drop]
    congr 1
    omega
  rw [hd]
  exact tail_none ctx (List.take_append_drop (i - p) _)

end

end FT
end CG
