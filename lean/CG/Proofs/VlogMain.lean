/- C02 helper: assembly — `transform` on a module of continuous assignments. -/
import CG.Proofs.VlogTop
set_option linter.unusedSimpArgs false
set_option linter.unusedVariables false
namespace CG
namespace VT
open Verilog Circuit Ternary

theorem outs_fold_facts : ∀ (outs : List Name) (c : Circuit),
    (outs.foldl (fun acc n => acc.setOutRaw n true) c).nodeNames = c.nodeNames ∧
    (outs.foldl (fun acc n => acc.setOutRaw n true) c).edges = c.edges ∧
    (outs.foldl (fun acc n => acc.setOutRaw n true) c).name = c.name ∧
    (∀ x, (outs.foldl (fun acc n => acc.setOutRaw n true) c).ty? x = c.ty? x) ∧
    (∀ x, (outs.foldl (fun acc n => acc.setOutRaw n true) c).attr? x =
      (c.attr? x).map (fun a => if outs.contains x then { a with out := some true } else a))
  | [], c => ⟨rfl, rfl, rfl, fun _ => rfl, fun x => by rw [List.foldl_nil]; cases c.attr? x <;> simp⟩
  | o :: outs, c => by
    obtain ⟨h1, h2, h3, h4, h5⟩ := outs_fold_facts outs (c.setOutRaw o true)
    rw [List.foldl_cons]
    refine ⟨h1.trans (setOutRaw_nodeNames c o true), h2, h3, fun x => (h4 x).trans (setOutRaw_ty? c o true x), ?_⟩
    intro x
    rw [h5, setOutRaw_attr?, List.contains_cons]
    cases c.attr? x with
    | none => rfl
    | some a =>
      simp only [Option.map_some]
      by_cases hxo : (x == o) = true
      · by_cases hc : outs.contains x = true
        · simp [hxo, hc]
        · simp [hxo, hc]
      · by_cases hc : outs.contains x = true
        · simp [hxo, hc]
        · simp [hxo, hc]

theorem mem_outputs_iff {c : Circuit} (hnd : c.nodeNames.Nodup) (x : Name) :
    x ∈ c.outputs ↔ ∃ a, c.attr? x = some a ∧ a.out = some true := by
  constructor
  · intro h
    have hh : c.has x = true := by
      unfold Circuit.outputs at h
      simp only [List.mem_map, List.mem_filter] at h
      obtain ⟨p, ⟨hp, _⟩, rfl⟩ := h
      exact (has_iff_mem c p.1).2 (List.mem_map.2 ⟨p, hp, rfl⟩)
    obtain ⟨a, ha⟩ := Limit.attr_of_has hh
    exact ⟨a, ha, (mem_outputs_of_mem hnd (attr?_mem ha)).mp h⟩
  · rintro ⟨a, ha, ho⟩
    exact (mem_outputs_of_mem hnd (attr?_mem ha)).mpr ho

def c0lit : Circuit := { nodes := [("tie_0", { ty := some "0", out := some false })] }
def c1lit : Circuit :=
  { nodes := [("tie_0", { ty := some "0", out := some false }), ("tie_1", { ty := some "1", out := some false })] }

theorem init0 : Tx.addC {} { n := "tie_0", ty := "0" } = .ok c0lit := rfl
theorem init1 : Tx.addC c0lit { n := "tie_1", ty := "1" } = .ok c1lit := rfl
theorem init2 : Tx.addC c1lit { n := "tie_x", ty := "x" } = .ok c2 := rfl

/-- the module shape of the supported subset, in the vocabulary of this directory -/
structure ModOK (m : Module) (ins outs : List Name) (asg : List (Name × Expr)) : Prop where
  shape : m.items = ins.map (fun i => Item.input [i]) ++ outs.map (fun o => Item.output [o]) ++
    asg.map (fun a => Item.assign [a])
  ports : ∀ x, x ∈ m.ports ↔ (x ∈ ins ∨ x ∈ outs)
  defsNodup : (ins ++ asg.map (·.1)).Nodup
  outsDef : ∀ o ∈ outs, o ∈ ins ∨ o ∈ asg.map (·.1)
  uses : ∀ a ∈ asg, ∀ x ∈ exprIds a.2, x ∈ ins ∨ x ∈ asg.map (·.1)
  consts : ∀ a ∈ asg, BinConsts a.2
  noCapture : ∀ n, (n ∈ ins ∨ n ∈ asg.map (·.1)) →
    ¬ IsSyn n ∧ (n ≠ "tie_0" ∧ n ≠ "tie_1" ∧ n ≠ "tie_x") ∧ Limit.NameOK n

/-- declared nets of the module -/
def Decl (ins : List Name) (asg : List (Name × Expr)) (n : Name) : Prop := n ∈ ins ∨ n ∈ asg.map (·.1)

theorem ModOK.declOK {m : Module} {ins outs : List Name} {asg : List (Name × Expr)} (h : ModOK m ins outs asg) :
    DeclOK (Decl ins asg) ins :=
  ⟨fun n hn => (h.noCapture n hn).1, fun n hn => (h.noCapture n hn).2.1, fun n hn => (h.noCapture n hn).2.2,
    fun n hn => Or.inl hn⟩

/-- the fold over the items of the module -/
theorem items_ok {m : Module} {ins outs : List Name} {asg : List (Name × Expr)} (h : ModOK m ins outs asg)
    (bbs : List BBox) (ord : Ord) :
    ∃ stA d, m.items.foldlM (doItem bbs ord) ({ c := c2 }, { io := m.ports }) = .ok (stA, d) ∧
      d.io = m.ports ∧ d.inputs = ins ∧ d.outputs = outs ∧ FI (Decl ins asg) ins [] asg.reverse stA ∧
      (∀ i ∈ ins, stA.c.has i = true) := by
  have hD := h.declOK
  have hnd := List.nodup_append.mp h.defsNodup
  obtain ⟨cI, dI, hI, gI1, gI2, gI3, siI, heI, hhI⟩ := input_items (D := Decl ins asg) bbs ord ins []
    { c := c2 } { io := m.ports } (c2_SI _) rfl
    (fun i hi => ⟨Or.inl hi, (h.noCapture i (Or.inl hi)).2.1, (h.noCapture i (Or.inl hi)).2.2⟩)
  obtain ⟨dO, hO, gO1, gO2, gO3⟩ := output_items bbs ord { c := cI } outs dI
  have fi0 : FI (Decl ins asg) ins asg [] { c := cI } := by
    constructor
    · simpa using siI
    · intro g hg; simp at hg
    · intro a ha
      have hmem : a.1 ∈ asg.map (·.1) := List.mem_map.2 ⟨a, ha, rfl⟩
      have hnot : cI.has a.1 = false := by
        cases hc : cI.has a.1 with
        | false => rfl
        | true =>
          rcases (hhI a.1).mp hc with h1 | h1
          · have hn := (h.noCapture a.1 (Or.inr hmem)).2.1
            rcases (c2_has a.1).mp h1 with h2 | h2 | h2
            · exact absurd h2 hn.1
            · exact absurd h2 hn.2.1
            · exact absurd h2 hn.2.2
          · exact absurd rfl (hnd.2.2 a.1 h1 a.1 hmem)
      constructor
      · intro hh; rw [hnot] at hh; cases hh
      · intro e he; rw [heI] at he; cases he
    · intro _ _ a ha; simp at ha
    · intro a ha; simp at ha
  obtain ⟨stA, hA, fiA⟩ := assign_items hD bbs ord dO asg [] { c := cI } fi0 hnd.2.1
    (by
      intro a ha
      have hmem : a.1 ∈ asg.map (·.1) := List.mem_map.2 ⟨a, ha, rfl⟩
      exact ⟨Or.inr hmem, fun hi => hnd.2.2 a.1 hi a.1 hmem rfl, h.uses a ha, h.consts a ha⟩)
    (fun a ha => by cases ha)
  refine ⟨stA, dO, ?_, by rw [gO1, gI1], by rw [gO2, gI2]; rfl, by rw [gO3, gI3]; rfl, by simpa using fiA, ?_⟩
  · rw [h.shape, List.foldlM_append, List.foldlM_append, hI]
    simp only [Arith.bind_ok]
    rw [hO]
    simp only [Arith.bind_ok]
    exact hA
  · intro i hi
    have : (Circuit.ty? stA.c i) = some "input" := (fiA.si.inp i).mpr hi
    exact has_of_ty? this

theorem any_false_of {l : List Name} {p : Name → Bool} (h : ∀ x ∈ l, p x = false) : l.any p = false := by
  rw [List.any_eq_false]
  intro x hx
  rw [h x hx]
  simp

/-- **the transformer on a module of continuous assignments** -/
theorem transform_ok {m : Module} {ins outs : List Name} {asg : List (Name × Expr)} (h : ModOK m ins outs asg)
    (bbs : List BBox) (ord : Ord) :
    ∃ c, transform m bbs ord = .ok c ∧ c.name = m.name ∧
      (∀ x, x ∈ c.inputs ↔ x ∈ ins) ∧ (∀ x, x ∈ c.outputs ↔ x ∈ outs) ∧
      ∀ v, Consistent c v → ∀ a ∈ asg, v a.1 = denote v a.2 := by
  have hD := h.declOK
  obtain ⟨stA, d, hitems, gio, gin, gout, fi, hasIns⟩ := items_ok h bbs ord
  have hSI := fi.si
  -- the outputs exist
  have hasOuts : ∀ o ∈ outs, stA.c.has o = true := by
    intro o ho
    rcases h.outsDef o ho with h1 | h1
    · exact hasIns o h1
    · obtain ⟨a, ha, rfl⟩ := List.mem_map.1 h1
      exact fi.hasDone a (by simpa using ha)
  let c3 : Circuit := { stA.c with name := m.name }
  let c4 := outs.foldl (fun acc n => acc.setOutRaw n true) c3
  obtain ⟨f1, f2, f3, f4, f5⟩ := outs_fold_facts outs c3
  have hrun : transform m bbs ord = .ok (dropTie (dropTie (dropTie c4 "tie_0") "tie_1") "tie_x") := by
    unfold transform
    rw [init0]; simp only [Arith.bind_ok]
    rw [init1]; simp only [Arith.bind_ok]
    rw [init2]; simp only [Arith.bind_ok]
    rw [hitems]; simp only [Arith.bind_ok]
    have a1 : (d.inputs.any fun i => !d.io.contains i) = false := by
      apply any_false_of
      intro i hi
      rw [gin] at hi
      have : i ∈ d.io := by rw [gio, h.ports]; exact Or.inl hi
      simp [this]
    have a2 : (d.outputs.any fun o => !d.io.contains o) = false := by
      apply any_false_of
      intro o ho
      rw [gout] at ho
      have : o ∈ d.io := by rw [gio, h.ports]; exact Or.inr ho
      simp [this]
    have a3 : (d.io.any fun v => !d.inputs.contains v && !d.outputs.contains v) = false := by
      apply any_false_of
      intro x hx
      rw [gio, h.ports] at hx
      rcases hx with hx | hx
      · have : x ∈ d.inputs := by rw [gin]; exact hx
        simp [this]
      · have : x ∈ d.outputs := by rw [gout]; exact hx
        simp [this]
    simp only [a1, a2, a3, Bool.false_eq_true, if_false]
    rw [gout, setOutput_fold outs c3 hasOuts]
    rfl
  refine ⟨_, hrun, ?_, ?_, ?_, ?_⟩
  all_goals
    have d0 := dropTie_out c4 "tie_0"
    have d1 := dropTie_out (dropTie c4 "tie_0") "tie_1"
    have dx := dropTie_out (dropTie (dropTie c4 "tie_0") "tie_1") "tie_x"
  · rw [dx.name, d1.name, d0.name, f3]
  all_goals
    have hnd4 : c4.nodeNames.Nodup := by rw [f1]; exact hSI.wf.nodup
    have hed4 : c4.edges.Nodup := by rw [f2]; exact hSI.wf.edgesNodup
    have hndF := dx.nodup (d1.nodup (d0.nodup hnd4))
    -- attributes in the final circuit
    have attrF : ∀ x, x ≠ "tie_0" → x ≠ "tie_1" → x ≠ "tie_x" →
        (dropTie (dropTie (dropTie c4 "tie_0") "tie_1") "tie_x").attr? x = c4.attr? x := by
      intro x h0 h1 hx
      rw [dx.attr_o x hx, d1.attr_o x h1, d0.attr_o x h0]
    have attrT : ∀ t, (t = "tie_0" ∨ t = "tie_1" ∨ t = "tie_x") →
        (dropTie (dropTie (dropTie c4 "tie_0") "tie_1") "tie_x").attr? t = c4.attr? t ∨
        (dropTie (dropTie (dropTie c4 "tie_0") "tie_1") "tie_x").attr? t = none := by
      rintro t (rfl | rfl | rfl)
      · rw [dx.attr_o _ (by decide), d1.attr_o _ (by decide)]
        exact d0.attr_t
      · rw [dx.attr_o _ (by decide)]
        rcases d1.attr_t with h1 | h1
        · left; rw [h1, d0.attr_o _ (by decide)]
        · exact Or.inr h1
      · rcases dx.attr_t with h1 | h1
        · left; rw [h1, d1.attr_o _ (by decide), d0.attr_o _ (by decide)]
        · exact Or.inr h1
    have tieD : ∀ t, (t = "tie_0" ∨ t = "tie_1" ∨ t = "tie_x") → ¬ Decl ins asg t := by
      rintro t ht hd
      have := hD.notTie t hd
      rcases ht with rfl | rfl | rfl
      · exact this.1 rfl
      · exact this.2.1 rfl
      · exact this.2.2 rfl
    have c4ty : ∀ x, c4.ty? x = stA.c.ty? x := fun x => f4 x
    have c4attr : ∀ x, c4.attr? x =
        (stA.c.attr? x).map (fun a => if outs.contains x then { a with out := some true } else a) := fun x => f5 x
    have tieTy : ∀ t, (t = "tie_0" ∨ t = "tie_1" ∨ t = "tie_x") → ∃ ty, stA.c.ty? t = some ty ∧ ty ≠ "input" ∧
        stA.c.attr? t = some { ty := some ty, out := some false } := by
      rintro t (rfl | rfl | rfl)
      · exact ⟨"0", by rw [ty_of_attr hSI.tie0], by decide, hSI.tie0⟩
      · exact ⟨"1", by rw [ty_of_attr hSI.tie1], by decide, hSI.tie1⟩
      · exact ⟨"x", by rw [ty_of_attr hSI.tiex], by decide, hSI.tiex⟩
  · -- inputs
    intro x
    rw [mem_inputs hndF]
    by_cases ht : x = "tie_0" ∨ x = "tie_1" ∨ x = "tie_x"
    · obtain ⟨ty, hty, hne, _⟩ := tieTy x ht
      have hnot : x ∉ ins := fun hi => tieD x ht (Or.inl hi)
      constructor
      · intro hin
        exfalso
        rcases attrT x ht with h1 | h1
        · have : c4.ty? x = some "input" := by
            unfold Circuit.ty? at hin ⊢; rw [← h1]; exact hin
          rw [c4ty, hty] at this
          injection this with this
          exact hne this
        · unfold Circuit.ty? at hin; rw [h1] at hin; cases hin
      · intro hi; exact absurd hi hnot
    · have hx : x ≠ "tie_0" ∧ x ≠ "tie_1" ∧ x ≠ "tie_x" := by
        refine ⟨fun h => ht (Or.inl h), fun h => ht (Or.inr (Or.inl h)), fun h => ht (Or.inr (Or.inr h))⟩
      have : (dropTie (dropTie (dropTie c4 "tie_0") "tie_1") "tie_x").ty? x = stA.c.ty? x := by
        rw [← c4ty]
        unfold Circuit.ty?
        rw [attrF x hx.1 hx.2.1 hx.2.2]
      rw [this]
      exact hSI.inp x
  · -- outputs
    intro x
    rw [mem_outputs_iff hndF]
    by_cases ht : x = "tie_0" ∨ x = "tie_1" ∨ x = "tie_x"
    · obtain ⟨ty, _, _, hat⟩ := tieTy x ht
      have hnot : x ∉ outs := fun ho => tieD x ht (h.outsDef x ho)
      have hcont : outs.contains x = false := by simpa using hnot
      constructor
      · rintro ⟨a, ha, hout⟩
        exfalso
        rcases attrT x ht with h1 | h1
        · rw [h1, c4attr, hat] at ha
          simp only [Option.map_some, hcont, Bool.false_eq_true, if_false] at ha
          injection ha with ha
          rw [← ha] at hout
          cases hout
        · rw [h1] at ha; cases ha
      · intro ho; exact absurd ho hnot
    · have hx : x ≠ "tie_0" ∧ x ≠ "tie_1" ∧ x ≠ "tie_x" := by
        refine ⟨fun h => ht (Or.inl h), fun h => ht (Or.inr (Or.inl h)), fun h => ht (Or.inr (Or.inr h))⟩
      rw [attrF x hx.1 hx.2.1 hx.2.2, c4attr]
      constructor
      · rintro ⟨a, ha, hout⟩
        cases hs : stA.c.attr? x with
        | none => rw [hs] at ha; cases ha
        | some a0 =>
          rw [hs] at ha
          simp only [Option.map_some] at ha
          by_cases hc : outs.contains x = true
          · simpa using hc
          · exfalso
            have hc' : outs.contains x = false := by simpa using hc
            rw [hc'] at ha
            simp only [Bool.false_eq_true, if_false] at ha
            injection ha with ha
            have := (hSI.typed x a0 hs hx.2.2).1
            rw [ha, hout] at this
            cases this
      · intro ho
        obtain ⟨a0, hs⟩ := Limit.attr_of_has (hasOuts x ho)
        have hc : outs.contains x = true := by simpa using ho
        refine ⟨{ a0 with out := some true }, ?_, rfl⟩
        rw [hs, Option.map_some, hc]
        rfl
  · -- values
    intro v hv a ha
    have hed5 := d0.enodup hed4
    have hnd5 := d0.nodup hnd4
    have hed6 := d1.enodup hed5
    have hnd6 := d1.nodup hnd5
    have tyOf : ∀ {c : Circuit} {t : Name} {a : Attr} {t' : String}, c.attr? t = c4.attr? t → c.attr? t = some a →
        a.ty = some t' → stA.c.ty? t = some t' := by
      intro c t a t' he ha' hta
      rw [← c4ty]
      unfold Circuit.ty?
      rw [← he, ha']
      exact hta
    obtain ⟨v6, hv6, ag6⟩ := dx.sem hnd6 hed6 false (by
      intro a t' ha' hta l b' hg
      have := tyOf (by rw [d1.attr_o _ (by decide), d0.attr_o _ (by decide)]) ha' hta
      rw [ty_of_attr hSI.tiex] at this
      injection this with this
      rw [← this] at hg
      simp [gateFn] at hg) v hv
    obtain ⟨v5, hv5, ag5⟩ := d1.sem hnd5 hed5 true (by
      intro a t' ha' hta l b' hg
      have := tyOf (by rw [d0.attr_o _ (by decide)]) ha' hta
      rw [ty_of_attr hSI.tie1] at this
      injection this with this
      rw [← this] at hg
      simp [gateFn] at hg
      exact hg) v6 hv6
    obtain ⟨v4, hv4, ag4⟩ := d0.sem hnd4 hed4 false (by
      intro a t' ha' hta l b' hg
      have := tyOf rfl ha' hta
      rw [ty_of_attr hSI.tie0] at this
      injection this with this
      rw [← this] at hg
      simp [gateFn] at hg
      exact hg) v5 hv5
    have hv3 : Consistent c3 v4 := consistent_congr f1 hSI.wf.nodup f4 f2 hv4
    have hvA : Consistent stA.c v4 := hv3
    have hagree : ∀ x, Decl ins asg x → v4 x = v x := by
      intro x hx
      have := hD.notTie x hx
      rw [ag4 x this.1, ag5 x this.2.1, ag6 x this.2.2]
    have hamem : a.1 ∈ asg.map (·.1) := List.mem_map.2 ⟨a, ha, rfl⟩
    have := fi.sem v4 hvA a (by simpa using ha)
    rw [hagree a.1 (Or.inr hamem), denote_congr a.2 (fun x hx => hagree x (h.uses a ha x hx))] at this
    exact this

end VT
end CG
