/- helper lemmas for C06: connectAll and the decomposition of a successful `add_subcircuit` -/
import CG.Proofs.ComposeView
set_option linter.unusedSimpArgs false
set_option linter.unusedVariables false
namespace CG
open Circuit

/-! ### connectAll -/

theorem connectAll_cons_ok {c c' : Circuit} {us vs : List Name} {rest : List (List Name × List Name)}
    (h : c.connectAll ((us, vs) :: rest) = (c', .ok)) :
    ∃ c1, c.connect us vs = (c1, .ok) ∧ c1.connectAll rest = (c', .ok) := by
  rw [connectAll] at h
  split at h
  · rename_i c1 heq; exact ⟨c1, heq, h⟩
  · rename_i hne; exact absurd h (hne c')

theorem connectAll_ok : ∀ (l : List (List Name × List Name)) (c c' : Circuit), c.connectAll l = (c', .ok) →
    c'.nodes = c.nodes ∧ c'.bbs = c.bbs ∧ c'.name = c.name ∧
    (∃ x, c'.edges = c.edges ++ x ∧ ∀ e ∈ x, ∃ q ∈ l, e.1 ∈ q.1 ∧ e.2 ∈ q.2) ∧
    (∀ e, e ∈ c'.edges ↔ e ∈ c.edges ∨ ∃ q ∈ l, e.1 ∈ q.1 ∧ e.2 ∈ q.2) ∧
    (c.edges.Nodup → c'.edges.Nodup) ∧
    (∀ q ∈ l, q.1 ≠ [] → q.2 ≠ [] → (∀ u ∈ q.1, c.has u = true) ∧ (∀ v ∈ q.2, c.has v = true)) := by
  intro l
  induction l with
  | nil =>
    intro c c' h
    rw [connectAll] at h
    injection h with h1 _
    subst h1
    refine ⟨rfl, rfl, rfl, ⟨[], by simp, fun _ h => by cases h⟩, ?_, fun h => h, fun q hq => by cases hq⟩
    intro e
    constructor
    · exact Or.inl
    · rintro (h | ⟨q, hq, _⟩)
      · exact h
      · cases hq
  | cons x l ih =>
    intro c c' h
    obtain ⟨us, vs⟩ := x
    obtain ⟨c1, h1, h2⟩ := connectAll_cons_ok h
    obtain ⟨a1, a2, a3, ⟨x1, a4, a4'⟩, a5, a6, a7⟩ := connect_ok h1
    obtain ⟨b1, b2, b3, ⟨x2, b4, b4'⟩, b5, b6, b7⟩ := ih c1 c' h2
    refine ⟨by rw [b1, a1], by rw [b2, a2], by rw [b3, a3], ⟨x1 ++ x2, by rw [b4, a4]; simp, ?_⟩, ?_,
      fun h => b6 (a6 h), ?_⟩
    · intro e he
      rcases List.mem_append.1 he with he | he
      · exact ⟨(us, vs), by simp, a4' e he⟩
      · obtain ⟨q, hq, hh⟩ := b4' e he
        exact ⟨q, List.mem_cons_of_mem _ hq, hh⟩
    · intro e
      rw [b5, a5]
      constructor
      · rintro ((h | h) | ⟨q, hq, hh⟩)
        · exact Or.inl h
        · exact Or.inr ⟨(us, vs), by simp, h⟩
        · exact Or.inr ⟨q, List.mem_cons_of_mem _ hq, hh⟩
      · rintro (h | ⟨q, hq, hh⟩)
        · exact Or.inl (Or.inl h)
        · rcases List.mem_cons.1 hq with e' | hq'
          · subst e'; exact Or.inl (Or.inr hh)
          · exact Or.inr ⟨q, hq', hh⟩
    · intro q hq hq1 hq2
      rcases List.mem_cons.1 hq with e' | hq'
      · subst e'
        obtain ⟨k1, k2, _, _⟩ := connectCheck_none (a7 hq1 hq2)
        exact ⟨k1, k2⟩
      · obtain ⟨k1, k2⟩ := b7 q hq' hq1 hq2
        exact ⟨fun u hu => by rw [← has_congr a1]; exact k1 u hu, fun v hv => by rw [← has_congr a1]; exact k2 v hv⟩

/-- a driven buffer cannot receive another driver -/
theorem connect_buf_keep {c c' : Circuit} {us vs : List Name} (h : c.connect us vs = (c', .ok)) {x : Name}
    (hx : c.ty? x = some "buf") (hf : c.fanin x ≠ []) : c'.fanin x = c.fanin x := by
  obtain ⟨_, _, _, ⟨ext, a4, a4'⟩, _, _, a7⟩ := connect_ok h
  rw [fanin_eq_faninL, fanin_eq_faninL, a4, faninL_append]
  have : faninL ext x = [] := by
    apply faninL_nil_of
    intro e he e2
    obtain ⟨k1, k2⟩ := a4' e he
    have hus : us ≠ [] := by intro e'; rw [e'] at k1; cases k1
    have hvs : vs ≠ [] := by intro e'; rw [e'] at k2; cases k2
    obtain ⟨_, _, kV, _⟩ := connectCheck_none (a7 hus hvs)
    obtain ⟨t, ht, _, hlen⟩ := kV x (e2 ▸ k2)
    rw [hx] at ht
    injection ht with ht
    subst ht
    have := hlen (by decide)
    have l1 : 0 < (c.fanin x).length := List.length_pos_iff.2 hf
    have l2 : 0 < us.length := List.length_pos_iff.2 hus
    omega
  rw [this, List.append_nil]

theorem connectAll_buf_keep : ∀ (l : List (List Name × List Name)) (c c' : Circuit), c.connectAll l = (c', .ok) →
    ∀ x, c.ty? x = some "buf" → c.fanin x ≠ [] → c'.fanin x = c.fanin x := by
  intro l
  induction l with
  | nil =>
    intro c c' h x _ _
    rw [connectAll] at h
    injection h with h1 _
    rw [h1]
  | cons q l ih =>
    intro c c' h x hx hf
    obtain ⟨us, vs⟩ := q
    obtain ⟨c1, h1, h2⟩ := connectAll_cons_ok h
    have e1 := connect_buf_keep h1 hx hf
    have hn := (connect_ok h1).1
    rw [ih c1 c' h2 x (by rw [ty?_congr hn]; exact hx) (by rw [e1]; exact hf), e1]

theorem connect_buf_set {c c' : Circuit} {us : List Name} {x u : Name} (h : c.connect us [x] = (c', .ok))
    (hu : u ∈ us) (hx : c.ty? x = some "buf") : c'.fanin x = [u] := by
  have hus : us ≠ [] := by intro e'; rw [e'] at hu; cases hu
  have hc := (connect_ok h).2.2.2.2.2.2 hus (by simp)
  obtain ⟨_, _, kV, _⟩ := connectCheck_none hc
  obtain ⟨t, ht, _, hlen⟩ := kV x (by simp)
  rw [hx] at ht
  injection ht with ht
  subst ht
  have hl := hlen (by decide)
  have l2 : 0 < us.length := List.length_pos_iff.2 hus
  have hf : c.fanin x = [] := List.length_eq_zero_iff.1 (by omega)
  have hus1 : us = [u] := by
    cases us with
    | nil => cases hu
    | cons a rest =>
      have : rest = [] := List.length_eq_zero_iff.1 (by simp only [List.length_cons] at hl; omega)
      subst this
      simp only [List.mem_singleton] at hu
      rw [hu]
  subst hus1
  unfold connect at h
  rw [hc] at h
  simp only [List.isEmpty_cons, Bool.or_self, Bool.false_eq_true, if_false] at h
  injection h with h1 _
  subst h1
  have hnot : (u, x) ∉ c.edges := by
    intro hm
    have := (mem_faninL (es := c.edges)).2 hm
    rw [← fanin_eq_faninL, hf] at this
    cases this
  have : (c.addEdges [u] [x]).edges = c.edges ++ [(u, x)] := by
    show (c.addEdge u x).edges = _
    unfold addEdge
    rw [if_neg (by simpa using hnot)]
  rw [fanin_eq_faninL, this, faninL_append, ← fanin_eq_faninL, hf]
  simp [faninL]

theorem connectAll_buf_set : ∀ (l : List (List Name × List Name)) (c c' : Circuit), c.connectAll l = (c', .ok) →
    ∀ us x u, (us, [x]) ∈ l → u ∈ us → c.ty? x = some "buf" → c'.fanin x = [u] := by
  intro l
  induction l with
  | nil => intro c c' _ us x u hm; cases hm
  | cons q l ih =>
    intro c c' h us x u hm hu hx
    obtain ⟨us0, vs0⟩ := q
    obtain ⟨c1, h1, h2⟩ := connectAll_cons_ok h
    have hn := (connect_ok h1).1
    have hx1 : c1.ty? x = some "buf" := by rw [ty?_congr hn]; exact hx
    rcases List.mem_cons.1 hm with e | hm'
    · injection e with e1 e2
      subst e1; subst e2
      have := connect_buf_set h1 hu hx
      rw [connectAll_buf_keep l c1 c' h2 x hx1 (by rw [this]; simp), this]
    · exact ih c1 c' h2 us x u hm' hu hx1

/-! ### the circuit `add_subcircuit` builds before it makes the connections -/

def subPre (P sc : Circuit) (name : Name) : Circuit :=
  sc.bbs.foldl (fun acc p => acc.setBB (pref name p.1) p.2)
    (sc.outputs.foldl (fun acc n => acc.setOutRaw (pref name n) false)
      (sc.inputs.foldl (fun acc n => acc.setTyRaw (pref name n) "buf")
        (P.graphUpdate (sc.relabelCopy (pref name)))))

def subConns (sc : Circuit) (name : Name) (conns : List (Name × List Name)) : List (List Name × List Name) :=
  conns.map (fun p => if sc.inputs.contains p.1 then (p.2, [pref name p.1]) else ([pref name p.1], p.2))

theorem addSub_unfold {P sc P' : Circuit} {name : Name} {conns : List (Name × List Name)}
    (h : P.addSubcircuit sc name conns true = (P', .ok)) :
    (sc.bbs.any (fun p => (P.bbs.lookup (pref name p.1)).isSome)) = false ∧
    (sc.nodeNames.any (fun n => P.has (pref name n))) = false ∧
    (sc.nodes.any (fun p => p.2.ty.isNone)) = false ∧
    (conns.any (fun p => !sc.inputs.contains p.1 && !sc.outputs.contains p.1)) = false ∧
    (subPre P sc name).connectAll (subConns sc name conns) = (P', .ok) := by
  unfold addSubcircuit at h
  split at h
  · injection h with _ h; cases h
  · rename_i h1
    split at h
    · injection h with _ h; cases h
    · rename_i h2
      split at h
      · injection h with _ h; cases h
      · rename_i h3
        simp only [] at h
        split at h
        · injection h with _ h; cases h
        · rename_i h4
          simp only [if_true] at h
          exact ⟨by simpa using h1, by simpa using h2, by simpa using h3, by simpa using h4, h⟩

theorem subPre_view {P sc : Circuit} (hP : WF P) (hsc : WF sc) (name : Name)
    (hclash : ∀ n, sc.has n = true → P.has (pref name n) = false) :
    (subPre P sc name).nodes = P.nodes ++ sc.nodes.map (fun p => (pref name p.1, stripA p.2)) ∧
    (subPre P sc name).edges = P.edges ++ sc.edges.map (fun e => (pref name e.1, pref name e.2)) ∧
    (subPre P sc name).name = P.name ∧
    ((sc.bbs.map (·.1)).Nodup → (∀ p ∈ sc.bbs, P.bbs.lookup (pref name p.1) = none) →
      (subPre P sc name).bbs = P.bbs ++ sc.bbs.map (fun p => (pref name p.1, p.2))) := by
  have hf : ∀ a b, pref name a = pref name b → a = b := fun a b e => pref_inj name e
  obtain ⟨g1, g2, g3, g4⟩ := relabelCopy_exact hsc.nodup hsc.edgesNodup (pref name) hf
  unfold subPre
  generalize sc.relabelCopy (pref name) = g at g1 g2 g3 g4
  have e1 : ∀ (L : List Name) (c0 : Circuit), L.foldl (fun acc n => acc.setTyRaw (pref name n) "buf") c0 =
      (L.map (pref name)).foldl (fun acc n => acc.setTyRaw n "buf") c0 := fun L c0 => by rw [List.foldl_map]
  have e2 : ∀ (L : List Name) (c0 : Circuit), L.foldl (fun acc n => acc.setOutRaw (pref name n) false) c0 =
      (L.map (pref name)).foldl (fun acc n => acc.setOutRaw n false) c0 := fun L c0 => by rw [List.foldl_map]
  rw [e1, e2]
  have hgn : g.nodeNames.Nodup := by
    have : g.nodeNames = sc.nodeNames.map (pref name) := by
      simp [nodeNames, g1, List.map_map, Function.comp_def]
    rw [this]
    exact nodup_map_of_inj hsc.nodup (fun x _ y _ e => hf x y e)
  have hge : g.edges.Nodup := by
    rw [g2]
    apply nodup_map_of_inj hsc.edgesNodup
    intro x _ y _ e
    injection e with e1 e2
    exact Prod.ext (hf _ _ e1) (hf _ _ e2)
  have hdis : ∀ p ∈ g.nodes, P.has p.1 = false := by
    intro p hp
    rw [g1] at hp
    obtain ⟨q, hq, rfl⟩ := List.mem_map.1 hp
    exact hclash q.1 ((has_iff_mem sc q.1).2 (List.mem_map.2 ⟨q, hq, rfl⟩))
  have un := graphUpdate_nodes_disj P g hgn hdis
  have ue := graphUpdate_edges P g hge
  have ub := graphUpdate_bbs P g
  have unm := graphUpdate_name P g
  generalize P.graphUpdate g = U at un ue ub unm
  have tn := foldl_setTyRaw_nodes "buf" (sc.inputs.map (pref name)) U
  obtain ⟨te, tb, tnm⟩ := foldl_setTyRaw_frame "buf" (sc.inputs.map (pref name)) U
  generalize (sc.inputs.map (pref name)).foldl (fun acc n => acc.setTyRaw n "buf") U = S at tn te tb tnm
  have on := foldl_setOutRaw_nodes false (sc.outputs.map (pref name)) S
  obtain ⟨oe, ob, onm⟩ := foldl_setOutRaw_frame false (sc.outputs.map (pref name)) S
  generalize (sc.outputs.map (pref name)).foldl (fun acc n => acc.setOutRaw n false) S = O at on oe ob onm
  obtain ⟨bn, be, bnm⟩ := foldl_setBB_frame (pref name) sc.bbs O
  -- membership of prefixed names in the strip lists
  have cin : ∀ n, (sc.inputs.map (pref name)).contains (pref name n) = sc.inputs.contains n := by
    intro n
    rw [Bool.eq_iff_iff, List.contains_iff_mem, List.contains_iff_mem, List.mem_map]
    exact ⟨fun ⟨m, hm, e⟩ => hf _ _ e ▸ hm, fun hm => ⟨n, hm, rfl⟩⟩
  have cout : ∀ n, (sc.outputs.map (pref name)).contains (pref name n) = sc.outputs.contains n := by
    intro n
    rw [Bool.eq_iff_iff, List.contains_iff_mem, List.contains_iff_mem, List.mem_map]
    exact ⟨fun ⟨m, hm, e⟩ => hf _ _ e ▸ hm, fun hm => ⟨n, hm, rfl⟩⟩
  have pin : ∀ p ∈ P.nodes, (sc.inputs.map (pref name)).contains p.1 = false := by
    intro p hp
    cases hh : (sc.inputs.map (pref name)).contains p.1 with
    | false => rfl
    | true =>
      obtain ⟨m, hm, e⟩ := List.mem_map.1 (List.contains_iff_mem.1 hh)
      have := hclash m (mem_inputs_has hm)
      rw [e, (has_iff_mem P p.1).2 (List.mem_map.2 ⟨p, hp, rfl⟩)] at this
      cases this
  have pout : ∀ p ∈ P.nodes, (sc.outputs.map (pref name)).contains p.1 = false := by
    intro p hp
    cases hh : (sc.outputs.map (pref name)).contains p.1 with
    | false => rfl
    | true =>
      obtain ⟨m, hm, e⟩ := List.mem_map.1 (List.contains_iff_mem.1 hh)
      have := hclash m (mem_outputs_has hm)
      rw [e, (has_iff_mem P p.1).2 (List.mem_map.2 ⟨p, hp, rfl⟩)] at this
      cases this
  refine ⟨?_, ?_, ?_, ?_⟩
  · rw [bn, on, tn, un, g1, List.map_map, List.map_append, List.map_map]
    congr 1
    · conv => rhs; rw [← List.map_id P.nodes]
      apply List.map_congr_left
      intro p hp
      simp only [Function.comp, pin p hp, Bool.false_eq_true, if_false, pout p hp, id]
    · apply List.map_congr_left
      intro p hp
      obtain ⟨n, a⟩ := p
      have hi := mem_inputs_of_mem hsc.nodup hp
      have ho := mem_outputs_of_mem hsc.nodup hp
      simp only [Function.comp]
      rw [cin]
      by_cases h1 : a.ty = some "input"
      · have h1' : sc.inputs.contains n = true := List.contains_iff_mem.2 (hi.2 h1)
        simp only [h1', if_true]
        rw [cout]
        by_cases h2 : a.out = some true
        · have h2' : sc.outputs.contains n = true := List.contains_iff_mem.2 (ho.2 h2)
          simp only [h2', if_true, stripA, h1, h2]
        · have h2' : sc.outputs.contains n = false := by
            cases hh : sc.outputs.contains n with
            | false => rfl
            | true => exact absurd (ho.1 (List.contains_iff_mem.1 hh)) h2
          simp only [h2', Bool.false_eq_true, if_false, stripA, h1, h2, if_true]
      · have h1' : sc.inputs.contains n = false := by
          cases hh : sc.inputs.contains n with
          | false => rfl
          | true => exact absurd (hi.1 (List.contains_iff_mem.1 hh)) h1
        simp only [h1', Bool.false_eq_true, if_false]
        rw [cout]
        by_cases h2 : a.out = some true
        · have h2' : sc.outputs.contains n = true := List.contains_iff_mem.2 (ho.2 h2)
          simp only [h2', if_true, stripA, h1, h2, if_false]
        · have h2' : sc.outputs.contains n = false := by
            cases hh : sc.outputs.contains n with
            | false => rfl
            | true => exact absurd (ho.1 (List.contains_iff_mem.1 hh)) h2
          simp only [h2', Bool.false_eq_true, if_false, stripA, h1, h2]
  · rw [be, oe, te, ue, g2]
    congr 1
    rw [List.filter_eq_self]
    intro e he
    obtain ⟨e0, he0, rfl⟩ := List.mem_map.1 he
    simp only [Bool.not_eq_true', ← Bool.not_eq_true, List.contains_iff_mem]
    intro hm
    have h1 := (hP.closed _ hm).1
    simp only [] at h1
    rw [hclash e0.1 (hsc.closed e0 he0).1] at h1
    cases h1
  · rw [bnm, onm, tnm, unm]
  · intro hnd hbb
    rw [foldl_setBB_bbs (pref name) sc.bbs O]
    · rw [ob, tb, ub]
    · have : sc.bbs.map (fun p => pref name p.1) = (sc.bbs.map (·.1)).map (pref name) := by
        simp [List.map_map, Function.comp_def]
      rw [this]
      exact nodup_map_of_inj hnd (fun x _ y _ e => hf x y e)
    · intro p hp; rw [ob, tb, ub]; exact hbb p hp

end CG
