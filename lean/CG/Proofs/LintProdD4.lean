/- C20 (second half, insert_registers): what the checks of `connect` inside a successful splice step say about the
   spliced driver and the clock, and the resulting single-step invariant -/
import CG.Proofs.LintProdD3
import CG.Proofs.InsRegStep
import CG.Proofs.ApiCore
set_option linter.unusedSimpArgs false
set_option linter.unusedVariables false
namespace CG
namespace LintProdD
open Circuit InsReg

/-- a successful one-to-one `connect` : the source is no blackbox input pin, and a blackbox output pin only drives a buf -/
theorem connect_src {c c' : Circuit} {u v : Name} (h : c.connect [u] [v] = (c', .ok)) :
    c.ty? u ≠ some "bb_input" ∧ (c.ty? u = some "bb_output" → c.ty? v = some "buf") := by
  have ck := (connect_ok h).2.2.2.2.2.2 (by simp) (by simp)
  obtain ⟨_, _, _, hU⟩ := connectCheck_none ck
  obtain ⟨t, ht, h1, h2⟩ := hU u (by simp)
  rw [ht]
  refine ⟨fun e => h1 (Option.some.inj e), fun e => ?_⟩
  exact (h2 (Option.some.inj e)).1 v (by simp)

/-- the sources connected by a successful `add_blackbox(ff, inst, {d: n, q: r, clk: clk})` -/
theorem addBlackbox_srcs {c c' : Circuit} {inst n r : Name} {ord : Ord}
    (h : c.addBlackbox ffBox inst [("d", [n]), ("q", [r]), ("clk", ["clk"])] ord = (c', .ok)) :
    (c'.ty? n ≠ some "bb_input" ∧ (c'.ty? n = some "bb_output" → c'.ty? (inst ++ "." ++ "d") = some "buf")) ∧
    (c'.ty? "clk" ≠ some "bb_input" ∧
      (c'.ty? "clk" = some "bb_output" → c'.ty? (inst ++ "." ++ "clk") = some "buf")) := by
  unfold addBlackbox at h
  by_cases hl : (c.bbs.lookup inst).isSome = true
  · rw [if_pos hl] at h
    exact Outcome.noConfusion (Prod.mk.inj h).2
  rw [if_neg hl] at h
  generalize hp1 : addBlackbox.pins inst c "bb_input" (ord ffBox.ins) = r1 at h
  obtain ⟨c1, o1⟩ := r1
  cases o1 <;> simp only [] at h <;> try (exact Outcome.noConfusion (Prod.mk.inj h).2)
  generalize hp2 : addBlackbox.pins inst c1 "bb_output" (ord ffBox.outs) = r2 at h
  obtain ⟨c2, o2⟩ := r2
  cases o2 <;> simp only [] at h <;> try (exact Outcome.noConfusion (Prod.mk.inj h).2)
  obtain ⟨c3, c4, h3, h4, h5⟩ := go_inv h
  have k3 := (connect_ok h3).1
  have k4 := (connect_ok h4).1
  have k5 := (connect_ok h5).1
  have e3 : c'.nodes = (c2.setBB inst ffBox).nodes := by rw [k5, k4, k3]
  have e5 : c'.nodes = c4.nodes := k5
  have s3 := connect_src h3
  have s5 := connect_src h5
  rw [← ty?_congr e3, ← ty?_congr e3] at s3
  rw [← ty?_congr e5, ← ty?_congr e5] at s5
  exact ⟨s3, s5⟩

theorem hasDot_base (n : Name) (i : Nat) : hasDot (n ++ "_cg_insert_reg_q_" ++ toString i) = hasDot n := by
  rw [LintLink.hasDot_append, LintLink.hasDot_append, LintLink.hasDot_toString]
  have : hasDot "_cg_insert_reg_q_" = false := by decide
  rw [this, Bool.or_false, Bool.or_false]

/-- a successful splice step, with the facts the linter needs -/
theorem step_inv {ord : Ord} (hord : OrdOK ord) {i : Nat} {cr cr' : Circuit} {n : Name} (hwf : WF cr)
    (h : spliceStep ord i cr n = .ok cr') :
    ∃ r, Splice cr cr' n r ("ff_" ++ n) ∧ hasDot r = hasDot n ∧ NotPin cr n ∧ NotPin cr "clk" := by
  obtain ⟨r', S⟩ := splice_of_step hord hwf h
  obtain ⟨⟨cA, r⟩, hA, hB⟩ := AU.bind_ok h
  have hadd := addE_inv hA
  obtain ⟨hu, hfr, c2, h2, h3⟩ := add_inv rfl rfl hadd
  simp only [if_true] at hu
  have hB' := AU.liftO_ok hB
  simp only [] at hB'
  have BS := addBlackbox_inv hord hB'
  -- the buffer of the `Splice` is the one returned by `uid`
  have hrr : r = r' := by
    have hedge : ("ff_" ++ n ++ ".q", r) ∈ cr'.edges := (BS.edges _).mpr (Or.inr (Or.inr (Or.inl rfl)))
    rcases (S.edges _).mp hedge with ⟨h1, _⟩ | ⟨h1, _⟩ | h1 | h1 | h1
    · have := (S.closed_a h1).1
      simp only [] at this
      rw [S.fq] at this; cases this
    · simp only [] at h1
      exact absurd h1.symm S.rq
    · have := (Prod.mk.inj h1).1
      have hn := S.hasn
      rw [← this, S.fq] at hn; cases hn
    · exact (Prod.mk.inj h1).2
    · have := (Prod.mk.inj h1).1
      have hn := S.hasclk
      rw [← this, S.fq] at hn; cases hn
  subst hrr
  have hdot : hasDot r = hasDot n := by
    rcases (Limit.uid_spec cr _ r hu).2 with rfl | ⟨j, rfl⟩
    · exact hasDot_base n i
    · rw [LintLink.hasDot_uidName]; exact hasDot_base n i
  obtain ⟨⟨t1, t2⟩, ⟨t3, t4⟩⟩ := addBlackbox_srcs hB'
  rw [pin_d, SpliceL.ty_d S] at t2
  rw [pin_k, SpliceL.ty_k S] at t4
  rw [SpliceL.ty_old S S.hasn] at t1 t2
  rw [SpliceL.ty_old S S.hasclk] at t3 t4
  refine ⟨r, S, hdot, ⟨t1, fun e => ?_⟩, ⟨t3, fun e => ?_⟩⟩
  · exact absurd (Option.some.inj (t2 e)) (by decide)
  · exact absurd (Option.some.inj (t4 e)) (by decide)

/-- **one iteration of the inner loop of `insert_registers` keeps a lint-clean circuit with a consistent registry** -/
theorem step_clean {ord : Ord} (hord : OrdOK ord) {i : Nat} {cr cr' : Circuit} {n : Name}
    (hc : LintClean cr) (hr : C20.RegistryOK cr) (hn : hasDot n = false) (h : spliceStep ord i cr n = .ok cr') :
    LintClean cr' ∧ C20.RegistryOK cr' := by
  obtain ⟨r, S, hd, p1, p2⟩ := step_inv hord hc.toWF h
  have hinst : hasDot ("ff_" ++ n) = false := by
    rw [LintLink.hasDot_append, hn]
    decide
  exact ⟨SpliceL.lintClean S hc p1 p2, SpliceL.registryOK S hr hinst (hd.trans hn)⟩

end LintProdD
end CG
