/- C18 helpers: the small monadic folds of `acyclic_unroll` (shared inputs, chaining connects, set_type) and the
   frame facts of `add_subcircuit` -/
import CG.Proofs.AcycUnrollOps
set_option linter.unusedSimpArgs false
set_option linter.unusedVariables false
namespace CG
namespace AU
open Circuit
open Tx (addC)

def inAttr : Attr := { ty := some "input", out := some false }

/-- `for n in sp: acyc.add(n, "input")` -/
theorem inputsFold : ∀ (l : List Name) (A r : Circuit),
    l.foldlM (fun a n => addC a { n := n, ty := "input" }) A = .ok r →
    r.nodes = A.nodes ++ l.map (fun n => (n, inAttr)) ∧ r.edges = A.edges ∧ r.bbs = A.bbs ∧
    (∀ n ∈ l, A.has n = false) ∧ l.Nodup := by
  intro l
  induction l with
  | nil =>
    intro A r h
    simp only [List.foldlM_nil] at h
    injection h with h
    subst h
    exact ⟨by simp, rfl, rfl, (fun n hn => by cases hn), List.nodup_nil⟩
  | cons n l ih =>
    intro A r h
    rw [List.foldlM_cons] at h
    obtain ⟨A1, h1, h2⟩ := bind_ok h
    obtain ⟨hfresh, c3, h3, h4⟩ := addC_ok rfl rfl rfl h1
    simp only [] at hfresh h3 h4
    rw [connect_empty_right] at h3
    injection h3 with h3 _
    subst h3
    rw [connect_empty_left] at h4
    injection h4 with h4 _
    subst h4
    obtain ⟨b1, b2, b3, b4, b5⟩ := ih _ _ h2
    have hA1 : (A.addNodeAttr n { ty := some "input", out := some false }).nodes = A.nodes ++ [(n, inAttr)] := by
      rw [addNodeAttr_fresh _ hfresh]; rfl
    refine ⟨?_, by rw [b2, addNodeAttr_edges], by rw [b3, addNodeAttr_bbs], ?_, ?_⟩
    · rw [b1, hA1]; simp
    · intro x hx
      rcases List.mem_cons.1 hx with rfl | hx
      · exact hfresh
      · have := b4 x hx
        rw [addNodeAttr_has] at this
        simpa using (Bool.or_eq_false_iff.1 this).1
    · rw [List.nodup_cons]
      refine ⟨?_, b5⟩
      intro hn
      have := b4 n hn
      rw [addNodeAttr_has] at this
      simp at this

/-! ### chaining connects: `acyc.connect(f"c{i-1}_{f}", f"c{i}_aux_in_{f}")` -/

theorem connectFold (src tgt : Name → Name) : ∀ (F : List Name) (A B : Circuit),
    F.foldlM (fun a f => liftO (a.connect [src f] [tgt f])) A = .ok B → WF A → (F.map tgt).Nodup →
    (∀ f ∈ F, A.ty? (tgt f) = some "buf") →
    WF B ∧ B.nodes = A.nodes ∧ KeepsX (F.map tgt) A B ∧ ∀ f ∈ F, Gate B (tgt f) "buf" [src f] := by
  intro F
  induction F with
  | nil =>
    intro A B h hA _ _
    simp only [List.foldlM_nil] at h
    injection h with h
    subst h
    exact ⟨hA, rfl, KeepsX.refl _ _, fun f hf => by cases hf⟩
  | cons f F ih =>
    intro A B h hA hnd hg
    rw [List.foldlM_cons] at h
    obtain ⟨A1, h1, h2⟩ := bind_ok h
    have h1 := liftO_ok h1
    rw [List.map_cons, List.nodup_cons] at hnd
    have hn1 := (connect_ok h1).1
    have g1 : Gate A1 (tgt f) "buf" [src f] := connect_gate h1 (hg f (by simp))
    have k1 : KeepsX [tgt f] A A1 := keeps_connect h1
    have hg1 : ∀ g ∈ F, A1.ty? (tgt g) = some "buf" := by
      intro g hgF
      rw [ty?_congr hn1]
      exact hg g (by simp [hgF])
    obtain ⟨b1, b2, b3, b4⟩ := ih A1 B h2 (wf_connect h1 hA) hnd.2 hg1
    refine ⟨b1, by rw [b2, hn1], ?_, ?_⟩
    · apply KeepsX.trans (B := A1)
      · exact k1.mono (fun x hx => by simp at hx; simp [hx])
      · exact b3.mono (fun x hx => by simp [hx])
    · intro g hgm
      rcases List.mem_cons.1 hgm with rfl | hgF
      · exact g1.keep b3 hnd.1
      · exact b4 g hgF

/-! ### `acyc.set_type(f"c0_aux_in_{f}", "input")` -/

theorem setTypeFold (tgt : Name → Name) : ∀ (F : List Name) (A B : Circuit),
    F.foldlM (fun a f => liftO (a.setType [tgt f] "input")) A = .ok B → WF A →
    WF B ∧ KeepsX (F.map tgt) A B ∧ B.edges = A.edges ∧
    (∀ x, B.ty? x = some "input" ↔ (A.ty? x = some "input" ∨ x ∈ F.map tgt)) ∧
    (∀ x, B.isOut x = A.isOut x) ∧ (∀ x, B.has x = A.has x) := by
  intro F
  induction F with
  | nil =>
    intro A B h hA
    simp only [List.foldlM_nil] at h
    injection h with h
    subst h
    exact ⟨hA, KeepsX.refl _ _, rfl, fun x => by simp, fun _ => rfl, fun _ => rfl⟩
  | cons f F ih =>
    intro A B h hA
    rw [List.foldlM_cons] at h
    obtain ⟨A1, h1, h2⟩ := bind_ok h
    obtain ⟨hhas, e⟩ := setType_ok (liftO_ok h1)
    subst e
    obtain ⟨b1, b2, b3, b4, b5, b6⟩ := ih _ B h2 (wf_setTyRaw _ _ hA)
    refine ⟨b1, ?_, by rw [b3]; rfl, ?_, ?_, ?_⟩
    · apply KeepsX.trans (B := A.setTyRaw (tgt f) "input")
      · exact (keeps_setTyRaw A (tgt f) "input").mono (fun x hx => by simp at hx; simp [hx])
      · exact b2.mono (fun x hx => by simp [hx])
    · intro x
      rw [b4, setTyRaw_ty?, List.map_cons, List.mem_cons]
      by_cases hx : x = tgt f
      · subst hx
        rw [if_pos ⟨rfl, hhas⟩]
        simp
      · rw [if_neg (fun hc => hx hc.1)]
        simp [hx]
    · intro x; rw [b5, setTyRaw_isOut]
    · intro x; rw [b6, setTyRaw_has]

/-! ### frame facts of `add_subcircuit` -/

theorem attr?_append_left {P P' : Circuit} {M : List (Name × Attr)} (h : P'.nodes = P.nodes ++ M) {x : Name}
    (hx : P.has x = true) : P'.attr? x = P.attr? x := by
  rw [has_eq_isSome] at hx
  unfold attr? at hx ⊢
  rw [h, List.lookup_append]
  cases hl : List.lookup x P.nodes with
  | none => rw [hl] at hx; cases hx
  | some a => rfl

theorem addSub_keeps {P sc P' : Circuit} {name : Name} {conns : List (Name × List Name)} (hsc : WF sc)
    (S : SubFacts P sc P' name conns) (hkeys : ∀ q ∈ conns, q.1 ∈ sc.inputs) :
    Keeps P P' ∧ (∀ x, P.has x = true → P'.isOut x = P.isOut x) ∧
    (∀ x, P.has x = false → P'.ty? x ≠ some "input" ∧ P'.isOut x = false) := by
  refine ⟨?_, ?_, ?_⟩
  · intro n hn _
    refine ⟨S.has_parent hn, ?_, S.fanin_parent hsc hn (fun q hq hqi => absurd (hkeys q hq) hqi)⟩
    unfold ty?
    rw [attr?_append_left S.nodes hn]
  · intro x hx
    unfold isOut
    rw [attr?_append_left S.nodes hx]
  · intro x hx
    cases ha : P'.attr? x with
    | none => exact ⟨by unfold ty?; rw [ha]; simp, by unfold isOut; rw [ha]⟩
    | some a =>
      have hm := attr?_mem ha
      rw [S.nodes] at hm
      rcases List.mem_append.1 hm with hm | hm
      · have : P.has x = true := by
          rw [has_iff_mem]; exact List.mem_map.2 ⟨(x, a), hm, rfl⟩
        rw [hx] at this
        cases this
      · obtain ⟨p, hp, e⟩ := List.mem_map.1 hm
        injection e with e1 e2
        subst e2
        refine ⟨?_, ?_⟩
        · unfold ty?; rw [ha]; exact stripA_ty_ne_input p.2
        · unfold isOut; rw [ha]; exact stripA_out_false p.2

end AU
end CG
