/- helper lemmas for C11 (avg_sensitivity): all Boolean vectors of a given length, and the double counting
   Σ_s |{b | χ s b}| = Σ_b |{s | χ s b}| on lists -/
import CG.Basic
namespace CG
namespace SensE

/-- all Boolean vectors of a given length (mirror of `C11.allBools`) -/
def allBoolsF : Nat → List (List Bool)
  | 0 => [[]]
  | k + 1 => (allBoolsF k).flatMap (fun l => [false :: l, true :: l])

theorem mem_allBoolsF (k : Nat) (bs : List Bool) : bs ∈ allBoolsF k ↔ bs.length = k := by
  induction k generalizing bs with
  | zero => simp [allBoolsF]
  | succ k ih =>
    cases bs with
    | nil => simp [allBoolsF]
    | cons b t => cases b <;> simp [allBoolsF, ih]

theorem allBoolsF_nodup (k : Nat) : (allBoolsF k).Nodup := by
  induction k with
  | zero => simp [allBoolsF]
  | succ k ih =>
    unfold allBoolsF
    unfold List.Nodup
    rw [List.pairwise_flatMap]
    refine ⟨fun a _ => by simp, ?_⟩
    refine List.Pairwise.imp ?_ ih
    intro a b hab x hx y hy
    simp at hx hy
    rcases hx with rfl | rfl <;> rcases hy with rfl | rfl <;> simp [hab]

theorem sum_map_add' {γ : Type} (l : List γ) (f g : γ → Nat) :
    (l.map (fun x => f x + g x)).sum = (l.map f).sum + (l.map g).sum := by
  induction l with
  | nil => simp
  | cons a l ih => simp [ih]; omega

theorem sum_swap {α β : Type} (l1 : List α) (l2 : List β) (g : α → β → Nat) :
    (l1.map (fun a => (l2.map (g a)).sum)).sum = (l2.map (fun b => (l1.map (fun a => g a b)).sum)).sum := by
  induction l1 with
  | nil =>
    have : ∀ l : List β, (l.map (fun _ => 0)).sum = 0 := by
      intro l; induction l with
      | nil => rfl
      | cons b l ih => simp [ih]
    simp [this]
  | cons a l ih => simp [ih, sum_map_add']

theorem length_filter_eq_sum {γ : Type} (l : List γ) (p : γ → Bool) :
    (l.filter p).length = (l.map (fun x => if p x then 1 else 0)).sum := by
  induction l with
  | nil => simp
  | cons a l ih =>
    cases h : p a <;> simp [h, ih]; omega

/-- double counting: if the `i`-th reported count is the number of `b ∈ B` with `χ (name i) b`, and the reported names
    are a permutation of `sp`, then the sum of the counts is Σ over `b ∈ B` of the number of `s ∈ sp` with `χ s b` -/
theorem double_count {α β : Type} (r : List (α × Nat × Nat)) (sp osp : List α) (B : List β) (hB : B.Nodup)
    (χ : α → β → Bool)
    (hnames : r.map (·.1) = osp) (hperm : osp.Perm sp)
    (hcnt : ∀ p ∈ r, ∃ L : List β, L.Nodup ∧ L.length = p.2.1 ∧ ∀ b, b ∈ L ↔ (b ∈ B ∧ χ p.1 b = true)) :
    (r.map (·.2.1)).sum = (B.map (fun b => (sp.filter (fun s => χ s b)).length)).sum := by
  have h1 : r.map (·.2.1) = (r.map (·.1)).map (fun a => (B.filter (χ a)).length) := by
    rw [List.map_map]
    apply List.map_congr_left
    intro p hp
    obtain ⟨L, hL, hlen, hmem⟩ := hcnt p hp
    have hp' : L.Perm (B.filter (χ p.1)) := by
      rw [List.perm_ext_iff_of_nodup hL (List.Nodup.sublist List.filter_sublist hB)]
      intro b; rw [hmem b]; simp
    simp [← hlen, hp'.length_eq]
  rw [h1, hnames, (hperm.map _).sum_nat]
  simp only [length_filter_eq_sum]
  exact sum_swap sp B (fun a b => if χ a b then 1 else 0)

end SensE
end CG
