/- acyclic_unroll of an acyclic circuit cuts nothing (C05 helper) -/
import CG.Tx3
import CG.Spec
import CG.Proofs.AcycUnroll
namespace CG
namespace InsReg
open Query

/-- the feedback-arc heuristic returns nothing on an acyclic graph -/
theorem fas_nil_of_acyclic (c : Circuit) (hwf : WF c) (hac : Acyclic c) : Tx.approxMinFas c = [] := by
  apply List.eq_nil_iff_forall_not_mem.mpr
  intro e he
  obtain ⟨hed, hd⟩ := AU.fas_sub c e he
  rw [List.contains_iff_mem] at hd
  obtain ⟨hp, _⟩ := (Q.mem_descendants c hwf e.2 e.1).mp hd
  obtain ⟨rank, hr⟩ := hac
  have h1 := hp.rank_lt rank (fun a b hab => hr (a, b) hab)
  have h2 := hr e hed
  omega

end InsReg
end CG
