/- C03 helper (behavioural round trip): consistent valuations are carried *forward* along the steps of the Verilog
   transformer (adding a node, renaming a synthetic gate onto its net, dropping an unused constant).  The existing
   C02 lemmas (`CG/Proofs/Vlog*.lean`) pull valuations back; these are the converses. -/
import CG.Proofs.VlogMain
namespace CG
namespace VB
open Verilog Circuit Ternary VT

/-- valuations are pushed from `c` to `c'`: every typed node of `c'` either satisfies its equation outright or has a
    counterpart `q` in `c` of the same type and the same predecessors, on which the valuations agree -/
theorem consistent_push {c c' : Circuit} (hc : c.edges.Nodup) (hc' : c'.edges.Nodup) (v v' : Val)
    (h : ∀ p ∈ c'.nodes, ∀ t, p.2.ty = some t →
      (∀ b, gateFn t ((c'.fanin p.1).map v') = some b → v' p.1 = b) ∨
      (∃ q a, c.attr? q = some a ∧ a.ty = some t ∧ (∀ u, (u, q) ∈ c.edges ↔ (u, p.1) ∈ c'.edges) ∧ v' p.1 = v q ∧
        ∀ u ∈ c'.fanin p.1, v' u = v u))
    (hv : Consistent c v) : Consistent c' v' := by
  intro p hp t ht b hb
  rcases h p hp t ht with h1 | ⟨q, a, ha, hta, hed, hpq, hfi⟩
  · exact h1 b hb
  · rw [hpq]
    refine Arith.node_val hv hc (attr?_mem ha) hta (c'.fanin p.1) (fanin_nodup hc' p.1)
      (fun u => (hed u).trans mem_fanin.symm) ?_
    have : (c'.fanin p.1).map v = (c'.fanin p.1).map v' :=
      List.map_congr_left (fun u hu => (hfi u hu).symm)
    rw [this]
    exact hb

/-- changing the value of a name outside the circuit is harmless -/
theorem consistent_update_fresh {c : Circuit} (hwf : WF c) {n : Name} (hn : c.has n = false) (b : Bool) {v : Val}
    (hv : Consistent c v) : Consistent c (fun x => if x = n then b else v x) := by
  intro p hp t ht b' hb'
  have hpn : p.1 ≠ n := by
    rintro rfl
    have : c.has p.1 = true := (has_iff_mem c p.1).2 (List.mem_map.2 ⟨p, hp, rfl⟩)
    rw [hn] at this; cases this
  have hmap : (c.fanin p.1).map (fun x => if x = n then b else v x) = (c.fanin p.1).map v := by
    apply List.map_congr_left
    intro u hu
    have hu' := (hwf.closed _ (mem_fanin.mp hu)).1
    have : u ≠ n := by rintro rfl; simp only at hu'; rw [hn] at hu'; cases hu'
    rw [if_neg this]
  rw [hmap] at hb'
  simp only [if_neg hpn]
  exact hv p hp t ht b' hb'

/-- a valuation of `t` in which the (so far undriven) node `n` already carries the value of its new equation is a
    valuation of the circuit after the `add` call -/
theorem addSpec_consistent {t t' : Circuit} {a : AddArgs} {n : Name} (s : AddSpec t a n t') (hwf : WF t)
    (hfo : a.fanout = []) {v : Val} (hv : Consistent t v)
    (hn : ∀ b, gateFn a.ty ((t'.fanin n).map v) = some b → v n = b) : Consistent t' v := by
  have hnd' := s.nodupN hwf.nodup
  have hed' := s.nodupE hwf.edgesNodup
  apply consistent_push hwf.edgesNodup hed' v v ?_ hv
  intro p hp tt htt
  have hpa : t'.attr? p.1 = some p.2 := attr?_of_mem hnd' hp
  by_cases hpn : p.1 = n
  · left
    rw [hpn, s.attr_self] at hpa
    injection hpa with hpa
    rw [← hpa] at htt
    injection htt with htt
    rw [← htt, hpn]
    exact hn
  · cases hh : t.has p.1 with
    | true =>
      right
      refine ⟨p.1, p.2, by rw [← s.attr_old p.1 hpn hh]; exact hpa, htt, ?_, rfl, fun _ _ => rfl⟩
      intro u
      rw [s.edges, hfo]
      constructor
      · exact Or.inl
      · rintro (h | h | h)
        · exact h
        · simp at h
        · exact absurd h.2 hpn
    | false =>
      left
      have hh' : t'.has p.1 = true := (has_iff_mem t' p.1).2 (List.mem_map.2 ⟨p, hp, rfl⟩)
      rw [s.attr_new p.1 hpn hh hh'] at hpa
      injection hpa with hpa
      rw [← hpa] at htt
      have htt' : tt = "buf" := by
        simp only [bufAttr] at htt
        injection htt with htt
        exact htt.symm
      have hfan : t'.fanin p.1 = [] := by
        apply fanin_nil_of
        intro e he he2
        rcases (s.edges e).mp he with h | h | h
        · have := (hwf.closed e h).2
          rw [he2, hh] at this; cases this
        · rw [hfo] at h; simp at h
        · exact hpn (he2 ▸ h.2)
      intro b hb
      rw [hfan, htt'] at hb
      simp [gateFn] at hb

/-! ### backward extension -/

/-- every consistent valuation of `c` extends to one of `c'`, unchanged on the nodes of `c` and on every name that is
    not a synthesised gate name -/
def BExt (c c' : Circuit) : Prop :=
  ∀ v, Consistent c v → ∃ v', Consistent c' v' ∧ ∀ x, (c.has x = true ∨ ¬ IsSyn x) → v' x = v x

theorem BExt.refl (c : Circuit) : BExt c c := fun v hv => ⟨v, hv, fun _ _ => rfl⟩

theorem BExt.trans {c c' c'' : Circuit} (h1 : BExt c c') (h2 : BExt c' c'')
    (hm : ∀ x, c.has x = true → c'.has x = true) : BExt c c'' := by
  intro v hv
  obtain ⟨v1, hv1, a1⟩ := h1 v hv
  obtain ⟨v2, hv2, a2⟩ := h2 v1 hv1
  refine ⟨v2, hv2, fun x hx => ?_⟩
  rw [a2 x (hx.imp (hm x) id), a1 x hx]

/-- adding a fresh synthetic gate: the new node takes the value of its gate function -/
theorem gate_bext {c c' : Circuit} {a : AddArgs} {n : Name} (s : AddSpec c a n c') (hwf : WF c) (hfo : a.fanout = [])
    (hfresh : c.has n = false) (hnfi : n ∉ a.fanin) (hsyn : IsSyn n) : BExt c c' := by
  intro v hv
  have hnoin : ∀ e ∈ c.edges, e.2 ≠ n := by
    intro e he h2
    have := (hwf.closed e he).2
    rw [h2, hfresh] at this; cases this
  have hself : n ∉ c'.fanin n := by
    intro h
    rcases (s.edges _).mp (mem_fanin.mp h) with h1 | h1 | h1
    · exact hnoin _ h1 rfl
    · rw [hfo] at h1; simp at h1
    · exact hnfi h1.1
  refine ⟨fun x => if x = n then (gateFn a.ty ((c'.fanin n).map v)).getD false else v x, ?_, ?_⟩
  · apply addSpec_consistent s hwf hfo (consistent_update_fresh hwf hfresh _ hv)
    intro b hb
    have hmap : (c'.fanin n).map (fun x => if x = n then (gateFn a.ty ((c'.fanin n).map v)).getD false else v x) =
        (c'.fanin n).map v := by
      apply List.map_congr_left
      intro u hu
      have : u ≠ n := by rintro rfl; exact hself hu
      rw [if_neg this]
    rw [hmap] at hb
    simp only [if_true, hb, Option.getD_some]
  · intro x hx
    have : x ≠ n := by
      rintro rfl
      rcases hx with h | h
      · rw [hfresh] at h; cases h
      · exact h hsyn
    simp only [if_neg this]

/-- the freshly built gate `m` is renamed onto the (so far undriven) net `l`: a valuation in which both carry the same
    value remains consistent -/
theorem relabel_consistent {c : Circuit} {l m : Name} (hwf : WF c) (hund : Und c l) (hhas : c.has m = true)
    (hnoOut : ∀ e ∈ c.edges, e.1 ≠ m) (hlm : l ≠ m) {a : Attr} (ha : c.attr? m = some a)
    (hty : a.ty.isSome = true) (hout : a.out.isSome = true) {v : Val} (hv : Consistent c v) (hml : v m = v l) :
    Consistent (c.relabel [(m, l)]) v := by
  rw [Arith.relabel_single hwf.nodup hhas]
  obtain ⟨hnd, hed, _, hattr, hedges⟩ := relabelOne_merge hwf.nodup hwf.edgesNodup ha hty hout hlm
  generalize c.relabelOne m l = c' at *
  have hedge : ∀ e, e ∈ c'.edges ↔ ∃ e0 ∈ c.edges, e = (e0.1, if e0.2 = m then l else e0.2) := by
    intro e
    rw [hedges]
    constructor
    · rintro ⟨e0, h0, rfl⟩; exact ⟨e0, h0, by rw [if_neg (hnoOut e0 h0)]⟩
    · rintro ⟨e0, h0, rfl⟩; exact ⟨e0, h0, by rw [if_neg (hnoOut e0 h0)]⟩
  have hin_l : ∀ u, (u, l) ∈ c'.edges ↔ (u, m) ∈ c.edges := by
    intro u
    rw [hedge]
    constructor
    · rintro ⟨e0, h0, he⟩
      injection he with h1 h2
      by_cases hm : e0.2 = m
      · rw [h1, ← hm]; exact h0
      · rw [if_neg hm] at h2
        exact absurd h2.symm (hund.2 e0 h0)
    · intro h; exact ⟨(u, m), h, by simp⟩
  have hin_o : ∀ y, y ≠ l → y ≠ m → ∀ u, (u, y) ∈ c'.edges ↔ (u, y) ∈ c.edges := by
    intro y hy hym u
    rw [hedge]
    constructor
    · rintro ⟨e0, h0, he⟩
      injection he with h1 h2
      by_cases hm : e0.2 = m
      · rw [if_pos hm] at h2; exact absurd h2 hy
      · rw [if_neg hm] at h2
        rw [h1, h2]; exact h0
    · intro h; exact ⟨(u, y), h, by simp [hym]⟩
  apply consistent_push hwf.edgesNodup hed v v ?_ hv
  intro p hp t ht
  right
  have hpa : c'.attr? p.1 = some p.2 := attr?_of_mem hnd hp
  rw [hattr] at hpa
  by_cases h1 : p.1 = m
  · rw [if_pos h1] at hpa; cases hpa
  · rw [if_neg h1] at hpa
    by_cases h2 : p.1 = l
    · rw [if_pos h2] at hpa
      injection hpa with hpa
      refine ⟨m, a, ha, hpa ▸ ht, fun u => ?_, by rw [h2]; exact hml.symm, fun _ _ => rfl⟩
      rw [h2, hin_l]
    · rw [if_neg h2] at hpa
      exact ⟨p.1, p.2, hpa, ht, fun u => (hin_o p.1 h2 h1 u).symm, rfl, fun _ _ => rfl⟩

/-- dropping an unused constant node keeps every valuation consistent -/
theorem dropTie_consistent (c : Circuit) (t : Name) (hnd : c.nodeNames.Nodup) (hed : c.edges.Nodup) {v : Val}
    (hv : Consistent c v) : Consistent (dropTie c t) v := by
  unfold dropTie
  by_cases hf : (c.fanout t).isEmpty = true
  · rw [if_pos hf]
    have hrm : c.remove [t] = c.removeNode t := rfl
    rw [hrm]
    have hfo : ∀ e ∈ c.edges, e.1 ≠ t := by
      intro e he het
      have : e.2 ∈ c.fanout t := mem_fanout.mpr (by rw [← het]; exact he)
      rw [List.isEmpty_iff] at hf
      rw [hf] at this
      cases this
    apply consistent_push hed (removeNode_edges_nodup t hed) v v ?_ hv
    intro p hp tt htt
    right
    have hp' : p ∈ c.nodes ∧ p.1 ≠ t := by
      unfold removeNode at hp
      simp only [List.mem_filter, Bool.not_eq_true', beq_eq_false_iff_ne, ne_eq] at hp
      exact hp
    refine ⟨p.1, p.2, attr?_of_mem hnd hp'.1, htt, fun u => ?_, rfl, fun _ _ => rfl⟩
    rw [removeNode_mem]
    constructor
    · intro h; exact ⟨h, hfo _ h, hp'.2⟩
    · exact fun h => h.1
  · rw [if_neg hf]
    exact hv

end VB
end CG
