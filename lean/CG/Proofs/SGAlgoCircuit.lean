/- C17 (algorithm) helpers, part 10: the circuit `sgCircuit` built from a node set -/
import CG.Proofs.SGAlgoTbl
import CG.Spec
set_option linter.unusedSectionVars false
set_option linter.unusedVariables false
set_option linter.unusedSimpArgs false
namespace CG
namespace SGA
open Query Supergates Q

theorem subcircuitL1 : T.subcircuitL 1 = ["0", "1", "x"] := by decide

/-- does `n` have a driver inside `S`? -/
def drivenIn (c2 : Circuit) (S : List Name) (n : Name) : Bool :=
  (c2.edges.filter (fun e => S.contains e.1 && S.contains e.2)).any (·.2 == n)

def loadedIn (c2 : Circuit) (S : List Name) (n : Name) : Bool :=
  (c2.edges.filter (fun e => S.contains e.1 && S.contains e.2)).any (·.1 == n)

/-- the type `sgCircuit` gives to a node -/
def sgTy (c2 : Circuit) (S : List Name) (n : Name) : String :=
  if !(T.subcircuitL 1).contains ((c2.ty? n).getD "") && !drivenIn c2 S n then "input" else (c2.ty? n).getD ""

def sgAttr (c2 : Circuit) (o h : Name) (S : List Name) (n : Name) : Attr :=
  { ty := some (sgTy c2 S n), out := some (n == h || n == o || !loadedIn c2 S n) }

theorem sgCircuit_nodes (c2 : Circuit) (o h : Name) (S : List Name) :
    (sgCircuit c2 o h S).nodes = S.map (fun n => (n, sgAttr c2 o h S n)) := rfl

theorem sgCircuit_edges (c2 : Circuit) (o h : Name) (S : List Name) :
    (sgCircuit c2 o h S).edges = c2.edges.filter (fun e => S.contains e.1 && S.contains e.2) := rfl

theorem sg_nodeNames (c2 : Circuit) (o h : Name) (S : List Name) : (sgCircuit c2 o h S).nodeNames = S := by
  unfold Circuit.nodeNames
  rw [sgCircuit_nodes, List.map_map]
  exact List.map_id S

theorem drivenIn_iff (c2 : Circuit) (S : List Name) (n : Name) :
    drivenIn c2 S n = true ↔ ∃ x, (x, n) ∈ c2.edges ∧ x ∈ S ∧ n ∈ S := by
  unfold drivenIn
  rw [List.any_eq_true]
  constructor
  · rintro ⟨e, he, hn⟩
    rw [List.mem_filter, Bool.and_eq_true, List.contains_iff_mem, List.contains_iff_mem] at he
    rw [beq_iff_eq] at hn
    subst hn
    exact ⟨e.1, he.1, he.2.1, he.2.2⟩
  · rintro ⟨x, he, hx, hn⟩
    refine ⟨(x, n), ?_, by simp⟩
    rw [List.mem_filter, Bool.and_eq_true, List.contains_iff_mem, List.contains_iff_mem]
    exact ⟨he, hx, hn⟩

theorem loadedIn_iff (c2 : Circuit) (S : List Name) (n : Name) :
    loadedIn c2 S n = true ↔ ∃ x, (n, x) ∈ c2.edges ∧ n ∈ S ∧ x ∈ S := by
  unfold loadedIn
  rw [List.any_eq_true]
  constructor
  · rintro ⟨e, he, hn⟩
    rw [List.mem_filter, Bool.and_eq_true, List.contains_iff_mem, List.contains_iff_mem] at he
    rw [beq_iff_eq] at hn
    subst hn
    exact ⟨e.2, he.1, he.2.1, he.2.2⟩
  · rintro ⟨x, he, hn, hx⟩
    refine ⟨(n, x), ?_, by simp⟩
    rw [List.mem_filter, Bool.and_eq_true, List.contains_iff_mem, List.contains_iff_mem]
    exact ⟨he, hn, hx⟩

theorem sg_fanin (c2 : Circuit) (o h : Name) (S : List Name) (x n : Name) :
    x ∈ (sgCircuit c2 o h S).fanin n ↔ (x, n) ∈ c2.edges ∧ x ∈ S ∧ n ∈ S := by
  rw [Q.mem_fanin, sgCircuit_edges, List.mem_filter, Bool.and_eq_true, List.contains_iff_mem, List.contains_iff_mem]

theorem sg_attr (c2 : Circuit) (o h : Name) (S : List Name) {n : Name} (hn : n ∈ S) :
    (sgCircuit c2 o h S).attr? n = some (sgAttr c2 o h S n) := by
  unfold Circuit.attr?
  rw [sgCircuit_nodes, lookup_map_self, if_pos hn]

theorem sg_ty (c2 : Circuit) (o h : Name) (S : List Name) {n : Name} (hn : n ∈ S) :
    (sgCircuit c2 o h S).ty? n = some (sgTy c2 S n) := by
  unfold Circuit.ty?
  rw [sg_attr c2 o h S hn]
  rfl

theorem sg_inputs_eq (c2 : Circuit) (o h : Name) (S : List Name) :
    (sgCircuit c2 o h S).inputs = S.filter (fun n => sgTy c2 S n == "input") := by
  unfold Circuit.inputs Circuit.filterType
  rw [sgCircuit_nodes, List.filter_map, List.map_map]
  have h1 : ((fun p : Name × Attr => p.1) ∘ fun n => (n, sgAttr c2 o h S n)) = id := rfl
  rw [h1, List.map_id]
  congr 1
  funext n
  simp only [sgAttr, Function.comp, List.contains_cons, List.contains_nil, Bool.or_false]

theorem sg_outputs_eq (c2 : Circuit) (o h : Name) (S : List Name) :
    (sgCircuit c2 o h S).outputs = S.filter (fun n => n == h || n == o || !loadedIn c2 S n) := by
  unfold Circuit.outputs
  rw [sgCircuit_nodes, List.filter_map, List.map_map]
  have h1 : ((fun p : Name × Attr => p.1) ∘ fun n => (n, sgAttr c2 o h S n)) = id := rfl
  rw [h1, List.map_id]
  congr 1

theorem mem_sg_inputs (c2 : Circuit) (o h : Name) (S : List Name) (n : Name) :
    n ∈ (sgCircuit c2 o h S).inputs ↔ n ∈ S ∧ sgTy c2 S n = "input" := by
  rw [sg_inputs_eq, List.mem_filter, beq_iff_eq]

theorem mem_sg_internal (c2 : Circuit) (o h : Name) (S : List Name) (n : Name) :
    n ∈ internal (sgCircuit c2 o h S) ↔ n ∈ S ∧ sgTy c2 S n ≠ "input" := by
  unfold internal
  rw [List.mem_filter, sg_nodeNames, Bool.not_eq_true', ← Bool.not_eq_true, List.contains_iff_mem, mem_sg_inputs]
  constructor
  · rintro ⟨h1, h2⟩
    exact ⟨h1, fun h3 => h2 ⟨h1, h3⟩⟩
  · rintro ⟨h1, h2⟩
    exact ⟨h1, fun h3 => h2 h3.2⟩

/-- with lint-clean types: the inputs are the non-constant members without a driver in the set -/
theorem sgTy_input_iff (c2 : Circuit) (hc : LintClean c2) (S : List Name) (n : Name) :
    sgTy c2 S n = "input" ↔
      ((c2.ty? n).getD "" ≠ "0" ∧ (c2.ty? n).getD "" ≠ "1" ∧ (c2.ty? n).getD "" ≠ "x") ∧ drivenIn c2 S n = false := by
  unfold sgTy
  rw [subcircuitL1]
  by_cases hd : drivenIn c2 S n = true
  · rw [hd]
    simp only [Bool.not_true, Bool.and_false, Bool.false_eq_true, if_false]
    constructor
    · intro ht
      exfalso
      obtain ⟨x, he, _, _⟩ := (drivenIn_iff c2 S n).mp hd
      cases hty : c2.ty? n with
      | none => rw [hty] at ht; simp at ht
      | some t =>
        rw [hty] at ht
        simp only [Option.getD_some] at ht
        subst ht
        have := hc.noFanin n "input" hty (by decide)
        have hm : x ∈ c2.fanin n := Q.mem_fanin.mpr he
        rw [this] at hm
        exact absurd hm List.not_mem_nil
    · rintro ⟨_, h2⟩
      cases h2
  · rw [Bool.not_eq_true] at hd
    rw [hd]
    by_cases hcst : (c2.ty? n).getD "" = "0" ∨ (c2.ty? n).getD "" = "1" ∨ (c2.ty? n).getD "" = "x"
    · have : (["0", "1", "x"].contains ((c2.ty? n).getD "")) = true := by
        rw [List.contains_iff_mem]
        simp only [List.mem_cons, List.not_mem_nil, or_false]
        exact hcst
      rw [this]
      simp only [Bool.not_true, Bool.false_and, Bool.false_eq_true, if_false]
      constructor
      · intro ht
        rcases hcst with h | h | h <;> rw [h] at ht <;> simp at ht
      · rintro ⟨⟨h1, h2, h3⟩, _⟩
        rcases hcst with h | h | h
        · exact absurd h h1
        · exact absurd h h2
        · exact absurd h h3
    · have : (["0", "1", "x"].contains ((c2.ty? n).getD "")) = false := by
        rw [← Bool.not_eq_true, List.contains_iff_mem]
        simp only [List.mem_cons, List.not_mem_nil, or_false]
        exact hcst
      rw [this]
      simp only [Bool.not_false, Bool.and_self, if_true, true_iff, and_true]
      exact ⟨fun h => hcst (Or.inl h), fun h => hcst (Or.inr (Or.inl h)), fun h => hcst (Or.inr (Or.inr h))⟩

/-- the type of an internal node is kept -/
theorem sgTy_of_ne_input (c2 : Circuit) (S : List Name) (n : Name) (h : sgTy c2 S n ≠ "input") :
    sgTy c2 S n = (c2.ty? n).getD "" := by
  unfold sgTy at h ⊢
  split
  · rename_i hc; rw [if_pos hc] at h; exact absurd rfl h
  · rfl

theorem ty_some_of_has (c2 : Circuit) (hc : LintClean c2) {n : Name} (hn : c2.has n = true) :
    ∃ t, c2.ty? n = some t ∧ t ∈ Expected.supported_types := by
  rw [Q.has_iff] at hn
  obtain ⟨p, hp, hpn⟩ := List.mem_map.mp hn
  obtain ⟨t, ht, hts⟩ := hc.typed p hp
  refine ⟨t, ?_, hts⟩
  unfold Circuit.ty?
  have := Q.attr_of_mem c2 hc.nodup p.1 p.2 hp
  rw [← hpn, this]
  exact ht

end SGA
end CG
