/- C20 (second half, ternary) helper: the operand steps and the operand loop of `ternary`, with the arity condition of
   every helper node they create -/
import CG.Proofs.LintProdA2
namespace CG
namespace LintProdA
open Circuit Ternary

variable {c : Circuit} {mp : Name → Name}

/-- the nodes of `s'` that `s` lacks are dot-free, correctly driven helper gates other than `z` -/
def NewH2 (z : Name) (s s' : Circuit) : Prop :=
  ∀ y, s'.has y = true → s.has y = true ∨ (IsHelper y ∧ y ≠ z ∧ hasDot y = false ∧ Ar s' y)

/-- `StepOK` with the description of the new nodes -/
def StepOK2 (G : Gadget) (c : Circuit) (mp : Name → Name) (z : Name) (step : Circuit → Name → E Circuit) : Prop :=
  ∀ (s : Circuit) (p : Name), W c mp s → s.ty? z = some "nor" → s.has p = true → s.has (mp p) = true →
    Circuit.isDigit0 p = false → hasDot p = false →
    ∃ s' h, step s p = .ok s' ∧ W c mp s' ∧ Frame s s' (NewH s) (fun y => y = z ∨ NewH s y) ∧
      s.has h = false ∧ (∀ u, (u, z) ∈ s'.edges ↔ ((u, z) ∈ s.edges ∨ u = h)) ∧ G s' z h p ∧ NewH2 z s s'

theorem is0_step2 (hm : MapOK c mp) (z : Name) : StepOK2 (IsZero mp) c mp z (Tx.ternaryIs0 mp z) := by
  intro s p hW hz hp hmp hd hnd
  obtain ⟨s', h, hadd, o, hnew, hdot⟩ := fresh_gate2 hm hW p "_is_0" "nor" [p, mp p] [z] false hd (by decide)
    (by decide) (fun h => absurd h (by decide))
    (by intro v hv; rw [List.mem_singleton] at hv; subst hv; exact ⟨"nor", hz, by decide⟩)
    (by
      intro u hu
      simp only [List.mem_cons, List.not_mem_nil, or_false] at hu
      rcases hu with rfl | rfl
      · exact Or.inl hp
      · exact Or.inl hmp)
  have hhz : h ≠ z := (ne_of_has_fresh (has_of_ty? hz) o.fresh).symm
  refine ⟨s', h, ?_, o.w, ?_, o.fresh, o.into_fo z (by simp), ?_, ?_⟩
  · unfold Tx.ternaryIs0; exact addC_of hadd
  · exact o.frameH.weaken (fun _ _ h => h) (fun x h => h.imp (fun h' => List.mem_singleton.mp h') id)
  · exact ⟨hhz, o.helper, o.ty_r, o.fanin_r⟩
  · intro y hy
    rcases hnew y hy with h1 | h1 | ⟨h1, _⟩
    · exact Or.inl h1
    · subst h1
      exact Or.inr ⟨o.helper, hhz, by rw [hdot]; exact hnd,
        Ar.of_multi_faninIs o.ty_r (by decide) o.fanin_r (by simp)⟩
    · cases h1

theorem is1_step2 (hm : MapOK c mp) (z : Name) : StepOK2 (IsOne mp) c mp z (Tx.ternaryIs1 mp z) := by
  intro s p hW hz hp hmp hd hnd
  obtain ⟨s1, h, hadd1, o1, hnew1, hdot1⟩ := fresh_gate2 hm hW p "_is_1" "and" [p] [z] false hd (by decide)
    (by decide) (fun h => absurd h (by decide))
    (by intro v hv; rw [List.mem_singleton] at hv; subst hv; exact ⟨"nor", hz, by decide⟩)
    (by intro u hu; rw [List.mem_singleton] at hu; subst hu; exact Or.inl hp)
  obtain ⟨s2, q, hadd2, o2, hnew2, hdot2⟩ := fresh_gate2 hm o1.w p "_not_x" "not" [mp p] [h] false hd (by decide)
    (by decide) (by intro _; simp)
    (by intro v hv; rw [List.mem_singleton] at hv; subst hv; exact ⟨"and", o1.ty_r, by decide⟩)
    (by intro u hu; rw [List.mem_singleton] at hu; subst hu; exact Or.inl (o1.frame.has _ hmp))
  have hzs : s.has z = true := has_of_ty? hz
  have hz1 : s1.has z = true := o1.frame.has _ hzs
  have hzh : z ≠ h := ne_of_has_fresh hzs o1.fresh
  have hzq : z ≠ q := ne_of_has_fresh hz1 o2.fresh
  have hhq : h ≠ q := ne_of_has_fresh o1.has_r o2.fresh
  have hty_h : s2.ty? h = some "and" := by rw [o2.frame.ty o1.has_r hhq]; exact o1.ty_r
  have hfi_h : FaninIs s2 h [p, q] := by
    intro u
    rw [o2.into_fo h (by simp) u, o1.fanin_r u]
    simp
  refine ⟨s2, h, ?_, o2.w, ?_, o1.fresh, ?_, ?_, ?_⟩
  · unfold Tx.ternaryIs1
    rw [addE_of hadd1, ok_bind]
    exact addC_of hadd2
  · refine (o1.frameH.trans' o2.frameH (fun x hx hn => absurd hn (not_newH (o1.frame.has x hx))) ?_).weaken
      (fun _ _ h => h) (fun x h => h.imp (fun h' => List.mem_singleton.mp h') id)
    intro x hx
    rcases hx with hx | hx
    · rw [List.mem_singleton] at hx
      exact Or.inr (hx ▸ ⟨o1.fresh, o1.helper⟩)
    · exact Or.inr (NewH.mono o1.frame.has hx)
  · intro u
    rw [o2.frame.edge (y := z) (by
      rintro (h' | h')
      · exact hzq h'
      · exact hzh (List.mem_singleton.mp h'))]
    exact o1.into_fo z (by simp) u
  · exact ⟨q, hzh.symm, hzq.symm, o1.helper, o2.helper, hty_h, hfi_h, o2.ty_r, o2.fanin_r⟩
  · intro y hy
    have hq_ok : IsHelper q ∧ q ≠ z ∧ hasDot q = false ∧ Ar s2 q :=
      ⟨o2.helper, hzq.symm, by rw [hdot2]; exact hnd, Ar.of_sgl o2.ty_r (by decide) o2.fanin_r⟩
    have hh_ok : IsHelper h ∧ h ≠ z ∧ hasDot h = false ∧ Ar s2 h :=
      ⟨o1.helper, hzh.symm, by rw [hdot1]; exact hnd, Ar.of_multi_faninIs hty_h (by decide) hfi_h (by simp)⟩
    rcases hnew2 y hy with h1 | h1 | ⟨h1, _⟩
    · rcases hnew1 y h1 with h2 | h2 | ⟨h2, _⟩
      · exact Or.inl h2
      · subst h2; exact Or.inr hh_ok
      · cases h2
    · subst h1; exact Or.inr hq_ok
    · cases h1

/-- the operand loop, with the description of the new nodes -/
theorem collect_loop2 {G : Gadget} (hG : GStable G) {z : Name}
    {step : Circuit → Name → E Circuit} (hstep : StepOK2 G c mp z step) :
    ∀ (fi : List Name) (s : Circuit), W c mp s → s.ty? z = some "nor" →
      (∀ p ∈ fi, s.has p = true ∧ s.has (mp p) = true ∧ Circuit.isDigit0 p = false ∧ hasDot p = false) →
      ∃ s', fi.foldlM step s = .ok s' ∧ W c mp s' ∧ Frame s s' (NewH s) (fun y => y = z ∨ NewH s y) ∧
        (∀ h, (h, z) ∈ s'.edges → (h, z) ∈ s.edges ∨ ∃ p ∈ fi, G s' z h p) ∧
        (∀ p ∈ fi, ∃ h, (h, z) ∈ s'.edges ∧ G s' z h p) ∧ NewH2 z s s'
  | [], s, hW, _, _ =>
    ⟨s, rfl, hW, Frame.refl _ _ _, fun _ h => Or.inl h, (fun _ h => nomatch h), fun _ h => Or.inl h⟩
  | p :: fi, s, hW, hz, hctx => by
    obtain ⟨hp1, hp2, hp3, hp4⟩ := hctx p (by simp)
    obtain ⟨s1, h, e1, hW1, hf1, hfresh, hinto, hg, hn1⟩ := hstep s p hW hz hp1 hp2 hp3 hp4
    have hz1 : s1.ty? z = some "nor" := by
      rw [hf1.ty (has_of_ty? hz) (not_newH (has_of_ty? hz))]; exact hz
    obtain ⟨s2, e2, hW2, hf2, ha, hb, hn2⟩ := collect_loop2 hG hstep fi s1 hW1 hz1
      (fun q hq => by
        obtain ⟨h1, h2, h3, h4⟩ := hctx q (by simp [hq])
        exact ⟨hf1.has _ h1, hf1.has _ h2, h3, h4⟩)
    have hf12 : Frame s s2 (NewH s) (fun y => y = z ∨ NewH s y) :=
      hf1.trans' hf2 (fun x hx hn => absurd hn (not_newH (hf1.has x hx)))
        (fun x hx => hx.imp id (NewH.mono hf1.has))
    have hkeep : ∀ h' p', G s1 z h' p' → G s2 z h' p' := by
      intro h' p' hg'
      refine hG s1 s2 _ _ z h' p' hf2 ?_ hg'
      intro y hy _ hyz
      exact ⟨not_newH hy, fun hn => hn.elim hyz (not_newH hy)⟩
    refine ⟨s2, ?_, hW2, hf12, ?_, ?_, ?_⟩
    · rw [List.foldlM_cons, e1]; exact e2
    · intro h' he
      rcases ha h' he with h1 | ⟨q, hq, hgq⟩
      · rcases (hinto h').mp h1 with h2 | h2
        · exact Or.inl h2
        · exact Or.inr ⟨p, by simp, h2 ▸ hkeep h p hg⟩
      · exact Or.inr ⟨q, by simp [hq], hgq⟩
    · intro q hq
      rcases List.mem_cons.mp hq with rfl | hq
      · exact ⟨h, hf2.mono _ ((hinto h).mpr (Or.inr rfl)), hkeep h q hg⟩
      · exact hb q hq
    · intro y hy
      rcases hn2 y hy with h1 | h1
      · rcases hn1 y h1 with h2 | ⟨h2, h3, h4, h5⟩
        · exact Or.inl h2
        · refine Or.inr ⟨h2, h3, h4, Ar.frame_fix hf2 (not_newH h1) ?_ h5⟩
          exact fun hn => hn.elim h3 (not_newH h1)
      · exact Or.inr h1

end LintProdA
end CG
