/- helper lemmas for C05 (limit_fanin / limit_fanout): entry point.
   LimitGate      gate algebra (permutation invariance, associativity)
   LimitUid       `uid` never runs out of fuel, returns a fresh acceptable name
   LimitOps       tables, circuits with one node appended, `connectCheck`
   LimitAdd       `add(..., uid=True)` evaluated symbolically, type-string facts
   LimitRefine    list permutation helpers, refinement by adding one defined node
   LimitFanin / LimitFaninInv / LimitFaninLoop      one grouping step, its invariants, the loops
   LimitFanout / LimitFanoutInv / LimitFanoutLoop   one buffering step, its invariants, the loops -/
import CG.Tx
import CG.Spec
import CG.Proofs.LimitGate
import CG.Proofs.LimitFaninLoop
import CG.Proofs.LimitFanoutLoop
namespace CG
namespace Limit
open Circuit

/-- `LintClean` from decidable checks over the node and edge lists (used for concrete examples) -/
theorem lintClean_of_checks (c : Circuit) (wf : WF c)
    (htyped : ∀ p ∈ c.nodes, ∃ t ∈ Expected.supported_types, p.2.ty = some t)
    (hnodes : ∀ m ∈ c.nodeNames, ∀ t ∈ (c.ty? m).toList,
      (t ∈ sourceTypes → c.fanin m = []) ∧ (t ∈ singleTypes → (c.fanin m).length = 1) ∧
      (t ∈ multiTypes → 1 ≤ (c.fanin m).length))
    (hedges : ∀ e ∈ c.edges,
      (c.ty? e.1 = some "bb_output" → c.ty? e.2 = some "buf" ∧ (c.fanout e.1).length ≤ 1) ∧
      c.ty? e.1 ≠ some "bb_input") : LintClean c where
  toWF := wf
  typed := fun p hp => by
    obtain ⟨t, h1, h2⟩ := htyped p hp
    exact ⟨t, h2, h1⟩
  noFanin := fun m t h hs =>
    (hnodes m ((RU.has_iff c m).mp (has_of_ty h)) t (by rw [h]; simp)).1 hs
  single := fun m t h hs =>
    (hnodes m ((RU.has_iff c m).mp (has_of_ty h)) t (by rw [h]; simp)).2.1 hs
  multi := fun m t h hs =>
    (hnodes m ((RU.has_iff c m).mp (has_of_ty h)) t (by rw [h]; simp)).2.2 hs
  bbOut := fun e he => (hedges e he).1
  noBBInFanout := fun e he => (hedges e he).2

theorem limit_rejects_small_k (c : Circuit) (k : Nat) (hk : k < 2) (ord : Ord) :
    Tx.limitFanin c k ord = .error .valueError ∧ Tx.limitFanout c k ord = .error .valueError := by
  unfold Tx.limitFanin Tx.limitFanout
  simp only [hk, if_true, and_self]

end Limit
end CG
