/- C10 helper: pure three-valued algebra and the evaluation folds (no graphs transformed here) -/
import CG.Kleene
import CG.Spec
namespace CG
namespace Ternary

/-! ### refinement of a ternary value by a Boolean -/

/-- `k` is `x` or the definite value `b` -/
def Ref (k : T3) (b : Bool) : Prop := k = T3.x ∨ k = T3.ofBool b

theorem ref_and3 {k1 k2 : T3} {b1 b2 : Bool} (h1 : Ref k1 b1) (h2 : Ref k2 b2) :
    Ref (T3.and3 k1 k2) (b1 && b2) := by
  rcases h1 with rfl | rfl <;> rcases h2 with rfl | rfl <;> cases b1 <;> cases b2 <;>
    simp [Ref, T3.and3, T3.ofBool]

theorem ref_or3 {k1 k2 : T3} {b1 b2 : Bool} (h1 : Ref k1 b1) (h2 : Ref k2 b2) :
    Ref (T3.or3 k1 k2) (b1 || b2) := by
  rcases h1 with rfl | rfl <;> rcases h2 with rfl | rfl <;> cases b1 <;> cases b2 <;>
    simp [Ref, T3.or3, T3.ofBool]

theorem ref_xor3 {k1 k2 : T3} {b1 b2 : Bool} (h1 : Ref k1 b1) (h2 : Ref k2 b2) :
    Ref (T3.xor3 k1 k2) (Bool.xor b1 b2) := by
  rcases h1 with rfl | rfl <;> rcases h2 with rfl | rfl <;> cases b1 <;> cases b2 <;>
    simp [Ref, T3.xor3, T3.ofBool]

theorem ref_not3 {k : T3} {b : Bool} (h : Ref k b) : Ref k.not3 (!b) := by
  rcases h with rfl | rfl <;> cases b <;> simp [Ref, T3.not3, T3.ofBool]

theorem andL_cons (a : T3) (l : List T3) : T3.andL (a :: l) = T3.and3 a (T3.andL l) := rfl
theorem orL_cons (a : T3) (l : List T3) : T3.orL (a :: l) = T3.or3 a (T3.orL l) := rfl
theorem xor3L_cons (a : T3) (l : List T3) : T3.xor3L (a :: l) = T3.xor3 a (T3.xor3L l) := rfl

section lists
variable {α : Type} (K : α → T3) (B : α → Bool)

theorem ref_andL : ∀ (L : List α), (∀ p ∈ L, Ref (K p) (B p)) → Ref (T3.andL (L.map K)) ((L.map B).all id)
  | [], _ => Or.inr rfl
  | p :: L, h => by
    simp only [List.map_cons, andL_cons, List.all_cons, id]
    exact ref_and3 (h p (by simp)) (ref_andL L (fun q hq => h q (by simp [hq])))

theorem ref_orL : ∀ (L : List α), (∀ p ∈ L, Ref (K p) (B p)) → Ref (T3.orL (L.map K)) ((L.map B).any id)
  | [], _ => Or.inr rfl
  | p :: L, h => by
    simp only [List.map_cons, orL_cons, List.any_cons, id]
    exact ref_or3 (h p (by simp)) (ref_orL L (fun q hq => h q (by simp [hq])))

theorem ref_xorL : ∀ (L : List α), (∀ p ∈ L, Ref (K p) (B p)) → Ref (T3.xor3L (L.map K)) (xorL (L.map B))
  | [], _ => Or.inr rfl
  | p :: L, h => by
    simp only [List.map_cons, xor3L_cons, xorL]
    exact ref_xor3 (h p (by simp)) (ref_xorL L (fun q hq => h q (by simp [hq])))

end lists

/-- monotonicity of the Kleene gate functions w.r.t. completion, for every gate type and arity -/
theorem gate_ref {α : Type} (t : String) (L : List α) (K : α → T3) (B : α → Bool)
    (h : ∀ p ∈ L, Ref (K p) (B p)) :
    (gateFn3 t (L.map K) = none ∧ gateFn t (L.map B) = none) ∨
    ∃ k b, gateFn3 t (L.map K) = some k ∧ gateFn t (L.map B) = some b ∧ Ref k b := by
  unfold gateFn gateFn3
  by_cases h1 : t = "and"
  · simp only [if_pos h1]; exact Or.inr ⟨_, _, rfl, rfl, ref_andL K B L h⟩
  simp only [if_neg h1]
  by_cases h2 : t = "nand"
  · simp only [if_pos h2]; exact Or.inr ⟨_, _, rfl, rfl, ref_not3 (ref_andL K B L h)⟩
  simp only [if_neg h2]
  by_cases h3 : t = "or"
  · simp only [if_pos h3]; exact Or.inr ⟨_, _, rfl, rfl, ref_orL K B L h⟩
  simp only [if_neg h3]
  by_cases h4 : t = "nor"
  · simp only [if_pos h4]; exact Or.inr ⟨_, _, rfl, rfl, ref_not3 (ref_orL K B L h)⟩
  simp only [if_neg h4]
  by_cases h5 : t = "xor"
  · simp only [if_pos h5]; exact Or.inr ⟨_, _, rfl, rfl, ref_xorL K B L h⟩
  simp only [if_neg h5]
  by_cases h6 : t = "xnor"
  · simp only [if_pos h6]; exact Or.inr ⟨_, _, rfl, rfl, ref_not3 (ref_xorL K B L h)⟩
  simp only [if_neg h6]
  by_cases h7 : t = "buf" ∨ t = "bb_input"
  · simp only [if_pos h7]
    match L, h with
    | [], _ => exact Or.inl ⟨rfl, rfl⟩
    | [a], h => exact Or.inr ⟨_, _, rfl, rfl, h a (by simp)⟩
    | _ :: _ :: _, _ => exact Or.inl ⟨rfl, rfl⟩
  simp only [if_neg h7]
  by_cases h8 : t = "not"
  · simp only [if_pos h8]
    match L, h with
    | [], _ => exact Or.inl ⟨rfl, rfl⟩
    | [a], h => exact Or.inr ⟨_, _, rfl, rfl, ref_not3 (h a (by simp))⟩
    | _ :: _ :: _, _ => exact Or.inl ⟨rfl, rfl⟩
  simp only [if_neg h8]
  by_cases h9 : t = "0"
  · simp only [if_pos h9]; exact Or.inr ⟨_, _, rfl, rfl, Or.inr rfl⟩
  simp only [if_neg h9]
  by_cases h10 : t = "1"
  · simp only [if_pos h10]; exact Or.inr ⟨_, _, rfl, rfl, Or.inr rfl⟩
  rw [if_neg h10, if_neg h10]
  exact Or.inl ⟨rfl, rfl⟩

/-! ### the two evaluation folds in lockstep -/

theorem envVal3_cons (env : List (Name × T3)) (pat : Name → T3) (n m : Name) (k : T3) :
    envVal3 ((n, k) :: env) pat m = if m = n then k else envVal3 env pat m := by
  unfold envVal3
  rw [List.lookup_cons]
  by_cases h : m = n
  · subst h; simp
  · have : (m == n) = false := by simpa using h
    simp [this, h]

theorem envVal_cons (env : List (Name × Bool)) (free : Val) (n m : Name) (k : Bool) :
    envVal ((n, k) :: env) free m = if m = n then k else envVal env free m := by
  unfold envVal
  rw [List.lookup_cons]
  by_cases h : m = n
  · subst h; simp
  · have : (m == n) = false := by simpa using h
    simp [this, h]

theorem step_ref (c : Circuit) (pat : Name → T3) (b : Val) (hb : Completes b pat)
    (env3 : List (Name × T3)) (envB : List (Name × Bool))
    (h : ∀ m, Ref (envVal3 env3 pat m) (envVal envB b m)) (n : Name) :
    ∀ m, Ref (envVal3 (evalStep3 c pat env3 n) pat m) (envVal (evalStep c b envB n) b m) := by
  intro m
  unfold evalStep3 evalStep
  simp only [envVal3_cons, envVal_cons]
  by_cases hm : m = n
  · simp only [if_pos hm]
    cases hty : c.ty? n with
    | none => exact hb n
    | some t =>
      simp only []
      rcases gate_ref t (c.fanin n) (envVal3 env3 pat) (envVal envB b) (fun p _ => h p) with
        ⟨h1, h2⟩ | ⟨k, bb, h1, h2, h3⟩
      · rw [h1, h2]; exact hb n
      · rw [h1, h2]; exact h3
  · simp only [if_neg hm]; exact h m

theorem fold_ref (c : Circuit) (pat : Name → T3) (b : Val) (hb : Completes b pat) :
    ∀ (order : List Name) (env3 : List (Name × T3)) (envB : List (Name × Bool)),
    (∀ m, Ref (envVal3 env3 pat m) (envVal envB b m)) →
    ∀ m, Ref (envVal3 (order.foldl (evalStep3 c pat) env3) pat m) (envVal (order.foldl (evalStep c b) envB) b m)
  | [], _, _, h => h
  | n :: order, env3, envB, h => by
    simp only [List.foldl_cons]
    exact fold_ref c pat b hb order _ _ (step_ref c pat b hb env3 envB h n)

/-- Kleene evaluation is refined by the evaluation of every completion, node by node (any order) -/
theorem eval_ref (c : Circuit) (order : List Name) (pat : Name → T3) (b : Val) (hb : Completes b pat) (n : Name) :
    Ref (eval3 c order pat n) (eval c order b n) := by
  unfold eval3 eval evalEnv
  exact fold_ref c pat b hb order [] [] (fun m => hb m) n

/-! ### fixpoints of the Kleene step -/

/-- the value the Kleene step assigns to `n` when every node carries `pat` -/
def step3 (c : Circuit) (pat : Name → T3) (n : Name) : T3 :=
  match c.ty? n with
  | some t => (match gateFn3 t ((c.fanin n).map pat) with | some b => b | none => pat n)
  | none => pat n

theorem fold_fix (c : Circuit) (pat : Name → T3) :
    ∀ (order : List Name) (env : List (Name × T3)), (∀ n ∈ order, step3 c pat n = pat n) →
    (∀ m, envVal3 env pat m = pat m) → ∀ m, envVal3 (order.foldl (evalStep3 c pat) env) pat m = pat m
  | [], _, _, h => h
  | n :: order, env, hs, h => by
    simp only [List.foldl_cons]
    refine fold_fix c pat order _ (fun k hk => hs k (by simp [hk])) ?_
    intro m
    have hfun : envVal3 env pat = pat := funext h
    unfold evalStep3
    simp only [envVal3_cons, hfun]
    by_cases hm : m = n
    · simp only [if_pos hm]
      have := hs n (by simp)
      unfold step3 at this
      rw [hm]; exact this
    · simp only [if_neg hm]

/-- a pattern that is a fixpoint of the Kleene step at every evaluated node is what `eval3` computes -/
theorem eval3_fix (c : Circuit) (order : List Name) (pat : Name → T3)
    (h : ∀ n ∈ order, step3 c pat n = pat n) (m : Name) : eval3 c order pat m = pat m := by
  unfold eval3
  exact fold_fix c pat order [] h (fun _ => rfl) m

/-! ### the encoding, gate family by gate family, over an arbitrary operand list -/

/-- the ternary value denoted by a (value, is-X flag) pair -/
def toT3 (b f : Bool) : T3 := if f then T3.x else T3.ofBool b

theorem not3_toT3 (b f : Bool) : (toT3 b f).not3 = toT3 (!b) f := by
  cases b <;> cases f <;> rfl

theorem and_step : ∀ (bp fp A F Z : Bool), (Z = true → A = false) → (F = false → Z = false → A = true) →
    T3.and3 (toT3 bp fp) (toT3 A (F && !Z)) = toT3 (bp && A) ((fp || F) && !((!bp && !fp) || Z)) := by
  decide

theorem or_step : ∀ (bp fp A F Z : Bool), (Z = true → A = true) → (F = false → Z = false → A = false) →
    T3.or3 (toT3 bp fp) (toT3 A (F && !Z)) = toT3 (bp || A) ((fp || F) && !((bp && !fp) || Z)) := by
  decide

theorem xor_step : ∀ (bp fp A F : Bool),
    T3.xor3 (toT3 bp fp) (toT3 A F) = toT3 (Bool.xor bp A) (fp || F) := by
  decide

section enc
variable {α : Type} (b f : α → Bool)

theorem and_coh : ∀ (L : List α), L.any (fun p => !b p && !f p) = true → (L.map b).all id = false
  | [], h => by simp at h
  | p :: L, h => by
    simp only [List.any_cons, Bool.or_eq_true] at h
    simp only [List.map_cons, List.all_cons, id, Bool.and_eq_false_iff]
    rcases h with h | h
    · left; cases hb : b p <;> simp_all
    · right; exact and_coh L h

theorem or_coh : ∀ (L : List α), L.any (fun p => b p && !f p) = true → (L.map b).any id = true
  | [], h => by simp at h
  | p :: L, h => by
    simp only [List.any_cons, Bool.or_eq_true] at h
    simp only [List.map_cons, List.any_cons, id, Bool.or_eq_true]
    rcases h with h | h
    · left; cases hb : b p <;> simp_all
    · right; exact or_coh L h

theorem and_coh2 : ∀ (L : List α), L.any f = false → L.any (fun p => !b p && !f p) = false →
    (L.map b).all id = true
  | [], _, _ => rfl
  | p :: L, h1, h2 => by
    simp only [List.any_cons, Bool.or_eq_false_iff] at h1 h2
    simp only [List.map_cons, List.all_cons, id, Bool.and_eq_true]
    refine ⟨?_, and_coh2 L h1.2 h2.2⟩
    cases hb : b p <;> simp_all

theorem or_coh2 : ∀ (L : List α), L.any f = false → L.any (fun p => b p && !f p) = false →
    (L.map b).any id = false
  | [], _, _ => rfl
  | p :: L, h1, h2 => by
    simp only [List.any_cons, Bool.or_eq_false_iff] at h1 h2
    simp only [List.map_cons, List.any_cons, id, Bool.or_eq_false_iff]
    refine ⟨?_, or_coh2 L h1.2 h2.2⟩
    cases hb : b p <;> simp_all

theorem and_enc0 : ∀ (L : List α),
    T3.andL (L.map (fun p => toT3 (b p) (f p))) =
      toT3 ((L.map b).all id) (L.any f && !L.any (fun p => !b p && !f p))
  | [] => rfl
  | p :: L => by
    simp only [List.map_cons, andL_cons, List.all_cons, List.any_cons, id]
    rw [and_enc0 L]
    exact and_step _ _ _ _ _ (and_coh b f L) (and_coh2 b f L)

theorem or_enc0 : ∀ (L : List α),
    T3.orL (L.map (fun p => toT3 (b p) (f p))) =
      toT3 ((L.map b).any id) (L.any f && !L.any (fun p => b p && !f p))
  | [] => rfl
  | p :: L => by
    simp only [List.map_cons, orL_cons, List.any_cons, id]
    rw [or_enc0 L]
    exact or_step _ _ _ _ _ (or_coh b f L) (or_coh2 b f L)

theorem xor_enc0 : ∀ (L : List α),
    T3.xor3L (L.map (fun p => toT3 (b p) (f p))) = toT3 (xorL (L.map b)) (L.any f)
  | [] => rfl
  | p :: L => by
    simp only [List.map_cons, xor3L_cons, xorL, List.any_cons]
    rw [xor_enc0 L]
    exact xor_step _ _ _ _

theorem and_enc (L : List α) (vm : Bool)
    (h : vm = true ↔ (∃ p ∈ L, f p = true) ∧ ¬ ∃ p ∈ L, b p = false ∧ f p = false) :
    T3.andL (L.map (fun p => toT3 (b p) (f p))) = toT3 ((L.map b).all id) vm := by
  rw [and_enc0]
  congr 1
  rw [Bool.eq_iff_iff, h]
  simp [List.any_eq_true]

theorem or_enc (L : List α) (vm : Bool)
    (h : vm = true ↔ (∃ p ∈ L, f p = true) ∧ ¬ ∃ p ∈ L, b p = true ∧ f p = false) :
    T3.orL (L.map (fun p => toT3 (b p) (f p))) = toT3 ((L.map b).any id) vm := by
  rw [or_enc0]
  congr 1
  rw [Bool.eq_iff_iff, h]
  simp [List.any_eq_true]

theorem xor_enc (L : List α) (vm : Bool) (h : vm = true ↔ ∃ p ∈ L, f p = true) :
    T3.xor3L (L.map (fun p => toT3 (b p) (f p))) = toT3 (xorL (L.map b)) vm := by
  rw [xor_enc0]
  congr 1
  rw [Bool.eq_iff_iff, h]
  simp [List.any_eq_true]

/-- every gate family at once: if the companion value `vm` is what the encoder's helper gates compute,
    the Kleene gate on the denoted operands yields the value denoted by (binary gate value, `vm`) -/
theorem enc_gate (ty : String) (L : List α) (vm : Bool)
    (hand : ty = "and" ∨ ty = "nand" →
      (vm = true ↔ (∃ p ∈ L, f p = true) ∧ ¬ ∃ p ∈ L, b p = false ∧ f p = false))
    (hor : ty = "or" ∨ ty = "nor" →
      (vm = true ↔ (∃ p ∈ L, f p = true) ∧ ¬ ∃ p ∈ L, b p = true ∧ f p = false))
    (hxor : ty = "xor" ∨ ty = "xnor" → (vm = true ↔ ∃ p ∈ L, f p = true))
    (hbuf : ty = "buf" ∨ ty = "not" → ∃ p, L = [p] ∧ vm = f p)
    (hconst : ty = "0" ∨ ty = "1" → vm = false)
    (hty : ty ∈ ["and", "nand", "or", "nor", "xor", "xnor", "buf", "not", "0", "1"]) :
    ∃ b', gateFn ty (L.map b) = some b' ∧
      gateFn3 ty (L.map (fun p => toT3 (b p) (f p))) = some (toT3 b' vm) := by
  simp only [List.mem_cons, List.not_mem_nil, or_false] at hty
  rcases hty with rfl | rfl | rfl | rfl | rfl | rfl | rfl | rfl | rfl | rfl
  · refine ⟨(L.map b).all id, by simp [gateFn], ?_⟩
    simp only [gateFn3, if_true]
    rw [and_enc b f L vm (hand (Or.inl rfl))]
  · refine ⟨!(L.map b).all id, by simp [gateFn], ?_⟩
    simp only [gateFn3, String.reduceEq, if_false, if_true]
    rw [and_enc b f L vm (hand (Or.inr rfl)), not3_toT3]
  · refine ⟨(L.map b).any id, by simp [gateFn], ?_⟩
    simp only [gateFn3, String.reduceEq, if_false, if_true]
    rw [or_enc b f L vm (hor (Or.inl rfl))]
  · refine ⟨!(L.map b).any id, by simp [gateFn], ?_⟩
    simp only [gateFn3, String.reduceEq, if_false, if_true]
    rw [or_enc b f L vm (hor (Or.inr rfl)), not3_toT3]
  · refine ⟨xorL (L.map b), by simp [gateFn], ?_⟩
    simp only [gateFn3, String.reduceEq, if_false, if_true]
    rw [xor_enc b f L vm (hxor (Or.inl rfl))]
  · refine ⟨!xorL (L.map b), by simp [gateFn], ?_⟩
    simp only [gateFn3, String.reduceEq, if_false, if_true]
    rw [xor_enc b f L vm (hxor (Or.inr rfl)), not3_toT3]
  · obtain ⟨p, rfl, rfl⟩ := hbuf (Or.inl rfl)
    exact ⟨b p, by simp [gateFn], by simp [gateFn3]⟩
  · obtain ⟨p, rfl, rfl⟩ := hbuf (Or.inr rfl)
    exact ⟨!b p, by simp [gateFn], by simp [gateFn3, not3_toT3]⟩
  · have := hconst (Or.inl rfl); subst this
    exact ⟨false, by simp [gateFn], by simp [gateFn3, toT3, T3.ofBool]⟩
  · have := hconst (Or.inr rfl); subst this
    exact ⟨true, by simp [gateFn], by simp [gateFn3, toT3, T3.ofBool]⟩

end enc

end Ternary
end CG
