/- C03 helper (text level): generic pieces — continuation-style lexing lemmas, comma-separated lists (lexer and
   `sepBy`), the behavioural chains (text, tokens, `pExpr`) -/
import CG.Proofs.VTextDefs
import CG.Proofs.VlogParse
namespace CG
namespace VX
open Verilog

/-! ### delimiters end identifiers -/

theorem brk_sp (r : List Char) : Brk (' ' :: r) := by show idc ' ' = false; decide
theorem brk_nl (r : List Char) : Brk ('\n' :: r) := by show idc '\n' = false; decide
theorem brk_semi (r : List Char) : Brk (';' :: r) := by show idc ';' = false; decide
theorem brk_comma (r : List Char) : Brk (',' :: r) := by show idc ',' = false; decide
theorem brk_lparen (r : List Char) : Brk ('(' :: r) := by show idc '(' = false; decide
theorem brk_rparen (r : List Char) : Brk (')' :: r) := by show idc ')' = false; decide

/-- the text `cs`, followed by anything, lexes to `ts` followed by the tokens of the rest -/
def LexCP (cs : List Char) (ts : List Tok) : Prop :=
  ∀ rest rts, Lexes rest rts → Lexes (cs ++ rest) (ts ++ rts)

/-- the same when an identifier cannot continue into the rest -/
def LexCPb (cs : List Char) (ts : List Tok) : Prop :=
  ∀ rest rts, Brk rest → Lexes rest rts → Lexes (cs ++ rest) (ts ++ rts)

theorem LexCP.toB {cs : List Char} {ts : List Tok} (h : LexCP cs ts) : LexCPb cs ts := fun rest rts _ hr => h rest rts hr

theorem LexCP.nil : LexCP [] [] := fun _ _ h => h

theorem LexCP.append {a b : List Char} {ta tb : List Tok} (ha : LexCP a ta) (hb : LexCP b tb) : LexCP (a ++ b) (ta ++ tb) := by
  intro rest rts h
  rw [List.append_assoc, List.append_assoc]
  exact ha _ _ (hb _ _ h)

theorem lexCPb_ident {s : Name} (hs : Ident s) : LexCPb s.toList [Tok.id s] :=
  fun _ _ hb h => Lexes.ident hs hb h

theorem All2.map {α β γ : Type} {R : α → β → Prop} (f : γ → α) (g : γ → β) :
    ∀ (l : List γ), (∀ x ∈ l, R (f x) (g x)) → All2 R (l.map f) (l.map g)
  | [], _ => All2.nil
  | x :: l, h => All2.cons (h x (by simp)) (All2.map f g l (fun y hy => h y (by simp [hy])))

theorem All2.length {α β : Type} {R : α → β → Prop} : ∀ {l : List α} {m : List β}, All2 R l m → l.length = m.length
  | _, _, All2.nil => rfl
  | _, _, All2.cons _ h => by simp [h.length]

/-- flattening: lines one after the other -/
theorem lexCP_flatten : ∀ {css : List (List Char)} {tss : List (List Tok)}, All2 LexCP css tss →
    LexCP css.flatten tss.flatten
  | _, _, All2.nil => LexCP.nil
  | _, _, All2.cons h hs => by
    rw [List.flatten_cons, List.flatten_cons]
    exact h.append (lexCP_flatten hs)

/-! ### comma-separated lists -/

def commas : List (List Tok) → List Tok
  | [] => []
  | [t] => t
  | t :: u :: ts => t ++ Tok.sym "," :: commas (u :: ts)

theorem intercalate_cons₂ {α : Type} (sep x y : List α) (zs : List (List α)) :
    sep.intercalate (x :: y :: zs) = x ++ sep ++ sep.intercalate (y :: zs) := by
  simp [List.intercalate]

theorem intercalate_one {α : Type} (sep x : List α) : sep.intercalate [x] = x := by
  simp [List.intercalate]

theorem lex_commas : ∀ {css : List (List Char)} {tss : List (List Tok)}, All2 LexCPb css tss →
    LexCPb ((", ".toList).intercalate css) (commas tss)
  | _, _, All2.nil => fun _ _ _ h => h
  | _, _, All2.cons (l := []) (m := []) h All2.nil => by
    rw [intercalate_one]
    exact h
  | _, _, All2.cons (a := a) (b := b) h (All2.cons (a := a') (b := b') (l := l) (m := m) h' hs) => by
    intro rest rts hb hr
    have ih := lex_commas (All2.cons h' hs) rest rts hb hr
    have e : ", ".toList = [',', ' '] := by decide
    rw [intercalate_cons₂, e]
    show Lexes (a ++ [',', ' '] ++ _ ++ rest) (b ++ Tok.sym "," :: commas (b' :: m) ++ rts)
    simp only [List.append_assoc, List.cons_append, List.nil_append]
    exact h _ _ (brk_comma _) (Lexes.comma (Lexes.sp ih))

theorem commas_length : ∀ (tss : List (List Tok)), tss.length ≤ (commas tss).length + 1
  | [] => by simp
  | [t] => by simp
  | t :: u :: ts => by
    have := commas_length (u :: ts)
    simp only [commas, List.length_cons, List.length_append] at this ⊢
    omega

theorem sepByGo_last {β : Type} (p : P β) (f : Nat) (toks r : List Tok) (x : β) (hp : p toks = some (x, r))
    (hr : ∀ r', r ≠ Tok.sym "," :: r') : sepByGo p "," (f + 1) toks = some ([x], r) := by
  rw [sepByGo.eq_2, hp]
  simp only []
  split
  · rename_i s r1
    by_cases hs : s = ","
    · exact absurd (by rw [hs]) (hr r1)
    · rw [if_neg (by simpa using hs)]
  · rfl

theorem sepByGo_more {β : Type} (p : P β) (f : Nat) (toks r1 r2 : List Tok) (x : β) (xs : List β)
    (hp : p toks = some (x, Tok.sym "," :: r1)) (hq : sepByGo p "," f r1 = some (xs, r2)) :
    sepByGo p "," (f + 1) toks = some (x :: xs, r2) := by
  rw [sepByGo.eq_2, hp]
  simp only []
  rw [if_pos (by decide), hq]

/-- `sepBy` reads back a comma-separated list of renderings, each of which the element parser reads when followed by a
    comma or by what follows the list -/
theorem sepByGo_commas {β : Type} (p : P β) (Good : List Tok → Prop) (hgood : ∀ r, Good (Tok.sym "," :: r)) :
    ∀ {tss : List (List Tok)} {vs : List β}, All2 (fun ts v => ∀ r, Good r → p (ts ++ r) = some (v, r)) tss vs →
    tss ≠ [] → ∀ (fuel : Nat) (rest : List Tok), tss.length ≤ fuel → Good rest → (∀ r, rest ≠ Tok.sym "," :: r) →
    sepByGo p "," fuel (commas tss ++ rest) = some (vs, rest)
  | _, _, All2.nil, hne, _, _, _, _, _ => absurd rfl hne
  | _, _, All2.cons (l := []) (m := []) h All2.nil, _, fuel, rest, hf, hg, hr => by
    obtain ⟨f, rfl⟩ : ∃ f, fuel = f + 1 := ⟨fuel - 1, by simp at hf; omega⟩
    exact sepByGo_last p f _ rest _ (h rest hg) hr
  | _, _, All2.cons (a := a) (b := b) h (All2.cons (a := a') (b := b') (l := l) (m := m) h' hs), _, fuel, rest, hf, hg, hr => by
    obtain ⟨f, rfl⟩ : ∃ f, fuel = f + 1 := ⟨fuel - 1, by simp at hf; omega⟩
    have ih := sepByGo_commas p Good hgood (All2.cons h' hs) (by simp) f rest (by simp at hf ⊢; omega) hg hr
    show sepByGo p "," (f + 1) (a ++ Tok.sym "," :: commas (a' :: l) ++ rest) = _
    rw [List.append_assoc, List.cons_append]
    exact sepByGo_more p f _ _ _ b _ (h _ (hgood _)) ih

theorem sepBy_commas {β : Type} (p : P β) (Good : List Tok → Prop) (hgood : ∀ r, Good (Tok.sym "," :: r))
    {tss : List (List Tok)} {vs : List β} (h : All2 (fun ts v => ∀ r, Good r → p (ts ++ r) = some (v, r)) tss vs)
    (hne : tss ≠ []) (rest : List Tok) (hg : Good rest) (hr : ∀ r, rest ≠ Tok.sym "," :: r) :
    sepBy p "," (commas tss ++ rest) = some (vs, rest) := by
  unfold sepBy
  apply sepByGo_commas p Good hgood h hne _ rest _ hg hr
  have := commas_length tss
  simp only [List.length_append]
  omega

/-! ### behavioural chains -/

/-- tokens of `x op y op z` -/
def chainToks (s : String) (x : Name) (xs : List Name) : List Tok :=
  Tok.id x :: xs.flatMap (fun y => [Tok.sym s, Tok.id y])

/-- characters of `x op y op z` -/
def chainText (s : String) (x : Name) (xs : List Name) : List Char :=
  x.toList ++ xs.flatMap (fun y => ' ' :: (s.toList ++ ' ' :: y.toList))

theorem render_foldl {op : Expr → Expr → Expr} {s : String} (ho : IsOp op s) :
    ∀ (xs : List Name) (acc : Expr),
    (renderExpr (xs.foldl (fun a y => op a (Expr.id y)) acc)).toList =
      (renderExpr acc).toList ++ xs.flatMap (fun y => ' ' :: (s.toList ++ ' ' :: y.toList))
  | [], acc => by simp
  | y :: xs, acc => by
    rw [List.foldl_cons, render_foldl ho xs, List.flatMap_cons]
    have e : (renderExpr (op acc (Expr.id y))).toList = (renderExpr acc).toList ++ (' ' :: (s.toList ++ ' ' :: y.toList)) := by
      cases ho
      · show (renderExpr acc ++ " & " ++ y).toList = _
        simp only [String.toList_append]
        have : " & ".toList = ' ' :: ("&".toList ++ [' ']) := by decide
        rw [this]; simp
      · show (renderExpr acc ++ " | " ++ y).toList = _
        simp only [String.toList_append]
        have : " | ".toList = ' ' :: ("|".toList ++ [' ']) := by decide
        rw [this]; simp
      · show (renderExpr acc ++ " ^ " ++ y).toList = _
        simp only [String.toList_append]
        have : " ^ ".toList = ' ' :: ("^".toList ++ [' ']) := by decide
        rw [this]; simp
    rw [e, List.append_assoc]

theorem render_chain {op : Expr → Expr → Expr} {s : String} (ho : IsOp op s) (x : Name) (xs : List Name) :
    (renderExpr (chain op (x :: xs))).toList = chainText s x xs := by
  show (renderExpr (xs.foldl (fun a y => op a (Expr.id y)) (Expr.id x))).toList = _
  rw [render_foldl ho]
  rfl

theorem lex_chain {op : Expr → Expr → Expr} {s : String} (ho : IsOp op s) (x : Name) (xs : List Name)
    (h : ∀ y ∈ x :: xs, Ident y) : LexCPb (chainText s x xs) (chainToks s x xs) := by
  intro rest rts hb hr
  unfold chainText chainToks
  rw [List.append_assoc, List.cons_append]
  have tail : ∀ (ys : List Name), (∀ y ∈ ys, Ident y) →
      Lexes (ys.flatMap (fun y => ' ' :: (s.toList ++ ' ' :: y.toList)) ++ rest)
        (ys.flatMap (fun y => [Tok.sym s, Tok.id y]) ++ rts) ∧
      Brk (ys.flatMap (fun y => ' ' :: (s.toList ++ ' ' :: y.toList)) ++ rest) := by
    intro ys
    induction ys with
    | nil => intro _; exact ⟨hr, hb⟩
    | cons y ys ih =>
      intro hy
      obtain ⟨i1, i2⟩ := ih (fun z hz => hy z (by simp [hz]))
      have hyi := hy y (by simp)
      simp only [List.flatMap_cons, List.cons_append, List.append_assoc, List.nil_append]
      refine ⟨?_, brk_sp _⟩
      apply Lexes.sp
      cases ho
      · exact Lexes.amp (Lexes.sp (Lexes.ident hyi i2 i1))
      · exact Lexes.bar (Lexes.sp (Lexes.ident hyi i2 i1))
      · exact Lexes.caret (Lexes.sp (Lexes.ident hyi i2 i1))
  obtain ⟨t1, t2⟩ := tail xs (fun y hy => h y (by simp [hy]))
  exact Lexes.ident (h x (by simp)) t2 t1

/-- the chain at the level of its operator -/
def ChainLevel (s : String) (ts : List Tok) (e : Expr) : Prop :=
  (s = "&" → VP.SAnd ts e) ∧ (s = "^" → VP.SXor ts e) ∧ (s = "|" → VP.SOr ts e)

theorem sOr_foldl {op : Expr → Expr → Expr} {s : String} (ho : IsOp op s) :
    ∀ (xs : List Name) (ta : List Tok) (a : Expr), ChainLevel s ta a →
    ChainLevel s (ta ++ xs.flatMap (fun y => [Tok.sym s, Tok.id y])) (xs.foldl (fun a y => op a (Expr.id y)) a)
  | [], ta, a, h => by simpa using h
  | y :: xs, ta, a, h => by
    rw [List.foldl_cons, List.flatMap_cons, ← List.append_assoc]
    apply sOr_foldl ho xs
    have hy := VP.all_id y
    cases ho
    · exact ⟨fun _ => VP.and_and (h.1 rfl) hy.sUnary, fun e => absurd e (by decide), fun e => absurd e (by decide)⟩
    · exact ⟨fun e => absurd e (by decide), fun e => absurd e (by decide), fun _ => VP.or_or (h.2.2 rfl) hy.sXor⟩
    · exact ⟨fun e => absurd e (by decide), fun _ => VP.xor_xor (h.2.1 rfl) hy.sAnd, fun e => absurd e (by decide)⟩

theorem sOr_chain {op : Expr → Expr → Expr} {s : String} (ho : IsOp op s) (x : Name) (xs : List Name) :
    VP.SOr (chainToks s x xs) (chain op (x :: xs)) := by
  have hx := VP.all_id x
  have h := sOr_foldl ho xs [Tok.id x] (Expr.id x) ⟨fun _ => hx.sAnd, fun _ => hx.sXor, fun _ => hx.sOr⟩
  have e : [Tok.id x] ++ xs.flatMap (fun y => [Tok.sym s, Tok.id y]) = chainToks s x xs := rfl
  rw [e] at h
  have e2 : xs.foldl (fun a y => op a (Expr.id y)) (Expr.id x) = chain op (x :: xs) := rfl
  rw [e2] at h
  cases ho
  · exact VP.or_of_xor (VP.xor_of_and (h.1 rfl))
  · exact h.2.2 rfl
  · exact VP.or_of_xor (h.2.1 rfl)

theorem parse_chain {op : Expr → Expr → Expr} {s : String} (ho : IsOp op s) (x : Name) (xs : List Name)
    (rest : List Tok) (hr : VP.Stops rest) :
    pExpr (chainToks s x xs ++ rest) = some (chain op (x :: xs), rest) :=
  VP.pExpr_noMux (sOr_chain ho x xs) rest hr

theorem parse_nchain {op : Expr → Expr → Expr} {s : String} (ho : IsOp op s) (x : Name) (xs : List Name)
    (rest : List Tok) (hr : VP.Stops rest) :
    pExpr (Tok.sym "~" :: Tok.sym "(" :: (chainToks s x xs ++ Tok.sym ")" :: rest)) =
      some (Expr.not (chain op (x :: xs)), rest) := by
  have h4 : VP.SUnary (Tok.sym "~" :: (Tok.sym "(" :: chainToks s x xs ++ [Tok.sym ")"])) (Expr.not (chain op (x :: xs))) :=
    VP.unary_not (VP.prim_paren (sOr_chain ho x xs))
  have h1 := VP.or_of_xor (VP.xor_of_and (VP.and_of_unary h4))
  have := VP.pExpr_noMux h1 rest hr
  simpa using this

theorem parse_notId (d : Name) (rest : List Tok) (hr : VP.Stops rest) :
    pExpr (Tok.sym "~" :: Tok.id d :: rest) = some (Expr.not (Expr.id d), rest) := by
  have h4 : VP.SUnary (Tok.sym "~" :: [Tok.id d]) (Expr.not (Expr.id d)) := VP.unary_not (VP.prim_id d)
  have h1 := VP.or_of_xor (VP.xor_of_and (VP.and_of_unary h4))
  exact VP.pExpr_noMux h1 rest hr

theorem parse_const (t : String) (rest : List Tok) (hr : VP.Stops rest) :
    pExpr (Tok.const t :: rest) = some (Expr.const t, rest) :=
  VP.pExpr_noMux (VP.all_const t).sOr rest hr

theorem parse_id (d : Name) (rest : List Tok) (hr : VP.Stops rest) :
    pExpr (Tok.id d :: rest) = some (Expr.id d, rest) :=
  VP.pExpr_noMux (VP.all_id d).sOr rest hr

end VX
end CG
