/- C17 (super-circuit) helpers: the facts about the kept supergates of the algorithm (`SGFacts`) -/
import CG.Proofs.SGSuperDefs
import CG.Proofs.SGAlgoSpec
import CG.Proofs.ApiSub
set_option linter.unusedSectionVars false
set_option linter.unusedVariables false
set_option linter.unusedSimpArgs false
namespace CG
namespace SGSuper
open Query Supergates SGA Q

theorem mem_kept {ms : List (Found × Circuit)} {p : Found × Circuit} :
    p ∈ kept ms ↔ p ∈ ms ∧ ∃ x, x ∈ internal p.2 := by
  unfold kept
  rw [List.mem_filter]
  constructor
  · rintro ⟨h1, h2⟩
    refine ⟨h1, ?_⟩
    match hi : internal p.2 with
    | [] => rw [hi] at h2; simp at h2
    | x :: _ => exact ⟨x, List.mem_cons_self⟩
  · rintro ⟨h1, x, hx⟩
    refine ⟨h1, ?_⟩
    match hi : internal p.2 with
    | [] => rw [hi] at hx; exact absurd hx List.not_mem_nil
    | _ :: _ => rfl

/-- field `headsNodup` -/
theorem kept_heads_nodup {c2 : Circuit} {outs : List Name} (hd : (algo c2 outs).headsDistinct = true) :
    ((kept (algo c2 outs).sgs).map (·.1.head)).Nodup :=
  List.Nodup.sublist (List.Sublist.map _ List.filter_sublist) (heads_nodup hd)

/-- a node with an empty fan-in has no proper ancestor -/
theorem not_anc_of_fanin_nil {c2 : Circuit} {x h : Name} (hf : c2.fanin h = []) : ¬ Anc c2 x h := by
  intro ha
  obtain ⟨b, _, he⟩ := Plus.tail ha
  have := Q.mem_fanin.mpr he
  rw [hf] at this
  exact absurd this List.not_mem_nil

/-- the head of a supergate with an internal node is not one of its inputs -/
theorem head_not_input_of_kept {c2 : Circuit} {o h : Name} {S : List Name} (X : SGCtx c2 o h S) {x : Name}
    (hx : x ∈ internal (sgCircuit c2 o h S)) : h ∉ (sgCircuit c2 o h S).inputs := by
  intro hh
  have hf : c2.fanin h = [] := by
    rcases (X.input_cases hh).2 with h1 | h1
    · exact h1
    · exact absurd rfl h1.1
  obtain ⟨hxS, hxty⟩ := (mem_sg_internal c2 o h S x).mp hx
  have hhty := ((mem_sg_inputs c2 o h S h).mp hh).2
  have hne : x ≠ h := fun e => hxty (e ▸ hhty)
  have Xi := X.intrinsic
  rcases ((SGA.mem_cone c2 X.wf h x).mp (Xi.mem_cone hxS)).cases with h1 | h1
  · exact hne h1
  · exact not_anc_of_fanin_nil hf h1

/-- field `ok` -/
theorem kept_ok (c2 : Circuit) (hc : LintClean c2) (hac : Acyclic c2) (hfi : ∀ n, (c2.fanin n).length ≤ 2)
    (outs : List Name) (houts : outs.Perm c2.outputs) :
    ∀ p ∈ kept (algo c2 outs).sgs, SGOk c2 p := by
  intro p hp
  obtain ⟨hps, x, hx⟩ := mem_kept.mp hp
  obtain ⟨heq, _, X⟩ := algo_ctx c2 hc hac hfi outs houts hps
  refine ⟨heq, X, ?_⟩
  rw [heq] at hx ⊢
  exact head_not_input_of_kept X hx

/-- with a single output every supergate was found under that output -/
theorem cone_eq_of_single {c2 : Circuit} {outs : List Name} (houts : outs.Perm c2.outputs)
    (h1 : c2.outputs.length = 1) {o o' : Name} (ho : o ∈ c2.outputs) (ho' : o' ∈ outs) : o' = o := by
  have ho'' : o' ∈ c2.outputs := houts.mem_iff.mp ho'
  match hl : c2.outputs with
  | [] => rw [hl] at h1; simp at h1
  | [a] =>
    rw [hl] at ho ho''
    rw [List.mem_singleton.mp ho, List.mem_singleton.mp ho'']
  | _ :: _ :: _ => rw [hl] at h1; simp at h1

/-- a non-constant, non-input, non-`bb_output` node has a non-empty fan-in -/
theorem fanin_ne_nil_of_ty {c2 : Circuit} (hc : LintClean c2) {i : Name} (hhas : c2.has i = true)
    (hcst : (c2.ty? i).getD "" ≠ "0" ∧ (c2.ty? i).getD "" ≠ "1" ∧ (c2.ty? i).getD "" ≠ "x")
    (hi : c2.ty? i ≠ some "input") (hb : c2.ty? i ≠ some "bb_output") : c2.fanin i ≠ [] := by
  obtain ⟨t, ht, hts⟩ := ty_some_of_has c2 hc hhas
  rw [ht, Option.getD_some] at hcst
  obtain ⟨y, he⟩ := exists_fanin c2 hc ht hts hcst.1 hcst.2.1 hcst.2.2 (fun h => hi (h ▸ ht)) (fun h => hb (h ▸ ht))
  intro hf
  have := Q.mem_fanin.mpr he
  rw [hf] at this
  exact absurd this List.not_mem_nil

/-- field `outputsDriven` (single output) -/
theorem kept_outputsDriven (c2 : Circuit) (hc : LintClean c2) (hac : Acyclic c2) (hfi : ∀ n, (c2.fanin n).length ≤ 2)
    (hbo : ∀ n, c2.ty? n ≠ some "bb_output") (outs : List Name) (houts : outs.Perm c2.outputs)
    (h1 : c2.outputs.length = 1) :
    ∀ o ∈ c2.outputs, o ∈ c2.inputs ∨ ∃ q ∈ kept (algo c2 outs).sgs, q.1.head = o := by
  intro o ho
  by_cases hty : c2.ty? o = some "input"
  · exact Or.inl ((CG.mem_inputs hc.toWF.nodup o).mpr hty)
  · right
    obtain ⟨p, hp, hint⟩ := algo_cover_fixed c2 hc hac hfi outs houts ho (Star.refl o) hty (hbo o)
    refine ⟨p, mem_kept.mpr ⟨hp, o, hint⟩, ?_⟩
    obtain ⟨heq, hcone, X⟩ := algo_ctx c2 hc hac hfi outs houts hp
    rw [cone_eq_of_single houts h1 ho hcone] at X heq
    rw [heq] at hint
    have hoS := ((mem_sg_internal _ _ _ _ o).mp hint).1
    refine Classical.byContradiction (fun hne => ?_)
    exact X.ne_root_of_ne hoS (fun e => hne e.symm) rfl

/-- field `inputsDriven` (single output) -/
theorem kept_inputsDriven (c2 : Circuit) (hc : LintClean c2) (hac : Acyclic c2) (hfi : ∀ n, (c2.fanin n).length ≤ 2)
    (hbo : ∀ n, c2.ty? n ≠ some "bb_output") (outs : List Name) (houts : outs.Perm c2.outputs)
    (h1 : c2.outputs.length = 1) :
    ∀ p ∈ kept (algo c2 outs).sgs, ∀ i ∈ p.2.inputs,
      i ∈ c2.inputs ∨ ∃ q ∈ kept (algo c2 outs).sgs, q.1.head = i := by
  intro p hpk i hi
  by_cases hty : c2.ty? i = some "input"
  · exact Or.inl ((CG.mem_inputs hc.toWF.nodup i).mpr hty)
  · right
    have hwf := hc.toWF
    obtain ⟨hp, _⟩ := mem_kept.mp hpk
    obtain ⟨heq, hcone, X⟩ := algo_ctx c2 hc hac hfi outs houts hp
    have hco : p.1.cone ∈ c2.outputs := houts.mem_iff.mp hcone
    rw [heq] at hi
    obtain ⟨hiS, hity⟩ := (mem_sg_inputs _ _ _ _ i).mp hi
    have hcst := ((sgTy_input_iff c2 hc p.1.nodes i).mp hity).1
    have hhas : c2.has i = true := X.inputs_has hi
    have hfne := fanin_ne_nil_of_ty hc hhas hcst hty (hbo i)
    have hfr : 1 < (childrenOf (domChildren c2 p.1.cone) i).length := by
      rcases (X.input_cases hi).2 with h | h
      · exact absurd h hfne
      · exact h.2
    have hic : AncR c2 i p.1.cone := (SGA.mem_cone c2 hwf _ i).mp (X.mem_cone hiS)
    obtain ⟨q, hq, hint⟩ := algo_cover_fixed c2 hc hac hfi outs houts hco hic hty (hbo i)
    refine ⟨q, mem_kept.mpr ⟨hq, i, hint⟩, ?_⟩
    obtain ⟨heq', hcone', X'⟩ := algo_ctx c2 hc hac hfi outs houts hq
    rw [cone_eq_of_single houts h1 hco hcone'] at X' heq'
    rw [heq'] at hint
    refine Classical.byContradiction (fun hne => ?_)
    have hne' : i ≠ q.1.head := fun e => hne e.symm
    rcases X'.internal_cases hint with ⟨hiS', h | ⟨a, he, ha⟩⟩
    · exact hfne h
    · exact X'.nonfrontier_of_driven hiS' hne' he ha hfr

/-- the facts about the kept supergates, for a circuit with a single output -/
theorem facts_of_algo (c2 : Circuit) (hc : LintClean c2) (hac : Acyclic c2) (hfi : ∀ n, (c2.fanin n).length ≤ 2)
    (hbo : ∀ n, c2.ty? n ≠ some "bb_output") (outs : List Name) (houts : outs.Perm c2.outputs)
    (hd : (algo c2 outs).headsDistinct = true) (h1 : c2.outputs.length = 1) :
    SGFacts c2 (kept (algo c2 outs).sgs) :=
  ⟨kept_ok c2 hc hac hfi outs houts, kept_heads_nodup hd,
    kept_inputsDriven c2 hc hac hfi hbo outs houts h1, kept_outputsDriven c2 hc hac hfi hbo outs houts h1⟩

end SGSuper
end CG

#print axioms CG.SGSuper.facts_of_algo
