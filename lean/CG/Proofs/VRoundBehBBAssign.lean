/- C03 helper (behavioural round trip WITH blackboxes): one continuous assignment keeps the invariant with pins around.
   Generalises `VT.assign_buf` / `VT.assign_relabel` (CG/Proofs/VlogAssign.lean). -/
import CG.Proofs.VRoundBehBBEval
namespace CG
namespace VBB
open Verilog Circuit Ternary VT VB

variable {D P : Name → Prop} {ins : List Name} {c0 : Circuit}

/-- the invariant of the fold over the assignments -/
structure FI' (D P : Name → Prop) (ins : List Name) (c0 : Circuit) (todo done : List (Name × Expr)) (st : TState) : Prop where
  si : SI' D P ins c0 st.c
  ge : ∀ g ∈ st.gateExprs, IsSyn g
  und : ∀ a ∈ todo, Und st.c a.1
  sem : ∀ v, Consistent st.c v → ∀ a ∈ done, v a.1 = denote v a.2
  hasDone : ∀ a ∈ done, st.c.has a.1 = true

theorem relabelOne_bbs (c : Circuit) (old new : Name) : (c.relabelOne old new).bbs = c.bbs := by
  unfold relabelOne
  split
  · rfl
  · simp only []
    split
    · exact addNodeAttr_bbs _ _ _
    · rw [foldl_addEdge_bbs, removeNode_bbs, addNodeAttr_bbs]

/-! ### the net becomes a buffer of an existing net -/

theorem assign_buf' (hD : DeclOK' D P ins) {s1 : TState} {l m : Name} (hSI : SI' D P ins c0 s1.c) (hl : D l) (hlins : l ∉ ins)
    (hund : Und s1.c l) (hm : Usable' D P s1.c m) :
    ∃ c', addNode s1 l "buf" [m] false = .ok ({ s1 with c := c' }, l) ∧ SI' D P ins c0 c' ∧
      (∀ x, s1.c.has x = true → c'.has x = true) ∧ c'.has l = true ∧
      (∀ l', l' ≠ l → Und s1.c l' → Und c' l') ∧
      (∀ v, Consistent c' v → Consistent s1.c v ∧ v l = v m) := by
  have hlp : ¬ P l := hD.dp l hl
  obtain ⟨c', hadd, s, hbbs, _⟩ := VR.add_ok_gen s1.c
    { n := l, ty := "buf", fanin := [m], uid := false, addConnected := true, allowRedef := true } l
    rfl (fun _ => rfl) (hD.nameOK l hl) (show "buf" ∈ Expected.supported_types by decide)
    (show "buf" ≠ "bb_input" ∧ "buf" ≠ "bb_output" by decide)
    (fun _ => ⟨by simp, fun _ e he => hund.2 e he⟩)
    (by
      intro h
      have h' : "buf" = "0" ∨ "buf" = "1" ∨ "buf" = "x" ∨ "buf" = "input" := h
      exact absurd h' (by decide))
    rfl rfl
    (by
      intro u hu
      rw [List.mem_singleton] at hu; subst hu
      exact hSI.usable_fi hD hm)
  have hedge : ∀ e, e ∈ c'.edges ↔ (e ∈ s1.c.edges ∨ (e.1 = m ∧ e.2 = l)) := by
    intro e; rw [s.edges]; simp
  have hhas : ∀ x, c'.has x = true ↔ (s1.c.has x = true ∨ x = l ∨ x = m) := by
    intro x; rw [s.has]; simp
  have hself : c'.attr? l = some bufAttr := s.attr_self
  have hmono : ∀ x, s1.c.has x = true → c'.has x = true := fun x h => (hhas x).mpr (Or.inl h)
  have hhasl : c'.has l = true := (hhas l).mpr (Or.inr (Or.inl rfl))
  -- attributes of every node of c'
  have hattr : ∀ x, c'.has x = true → x ≠ l → (s1.c.has x = true ∧ c'.attr? x = s1.c.attr? x) ∨
      (s1.c.has x = false ∧ x = m ∧ c'.attr? x = some bufAttr) := by
    intro x hx hxl
    cases hcx : s1.c.has x with
    | true => exact Or.inl ⟨rfl, s.attr_old x hxl hcx⟩
    | false =>
      right
      refine ⟨rfl, ?_, s.attr_new x hxl hcx hx⟩
      rcases (hhas x).mp hx with h | h | h
      · rw [hcx] at h; cases h
      · exact absurd h hxl
      · exact h
  have hl0 := hD.notTie l hl
  refine ⟨c', ?_, ?_, hmono, hhasl, ?_, ?_⟩
  · unfold addNode addE
    rw [hadd]
    rfl
  · constructor
    · refine ⟨s.nodupN hSI.wf.nodup, s.nodupE hSI.wf.edgesNodup, ?_⟩
      intro e he
      rcases (hedge e).mp he with h | ⟨h1, h2⟩
      · obtain ⟨g1, g2⟩ := hSI.wf.closed e h
        exact ⟨hmono _ g1, hmono _ g2⟩
      · exact ⟨(hhas _).mpr (Or.inr (Or.inr h1)), (hhas _).mpr (Or.inr (Or.inl h2))⟩
    · intro x hx
      by_cases hxl : x = l
      · rw [hxl]; exact Or.inr (Or.inr (Or.inr (Or.inl hl)))
      · rcases hattr x hx hxl with ⟨h, _⟩ | ⟨_, h, _⟩
        · exact hSI.cls x h
        · rw [h]
          rcases hm.1 with ⟨g, _⟩ | g
          · exact hSI.cls m g
          · exact Or.inr (Or.inr (Or.inr (Or.inl g)))
    · rw [s.attr_old _ (Ne.symm hl0.1) hSI.has_tie0]; exact hSI.tie0
    · rw [s.attr_old _ (Ne.symm hl0.2.1) hSI.has_tie1]; exact hSI.tie1
    · rw [s.attr_old _ (Ne.symm hl0.2.2) hSI.has_tiex]; exact hSI.tiex
    · intro x ax hx hxx hxp
      by_cases hxl : x = l
      · rw [hxl, hself] at hx
        injection hx with hx
        rw [← hx]
        exact ⟨rfl, "buf", rfl, by decide⟩
      · rcases hattr x (has_of_attr' hx) hxl with ⟨_, h⟩ | ⟨_, _, h⟩
        · rw [h] at hx; exact hSI.typed x ax hx hxx hxp
        · rw [h] at hx
          injection hx with hx
          rw [← hx]
          exact ⟨rfl, "buf", rfl, by decide⟩
    · intro x
      rw [← hSI.inp x]
      by_cases hxl : x = l
      · rw [hxl, ty_of_attr hself]
        constructor
        · intro h; simp [bufAttr] at h
        · intro h; exact absurd ((hSI.inp l).mp h) hlins
      · cases hx : c'.has x with
        | false =>
          rw [ty?_none_of_not_has hx]
          cases hcx : s1.c.has x with
          | false => rw [ty?_none_of_not_has hcx]
          | true => rw [hmono x hcx] at hx; cases hx
        | true =>
          rcases hattr x hx hxl with ⟨_, h⟩ | ⟨g, _, h⟩
          · unfold Circuit.ty?; rw [h]
          · rw [ty_of_attr h, ty?_none_of_not_has g]
            simp [bufAttr]
    · -- pins keep their attributes
      intro x hp
      have hxl : x ≠ l := fun h => hlp (h ▸ hp)
      rw [← hSI.pinAttr x hp]
      cases hx : c'.has x with
      | false =>
        rw [attr?_none_of_not_has hx]
        cases hcx : s1.c.has x with
        | false => rw [attr?_none_of_not_has hcx]
        | true => rw [hmono x hcx] at hx; cases hx
      | true =>
        rcases hattr x hx hxl with ⟨_, h⟩ | ⟨_, h, _⟩
        · exact h
        · exact absurd (h ▸ hp) hm.2
    · intro e hp
      rw [← hSI.pinEdge e hp, hedge]
      constructor
      · rintro (h | ⟨h1, h2⟩)
        · exact h
        · rcases hp with hp | hp
          · rw [h1] at hp; exact absurd hp hm.2
          · rw [h2] at hp; exact absurd hp hlp
      · exact Or.inl
    · rw [hbbs, hSI.bbs]
    · exact hSI.c0ns
    · exact hSI.c0wf
  · intro l' hl' hu
    constructor
    · intro hh
      rcases hattr l' hh hl' with ⟨g, h⟩ | ⟨_, _, h⟩
      · rw [h]; exact hu.1 g
      · exact h
    · intro e he hel
      rcases (hedge e).mp he with h | ⟨_, h⟩
      · exact hu.2 e h hel
      · exact hl' (hel ▸ h)
  · intro v hv
    have hc'nd := s.nodupE hSI.wf.edgesNodup
    constructor
    · have := consistent_pull hSI.wf hc'nd id v ?_ hv
      · exact this
      · intro p hp t ht
        have hpa : s1.c.attr? p.1 = some p.2 := attr?_of_mem hSI.wf.nodup hp
        have hph : s1.c.has p.1 = true := has_of_attr' hpa
        by_cases hpl : p.1 = l
        · left
          have := hund.1 (hpl ▸ hph)
          rw [← hpl, hpa] at this
          injection this with this
          rw [this] at ht
          exact ⟨by simpa [bufAttr] using ht.symm, by rw [hpl]; exact hund.fanin_nil⟩
        · right
          refine ⟨⟨p.2, by simp only [id]; rw [s.attr_old p.1 hpl hph]; exact hpa, ht⟩, ?_, fun _ _ => rfl⟩
          intro u
          simp only [id]
          rw [hedge]
          constructor
          · rintro (h | ⟨_, h⟩)
            · exact h
            · exact absurd h hpl
          · exact Or.inl
    · apply Arith.buf_val hv hc'nd (attr?_mem hself) rfl
      intro u
      rw [hedge]
      constructor
      · rintro (h | ⟨h, _⟩)
        · exact absurd rfl (hund.2 _ h)
        · exact h
      · intro h; exact Or.inr ⟨h, rfl⟩

/-! ### the freshly built gate is renamed onto the net -/

theorem assign_relabel' (hD : DeclOK' D P ins) {c : Circuit} {l m : Name} (hSI : SI' D P ins c0 c) (hl : D l) (hlins : l ∉ ins)
    (hund : Und c l) (hsyn : IsSyn m) (hhas : c.has m = true) (hnoOut : ∀ e ∈ c.edges, e.1 ≠ m) :
    SI' D P ins c0 (c.relabel [(m, l)]) ∧ (∀ x, x ≠ m → c.has x = true → (c.relabel [(m, l)]).has x = true) ∧
      (c.relabel [(m, l)]).has l = true ∧
      (∀ l', l' ≠ l → ¬ IsSyn l' → Und c l' → Und (c.relabel [(m, l)]) l') ∧
      (∀ v, Consistent (c.relabel [(m, l)]) v → Consistent c (fun x => v (if x = m then l else x))) := by
  rw [Arith.relabel_single hSI.wf.nodup hhas]
  have hlm : l ≠ m := fun h => hD.notSyn l hl (h ▸ hsyn)
  have hmx : m ≠ "tie_x" := fun h => tiex_not_syn (h ▸ hsyn)
  obtain ⟨a, ha⟩ := Limit.attr_of_has hhas
  have hmp : ¬ P m := fun h => hD.pNotSyn m h hsyn
  have hlp : ¬ P l := hD.dp l hl
  obtain ⟨haout, ty, haty, htyok⟩ := hSI.typed m a ha hmx hmp
  have hmins : m ∉ ins := fun h => hD.notSyn m (hD.insD m h) hsyn
  have htyin : ty ≠ "input" := by
    rintro rfl
    exact hmins ((hSI.inp m).mp (by rw [ty_of_attr ha]; exact haty))
  obtain ⟨hnd, hed, _, hattr, hedges⟩ := relabelOne_merge hSI.wf.nodup hSI.wf.edgesNodup ha
    (by rw [haty]; rfl) (by rw [haout]; rfl) hlm
  have hbbs : (c.relabelOne m l).bbs = c.bbs := relabelOne_bbs c m l
  generalize c.relabelOne m l = c' at *
  -- edges: sources are never renamed
  have hedge : ∀ e, e ∈ c'.edges ↔ ∃ e0 ∈ c.edges, e = (e0.1, if e0.2 = m then l else e0.2) := by
    intro e
    rw [hedges]
    constructor
    · rintro ⟨e0, h0, rfl⟩; exact ⟨e0, h0, by rw [if_neg (hnoOut e0 h0)]⟩
    · rintro ⟨e0, h0, rfl⟩; exact ⟨e0, h0, by rw [if_neg (hnoOut e0 h0)]⟩
  have hhas' : ∀ x, c'.has x = true ↔ (x ≠ m ∧ (x = l ∨ c.has x = true)) := by
    intro x
    rw [has_eq_isSome, hattr, has_eq_isSome]
    by_cases h1 : x = m
    · simp [h1]
    · by_cases h2 : x = l
      · simp [h2, hlm]
      · simp [h1, h2]
  have hattr_l : c'.attr? l = some a := by rw [hattr, if_neg hlm, if_pos rfl]
  have hattr_o : ∀ x, x ≠ m → x ≠ l → c'.attr? x = c.attr? x := by
    intro x h1 h2; rw [hattr, if_neg h1, if_neg h2]
  have hl0 := hD.notTie l hl
  have ht0 : "tie_0" ≠ m := by rintro rfl; exact tie0_not_syn hsyn
  have ht1 : "tie_1" ≠ m := by rintro rfl; exact tie1_not_syn hsyn
  have htx : "tie_x" ≠ m := by rintro rfl; exact tiex_not_syn hsyn
  have hin_l : ∀ u, (u, l) ∈ c'.edges ↔ (u, m) ∈ c.edges := by
    intro u
    rw [hedge]
    constructor
    · rintro ⟨e0, h0, he⟩
      injection he with h1 h2
      by_cases hm : e0.2 = m
      · rw [h1, ← hm]; exact h0
      · rw [if_neg hm] at h2
        exact absurd h2.symm (hund.2 e0 h0)
    · intro h; exact ⟨(u, m), h, by simp⟩
  have hin_o : ∀ y, y ≠ l → y ≠ m → ∀ u, (u, y) ∈ c'.edges ↔ (u, y) ∈ c.edges := by
    intro y hy hym u
    rw [hedge]
    constructor
    · rintro ⟨e0, h0, he⟩
      injection he with h1 h2
      by_cases hm : e0.2 = m
      · rw [if_pos hm] at h2; exact absurd h2 hy
      · rw [if_neg hm] at h2
        rw [h1, h2]; exact h0
    · intro h; exact ⟨(u, y), h, by simp [hym]⟩
  refine ⟨?_, fun x hx h => (hhas' x).mpr ⟨hx, Or.inr h⟩, (hhas' l).mpr ⟨hlm, Or.inl rfl⟩, ?_, ?_⟩
  · constructor
    · refine ⟨hnd, hed, ?_⟩
      intro e he
      obtain ⟨e0, h0, rfl⟩ := (hedge e).mp he
      obtain ⟨g1, g2⟩ := hSI.wf.closed e0 h0
      refine ⟨(hhas' _).mpr ⟨hnoOut e0 h0, Or.inr g1⟩, ?_⟩
      by_cases hm : e0.2 = m
      · simp only [if_pos hm]; exact (hhas' l).mpr ⟨hlm, Or.inl rfl⟩
      · simp only [if_neg hm]; exact (hhas' _).mpr ⟨hm, Or.inr g2⟩
    · intro x hx
      rcases (hhas' x).mp hx with ⟨_, rfl | h⟩
      · exact Or.inr (Or.inr (Or.inr (Or.inl hl)))
      · exact hSI.cls x h
    · rw [hattr_o _ ht0 (Ne.symm hl0.1)]; exact hSI.tie0
    · rw [hattr_o _ ht1 (Ne.symm hl0.2.1)]; exact hSI.tie1
    · rw [hattr_o _ htx (Ne.symm hl0.2.2)]; exact hSI.tiex
    · intro x ax hx hxx hxp
      rw [hattr] at hx
      by_cases h1 : x = m
      · rw [if_pos h1] at hx; cases hx
      · rw [if_neg h1] at hx
        by_cases h2 : x = l
        · rw [if_pos h2] at hx
          injection hx with hx
          rw [← hx]
          exact ⟨haout, ty, haty, htyok⟩
        · rw [if_neg h2] at hx
          exact hSI.typed x ax hx hxx hxp
    · intro x
      rw [← hSI.inp x]
      by_cases h1 : x = m
      · have : c'.ty? x = none := by unfold Circuit.ty?; rw [hattr, if_pos h1]; rfl
        rw [this, h1, ty_of_attr ha, haty]
        constructor
        · intro h; cases h
        · intro h; injection h with h; exact absurd h htyin
      · by_cases h2 : x = l
        · rw [h2, ty_of_attr hattr_l, haty]
          constructor
          · intro h; injection h with h; exact absurd h htyin
          · intro h; exact absurd ((hSI.inp l).mp h) hlins
        · unfold Circuit.ty?; rw [hattr_o x h1 h2]
    · -- pins keep their attributes
      intro x hp
      rw [hattr_o x (fun h => hmp (h ▸ hp)) (fun h => hlp (h ▸ hp))]
      exact hSI.pinAttr x hp
    · -- wires at pins are unchanged
      intro e hp
      rw [← hSI.pinEdge e hp, hedge]
      have hnm : ∀ e0 : Name × Name, e0 ∈ c.edges → (P e0.1 ∨ P e0.2) → e0.2 ≠ m := by
        intro e0 h0 hp0 h2
        have h00 := (hSI.pinEdge e0 hp0).mp h0
        have := (hSI.c0wf.closed e0 h00).2
        rw [h2] at this
        exact hSI.c0ns m this hsyn
      constructor
      · rintro ⟨e0, h0, rfl⟩
        by_cases h2 : e0.2 = m
        · exfalso
          simp only [if_pos h2] at hp
          rcases hp with hp | hp
          · exact hnm e0 h0 (Or.inl hp) h2
          · exact hlp hp
        · simp only [if_neg h2] at hp ⊢
          exact h0
      · intro h0
        exact ⟨e, h0, by rw [if_neg (hnm e h0 hp)]⟩
    · rw [hbbs, hSI.bbs]
    · exact hSI.c0ns
    · exact hSI.c0wf
  · intro l' hl' hns hu
    have hl'm : l' ≠ m := fun h => hns (h ▸ hsyn)
    constructor
    · intro hh
      rw [hattr_o l' hl'm hl']
      rcases (hhas' l').mp hh with ⟨_, h | h⟩
      · exact absurd h hl'
      · exact hu.1 h
    · intro e he hel
      have := (hin_o l' hl' hl'm e.1).mp (by rw [← hel]; exact he)
      exact hu.2 _ this rfl
  · intro v hv
    apply consistent_pull hSI.wf hed (fun x => if x = m then l else x) v ?_ hv
    intro p hp t ht
    have hpa : c.attr? p.1 = some p.2 := attr?_of_mem hSI.wf.nodup hp
    have hph : c.has p.1 = true := has_of_attr' hpa
    have hfan : ∀ u ∈ c.fanin p.1, (if u = m then l else u) = u := by
      intro u hu
      rw [if_neg (hnoOut _ (mem_fanin.mp hu))]
    by_cases hpm : p.1 = m
    · right
      simp only [if_pos hpm]
      have hpa' : p.2 = a := by rw [hpm, ha] at hpa; injection hpa with h; exact h.symm
      refine ⟨⟨a, hattr_l, hpa' ▸ ht⟩, ?_, hfan⟩
      intro u; rw [hin_l, hpm]
    · simp only [if_neg hpm]
      by_cases hpl : p.1 = l
      · left
        have := hund.1 (hpl ▸ hph)
        rw [← hpl, hpa] at this
        injection this with this
        rw [this] at ht
        exact ⟨by simpa [bufAttr] using ht.symm, by rw [hpl]; exact hund.fanin_nil⟩
      · right
        exact ⟨⟨p.2, by rw [hattr_o p.1 hpm hpl]; exact hpa, ht⟩, hin_o p.1 hpl hpm, hfan⟩

end VBB
end CG
