/- C05 (insert_registers) helpers: the extension relation between the circuit before and after splicing flops,
   its composition along folds, and the inversion of a successful `add` -/
import CG.Tx3
import CG.Spec
import CG.Proofs.MiterBase
import CG.Proofs.ComposeView
import CG.Proofs.AcycUnrollBase
set_option linter.unusedSimpArgs false
set_option linter.unusedVariables false
namespace CG
namespace InsReg
open Circuit

/-- the default flop of `insert_registers` -/
def ffBox : BBox := { name := "ff", ins := ["clk", "d"], outs := ["q"] }

/-- every blackbox instance passes its d pin to its q pin -/
def Wired (c : Circuit) (v : Val) : Prop := ∀ q ∈ c.bbs, v (q.1 ++ ".q") = v (q.1 ++ ".d")

/-- the d and q pins of every instance are nodes -/
def PinsIn (c : Circuit) : Prop := ∀ q ∈ c.bbs, c.has (q.1 ++ ".q") = true ∧ c.has (q.1 ++ ".d") = true

/-- state invariant of the splice loop -/
structure St (c : Circuit) : Prop where
  wf : WF c
  pins : PinsIn c

/-- `b` is `a` with flops spliced into some wires -/
structure Ext (a b : Circuit) : Prop where
  attr : ∀ n, a.has n = true → b.attr? n = a.attr? n
  outs : ∀ x, x ∈ b.outputs ↔ x ∈ a.outputs
  ins : ∀ x, x ∈ b.inputs ↔ x ∈ a.inputs
  bbsSub : ∀ q ∈ a.bbs, q ∈ b.bbs
  bbsNew : ∀ q ∈ b.bbs, q ∈ a.bbs ∨ q.2 = ffBox
  down : ∀ v, Consistent b v → Wired b v → Consistent a v
  up : ∀ v, Consistent a v → Wired a v →
    ∃ v', Consistent b v' ∧ Wired b v' ∧ ∀ n, a.has n = true → v' n = v n

theorem Ext.has {a b : Circuit} (h : Ext a b) {n : Name} (hn : a.has n = true) : b.has n = true := by
  obtain ⟨at', ha⟩ := Limit.attr_of_has hn
  exact Limit.has_of_attr ((h.attr n hn).trans ha)

theorem Ext.refl (a : Circuit) : Ext a a :=
  { attr := fun _ _ => rfl, outs := fun _ => Iff.rfl, ins := fun _ => Iff.rfl, bbsSub := fun _ h => h,
    bbsNew := fun _ h => Or.inl h, down := fun _ h _ => h, up := fun v h w => ⟨v, h, w, fun _ _ => rfl⟩ }

theorem wired_sub {a b : Circuit} (hs : ∀ q ∈ a.bbs, q ∈ b.bbs) {v : Val} (h : Wired b v) : Wired a v :=
  fun q hq => h q (hs q hq)

theorem Ext.trans {a b c : Circuit} (h1 : Ext a b) (h2 : Ext b c) : Ext a c where
  attr n hn := (h2.attr n (h1.has hn)).trans (h1.attr n hn)
  outs x := (h2.outs x).trans (h1.outs x)
  ins x := (h2.ins x).trans (h1.ins x)
  bbsSub q hq := h2.bbsSub q (h1.bbsSub q hq)
  bbsNew q hq := by
    rcases h2.bbsNew q hq with h | h
    · exact h1.bbsNew q h
    · exact Or.inr h
  down v hv hw := h1.down v (h2.down v hv hw) (wired_sub h2.bbsSub hw)
  up v hv hw := by
    obtain ⟨v1, c1, w1, e1⟩ := h1.up v hv hw
    obtain ⟨v2, c2, w2, e2⟩ := h2.up v1 c1 w1
    exact ⟨v2, c2, w2, fun n hn => (e2 n (h1.has hn)).trans (e1 n hn)⟩

/-- composition along a monadic fold -/
theorem fold_ext {α : Type} (f : Circuit → α → E Circuit)
    (hf : ∀ c x c', St c → f c x = .ok c' → St c' ∧ Ext c c') :
    ∀ (l : List α) (c c' : Circuit), St c → l.foldlM f c = .ok c' → St c' ∧ Ext c c'
  | [], c, c', hs, h => by
    rw [List.foldlM_nil] at h
    injection h with h
    subst h
    exact ⟨hs, Ext.refl c⟩
  | x :: l, c, c', hs, h => by
    rw [List.foldlM_cons] at h
    obtain ⟨c1, h1, h2⟩ := AU.bind_ok h
    obtain ⟨s1, e1⟩ := hf c x c1 hs h1
    obtain ⟨s2, e2⟩ := fold_ext f hf l c1 c' s1 h2
    exact ⟨s2, e1.trans e2⟩

/-! ### inversion of a successful `add` -/

theorem addTail_name (c : Circuit) (a : AddArgs) (n : Name) : (addTail c a n).2.2 = n := by
  unfold addTail
  simp only []
  repeat' split
  all_goals rfl

/-- a successful `add` without auto-created neighbours and without redefinition -/
theorem add_inv {c c' : Circuit} {a : AddArgs} {m : Name} (hac : a.addConnected = false)
    (hr : a.allowRedef = false) (h : c.add a = (c', .ok, m)) :
    (if a.uid then c.uid a.n else some a.n) = some m ∧ c.has m = false ∧
    ∃ c2, (c.addNodeAttr m { ty := some a.ty, out := some a.output }).connect [m] a.fanout = (c2, .ok) ∧
      c2.connect a.fanin [m] = (c', .ok) := by
  rcases add_cases c a with ⟨o, m', e, ho⟩ | ⟨n, hn, hfresh, _, _, _, _, e⟩
  · rw [e] at h
    simp only [Prod.mk.injEq] at h
    obtain ⟨_, ho', _⟩ := h
    subst ho'
    rcases ho with ho | ⟨ho, _⟩ | ⟨ho, _⟩ <;> cases ho
  · rw [e] at h
    have hm : m = n := by
      have := addTail_name c a n
      rw [h] at this
      exact this
    subst hm
    exact ⟨hn, hfresh hr, Miter.addTail_plain hac h⟩

theorem addE_inv {c c' : Circuit} {a : AddArgs} {m : Name} (h : addE c a = .ok (c', m)) :
    c.add a = (c', .ok, m) := by
  unfold addE at h
  generalize c.add a = r at h
  obtain ⟨c1, o, n⟩ := r
  cases o <;> first | (simp only [] at h; injection h with h; injection h with h1 h2; subst h1; subst h2; rfl) | cases h

/-- the members of a successfully connected source list are nodes -/
theorem connectCheck_has {c : Circuit} {us vs : List Name} (h : c.connectCheck us vs = none) :
    (∀ u ∈ us, c.has u = true) ∧ (∀ v ∈ vs, c.has v = true) := by
  unfold connectCheck at h
  by_cases h1 : (us.any fun n => !c.has n) = true
  · rw [if_pos h1] at h; cases h
  rw [if_neg h1] at h
  by_cases h2 : (vs.any fun n => !c.has n) = true
  · rw [if_pos h2] at h; cases h
  constructor
  · intro u hu
    cases hh : c.has u with
    | true => rfl
    | false => exact absurd (List.any_eq_true.mpr ⟨u, hu, by simp [hh]⟩) h1
  · intro v hv
    cases hh : c.has v with
    | true => rfl
    | false => exact absurd (List.any_eq_true.mpr ⟨v, hv, by simp [hh]⟩) h2

end InsReg
end CG
