/- one grouping step of limit_fanin: evaluation of the API calls, frame lemmas, LintClean and refinement -/
import CG.Proofs.LimitAdd
import CG.Proofs.LimitRefine
import CG.Proofs.LimitGate
namespace CG
namespace Limit
open Circuit

theorem ty_of_has {c : Circuit} (hc : LintClean c) {m : Name} (h : c.has m = true) :
    ∃ t, c.ty? m = some t ∧ t ∈ Expected.supported_types := by
  obtain ⟨a, ha⟩ := attr_of_has h
  obtain ⟨t, ht, hsup⟩ := hc.typed (m, a) (mem_nodes_of_attr ha)
  exact ⟨t, by simp only [Circuit.ty?, ha]; exact ht, hsup⟩

/-- the driver of a non-buf node may be used as a source in `connect` -/
theorem source_ok {c : Circuit} (hc : LintClean c) {u n : Name} {t : String} (he : (u, n) ∈ c.edges)
    (ht : c.ty? n = some t) (htb : t ≠ "buf") :
    ∃ t0, c.ty? u = some t0 ∧ (T.connectL 2).contains t0 = false ∧ (T.connectL 3).contains t0 = false := by
  obtain ⟨t0, h0, _⟩ := ty_of_has hc (hc.closed _ he).1
  refine ⟨t0, h0, ?_, ?_⟩
  · rw [T_connectL2]
    have := hc.noBBInFanout _ he
    simp only [h0, ne_eq, Option.some.injEq] at this
    simp [this]
  · rw [T_connectL3]
    have hne : t0 ≠ "bb_output" := by
      rintro rfl
      have := (hc.bbOut _ he h0).1
      simp only [ht, Option.some.injEq] at this
      exact htb this
    simp [hne]

structure FaninPre (c : Circuit) (n f0 f1 r : Name) (t g : String) : Prop where
  lc : LintClean c
  e0 : (f0, n) ∈ c.edges
  e1 : (f1, n) ∈ c.edges
  ne : f0 ≠ f1
  ty : c.ty? n = some t
  gm : (t, g) ∈ Expected.gatemap
  fresh : c.has r = false

def gateAttr (g : String) : Attr := { ty := some g, out := some false }

def faninC1 (c : Circuit) (n f0 f1 r : Name) (g : String) : Circuit :=
  { c with nodes := c.nodes ++ [(r, gateAttr g)],
           edges := c.edges.filter (fun e => !([f0, f1].contains e.1 && [n].contains e.2)) }

def faninC2 (c : Circuit) (n f0 f1 r : Name) (g : String) : Circuit :=
  { c with nodes := c.nodes ++ [(r, gateAttr g)],
           edges := c.edges.filter (fun e => !([f0, f1].contains e.1 && [n].contains e.2)) ++ [(r, n)] }

/-- the circuit after one grouping step -/
def faninStep (c : Circuit) (n f0 f1 r : Name) (g : String) : Circuit :=
  { c with nodes := c.nodes ++ [(r, gateAttr g)],
           edges := c.edges.filter (fun e => !([f0, f1].contains e.1 && [n].contains e.2)) ++
             [(r, n), (f0, r), (f1, r)] }

theorem faninStep_fanin_other (c : Circuit) (n f0 f1 r : Name) (g : String) {m : Name}
    (hmn : m ≠ n) (hmr : m ≠ r) : (faninStep c n f0 f1 r g).fanin m = c.fanin m := by
  unfold Circuit.fanin faninStep
  simp only [List.filter_append, List.filter_filter, List.map_append]
  have hfun : ∀ e ∈ c.edges, ((e.2 == m) && !([f0, f1].contains e.1 && [n].contains e.2)) = (e.2 == m) := by
    intro e _
    by_cases he : e.2 = m
    · have : e.2 ≠ n := by rw [he]; exact hmn
      simp [he, hmn]
    · simp [he]
  rw [List.filter_congr hfun]
  simp [Ne.symm hmn, Ne.symm hmr]

theorem faninStep_fanout_other (c : Circuit) (n f0 f1 r : Name) (g : String) {m : Name}
    (hm0 : m ≠ f0) (hm1 : m ≠ f1) (hmr : m ≠ r) : (faninStep c n f0 f1 r g).fanout m = c.fanout m := by
  unfold Circuit.fanout faninStep
  simp only [List.filter_append, List.filter_filter, List.map_append]
  have hfun : ∀ e ∈ c.edges, ((e.1 == m) && !([f0, f1].contains e.1 && [n].contains e.2)) = (e.1 == m) := by
    intro e _
    by_cases he : e.1 = m
    · simp [he, hm0, hm1]
    · simp [he]
  rw [List.filter_congr hfun]
  simp [Ne.symm hm0, Ne.symm hm1, Ne.symm hmr]

theorem faninStep_mem_edges (c : Circuit) (n f0 f1 r : Name) (g : String) (e : Name × Name) :
    e ∈ (faninStep c n f0 f1 r g).edges ↔
      (e ∈ c.edges ∧ ¬ ((e.1 = f0 ∨ e.1 = f1) ∧ e.2 = n)) ∨ e = (r, n) ∨ e = (f0, r) ∨ e = (f1, r) := by
  by_cases h0 : e.1 = f0 <;> by_cases h1 : e.1 = f1 <;> by_cases h2 : e.2 = n <;>
    simp [faninStep, h0, h1, h2]

namespace FaninPre
variable {c : Circuit} {n f0 f1 r : Name} {t g : String} (h : FaninPre c n f0 f1 r t g)
include h

theorem tm : t ∈ multiTypes := (gatemap_facts h.gm).1
theorem gg : g ∈ ["and", "or", "xor"] := (gatemap_facts h.gm).2
theorem hasn : c.has n = true := (h.lc.closed _ h.e0).2
theorem has0 : c.has f0 = true := (h.lc.closed _ h.e0).1
theorem has1 : c.has f1 = true := (h.lc.closed _ h.e1).1
theorem noedge : ∀ e ∈ c.edges, e.1 ≠ r ∧ e.2 ≠ r := fresh_not_edge h.lc.toWF h.fresh
theorem nr : n ≠ r := (h.noedge _ h.e0).2
theorem r0 : f0 ≠ r := (h.noedge _ h.e0).1
theorem r1 : f1 ≠ r := (h.noedge _ h.e1).1

theorem c1_eq : (c.disconnect [f0, f1] [n]).addNodeAttr r { ty := some g, out := some false } =
    faninC1 c n f0 f1 r g :=
  addNodeAttr_fresh _ r _ h.fresh

theorem c2_eq : (faninC1 c n f0 f1 r g).addEdges [r] [n] = faninC2 c n f0 f1 r g := by
  have hnot : (r, n) ∉ (faninC1 c n f0 f1 r g).edges := by
    intro hm
    have := (List.mem_filter.mp hm).1
    exact (h.noedge _ this).1 rfl
  show (faninC1 c n f0 f1 r g).addEdge r n = _
  rw [addEdge_new _ _ _ hnot]
  rfl

theorem c3_eq : (faninC2 c n f0 f1 r g).addEdges [f0, f1] [r] = faninStep c n f0 f1 r g := by
  have hnot0 : (f0, r) ∉ (faninC2 c n f0 f1 r g).edges := by
    intro hm
    rcases List.mem_append.mp hm with hm | hm
    · exact (h.noedge _ (List.mem_filter.mp hm).1).2 rfl
    · simp only [List.mem_singleton, Prod.mk.injEq] at hm
      exact h.r0 hm.1
  show ((faninC2 c n f0 f1 r g).addEdge f0 r).addEdge f1 r = _
  rw [addEdge_new _ _ _ hnot0]
  have hnot1 : (f1, r) ∉ ({ faninC2 c n f0 f1 r g with
      edges := (faninC2 c n f0 f1 r g).edges ++ [(f0, r)] } : Circuit).edges := by
    intro hm
    rcases List.mem_append.mp hm with hm | hm
    · rcases List.mem_append.mp hm with hm | hm
      · exact (h.noedge _ (List.mem_filter.mp hm).1).2 rfl
      · simp only [List.mem_singleton, Prod.mk.injEq] at hm
        exact h.r1 hm.1
    · simp only [List.mem_singleton, Prod.mk.injEq] at hm
      exact h.ne hm.1.symm
  rw [addEdge_new _ _ _ hnot1]
  simp [faninStep, faninC2]

theorem check1 : (faninC1 c n f0 f1 r g).connectCheck [r] [n] = none := by
  have hn : (faninC1 c n f0 f1 r g).nodes = c.nodes ++ [(r, gateAttr g)] := rfl
  have hg := gate_facts h.gg
  have hmt := multi_facts h.tm
  apply connectCheck_none
  · intro u hu
    rw [List.mem_singleton.mp hu]
    exact (ext_has hn r).mpr (Or.inr rfl)
  · intro v hv
    rw [List.mem_singleton.mp hv]
    exact (ext_has hn n).mpr (Or.inl h.hasn)
  · intro v hv
    rw [List.mem_singleton.mp hv]
    refine ⟨t, (ext_ty_old hn h.hasn).trans h.ty, hmt.1, ?_⟩
    intro hc
    rw [hmt.2.1] at hc
    cases hc
  · intro u hu
    rw [List.mem_singleton.mp hu]
    exact ⟨g, ext_ty_new hn h.fresh, hg.2.2.2.1, hg.2.2.2.2.1⟩

theorem check2 : (faninC2 c n f0 f1 r g).connectCheck [f0, f1] [r] = none := by
  have hn : (faninC2 c n f0 f1 r g).nodes = c.nodes ++ [(r, gateAttr g)] := rfl
  have hg := gate_facts h.gg
  have hmt := multi_facts h.tm
  have hgm := multi_facts hg.2.2.2.2.2.1
  apply connectCheck_none
  · intro u hu
    simp only [List.mem_cons, List.not_mem_nil, or_false] at hu
    rcases hu with rfl | rfl
    · exact (ext_has hn _).mpr (Or.inl h.has0)
    · exact (ext_has hn _).mpr (Or.inl h.has1)
  · intro v hv
    rw [List.mem_singleton.mp hv]
    exact (ext_has hn r).mpr (Or.inr rfl)
  · intro v hv
    rw [List.mem_singleton.mp hv]
    refine ⟨g, ext_ty_new hn h.fresh, hgm.1, ?_⟩
    intro hc
    rw [hgm.2.1] at hc
    cases hc
  · intro u hu
    simp only [List.mem_cons, List.not_mem_nil, or_false] at hu
    rcases hu with rfl | rfl
    · obtain ⟨t0, h0, h2, h3⟩ := source_ok h.lc h.e0 h.ty hmt.2.2.1
      exact ⟨t0, (ext_ty_old hn h.has0).trans h0, h2, h3⟩
    · obtain ⟨t0, h0, h2, h3⟩ := source_ok h.lc h.e1 h.ty hmt.2.2.1
      exact ⟨t0, (ext_ty_old hn h.has1).trans h0, h2, h3⟩

/-- the `add` call of one `limit_fanin` iteration succeeds and produces `faninStep` -/
theorem addE_eq (base : Name) (hr : c.uid base = some r) (hok : NameOK r) :
    addE (c.disconnect [f0, f1] [n])
      { n := base, ty := g, fanin := [f0, f1], fanout := [n], uid := true } =
      .ok (faninStep c n f0 f1 r g, r) := by
  have hg := gate_facts h.gg
  have hadd := add_uid_ok (c.disconnect [f0, f1] [n]) base g [f0, f1] [n] r hr hok hg.1
    (fun hh => hg.2.1 hh.2) hg.2.2.1 rfl rfl
    (by rw [h.c1_eq]; exact h.check1)
    (by rw [h.c1_eq, h.c2_eq]; exact h.check2)
  rw [h.c1_eq, h.c2_eq, h.c3_eq] at hadd
  unfold addE
  rw [hadd]

theorem fanin_r : (faninStep c n f0 f1 r g).fanin r = [f0, f1] := by
  unfold Circuit.fanin faninStep
  simp only [List.filter_append, List.filter_filter, List.map_append]
  have hnil : c.edges.filter (fun e => (e.2 == r) && !([f0, f1].contains e.1 && [n].contains e.2)) = [] := by
    rw [List.filter_eq_nil_iff]
    intro e he
    simp [(h.noedge e he).2]
  rw [hnil]
  simp [h.nr]

theorem fanin_n : (faninStep c n f0 f1 r g).fanin n =
    (c.fanin n).filter (fun x => !(x == f0 || x == f1)) ++ [r] := by
  unfold Circuit.fanin faninStep
  simp only [List.filter_append, List.filter_filter, List.map_append, List.filter_map]
  have hfun : ∀ e ∈ c.edges, ((e.2 == n) && !([f0, f1].contains e.1 && [n].contains e.2)) =
      (((fun x => !(x == f0 || x == f1)) ∘ fun x : Name × Name => x.1) e && (e.2 == n)) := by
    intro e _
    by_cases he : e.2 = n
    · simp [he]
      rfl
    · simp [he]
  rw [List.filter_congr hfun]
  simp [Ne.symm h.nr]

theorem fanin_perm : (c.fanin n).Perm (f0 :: f1 :: (c.fanin n).filter (fun x => !(x == f0 || x == f1))) :=
  perm_cons_cons_filter _ _ _ (RU.fanin_nodup c h.lc.edgesNodup n) ((RU.mem_fanin c f0 n).mpr h.e0)
    ((RU.mem_fanin c f1 n).mpr h.e1) h.ne

end FaninPre

end Limit
end CG
