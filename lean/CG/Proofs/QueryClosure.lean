/- C12 helpers: BFS closure, descendants / ancestors, transitive fan-in / fan-out, start/endpoints -/
import CG.Proofs.QueryBasic
namespace CG
namespace Q
open Query

/-- the step relation of a successor function -/
def SuccRel (succ : Name → List Name) : Name → Name → Prop := fun a b => b ∈ succ a

theorem closureGo_spec (succ : Name → List Name) (U : List Name) (hU : ∀ a b, b ∈ succ a → b ∈ U) :
    ∀ (fuel : Nat) (frontier seen : List Name), seen.Nodup → (∀ x ∈ seen, x ∈ U) →
      U.length < seen.length + fuel → (∀ x ∈ frontier, x ∈ seen) →
      (∀ x ∈ seen, x ∉ frontier → ∀ y ∈ succ x, y ∈ seen) →
      (closureGo succ fuel frontier seen).Nodup ∧
      (∀ x ∈ seen, x ∈ closureGo succ fuel frontier seen) ∧
      (∀ x ∈ closureGo succ fuel frontier seen, ∀ y ∈ succ x, y ∈ closureGo succ fuel frontier seen) ∧
      (∀ P : Name → Prop, (∀ x ∈ seen, P x) → (∀ x y, P x → y ∈ succ x → P y) →
        ∀ x ∈ closureGo succ fuel frontier seen, P x) := by
  intro fuel
  induction fuel with
  | zero =>
    intro frontier seen hnd hsub hlen _ _
    have := nodup_length_le seen U hnd hsub
    omega
  | succ fuel ih =>
    intro frontier seen hnd hsub hlen hfr hcl
    have hnext : ∀ y, y ∈ dedup ((frontier.flatMap succ).filter (fun x => !seen.contains x)) ↔
        (∃ x ∈ frontier, y ∈ succ x) ∧ y ∉ seen := by
      intro y
      rw [mem_dedup]
      simp only [List.mem_filter, List.mem_flatMap, Bool.not_eq_true', List.contains_eq_mem,
        decide_eq_false_iff_not]
    unfold closureGo
    simp only []
    generalize hN : dedup ((frontier.flatMap succ).filter (fun x => !seen.contains x)) = next at hnext
    have hndN : next.Nodup := hN ▸ nodup_dedup _
    by_cases hE : next.isEmpty = true
    · rw [if_pos hE]
      have hnil : next = [] := List.isEmpty_iff.mp hE
      refine ⟨hnd, fun x hx => hx, ?_, fun P h1 _ x hx => h1 x hx⟩
      intro x hx y hy
      by_cases hxf : x ∈ frontier
      · by_cases hys : y ∈ seen
        · exact hys
        · have : y ∈ next := (hnext y).mpr ⟨⟨x, hxf, hy⟩, hys⟩
          rw [hnil] at this
          cases this
      · exact hcl x hx hxf y hy
    · rw [if_neg hE]
      have hpos : 0 < next.length := by
        cases next with
        | nil => simp at hE
        | cons _ _ => simp
      have hnd' : (seen ++ next).Nodup := by
        rw [List.nodup_append]
        refine ⟨hnd, hndN, ?_⟩
        intro a ha b hb hab
        subst hab
        exact ((hnext a).mp hb).2 ha
      have hsub' : ∀ x ∈ seen ++ next, x ∈ U := by
        intro x hx
        rcases List.mem_append.mp hx with h | h
        · exact hsub x h
        · obtain ⟨⟨w, _, hw⟩, _⟩ := (hnext x).mp h
          exact hU w x hw
      have hlen' : U.length < (seen ++ next).length + fuel := by
        rw [List.length_append]; omega
      have hfr' : ∀ x ∈ next, x ∈ seen ++ next := fun x hx => List.mem_append_right _ hx
      have hcl' : ∀ x ∈ seen ++ next, x ∉ next → ∀ y ∈ succ x, y ∈ seen ++ next := by
        intro x hx hxn y hy
        have hxs : x ∈ seen := by
          rcases List.mem_append.mp hx with h | h
          · exact h
          · exact absurd h hxn
        by_cases hxf : x ∈ frontier
        · by_cases hys : y ∈ seen
          · exact List.mem_append_left _ hys
          · exact List.mem_append_right _ ((hnext y).mpr ⟨⟨x, hxf, hy⟩, hys⟩)
        · exact List.mem_append_left _ (hcl x hxs hxf y hy)
      obtain ⟨r1, r2, r3, r4⟩ := ih next (seen ++ next) hnd' hsub' hlen' hfr' hcl'
      refine ⟨r1, fun x hx => r2 x (List.mem_append_left _ hx), r3, ?_⟩
      intro P h1 h2 x hx
      apply r4 P ?_ h2 x hx
      intro z hz
      rcases List.mem_append.mp hz with h | h
      · exact h1 z h
      · obtain ⟨⟨w, hw, hzw⟩, _⟩ := (hnext z).mp h
        exact h2 w z (h1 w (hfr w hw)) hzw

/-- the BFS from the successors of `n` computes exactly the nodes reachable in at least one step -/
theorem mem_closure (succ : Name → List Name) (U : List Name) (hU : ∀ a b, b ∈ succ a → b ∈ U)
    (fuel : Nat) (hfuel : U.length < fuel) (n x : Name) :
    x ∈ closureGo succ fuel (dedup (succ n)) (dedup (succ n)) ↔ Plus (SuccRel succ) n x := by
  have hspec := closureGo_spec succ U hU fuel (dedup (succ n)) (dedup (succ n)) (nodup_dedup _)
    (fun x hx => hU n x ((mem_dedup x _).mp hx)) (by omega) (fun x hx => hx)
    (fun x hx hnx => absurd hx hnx)
  obtain ⟨_, r2, r3, r4⟩ := hspec
  constructor
  · intro hx
    refine r4 (fun y => Plus (SuccRel succ) n y) ?_ ?_ x hx
    · intro y hy
      exact Plus.single ((mem_dedup y _).mp hy)
    · intro a b ha hb
      exact ha.star.step hb
  · rintro ⟨k, hp⟩
    have key : ∀ (k : Nat) (y : Name), RPath (SuccRel succ) n y (k + 1) →
        y ∈ closureGo succ fuel (dedup (succ n)) (dedup (succ n)) := by
      intro k
      induction k with
      | zero =>
        intro y hy
        obtain ⟨b, hb, hby⟩ := hy.snoc_inv
        have := hb.zero_eq
        subst this
        exact r2 y ((mem_dedup y _).mpr hby)
      | succ k ih =>
        intro y hy
        obtain ⟨b, hb, hby⟩ := hy.snoc_inv
        exact r3 b (ih b hb) y hby
    exact key k x hp

theorem closure_nodup (succ : Name → List Name) (U : List Name) (hU : ∀ a b, b ∈ succ a → b ∈ U)
    (fuel : Nat) (hfuel : U.length < fuel) (n : Name) :
    (closureGo succ fuel (dedup (succ n)) (dedup (succ n))).Nodup :=
  (closureGo_spec succ U hU fuel (dedup (succ n)) (dedup (succ n)) (nodup_dedup _)
    (fun x hx => hU n x ((mem_dedup x _).mp hx)) (by omega) (fun x hx => hx)
    (fun x hx hnx => absurd hx hnx)).1

theorem fanout_sub (c : Circuit) (hwf : WF c) : ∀ a b, b ∈ c.fanout a → b ∈ c.nodeNames := by
  intro a b h
  exact (has_iff c b).mp (hwf.closed (a, b) (mem_fanout.mp h)).2

theorem fanin_sub (c : Circuit) (hwf : WF c) : ∀ a b, b ∈ c.fanin a → b ∈ c.nodeNames := by
  intro a b h
  exact (has_iff c b).mp (hwf.closed (b, a) (mem_fanin.mp h)).1

theorem succRel_fanout (c : Circuit) : SuccRel c.fanout = EdgeRel c := by
  funext a b
  exact propext mem_fanout

theorem succRel_fanin (c : Circuit) : SuccRel c.fanin = fun a b => EdgeRel c b a := by
  funext a b
  exact propext mem_fanin

theorem plus_flip {E : Name → Name → Prop} {a b : Name} :
    Plus (fun x y => E y x) a b ↔ Plus E b a := by
  constructor
  · rintro ⟨k, h⟩; exact ⟨k, h.flip⟩
  · rintro ⟨k, h⟩; exact ⟨k, h.flip⟩

theorem star_flip {E : Name → Name → Prop} {a b : Name} :
    Star (fun x y => E y x) a b ↔ Star E b a := by
  constructor
  · rintro ⟨k, h⟩; exact ⟨k, h.flip⟩
  · rintro ⟨k, h⟩; exact ⟨k, h.flip⟩

theorem nodeNames_length (c : Circuit) : c.nodeNames.length = c.nodes.length := by
  simp [Circuit.nodeNames]

theorem mem_descendants (c : Circuit) (hwf : WF c) (n x : Name) :
    x ∈ descendants c n ↔ Plus (EdgeRel c) n x ∧ x ≠ n := by
  unfold descendants
  rw [List.mem_filter, mem_closure c.fanout c.nodeNames (fanout_sub c hwf) _
    (by rw [nodeNames_length]; omega), succRel_fanout]
  simp

theorem mem_ancestors (c : Circuit) (hwf : WF c) (n x : Name) :
    x ∈ ancestors c n ↔ Plus (EdgeRel c) x n ∧ x ≠ n := by
  unfold ancestors
  rw [List.mem_filter, mem_closure c.fanin c.nodeNames (fanin_sub c hwf) _
    (by rw [nodeNames_length]; omega), succRel_fanin, plus_flip]
  simp

theorem mem_unionAll (ls : List (List Name)) (x : Name) : x ∈ unionAll ls ↔ ∃ l ∈ ls, x ∈ l := by
  unfold unionAll
  rw [mem_dedup, List.mem_flatten]

theorem nodup_unionAll (ls : List (List Name)) : (unionAll ls).Nodup := nodup_dedup _

theorem mem_unionAll_map (f : Name → List Name) (ns : List Name) (x : Name) :
    x ∈ unionAll (ns.map f) ↔ ∃ n ∈ ns, x ∈ f n := by
  rw [mem_unionAll]
  simp only [List.mem_map]
  constructor
  · rintro ⟨l, ⟨n, hn, rfl⟩, hx⟩; exact ⟨n, hn, hx⟩
  · rintro ⟨n, hn, hx⟩; exact ⟨_, ⟨n, hn, rfl⟩, hx⟩

theorem faninOf_ok (c : Circuit) (ns : List Name) (h : ∀ n ∈ ns, c.has n = true) :
    faninOf c ns = .ok (unionAll (ns.map c.fanin)) := by
  unfold faninOf
  rw [any_not_has_false c ns h]; rfl

theorem fanoutOf_ok (c : Circuit) (ns : List Name) (h : ∀ n ∈ ns, c.has n = true) :
    fanoutOf c ns = .ok (unionAll (ns.map c.fanout)) := by
  unfold fanoutOf
  rw [any_not_has_false c ns h]; rfl

theorem transitiveFanin_ok (c : Circuit) (ns : List Name) (h : ∀ n ∈ ns, c.has n = true) :
    transitiveFanin c ns = .ok (unionAll (ns.map (ancestors c))) := by
  unfold transitiveFanin
  rw [any_not_has_false c ns h]; rfl

theorem transitiveFanout_ok (c : Circuit) (ns : List Name) (h : ∀ n ∈ ns, c.has n = true) :
    transitiveFanout c ns = .ok (unionAll (ns.map (descendants c))) := by
  unfold transitiveFanout
  rw [any_not_has_false c ns h]; rfl

theorem transitive_missing (c : Circuit) (ns : List Name) (h : ∃ n ∈ ns, c.has n = false) :
    transitiveFanin c ns = .error .nxError ∧ transitiveFanout c ns = .error .nxError := by
  unfold transitiveFanin transitiveFanout
  rw [any_not_has_true c ns h]
  exact ⟨rfl, rfl⟩

theorem mem_tfi (c : Circuit) (hwf : WF c) (ns : List Name) (x : Name) :
    x ∈ unionAll (ns.map (ancestors c)) ↔ ∃ n ∈ ns, Plus (EdgeRel c) x n ∧ x ≠ n := by
  rw [mem_unionAll_map]
  simp only [mem_ancestors c hwf]

theorem mem_tfo (c : Circuit) (hwf : WF c) (ns : List Name) (x : Name) :
    x ∈ unionAll (ns.map (descendants c)) ↔ ∃ n ∈ ns, Plus (EdgeRel c) n x ∧ x ≠ n := by
  rw [mem_unionAll_map]
  simp only [mem_descendants c hwf]

/-! ### startpoints / endpoints -/

theorem mem_startpointsAll (c : Circuit) (hnd : c.nodeNames.Nodup) (x : Name) :
    x ∈ c.startpointsAll ↔ (c.ty? x = some "input" ∨ c.ty? x = some "bb_output") := by
  unfold Circuit.startpointsAll
  rw [mem_filterType c hnd]
  constructor
  · rintro ⟨t, ht, hm⟩
    simp only [List.mem_cons, List.not_mem_nil, or_false] at hm
    rcases hm with rfl | rfl
    · exact Or.inl ht
    · exact Or.inr ht
  · rintro (h | h)
    · exact ⟨_, h, by simp⟩
    · exact ⟨_, h, by simp⟩

theorem mem_endpointsAll (c : Circuit) (hnd : c.nodeNames.Nodup) (x : Name) :
    x ∈ c.endpointsAll ↔ (c.isOut x = true ∨ c.ty? x = some "bb_input") := by
  unfold Circuit.endpointsAll
  rw [mem_union, mem_outputs c hnd, mem_filterType c hnd]
  constructor
  · rintro (h | ⟨t, ht, hm⟩)
    · exact Or.inl h
    · simp only [List.mem_cons, List.not_mem_nil, or_false] at hm
      subst hm
      exact Or.inr ht
  · rintro (h | h)
    · exact Or.inl h
    · exact Or.inr ⟨_, h, by simp⟩

theorem startpoints_ok (c : Circuit) (htyped : ∀ p ∈ c.nodes, p.2.ty.isSome = true)
    (ns : List Name) (h : ∀ n ∈ ns, c.has n = true) :
    startpoints c ns =
      .ok ((dedup (ns ++ unionAll (ns.map (ancestors c)))).filter c.startpointsAll.contains) := by
  unfold startpoints
  rw [any_ty_none_false c htyped, transitiveFanin_ok c ns h]
  simp

theorem endpoints_ok (c : Circuit) (htyped : ∀ p ∈ c.nodes, p.2.ty.isSome = true)
    (ns : List Name) (h : ∀ n ∈ ns, c.has n = true) :
    endpoints c ns =
      .ok ((dedup (ns ++ unionAll (ns.map (descendants c)))).filter c.endpointsAll.contains) := by
  unfold endpoints
  rw [any_ty_none_false c htyped, transitiveFanout_ok c ns h]
  simp

end Q
end CG
