/- `Circuit.uid` never runs out of fuel and returns a fresh name (C05 helper) -/
import CG.Ops
import Std.Data.String.ToNat
namespace CG
namespace Limit
open Circuit

theorem uidName_inj (n : Name) {i j : Nat} : uidName n i = uidName n j ↔ i = j := by
  unfold uidName
  rw [String.append_right_inj]
  simp only [Nat.toString_eq_repr]
  exact Nat.repr_inj

theorem lt_uidNext (i : Nat) : i < uidNext i := by
  unfold uidNext
  split <;> omega

/-- the candidate names tried by `uidGo` with the given fuel, starting at suffix `i` -/
def cands (n : Name) : Nat → Nat → List Name
  | 0, _ => []
  | fuel + 1, i => uidName n i :: cands n fuel (uidNext i)

theorem length_cands (n : Name) : ∀ fuel i, (cands n fuel i).length = fuel
  | 0, _ => rfl
  | fuel + 1, i => by simp [cands, length_cands n fuel]

theorem mem_cands (n : Name) : ∀ fuel i x, x ∈ cands n fuel i → ∃ j, i ≤ j ∧ x = uidName n j
  | 0, _, _, h => by simp [cands] at h
  | fuel + 1, i, x, h => by
    simp only [cands, List.mem_cons] at h
    rcases h with h | h
    · exact ⟨i, Nat.le_refl _, h⟩
    · obtain ⟨j, hj, hx⟩ := mem_cands n fuel _ x h
      exact ⟨j, Nat.le_of_lt (Nat.lt_of_lt_of_le (lt_uidNext i) hj), hx⟩

theorem cands_nodup (n : Name) : ∀ fuel i, (cands n fuel i).Nodup
  | 0, _ => by simp [cands]
  | fuel + 1, i => by
    simp only [cands, List.nodup_cons]
    refine ⟨?_, cands_nodup n fuel _⟩
    intro h
    obtain ⟨j, hj, hx⟩ := mem_cands n fuel _ _ h
    have := (uidName_inj n).mp hx
    have := lt_uidNext i
    omega

theorem uidGo_none (taken : Name → Bool) (n : Name) :
    ∀ fuel i, uidGo taken n fuel i = none → ∀ x ∈ cands n fuel i, taken x = true
  | 0, _, _, x, hx => by simp [cands] at hx
  | fuel + 1, i, h, x, hx => by
    simp only [uidGo] at h
    by_cases ht : taken (uidName n i) = true
    · rw [if_pos ht] at h
      simp only [cands, List.mem_cons] at hx
      rcases hx with hx | hx
      · rw [hx]; exact ht
      · exact uidGo_none taken n fuel _ h x hx
    · rw [if_neg ht] at h
      cases h

theorem uidGo_some (taken : Name → Bool) (n : Name) :
    ∀ fuel i r, uidGo taken n fuel i = some r → taken r = false ∧ ∃ j, r = uidName n j
  | 0, _, _, h => by simp [uidGo] at h
  | fuel + 1, i, r, h => by
    simp only [uidGo] at h
    by_cases ht : taken (uidName n i) = true
    · rw [if_pos ht] at h
      exact uidGo_some taken n fuel _ r h
    · rw [if_neg ht] at h
      cases h
      exact ⟨by simpa using ht, i, rfl⟩

/-- pigeonhole: a duplicate-free list contained in `m` is no longer than `m` -/
theorem length_le_of_nodup_subset : ∀ (l m : List Name), l.Nodup → (∀ x ∈ l, x ∈ m) → l.length ≤ m.length
  | [], _, _, _ => Nat.zero_le _
  | x :: l, m, hnd, hs => by
    have hx : x ∈ m := hs x (by simp)
    have hnd' := List.nodup_cons.mp hnd
    have h1 := length_le_of_nodup_subset l (m.erase x) hnd'.2 (fun y hy =>
      (List.mem_erase_of_ne (by rintro rfl; exact hnd'.1 hy)).mpr (hs y (by simp [hy])))
    rw [List.length_erase_of_mem hx] at h1
    have h2 := List.length_pos_of_mem hx
    simp only [List.length_cons]
    omega

/-- `uid` never runs out of fuel -/
theorem uid_isSome (c : Circuit) (n : Name) (blocked : List Name) : (c.uid n blocked).isSome = true := by
  unfold Circuit.uid
  simp only []
  split
  · rfl
  · cases h : uidGo (fun x => c.has x || blocked.contains x) n (c.nodes.length + blocked.length + 1) 0 with
    | some r => rfl
    | none =>
      exfalso
      have hall := uidGo_none _ n _ _ h
      have hsub : ∀ x ∈ cands n (c.nodes.length + blocked.length + 1) 0, x ∈ c.nodeNames ++ blocked := by
        intro x hx
        have := hall x hx
        simp only [Bool.or_eq_true, List.contains_iff_mem] at this
        rw [List.mem_append]
        rcases this with h1 | h1
        · left; simpa [Circuit.has, Circuit.nodeNames] using h1
        · right; simpa using h1
      have := length_le_of_nodup_subset _ _ (cands_nodup n _ 0) hsub
      rw [length_cands] at this
      simp only [List.length_append, Circuit.nodeNames, List.length_map] at this
      omega

/-- the name returned by `uid` is not a node and is `n` or `n_<i>` -/
theorem uid_spec (c : Circuit) (n r : Name) (h : c.uid n = some r) :
    c.has r = false ∧ (r = n ∨ ∃ j, r = uidName n j) := by
  unfold Circuit.uid at h
  simp only [List.contains_nil, Bool.or_false] at h
  split at h
  · cases h
    rename_i h0
    exact ⟨by simpa using h0, Or.inl rfl⟩
  · obtain ⟨h1, h2⟩ := uidGo_some _ n _ _ r h
    exact ⟨h1, Or.inr h2⟩

/-! ### names accepted by `add` -/

/-- non-empty and not starting with a digit -/
def NameOK (x : Name) : Prop := isDigit0 x = false ∧ x.isEmpty = false

theorem nameOK_iff (x : Name) : NameOK x ↔ ∃ ch l, x.toList = ch :: l ∧ "0123456789".toList.contains ch = false := by
  have he : x.isEmpty = false ↔ x.toList ≠ [] := by
    rw [← Bool.not_eq_true, String.isEmpty_iff, ← String.toList_inj]
    simp
  unfold NameOK isDigit0
  rw [he]
  cases h : x.toList with
  | nil => simp
  | cons ch l => simp

theorem NameOK.append {x : Name} (h : NameOK x) (y : Name) : NameOK (x ++ y) := by
  rw [nameOK_iff] at h ⊢
  obtain ⟨ch, l, h1, h2⟩ := h
  exact ⟨ch, l ++ y.toList, by rw [String.toList_append, h1]; rfl, h2⟩

theorem nameOK_prefix (n s : Name) (l : List Char) (hs : s.toList = '_' :: l) (hn : isDigit0 n = false) :
    NameOK (n ++ s) := by
  rw [nameOK_iff, String.toList_append]
  unfold isDigit0 at hn
  cases h : n.toList with
  | nil => exact ⟨'_', l, by rw [hs]; rfl, by decide⟩
  | cons ch r =>
    rw [h] at hn
    exact ⟨ch, r ++ s.toList, rfl, hn⟩

/-- every name `uid` can return for `n ++ s ++ t` (with `s` starting with an underscore) is accepted by `add` -/
theorem nameOK_uid (c : Circuit) (n s t r : Name) (l : List Char) (hs : s.toList = '_' :: l)
    (hn : isDigit0 n = false) (h : c.uid (n ++ s ++ t) = some r) : NameOK r := by
  have hbase : NameOK (n ++ s ++ t) := (nameOK_prefix n s l hs hn).append t
  rcases (uid_spec c _ r h).2 with rfl | ⟨j, rfl⟩
  · exact hbase
  · unfold uidName
    exact (hbase.append _).append _

end Limit
end CG
