/- C20 (second half, Verilog readers): the specification circuit of a netlist without floating wires is lint-clean —
   the clauses about fan-in -/
import CG.Proofs.LintProdF4
set_option linter.unusedSimpArgs false
set_option linter.unusedVariables false
namespace CG
namespace LintProdFV
open Circuit FV

theorem gate_facts {t : String} (h : t ∈ Verilog.gateTypes) :
    t ∉ sourceTypes ∧ t ≠ "bb_input" ∧ t ≠ "bb_output" ∧ (t ∈ singleTypes → t = "buf" ∨ t = "not") := by
  simp only [Verilog.gateTypes, List.mem_cons, List.not_mem_nil, or_false] at h
  rcases h with rfl | rfl | rfl | rfl | rfl | rfl | rfl | rfl <;> decide

section
variable {r : RMod} {bbs : List BBox} {t0 t1 : Name} {c : Circuit}

theorem spec_typed (h : Restricted r bbs) (hs : Spec r bbs t0 t1 c) :
    ∀ p ∈ c.nodes, ∃ t, p.2.ty = some t ∧ t ∈ Expected.supported_types := by
  intro p hp
  have hv := view_of_mem hs.wf.nodup hp
  have ha : c.attr? p.1 = some p.2 := attr?_of_mem hs.wf.nodup (by exact hp)
  have key : ∃ t, p.2.ty = some t := by
    rcases (hs.node _ _).1 hv with ⟨t, _, e⟩ | ⟨_, e, _⟩ | ⟨_, e, _⟩ | ⟨_, e⟩ <;> exact ⟨_, (Prod.mk.inj e).1⟩
  obtain ⟨t, ht⟩ := key
  exact ⟨t, ht, spec_types h hs (n := p.1) (by unfold Circuit.ty?; rw [ha]; exact ht)⟩

theorem spec_noFanin (h : Restricted r bbs) (hd : Driven r bbs) (ht0 : t0 ∈ tieNames) (ht1 : t1 ∈ tieNames)
    (hs : Spec r bbs t0 t1 c) : ∀ n t, c.ty? n = some t → t ∈ sourceTypes → c.fanin n = [] := by
  intro n t hty hsrc
  apply fanin_nil_spec hs
  intro s hm a he
  obtain ⟨t', hdt, hcase⟩ := edge_tgt_ty (h.stmts s hm) he
  have hD : DefTy bbs r.inputs r.stmts n t' := Or.inr ⟨s, hm, hdt⟩
  rcases ty_cases h hd hs hty with h1 | ⟨rfl, _⟩ | ⟨rfl, _⟩
  · have := (RL.of_restricted h).defTy_fun h1 hD
    subst this
    rcases hcase with hg | rfl
    · exact (gate_facts hg).1 hsrc
    · exact absurd hsrc (by decide)
  · exact tie_not_defTy h ht0 hD
  · exact tie_not_defTy h ht1 hD

/-- two output pins of one instance connected to the same net are the same pin -/
theorem out_pin_unique (h : Restricted r bbs) {ty inst : Name} {pins : List (Name × Option ROp)}
    (hm : RStmt.bb ty inst pins ∈ r.stmts) {d : BBox} (hdf : bbs.find? (fun b => b.name == ty) = some d)
    {p p' n : Name} (hp : (p, some (ROp.net n)) ∈ pins) (hp' : (p', some (ROp.net n)) ∈ pins)
    (ho : p ∈ d.outs) (ho' : p' ∈ d.outs) : p = p' := by
  have hnd := nodup_of_mem_flatMap (List.nodup_append.1 h.defsNodup).2.1 hm
  simp only [RStmt.defs, hdf] at hnd
  have := eq_of_mem_flatMap_nodup hnd hp hp' (x := n) (by simp [ho, ROp.nets]) (by simp [ho', ROp.nets])
  exact (Prod.mk.inj this).1

theorem spec_single (h : Restricted r bbs) (hd : Driven r bbs) (hs : Spec r bbs t0 t1 c) :
    ∀ n t, c.ty? n = some t → t ∈ singleTypes → (c.fanin n).length = 1 := by
  intro n t hty hsing
  rcases ty_cases h hd hs hty with h1 | ⟨_, rfl⟩ | ⟨_, rfl⟩
  · rcases h1 with ⟨_, rfl⟩ | ⟨s, hm, hdt⟩
    · exact absurd hsing (by decide)
    · have hok := h.stmts s hm
      have hfi := fun u => mem_fanin_stmt h hs hm hdt (u := u)
      have hnd := fanin_nodup hs.wf.edgesNodup n
      cases s with
      | gate ty inst out ops =>
        obtain ⟨rfl, rfl⟩ := hdt
        obtain ⟨a, rfl⟩ := List.length_eq_one_iff.1 (hok.2.2.2.2.1 ((gate_facts hok.1).2.2.2 hsing))
        have : c.fanin n = [a.nm t0 t1] := by
          apply singleton_of hnd
          intro u
          rw [hfi]
          constructor
          · rintro ⟨a', ⟨hmem, _⟩, e⟩
            rw [parityOps_single, List.mem_singleton] at hmem
            rw [e, hmem]
          · intro e
            exact ⟨a, ⟨by rw [parityOps_single]; exact List.mem_singleton.2 rfl, rfl⟩, e⟩
        rw [this]; rfl
      | assign l rr =>
        obtain ⟨rfl, rfl⟩ := hdt
        have : c.fanin n = [rr.nm t0 t1] := by
          apply singleton_of hnd
          intro u
          rw [hfi]
          constructor
          · rintro ⟨a', ⟨ha, _⟩, e⟩
            rw [e, ha]
          · intro e
            exact ⟨rr, ⟨rfl, rfl⟩, e⟩
        rw [this]; rfl
      | bb ty inst pins =>
        obtain ⟨_, hinst, d, hdf, hpl, hnd2, hpn, hpm, hpo⟩ := hok
        obtain ⟨d', hd', hc⟩ := hdt
        rw [hdf] at hd'; injection hd' with hd'; subst hd'
        rcases hc with ⟨p, hp, hpo', rfl⟩ | ⟨g, hg, rfl, rfl⟩ | ⟨g, hg, rfl, rfl⟩
        · have hplain : Plain n := (hpo _ hp _ rfl).1 n (by simp [ROp.nets])
          have : c.fanin n = [inst ++ "." ++ p] := by
            apply singleton_of hnd
            intro u
            rw [hfi]
            constructor
            · rintro ⟨a', ⟨d2, hd2, p', o', hp', hc'⟩, e⟩
              rw [hdf] at hd2; injection hd2 with hd2; subst hd2
              rcases hc' with ⟨_, _, e2⟩ | ⟨hpo2, rfl, rfl⟩
              · exact absurd e2 (hplain.ne_pin _ _)
              · rw [e, out_pin_unique h hm hdf hp hp' hpo' hpo2]; rfl
            · intro e
              exact ⟨.net (inst ++ "." ++ p), ⟨d, hdf, p, .net n, hp, Or.inr ⟨hpo', rfl, rfl⟩⟩, e⟩
          rw [this]; rfl
        · obtain ⟨o, ho⟩ := hd.pins ty inst pins hm d hdf g hg
          have : c.fanin (inst ++ "." ++ g) = [o.nm t0 t1] := by
            apply singleton_of hnd
            intro u
            rw [hfi]
            constructor
            · rintro ⟨a', ⟨d2, hd2, p', o', hp', hc'⟩, e⟩
              rw [hdf] at hd2; injection hd2 with hd2; subst hd2
              rcases hc' with ⟨_, rfl, e2⟩ | ⟨_, _, e2⟩
              · have := VR.pin_inj_right e2
                subst this
                have := eq_of_keys_nodup hpn hp' ho
                rw [e, Option.some.inj this]
              · exfalso
                have : Plain (inst ++ "." ++ g) := (hpo _ hp' _ rfl).1 _ (by rw [e2]; simp [ROp.nets])
                exact pin_not_plain inst g this
            · intro e
              exact ⟨o, ⟨d, hdf, g, o, ho, Or.inl ⟨hg, rfl, rfl⟩⟩, e⟩
          rw [this]; rfl
        · exact absurd hsing (by decide)
  · exact absurd hsing (by decide)
  · exact absurd hsing (by decide)

theorem spec_multi (h : Restricted r bbs) (hd : Driven r bbs) (hs : Spec r bbs t0 t1 c) :
    ∀ n t, c.ty? n = some t → t ∈ multiTypes → 1 ≤ (c.fanin n).length := by
  intro n t hty hmul
  rcases ty_cases h hd hs hty with h1 | ⟨_, rfl⟩ | ⟨_, rfl⟩
  · rcases h1 with ⟨_, rfl⟩ | ⟨s, hm, hdt⟩
    · exact absurd hmul (by decide)
    · have hok := h.stmts s hm
      have hfi := fun u => mem_fanin_stmt h hs hm hdt (u := u)
      cases s with
      | gate ty inst out ops =>
        obtain ⟨rfl, rfl⟩ := hdt
        cases hp : parityOps t ops with
        | nil => exact absurd hp (parityOps_ne_nil hok.2.2.2.1)
        | cons a as =>
          have : a.nm t0 t1 ∈ c.fanin n := (hfi _).2 ⟨a, ⟨by rw [hp]; exact List.mem_cons_self, rfl⟩, rfl⟩
          cases hf : c.fanin n with
          | nil => rw [hf] at this; cases this
          | cons u us => simp
      | assign l rr =>
        obtain ⟨_, rfl⟩ := hdt
        exact absurd hmul (by decide)
      | bb ty inst pins =>
        obtain ⟨d', hd', hc⟩ := hdt
        rcases hc with ⟨p, hp, hpo', rfl⟩ | ⟨g, hg, _, rfl⟩ | ⟨g, hg, _, rfl⟩ <;> exact absurd hmul (by decide)
  · exact absurd hmul (by decide)
  · exact absurd hmul (by decide)

end

end LintProdFV
end CG
