/- C03 helper (behavioural round trip WITH blackboxes): the final steps of the transformer (module name, output marks,
   dropping the unused constant nodes) on a state satisfying the fold invariants.  Generalises the second halves of
   `VT.transform_ok` and `VB.transform_back`. -/
import CG.Proofs.VRoundBehBBFold
namespace CG
namespace VBB
open Verilog Circuit Ternary VT VB

theorem dropTie_edges (c : Circuit) (t : Name) (e : Name × Name) :
    e ∈ (VT.dropTie c t).edges ↔ (e ∈ c.edges ∧ ((c.fanout t).isEmpty = true → e.2 ≠ t)) := by
  unfold VT.dropTie
  by_cases hf : (c.fanout t).isEmpty = true
  · rw [if_pos hf]
    have hrm : c.remove [t] = c.removeNode t := rfl
    rw [hrm, removeNode_mem]
    constructor
    · rintro ⟨h1, _, h3⟩; exact ⟨h1, fun _ => h3⟩
    · rintro ⟨h1, h3⟩
      refine ⟨h1, ?_, h3 hf⟩
      intro het
      have : e.2 ∈ c.fanout t := mem_fanout.mpr (by rw [← het]; exact h1)
      rw [List.isEmpty_iff] at hf
      rw [hf] at this
      cases this
  · rw [if_neg hf]
    exact ⟨fun h => ⟨h, fun h' => absurd h' hf⟩, fun h => h.1⟩

theorem dropTie_bbs (c : Circuit) (t : Name) : (VT.dropTie c t).bbs = c.bbs := by
  unfold VT.dropTie
  split
  · rfl
  · rfl

theorem dropTie_eq : VR.dropTie = VT.dropTie := rfl

theorem setOutRaw_fold_bbs : ∀ (outs : List Name) (c : Circuit),
    (outs.foldl (fun acc n => acc.setOutRaw n true) c).bbs = c.bbs
  | [], _ => rfl
  | o :: l, c => by rw [List.foldl_cons, setOutRaw_fold_bbs l]; rfl

variable {D P : Name → Prop} {ins : List Name} {c0 : Circuit}

/-- the final steps of `transform` on a state satisfying the fold invariants -/
theorem finish (hD : DeclOK' D P ins) {done : List (Name × Expr)} {stA : TState}
    (fi : FI' D P ins c0 [] done stA) (bi : BI done stA.c) (m : Module) (outs : List Name)
    (houtsD : ∀ o ∈ outs, D o) (hasOuts : ∀ o ∈ outs, stA.c.has o = true)
    (hpo : ∀ x a, P x → c0.attr? x = some a → a.out = some false)
    (hc0t : ∀ e ∈ c0.edges, ¬ VR.isTie e.2)
    (hdn : ∀ a ∈ done, ¬ VR.isTie a.1 ∧ ∀ x ∈ exprIds a.2, ¬ VR.isTie x) :
    ∃ cF, VR.post m (stA, { io := ins ++ outs, inputs := ins, outputs := outs }) = .ok cF ∧
      cF.name = m.name ∧ (∀ x, x ∈ cF.inputs ↔ x ∈ ins) ∧ (∀ x, x ∈ cF.outputs ↔ x ∈ outs) ∧ cF.bbs = c0.bbs ∧
      cF.nodeNames.Nodup ∧ cF.edges.Nodup ∧
      (∀ x, P x → cF.attr? x = c0.attr? x) ∧
      (∀ e : Name × Name, (P e.1 ∨ P e.2) → (e ∈ cF.edges ↔ e ∈ c0.edges)) ∧
      (∀ v, Consistent cF v → ∀ a ∈ done, v a.1 = denote v a.2) ∧
      (∀ v : Val, v "tie_0" = false → v "tie_1" = true → (∀ a ∈ done, v a.1 = denote v a.2) →
        ∃ v', Consistent cF v' ∧ ∀ x, ¬ IsSyn x → v' x = v x) := by
  have hSI := fi.si
  let c3 : Circuit := { stA.c with name := m.name }
  let c4 := outs.foldl (fun acc n => acc.setOutRaw n true) c3
  obtain ⟨f1, f2, f3, f4, f5⟩ := outs_fold_facts outs c3
  have hrun : VR.post m (stA, { io := ins ++ outs, inputs := ins, outputs := outs }) =
      .ok (VT.dropTie (VT.dropTie (VT.dropTie c4 "tie_0") "tie_1") "tie_x") := by
    rw [VR.post_ok m stA ins outs (setOutput_fold outs c3 hasOuts)]
    rfl
  have d0 := dropTie_out c4 "tie_0"
  have d1 := dropTie_out (VT.dropTie c4 "tie_0") "tie_1"
  have dx := dropTie_out (VT.dropTie (VT.dropTie c4 "tie_0") "tie_1") "tie_x"
  have hnd4 : c4.nodeNames.Nodup := by rw [f1]; exact hSI.wf.nodup
  have hed4 : c4.edges.Nodup := by rw [f2]; exact hSI.wf.edgesNodup
  have hndF := dx.nodup (d1.nodup (d0.nodup hnd4))
  have hedF := dx.enodup (d1.enodup (d0.enodup hed4))
  -- attributes in the final circuit
  have attrF : ∀ x, x ≠ "tie_0" → x ≠ "tie_1" → x ≠ "tie_x" →
      (VT.dropTie (VT.dropTie (VT.dropTie c4 "tie_0") "tie_1") "tie_x").attr? x = c4.attr? x := by
    intro x h0 h1 hx
    rw [dx.attr_o x hx, d1.attr_o x h1, d0.attr_o x h0]
  have attrT : ∀ t, (t = "tie_0" ∨ t = "tie_1" ∨ t = "tie_x") →
      (VT.dropTie (VT.dropTie (VT.dropTie c4 "tie_0") "tie_1") "tie_x").attr? t = c4.attr? t ∨
      (VT.dropTie (VT.dropTie (VT.dropTie c4 "tie_0") "tie_1") "tie_x").attr? t = none := by
    rintro t (rfl | rfl | rfl)
    · rw [dx.attr_o _ (by decide), d1.attr_o _ (by decide)]
      exact d0.attr_t
    · rw [dx.attr_o _ (by decide)]
      rcases d1.attr_t with h1 | h1
      · left; rw [h1, d0.attr_o _ (by decide)]
      · exact Or.inr h1
    · rcases dx.attr_t with h1 | h1
      · left; rw [h1, d1.attr_o _ (by decide), d0.attr_o _ (by decide)]
      · exact Or.inr h1
  have tieD : ∀ t, (t = "tie_0" ∨ t = "tie_1" ∨ t = "tie_x") → ¬ D t := by
    rintro t ht hd
    have := hD.notTie t hd
    rcases ht with rfl | rfl | rfl
    · exact this.1 rfl
    · exact this.2.1 rfl
    · exact this.2.2 rfl
  have c4ty : ∀ x, c4.ty? x = stA.c.ty? x := fun x => f4 x
  have c4attr : ∀ x, c4.attr? x =
      (stA.c.attr? x).map (fun a => if outs.contains x then { a with out := some true } else a) := fun x => f5 x
  have tieTy : ∀ t, (t = "tie_0" ∨ t = "tie_1" ∨ t = "tie_x") → ∃ ty, stA.c.ty? t = some ty ∧ ty ≠ "input" ∧
      stA.c.attr? t = some { ty := some ty, out := some false } := by
    rintro t (rfl | rfl | rfl)
    · exact ⟨"0", by rw [ty_of_attr hSI.tie0], by decide, hSI.tie0⟩
    · exact ⟨"1", by rw [ty_of_attr hSI.tie1], by decide, hSI.tie1⟩
    · exact ⟨"x", by rw [ty_of_attr hSI.tiex], by decide, hSI.tiex⟩
  -- output flags in the state after the fold
  have outF : ∀ x a, stA.c.attr? x = some a → a.out = some false := by
    intro x a ha
    by_cases hxx : x = "tie_x"
    · rw [hxx, hSI.tiex] at ha
      injection ha with ha
      rw [← ha]
    · by_cases hp : P x
      · rw [hSI.pinAttr x hp] at ha
        exact hpo x a hp ha
      · exact (hSI.typed x a ha hxx hp).1
  have pinNotOut : ∀ x, P x → outs.contains x = false := by
    intro x hp
    cases hc : outs.contains x with
    | false => rfl
    | true => exact absurd hp (hD.dp x (houtsD x (by simpa using hc)))
  refine ⟨_, hrun, ?_, ?_, ?_, ?_, hndF, hedF, ?_, ?_, ?_, ?_⟩
  · rw [dx.name, d1.name, d0.name, f3]
  · -- inputs
    intro x
    rw [mem_inputs hndF]
    by_cases ht : x = "tie_0" ∨ x = "tie_1" ∨ x = "tie_x"
    · obtain ⟨ty, hty, hne, _⟩ := tieTy x ht
      have hnot : x ∉ ins := fun hi => tieD x ht (hD.insD x hi)
      constructor
      · intro hin
        exfalso
        rcases attrT x ht with h1 | h1
        · have : c4.ty? x = some "input" := by
            unfold Circuit.ty? at hin ⊢; rw [← h1]; exact hin
          rw [c4ty, hty] at this
          injection this with this
          exact hne this
        · unfold Circuit.ty? at hin; rw [h1] at hin; cases hin
      · intro hi; exact absurd hi hnot
    · have hx : x ≠ "tie_0" ∧ x ≠ "tie_1" ∧ x ≠ "tie_x" := by
        refine ⟨fun h => ht (Or.inl h), fun h => ht (Or.inr (Or.inl h)), fun h => ht (Or.inr (Or.inr h))⟩
      have : (VT.dropTie (VT.dropTie (VT.dropTie c4 "tie_0") "tie_1") "tie_x").ty? x = stA.c.ty? x := by
        rw [← c4ty]
        unfold Circuit.ty?
        rw [attrF x hx.1 hx.2.1 hx.2.2]
      rw [this]
      exact hSI.inp x
  · -- outputs
    intro x
    rw [mem_outputs_iff hndF]
    by_cases ht : x = "tie_0" ∨ x = "tie_1" ∨ x = "tie_x"
    · obtain ⟨ty, _, _, hat⟩ := tieTy x ht
      have hnot : x ∉ outs := fun ho => tieD x ht (houtsD x ho)
      have hcont : outs.contains x = false := by simpa using hnot
      constructor
      · rintro ⟨a, ha, hout⟩
        exfalso
        rcases attrT x ht with h1 | h1
        · rw [h1, c4attr, hat] at ha
          simp only [Option.map_some, hcont, Bool.false_eq_true, if_false] at ha
          injection ha with ha
          rw [← ha] at hout
          cases hout
        · rw [h1] at ha; cases ha
      · intro ho; exact absurd ho hnot
    · have hx : x ≠ "tie_0" ∧ x ≠ "tie_1" ∧ x ≠ "tie_x" := by
        refine ⟨fun h => ht (Or.inl h), fun h => ht (Or.inr (Or.inl h)), fun h => ht (Or.inr (Or.inr h))⟩
      rw [attrF x hx.1 hx.2.1 hx.2.2, c4attr]
      constructor
      · rintro ⟨a, ha, hout⟩
        cases hs : stA.c.attr? x with
        | none => rw [hs] at ha; cases ha
        | some a0 =>
          rw [hs] at ha
          simp only [Option.map_some] at ha
          by_cases hc : outs.contains x = true
          · simpa using hc
          · exfalso
            have hc' : outs.contains x = false := by simpa using hc
            rw [hc'] at ha
            simp only [Bool.false_eq_true, if_false] at ha
            injection ha with ha
            have := outF x a0 hs
            rw [ha, hout] at this
            cases this
      · intro ho
        obtain ⟨a0, hs⟩ := Limit.attr_of_has (hasOuts x ho)
        have hc : outs.contains x = true := by simpa using ho
        refine ⟨{ a0 with out := some true }, ?_, rfl⟩
        rw [hs, Option.map_some, hc]
        rfl
  · -- registry
    rw [dropTie_bbs, dropTie_bbs, dropTie_bbs]
    have : c4.bbs = c3.bbs := setOutRaw_fold_bbs outs c3
    rw [this]
    exact hSI.bbs
  · -- pin attributes
    intro x hp
    have hx := hD.pNotTie x hp
    rw [attrF x hx.1 hx.2.1 hx.2.2, c4attr, pinNotOut x hp, ← hSI.pinAttr x hp]
    cases stA.c.attr? x <;> simp
  · -- wires at the pins
    intro e hp
    rw [← hSI.pinEdge e hp, dropTie_edges, dropTie_edges, dropTie_edges, f2]
    constructor
    · exact fun h => h.1.1.1
    · intro h
      have hnt : ¬ VR.isTie e.2 := hc0t e ((hSI.pinEdge e hp).1 h)
      exact ⟨⟨⟨h, fun _ h' => hnt (Or.inl h')⟩, fun _ h' => hnt (Or.inr (Or.inl h'))⟩,
        fun _ h' => hnt (Or.inr (Or.inr h'))⟩
  · -- values
    intro v hv a ha
    have hed5 := d0.enodup hed4
    have hnd5 := d0.nodup hnd4
    have hed6 := d1.enodup hed5
    have hnd6 := d1.nodup hnd5
    have tyOf : ∀ {c : Circuit} {t : Name} {a : Attr} {t' : String}, c.attr? t = c4.attr? t → c.attr? t = some a →
        a.ty = some t' → stA.c.ty? t = some t' := by
      intro c t a t' he ha' hta
      rw [← c4ty]
      unfold Circuit.ty?
      rw [← he, ha']
      exact hta
    obtain ⟨v6, hv6, ag6⟩ := dx.sem hnd6 hed6 false (by
      intro a t' ha' hta l b' hg
      have := tyOf (by rw [d1.attr_o _ (by decide), d0.attr_o _ (by decide)]) ha' hta
      rw [ty_of_attr hSI.tiex] at this
      injection this with this
      rw [← this] at hg
      simp [gateFn] at hg) v hv
    obtain ⟨v5, hv5, ag5⟩ := d1.sem hnd5 hed5 true (by
      intro a t' ha' hta l b' hg
      have := tyOf (by rw [d0.attr_o _ (by decide)]) ha' hta
      rw [ty_of_attr hSI.tie1] at this
      injection this with this
      rw [← this] at hg
      simp [gateFn] at hg
      exact hg) v6 hv6
    obtain ⟨v4, hv4, ag4⟩ := d0.sem hnd4 hed4 false (by
      intro a t' ha' hta l b' hg
      have := tyOf rfl ha' hta
      rw [ty_of_attr hSI.tie0] at this
      injection this with this
      rw [← this] at hg
      simp [gateFn] at hg
      exact hg) v5 hv5
    have hv3 : Consistent c3 v4 := consistent_congr f1 hSI.wf.nodup f4 f2 hv4
    have hvA : Consistent stA.c v4 := hv3
    have hagree : ∀ x, ¬ VR.isTie x → v4 x = v x := by
      intro x hx
      have := not_or.1 hx
      have h2 := not_or.1 this.2
      rw [ag4 x this.1, ag5 x h2.1, ag6 x h2.2]
    have := fi.sem v4 hvA a ha
    rw [hagree a.1 (hdn a ha).1, denote_congr a.2 (fun x hx => hagree x ((hdn a ha).2 x hx))] at this
    exact this
  · -- backward
    intro v h0 h1 hasg
    obtain ⟨v', hv', ag⟩ := bi v h0 h1 hasg
    refine ⟨v', ?_, ag⟩
    have hv3 : Consistent c3 v' := hv'
    have hv4 : Consistent c4 v' :=
      consistent_congr (c := c4) (c' := c3) f1.symm hnd4 (fun x => (f4 x).symm) f2.symm hv3
    have hv5 := dropTie_consistent c4 "tie_0" hnd4 hed4 hv4
    have hv6 := dropTie_consistent _ "tie_1" (d0.nodup hnd4) (d0.enodup hed4) hv5
    exact dropTie_consistent _ "tie_x" (d1.nodup (d0.nodup hnd4)) (d1.enodup (d0.enodup hed4)) hv6

end VBB
end CG
