/- C12 helpers: `fanout_depth` / `fanin_depth` -/
import CG.Proofs.QueryKahn
import CG.Proofs.QueryComplete
namespace CG
namespace Q
open Query

/-- the final `max(visited.values())` -/
theorem final_max (vis : Visited) (d : Nat)
    (h : (match vis.map (·.2) with
      | [] => (Except.error Outcome.valueError : Except Outcome Nat)
      | x :: xs => .ok (xs.foldl (fun a b => if true = true then max a b else min a b) x)) = .ok d) :
    d ∈ vis.map (·.2) ∧ ∀ v ∈ vis.map (·.2), v ≤ d := by
  cases hv : vis.map (·.2) with
  | nil => simp [hv] at h
  | cons x xs =>
    simp only [hv, if_true, Except.ok.injEq] at h
    subst h
    constructor
    · rcases foldl_max_mem xs x with h | h
      · rw [h]; simp
      · exact List.mem_cons_of_mem _ h
    · intro v hv
      rcases List.mem_cons.mp hv with rfl | hv
      · exact (foldl_max_ge 0 xs v).1
      · exact (foldl_max_ge 0 xs x).2 v hv

theorem depth_fwd (c : Circuit) (ns : List Name) (hns : ∀ n ∈ ns, c.has n = true) (ord : Ord) (fuel d : Nat)
    (hd : depth c true ns true ord fuel = .ok d) :
    isCyclic c = false ∧ ∃ vis,
      (ord (unionAll (ns.map c.fanout))).foldlM
        (fun v f => visit c.fanin c.fanout ord true (unionAll (ns.map (descendants c))) fuel f v 1)
        (ns.foldl (fun v n => vset v n 0) []) = some vis ∧
      d ∈ vis.map (·.2) ∧ ∀ v ∈ vis.map (·.2), v ≤ d := by
  unfold depth at hd
  by_cases hc : isCyclic c = true
  · rw [if_pos hc] at hd; cases hd
  · rw [if_neg hc] at hd
    simp only [if_true, transitiveFanout_ok c ns hns, fanoutOf_ok c ns hns] at hd
    refine ⟨by simpa using hc, ?_⟩
    split at hd
    · cases hd
    · rename_i vis hvis
      exact ⟨vis, hvis, final_max vis d hd⟩

theorem depth_bwd (c : Circuit) (ns : List Name) (hns : ∀ n ∈ ns, c.has n = true) (ord : Ord) (fuel d : Nat)
    (hd : depth c false ns true ord fuel = .ok d) :
    isCyclic c = false ∧ ∃ vis,
      (ord (unionAll (ns.map c.fanin))).foldlM
        (fun v f => visit c.fanout c.fanin ord true (unionAll (ns.map (ancestors c))) fuel f v 1)
        (ns.foldl (fun v n => vset v n 0) []) = some vis ∧
      d ∈ vis.map (·.2) ∧ ∀ v ∈ vis.map (·.2), v ≤ d := by
  unfold depth at hd
  by_cases hc : isCyclic c = true
  · rw [if_pos hc] at hd; cases hd
  · rw [if_neg hc] at hd
    simp only [Bool.false_eq_true, if_false, transitiveFanin_ok c ns hns, faninOf_ok c ns hns] at hd
    refine ⟨by simpa using hc, ?_⟩
    split at hd
    · cases hd
    · rename_i vis hvis
      exact ⟨vis, hvis, final_max vis d hd⟩

/-! ### soundness -/

/-- generic soundness of the top-level loop -/
theorem depth_loop_sound (pred succ : Name → List Name) (ord : Ord) (hord : OrdOK ord) (R ns : List Name)
    (fuel : Nat) (vis : Visited)
    (h : (ord (unionAll (ns.map succ))).foldlM (fun v f => visit pred succ ord true R fuel f v 1)
      (ns.foldl (fun v n => vset v n 0) []) = some vis) :
    ∀ p ∈ vis, ∃ a ∈ ns, RPath (SuccRel succ) a p.1 p.2 := by
  have hP : ∀ n d m, (∃ a ∈ ns, RPath (SuccRel succ) a n d) → m ∈ succ n →
      ∃ a ∈ ns, RPath (SuccRel succ) a m (d + 1) := by
    rintro n d m ⟨a, ha, hp⟩ hm
    exact ⟨a, ha, hp.snoc hm⟩
  refine foldlM_some_induct _
    (fun rem v => (∀ fo ∈ rem, ∃ a ∈ ns, fo ∈ succ a) ∧ ∀ p ∈ v, ∃ a ∈ ns, RPath (SuccRel succ) a p.1 p.2)
    ?_ _ _ _ h ⟨?_, ?_⟩ |>.2
  · intro a rest b b1 hf hinv
    refine ⟨fun fo hfo => hinv.1 fo (List.mem_cons_of_mem _ hfo), ?_⟩
    obtain ⟨s, hs, has⟩ := hinv.1 a (by simp)
    exact visit_sound pred succ ord hord R (fun n d => ∃ a ∈ ns, RPath (SuccRel succ) a n d) hP fuel a b 1 b1
      hinv.2 ⟨s, hs, RPath.single has⟩ hf
  · intro fo hfo
    exact (mem_unionAll_map succ ns fo).mp ((hord _).mem_iff.mp hfo)
  · intro p hp
    rcases mem_init ns [] p hp with h | h
    · cases h
    · exact ⟨p.1, h.1, by rw [h.2]; exact .nil _⟩

theorem depth_sound (c : Circuit) (fwd : Bool) (ns : List Name) (hns : ∀ n ∈ ns, c.has n = true)
    (ord : Ord) (hord : OrdOK ord) (fuel d : Nat) (hd : depth c fwd ns true ord fuel = .ok d) :
    ∃ a ∈ ns, ∃ b, (if fwd then RPath (EdgeRel c) a b d else RPath (EdgeRel c) b a d) := by
  cases fwd with
  | true =>
    obtain ⟨_, vis, hvis, hmem, _⟩ := depth_fwd c ns hns ord fuel d hd
    obtain ⟨p, hp, rfl⟩ := List.mem_map.mp hmem
    obtain ⟨a, ha, hpath⟩ := depth_loop_sound _ _ ord hord _ ns fuel vis hvis p hp
    rw [succRel_fanout] at hpath
    exact ⟨a, ha, p.1, by simpa using hpath⟩
  | false =>
    obtain ⟨_, vis, hvis, hmem, _⟩ := depth_bwd c ns hns ord fuel d hd
    obtain ⟨p, hp, rfl⟩ := List.mem_map.mp hmem
    obtain ⟨a, ha, hpath⟩ := depth_loop_sound _ _ ord hord _ ns fuel vis hvis p hp
    rw [succRel_fanin] at hpath
    exact ⟨a, ha, p.1, by simpa using hpath.flip⟩

/-! ### completeness -/

theorem depth_complete (c : Circuit) (hwf : WF c) (fwd : Bool) (ns : List Name) (hns : ∀ n ∈ ns, c.has n = true)
    (ord : Ord) (hord : OrdOK ord) (fuel d : Nat) (hd : depth c fwd ns true ord fuel = .ok d) :
    ∀ a ∈ ns, ∀ b k, (if fwd then RPath (EdgeRel c) a b k else RPath (EdgeRel c) b a k) → k ≤ d := by
  cases fwd with
  | true =>
    obtain ⟨hcyc, vis, hvis, _, hmax⟩ := depth_fwd c ns hns ord fuel d hd
    obtain ⟨l, hl⟩ := topoSort_of_not_cyclic c hcyc
    have hrank := (rank_of_topo c hwf l hl).1
    intro a ha b k hp
    have hp' : RPath (SuccRel c.fanout) a b k := by rw [succRel_fanout]; simpa using hp
    have hR : ∀ x, x ∈ unionAll (ns.map (descendants c)) ↔ ∃ a ∈ ns, Plus (SuccRel c.fanout) a x := by
      intro x
      rw [mem_tfo c hwf, succRel_fanout]
      constructor
      · rintro ⟨n, hn, h1, _⟩; exact ⟨n, hn, h1⟩
      · rintro ⟨n, hn, h1⟩
        refine ⟨n, hn, h1, ?_⟩
        intro hxn
        have := h1.rank_lt _ hrank
        rw [hxn] at this
        omega
    obtain ⟨w, hw, hle⟩ := depth_loop_complete c.fanin c.fanout (fun a b => by rw [mem_fanin, mem_fanout])
      l.idxOf (by rw [succRel_fanout]; exact hrank) ord hord _ ns hR fuel vis hvis a ha b k hp'
    have := hmax w (List.mem_map.mpr ⟨(b, w), mem_of_lookup vis b w hw, rfl⟩)
    omega
  | false =>
    obtain ⟨hcyc, vis, hvis, _, hmax⟩ := depth_bwd c ns hns ord fuel d hd
    obtain ⟨l, hl⟩ := topoSort_of_not_cyclic c hcyc
    have hrank := (rank_of_topo c hwf l hl).2
    have hrank' : ∀ a b, SuccRel c.fanin a b → l.length - l.idxOf a < l.length - l.idxOf b := by
      intro a b h
      rw [succRel_fanin] at h
      exact hrank b a h
    intro a ha b k hp
    have hp' : RPath (SuccRel c.fanin) a b k := by
      rw [succRel_fanin]
      have : RPath (EdgeRel c) b a k := by simpa using hp
      exact this.flip
    have hR : ∀ x, x ∈ unionAll (ns.map (ancestors c)) ↔ ∃ a ∈ ns, Plus (SuccRel c.fanin) a x := by
      intro x
      rw [mem_tfi c hwf]
      constructor
      · rintro ⟨n, hn, h1, _⟩
        exact ⟨n, hn, by rw [succRel_fanin]; exact plus_flip.mpr h1⟩
      · rintro ⟨n, hn, h1⟩
        have h2 : Plus (EdgeRel c) x n := by rw [succRel_fanin] at h1; exact plus_flip.mp h1
        refine ⟨n, hn, h2, ?_⟩
        intro hxn
        have := h1.rank_lt _ hrank'
        rw [hxn] at this
        omega
    obtain ⟨w, hw, hle⟩ := depth_loop_complete c.fanout c.fanin (fun a b => by rw [mem_fanin, mem_fanout])
      (fun x => l.length - l.idxOf x) hrank' ord hord _ ns hR fuel vis hvis a ha b k hp'
    have := hmax w (List.mem_map.mpr ⟨(b, w), mem_of_lookup vis b w hw, rfl⟩)
    omega

end Q
end CG
