/- C03 helper (behavioural round trip WITH blackboxes): assembly (`VBB.roundtrip`).
   * `VRoundBehBBInv` / `Eval` / `Assign` / `Fold` — the fold over the assignments with pin nodes around
   * `VRoundBehBBSup` / `InitA` / `InitB`          — the state after the declarations and instance statements
   * `VRoundBehBBWrite`                              — what the behavioural writer emits
   * `VRoundBehBBFinal`                              — the final steps of the transformer
   * `VRoundBehBBMainA`                              — facts about the original circuit -/
import CG.Proofs.VRoundBehBBMainA
import CG.Proofs.VRoundBehBBFinal
namespace CG
namespace VBB
open Verilog Circuit Ternary VT VB

/-- **behavioural write → read round trip with blackbox instances** (vocabulary of the helper files) -/
theorem roundtrip (c : Circuit) (ord ord' : Ord) (hord : OrdOK ord) (hord' : OrdOK ord') (hc : VR.Wr c)
    (hnx : ∀ p ∈ c.nodes, p.2.ty ≠ some "x") (hns : ∀ p ∈ c.nodes, ¬ IsSyn p.1) :
    ∃ wm c', toWModule c true ord = .ok wm ∧ transform wm.toModule (c.bbs.map (·.2)) ord' = .ok c' ∧
      c'.name = c.name ∧ (∀ x, x ∈ c'.inputs ↔ x ∈ c.inputs) ∧ (∀ x, x ∈ c'.outputs ↔ x ∈ c.outputs) ∧
      (∀ q, q ∈ c'.bbs ↔ q ∈ c.bbs) ∧
      (∀ n, (c.ty? n = some "bb_input" ∨ c.ty? n = some "bb_output") →
          c'.ty? n = c.ty? n ∧ (c'.fanin n).Perm (c.fanin n) ∧ (c'.fanout n).Perm (c.fanout n)) ∧
      (∀ v', Consistent c' v' → Consistent c v') ∧
      (∀ v, Consistent c v → ∃ v', Consistent c' v' ∧ ∀ n, c.has n = true → v' n = v n) := by
  obtain ⟨wm, c2, bi, hw, hname, hin, hout, hstmts, hbi, h2⟩ := write_beh_bb c ord hord hc
  obtain ⟨hA, hAnd, hAall⟩ := asgs_spec_bb ord hord hc h2 hnx
  have hinP : wm.inputs.Perm c.inputs := by rw [hin]; exact hord _
  obtain ⟨st2, efold, hr, hg, hsup⟩ := pre_fold hc hord' hinP hstmts hbi
  rw [hin, hout] at efold
  have hD := declOK hc hns hord
  have fi0 := fi_init hc hns hord hr hg hsup (asgs ord c2) (fun a ha => (hA a ha).1)
  have bi0 := bi_init hc hr hsup
  have hnsx : ∀ x, c.has x = true → ¬ IsSyn x := fun x hx => has_not_syn hns hx
  have htodo : ∀ a ∈ asgs ord c2, Dn c a.1 ∧ a.1 ∉ ord c.inputs ∧ (∀ x ∈ exprIds a.2, Dn c x) ∧ BinConsts a.2 ∧
      VP.NoMux a.2 := by
    intro a ha
    obtain ⟨⟨t, hty, hti, hbi', hbo, _⟩, hbc, hnm, hids, _⟩ := hA a ha
    refine ⟨⟨has_of_ty? hty, ?_⟩, ?_, hids, hbc, hnm⟩
    · rintro (h | h)
      · rw [hty] at h; injection h with h; exact hbi' h
      · rw [hty] at h; injection h with h; exact hbo h
    · intro hm
      rw [(hord _).mem_iff, mem_inputs hc.clean.nodup, hty] at hm
      injection hm with hm
      exact hti hm
  have hdoneC : ∀ a ∈ done0 c, ∃ e, PE c e ∧ a = (e.2, Expr.id e.1) := by
    intro a ha
    obtain ⟨e, he, rfl⟩ := List.mem_map.1 ha
    exact ⟨e, (mem_pinEdges c e).1 he, rfl⟩
  have hdone0 : ∀ a ∈ done0 c, ¬ IsSyn a.1 ∧ ∀ x ∈ exprIds a.2, ¬ IsSyn x := by
    intro a ha
    obtain ⟨e, hpe, rfl⟩ := hdoneC a ha
    obtain ⟨h1, h2'⟩ := hc.ws.closed e.1 e.2 hpe.1
    refine ⟨hnsx _ h2', ?_⟩
    intro x hx
    simp only [exprIds, List.mem_singleton] at hx
    rw [hx]; exact hnsx _ h1
  obtain ⟨stA, eA, fiA⟩ := assign_items' hD (c.bbs.map (·.2)) ord'
    { io := ord c.inputs ++ ord c.outputs, inputs := ord c.inputs, outputs := ord c.outputs }
    (asgs ord c2) (done0 c) st2 fi0 hAnd htodo hdone0
  have biA := assign_items_bi' hD (c.bbs.map (·.2)) ord'
    { io := ord c.inputs ++ ord c.outputs, inputs := ord c.inputs, outputs := ord c.outputs }
    (asgs ord c2) (done0 c) st2 fi0 hAnd htodo hdone0 bi0 stA eA
  have hasAll : ∀ x, c.has x = true → ¬ VR.PinTy c x → stA.c.has x = true := by
    intro x hx hp
    rcases cover hc hx hp with hi | ⟨u, hu⟩ | ha
    · exact has_of_ty? ((fiA.si.inp x).2 (by rw [(hord _).mem_iff, mem_inputs hc.clean.nodup]; exact hi))
    · exact fiA.hasDone (x, Expr.id u)
        (List.mem_append_right _ (List.mem_map.2 ⟨(u, x), (mem_pinEdges c _).2 hu, rfl⟩))
    · obtain ⟨a, ha', hax⟩ := List.mem_map.1 (hAall x ha)
      have := fiA.hasDone a (List.mem_append_left _ (List.mem_reverse.2 ha'))
      have hax : a.1 = x := hax
      rw [hax] at this
      exact this
  obtain ⟨cF, epost, hnm, hins, houts, hbbs, hndF, hedF, hpa, hpe, hsem, hback⟩ :=
    finish hD fiA biA wm.toModule (ord c.outputs)
      (fun o ho => ⟨mem_outputs_has ((hord _).mem_iff.1 ho), out_not_pin hc ((hord _).mem_iff.1 ho)⟩)
      (fun o ho => hasAll o (mem_outputs_has ((hord _).mem_iff.1 ho)) (out_not_pin hc ((hord _).mem_iff.1 ho)))
      (fun x a hp ha => (hr.attr x a ha (hc.not_tie (pin_has hp))).1)
      (fun e he => hc.not_tie (hc.ws.closed e.1 e.2 ((st_edges hc hr e).1 he).1).2)
      (by
        intro a ha
        rcases List.mem_append.1 ha with ha | ha
        · obtain ⟨hd, _, hids, _⟩ := htodo a (List.mem_reverse.1 ha)
          exact ⟨hc.not_tie hd.1, fun x hx => hc.not_tie (hids x hx).1⟩
        · obtain ⟨e, hpe, rfl⟩ := hdoneC a ha
          obtain ⟨h1, h2'⟩ := hc.ws.closed e.1 e.2 hpe.1
          refine ⟨hc.not_tie h2', ?_⟩
          intro x hx
          simp only [exprIds, List.mem_singleton] at hx
          rw [hx]; exact hc.not_tie h1)
  have htr : transform wm.toModule (c.bbs.map (·.2)) ord' = .ok cF := by
    rw [VR.transform_eq, efold, eA, Arith.bind_ok]
    exact epost
  refine ⟨wm, cF, hw, htr, ?_, ?_, ?_, ?_, ?_, ?_, ?_⟩
  · rw [hnm]; exact hname
  · intro x; rw [hins, (hord _).mem_iff]
  · intro x; rw [houts, (hord _).mem_iff]
  · intro q; rw [hbbs, hr.bbs]
  · -- the pins
    intro n hn
    have hn' : VR.PinTy c n := hn
    refine ⟨?_, ?_, ?_⟩
    · have : cF.ty? n = st2.c.ty? n := by unfold Circuit.ty?; rw [hpa n hn']
      rw [this, hr.dty n (Or.inr hn'), fty_pin hn']
    · rw [List.perm_ext_iff_of_nodup (fanin_nodup hedF n) (fanin_nodup hc.clean.edgesNodup n)]
      intro u
      rw [mem_fanin, mem_fanin, hpe (u, n) (Or.inr hn'), st_edges hc hr]
      exact ⟨fun h => h.1, fun h => ⟨h, Or.inl hn'⟩⟩
    · rw [List.perm_ext_iff_of_nodup (fanout_nodup hedF n) (fanout_nodup hc.clean.edgesNodup n)]
      intro y
      rw [mem_fanout, mem_fanout, hpe (n, y) (Or.inl hn'), st_edges hc hr]
      refine ⟨fun h => h.1, fun h => ⟨h, Or.inr ?_⟩⟩
      rcases hn with hn | hn
      · exact absurd hn (hc.ws.noBBInFanout n y h)
      · exact hn
  · -- every valuation of the result is one of `c`
    intro v' hv'
    refine consistent_of_eqs hc (fun a ha => (hA a ha).2.2.2.2) hAall v'
      (fun a ha => hsem v' hv' a (List.mem_append_left _ (List.mem_reverse.2 ha))) ?_
    intro e he
    exact hsem v' hv' (e.2, Expr.id e.1)
      (List.mem_append_right _ (List.mem_map.2 ⟨e, (mem_pinEdges c e).2 he, rfl⟩))
  · -- every valuation of `c` extends
    intro v hv
    let v0 : Val := fun x => if x = "tie_0" then false else if x = "tie_1" then true else v x
    have agree0 : ∀ x, c.has x = true → v0 x = v x := by
      intro x hx
      have := not_tie3 (hc.not_tie hx)
      show (if x = "tie_0" then false else if x = "tie_1" then true else v x) = v x
      rw [if_neg this.1, if_neg this.2.1]
    have hasg : ∀ a ∈ (asgs ord c2).reverse ++ done0 c, v0 a.1 = denote v0 a.2 := by
      intro a ha
      rcases List.mem_append.1 ha with ha | ha
      · obtain ⟨⟨t0, hty0, _⟩, _, _, hids, t, hty, hsm⟩ := hA a (List.mem_reverse.1 ha)
        rw [agree0 a.1 (has_of_ty? hty), denote_congr a.2 (fun x hx => agree0 x (hids x hx).1)]
        obtain ⟨at', hat, hatt⟩ := VR.ty_mem hty
        exact hv (a.1, at') hat t hatt _ (hsm v)
      · obtain ⟨e, hpe', rfl⟩ := hdoneC a ha
        obtain ⟨h1, h2'⟩ := hc.ws.closed e.1 e.2 hpe'.1
        show v0 e.2 = v0 e.1
        rw [agree0 _ h2', agree0 _ h1]
        exact pe_val hc hv hpe'
    obtain ⟨v', hv', ag⟩ := hback v0 (if_pos rfl)
      (by show (if "tie_1" = "tie_0" then false else if "tie_1" = "tie_1" then true else v "tie_1") = true
          rw [if_neg (by decide), if_pos rfl]) hasg
    exact ⟨v', hv', fun n hn => (ag n (hnsx n hn)).trans (agree0 n hn)⟩

end VBB
end CG
