/- C17 (algorithm) helpers, part 18: the `ordered` clause from a topological listing, and the assembled statement -/
import CG.Proofs.SGAlgoCover
import CG.Proofs.SGAlgoMain
set_option linter.unusedSectionVars false
set_option linter.unusedVariables false
set_option linter.unusedSimpArgs false
namespace CG
namespace SGA
open Query Supergates Q CG.C12

theorem dedup_length_le' : ∀ l : List Name, (dedup l).length ≤ l.length
  | [] => Nat.le_refl _
  | x :: l => by
    rw [dedup, List.length_cons, List.length_cons]
    exact Nat.succ_le_succ (Nat.le_trans (List.length_filter_le _ _) (dedup_length_le' l))

theorem nodup_of_dedup_length' : ∀ l : List Name, (dedup l).length = l.length → l.Nodup
  | [], _ => List.nodup_nil
  | x :: l, h => by
    rw [dedup, List.length_cons, List.length_cons] at h
    have h1 : ((dedup l).filter (fun y => !(y == x))).length ≤ (dedup l).length := List.length_filter_le _ _
    have h2 := dedup_length_le' l
    have e1 : ((dedup l).filter (fun y => !(y == x))).length = (dedup l).length := by omega
    rw [List.nodup_cons]
    refine ⟨fun hx => ?_, nodup_of_dedup_length' l (by omega)⟩
    have hall := List.length_filter_eq_length_iff.1 e1 x ((Q.mem_dedup x l).2 hx)
    simp at hall

theorem heads_nodup {c2 : Circuit} {outs : List Name} (hd : (algo c2 outs).headsDistinct = true) :
    ((algo c2 outs).sgs.map (·.1.head)).Nodup := by
  apply nodup_of_dedup_length'
  have : (algo c2 outs).headsDistinct =
      ((dedup ((algo c2 outs).sgs.map (·.1.head))).length == ((algo c2 outs).sgs.map (·.1.head)).length) := rfl
  rw [this, beq_iff_eq] at hd
  exact hd

/-- members of a list with pairwise distinct keys: equal keys, equal members -/
theorem eq_of_key_eq {α} (key : α → Name) : ∀ {l : List α}, (l.map key).Nodup → ∀ {a b : α}, a ∈ l → b ∈ l →
    key a = key b → a = b
  | [], _, _, _, ha, _, _ => absurd ha List.not_mem_nil
  | x :: xs, hnd, a, b, ha, hb, hk => by
    rw [List.map_cons, List.nodup_cons] at hnd
    rcases List.mem_cons.mp ha with h1 | h1
    · rcases List.mem_cons.mp hb with h2 | h2
      · rw [h1, h2]
      · subst h1
        exact absurd (hk ▸ List.mem_map.mpr ⟨b, h2, rfl⟩) hnd.1
    · rcases List.mem_cons.mp hb with h2 | h2
      · subst h2
        exact absurd (hk ▸ List.mem_map.mpr ⟨a, h1, rfl⟩) hnd.1
      · exact eq_of_key_eq key hnd.2 h1 h2 hk

theorem not_mem_inputs_of_ty {c : Circuit} (hnd : c.nodeNames.Nodup) {i : Name} (h : c.ty? i ≠ some "input") :
    i ∉ c.inputs := by
  intro hm
  unfold Circuit.inputs at hm
  obtain ⟨t, ht, hts⟩ := (Q.mem_filterType c hnd ["input"] i).mp hm
  rw [List.mem_singleton] at hts
  exact h (hts ▸ ht)

theorem mem_depEdges {c2 : Circuit} {ms : List (Found × Circuit)} {p q : Found × Circuit} {i : Name}
    (hp : p ∈ ms) (hi : i ∈ p.2.inputs) (hni : i ∉ c2.inputs) (hq : q ∈ ms) (hne : q.1.head ≠ p.1.head)
    (hint : i ∈ internal q.2) : (q.1.head, p.1.head) ∈ depEdges c2 ms := by
  unfold depEdges
  refine List.mem_flatMap.mpr ⟨p, hp, List.mem_flatMap.mpr ⟨i, ?_, List.mem_map.mpr ⟨q, ?_, rfl⟩⟩⟩
  · refine List.mem_filter.mpr ⟨hi, ?_⟩
    rw [Bool.not_eq_true', ← Bool.not_eq_true, List.contains_iff_mem]
    exact hni
  · refine List.mem_filter.mpr ⟨hq, ?_⟩
    rw [Bool.and_eq_true, bne_iff_ne, List.contains_iff_mem]
    exact ⟨hne, hint⟩

/-- **the assembled statement**, with the missing hypothesis made explicit (`hbo`: no node typed `bb_output` in an
    output cone); `perm` is the topological listing of `TopoOf` -/
theorem algo_spec_fixed (c2 : Circuit) (hc : LintClean c2) (hac : Acyclic c2) (hfi : ∀ n, (c2.fanin n).length ≤ 2)
    (hbo : ∀ o ∈ c2.outputs, ∀ n, C17.ReachR c2 n o → c2.ty? n ≠ some "bb_output")
    (outs : List Name) (houts : outs.Perm c2.outputs) (hd : (algo c2 outs).headsDistinct = true)
    (perm : List (Found × Circuit)) (hperm : perm.Perm (algo c2 outs).sgs)
    (htopo : ∀ i j (hi : i < perm.length) (hj : j < perm.length),
      (perm[i].1.head, perm[j].1.head) ∈ depEdges c2 (algo c2 outs).sgs → i < j) :
    C17.Spec c2 (perm.map (·.2)) := by
  have hwf := hc.toWF
  have hmem : ∀ sg ∈ perm.map (·.2), ∃ p ∈ (algo c2 outs).sgs, sg = p.2 := by
    intro sg hsg
    obtain ⟨p, hp, rfl⟩ := List.mem_map.mp hsg
    exact ⟨p, hperm.mem_iff.mp hp, rfl⟩
  have hcover : ∀ o ∈ c2.outputs, ∀ n, C17.ReachR c2 n o → c2.ty? n ≠ some "input" →
      ∃ p ∈ (algo c2 outs).sgs, n ∈ internal p.2 := by
    intro o ho n hn hty
    exact algo_cover_fixed c2 hc hac hfi outs houts ho (ancR_of_reachR hn) hty (hbo o ho n hn)
  refine ⟨?_, ?_, ?_, ?_, ?_, ?_⟩
  · intro sg hsg
    obtain ⟨p, hp, rfl⟩ := hmem sg hsg
    exact algo_single c2 hc hac hfi outs houts p hp
  · intro sg hsg
    obtain ⟨p, hp, rfl⟩ := hmem sg hsg
    exact algo_induced c2 hc hac hfi outs houts p hp
  · intro sg hsg
    obtain ⟨p, hp, rfl⟩ := hmem sg hsg
    exact algo_inputsIn c2 hc hac hfi outs houts p hp
  · intro sg hsg
    obtain ⟨p, hp, rfl⟩ := hmem sg hsg
    exact algo_independent c2 hc hac hfi outs houts p hp
  · intro k sg hk i hi
    by_cases hty : c2.ty? i = some "input"
    · exact Or.inl hty
    · refine Or.inr ?_
      rw [List.getElem?_map] at hk
      obtain ⟨p, hpk, rfl⟩ := Option.map_eq_some_iff.mp hk
      obtain ⟨hklt, hpk'⟩ := List.getElem?_eq_some_iff.mp hpk
      have hp : p ∈ (algo c2 outs).sgs := hperm.mem_iff.mp (List.mem_of_getElem? hpk)
      obtain ⟨hpeq, hcone, X⟩ := algo_ctx c2 hc hac hfi outs houts hp
      have hi' : i ∈ (sgCircuit c2 p.1.cone p.1.head p.1.nodes).inputs := hpeq ▸ hi
      have hiS := ((mem_sg_inputs _ _ _ _ i).mp hi').1
      have hic : AncR c2 i p.1.cone := (mem_cone c2 hwf _ i).mp (X.mem_cone hiS)
      have hco : p.1.cone ∈ c2.outputs := houts.mem_iff.mp hcone
      obtain ⟨q, hq, hint⟩ := hcover p.1.cone hco i (reachR_of_ancR hic) hty
      have hne : q.1.head ≠ p.1.head := by
        intro hh
        have := eq_of_key_eq (fun r : Found × Circuit => r.1.head) (heads_nodup hd) hq hp hh
        subst this
        unfold internal at hint
        have := (List.mem_filter.mp hint).2
        rw [Bool.not_eq_true', ← Bool.not_eq_true, List.contains_iff_mem] at this
        exact this hi
      have hedge := mem_depEdges (c2 := c2) hp hi (not_mem_inputs_of_ty hwf.nodup hty) hq hne hint
      obtain ⟨k2, hk2lt, hk2⟩ := List.getElem_of_mem (hperm.mem_iff.mpr hq)
      have hlt : k2 < k := htopo k2 k hk2lt hklt (by rw [hk2, hpk']; exact hedge)
      refine ⟨k2, q.2, hlt, ?_, hint⟩
      rw [List.getElem?_map, List.getElem?_eq_getElem hk2lt, hk2]
      rfl
  · intro o ho n hn hty
    obtain ⟨p, hp, hint⟩ := hcover o ho n hn hty
    exact ⟨p.2, List.mem_map.mpr ⟨p, hperm.mem_iff.mpr hp, rfl⟩, hint⟩

/-- a node typed `bb_output` is internal to no supergate of the result (so the hypothesis `hbo` is necessary) -/
theorem bb_output_not_internal (c2 : Circuit) (hc : LintClean c2) (hac : Acyclic c2)
    (hfi : ∀ n, (c2.fanin n).length ≤ 2) (outs : List Name) (houts : outs.Perm c2.outputs) {n : Name}
    (hn : c2.ty? n = some "bb_output") : ∀ p ∈ (algo c2 outs).sgs, n ∉ internal p.2 := by
  intro p hp hint
  obtain ⟨hpeq, _, X⟩ := algo_ctx c2 hc hac hfi outs houts hp
  rw [hpeq] at hint
  obtain ⟨hnS, hty⟩ := (mem_sg_internal _ _ _ _ n).mp hint
  apply hty
  refine (sgTy_input_iff c2 hc p.1.nodes n).mpr ⟨?_, ?_⟩
  · rw [hn, Option.getD_some]
    decide
  · rw [← Bool.not_eq_true]
    intro hd
    obtain ⟨x, he, _, _⟩ := (drivenIn_iff c2 p.1.nodes n).mp hd
    have := hc.noFanin n "bb_output" hn (by decide)
    have hm := Q.mem_fanin.mpr he
    rw [this] at hm
    exact absurd hm List.not_mem_nil

end SGA
end CG
