/- C18 helpers: fan-in, acyclicity and stable states of the cut circuit -/
import CG.Proofs.AcycUnrollCut
import CG.Proofs.Tseitin
set_option linter.unusedSimpArgs false
set_option linter.unusedVariables false
namespace CG
namespace AU
open Circuit

variable {c cCut : Circuit} {F : List Name}

theorem CutFacts.edge_tgt (hc : WF c) (K : CutFacts c F cCut) {e : Name × Name} (he : e ∈ cCut.edges) :
    c.has e.2 = true := by
  rcases (K.mem e).1 he with ⟨h1, _⟩ | ⟨f, _, _, h2⟩
  · exact (hc.closed e h1).2
  · exact (hc.closed _ h2).2

theorem CutFacts.fanin_aux (hc : WF c) (K : CutFacts c F cCut) {f : Name} (hf : f ∈ F) :
    cCut.fanin (aux f) = [] := by
  rw [fanin_eq_faninL]
  apply faninL_nil_of
  intro e he e2
  have := K.edge_tgt hc he
  rw [e2, K.fresh f hf] at this
  cases this

theorem ren_inj (hc : WF c) (K : CutFacts c F cCut) {u u' : Name} (hu : c.has u = true) (hu' : c.has u' = true)
    (e : ren F u = ren F u') : u = u' := by
  unfold ren at e
  by_cases h1 : F.contains u = true
  · rw [if_pos h1] at e
    by_cases h2 : F.contains u' = true
    · rw [if_pos h2] at e; exact aux_inj e
    · rw [if_neg h2] at e
      have := K.fresh u (List.contains_iff_mem.1 h1)
      rw [e, hu'] at this
      cases this
  · rw [if_neg h1] at e
    by_cases h2 : F.contains u' = true
    · rw [if_pos h2] at e
      have := K.fresh u' (List.contains_iff_mem.1 h2)
      rw [← e, hu] at this
      cases this
    · rw [if_neg h2] at e; exact e

theorem CutFacts.fanin_perm (hc : WF c) (K : CutFacts c F cCut) (n : Name) :
    (cCut.fanin n).Perm ((c.fanin n).map (ren F)) := by
  apply Q.perm_of_nodup_mem (fanin_nodup K.wf.edgesNodup n)
  · apply nodup_map_of_inj (fanin_nodup hc.edgesNodup n)
    intro x hx y hy e
    exact ren_inj hc K (hc.closed _ (mem_fanin.1 hx)).1 (hc.closed _ (mem_fanin.1 hy)).1 e
  · intro x
    rw [mem_fanin, K.mem, List.mem_map]
    constructor
    · rintro (⟨h1, h2⟩ | ⟨f, hf, h1, h2⟩)
      · refine ⟨x, mem_fanin.2 h1, ?_⟩
        unfold ren
        rw [if_neg (fun hcn => h2 (List.contains_iff_mem.1 hcn))]
      · refine ⟨f, mem_fanin.2 h2, ?_⟩
        unfold ren
        rw [if_pos (List.contains_iff_mem.2 hf)]
        exact h1.symm
    · rintro ⟨u, hu, e⟩
      unfold ren at e
      by_cases h1 : F.contains u = true
      · rw [if_pos h1] at e
        exact Or.inr ⟨u, List.contains_iff_mem.1 h1, e.symm, mem_fanin.1 hu⟩
      · rw [if_neg h1] at e
        subst e
        exact Or.inl ⟨mem_fanin.1 hu, fun hm => h1 (List.contains_iff_mem.2 hm)⟩

theorem CutFacts.fanin_length (hc : WF c) (K : CutFacts c F cCut) (n : Name) :
    (cCut.fanin n).length = (c.fanin n).length := by
  rw [(K.fanin_perm hc n).length_eq, List.length_map]

theorem CutFacts.ty_cases (K : CutFacts c F cCut) {x : Name} {t : String} (h : cCut.ty? x = some t) :
    (c.has x = true ∧ c.ty? x = some t) ∨ (∃ f ∈ F, x = aux f ∧ t = "buf") := by
  rcases (K.has x).1 (has_of_ty? h) with h1 | ⟨f, hf, rfl⟩
  · left; exact ⟨h1, by rw [← K.tyOld x h1]; exact h⟩
  · right
    rw [K.tyAux f hf] at h
    injection h with h
    exact ⟨f, hf, rfl, h.symm⟩

theorem CutFacts.mem_inputs (hc : WF c) (K : CutFacts c F cCut) (x : Name) : x ∈ cCut.inputs ↔ x ∈ c.inputs := by
  rw [CG.mem_inputs K.wf.nodup, CG.mem_inputs hc.nodup]
  constructor
  · intro h
    rcases K.ty_cases h with ⟨_, h2⟩ | ⟨f, _, _, h2⟩
    · exact h2
    · exact absurd h2 (by decide)
  · intro h
    rw [K.tyOld x (has_of_ty? h)]
    exact h

/-- a rank function for the cut circuit from one for the graph minus the feedback edges -/
theorem CutFacts.acyclic (hc : WF c) (K : CutFacts c F cCut) (fb : List (Name × Name))
    (hfb : ∀ e ∈ fb, e.1 ∈ F) (r : Name → Nat)
    (hr : ∀ e ∈ c.edges.filter (fun e => !fb.contains e), r e.1 < r e.2) :
    ∃ rank : Name → Nat, ∀ e ∈ cCut.edges, rank e.1 < rank e.2 := by
  refine ⟨fun x => if (F.map aux).contains x then 0 else r x + 1, ?_⟩
  intro e he
  have hnaux : ∀ x, c.has x = true → (F.map aux).contains x = false := by
    intro x hx
    cases hh : (F.map aux).contains x with
    | false => rfl
    | true =>
      obtain ⟨f, hf, rfl⟩ := List.mem_map.1 (List.contains_iff_mem.1 hh)
      rw [K.fresh f hf] at hx
      cases hx
  simp only []
  rw [hnaux e.2 (K.edge_tgt hc he)]
  simp only [Bool.false_eq_true, if_false]
  rcases (K.mem e).1 he with ⟨h1, h2⟩ | ⟨f, hf, h1, _⟩
  · rw [hnaux e.1 (hc.closed e h1).1]
    simp only [Bool.false_eq_true, if_false]
    have : e ∈ c.edges.filter (fun e => !fb.contains e) := by
      rw [List.mem_filter]
      refine ⟨h1, ?_⟩
      cases hh : fb.contains e with
      | false => rfl
      | true => exact absurd (hfb e (List.contains_iff_mem.1 hh)) h2
    have := hr e this
    omega
  · have : (F.map aux).contains e.1 = true := by
      rw [h1]
      exact List.contains_iff_mem.2 (List.mem_map.2 ⟨f, hf, rfl⟩)
    rw [this]
    simp

/-! ### the stable state extended to the auxiliary buffers -/

def extV (F : List Name) (v : Val) : Val := fun x =>
  match F.find? (fun f => x == aux f) with
  | some f => v f
  | none => v x

theorem extV_aux (v : Val) {f : Name} (hf : f ∈ F) : extV F v (aux f) = v f := by
  unfold extV
  cases hh : F.find? (fun g => aux f == aux g) with
  | none =>
    have := List.find?_eq_none.1 hh f hf
    simp at this
  | some g =>
    have := List.find?_some hh
    simp only [beq_iff_eq] at this
    rw [aux_inj this]

theorem extV_old (K : CutFacts c F cCut) (v : Val) {x : Name} (hx : c.has x = true) : extV F v x = v x := by
  unfold extV
  cases hh : F.find? (fun g => x == aux g) with
  | none => rfl
  | some g =>
    have h1 := List.find?_some hh
    have h2 := List.mem_of_find?_eq_some hh
    simp only [beq_iff_eq] at h1
    have := K.fresh g h2
    rw [← h1, hx] at this
    cases this

theorem extV_ren (K : CutFacts c F cCut) (v : Val) {u : Name} (hu : c.has u = true) : extV F v (ren F u) = v u := by
  unfold ren
  by_cases h1 : F.contains u = true
  · rw [if_pos h1]; exact extV_aux v (List.contains_iff_mem.1 h1)
  · rw [if_neg h1]; exact extV_old K v hu

theorem CutFacts.consistent_ext (hc : WF c) (K : CutFacts c F cCut) (v : Val) (hv : Consistent c v) :
    Consistent cCut (extV F v) := by
  intro p hp t ht b hb
  rcases K.nodesTy p hp with ⟨p0, hp0, e1, e2⟩ | ⟨f, hf, e1, e2⟩
  · have hhas : c.has p.1 = true := by
      rw [e1, has_iff_mem]; exact List.mem_map.2 ⟨p0, hp0, rfl⟩
    rw [extV_old K v hhas, e1]
    apply hv p0 hp0 t (by rw [← e2]; exact ht) b
    rw [← hb, ← e1]
    apply Tseitin.gateFn_perm
    have h1 := (K.fanin_perm hc p.1).map (extV F v)
    rw [List.map_map] at h1
    have h2 : (c.fanin p.1).map (extV F v ∘ ren F) = (c.fanin p.1).map v := by
      apply List.map_congr_left
      intro u hu
      exact extV_ren K v (hc.closed _ (mem_fanin.1 hu)).1
    rw [h2] at h1
    exact h1.symm
  · rw [e2] at ht
    injection ht with ht
    subst ht
    rw [e1, K.fanin_aux hc hf] at hb
    cases hb

end AU
end CG
