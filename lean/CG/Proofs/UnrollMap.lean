/- C09 (unroll): the io map and the free inputs / outputs of the unrolled circuit -/
import CG.Proofs.UnrollSem
set_option linter.unusedSimpArgs false
set_option linter.unusedVariables false
namespace CG
namespace Unroll
open Circuit

theorem mem_inputs_iff (c : Circuit) (y : Name) : y ∈ c.inputs ↔ ∃ a, (y, a) ∈ c.nodes ∧ a.ty = some "input" := by
  unfold inputs filterType
  simp only [List.mem_map, List.mem_filter]
  constructor
  · rintro ⟨⟨n, a⟩, ⟨hp, hq⟩, e⟩
    simp only [] at e
    subst e
    refine ⟨a, hp, ?_⟩
    cases hty : a.ty with
    | none => rw [hty] at hq; simp at hq
    | some t => rw [hty] at hq; simp at hq; rw [hq]
  · rintro ⟨a, hp, hty⟩
    exact ⟨(y, a), ⟨hp, by simp [hty]⟩, rfl⟩

theorem mem_outputs_iff (c : Circuit) (y : Name) : y ∈ c.outputs ↔ ∃ a, (y, a) ∈ c.nodes ∧ a.out = some true := by
  unfold outputs
  simp only [List.mem_map, List.mem_filter]
  constructor
  · rintro ⟨⟨n, a⟩, ⟨hp, hq⟩, e⟩
    simp only [] at e
    subst e
    refine ⟨a, hp, ?_⟩
    cases ho : a.out with
    | none => rw [ho] at hq; simp at hq
    | some b => rw [ho] at hq; simp at hq; rw [hq]
  · rintro ⟨a, hp, ho⟩
    exact ⟨(y, a), ⟨hp, by simp [ho]⟩, rfl⟩

theorem isOut_iff {c : Circuit} (hnd : c.nodeNames.Nodup) (x : Name) : c.isOut x = true ↔ x ∈ c.outputs := by
  rw [mem_outputs_iff]
  unfold isOut
  constructor
  · intro h
    cases ha : c.attr? x with
    | none => rw [ha] at h; cases h
    | some a =>
      rw [ha] at h
      simp only [] at h
      refine ⟨a, attr?_mem ha, ?_⟩
      cases ho : a.out with
      | none => rw [ho] at h; cases h
      | some b => rw [ho] at h; simp at h; rw [h]
  · rintro ⟨a, hm, ho⟩
    rw [attr?_of_mem hnd hm]
    simp [ho]

theorem ioTy_input_iff (c : Circuit) (stateIO : List (Name × Name)) (x : Name) (t : Nat) :
    ioTy c stateIO x t = "input" ↔
      (t = 0 ∧ isVal stateIO x = true) ∨
      (isVal stateIO x = false ∧ x ∈ c.inputs) := by
  unfold ioTy ioTy0
  show (if t = 0 ∧ isVal stateIO x = true then "input"
        else if isVal stateIO x = true then "buf" else if c.inputs.contains x then "input" else "buf") = "input" ↔ _
  by_cases h1 : t = 0 ∧ isVal stateIO x = true
  · rw [if_pos h1]
    exact ⟨fun _ => Or.inl h1, fun _ => rfl⟩
  · rw [if_neg h1]
    cases h2 : isVal stateIO x with
    | true =>
      simp only [if_true]
      constructor
      · intro h; exact absurd h (by decide)
      · rintro (h | ⟨h, _⟩)
        · exact absurd ⟨h.1, h2⟩ h1
        · cases h
    | false =>
      simp only [Bool.false_eq_true, if_false]
      cases h3 : c.inputs.contains x with
      | true =>
        simp only [if_true]
        exact ⟨fun _ => Or.inr ⟨trivial, List.contains_iff_mem.1 h3⟩, fun _ => trivial⟩
      | false =>
        simp only [Bool.false_eq_true, if_false]
        constructor
        · intro h; exact absurd h (by decide)
        · rintro (h | ⟨_, h⟩)
          · exact absurd h.2 (by simp)
          · rw [List.contains_iff_mem.2 h] at h3; cases h3

section
variable {c : Circuit} {stateIO : List (Name × Name)} {pfx : String} {io : List Name}

theorem Inv.mem_nodes {n : Nat} {s : Tx.UState} (I : Inv c stateIO pfx io n s) (y : Name) (a : Attr) :
    (y, a) ∈ s.1.nodes ↔ ∃ t, t < n ∧ ((∃ x ∈ io, y = N c pfx x t ∧ a = ioAttr c stateIO x t) ∨
      (∃ p ∈ c.nodes, y = U t p.1 ∧ a = stripA p.2)) := by
  rw [I.nodes, List.mem_flatMap]
  constructor
  · rintro ⟨t, ht, hm⟩
    refine ⟨t, List.mem_range.1 ht, ?_⟩
    rcases List.mem_append.1 hm with hm | hm
    · obtain ⟨x, hx, e⟩ := List.mem_map.1 hm
      injection e with e1 e2
      exact Or.inl ⟨x, hx, e1.symm, e2.symm⟩
    · obtain ⟨p, hp, e⟩ := List.mem_map.1 hm
      injection e with e1 e2
      exact Or.inr ⟨p, hp, e1.symm, e2.symm⟩
  · rintro ⟨t, ht, hm | hm⟩
    · obtain ⟨x, hx, rfl, rfl⟩ := hm
      exact ⟨t, List.mem_range.2 ht, mem_stepNodes_io hx⟩
    · obtain ⟨p, hp, rfl, rfl⟩ := hm
      exact ⟨t, List.mem_range.2 ht, mem_stepNodes_copy hp⟩

theorem Inv.inputs_iff {n : Nat} {s : Tx.UState} (I : Inv c stateIO pfx io n s) (y : Name) :
    y ∈ s.1.inputs ↔ ∃ t, t < n ∧ ∃ x ∈ io, y = N c pfx x t ∧ ioTy c stateIO x t = "input" := by
  rw [mem_inputs_iff]
  constructor
  · rintro ⟨a, hm, hty⟩
    obtain ⟨t, ht, h | h⟩ := (I.mem_nodes y a).1 hm
    · obtain ⟨x, hx, e1, e2⟩ := h
      subst e2
      injection hty with hty
      exact ⟨t, ht, x, hx, e1, hty⟩
    · obtain ⟨p, hp, _, e2⟩ := h
      subst e2
      exact absurd hty (stripA_ty_ne_input p.2)
  · rintro ⟨t, ht, x, hx, e, hty⟩
    refine ⟨ioAttr c stateIO x t, (I.mem_nodes y _).2 ⟨t, ht, Or.inl ⟨x, hx, e, rfl⟩⟩, ?_⟩
    show some (ioTy c stateIO x t) = some "input"
    rw [hty]

theorem stripA_out_ne_true (a : Attr) : (stripA a).out ≠ some true := by
  intro h
  have := stripA_out_false a
  rw [h] at this
  cases this

theorem Inv.outputs_iff (C : Ctx c stateIO io) {n : Nat} {s : Tx.UState} (I : Inv c stateIO pfx io n s) (y : Name) :
    y ∈ s.1.outputs ↔ ∃ t, t < n ∧ ∃ x ∈ io, y = N c pfx x t ∧ x ∈ c.outputs := by
  rw [mem_outputs_iff]
  constructor
  · rintro ⟨a, hm, ho⟩
    obtain ⟨t, ht, h | h⟩ := (I.mem_nodes y a).1 hm
    · obtain ⟨x, hx, e1, e2⟩ := h
      subst e2
      injection ho with ho
      exact ⟨t, ht, x, hx, e1, (isOut_iff C.wf.nodup x).1 ho⟩
    · obtain ⟨p, hp, _, e2⟩ := h
      subst e2
      exact absurd ho (stripA_out_ne_true p.2)
  · rintro ⟨t, ht, x, hx, e, ho⟩
    refine ⟨ioAttr c stateIO x t, (I.mem_nodes y _).2 ⟨t, ht, Or.inl ⟨x, hx, e, rfl⟩⟩, ?_⟩
    show some (c.isOut x) = some true
    rw [(isOut_iff C.wf.nodup x).2 ho]

/-- the free inputs in the vocabulary of the property file -/
theorem inputs_target (C : Ctx c stateIO io) {n : Nat} (hn : 0 < n) (y : Name) :
    (∃ t, t < n ∧ ∃ x ∈ io, y = N c pfx x t ∧ ioTy c stateIO x t = "input") ↔
    ((∃ p ∈ stateIO, y = N c pfx p.2 0) ∨
     (∃ x ∈ c.inputs, (∀ p ∈ stateIO, p.2 ≠ x) ∧ ∃ t, t < n ∧ y = N c pfx x t)) := by
  constructor
  · rintro ⟨t, ht, x, hx, e, hty⟩
    rcases (ioTy_input_iff c stateIO x t).1 hty with ⟨h0, hv⟩ | ⟨hany, hin⟩
    · obtain ⟨p, hp, e2⟩ := (isVal_iff stateIO x).1 hv
      subst h0; subst e2
      exact Or.inl ⟨p, hp, e⟩
    · refine Or.inr ⟨x, hin, ?_, t, ht, e⟩
      intro p hp e2
      rw [(isVal_iff stateIO x).2 ⟨p, hp, e2⟩] at hany
      cases hany
  · rintro (⟨p, hp, e⟩ | ⟨x, hin, hne, t, ht, e⟩)
    · refine ⟨0, hn, p.2, C.ioIn _ (C.valsIn p hp), e, ?_⟩
      exact (ioTy_input_iff c stateIO p.2 0).2 (Or.inl ⟨rfl, (isVal_iff stateIO p.2).2 ⟨p, hp, rfl⟩⟩)
    · refine ⟨t, ht, x, C.ioIn x hin, e, (ioTy_input_iff c stateIO x t).2 (Or.inr ⟨?_, hin⟩)⟩
      cases hv : isVal stateIO x with
      | false => rfl
      | true =>
        obtain ⟨p, hp, e2⟩ := (isVal_iff stateIO x).1 hv
        exact absurd e2 (hne p hp)

end
end Unroll
end CG
