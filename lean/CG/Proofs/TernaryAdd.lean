/- C10 helper: a successful `Circuit.add` call described by what it does to nodes, attributes and edges -/
import CG.Proofs.LimitAdd
import CG.Proofs.ApiCore
namespace CG
namespace Ternary
open Circuit

/-- the node types that can occur in the encoded circuit -/
def okTypes : List String := ["and", "nand", "or", "nor", "xor", "xnor", "buf", "not", "0", "1", "input"]

theorem ok_facts {ty : String} (h : ty ∈ okTypes) :
    T.supported.contains ty = true ∧ (T.connectL 2).contains ty = false ∧ (T.connectL 3).contains ty = false ∧
    ((T.addL 0).contains ty = true → ty = "buf" ∨ ty = "not") ∧
    ((T.addL 1).contains ty = true → ty = "0" ∨ ty = "1" ∨ ty = "input") ∧
    ((T.connectL 0).contains ty = true → ty = "0" ∨ ty = "1" ∨ ty = "input") ∧
    ((T.connectL 1).contains ty = true → ty = "buf" ∨ ty = "not") := by
  rw [Limit.T_supported, Limit.T_addL0, Limit.T_addL1, Limit.T_connectL0, Limit.T_connectL1, Limit.T_connectL2,
    Limit.T_connectL3]
  simp only [okTypes, List.mem_cons, List.not_mem_nil, or_false] at h
  rcases h with rfl | rfl | rfl | rfl | rfl | rfl | rfl | rfl | rfl | rfl | rfl <;> decide

theorem multi_ok {ty : String} (h : ty ∈ multiTypes) : ty ∈ okTypes := by
  simp only [multiTypes, List.mem_cons, List.not_mem_nil, or_false] at h
  rcases h with rfl | rfl | rfl | rfl | rfl | rfl <;> decide

/-- every node is typed with one of `okTypes` -/
def Typed (t : Circuit) : Prop := ∀ x, t.has x = true → ∃ ty, t.ty? x = some ty ∧ ty ∈ okTypes

/-! ### connect -/

structure ConnSpec (c : Circuit) (us vs : List Name) (c' : Circuit) : Prop where
  nodes : c'.nodes = c.nodes
  edges : ∀ e, e ∈ c'.edges ↔ (e ∈ c.edges ∨ (e.1 ∈ us ∧ e.2 ∈ vs))
  nodupE : c.edges.Nodup → c'.edges.Nodup

theorem connect_ok (c : Circuit) (us vs : List Name)
    (h : us = [] ∨ vs = [] ∨ c.connectCheck us vs = none) :
    ∃ c', c.connect us vs = (c', .ok) ∧ ConnSpec c us vs c' := by
  unfold Circuit.connect
  by_cases he : (us.isEmpty || vs.isEmpty) = true
  · rw [if_pos he]
    refine ⟨c, rfl, rfl, ?_, fun h => h⟩
    intro e
    constructor
    · exact Or.inl
    · rintro (h1 | ⟨h1, h2⟩)
      · exact h1
      · rw [Bool.or_eq_true, List.isEmpty_iff, List.isEmpty_iff] at he
        rcases he with rfl | rfl
        · cases h1
        · cases h2
  · rw [if_neg he]
    have hck : c.connectCheck us vs = none := by
      rcases h with rfl | rfl | h
      · simp at he
      · simp at he
      · exact h
    rw [hck]
    exact ⟨_, rfl, addEdges_nodes c us vs, addEdges_mem c us vs, fun h => addEdges_nodup us vs h⟩

/-! ### addConnectedNodes -/

def bufAttr : Attr := { ty := some "buf", out := some false }

structure AcnSpec (c : Circuit) (fs : List Name) (c' : Circuit) : Prop where
  edges : c'.edges = c.edges
  has : ∀ x, c'.has x = true ↔ (c.has x = true ∨ x ∈ fs)
  attr_old : ∀ x, c.has x = true → c'.attr? x = c.attr? x
  attr_new : ∀ x, c.has x = false → x ∈ fs → c'.attr? x = some bufAttr
  nodupN : c.nodeNames.Nodup → c'.nodeNames.Nodup

theorem acn_ok : ∀ (fs : List Name) (c : Circuit), (∀ f ∈ fs, c.has f = true ∨ Limit.NameOK f) →
    ∃ c', c.addConnectedNodes fs = (c', .ok) ∧ AcnSpec c fs c'
  | [], c, _ => ⟨c, rfl, ⟨rfl, by simp, fun _ _ => rfl, (fun _ _ h => nomatch h), fun h => h⟩⟩
  | f :: fs, c, h => by
    rw [Circuit.addConnectedNodes]
    by_cases hf : c.has f = true
    · rw [if_pos hf]
      obtain ⟨c', e, s⟩ := acn_ok fs c (fun g hg => h g (by simp [hg]))
      refine ⟨c', e, s.edges, ?_, s.attr_old, ?_, s.nodupN⟩
      · intro x
        rw [s.has, List.mem_cons]
        constructor
        · rintro (h1 | h1)
          · exact Or.inl h1
          · exact Or.inr (Or.inr h1)
        · rintro (h1 | rfl | h1)
          · exact Or.inl h1
          · exact Or.inl hf
          · exact Or.inr h1
      · intro x hx hm
        rcases List.mem_cons.mp hm with rfl | hm
        · rw [hf] at hx; cases hx
        · exact s.attr_new x hx hm
    · rw [if_neg hf]
      have hf' : c.has f = false := by simpa using hf
      have hok : Limit.NameOK f := by
        rcases h f (by simp) with h1 | h1
        · exact absurd h1 hf
        · exact h1
      have hpb : c.addPlainBuf f = (c.addNodeAttr f bufAttr, .ok) := by
        unfold Circuit.addPlainBuf
        rw [if_neg hf]
        have h1 : (!T.supported.contains "buf") = false := by rw [Limit.T_supported]; decide
        rw [h1]
        simp only [Bool.false_eq_true, if_false, hok.1, hok.2]
        rfl
      rw [hpb]
      simp only []
      have hc1 : ∀ g ∈ fs, (c.addNodeAttr f bufAttr).has g = true ∨ Limit.NameOK g := by
        intro g hg
        rcases h g (by simp [hg]) with h1 | h1
        · left; rw [addNodeAttr_has, h1]; rfl
        · exact Or.inr h1
      obtain ⟨c', e, s⟩ := acn_ok fs _ hc1
      refine ⟨c', e, ?_, ?_, ?_, ?_, ?_⟩
      · rw [s.edges, addNodeAttr_edges]
      · intro x
        rw [s.has, addNodeAttr_has, List.mem_cons, Bool.or_eq_true, beq_iff_eq]
        constructor
        · rintro ((h1 | h1) | h1)
          · exact Or.inl h1
          · exact Or.inr (Or.inl h1)
          · exact Or.inr (Or.inr h1)
        · rintro (h1 | h1 | h1)
          · exact Or.inl (Or.inl h1)
          · exact Or.inl (Or.inr h1)
          · exact Or.inr h1
      · intro x hx
        have hxf : x ≠ f := by rintro rfl; rw [hf'] at hx; cases hx
        rw [s.attr_old x (by rw [addNodeAttr_has, hx]; rfl), addNodeAttr_attr?, if_neg hxf]
      · intro x hx hm
        by_cases hxf : x = f
        · subst hxf
          rw [s.attr_old x (by rw [addNodeAttr_has]; simp), addNodeAttr_attr?, if_pos rfl,
            attr?_none_of_not_has hf']
        · have hm' : x ∈ fs := by
            rcases List.mem_cons.mp hm with h1 | h1
            · exact absurd h1 hxf
            · exact h1
          refine s.attr_new x ?_ hm'
          rw [addNodeAttr_has, hx]
          simpa using hxf
      · intro hn
        exact s.nodupN (addNodeAttr_nodup f bufAttr hn)

/-! ### add -/

/-- what a successful `add` does: `n` is the resolved name -/
structure AddSpec (t : Circuit) (a : AddArgs) (n : Name) (t' : Circuit) : Prop where
  has : ∀ x, t'.has x = true ↔ (t.has x = true ∨ x = n ∨ (a.addConnected = true ∧ x ∈ a.fanin))
  attr_self : t'.attr? n = some { ty := some a.ty, out := some a.output }
  attr_old : ∀ x, x ≠ n → t.has x = true → t'.attr? x = t.attr? x
  attr_new : ∀ x, x ≠ n → t.has x = false → t'.has x = true → t'.attr? x = some bufAttr
  edges : ∀ e, e ∈ t'.edges ↔ (e ∈ t.edges ∨ (e.1 = n ∧ e.2 ∈ a.fanout) ∨ (e.1 ∈ a.fanin ∧ e.2 = n))
  nodupN : t.nodeNames.Nodup → t'.nodeNames.Nodup
  nodupE : t.edges.Nodup → t'.edges.Nodup

theorem add_eq_addTail (t : Circuit) (a : AddArgs) (n : Name)
    (hres : (if a.uid then t.uid a.n else some a.n) = some n)
    (hredef : a.uid = false → a.allowRedef = true)
    (hname : Limit.NameOK n)
    (hsup : T.supported.contains a.ty = true)
    (h0 : ¬ (a.fanin.length > 1 ∧ (T.addL 0).contains a.ty = true))
    (h1 : ¬ (a.fanin.isEmpty = false ∧ (T.addL 1).contains a.ty = true)) :
    t.add a = addTail t a n := by
  unfold Circuit.add
  rw [hres]
  simp only []
  have c1 : (!a.uid && t.has n && !a.allowRedef) = false := by
    cases hu : a.uid with
    | true => rfl
    | false => rw [hredef hu]; simp
  have c2 : (!T.supported.contains a.ty) = false := by rw [hsup]; rfl
  have c3 : (decide (a.fanin.length > 1) && (T.addL 0).contains a.ty) = false := by
    rw [Bool.and_eq_false_iff]
    by_cases hh : a.fanin.length > 1
    · right
      cases hc : (T.addL 0).contains a.ty with
      | false => rfl
      | true => exact absurd ⟨hh, hc⟩ h0
    · left; simpa using hh
  have c4 : (!a.fanin.isEmpty && (T.addL 1).contains a.ty) = false := by
    rw [Bool.and_eq_false_iff]
    cases hh : a.fanin.isEmpty with
    | true => left; rfl
    | false =>
      right
      cases hc : (T.addL 1).contains a.ty with
      | false => rfl
      | true => exact absurd ⟨hh, hc⟩ h1
  rw [c1, c2, c3, c4, hname.2, hname.1]
  rfl

theorem fanin_nil_of {t : Circuit} {n : Name} (h : ∀ e ∈ t.edges, e.2 ≠ n) : t.fanin n = [] := by
  unfold Circuit.fanin
  rw [List.map_eq_nil_iff, List.filter_eq_nil_iff]
  intro e he
  simpa using h e he

theorem ty_of_attr {t : Circuit} {x : Name} {a : Attr} (h : t.attr? x = some a) : t.ty? x = a.ty := by
  unfold Circuit.ty?; rw [h]; rfl

theorem has_of_attr' {t : Circuit} {x : Name} {a : Attr} (h : t.attr? x = some a) : t.has x = true := by
  rw [has_eq_isSome, h]; rfl

/-- the auto-created neighbours of an `add` call -/
def acnList (a : AddArgs) : List Name := if a.addConnected then a.fanin ++ a.fanout else []

theorem addR2_ok (t : Circuit) (a : AddArgs) (n : Name)
    (h : ∀ f ∈ acnList a, (t.addNodeAttr n { ty := some a.ty, out := some a.output }).has f = true ∨ Limit.NameOK f) :
    ∃ c2, addR2 t a n = (c2, .ok) ∧
      AcnSpec (t.addNodeAttr n { ty := some a.ty, out := some a.output }) (acnList a) c2 := by
  unfold addR2 acnList at *
  cases hac : a.addConnected with
  | true =>
    rw [hac] at h
    simp only [if_true] at h ⊢
    exact acn_ok _ _ h
  | false =>
    simp only [Bool.false_eq_true, if_false]
    exact ⟨_, rfl, ⟨rfl, by simp, fun _ _ => rfl, (fun _ _ h => nomatch h), fun h => h⟩⟩

theorem add_ok (t : Circuit) (a : AddArgs) (n : Name)
    (hres : (if a.uid then t.uid a.n else some a.n) = some n)
    (hredef : a.uid = false → a.allowRedef = true)
    (hname : Limit.NameOK n)
    (hty : a.ty ∈ okTypes)
    (h0 : a.ty = "buf" ∨ a.ty = "not" → a.fanin.length ≤ 1 ∧ (a.fanin ≠ [] → ∀ e ∈ t.edges, e.2 ≠ n))
    (h1 : a.ty = "0" ∨ a.ty = "1" ∨ a.ty = "input" → a.fanin = [])
    (hfo : ∀ v ∈ a.fanout, v ≠ n ∧ ∃ tv, t.ty? v = some tv ∧ tv ∈ multiTypes)
    (hfi : ∀ u ∈ a.fanin, u ≠ n ∧ (t.has u = true ∨ (a.addConnected = true ∧ Limit.NameOK u)))
    (htyped : Typed t) :
    ∃ t', t.add a = (t', .ok, n) ∧ AddSpec t a n t' := by
  obtain ⟨f1, f2, f3, f4, f5, f6, f7⟩ := ok_facts hty
  have e := add_eq_addTail t a n hres hredef hname f1
    (by rintro ⟨hl, hc⟩; have := (h0 (f4 hc)).1; omega)
    (by rintro ⟨he, hc⟩; rw [h1 (f5 hc)] at he; simp at he)
  rw [e]
  -- after `add_node`
  have c1_has : ∀ x, (t.addNodeAttr n { ty := some a.ty, out := some a.output }).has x = (t.has x || x == n) :=
    addNodeAttr_has t n _
  have c1_self : (t.addNodeAttr n { ty := some a.ty, out := some a.output }).attr? n =
      some { ty := some a.ty, out := some a.output } := by
    rw [addNodeAttr_attr?, if_pos rfl]; cases t.attr? n <;> rfl
  have c1_old : ∀ x, x ≠ n → (t.addNodeAttr n { ty := some a.ty, out := some a.output }).attr? x = t.attr? x :=
    fun x hx => by rw [addNodeAttr_attr?, if_neg hx]
  have c1_edges : (t.addNodeAttr n { ty := some a.ty, out := some a.output }).edges = t.edges :=
    addNodeAttr_edges t n _
  have hfo_has : ∀ v ∈ a.fanout, t.has v = true := by
    intro v hv
    obtain ⟨_, tv, h, _⟩ := hfo v hv
    exact has_of_ty? h
  -- after the auto-created neighbours
  obtain ⟨c2, hc2, s2⟩ := addR2_ok t a n (by
    intro f hf
    unfold acnList at hf
    cases hac : a.addConnected with
    | false => rw [hac] at hf; cases hf
    | true =>
      rw [hac] at hf
      simp only [if_true, List.mem_append] at hf
      rcases hf with hf | hf
      · rcases (hfi f hf).2 with h | ⟨_, h⟩
        · left; rw [c1_has, h]; rfl
        · exact Or.inr h
      · left; rw [c1_has, hfo_has f hf]; rfl)
  generalize hc1 : t.addNodeAttr n { ty := some a.ty, out := some a.output } = c1 at *
  have c2n : c2.has n = true := (s2.has n).mpr (Or.inl (by rw [c1_has]; simp))
  have c2_self : c2.attr? n = some { ty := some a.ty, out := some a.output } := by
    rw [s2.attr_old n (by rw [c1_has]; simp), c1_self]
  have c2_old : ∀ x, x ≠ n → t.has x = true → c2.attr? x = t.attr? x := by
    intro x hx hh
    rw [s2.attr_old x (by rw [c1_has, hh]; rfl), c1_old x hx]
  have c2_mono : ∀ x, t.has x = true → c2.has x = true :=
    fun x hh => (s2.has x).mpr (Or.inl (by rw [c1_has, hh]; rfl))
  have c2_fi : ∀ u ∈ a.fanin, c2.has u = true := by
    intro u hu
    rcases (hfi u hu).2 with h | ⟨hac, _⟩
    · exact c2_mono u h
    · refine (s2.has u).mpr (Or.inr ?_)
      unfold acnList; rw [hac]; simp [hu]
  have c2_fi_ty : ∀ u ∈ a.fanin, ∃ tu, c2.ty? u = some tu ∧ tu ∈ okTypes := by
    intro u hu
    obtain ⟨hun, hcase⟩ := hfi u hu
    by_cases hh : t.has u = true
    · obtain ⟨tu, h1, h2⟩ := htyped u hh
      refine ⟨tu, ?_, h2⟩
      unfold Circuit.ty? at h1 ⊢
      rw [c2_old u hun hh]; exact h1
    · have hh' : t.has u = false := by simpa using hh
      rcases hcase with h | ⟨hac, _⟩
      · exact absurd h hh
      · have : c2.attr? u = some bufAttr := by
          refine s2.attr_new u ?_ ?_
          · rw [c1_has, hh']; simpa using hun
          · unfold acnList; rw [hac]; simp [hu]
        exact ⟨"buf", by rw [ty_of_attr this]; rfl, by decide⟩
  rw [addTail_eq, hc2]
  simp only [bne_self_eq_false, Bool.false_eq_true, if_false]
  -- first connect
  obtain ⟨c3, hc3, s3⟩ := connect_ok c2 [n] a.fanout (by
    by_cases hfo0 : a.fanout = []
    · exact Or.inr (Or.inl hfo0)
    · right; right
      refine Limit.connectCheck_none c2 [n] a.fanout ?_ ?_ ?_ ?_
      · intro u hu; rw [List.mem_singleton] at hu; rw [hu]; exact c2n
      · intro v hv; exact c2_mono v (hfo_has v hv)
      · intro v hv
        obtain ⟨hvn, tv, h1, h2⟩ := hfo v hv
        have hm := Limit.multi_facts h2
        refine ⟨tv, ?_, hm.1, fun hc => ?_⟩
        · unfold Circuit.ty? at h1 ⊢
          rw [c2_old v hvn (hfo_has v hv)]; exact h1
        · rw [hm.2.1] at hc; cases hc
      · intro u hu
        rw [List.mem_singleton] at hu; rw [hu]
        exact ⟨a.ty, by rw [ty_of_attr c2_self], f2, f3⟩)
  have c3_edges_n : ∀ e ∈ c3.edges, e ∈ t.edges ∨ e.2 ≠ n := by
    intro e he
    rcases (s3.edges e).mp he with h | ⟨_, h⟩
    · left; rw [s2.edges, c1_edges] at h; exact h
    · right; intro hen; rw [hen] at h; exact (hfo n h).1 rfl
  -- second connect
  obtain ⟨c4, hc4, s4⟩ := connect_ok c3 a.fanin [n] (by
    by_cases hfi0 : a.fanin = []
    · exact Or.inl hfi0
    · right; right
      refine Limit.connectCheck_none c3 a.fanin [n] ?_ ?_ ?_ ?_
      · intro u hu; rw [has_congr s3.nodes]; exact c2_fi u hu
      · intro v hv; rw [List.mem_singleton] at hv; rw [hv, has_congr s3.nodes]; exact c2n
      · intro v hv
        rw [List.mem_singleton] at hv; rw [hv]
        refine ⟨a.ty, by rw [ty?_congr s3.nodes, ty_of_attr c2_self], ?_, fun hc => ?_⟩
        · cases hc0 : (T.connectL 0).contains a.ty with
          | false => rfl
          | true => exact absurd (h1 (f6 hc0)) hfi0
        · obtain ⟨hlen, hnoin⟩ := h0 (f7 hc)
          have : c3.fanin n = [] := by
            apply fanin_nil_of
            intro e he
            rcases c3_edges_n e he with h | h
            · exact hnoin hfi0 e h
            · exact h
          rw [this]; simpa using hlen
      · intro u hu
        obtain ⟨tu, h1, h2⟩ := c2_fi_ty u hu
        obtain ⟨_, g2, g3, _⟩ := ok_facts h2
        exact ⟨tu, by rw [ty?_congr s3.nodes]; exact h1, g2, g3⟩)
  have hn43 : c4.nodes = c2.nodes := by rw [s4.nodes, s3.nodes]
  refine ⟨c4, ?_, ?_⟩
  · unfold addTail3
    rw [hc3]
    simp only [bne_self_eq_false, Bool.false_eq_true, if_false]
    rw [hc4]
  · constructor
    · intro x
      rw [has_congr hn43, s2.has, c1_has, Bool.or_eq_true, beq_iff_eq]
      unfold acnList
      constructor
      · rintro ((h | h) | h)
        · exact Or.inl h
        · exact Or.inr (Or.inl h)
        · cases hac : a.addConnected with
          | false => rw [hac] at h; cases h
          | true =>
            rw [hac] at h
            simp only [if_true, List.mem_append] at h
            rcases h with h | h
            · exact Or.inr (Or.inr ⟨rfl, h⟩)
            · exact Or.inl (hfo_has x h)
      · rintro (h | h | ⟨hac, h⟩)
        · exact Or.inl (Or.inl h)
        · exact Or.inl (Or.inr h)
        · right; rw [hac]; simp [h]
    · rw [attr?_congr hn43]; exact c2_self
    · intro x hx hh; rw [attr?_congr hn43]; exact c2_old x hx hh
    · intro x hx hh hh4
      rw [attr?_congr hn43]
      rw [has_congr hn43, s2.has] at hh4
      have hc1x : c1.has x = false := by rw [c1_has, hh]; simpa using hx
      rcases hh4 with h | h
      · rw [hc1x] at h; cases h
      · exact s2.attr_new x hc1x h
    · intro e
      rw [s4.edges, s3.edges, s2.edges, c1_edges]
      simp only [List.mem_singleton]
      constructor
      · rintro ((h | h) | h)
        · exact Or.inl h
        · exact Or.inr (Or.inl h)
        · exact Or.inr (Or.inr h)
      · rintro (h | h | h)
        · exact Or.inl (Or.inl h)
        · exact Or.inl (Or.inr h)
        · exact Or.inr h
    · intro hnd
      rw [nodeNames_congr hn43]
      apply s2.nodupN
      rw [← hc1]
      exact addNodeAttr_nodup n _ hnd
    · intro hnd
      apply s4.nodupE
      apply s3.nodupE
      rw [s2.edges, c1_edges]
      exact hnd

end Ternary
end CG
