/- C09 (unroll), phase B of an iteration: splicing the copy of step `k` -/
import CG.Proofs.UnrollIO
set_option linter.unusedSimpArgs false
set_option linter.unusedVariables false
namespace CG
namespace Unroll
open Circuit

theorem fanin_congr_edges {c c' : Circuit} (h : c'.edges = c.edges) (y : Name) : c'.fanin y = c.fanin y := by
  unfold Circuit.fanin; rw [h]

theorem fanin_nil_of_not_has {c : Circuit} (h : WF c) {y : Name} (hy : c.has y = false) : c.fanin y = [] := by
  rw [fanin_eq_faninL]
  apply faninL_nil_of
  intro e he e2
  have := (h.closed e he).2
  rw [e2, hy] at this
  cases this

/-- facts about the circuit after phase A, from well-formedness alone -/
theorem ioNames_facts {c : Circuit} {stateIO : List (Name × Name)} {pfx : String} {k : Nat} {io : List Name}
    {Q P : Circuit} (hP : WF P)
    (hPn : P.nodes = Q.nodes ++ io.map (fun x => (N c pfx x k, ioAttr0 c stateIO x))) :
    (∀ x ∈ io, ∀ y ∈ io, N c pfx x k = N c pfx y k → x = y) ∧
    (∀ x ∈ io, Q.has (N c pfx x k) = false) ∧
    (∀ x ∈ io, P.has (N c pfx x k) = true) ∧
    (∀ y, Q.has y = true → P.has y = true) := by
  have hnames : P.nodeNames = Q.nodeNames ++ io.map (fun x => N c pfx x k) := by
    unfold nodeNames; rw [hPn, List.map_append, List.map_map]; rfl
  have hnd := hP.nodup
  rw [hnames, List.nodup_append] at hnd
  obtain ⟨_, n2, n3⟩ := hnd
  refine ⟨fun x hx y hy e => inj_of_nodup_map n2 x hx y hy e, ?_, ?_, ?_⟩
  · intro x hx
    rw [has_false_iff]
    intro hm
    exact n3 _ hm _ (List.mem_map.2 ⟨x, hx, rfl⟩) rfl
  · intro x hx
    rw [has_iff_mem, hnames]
    exact List.mem_append.2 (Or.inr (List.mem_map.2 ⟨x, hx, rfl⟩))
  · intro y hy
    rw [has_iff_mem] at hy ⊢
    rw [hnames]
    exact List.mem_append.2 (Or.inl hy)

theorem subPhase {c : Circuit} {stateIO : List (Name × Name)} {pfx : String} {k : Nat} {io : List Name}
    {Q P P' : Circuit} (hc : WF c) (hQ : WF Q) (hP : WF P)
    (hPn : P.nodes = Q.nodes ++ io.map (fun x => (N c pfx x k, ioAttr0 c stateIO x))) (hPe : P.edges = Q.edges)
    (hio : ∀ x ∈ c.inputs, x ∈ io)
    (h : P.addSubcircuit c ("unrolled_" ++ toString k) (io.map (fun x => (x, [N c pfx x k]))) true = (P', .ok)) :
    WF P' ∧ P'.nodes = P.nodes ++ c.nodes.map (fun p => (U k p.1, stripA p.2)) ∧
    (∀ y, Q.has y = true → P'.fanin y = Q.fanin y) ∧
    (∀ x ∈ c.inputs, P'.fanin (U k x) = [N c pfx x k]) ∧
    (∀ x, c.has x = true → x ∉ c.inputs → P'.fanin (U k x) = (c.fanin x).map (U k)) ∧
    (∀ x ∈ io, x ∉ c.inputs → P'.fanin (N c pfx x k) = [U k x]) ∧
    (∀ x ∈ io, x ∈ c.inputs → P'.fanin (N c pfx x k) = []) := by
  have F := addSub_facts hP hc h
  obtain ⟨inj, fresh, hasN, hasQ⟩ := ioNames_facts (stateIO := stateIO) hP hPn
  refine ⟨F.wf hP hc, F.nodes, ?_, ?_, ?_, ?_, ?_⟩
  · intro y hy
    rw [F.fanin_parent hc (hasQ y hy), fanin_congr_edges hPe]
    intro q hq _ hm
    obtain ⟨x, hx, rfl⟩ := List.mem_map.1 hq
    simp only [List.mem_singleton] at hm
    subst hm
    rw [fresh x hx] at hy
    cases hy
  · intro x hx
    exact F.buf (x, [N c pfx x k]) (List.mem_map.2 ⟨x, hio x hx, rfl⟩) hx _ (by simp)
  · intro x hx hni
    apply F.fanin_child hP hc hx
    · intro q hq hqi e
      exact hni (e ▸ hqi)
    · intro q hq _ hm
      obtain ⟨y, hy, rfl⟩ := List.mem_map.1 hq
      simp only [List.mem_singleton] at hm
      have := F.clash x hx
      rw [hm, hasN y hy] at this
      cases this
  · intro x hx hni
    obtain ⟨_, _, _, _, hca⟩ := addSub_unfold h
    obtain ⟨v1, _, _, _⟩ := subPre_view hP hc ("unrolled_" ++ toString k) F.clash
    have hnodes := (connectAll_ok _ _ _ hca).1
    have hnd : (subPre P c ("unrolled_" ++ toString k)).nodeNames.Nodup := by
      rw [← nodeNames_congr hnodes]; exact F.nodup
    have hmem : (N c pfx x k, ioAttr0 c stateIO x) ∈ (subPre P c ("unrolled_" ++ toString k)).nodes := by
      rw [v1, hPn]
      exact List.mem_append.2 (Or.inl (List.mem_append.2 (Or.inr (List.mem_map.2 ⟨x, hx, rfl⟩))))
    have hty : (subPre P c ("unrolled_" ++ toString k)).ty? (N c pfx x k) = some "buf" := by
      rw [ty?, attr?_of_mem hnd hmem]
      have hc' : c.inputs.contains x = false := by
        cases hh : c.inputs.contains x with
        | false => rfl
        | true => exact absurd (List.contains_iff_mem.1 hh) hni
      show some (ioTy0 c stateIO x) = some "buf"
      unfold ioTy0
      rw [hc']
      simp
    apply connectAll_buf_set _ _ _ hca [U k x] (N c pfx x k) (U k x) ?_ (by simp) hty
    unfold subConns
    refine List.mem_map.2 ⟨(x, [N c pfx x k]), List.mem_map.2 ⟨x, hx, rfl⟩, ?_⟩
    have hc' : c.inputs.contains x = false := by
      cases hh : c.inputs.contains x with
      | false => rfl
      | true => exact absurd (List.contains_iff_mem.1 hh) hni
    simp only [hc', Bool.false_eq_true, if_false]
    rfl
  · intro x hx hi
    rw [F.fanin_parent hc (hasN x hx), fanin_congr_edges hPe, fanin_nil_of_not_has hQ (fresh x hx)]
    intro q hq hqi hm
    obtain ⟨y, hy, rfl⟩ := List.mem_map.1 hq
    simp only [List.mem_singleton] at hm
    exact hqi (inj x hx y hy hm ▸ hi)

end Unroll
end CG
