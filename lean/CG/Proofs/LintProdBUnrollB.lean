/- C20 (second half, unroll): one iteration, the whole loop, drivenness from the C09 invariant, and the result -/
import CG.Proofs.LintProdBUnrollA
set_option linter.unusedSimpArgs false
set_option linter.unusedVariables false
namespace CG
namespace LintProdB
open Circuit Unroll LintLink

section
variable {c : Circuit} {stateIO : List (Name × Name)} {pfx : String} {io : List Name}

/-- one iteration of `unroll` keeps the wiring discipline and dot-freeness -/
theorem stepK (C : Ctx c stateIO io) (hc : WS c) (hcN : NoDots c) (hpfx : hasDot pfx = false)
    (hioHas : ∀ x ∈ io, c.has x = true) {k : Nat} {s s' : Tx.UState} (I : Inv c stateIO pfx io k s)
    (hW : WS s.1) (hN : NoDots s.1) (h : Tx.unrollStep c io stateIO pfx s k = .ok s') :
    WS s'.1 ∧ NoDots s'.1 := by
  unfold Tx.unrollStep at h
  obtain ⟨s1, hA, h⟩ := Unroll.bind_ok h
  obtain ⟨P', hB, h⟩ := Unroll.bind_ok h
  obtain ⟨uc', hC, h⟩ := Unroll.bind_ok h
  injection h with h
  subst h
  obtain ⟨wfP, nodesP, edgesP, mapP⟩ := ioPhase io s s1 I.wf hA
  rw [I.map, ioPhase_map c pfx io C.ioNodup k] at mapP
  obtain ⟨hW1, hN1⟩ := ioPhase_K hpfx io s s1 (fun x hx => hcN.names x (hioHas x hx)) hW hN hA
  have hname : hasDot ("unrolled_" ++ toString k) = false := by nodot
  obtain ⟨hW2, hN2⟩ := subPhase_K hc hcN hname hW1 hN1 hB
  have hvals : ∀ p ∈ stateIO, p.2 ∈ io := fun p hp => C.ioIn _ (C.valsIn p hp)
  show WS uc' ∧ NoDots uc'
  cases k with
  | zero =>
    rw [if_pos (show ((0 : Nat) == 0) = true from rfl)] at hC
    have hconns : io.map (fun x => (x, [Tx.ioName s1.2 x 0])) = io.map (fun x => (x, [N c pfx x 0])) := by
      apply List.map_congr_left
      intro x hx
      rw [mapP, ioName_mapAt c pfx io 1 hx (Nat.lt_succ_self 0)]
    rw [hconns] at hB
    obtain ⟨_, _, _, _, _, _, freeB⟩ := subPhase C.wf I.wf wfP nodesP edgesP C.ioIn (Unroll.liftO_ok hB)
    refine setTypePhase_K (fun p => Tx.ioName s1.2 p.2 0) stateIO P' uc' hW2 hN2 ?_ hC
    intro p hp
    show P'.fanin (Tx.ioName s1.2 p.2 0) = []
    rw [mapP, ioName_mapAt c pfx io 1 (hvals p hp) (by omega)]
    exact freeB p.2 (hvals p hp) (C.valsIn p hp)
  | succ k =>
    rw [if_neg (by simp)] at hC
    exact connectPhase_K _ _ stateIO P' uc' hW2 hN2 hC

/-- the whole loop -/
theorem loopK (C : Ctx c stateIO io) (hc : WS c) (hcN : NoDots c) (hpfx : hasDot pfx = false)
    (hioHas : ∀ x ∈ io, c.has x = true) : ∀ (n : Nat) (s : Tx.UState),
    (List.range n).foldlM (Tx.unrollStep c io stateIO pfx) ({}, io.map (fun x => (x, []))) = .ok s →
    WS s.1 ∧ NoDots s.1
  | 0, s, h => by
    rw [List.range_zero] at h
    rw [foldlM_nil_ok _ _ _ h]
    exact ⟨(empty_Inv "circuit").1, noDots_empty "circuit"⟩
  | n + 1, s, h => by
    rw [List.range_succ, List.foldlM_append] at h
    obtain ⟨s1, h1, h2⟩ := Unroll.bind_ok h
    obtain ⟨s2, h3, h4⟩ := foldlM_cons_ok _ _ _ _ _ h2
    rw [foldlM_nil_ok _ _ _ h4]
    obtain ⟨a, b⟩ := loopK C hc hcN hpfx hioHas n s1 h1
    exact stepK C hc hcN hpfx hioHas (loop C n s1 h1) a b h3

/-- every gate of the unrolled circuit has a driver (read off the C09 loop invariant) -/
theorem driven_of_inv {n : Nat} {s : Tx.UState} (hc : LintClean c) (I : Inv c stateIO pfx io n s) :
    Arith.Driven s.1 := by
  intro m t ht hs
  have hnot : ¬ (("input" : String) ∈ singleTypes ∨ ("input" : String) ∈ multiTypes) := by decide
  have hhas := has_of_ty? ht
  obtain ⟨a, ha⟩ := has_exists hhas
  have hat : a.ty = some t := by
    have := attr?_of_mem I.wf.nodup ha
    unfold ty? at ht
    rw [this] at ht
    exact ht
  suffices hne : ∃ u, u ∈ s.1.fanin m by
    obtain ⟨u, hu⟩ := hne
    exact ⟨u, Circuit.mem_fanin.1 hu⟩
  rw [I.nodes] at ha
  obtain ⟨k, hk, ha⟩ := List.mem_flatMap.1 ha
  have hk := List.mem_range.1 hk
  unfold stepNodes at ha
  rcases List.mem_append.1 ha with ha | ha
  · obtain ⟨x, hx, e⟩ := List.mem_map.1 ha
    injection e with e1 e2
    subst e1
    subst e2
    have ht' : ioTy c stateIO x k = t := by
      have : some (ioTy c stateIO x k) = some t := hat
      injection this
    by_cases hv : isVal stateIO x = true
    · cases k with
      | zero =>
        exfalso
        apply hnot
        have : t = "input" := by
          rw [← ht']
          unfold ioTy
          rw [if_pos ⟨rfl, hv⟩]
        rw [← this]
        exact hs
      | succ k =>
        obtain ⟨p, hp, e⟩ := (isVal_iff _ _).1 hv
        subst e
        rw [I.faninVal k hk p hp]
        exact ⟨_, List.mem_singleton.2 rfl⟩
    · by_cases hi : x ∈ c.inputs
      · exfalso
        apply hnot
        have : t = "input" := by
          rw [← ht']
          unfold ioTy ioTy0
          have hv'' : isVal stateIO x = false := Bool.eq_false_iff.2 hv
          have hv' : stateIO.any (fun p => p.2 == x) = false := hv''
          rw [hv', hv'', List.contains_iff_mem.2 hi]
          simp
        rw [← this]
        exact hs
      · rw [I.faninOut k hk x hx hi]
        exact ⟨_, List.mem_singleton.2 rfl⟩
  · obtain ⟨p, hp, e⟩ := List.mem_map.1 ha
    injection e with e1 e2
    subst e1
    subst e2
    have hmi := mem_inputs_of_mem hc.nodup hp
    by_cases hi : p.1 ∈ c.inputs
    · rw [I.faninIn k hk p.1 hi]
      exact ⟨_, List.mem_singleton.2 rfl⟩
    · have hx : c.has p.1 = true := has_of_mem_nodes hp
      rw [I.faninCopy k hk p.1 hx hi]
      have hpt : p.2.ty ≠ some "input" := fun e => hi (hmi.2 e)
      have hty : c.ty? p.1 = some t := by
        unfold ty?
        rw [attr?_of_mem hc.nodup hp]
        have : (stripA p.2).ty = some t := hat
        unfold stripA at this
        simp only [if_neg hpt] at this
        exact this
      obtain ⟨u, hu⟩ := Arith.driven_of_lintClean hc p.1 t hty hs
      exact ⟨U k u, List.mem_map.2 ⟨u, Circuit.mem_fanin.2 hu, rfl⟩⟩

end

/-- a blackbox-free circuit whose dotted names are all registered has no dotted names -/
theorem noDots_of_registered {c : Circuit} (hb : c.bbs = []) (hr : DotsRegistered c) : NoDots c := by
  refine ⟨hb, fun g hg => ?_⟩
  cases hd : hasDot g with
  | false => rfl
  | true =>
    exfalso
    apply hr g ((has_iff_mem c g).1 hg) hd
    rw [hb]
    rfl

/-- the result of `unroll` on a lint-clean, blackbox-free, dot-free circuit is lint-clean and dot-free -/
theorem unroll_clean {c uc : Circuit} {n : Nat} {stateIO : List (Name × Name)} {pfx : String} {ord : Ord}
    (hord : OrdOK ord) (hc : LintClean c) (hcN : NoDots c) (hvalsIn : ∀ p ∈ stateIO, p.2 ∈ c.inputs)
    (hvalsNodup : (stateIO.map (·.2)).Nodup) (hpfx : hasDot pfx = false) {ioMap : List (Name × List Name)}
    (h : Tx.unroll c n stateIO pfx ord = .ok (uc, ioMap)) : LintClean uc ∧ NoDots uc := by
  obtain ⟨_, hmem, hloop⟩ := unroll_unfold h
  have C := ctx_of hord hc.toWF hvalsIn (fun p hp' => (hmem p hp').1) hvalsNodup
  have I := loop C n _ hloop
  have hioHas : ∀ x ∈ ord c.io, c.has x = true := by
    intro x hx
    rcases mem_union.1 ((hord c.io).mem_iff.1 hx) with h1 | h1
    · exact mem_inputs_has h1
    · exact mem_outputs_has h1
  obtain ⟨hW, hN⟩ := loopK C (Arith.WS_of_lintClean hc) hcN hpfx hioHas n _ hloop
  exact ⟨Arith.lintClean_of_WS hW (driven_of_inv hc I), hN⟩

end LintProdB
end CG
