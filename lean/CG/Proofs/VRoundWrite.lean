/- C03 helper: what the writer `toWModule` emits for a writable circuit -/
import CG.Proofs.VRoundDefs
import CG.Proofs.VRoundWriteD
namespace CG
namespace VR
open Verilog Circuit

/-- gate-primitive form: the writer succeeds; ports are the inputs/outputs; the statements are one named-port instance
    per registry entry (in registry order) followed by one statement per node that needs one -/
theorem write_spec (c : Circuit) (ord : Ord) (hord : OrdOK ord) (hc : Wr c) :
    ∃ wm bi gi L, toWModule c false ord = .ok wm ∧ wm.name = c.name ∧ wm.inputs.Perm c.inputs ∧
      wm.outputs.Perm c.outputs ∧ wm.stmts = bi ++ gi ∧ All2 (BBSpec c) c.bbs bi ∧
      All2 (GSpec c) L gi ∧ L.Nodup ∧ ∀ n, n ∈ L ↔ NeedsStmt c n := by
  obtain ⟨c2, bi, hbb, hall, h2⟩ := bbFold_spec hord hc
  have hnn : c2.nodeNames = c.nodeNames := nodeNames_congr h2.nodes
  obtain ⟨st', gi, hg, hst, hgall⟩ := gateFold_ok hord h2 (ord c2.nodeNames) (bi, [], bi.map (fun _ => false))
    (fun n hn => ty?_of_mem_nodeNames hc (hnn ▸ (hord _).mem_iff.1 hn))
  refine ⟨{ name := c2.name, inputs := ord c.inputs, outputs := ord c.outputs, wires := st'.2.1, stmts := st'.1,
            parens := st'.2.2 }, bi, gi, (ord c2.nodeNames).filter (needsB c2), ?_, h2.name, hord _, hord _, hst, hall,
          hgall, ?_, ?_⟩
  · rw [toWModule_eq, c1_eq ord hord hc, any_none hc]
    simp only [Bool.false_eq_true, if_false, pure_bind]
    rw [hbb, Arith.bind_ok, hg, Arith.bind_ok]
    rfl
  · apply nodup_filter
    rw [(hord _).nodup_iff, hnn]
    exact hc.clean.nodup
  · intro n
    rw [List.mem_filter, needsB_iff h2, (hord _).mem_iff, hnn]
    constructor
    · exact fun h => h.2
    · intro h
      obtain ⟨t, ht, _⟩ := h
      exact ⟨mem_nodeNames_of_ty? ht, t, ht, by assumption⟩

/-- either form: whenever the writer succeeds, the declarations are as expected -/
theorem write_decls' (c : Circuit) (beh : Bool) (ord : Ord) (hord : OrdOK ord) (hc : Wr c) (wm : WModule)
    (h : toWModule c beh ord = .ok wm) :
    wm.name = c.name ∧ wm.inputs.Perm c.inputs ∧ wm.outputs.Perm c.outputs ∧
    (∀ x, x ∈ wm.wires ↔ ∃ t, c.ty? x = some t ∧ t ∈ gateTypes ++ ["0", "1", "x"]) := by
  obtain ⟨c2, bi, hbb, _, h2⟩ := bbFold_spec hord hc
  have hnn : c2.nodeNames = c.nodeNames := nodeNames_congr h2.nodes
  rw [toWModule_eq, c1_eq ord hord hc, any_none hc] at h
  simp only [Bool.false_eq_true, if_false, pure_bind] at h
  rw [hbb, Arith.bind_ok] at h
  cases hg : (ord c2.nodeNames).foldlM (gateStep ord beh c2) (bi, [], bi.map (fun _ => false)) with
  | error e => simp only [hg] at h; exact absurd h (by intro h; cases h)
  | ok st =>
    simp only [hg] at h
    rw [Arith.bind_ok] at h
    have hw := gateFold_wires ord beh c2 _ _ _ hg
    injection h with h
    subst h
    refine ⟨h2.name, hord _, hord _, ?_⟩
    intro x
    simp only [hw, List.nil_append, List.mem_filter, (hord _).mem_iff, hnn, isWire_iff h2.nodes]
    constructor
    · exact fun h => h.2
    · intro h
      obtain ⟨t, ht, _⟩ := h
      exact ⟨mem_nodeNames_of_ty? ht, t, ht, by assumption⟩

end VR
end CG
