/- C15 (character level) helper: the character classes and the declarative meaning of the building blocks of the four
   patterns (literal words, runs of a class, identifiers, keyword alternatives) -/
import CG.Proofs.BenchTextPat
set_option linter.unusedSimpArgs false
namespace CG
namespace BenchText
open Regex

theorem le_iff (a b : Char) : a ≤ b ↔ a.toNat ≤ b.toNat := by
  rw [Char.le_def, UInt32.le_iff_toNat_le]; rfl
theorem eq_iff (a b : Char) : a = b ↔ a.toNat = b.toNat := by
  constructor
  · intro h; rw [h]
  · intro h; exact Char.ext (UInt32.toNat_inj.mp h)

theorem wsS_mem (x : Char) : wsS.mem x = true ↔
    (x.toNat = 32 ∨ (9 ≤ x.toNat ∧ x.toNat ≤ 13) ∨ (28 ≤ x.toNat ∧ x.toNat ≤ 31) ∨ x.toNat = 133 ∨ x.toNat = 160) := by
  simp only [CSet.mem, wsS, wsRanges, List.any_cons, List.any_nil, Bool.or_false, Bool.false_eq_true, if_false,
    Bool.or_eq_true, Bool.and_eq_true, decide_eq_true_eq, le_iff, Char.reduceToNat]
  omega
theorem idC_mem (x : Char) : idC.mem x = true ↔
    ((97 ≤ x.toNat ∧ x.toNat ≤ 122) ∨ (65 ≤ x.toNat ∧ x.toNat ≤ 90) ∨ (48 ≤ x.toNat ∧ x.toNat ≤ 57) ∨ x.toNat = 95) := by
  simp only [CSet.mem, idC, List.any_cons, List.any_nil, Bool.or_false, Bool.false_eq_true, if_false,
    Bool.or_eq_true, Bool.and_eq_true, decide_eq_true_eq, le_iff, Char.reduceToNat]
  omega
theorem idS_mem (x : Char) : idS.mem x = true ↔
    ((97 ≤ x.toNat ∧ x.toNat ≤ 122) ∨ (65 ≤ x.toNat ∧ x.toNat ≤ 90) ∨ x.toNat = 95) := by
  simp only [CSet.mem, idS, List.any_cons, List.any_nil, Bool.or_false, Bool.false_eq_true, if_false,
    Bool.or_eq_true, Bool.and_eq_true, decide_eq_true_eq, le_iff, Char.reduceToNat]
  omega
theorem nrp_mem (x : Char) : nrp.mem x = true ↔ x.toNat ≠ 41 := by
  simp only [CSet.mem, nrp, List.any_cons, List.any_nil, Bool.or_false, if_true, Bool.not_eq_true', Bool.and_eq_false_iff,
    Bool.or_eq_true, Bool.and_eq_true, decide_eq_true_eq, decide_eq_false_iff_not, le_iff, Char.reduceToNat]
  omega
theorem ch_mem (c x : Char) : CSet.mem { ranges := [(c, c)] } x = true ↔ x = c := by
  simp only [CSet.mem, List.any_cons, List.any_nil, Bool.or_false, Bool.false_eq_true, if_false,
    Bool.and_eq_true, decide_eq_true_eq, le_iff, eq_iff]
  omega
theorem isAlpha_iff (x : Char) : x.isAlpha = true ↔ (65 ≤ x.toNat ∧ x.toNat ≤ 90) ∨ (97 ≤ x.toNat ∧ x.toNat ≤ 122) := by
  simp only [Char.isAlpha, Char.isUpper, Char.isLower, Bool.or_eq_true, Bool.and_eq_true, decide_eq_true_eq,
    UInt32.le_iff_toNat_le, ge_iff_le]
  rfl
theorem isDigit_iff (x : Char) : x.isDigit = true ↔ (48 ≤ x.toNat ∧ x.toNat ≤ 57) := by
  simp only [Char.isDigit, Bool.and_eq_true, decide_eq_true_eq, UInt32.le_iff_toNat_le, ge_iff_le]
  rfl

/-! ### building blocks -/

theorem den_ch (ctx : Ctx) (c : Char) (s : List Char) (cp : Caps) (s' : List Char) (cp' : Caps) :
    Den ctx (ch c) s cp s' cp' ↔ s = c :: s' ∧ cp' = cp := by
  simp only [ch, Den, ch_mem]
  constructor
  · rintro ⟨x, rfl, rfl, rfl⟩; exact ⟨rfl, rfl⟩
  · rintro ⟨rfl, rfl⟩; exact ⟨c, rfl, rfl, rfl⟩

theorem den_lit (ctx : Ctx) : ∀ (w s : List Char) (cp : Caps) (s' : List Char) (cp' : Caps),
    Den ctx (lit w) s cp s' cp' ↔ s = w ++ s' ∧ cp' = cp
  | [], s, cp, s', cp' => by
    simp only [lit, Den, List.nil_append]
    constructor
    · rintro ⟨rfl, rfl⟩; exact ⟨rfl, rfl⟩
    · rintro ⟨rfl, rfl⟩; exact ⟨rfl, rfl⟩
  | [c], s, cp, s', cp' => by
    simp only [lit, den_ch, List.cons_append, List.nil_append]
  | c :: d :: w, s, cp, s', cp' => by
    simp only [lit, Den, den_ch, den_lit ctx (d :: w)]
    constructor
    · rintro ⟨s1, c1, ⟨rfl, rfl⟩, rfl, rfl⟩; exact ⟨rfl, rfl⟩
    · rintro ⟨rfl, rfl⟩; exact ⟨_, _, ⟨rfl, rfl⟩, rfl, rfl⟩

theorem iter_set (ctx : Ctx) (S : CSet) : ∀ (n : Nat) (s : List Char) (cp : Caps) (s' : List Char) (cp' : Caps),
    Iter (Den ctx (.set S)) n s cp s' cp' ↔
      ∃ w, w.length = n ∧ s = w ++ s' ∧ (∀ x ∈ w, S.mem x = true) ∧ cp' = cp
  | 0, s, cp, s', cp' => by
    simp only [Iter]
    constructor
    · rintro ⟨rfl, rfl⟩; exact ⟨[], rfl, rfl, by simp, rfl⟩
    · rintro ⟨w, hw, rfl, _, rfl⟩
      rw [List.length_eq_zero_iff.mp hw]
      exact ⟨rfl, rfl⟩
  | n + 1, s, cp, s', cp' => by
    simp only [Iter, iter_set ctx S n]
    constructor
    · rintro ⟨s1, c1, ⟨x, rfl, hx, rfl⟩, _, w, hw, rfl, hall, rfl⟩
      exact ⟨x :: w, by simp [hw], rfl, by simpa [hx] using hall, rfl⟩
    · rintro ⟨w, hw, rfl, hall, rfl⟩
      cases w with
      | nil => simp at hw
      | cons x w =>
        simp only [List.length_cons, Nat.add_right_cancel_iff] at hw
        refine ⟨w ++ s', _, ⟨x, rfl, hall x (by simp), rfl⟩, by simp, w, hw, rfl, ?_, rfl⟩
        intro y hy
        exact hall y (by simp [hy])

theorem den_star_set (ctx : Ctx) (S : CSet) (g : Bool) (s : List Char) (cp : Caps) (s' : List Char) (cp' : Caps) :
    Den ctx (.star (.set S) g) s cp s' cp' ↔ ∃ w, s = w ++ s' ∧ (∀ x ∈ w, S.mem x = true) ∧ cp' = cp := by
  show (∃ n, Iter (Den ctx (.set S)) n s cp s' cp') ↔ _
  simp only [iter_set]
  constructor
  · rintro ⟨n, w, _, h⟩; exact ⟨w, h⟩
  · rintro ⟨w, h⟩; exact ⟨w.length, w, rfl, h⟩

theorem den_ws (ctx : Ctx) (s : List Char) (cp : Caps) (s' : List Char) (cp' : Caps) :
    Den ctx ws s cp s' cp' ↔ ∃ w, s = w ++ s' ∧ (∀ x ∈ w, wsS.mem x = true) ∧ cp' = cp :=
  den_star_set ctx wsS true s cp s' cp'

theorem den_ident (ctx : Ctx) (s : List Char) (cp : Caps) (s' : List Char) (cp' : Caps) :
    Den ctx ident s cp s' cp' ↔
      ∃ x w, s = x :: (w ++ s') ∧ idS.mem x = true ∧ (∀ y ∈ w, idC.mem y = true) ∧ cp' = cp := by
  unfold ident
  show (∃ s1 c1, (∃ x, s = x :: s1 ∧ idS.mem x = true ∧ c1 = cp) ∧ ∃ n, Iter (Den ctx (.set idC)) n s1 c1 s' cp') ↔ _
  simp only [iter_set]
  constructor
  · rintro ⟨s1, c1, ⟨x, rfl, hx, rfl⟩, n, w, _, rfl, hall, rfl⟩
    exact ⟨x, w, rfl, hx, hall, rfl⟩
  · rintro ⟨x, w, rfl, hx, hall, rfl⟩
    exact ⟨w ++ s', _, ⟨x, rfl, hx, rfl⟩, w.length, w, rfl, rfl, hall, rfl⟩

theorem den_plus_set (ctx : Ctx) (S : CSet) (g : Bool) (s : List Char) (cp : Caps) (s' : List Char) (cp' : Caps) :
    Den ctx (.plus (.set S) g) s cp s' cp' ↔
      ∃ x w, s = x :: (w ++ s') ∧ S.mem x = true ∧ (∀ y ∈ w, S.mem y = true) ∧ cp' = cp := by
  show (∃ s1 c1, (∃ x, s = x :: s1 ∧ S.mem x = true ∧ c1 = cp) ∧ ∃ n, Iter (Den ctx (.set S)) n s1 c1 s' cp') ↔ _
  simp only [iter_set]
  constructor
  · rintro ⟨s1, c1, ⟨x, rfl, hx, rfl⟩, n, w, _, rfl, hall, rfl⟩
    exact ⟨x, w, rfl, hx, hall, rfl⟩
  · rintro ⟨x, w, rfl, hx, hall, rfl⟩
    exact ⟨w ++ s', _, ⟨x, rfl, hx, rfl⟩, w.length, w, rfl, rfl, hall, rfl⟩

theorem den_altL_lit (ctx : Ctx) : ∀ (kws : List (List Char)), kws ≠ [] → ∀ (s : List Char) (cp : Caps) (s' : List Char)
    (cp' : Caps), Den ctx (altL (kws.map lit)) s cp s' cp' ↔ ∃ kw ∈ kws, s = kw ++ s' ∧ cp' = cp
  | [], h, _, _, _, _ => absurd rfl h
  | [kw], _, s, cp, s', cp' => by
    simp only [List.map, altL, den_lit, List.mem_singleton, exists_eq_left]
  | kw :: kw' :: kws, _, s, cp, s', cp' => by
    have ih := den_altL_lit ctx (kw' :: kws) (by simp) s cp s' cp'
    simp only [List.map] at ih
    simp only [List.map, altL, Den, den_lit, ih]
    constructor
    · rintro (h | ⟨k, hk, h⟩)
      · exact ⟨kw, by simp, h⟩
      · exact ⟨k, List.mem_cons_of_mem _ hk, h⟩
    · rintro ⟨k, hk, h⟩
      rcases List.mem_cons.mp hk with rfl | hk
      · exact Or.inl h
      · exact Or.inr ⟨k, hk, h⟩

end BenchText
end CG
