/- C20 (second half) helper: `remove_unloaded` keeps a circuit lint-clean with a consistent registry; and the
   blackbox-free form of `RegistryOK` -/
import CG.Props.C20
import CG.Proofs.RemoveUnloaded
namespace CG
namespace LintProdA
open Circuit

/-- blackbox-free: a consistent registry is the absence of dotted names -/
theorem registryOK_nobb_iff (c : Circuit) (hb : c.bbs = []) : C20.RegistryOK c ↔ LintLink.NoDots c := by
  constructor
  · intro hr
    refine ⟨hb, fun g hg => ?_⟩
    cases hd : hasDot g with
    | false => rfl
    | true =>
      have := hr.1 g ((has_iff_mem c g).1 hg) hd
      rw [hb] at this
      exact absurd rfl this
  · exact C20.registryOK_of_noDots

/-- the hypotheses of the `remove_unloaded` development follow from lint-cleanness and acyclicity -/
theorem ruGood_of_clean {c : Circuit} (hc : LintClean c) (hacyc : Acyclic c) : RU.Good c where
  nodup := hc.nodup
  edgesNodup := hc.edgesNodup
  closed := hc.closed
  acyclic := hacyc
  noFaninOnSources := by
    intro e he
    have hmem : e.1 ∈ c.fanin e.2 := mem_fanin.mpr he
    refine ⟨fun h => ?_, fun h => ?_⟩
    · rw [hc.noFanin e.2 "input" h (by decide)] at hmem; cases hmem
    · rw [hc.noFanin e.2 "bb_output" h (by decide)] at hmem; cases hmem
  noBBInFanout := hc.noBBInFanout

section
variable {c : Circuit} {inputs : Bool} {L : Name → Prop} {c' : Circuit} {removed : List Name}

theorem restrict_ty_of_has (c : Circuit) (rem : List Name) {n : Name} (h : (RU.restrict c rem).has n = true) :
    (RU.restrict c rem).ty? n = c.ty? n :=
  RU.restrict_ty c rem n ((RU.restrict_has c rem n).1 h).2

theorem restrict_fanout_len (c : Circuit) (rem : List Name) (n : Name) :
    ((RU.restrict c rem).fanout n).length ≤ (c.fanout n).length := by
  unfold Circuit.fanout RU.restrict
  simp only [List.length_map]
  exact (List.Sublist.filter _ List.filter_sublist).length_le

/-- the result of a successful `remove_unloaded` call on a lint-clean acyclic circuit is lint-clean -/
theorem ru_clean (hc : LintClean c) (hg : RU.Good c) (hL : RU.IsLive c L) (hp : RU.Post c inputs L c' removed) :
    LintClean c' := by
  have hsurv := RU.survivors hg hL hp
  have hedge : ∀ e, e ∈ c'.edges → e ∈ c.edges ∧ c'.has e.1 = true ∧ c'.has e.2 = true := by
    intro e he
    rw [hp.eq] at he ⊢
    obtain ⟨a, b⟩ := e
    obtain ⟨h1, h2, h3⟩ := (RU.mem_restrict_edges c removed a b).1 he
    exact ⟨h1, (RU.restrict_has c removed a).2 ⟨(hc.closed _ h1).1, h2⟩,
      (RU.restrict_has c removed b).2 ⟨(hc.closed _ h1).2, h3⟩⟩
  have hty : ∀ n, c'.has n = true → c'.ty? n = c.ty? n := by
    intro n hn
    unfold Circuit.ty?
    rw [(hsurv n hn).1]
  have hty' : ∀ n t, c'.ty? n = some t → c.ty? n = some t ∧ c'.fanin n = c.fanin n := by
    intro n t h
    have hh := has_of_ty? h
    exact ⟨by rw [← hty n hh]; exact h, (hsurv n hh).2⟩
  refine ⟨⟨?_, ?_, fun e he => (hedge e he).2⟩, ?_, ?_, ?_, ?_, ?_, ?_⟩
  · rw [hp.eq]; exact RU.restrict_nodup hg removed
  · rw [hp.eq]; exact RU.restrict_edges_nodup c hg.edgesNodup removed
  · intro p hpm
    rw [hp.eq] at hpm
    exact hc.typed p ((RU.mem_restrict_nodes c removed p).1 hpm).1
  · intro n t h hs
    obtain ⟨h1, h2⟩ := hty' n t h
    rw [h2]; exact hc.noFanin n t h1 hs
  · intro n t h hs
    obtain ⟨h1, h2⟩ := hty' n t h
    rw [h2]; exact hc.single n t h1 hs
  · intro n t h hs
    obtain ⟨h1, h2⟩ := hty' n t h
    rw [h2]; exact hc.multi n t h1 hs
  · intro e he h
    obtain ⟨h1, h2, h3⟩ := hedge e he
    rw [hty _ h2] at h
    obtain ⟨k1, k2⟩ := hc.bbOut e h1 h
    refine ⟨by rw [hty _ h3]; exact k1, ?_⟩
    have := restrict_fanout_len c removed e.1
    rw [← hp.eq] at this
    omega
  · intro e he h
    obtain ⟨h1, h2, _⟩ := hedge e he
    rw [hty _ h2] at h
    exact hc.noBBInFanout e h1 h

/-- … and keeps a consistent registry, provided no blackbox output pin can be deleted -/
theorem ru_registry (hr : C20.RegistryOK c) (hin : inputs = false ∨ c.bbs = [])
    (hp : RU.Post c inputs L c' removed) : C20.RegistryOK c' := by
  have hbbs : c'.bbs = c.bbs := by rw [hp.eq]; rfl
  have hhas : ∀ n, c'.has n = true → c.has n = true := by
    intro n hn
    rw [hp.eq] at hn
    exact ((RU.restrict_has c removed n).1 hn).1
  refine ⟨?_, ?_⟩
  · intro g hg hd
    rw [hbbs]
    exact hr.1 g ((has_iff_mem c g).1 (hhas g ((has_iff_mem c' g).2 hg))) hd
  · intro p hpm hv
    rw [hbbs] at hpm
    rcases hin with hin | hin
    · -- pins are never deleted with `inputs = false`
      have hkeep : ∀ pin want, (want = "bb_input" ∨ want = "bb_output") →
          (c.attr? pin).bind (·.ty) = some want → (c'.attr? pin).bind (·.ty) = some want := by
        intro pin want hw h
        have hnr : pin ∉ removed := by
          intro hm
          obtain ⟨_, _, h1, h2⟩ := (hp.mem pin).1 hm
          have hty : c.ty? pin = some want := h
          rcases hw with rfl | rfl
          · exact h1 hty
          · rcases h2 with h2 | h2
            · rw [hin] at h2; cases h2
            · exact h2.2 hty
        rw [hp.eq, RU.restrict_attr c removed pin hnr]
        exact h
      apply hr.2 p hpm
      rcases hv with ⟨g, hg, hv⟩ | ⟨g, hg, hv⟩
      · exact Or.inl ⟨g, hg, fun h => hv (hkeep _ _ (Or.inl rfl) h)⟩
      · exact Or.inr ⟨g, hg, fun h => hv (hkeep _ _ (Or.inr rfl) h)⟩
    · rw [hin] at hpm; cases hpm

end

/-- **remove_unloaded produces lint-clean circuits.** -/
theorem remove_unloaded_clean (c c' : Circuit) (inputs : Bool) (ord : Ord) (hord : RU.OrdOK ord)
    (hc : LintClean c) (hr : C20.RegistryOK c) (hacyc : Acyclic c) (hin : inputs = false ∨ c.bbs = [])
    (removed : List Name) (h : c.removeUnloaded inputs ord = some (c', removed)) :
    LintClean c' ∧ C20.RegistryOK c' := by
  have hg := ruGood_of_clean hc hacyc
  have hL := RU.live_isLive c
  have hp := RU.post_of_eq hg hL hord h
  exact ⟨ru_clean hc hg hL hp, ru_registry hr hin hp⟩

end LintProdA
end CG
