/- C17 (super-circuit): machine-checked counterexamples to `C17.super_fill_equiv` as stated.
   (A) two supergates whose spliced node names `sg_<head>_<node>` coincide ("a"/"b_c" and "a_b"/"c"): the second
       `fill_blackbox` raises ValueError although `SuperNamesFree` holds and the heads are distinct;
   (B) a primary input named like a pin net `sg_<head>.<pin>` of the instance that `add_blackbox` creates: ValueError;
   (C) a primary input whose name starts with a digit cannot be re-added to the super-circuit: ValueError. -/
import CG.Props.C17Super
import CG.Proofs.Limit
set_option linter.unusedVariables false
namespace CG.SGSuperCex
open Supergates CG.C17

/-! ### generic helpers -/

instance {ε α} [DecidableEq ε] [DecidableEq α] : DecidableEq (Except ε α)
  | .ok a, .ok b => if h : a = b then isTrue (by rw [h]) else isFalse (fun e => h (by injection e))
  | .error a, .error b => if h : a = b then isTrue (by rw [h]) else isFalse (fun e => h (by injection e))
  | .ok _, .error _ => isFalse (fun e => by injection e)
  | .error _, .ok _ => isFalse (fun e => by injection e)

/-- the statement refuted: hypotheses of `super_fill_equiv` hold for `c`, `ord`, `c2`, its conclusion fails -/
def Refutes (c : Circuit) (ord : Ord) (c2 : Circuit) : Prop :=
  OrdOK ord ∧ LintClean c ∧ c.bbs = [] ∧ Acyclic c ∧
    (∀ n, 2 < (c.fanin n).length → Circuit.isDigit0 n = false) ∧ (∀ n, c.ty? n ≠ some "bb_output") ∧
    c.outputs.length = 1 ∧ Tx.limitFanin c 2 ord = .ok c2 ∧ C17.SuperNamesFree c2 ∧
    (algo c2 (ord c2.outputs)).headsDistinct = true ∧
    ¬ ∃ s m full, runSuper c ord = .ok (s, m) ∧ fillAll s m ord = .ok full ∧ C17.EquivIO c full

theorem ordOK_id : OrdOK id := fun l => List.Perm.refl l

theorem has_mem (c : Circuit) (n : Name) (h : c.has n = true) : n ∈ c.nodeNames := by
  unfold Circuit.has at h
  rw [List.any_eq_true] at h
  obtain ⟨p, hp, he⟩ := h
  rw [beq_iff_eq] at he
  exact he ▸ List.mem_map_of_mem hp

theorem fanin_small (c : Circuit) (hk : ∀ m ∈ c.edges.map (·.2), (c.fanin m).length ≤ 2) (n : Name) :
    ¬ 2 < (c.fanin n).length := by
  by_cases h : n ∈ c.edges.map (·.2)
  · exact Nat.not_lt.mpr (hk n h)
  · have : c.fanin n = [] := by
      unfold Circuit.fanin
      rw [List.map_eq_nil_iff, List.filter_eq_nil_iff]
      intro e he h2
      rw [beq_iff_eq] at h2
      exact h (h2 ▸ List.mem_map_of_mem he)
    rw [this]; decide

theorem lookup_mem {β} : ∀ (l : List (Name × β)) (n : Name) (a : β), l.lookup n = some a → (n, a) ∈ l
  | [], n, a, h => by simp [List.lookup] at h
  | (k, b) :: l, n, a, h => by
    rw [List.lookup_cons] at h
    by_cases hk : n == k
    · rw [hk] at h
      rw [beq_iff_eq] at hk
      injection h with h
      rw [hk, h]; exact List.mem_cons_self
    · have hk' : (n == k) = false := by simpa using hk
      rw [hk'] at h
      exact List.mem_cons_of_mem _ (lookup_mem l n a h)

theorem no_bbo (c : Circuit) (hk : ∀ p ∈ c.nodes, p.2.ty ≠ some "bb_output") (n : Name) :
    c.ty? n ≠ some "bb_output" := by
  intro h
  unfold Circuit.ty? Circuit.attr? at h
  cases hl : c.nodes.lookup n with
  | none => rw [hl] at h; simp at h
  | some a =>
    rw [hl] at h
    exact hk (n, a) (lookup_mem _ _ _ hl) h

theorem free_of_check (c : Circuit)
    (hk : ∀ h ∈ c.nodeNames, ∀ n ∈ c.nodeNames, c.has ("sg_" ++ h ++ "_" ++ n) = false) : C17.SuperNamesFree c :=
  fun h n hh hn => hk h (has_mem c h hh) n (has_mem c n hn)

theorem not_concl (c : Circuit) (ord : Ord)
    (hk : (runSuper c ord >>= fun r => fillAll r.1 r.2 ord) = .error .valueError) :
    ¬ ∃ s m full, runSuper c ord = .ok (s, m) ∧ fillAll s m ord = .ok full ∧ C17.EquivIO c full := by
  rintro ⟨s, m, full, h1, h2, _⟩
  rw [h1] at hk
  change fillAll s m ord = _ at hk
  rw [h2] at hk
  cases hk

/-! ### (A) prefix clash between two supergates -/

def cexA : Circuit :=
  { nodes := [("b_c", { ty := some "input", out := some false }), ("q", { ty := some "input", out := some false }),
              ("c", { ty := some "input", out := some false }), ("d", { ty := some "input", out := some false }),
              ("a", { ty := some "and", out := some false }), ("a_b", { ty := some "and", out := some false }),
              ("o", { ty := some "and", out := some true })],
    edges := [("b_c", "a"), ("q", "a"), ("c", "a_b"), ("d", "a_b"), ("a", "o"), ("a_b", "o")] }

theorem cexA_clean : LintClean cexA :=
  Limit.lintClean_of_checks cexA ⟨by decide, by decide, by decide⟩ (by decide) (by decide) (by decide)

theorem cexA_acyclic : Acyclic cexA := ⟨fun n => ["b_c", "q", "c", "d", "a", "a_b", "o"].idxOf n, by decide⟩

theorem cexA_limit : Tx.limitFanin cexA 2 id = .ok cexA := by decide +kernel

theorem cexA_free : C17.SuperNamesFree cexA := free_of_check cexA (by decide +kernel)

theorem cexA_heads : (algo cexA (id cexA.outputs)).headsDistinct = true := by decide +kernel

/-- the supergates found: heads `o`, `a`, `a_b`, all with an internal node, so three instances `sg_o`, `sg_a`, `sg_a_b` -/
theorem cexA_instances : (runSuper cexA id).toOption.map (fun r => r.2.map (·.1)) = some ["sg_o", "sg_a", "sg_a_b"] := by
  decide +kernel

/-- the call itself succeeds … -/
theorem cexA_run_ok : (runSuper cexA id).toOption.isSome = true := by decide +kernel

/-- … but filling the instances back in raises ValueError (`sg_a` + `_b_c` = `sg_a_b` + `_c`) -/
theorem cexA_fill_fails : (runSuper cexA id >>= fun r => fillAll r.1 r.2 id) = .error .valueError := by decide +kernel

/-- the failure is exactly the clash between `sg_a` and `sg_a_b`: each instance can be filled on its own (and `sg_o`, `sg_a`
    together, leaving a node `sg_a_b_c`), while `sg_a` and `sg_a_b` cannot both be filled, in either order -/
theorem cexA_diagnosis :
    (runSuper cexA id).toOption.map (fun r =>
      ((fillAll r.1 (r.2.take 1) id).toOption.isSome, (fillAll r.1 ((r.2.drop 1).take 1) id).toOption.isSome,
       (fillAll r.1 (r.2.drop 2) id).toOption.isSome,
       (fillAll r.1 (r.2.take 2) id).toOption.map (fun f => f.has "sg_a_b_c"))) = some (true, true, true, some true) ∧
    (runSuper cexA id >>= fun r => fillAll r.1 (r.2.drop 1) id) = .error .valueError ∧
    (runSuper cexA id >>= fun r => fillAll r.1 (r.2.drop 1).reverse id) = .error .valueError := by decide +kernel

theorem cexA_refutes' : Refutes cexA id cexA :=
  ⟨ordOK_id, cexA_clean, rfl, cexA_acyclic,
    fun n h => absurd h (fanin_small cexA (by decide) n), no_bbo cexA (by decide), by decide, cexA_limit, cexA_free,
    cexA_heads, not_concl cexA id cexA_fill_fails⟩

/-- all hypotheses of `C17.super_fill_equiv` hold, its conclusion fails -/
theorem cexA_refutes :
    ∃ (c : Circuit) (ord : Ord) (c2 : Circuit), OrdOK ord ∧ LintClean c ∧ c.bbs = [] ∧ Acyclic c ∧
      (∀ n, 2 < (c.fanin n).length → Circuit.isDigit0 n = false) ∧ (∀ n, c.ty? n ≠ some "bb_output") ∧
      c.outputs.length = 1 ∧ Tx.limitFanin c 2 ord = .ok c2 ∧ C17.SuperNamesFree c2 ∧
      (algo c2 (ord c2.outputs)).headsDistinct = true ∧
      ¬ ∃ s m full, runSuper c ord = .ok (s, m) ∧ fillAll s m ord = .ok full ∧ C17.EquivIO c full :=
  ⟨cexA, id, cexA, cexA_refutes'⟩

/-! ### (B) a net named like a pin of the instance `sg_o` -/

def cexB : Circuit :=
  { nodes := [("a", { ty := some "input", out := some false }), ("sg_o.a", { ty := some "input", out := some false }),
              ("o", { ty := some "and", out := some true })],
    edges := [("a", "o"), ("sg_o.a", "o")] }

theorem cexB_clean : LintClean cexB :=
  Limit.lintClean_of_checks cexB ⟨by decide, by decide, by decide⟩ (by decide) (by decide) (by decide)

theorem cexB_acyclic : Acyclic cexB := ⟨fun n => ["a", "sg_o.a", "o"].idxOf n, by decide⟩

theorem cexB_limit : Tx.limitFanin cexB 2 id = .ok cexB := by decide +kernel

theorem cexB_free : C17.SuperNamesFree cexB := free_of_check cexB (by decide +kernel)

theorem cexB_heads : (algo cexB (id cexB.outputs)).headsDistinct = true := by decide +kernel

/-- `add_blackbox` cannot create the pin net `sg_o.a`: the call raises ValueError -/
theorem cexB_run_fails : runSuper cexB id = .error .valueError := by decide +kernel

theorem cexB_refutes' : Refutes cexB id cexB :=
  ⟨ordOK_id, cexB_clean, rfl, cexB_acyclic,
    fun n h => absurd h (fanin_small cexB (by decide) n), no_bbo cexB (by decide), by decide, cexB_limit, cexB_free,
    cexB_heads, not_concl cexB id (by rw [cexB_run_fails]; rfl)⟩

theorem cexB_refutes :
    ∃ (c : Circuit) (ord : Ord) (c2 : Circuit), OrdOK ord ∧ LintClean c ∧ c.bbs = [] ∧ Acyclic c ∧
      (∀ n, 2 < (c.fanin n).length → Circuit.isDigit0 n = false) ∧ (∀ n, c.ty? n ≠ some "bb_output") ∧
      c.outputs.length = 1 ∧ Tx.limitFanin c 2 ord = .ok c2 ∧ C17.SuperNamesFree c2 ∧
      (algo c2 (ord c2.outputs)).headsDistinct = true ∧
      ¬ ∃ s m full, runSuper c ord = .ok (s, m) ∧ fillAll s m ord = .ok full ∧ C17.EquivIO c full :=
  ⟨cexB, id, cexB, cexB_refutes'⟩

/-! ### (C) a primary input whose name starts with a digit -/

def cexC : Circuit :=
  { nodes := [("1a", { ty := some "input", out := some false }), ("o", { ty := some "buf", out := some true })],
    edges := [("1a", "o")] }

theorem cexC_clean : LintClean cexC :=
  Limit.lintClean_of_checks cexC ⟨by decide, by decide, by decide⟩ (by decide) (by decide) (by decide)

theorem cexC_acyclic : Acyclic cexC := ⟨fun n => ["1a", "o"].idxOf n, by decide⟩

theorem cexC_limit : Tx.limitFanin cexC 2 id = .ok cexC := by decide +kernel

theorem cexC_free : C17.SuperNamesFree cexC := free_of_check cexC (by decide +kernel)

theorem cexC_heads : (algo cexC (id cexC.outputs)).headsDistinct = true := by decide +kernel

/-- the input `1a` cannot be added to the new circuit: the call raises ValueError -/
theorem cexC_run_fails : runSuper cexC id = .error .valueError := by decide +kernel

theorem cexC_refutes' : Refutes cexC id cexC :=
  ⟨ordOK_id, cexC_clean, rfl, cexC_acyclic,
    fun n h => absurd h (fanin_small cexC (by decide) n), no_bbo cexC (by decide), by decide, cexC_limit, cexC_free,
    cexC_heads, not_concl cexC id (by rw [cexC_run_fails]; rfl)⟩

theorem cexC_refutes :
    ∃ (c : Circuit) (ord : Ord) (c2 : Circuit), OrdOK ord ∧ LintClean c ∧ c.bbs = [] ∧ Acyclic c ∧
      (∀ n, 2 < (c.fanin n).length → Circuit.isDigit0 n = false) ∧ (∀ n, c.ty? n ≠ some "bb_output") ∧
      c.outputs.length = 1 ∧ Tx.limitFanin c 2 ord = .ok c2 ∧ C17.SuperNamesFree c2 ∧
      (algo c2 (ord c2.outputs)).headsDistinct = true ∧
      ¬ ∃ s m full, runSuper c ord = .ok (s, m) ∧ fillAll s m ord = .ok full ∧ C17.EquivIO c full :=
  ⟨cexC, id, cexC, cexC_refutes'⟩

/-- hence `C17.super_fill_equiv` is false as stated -/
theorem super_fill_equiv_false :
    ¬ ∀ (c : Circuit) (ord : Ord), OrdOK ord → LintClean c → c.bbs = [] → Acyclic c →
      (∀ n, 2 < (c.fanin n).length → Circuit.isDigit0 n = false) → (∀ n, c.ty? n ≠ some "bb_output") →
      c.outputs.length = 1 → ∀ c2 : Circuit, Tx.limitFanin c 2 ord = .ok c2 → C17.SuperNamesFree c2 →
      (algo c2 (ord c2.outputs)).headsDistinct = true →
      ∃ s m full, runSuper c ord = .ok (s, m) ∧ fillAll s m ord = .ok full ∧ C17.EquivIO c full := by
  intro h
  obtain ⟨h1, h2, h3, h4, h5, h6, h7, h8, h9, h10, h11⟩ := cexA_refutes'
  exact h11 (h cexA id h1 h2 h3 h4 h5 h6 h7 cexA h8 h9 h10)

#print axioms cexA_refutes
#print axioms cexB_refutes
#print axioms cexC_refutes
#print axioms super_fill_equiv_false

end CG.SGSuperCex
