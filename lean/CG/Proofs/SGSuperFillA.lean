/- C17 (super-circuit) helpers, part 3a: facts about one supergate circuit (from `SGOk`) and about the names of the
   construction (from `NamesOK`) needed by the fill step. -/
import CG.Proofs.SGSuperDefs
import CG.Proofs.SGAlgoPerSG
import CG.Proofs.ComposeFill
set_option linter.unusedSectionVars false
set_option linter.unusedVariables false
set_option linter.unusedSimpArgs false
namespace CG
namespace SGSuper
open Supergates SGA Circuit

/-! ### names -/

theorem inst_inj {h h' : Name} (e : inst h = inst h') : h = h' := by
  unfold inst at e
  exact (String.append_right_inj _).1 e

theorem heads_ne_right {K1 K2 : List (Found × Circuit)} {p : Found × Circuit}
    (hnd : ((K1 ++ p :: K2).map (·.1.head)).Nodup) : ∀ q ∈ K2, q.1.head ≠ p.1.head := by
  intro q hq e
  rw [List.map_append, List.map_cons] at hnd
  have h2 := (List.nodup_append.mp hnd).2.1
  have h3 := (List.nodup_cons.mp h2).1
  exact h3 (e ▸ List.mem_map.mpr ⟨q, hq, rfl⟩)

theorem heads_ne_left {K1 K2 : List (Found × Circuit)} {p : Found × Circuit}
    (hnd : ((K1 ++ p :: K2).map (·.1.head)).Nodup) : ∀ q ∈ K1, q.1.head ≠ p.1.head := by
  intro q hq e
  rw [List.map_append, List.map_cons] at hnd
  have h2 := (List.nodup_append.mp hnd).2.2
  exact h2 _ (List.mem_map.mpr ⟨q, hq, rfl⟩) _ List.mem_cons_self e

/-! ### one supergate circuit -/

section one
variable {c2 : Circuit} {p : Found × Circuit}

theorem SGOk.bbs_nil (H : SGOk c2 p) : p.2.bbs = [] := by
  rw [H.eq]; rfl

theorem SGOk.nodeNames_eq (H : SGOk c2 p) : p.2.nodeNames = p.1.nodes := by
  rw [H.eq]; exact sg_nodeNames _ _ _ _

theorem SGOk.has_iff (H : SGOk c2 p) (n : Name) : p.2.has n = true ↔ n ∈ p.1.nodes := by
  rw [Circuit.has_iff_mem, H.nodeNames_eq]

theorem SGOk.wf (H : SGOk c2 p) : WF p.2 := by
  refine ⟨?_, ?_, ?_⟩
  · rw [H.nodeNames_eq]; exact H.ctx.nd
  · rw [H.eq, sgCircuit_edges]
    exact List.Nodup.sublist List.filter_sublist H.ctx.wf.edgesNodup
  · intro e he
    rw [H.has_iff, H.has_iff]
    rw [H.eq, sgCircuit_edges, List.mem_filter, Bool.and_eq_true, List.contains_iff_mem, List.contains_iff_mem] at he
    exact he.2

theorem SGOk.full (H : SGOk c2 p) : C06.FullAttrs p.2 := by
  intro q hq
  rw [H.eq, sgCircuit_nodes] at hq
  obtain ⟨n, _, rfl⟩ := List.mem_map.mp hq
  exact ⟨rfl, rfl⟩

theorem SGOk.typed (H : SGOk c2 p) : p.2.nodes.any (fun q => q.2.ty.isNone) = false := by
  rw [List.any_eq_false]
  intro q hq
  have := (H.full q hq).1
  cases hty : q.2.ty with
  | none => rw [hty] at this; cases this
  | some t => simp

theorem SGOk.outputs_eq (H : SGOk c2 p) : p.2.outputs = [p.1.head] := by
  rw [H.eq]; exact H.ctx.outputs_eq

theorem SGOk.node_c2 (H : SGOk c2 p) {n : Name} (hn : p.2.has n = true) : c2.has n = true :=
  has_of_cone c2 H.ctx.wf H.ctx.root (H.ctx.mem_cone ((H.has_iff n).mp hn))

theorem SGOk.input_has (H : SGOk c2 p) {i : Name} (hi : i ∈ p.2.inputs) : p.2.has i = true :=
  mem_inputs_has hi

theorem SGOk.input_c2 (H : SGOk c2 p) {i : Name} (hi : i ∈ p.2.inputs) : c2.has i = true :=
  H.node_c2 (H.input_has hi)

theorem SGOk.head_has (H : SGOk c2 p) : p.2.has p.1.head = true :=
  (H.has_iff _).mpr H.ctx.head_mem

theorem SGOk.head_c2 (H : SGOk c2 p) : c2.has p.1.head = true :=
  H.node_c2 H.head_has

/-- a pin name of the instance is a pin of a `c2` node -/
theorem SGOk.pinname_c2 (H : SGOk c2 p) {g : Name} (hg : g ∈ (bbOf p).outs ++ (bbOf p).ins) : c2.has g = true := by
  rcases List.mem_append.mp hg with h | h
  · have : g = p.1.head := by simpa [bbOf] using h
    rw [this]; exact H.head_c2
  · exact H.input_c2 h

theorem SGOk.edge_c2 (H : SGOk c2 p) {e : Name × Name} (he : e ∈ p.2.edges) : c2.has e.1 = true ∧ c2.has e.2 = true :=
  ⟨H.node_c2 (H.wf.closed e he).1, H.node_c2 (H.wf.closed e he).2⟩

end one

theorem isNet_c2 {c2 : Circuit} {K : List (Found × Circuit)} (hok : ∀ q ∈ K, SGOk c2 q) {x : Name}
    (hx : IsNet c2 K x) : c2.has x = true := by
  rcases hx with h | h | ⟨q, hq, h | h⟩
  · exact mem_inputs_has h
  · exact mem_outputs_has h
  · exact (hok q hq).input_c2 h
  · rw [h]; exact (hok q hq).head_c2

theorem isNet_congr {c2 : Circuit} {K K' : List (Found × Circuit)} (hm : ∀ q, q ∈ K ↔ q ∈ K') (x : Name) :
    IsNet c2 K x ↔ IsNet c2 K' x := by
  unfold IsNet
  constructor
  · rintro (h | h | ⟨q, hq, h⟩)
    · exact Or.inl h
    · exact Or.inr (Or.inl h)
    · exact Or.inr (Or.inr ⟨q, (hm q).mp hq, h⟩)
  · rintro (h | h | ⟨q, hq, h⟩)
    · exact Or.inl h
    · exact Or.inr (Or.inl h)
    · exact Or.inr (Or.inr ⟨q, (hm q).mpr hq, h⟩)

theorem mem_shift {α} (K1 K2 : List α) (p q : α) : q ∈ K1 ++ p :: K2 ↔ q ∈ (K1 ++ [p]) ++ K2 := by
  rw [List.append_assoc]; rfl

/-! ### which names of the super-circuit are pins of the instance being filled -/

/-- `x` is not a pin of the instance of `p` -/
def NotPin (p : Found × Circuit) (x : Name) : Prop :=
  ∀ g ∈ (bbOf p).outs ++ (bbOf p).ins, x ≠ inst p.1.head ++ "." ++ g

section pins
variable {c2 : Circuit} {p : Found × Circuit}

theorem notPin_net (hN : NamesOK c2) (H : SGOk c2 p) {x : Name} (hx : c2.has x = true) : NotPin p x := by
  intro g hg e
  have := hN.pinFree p.1.head g H.head_c2 (H.pinname_c2 hg)
  rw [pin_eq, ← e, hx] at this
  cases this

theorem notPin_pre (hN : NamesOK c2) (H : SGOk c2 p) {a b : Name} (ha : c2.has a = true) (hb : c2.has b = true) :
    NotPin p (pre a b) := by
  intro g hg e
  exact hN.prePin a b p.1.head g ha hb H.head_c2 (H.pinname_c2 hg) e

theorem notPin_pin (hN : NamesOK c2) (H : SGOk c2 p) {a b : Name} (ha : c2.has a = true) (hb : c2.has b = true)
    (hne : a ≠ p.1.head) : NotPin p (pin a b) := by
  intro g hg e
  exact hne (hN.pinInj a b p.1.head g ha hb H.head_c2 (H.pinname_c2 hg) e).1

theorem ren_notPin {x : Name} (h : NotPin p x) : C06.renPin (inst p.1.head) (bbOf p) x = x :=
  renP_other (inst p.1.head) (bbOf p) h

theorem ren_pin {g : Name} (hg : g ∈ (bbOf p).outs ++ (bbOf p).ins) :
    C06.renPin (inst p.1.head) (bbOf p) (pin p.1.head g) = pre p.1.head g :=
  renP_pin (inst p.1.head) (bbOf p) hg

theorem head_pinname : p.1.head ∈ (bbOf p).outs ++ (bbOf p).ins :=
  List.mem_append.mpr (Or.inl (by simp [bbOf]))

theorem input_pinname {i : Name} (hi : i ∈ p.2.inputs) : i ∈ (bbOf p).outs ++ (bbOf p).ins :=
  List.mem_append.mpr (Or.inr hi)

theorem pinname_iff (g : Name) : g ∈ (bbOf p).outs ++ (bbOf p).ins ↔ g ∈ p.2.inputs ++ [p.1.head] := by
  rw [List.mem_append, List.mem_append]
  simp only [bbOf, List.mem_singleton]
  exact Or.comm

end pins

end SGSuper
end CG
