/- C14 (text level, module extraction) helper: the emitted text without its final newline (what the module-extraction
   regular expression returns) lexes to the same tokens as the emitted text -/
import CG.Proofs.VText
namespace CG
namespace VMT
open Verilog VX

/-- the emitted text up to the closing `endmodule` -/
def renderPre (m : WModule) : String :=
  "module " ++ m.name ++ " (" ++ ", ".intercalate (m.inputs ++ m.outputs) ++ ");\n" ++
    String.join (m.inputs.map (fun i => "  input " ++ i ++ ";\n")) ++ "\n" ++
    String.join (m.outputs.map (fun o => "  output " ++ o ++ ";\n")) ++ "\n" ++
    String.join (m.wires.map (fun w => "  wire " ++ w ++ ";\n")) ++ "\n" ++
    String.join ((m.stmts.zip (m.parens ++ List.replicate m.stmts.length false)).map
      (fun i => "  " ++ renderStmt i.2 i.1 ++ ";\n"))

theorem render_eq_pre (m : WModule) : render m = renderPre m ++ "endmodule\n" := rfl

/-- the tokens of the emitted text, whatever follows the closing keyword (as long as it lexes to nothing) -/
theorem pre_lexes (wm : WModule) (h : WOK wm) :
    ∃ toks, ∀ tl, Lexes ("endmodule".toList ++ tl) [Tok.kw "endmodule"] →
      Lexes ((renderPre wm).toList ++ ("endmodule".toList ++ tl)) toks := by
  obtain ⟨t1, l1, _⟩ := lines_split (All2.map (fun i => ("  input " ++ i ++ ";\n").toList) (fun i => Item.input [i])
    wm.inputs (fun i hi => line_input (h.inputs i hi)))
  obtain ⟨t2, l2, _⟩ := lines_split (All2.map (fun i => ("  output " ++ i ++ ";\n").toList) (fun i => Item.output [i])
    wm.outputs (fun i hi => line_output (h.outputs i hi)))
  obtain ⟨t3, l3, _⟩ := lines_split (All2.map (fun i => ("  wire " ++ i ++ ";\n").toList) (fun i => Item.wire [i])
    wm.wires (fun i hi => line_wire (h.wires i hi)))
  obtain ⟨t4, l4, _⟩ := lines_split (stmt_lines (List.replicate wm.stmts.length false) h.stmts)
  have L1 := lexCP_flatten l1
  have L2 := lexCP_flatten l2
  have L3 := lexCP_flatten l3
  have L4 := lexCP_flatten l4
  have hports : ∀ n ∈ wm.inputs ++ wm.outputs, Ident n := by
    intro n hn
    rcases List.mem_append.1 hn with hn | hn
    · exact h.inputs n hn
    · exact h.outputs n hn
  have LP := lex_commas (All2.map String.toList (fun n => [Tok.id n]) (wm.inputs ++ wm.outputs)
    (fun n hn => lexCPb_ident (hports n hn)))
  let ptoks := commas ((wm.inputs ++ wm.outputs).map (fun n => [Tok.id n]))
  let body := (t1 ++ t2 ++ t3 ++ t4).flatten
  refine ⟨Tok.kw "module" :: Tok.id wm.name :: Tok.sym "(" :: (ptoks ++ Tok.sym ")" :: Tok.sym ";" ::
    (body ++ [Tok.kw "endmodule"])), fun tl hend => ?_⟩
  have e1 : "module ".toList = "module".toList ++ [' '] := by decide
  have e2 : " (".toList = [' ', '('] := by decide
  have e3 : ");\n".toList = [')', ';', '\n'] := by decide
  have e4 : "\n".toList = ['\n'] := by decide
  have hbody : Lexes ((wm.inputs.map (fun i => ("  input " ++ i ++ ";\n").toList)).flatten ++ '\n' ::
      ((wm.outputs.map (fun i => ("  output " ++ i ++ ";\n").toList)).flatten ++ '\n' ::
      ((wm.wires.map (fun i => ("  wire " ++ i ++ ";\n").toList)).flatten ++ '\n' ::
      (((wm.stmts.zip (wm.parens ++ List.replicate wm.stmts.length false)).map
        (fun i => ("  " ++ renderStmt i.2 i.1 ++ ";\n").toList)).flatten ++ ("endmodule".toList ++ tl)))))
      (body ++ [Tok.kw "endmodule"]) := by
    have := L1 _ _ (Lexes.nl (L2 _ _ (Lexes.nl (L3 _ _ (Lexes.nl (L4 _ _ hend))))))
    simpa [body, List.flatten_append, List.append_assoc] using this
  unfold renderPre
  simp only [String.toList_append, List.append_assoc] at hbody
  simp only [String.toList_append, String.toList_intercalate, join_toList, e1, e2, e3, e4, List.cons_append,
    List.nil_append, List.append_assoc]
  exact Lexes.kw (by decide) (brk_sp _) (Lexes.sp (Lexes.ident h.name (brk_sp _) (Lexes.sp (Lexes.lparen
    (LP _ _ (brk_rparen _) (Lexes.rparen (Lexes.semi (Lexes.nl hbody))))))))

/-- the emitted text and the emitted text without its final newline lex to the same tokens -/
theorem lex_dropLast (wm : WModule) (h : WOK wm) :
    ∃ toks, lex (render wm) = some toks ∧ lex (String.ofList (render wm).toList.dropLast) = some toks := by
  obtain ⟨toks, ht⟩ := pre_lexes wm h
  have hA := ht ['\n'] (Lexes.kw (by decide) (brk_nl _) (Lexes.nl Lexes.nil))
  have hB := ht [] (by simpa using Lexes.kw (s := "endmodule") (by decide) (rest := []) trivial Lexes.nil)
  have e5 : "endmodule\n".toList = "endmodule".toList ++ ['\n'] := by decide
  have eA : (render wm).toList = (renderPre wm).toList ++ ("endmodule".toList ++ ['\n']) := by
    rw [render_eq_pre, String.toList_append, e5]
  have eB : (render wm).toList.dropLast = (renderPre wm).toList ++ ("endmodule".toList ++ []) := by
    rw [eA, ← List.append_assoc, List.dropLast_concat, List.append_nil]
  refine ⟨toks, lex_of_lexes (by rw [eA]; exact hA), lex_of_lexes (by rw [String.toList_ofList, eB]; exact hB)⟩

end VMT
end CG
