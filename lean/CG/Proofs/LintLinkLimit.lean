/-
  CG.Proofs.LintLinkLimit — the nodes added by `limit_fanin` / `limit_fanout` are named `<old>_limit_fanin_<i>[_<j>]`
  resp. `<old>_limit_fanout_<i>[_<j>]`: they are dotted exactly when `<old>` is and then have the same text before the
  first dot; the blackbox registry is not touched.  Partial-correctness statements about the model functions (no
  hypothesis on the circuit), to be combined with `C05.limit_fanin_spec` / `limit_fanout_spec`.
-/
import CG.Proofs.LintLinkOps
namespace CG
namespace LintLink
open Circuit

/-- `c'` keeps the registry and the nodes of `c`, and every node of `c'` has the dots of some node of `c` -/
structure DotExt (c c' : Circuit) : Prop where
  bbs : c'.bbs = c.bbs
  mono : ∀ m, c.has m = true → c'.has m = true
  dots : ∀ m, c'.has m = true →
    ∃ n, c.has n = true ∧ hasDot m = hasDot n ∧ (hasDot n = true → dotPrefix m = dotPrefix n)

theorem DotExt.refl (c : Circuit) : DotExt c c :=
  ⟨rfl, fun _ h => h, fun m h => ⟨m, h, rfl, fun _ => rfl⟩⟩

theorem DotExt.trans {c1 c2 c3 : Circuit} (h12 : DotExt c1 c2) (h23 : DotExt c2 c3) : DotExt c1 c3 where
  bbs := h23.bbs.trans h12.bbs
  mono := fun m hm => h23.mono m (h12.mono m hm)
  dots := fun m hm => by
    obtain ⟨n2, hn2, e2, p2⟩ := h23.dots m hm
    obtain ⟨n1, hn1, e1, p1⟩ := h12.dots n2 hn2
    exact ⟨n1, hn1, e2.trans e1, fun hd => (p2 (e1.trans hd)).trans (p1 hd)⟩

/-- the first clause of `RegistryOK` survives such an extension -/
theorem DotExt.registered {c c' : Circuit} (h : DotExt c c') (hr : DotsRegistered c) : DotsRegistered c' := by
  intro g hg hd
  obtain ⟨n, hn, e, p⟩ := h.dots g ((has_iff_mem c' g).2 hg)
  rw [h.bbs, p (e.symm.trans hd)]
  exact hr n ((has_iff_mem c n).1 hn) (e.symm.trans hd)

/-- dots of `n ++ s ++ i` and of its `uid` variants, for a dot-free separator `s` -/
theorem suffix_dots (n s : Name) (i : Nat) (hs : hasDot s = false) (m : Name)
    (hm : m = n ++ s ++ toString i ∨ ∃ j, m = uidName (n ++ s ++ toString i) j) :
    hasDot m = hasDot n ∧ (hasDot n = true → dotPrefix m = dotPrefix n) := by
  have hb : hasDot (n ++ s ++ toString i) = hasDot n := by
    rw [hasDot_append, hasDot_append, hs, hasDot_toString, Bool.or_false, Bool.or_false]
  have hp : hasDot n = true → dotPrefix (n ++ s ++ toString i) = dotPrefix n := by
    intro hd
    rw [String.append_assoc]
    exact dotPrefix_append _ _ hd
  rcases hm with rfl | ⟨j, rfl⟩
  · exact ⟨hb, hp⟩
  · refine ⟨(hasDot_uidName _ j).trans hb, fun hd => ?_⟩
    rw [dotPrefix_uidName _ j (hb.trans hd)]
    exact hp hd

/-- one `add(..., uid=True)` of a node named after the existing node `n` -/
theorem add_suffix_dotExt (ck ck1 : Circuit) (n s : Name) (i : Nat) (hs : hasDot s = false) (a : AddArgs)
    (han : a.n = n ++ s ++ toString i) (hac : a.addConnected = false)
    (hbbs : ck1.bbs = ck.bbs) (hhas : ∀ m, ck1.has m = ck.has m) (hn : ck.has n = true) :
    DotExt ck (ck1.add a).1 := by
  obtain ⟨f1, f2, f3⟩ := add_frame ck1 a hac
  refine ⟨f1.trans hbbs, fun m hm => f2 m ((hhas m).trans hm), fun m hm => ?_⟩
  rcases f3 m hm with h | h | ⟨_, j, h⟩
  · exact ⟨m, (hhas m).symm.trans h, rfl, fun _ => rfl⟩
  · obtain ⟨e, p⟩ := suffix_dots n s i hs m (Or.inl (h.trans han))
    exact ⟨n, hn, e, p⟩
  · obtain ⟨e, p⟩ := suffix_dots n s i hs m (Or.inr ⟨j, by rw [h, han]⟩)
    exact ⟨n, hn, e, p⟩

/-! ### limit_fanin -/

theorem limitFaninNode_dotExt (k : Nat) (ord : Ord) (n : Name) :
    ∀ (fuel i : Nat) (ck ck' : Circuit), ck.has n = true → Tx.limitFaninNode k ord n fuel i ck = .ok ck' → DotExt ck ck'
  | 0, _, _, _, _, h => by
    unfold Tx.limitFaninNode at h
    cases h
  | fuel + 1, i, ck, ck', hn, h => by
    unfold Tx.limitFaninNode at h
    split at h
    · split at h
      · simp only [] at h
        split at h
        · cases h
        · split at h
          · cases h
          · split at h
            · cases h
            · rename_i f0 f1 _ _ t _ gt _ ck2 r hadd
              have hstep : DotExt ck ck2 := by
                rw [addE_fst hadd]
                exact add_suffix_dotExt ck _ n "_limit_fanin_" i (by decide) _ rfl rfl rfl (fun _ => rfl) hn
              exact hstep.trans (limitFaninNode_dotExt k ord n fuel (i + 1) ck2 ck' (hstep.mono n hn) h)
      · cases h
    · injection h with h
      subst h
      exact DotExt.refl ck

theorem foldlM_dotExt (f : Circuit → Name → E Circuit)
    (hf : ∀ ck n ck', ck.has n = true → f ck n = .ok ck' → DotExt ck ck') (c : Circuit) :
    ∀ (L : List Name) (ck c' : Circuit), (∀ n ∈ L, c.has n = true) → DotExt c ck →
      L.foldlM f ck = .ok c' → DotExt c c'
  | [], ck, c', _, hrel, h => by
    injection h with h
    subst h
    exact hrel
  | n :: L, ck, c', hL, hrel, h => by
    rw [List.foldlM_cons] at h
    cases hx : f ck n with
    | error e => rw [hx] at h; cases h
    | ok ck1 =>
      rw [hx] at h
      have h1 := hf ck n ck1 (hrel.mono n (hL n (by simp))) hx
      exact foldlM_dotExt f hf c L ck1 c' (fun m hm => hL m (by simp [hm])) (hrel.trans h1) h

theorem limitFanin_dotExt (c c' : Circuit) (k : Nat) (ord : Ord) (hord : OrdOK ord)
    (h : Tx.limitFanin c k ord = .ok c') : DotExt c c' := by
  unfold Tx.limitFanin at h
  split at h
  · cases h
  · exact foldlM_dotExt _ (fun ck n ck' hn hr => limitFaninNode_dotExt k ord n _ 0 ck ck' hn hr) c
      (ord c.nodeNames) c c'
      (fun n hn => (has_iff_mem c n).2 ((hord c.nodeNames).mem_iff.mp hn)) (DotExt.refl c) h

/-! ### limit_fanout -/

theorem limitFanoutNode_dotExt (k : Nat) (ord : Ord) (n : Name) :
    ∀ (fuel i : Nat) (ck ck' : Circuit), ck.has n = true → Tx.limitFanoutNode k ord n fuel i ck = .ok ck' → DotExt ck ck'
  | 0, _, _, _, _, h => by
    unfold Tx.limitFanoutNode at h
    cases h
  | fuel + 1, i, ck, ck', hn, h => by
    unfold Tx.limitFanoutNode at h
    split at h
    · split at h
      · simp only [] at h
        split at h
        · cases h
        · rename_i f0 f1 _ _ ck2 r hadd
          have hstep : DotExt ck ck2 := by
            rw [addE_fst hadd]
            exact add_suffix_dotExt ck _ n "_limit_fanout_" i (by decide) _ rfl rfl rfl (fun _ => rfl) hn
          exact hstep.trans (limitFanoutNode_dotExt k ord n fuel (i + 1) ck2 ck' (hstep.mono n hn) h)
      · cases h
    · injection h with h
      subst h
      exact DotExt.refl ck

theorem limitFanout_dotExt (c c' : Circuit) (k : Nat) (ord : Ord) (hord : OrdOK ord)
    (h : Tx.limitFanout c k ord = .ok c') : DotExt c c' := by
  unfold Tx.limitFanout at h
  split at h
  · cases h
  · exact foldlM_dotExt _ (fun ck n ck' hn hr => limitFanoutNode_dotExt k ord n _ 0 ck ck' hn hr) c
      (ord c.nodeNames) c c'
      (fun n hn => (has_iff_mem c n).2 ((hord c.nodeNames).mem_iff.mp hn)) (DotExt.refl c) h

end LintLink
end CG
