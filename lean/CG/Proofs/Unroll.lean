/- helper lemmas for C09 (unroll): entry point.
   UnrollBase   `Except` plumbing, the single operations read off a successful call, names
   UnrollIO     phase A of an iteration (per-step io nodes)
   UnrollSub    phase B (the spliced copy)
   UnrollLink   phase C (step 0: state inputs become inputs; later steps: state wiring)
   UnrollInv    the loop invariant
   UnrollStep   one iteration preserves the invariant
   UnrollLoop   the whole loop, unfolding of a successful call
   UnrollSem    soundness from the invariant
   UnrollMap    io map, free inputs and outputs
   UnrollComplete  every linked execution is realised
   UnrollSeq    sequential_unroll: the attribute folds after `unroll` -/
import CG.Tx
import CG.Tx3
import CG.Spec
import CG.Props.C06
import CG.Proofs.UnrollMap
import CG.Proofs.UnrollComplete
import CG.Proofs.UnrollSeq
import CG.Proofs.Limit
namespace CG
end CG
