/- C17 (super-circuit), semantic half, part A: generic lemmas (step-wise existence of valuations of acyclic circuits,
   gate functions on fan-in lists known up to permutation) and the per-supergate facts read off `SGFacts`. -/
import CG.Proofs.SGSuperDefs
import CG.Proofs.SGAlgoPerSG
import CG.Proofs.SensPop
import CG.Proofs.ApiSub
import CG.Proofs.ComposeView
set_option linter.unusedSectionVars false
set_option linter.unusedVariables false
set_option linter.unusedSimpArgs false
namespace CG
namespace SGSuper
open Supergates SGA

/-! ### generic -/

/-- an acyclic circuit has a valuation in which every node takes the value of its gate function, and the value
    `free n` whenever the gate function does not constrain it (stronger than `SensPop.exists_of_acyclic`: also the
    nodes typed "x" get the chosen value) -/
theorem exists_step {c : Circuit} (hwf : WF c) (hac : Acyclic c) (free : Val) :
    ∃ w : Val, ∀ n, c.has n = true → w n = Tseitin.stepVal c free w n := by
  have hnc : Query.isCyclic c = false := by
    cases h : Query.isCyclic c with
    | false => rfl
    | true =>
      obtain ⟨n, hn⟩ := (Q.isCyclic_iff c hwf).1 h
      exact absurd hn (Q.no_cycle_of_acyclic c hac n)
  obtain ⟨l, hl⟩ := Q.topoSort_of_not_cyclic c hnc
  obtain ⟨hnd, hmem, htopo⟩ := Q.topoSort_spec c hwf l hl
  refine ⟨eval c l free, fun n hn => ?_⟩
  exact Tseitin.eval_eq c l free hnd (Q.topoOK_index c l htopo) n ((hmem n).mpr ((Q.has_iff c n).mp hn))

theorem consistent_of_step {c : Circuit} (hwf : WF c) (free w : Val)
    (h : ∀ n, c.has n = true → w n = Tseitin.stepVal c free w n) : Consistent c w := by
  intro p hp t ht b hb
  have hn : c.has p.1 = true := (Q.has_iff c p.1).mpr (List.mem_map.mpr ⟨p, hp, rfl⟩)
  have hty : c.ty? p.1 = some t := by rw [Tseitin.ty_of_mem c hwf.nodup p hp, ht]
  rw [h p.1 hn]
  unfold Tseitin.stepVal
  rw [hty]
  simp only [hb]

theorem gateFn_congr_mem (t : String) (v : Val) {l1 l2 : List Name} (h1 : l1.Nodup) (h2 : l2.Nodup)
    (h : ∀ x, x ∈ l1 ↔ x ∈ l2) : gateFn t (l1.map v) = gateFn t (l2.map v) :=
  Tseitin.gateFn_perm t ((Q.perm_of_nodup_mem h1 h2 h).map v)

theorem eq_nil_of_forall_not_mem {l : List Name} (h : ∀ x, x ∉ l) : l = [] :=
  List.eq_nil_iff_forall_not_mem.mpr h

theorem internal_has {sg : Circuit} {n : Name} (h : n ∈ internal sg) : sg.has n = true := by
  unfold internal at h
  exact (Q.has_iff sg n).mpr (List.mem_filter.mp h).1

theorem internal_not_input {sg : Circuit} {n : Name} (h : n ∈ internal sg) : n ∉ sg.inputs := by
  unfold internal at h
  have := (List.mem_filter.mp h).2
  intro hi
  rw [List.contains_iff_mem.mpr hi] at this
  cases this

theorem internal_or_input {sg : Circuit} {n : Name} (h : sg.has n = true) : n ∈ internal sg ∨ n ∈ sg.inputs := by
  by_cases hi : n ∈ sg.inputs
  · exact Or.inr hi
  · left
    unfold internal
    refine List.mem_filter.mpr ⟨(Q.has_iff sg n).mp h, ?_⟩
    cases hc : sg.inputs.contains n with
    | false => rfl
    | true => exact absurd (List.contains_iff_mem.mp hc) hi

theorem inj_of_nodup_map {α β : Type} (f : α → β) : ∀ (l : List α), (l.map f).Nodup →
    ∀ x ∈ l, ∀ y ∈ l, f x = f y → x = y
  | [], _, x, hx, _, _, _ => absurd hx List.not_mem_nil
  | a :: l, h, x, hx, y, hy, e => by
    rw [List.map_cons, List.nodup_cons] at h
    rcases List.mem_cons.mp hx with rfl | hx'
    · rcases List.mem_cons.mp hy with rfl | hy'
      · rfl
      · exact absurd (List.mem_map.mpr ⟨y, hy', e.symm⟩) h.1
    · rcases List.mem_cons.mp hy with rfl | hy'
      · exact absurd (List.mem_map.mpr ⟨x, hx', e⟩) h.1
      · exact inj_of_nodup_map f l h.2 x hx' y hy' e

/-! ### per-supergate facts -/

section
variable {c2 : Circuit} {K : List (Found × Circuit)}

theorem SGFacts.head_inj (F : SGFacts c2 K) {p q : Found × Circuit} (hp : p ∈ K) (hq : q ∈ K)
    (h : p.1.head = q.1.head) : p = q :=
  inj_of_nodup_map (fun p : Found × Circuit => p.1.head) K F.headsNodup p hp q hq h

theorem SGFacts.ctx (F : SGFacts c2 K) {p : Found × Circuit} (hp : p ∈ K) :
    SGCtx c2 p.1.cone p.1.head p.1.nodes := (F.ok p hp).ctx

theorem SGFacts.has_iff (F : SGFacts c2 K) {p : Found × Circuit} (hp : p ∈ K) (n : Name) :
    p.2.has n = true ↔ n ∈ p.1.nodes := by
  rw [(F.ok p hp).eq, Q.has_iff, sg_nodeNames]

theorem SGFacts.nodup (F : SGFacts c2 K) {p : Found × Circuit} (hp : p ∈ K) : p.2.nodeNames.Nodup := by
  rw [(F.ok p hp).eq, sg_nodeNames]
  exact (F.ctx hp).nd

theorem SGFacts.has_c2 (F : SGFacts c2 K) {p : Found × Circuit} (hp : p ∈ K) {n : Name} (hn : p.2.has n = true) :
    c2.has n = true :=
  has_of_cone c2 (F.ctx hp).wf (F.ctx hp).root ((F.ctx hp).mem_cone ((F.has_iff hp n).mp hn))

theorem SGFacts.head_c2 (F : SGFacts c2 K) {p : Found × Circuit} (hp : p ∈ K) : c2.has p.1.head = true :=
  F.has_c2 hp ((F.has_iff hp _).mpr (F.ctx hp).head_mem)

theorem SGFacts.head_internal (F : SGFacts c2 K) {p : Found × Circuit} (hp : p ∈ K) : p.1.head ∈ internal p.2 := by
  rcases internal_or_input ((F.has_iff hp _).mpr (F.ctx hp).head_mem) with h | h
  · exact h
  · exact absurd h (F.ok p hp).headInt

/-- an internal node has in the supergate the type and (up to order) the fan-in it has in `c2` -/
theorem SGFacts.induced (F : SGFacts c2 K) {p : Found × Circuit} (hp : p ∈ K) {n : Name} (hn : n ∈ internal p.2) :
    c2.has n = true ∧ p.2.ty? n = c2.ty? n ∧ (∀ x, x ∈ p.2.fanin n ↔ x ∈ c2.fanin n) := by
  have X := F.ctx hp
  have e := (F.ok p hp).eq
  rw [e] at hn ⊢
  exact X.induced hn

theorem SGFacts.input_ty (F : SGFacts c2 K) {p : Found × Circuit} (hp : p ∈ K) (n : Name) :
    n ∈ p.2.inputs ↔ p.2.ty? n = some "input" := mem_inputs (F.nodup hp) n

/-- an internal node is typed in `c2`, and not "input" -/
theorem SGFacts.internal_ty (F : SGFacts c2 K) {p : Found × Circuit} (hp : p ∈ K) {n : Name} (hn : n ∈ internal p.2) :
    ∃ t, c2.ty? n = some t ∧ t ≠ "input" ∧ t ∈ Expected.supported_types := by
  obtain ⟨h1, h2, _⟩ := F.induced hp hn
  obtain ⟨t, ht, hs⟩ := ty_some_of_has c2 (F.ctx hp).clean h1
  refine ⟨t, ht, ?_, hs⟩
  intro e
  subst e
  apply internal_not_input hn
  rw [F.input_ty hp, h2, ht]

/-- the attribute of a node of a supergate -/
theorem SGFacts.node_attr (F : SGFacts c2 K) {p : Found × Circuit} (hp : p ∈ K) {n : Name} (hn : p.2.has n = true) :
    ∃ a, (n, a) ∈ p.2.nodes ∧ a.ty = p.2.ty? n ∧ ∃ b, a.out = some b := by
  have hS := (F.has_iff hp n).mp hn
  have e := (F.ok p hp).eq
  refine ⟨sgAttr c2 p.1.cone p.1.head p.1.nodes n, ?_, ?_, _, rfl⟩
  · rw [e, sgCircuit_nodes]
    exact List.mem_map.mpr ⟨n, hS, rfl⟩
  · rw [e, sg_ty c2 _ _ _ hS]
    rfl

/-- an edge of a supergate is an edge of `c2` between two of its nodes -/
theorem SGFacts.edge (F : SGFacts c2 K) {p : Found × Circuit} (hp : p ∈ K) {e : Name × Name} (he : e ∈ p.2.edges) :
    e ∈ c2.edges ∧ p.2.has e.1 = true ∧ p.2.has e.2 = true := by
  have h := he
  rw [(F.ok p hp).eq, sgCircuit_edges, List.mem_filter, Bool.and_eq_true, List.contains_iff_mem,
    List.contains_iff_mem] at h
  exact ⟨h.1, (F.has_iff hp _).mpr h.2.1, (F.has_iff hp _).mpr h.2.2⟩

/-- an input of a supergate has no driver inside it -/
theorem SGFacts.input_no_edge (F : SGFacts c2 K) {p : Found × Circuit} (hp : p ∈ K) {i a : Name} (hi : i ∈ p.2.inputs) :
    (a, i) ∉ p.2.edges := by
  intro he
  have hi' := hi
  have he' := he
  rw [(F.ok p hp).eq] at hi' he'
  obtain ⟨hiS, hty⟩ := (mem_sg_inputs c2 _ _ _ i).mp hi'
  have hnd := ((sgTy_input_iff c2 (F.ctx hp).clean _ i).mp hty).2
  rw [sgCircuit_edges, List.mem_filter, Bool.and_eq_true, List.contains_iff_mem, List.contains_iff_mem] at he'
  have := (drivenIn_iff c2 p.1.nodes i).mpr ⟨a, he'.1, he'.2.1, he'.2.2⟩
  rw [hnd] at this
  cases this

theorem isNet_has (hwf : WF c2) (F : SGFacts c2 K) {x : Name} (h : IsNet c2 K x) : c2.has x = true := by
  rcases h with h | h | ⟨p, hp, h | h⟩
  · exact mem_inputs_has h
  · exact mem_outputs_has h
  · exact F.has_c2 hp (mem_inputs_has h)
  · rw [h]; exact F.head_c2 hp

end

end SGSuper
end CG
