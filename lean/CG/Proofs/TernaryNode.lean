/- C10 helper: one iteration of `ternary`'s main loop (`Tx.ternaryNode`) succeeds, keeps the working
   invariant, touches only `mp n` and new helper nodes, and builds the gadget of `n` -/
import CG.Proofs.TernaryStep
namespace CG
namespace Ternary
open Circuit

theorem ok_bind {α β : Type} (a : α) (f : α → E β) : (Except.ok a >>= f) = f a := rfl

theorem ne_of_has_fresh {s : Circuit} {a b : Name} (ha : s.has a = true) (hb : s.has b = false) : a ≠ b := by
  rintro rfl; rw [ha] at hb; cases hb

variable {c : Circuit} {mp : Name → Name}

/-! ### the two operand steps -/

theorem is0_step (hm : MapOK c mp) (z : Name) : StepOK (IsZero mp) c mp z (Tx.ternaryIs0 mp z) := by
  intro s p hW hz hp hmp hd
  obtain ⟨s', h, hadd, o⟩ := fresh_gate hm hW p "_is_0" "nor" [p, mp p] [z] false hd (by decide) (by decide)
    (fun h => absurd h (by decide))
    (by intro v hv; rw [List.mem_singleton] at hv; subst hv; exact ⟨"nor", hz, by decide⟩)
    (by
      intro u hu
      simp only [List.mem_cons, List.not_mem_nil, or_false] at hu
      rcases hu with rfl | rfl
      · exact Or.inl hp
      · exact Or.inl hmp)
  refine ⟨s', h, ?_, o.w, ?_, o.fresh, o.into_fo z (by simp), ?_⟩
  · unfold Tx.ternaryIs0; exact addC_of hadd
  · exact o.frameH.weaken (fun _ _ h => h) (fun x h => h.imp (fun h' => List.mem_singleton.mp h') id)
  · exact ⟨(ne_of_has_fresh (has_of_ty? hz) o.fresh).symm, o.helper, o.ty_r, o.fanin_r⟩

theorem is1_step (hm : MapOK c mp) (z : Name) : StepOK (IsOne mp) c mp z (Tx.ternaryIs1 mp z) := by
  intro s p hW hz hp hmp hd
  obtain ⟨s1, h, hadd1, o1⟩ := fresh_gate hm hW p "_is_1" "and" [p] [z] false hd (by decide) (by decide)
    (fun h => absurd h (by decide))
    (by intro v hv; rw [List.mem_singleton] at hv; subst hv; exact ⟨"nor", hz, by decide⟩)
    (by intro u hu; rw [List.mem_singleton] at hu; subst hu; exact Or.inl hp)
  obtain ⟨s2, q, hadd2, o2⟩ := fresh_gate hm o1.w p "_not_x" "not" [mp p] [h] false hd (by decide) (by decide)
    (by intro _; simp)
    (by intro v hv; rw [List.mem_singleton] at hv; subst hv; exact ⟨"and", o1.ty_r, by decide⟩)
    (by intro u hu; rw [List.mem_singleton] at hu; subst hu; exact Or.inl (o1.frame.has _ hmp))
  have hzs : s.has z = true := has_of_ty? hz
  have hz1 : s1.has z = true := o1.frame.has _ hzs
  have hzh : z ≠ h := ne_of_has_fresh hzs o1.fresh
  have hzq : z ≠ q := ne_of_has_fresh hz1 o2.fresh
  have hhq : h ≠ q := ne_of_has_fresh o1.has_r o2.fresh
  refine ⟨s2, h, ?_, o2.w, ?_, o1.fresh, ?_, ?_⟩
  · unfold Tx.ternaryIs1
    rw [addE_of hadd1, ok_bind]
    exact addC_of hadd2
  · refine (o1.frameH.trans' o2.frameH (fun x hx hn => absurd hn (not_newH (o1.frame.has x hx))) ?_).weaken
      (fun _ _ h => h) (fun x h => h.imp (fun h' => List.mem_singleton.mp h') id)
    intro x hx
    rcases hx with hx | hx
    · rw [List.mem_singleton] at hx
      exact Or.inr (hx ▸ ⟨o1.fresh, o1.helper⟩)
    · exact Or.inr (NewH.mono o1.frame.has hx)
  · intro u
    rw [o2.frame.edge (y := z) (by
      rintro (h' | h')
      · exact hzq h'
      · exact hzh (List.mem_singleton.mp h'))]
    exact o1.into_fo z (by simp) u
  · refine ⟨q, hzh.symm, hzq.symm, o1.helper, o2.helper, ?_, ?_, o2.ty_r, o2.fanin_r⟩
    · rw [o2.frame.ty o1.has_r hhq]; exact o1.ty_r
    · intro u
      rw [o2.into_fo h (by simp) u, o1.fanin_r u]
      simp

/-! ### the and/nand and or/nor branches -/

/-- what a step for node `n` may touch: `mp n` and new helper nodes -/
def S (mp : Name → Name) (t : Circuit) (n : Name) (y : Name) : Prop := y = mp n ∨ NewH t y

theorem ext_frame {t tk tk' : Circuit} {A E E0 : Name → Prop} (h1 : Frame t tk A E)
    (h2 : Frame tk tk' (NewH tk) (fun y => E0 y ∨ NewH tk y)) (hE0 : ∀ y, E0 y → E y)
    (hN : ∀ y, NewH t y → E y) : Frame t tk' A E :=
  h1.trans' h2 (fun x hx hn => absurd hn (not_newH (h1.has x hx)))
    (fun x h => h.elim (hE0 x) (fun h' => hN x (NewH.mono h1.has h')))

theorem andor_core {G : Gadget} (hG : GStable G) (g : GoodC c) (hm : MapOK c mp) {ord : Ord} (hord : OrdOK ord)
    {t : Circuit} (hW : W c mp t) (hsub : ∀ x, c.has x = true → t.has x = true) {n : Name}
    (hn : c.has n = true) (hclean : ∀ e ∈ t.edges, e.2 ≠ mp n) (out : Bool)
    (sfxz : String) (hsz : sfxz ∈ helperSfx) (step : Name → Circuit → Name → E Circuit)
    (hstep : ∀ z, StepOK G c mp z (step z)) :
    ∃ t', (Tx.addC t { n := mp n, ty := "and", output := out, allowRedef := true } >>= fun t1 =>
      Tx.addC t1 { n := n ++ "_x_in_fi", ty := "or", fanout := [mp n], fanin := (ord (c.fanin n)).map mp,
                   uid := true, addConnected := true } >>= fun t2 =>
      addE t2 { n := n ++ sfxz, ty := "nor", fanout := [mp n], uid := true } >>= fun r =>
      (ord (c.fanin n)).foldlM (step r.2) r.1) = .ok t' ∧
      W c mp t' ∧ Frame t t' (S mp t n) (S mp t n) ∧ AndOr G c mp t' n := by
  have hfi : ∀ p, p ∈ ord (c.fanin n) ↔ p ∈ c.fanin n := fun p => (hord (c.fanin n)).mem_iff
  have hfic : ∀ p ∈ ord (c.fanin n), c.has p = true := fun p hp =>
    (g.edge (mem_fanin.mp ((hfi p).mp hp))).1
  -- the companion
  obtain ⟨t1, hadd1, o1⟩ := comp_gate hW n hn (hm.nameOK g hn) "and" [] out false (by decide)
    (fun h => absurd h (by decide)) (fun _ => rfl) hclean (fun u hu => nomatch hu)
  -- the `x_in_fi` gate
  obtain ⟨t2, x, hadd2, o2⟩ := fresh_gate hm o1.w n "_x_in_fi" "or" ((ord (c.fanin n)).map mp) [mp n] true
    (g.digit hn) (by decide) (by decide) (fun h => absurd h (by decide))
    (by intro v hv; rw [List.mem_singleton] at hv; subst hv; exact ⟨"and", o1.ty_r, by decide⟩)
    (by
      intro u hu
      obtain ⟨p, hp, rfl⟩ := List.mem_map.mp hu
      exact Or.inr ⟨rfl, p, hfic p hp, rfl, hm.nameOK g (hfic p hp)⟩)
  have hmx : mp n ≠ x := ne_of_has_fresh o1.has_r o2.fresh
  have hty2 : t2.ty? (mp n) = some "and" := by rw [o2.frame.ty o1.has_r hmx]; exact o1.ty_r
  have hm2 : t2.has (mp n) = true := has_of_ty? hty2
  -- the `not_in_fi` gate
  obtain ⟨t3, z, hadd3, o3⟩ := fresh_gate hm o2.w n sfxz "nor" [] [mp n] false
    (g.digit hn) hsz (by decide) (fun h => absurd h (by decide))
    (by intro v hv; rw [List.mem_singleton] at hv; subst hv; exact ⟨"and", hty2, by decide⟩)
    (fun u hu => nomatch hu)
  have hmz : mp n ≠ z := ne_of_has_fresh hm2 o3.fresh
  have hxz : x ≠ z := ne_of_has_fresh o2.has_r o3.fresh
  have hty3 : t3.ty? (mp n) = some "and" := by rw [o3.frame.ty hm2 hmz]; exact hty2
  have hm3 : t3.has (mp n) = true := has_of_ty? hty3
  have hx3 : t3.has x = true := o3.frame.has _ o2.has_r
  -- the operand loop
  obtain ⟨t', e4, hW', hf4, ha, hb⟩ := collect_loop hG (hstep z) (ord (c.fanin n)) t3 o3.w o3.ty_r
    (by
      intro p hp
      refine ⟨?_, ?_, g.digit (hfic p hp)⟩
      · exact o3.frame.has _ (o2.frame.has _ (o1.frame.has _ (hsub p (hfic p hp))))
      · exact o3.frame.has _ (o2.has_fi _ (List.mem_map.mpr ⟨p, hp, rfl⟩)))
  have hnz : ¬ (mp n = z ∨ NewH t3 (mp n)) := fun h => h.elim hmz (not_newH hm3)
  have hnx : ¬ (x = z ∨ NewH t3 x) := fun h => h.elim hxz (not_newH hx3)
  refine ⟨t', ?_, hW', ?_, ?_⟩
  · rw [addC_of hadd1, ok_bind, addC_of hadd2, ok_bind, addE_of hadd3, ok_bind]
    exact e4
  · -- the frame
    have f1 : Frame t t1 (S mp t n) (S mp t n) := o1.frame.weaken (fun _ _ h => Or.inl h) (fun _ h => Or.inl h)
    have f2 : Frame t t2 (S mp t n) (S mp t n) := ext_frame f1 o2.frameH
      (fun y hy => Or.inl (List.mem_singleton.mp hy)) (fun y hy => Or.inr hy)
    have f3 : Frame t t3 (S mp t n) (S mp t n) := ext_frame f2 o3.frameH
      (fun y hy => Or.inl (List.mem_singleton.mp hy)) (fun y hy => Or.inr hy)
    refine ext_frame f3 hf4 (fun y hy => ?_) (fun y hy => Or.inr hy)
    subst hy
    exact Or.inr (NewH.mono f2.has ⟨o3.fresh, o3.helper⟩)
  · refine ⟨x, z, ?_, ?_, o2.helper, ?_, ?_, o3.helper, ?_, ?_, ?_⟩
    · rw [hf4.ty hm3 (not_newH hm3)]; exact hty3
    · intro u
      rw [hf4.edge hnz u, o3.into_fo (mp n) (by simp) u, o2.into_fo (mp n) (by simp) u, o1.fanin_r u]
      simp
    · rw [hf4.ty hx3 (not_newH hx3), o3.frame.ty o2.has_r hxz]; exact o2.ty_r
    · refine (hf4.faninIs hnx (o3.frame.faninIs ?_ o2.fanin_r)).congr ?_
      · rintro (h | h)
        · exact hxz h
        · exact hmx (List.mem_singleton.mp h).symm
      · intro u
        simp only [List.mem_map]
        exact ⟨fun ⟨p, hp, e⟩ => ⟨p, (hfi p).mp hp, e⟩, fun ⟨p, hp, e⟩ => ⟨p, (hfi p).mpr hp, e⟩⟩
    · rw [hf4.ty o3.has_r (not_newH o3.has_r)]; exact o3.ty_r
    · intro h he
      rcases ha h he with h1 | ⟨p, hp, hg⟩
      · exact absurd ((o3.fanin_r h).mp h1) (by simp)
      · exact ⟨p, (hfi p).mp hp, hg⟩
    · intro p hp
      exact hb p ((hfi p).mpr hp)

/-! ### the branches with a single companion gate -/

theorem simple_core (g : GoodC c) (hm : MapOK c mp) {t : Circuit} (hW : W c mp t) {n : Name}
    (hn : c.has n = true) (hclean : ∀ e ∈ t.edges, e.2 ≠ mp n) (ty' : String) (fi : List Name) (out ac : Bool)
    (hty : ty' ∈ ["buf", "or", "0", "input"]) (hbuf : ty' = "buf" → fi.length ≤ 1)
    (hsrc : ty' = "0" ∨ ty' = "input" → fi = [])
    (hfi : ∀ p ∈ fi, (p, n) ∈ c.edges) (hac : fi ≠ [] → ac = true) :
    ∃ t', Tx.addC t { n := mp n, ty := ty', fanin := fi.map mp, output := out, addConnected := ac,
                      allowRedef := true } = .ok t' ∧
      W c mp t' ∧ Frame t t' (S mp t n) (S mp t n) ∧ t'.ty? (mp n) = some ty' ∧ FaninIs t' (mp n) (fi.map mp) := by
  obtain ⟨t', hadd, o⟩ := comp_gate hW n hn (hm.nameOK g hn) ty' (fi.map mp) out ac
    (by
      simp only [List.mem_cons, List.not_mem_nil, or_false] at hty ⊢
      rcases hty with rfl | rfl | rfl | rfl <;> simp)
    (by intro h; rw [List.length_map]; exact hbuf h)
    (by intro h; rw [hsrc h]; rfl) hclean
    (by
      intro u hu
      obtain ⟨p, hp, rfl⟩ := List.mem_map.mp hu
      obtain ⟨hpc, _, hpn⟩ := g.edge (hfi p hp)
      refine ⟨fun e => hpn (hm.inj hpc hn e), Or.inr ⟨hac (List.ne_nil_of_mem hp), p, hpc, rfl, hm.nameOK g hpc⟩⟩)
  exact ⟨t', addC_of hadd, o.w, o.frame.weaken (fun _ _ h => Or.inl h) (fun _ h => Or.inl h), o.ty_r, o.fanin_r⟩

/-! ### branch selection in `ternaryNode` -/

theorem tn_and {ord : Ord} {t : Circuit} {n : Name} {ty : String} (hty : c.ty? n = some ty)
    (h : ty ∈ ["and", "nand"]) :
    Tx.ternaryNode c ord mp t n =
      (Tx.addC t { n := mp n, ty := "and", output := c.isOut n, allowRedef := true } >>= fun t1 =>
      Tx.addC t1 { n := n ++ "_x_in_fi", ty := "or", fanout := [mp n], fanin := (ord (c.fanin n)).map mp,
                   uid := true, addConnected := true } >>= fun t2 =>
      addE t2 { n := n ++ "_0_not_in_fi", ty := "nor", fanout := [mp n], uid := true } >>= fun r =>
      (ord (c.fanin n)).foldlM (Tx.ternaryIs0 mp r.2) r.1) := by
  unfold Tx.ternaryNode
  rw [hty]
  simp only [List.mem_cons, List.not_mem_nil, or_false] at h
  rcases h with rfl | rfl <;> dsimp only
  · rw [if_pos (by decide)]
  · rw [if_pos (by decide)]

theorem tn_or {ord : Ord} {t : Circuit} {n : Name} {ty : String} (hty : c.ty? n = some ty)
    (h : ty ∈ ["or", "nor"]) :
    Tx.ternaryNode c ord mp t n =
      (Tx.addC t { n := mp n, ty := "and", output := c.isOut n, allowRedef := true } >>= fun t1 =>
      Tx.addC t1 { n := n ++ "_x_in_fi", ty := "or", fanout := [mp n], fanin := (ord (c.fanin n)).map mp,
                   uid := true, addConnected := true } >>= fun t2 =>
      addE t2 { n := n ++ "_1_not_in_fi", ty := "nor", fanout := [mp n], uid := true } >>= fun r =>
      (ord (c.fanin n)).foldlM (Tx.ternaryIs1 mp r.2) r.1) := by
  unfold Tx.ternaryNode
  rw [hty]
  simp only [List.mem_cons, List.not_mem_nil, or_false] at h
  rcases h with rfl | rfl <;> dsimp only
  · rw [if_neg (by decide), if_pos (by decide)]
  · rw [if_neg (by decide), if_pos (by decide)]

theorem tn_buf {ord : Ord} {t : Circuit} {n p : Name} {ty : String} (hty : c.ty? n = some ty)
    (h : ty ∈ ["buf", "not"]) (hp : ord (c.fanin n) = [p]) :
    Tx.ternaryNode c ord mp t n =
      Tx.addC t { n := mp n, ty := "buf", fanin := [mp p], output := c.isOut n, addConnected := true,
                  allowRedef := true } := by
  unfold Tx.ternaryNode
  rw [hty]
  simp only [List.mem_cons, List.not_mem_nil, or_false] at h
  rcases h with rfl | rfl <;> dsimp only
  · rw [if_neg (by decide), if_neg (by decide), if_pos (by decide), hp]
  · rw [if_neg (by decide), if_neg (by decide), if_pos (by decide), hp]

theorem tn_xor {ord : Ord} {t : Circuit} {n : Name} {ty : String} (hty : c.ty? n = some ty)
    (h : ty ∈ ["xor", "xnor"]) :
    Tx.ternaryNode c ord mp t n =
      Tx.addC t { n := mp n, ty := "or", fanin := (ord (c.fanin n)).map mp, output := c.isOut n,
                  addConnected := true, allowRedef := true } := by
  unfold Tx.ternaryNode
  rw [hty]
  simp only [List.mem_cons, List.not_mem_nil, or_false] at h
  rcases h with rfl | rfl <;> dsimp only
  · rw [if_neg (by decide), if_neg (by decide), if_neg (by decide), if_pos (by decide)]
  · rw [if_neg (by decide), if_neg (by decide), if_neg (by decide), if_pos (by decide)]

theorem tn_const {ord : Ord} {t : Circuit} {n : Name} {ty : String} (hty : c.ty? n = some ty)
    (h : ty ∈ ["0", "1"]) :
    Tx.ternaryNode c ord mp t n =
      Tx.addC t { n := mp n, ty := "0", output := c.isOut n, allowRedef := true } := by
  unfold Tx.ternaryNode
  rw [hty]
  simp only [List.mem_cons, List.not_mem_nil, or_false] at h
  rcases h with rfl | rfl <;> dsimp only
  · rw [if_neg (by decide), if_neg (by decide), if_neg (by decide), if_neg (by decide), if_pos (by decide)]
  · rw [if_neg (by decide), if_neg (by decide), if_neg (by decide), if_neg (by decide), if_pos (by decide)]

theorem tn_input {ord : Ord} {t : Circuit} {n : Name} (hty : c.ty? n = some "input") :
    Tx.ternaryNode c ord mp t n = Tx.addC t { n := mp n, ty := "input", allowRedef := true } := by
  unfold Tx.ternaryNode
  rw [hty]
  dsimp only
  rw [if_neg (by decide), if_neg (by decide), if_neg (by decide), if_neg (by decide), if_neg (by decide),
    if_pos (by decide)]

/-! ### one iteration of the main loop -/

theorem node_step (g : GoodC c) (hm : MapOK c mp) {ord : Ord} (hord : OrdOK ord) {t : Circuit} (hW : W c mp t)
    (hsub : ∀ x, c.has x = true → t.has x = true) {n : Name} (hn : c.has n = true)
    (hclean : ∀ e ∈ t.edges, e.2 ≠ mp n) :
    ∃ t', Tx.ternaryNode c ord mp t n = .ok t' ∧ W c mp t' ∧ Frame t t' (S mp t n) (S mp t n) ∧
      NodeDone c mp t' n := by
  obtain ⟨ty, hty, hcases⟩ := g.ty hn
  have hfi : ∀ p, p ∈ ord (c.fanin n) ↔ p ∈ c.fanin n := fun p => (hord (c.fanin n)).mem_iff
  have hmapfi : ∀ u, u ∈ (ord (c.fanin n)).map mp ↔ u ∈ (c.fanin n).map mp := by
    intro u
    simp only [List.mem_map]
    exact ⟨fun ⟨p, hp, e⟩ => ⟨p, (hfi p).mp hp, e⟩, fun ⟨p, hp, e⟩ => ⟨p, (hfi p).mpr hp, e⟩⟩
  have hedge : ∀ p ∈ ord (c.fanin n), (p, n) ∈ c.edges := fun p hp => mem_fanin.mp ((hfi p).mp hp)
  by_cases h1 : ty ∈ ["and", "nand"]
  · obtain ⟨t', e, hW', hf, hd⟩ := andor_core (isZero_stable mp) g hm hord hW hsub hn hclean (c.isOut n)
      "_0_not_in_fi" (by decide) (fun z => Tx.ternaryIs0 mp z) (is0_step hm)
    exact ⟨t', by rw [tn_and hty h1]; exact e, hW', hf, ty, hty, Or.inl ⟨h1, hd⟩⟩
  by_cases h2 : ty ∈ ["or", "nor"]
  · obtain ⟨t', e, hW', hf, hd⟩ := andor_core (isOne_stable mp) g hm hord hW hsub hn hclean (c.isOut n)
      "_1_not_in_fi" (by decide) (fun z => Tx.ternaryIs1 mp z) (is1_step hm)
    exact ⟨t', by rw [tn_or hty h2]; exact e, hW', hf, ty, hty, Or.inr (Or.inl ⟨h2, hd⟩)⟩
  by_cases h3 : ty ∈ ["buf", "not"]
  · have hlen : (c.fanin n).length = 1 := g.clean.single n ty hty (by
      simp only [List.mem_cons, List.not_mem_nil, or_false] at h3
      rcases h3 with rfl | rfl <;> decide)
    obtain ⟨p, hp⟩ := List.length_eq_one_iff.mp hlen
    have hop : ord (c.fanin n) = [p] := by
      have := hord (c.fanin n)
      rw [hp] at this ⊢
      exact List.perm_singleton.mp this
    obtain ⟨t', e, hW', hf, h5, h6⟩ := simple_core g hm hW hn hclean "buf" [p] (c.isOut n) true (by decide)
      (fun _ => Nat.le_refl _) (fun h => absurd h (by decide))
      (by intro q hq; exact hedge q (by rw [hop]; exact hq)) (fun _ => rfl)
    refine ⟨t', by rw [tn_buf hty h3 hop]; exact e, hW', hf, ty, hty, Or.inr (Or.inr (Or.inl ⟨h3, h5, ?_⟩))⟩
    rw [hp]; exact h6
  by_cases h4 : ty ∈ ["xor", "xnor"]
  · obtain ⟨t', e, hW', hf, h5, h6⟩ := simple_core g hm hW hn hclean "or" (ord (c.fanin n)) (c.isOut n) true
      (by decide) (fun h => absurd h (by decide)) (fun h => absurd h (by decide)) hedge (fun _ => rfl)
    exact ⟨t', by rw [tn_xor hty h4]; exact e, hW', hf, ty, hty,
      Or.inr (Or.inr (Or.inr (Or.inl ⟨h4, h5, h6.congr hmapfi⟩)))⟩
  by_cases h5 : ty ∈ ["0", "1"]
  · obtain ⟨t', e, hW', hf, h6, _⟩ := simple_core g hm hW hn hclean "0" [] (c.isOut n) false
      (by decide) (fun h => absurd h (by decide)) (fun _ => rfl) (fun _ h => nomatch h) (fun h => absurd rfl h)
    exact ⟨t', by rw [tn_const hty h5]; exact e, hW', hf, ty, hty,
      Or.inr (Or.inr (Or.inr (Or.inr (Or.inl ⟨h5, h6⟩))))⟩
  · have h6 : ty = "input" := by
      simp only [multiTypes, List.mem_cons, List.not_mem_nil, or_false] at hcases h1 h2 h3 h4 h5
      rcases hcases with (h | h | h | h | h | h) | h | h | h | h | h
      all_goals first | exact h | (subst h; simp at h1 h2 h3 h4 h5)
    subst h6
    obtain ⟨t', e, hW', hf, h6, _⟩ := simple_core g hm hW hn hclean "input" [] false false
      (by decide) (fun h => absurd h (by decide)) (fun _ => rfl) (fun _ h => nomatch h) (fun h => absurd rfl h)
    exact ⟨t', by rw [tn_input hty]; exact e, hW', hf, "input", hty,
      Or.inr (Or.inr (Or.inr (Or.inr (Or.inr ⟨rfl, h6⟩))))⟩

end Ternary
end CG
