/- C06, add_subcircuit: the property theorems in the mirrored vocabulary of `Compose.lean` -/
import CG.Proofs.ComposeSub
set_option linter.unusedSimpArgs false
set_option linter.unusedVariables false
namespace CG
open Circuit

theorem has_exists {c : Circuit} {n : Name} (h : c.has n = true) : ∃ a, (n, a) ∈ c.nodes := by
  obtain ⟨p, hp, e⟩ := List.mem_map.1 ((has_iff_mem c n).1 h)
  exact ⟨p.2, by rw [← e]; exact hp⟩

/-- `e` is one of the wires requested by the connection map -/
def ConnRel (sc : Circuit) (name : Name) (conns : List (Name × List Name)) (e : Name × Name) : Prop :=
  ∃ p ∈ conns, (p.1 ∈ sc.inputs ∧ e.1 ∈ p.2 ∧ e.2 = pref name p.1) ∨
               (p.1 ∉ sc.inputs ∧ e.1 = pref name p.1 ∧ e.2 ∈ p.2)

theorem subConns_rel (sc : Circuit) (name : Name) (conns : List (Name × List Name)) (e : Name × Name) :
    (∃ q ∈ subConns sc name conns, e.1 ∈ q.1 ∧ e.2 ∈ q.2) ↔ ConnRel sc name conns e := by
  unfold subConns ConnRel
  constructor
  · rintro ⟨q, hq, h1, h2⟩
    obtain ⟨p, hp, rfl⟩ := List.mem_map.1 hq
    refine ⟨p, hp, ?_⟩
    by_cases hc : sc.inputs.contains p.1 = true
    · rw [if_pos hc] at h1 h2
      simp only [List.mem_singleton] at h2
      exact Or.inl ⟨List.contains_iff_mem.1 hc, h1, h2⟩
    · rw [if_neg hc] at h1 h2
      simp only [List.mem_singleton] at h1
      exact Or.inr ⟨fun hm => hc (List.contains_iff_mem.2 hm), h1, h2⟩
  · rintro ⟨p, hp, h | h⟩
    · obtain ⟨h0, h1, h2⟩ := h
      refine ⟨_, List.mem_map.2 ⟨p, hp, rfl⟩, ?_⟩
      rw [if_pos (List.contains_iff_mem.2 h0)]
      exact ⟨h1, by simp [h2]⟩
    · obtain ⟨h0, h1, h2⟩ := h
      refine ⟨_, List.mem_map.2 ⟨p, hp, rfl⟩, ?_⟩
      rw [if_neg (fun hc => h0 (List.contains_iff_mem.1 hc))]
      exact ⟨by simp [h1], h2⟩

theorem mem_connE (sc : Circuit) (name : Name) (conns : List (Name × List Name)) (e : Name × Name) :
    e ∈ connE sc name conns ↔ ConnRel sc name conns e := by
  unfold connE ConnRel
  simp only [List.mem_flatMap]
  constructor
  · rintro ⟨p, hp, he⟩
    refine ⟨p, hp, ?_⟩
    by_cases hc : sc.inputs.contains p.1 = true
    · rw [if_pos hc] at he
      obtain ⟨u, hu, rfl⟩ := List.mem_map.1 he
      exact Or.inl ⟨List.contains_iff_mem.1 hc, hu, rfl⟩
    · rw [if_neg hc] at he
      obtain ⟨u, hu, rfl⟩ := List.mem_map.1 he
      exact Or.inr ⟨fun hm => hc (List.contains_iff_mem.2 hm), rfl, hu⟩
  · rintro ⟨p, hp, h | h⟩
    · obtain ⟨h0, h1, h2⟩ := h
      refine ⟨p, hp, ?_⟩
      rw [if_pos (List.contains_iff_mem.2 h0)]
      exact List.mem_map.2 ⟨e.1, h1, by rw [← h2]⟩
    · obtain ⟨h0, h1, h2⟩ := h
      refine ⟨p, hp, ?_⟩
      rw [if_neg (fun hc => h0 (List.contains_iff_mem.1 hc))]
      exact List.mem_map.2 ⟨e.2, h2, by rw [← h1]⟩

/-- everything the property theorems need to know about a successful `add_subcircuit` -/
structure SubFacts (P sc P' : Circuit) (name : Name) (conns : List (Name × List Name)) : Prop where
  clash : ∀ n, sc.has n = true → P.has (pref name n) = false
  nodes : P'.nodes = P.nodes ++ sc.nodes.map (fun p => (pref name p.1, stripA p.2))
  nodup : P'.nodeNames.Nodup
  ext : ∃ x, P'.edges = (P.edges ++ sc.edges.map (fun e => (pref name e.1, pref name e.2))) ++ x ∧
      ∀ e ∈ x, ConnRel sc name conns e
  mem : ∀ e, e ∈ P'.edges ↔ e ∈ P.edges ∨ e ∈ sc.edges.map (fun e => (pref name e.1, pref name e.2)) ∨
      ConnRel sc name conns e
  edgesNodup : P'.edges.Nodup
  nameEq : P'.name = P.name
  bbs : (sc.bbs.map (·.1)).Nodup → P'.bbs = P.bbs ++ sc.bbs.map (fun p => (pref name p.1, p.2))
  connHas : ∀ e, ConnRel sc name conns e → P'.has e.1 = true ∧ P'.has e.2 = true
  buf : ∀ p ∈ conns, p.1 ∈ sc.inputs → ∀ u ∈ p.2, P'.fanin (pref name p.1) = [u]

theorem names_append_nodup {P sc : Circuit} (hP : WF P) (hsc : WF sc) (name : Name)
    (hclash : ∀ n, sc.has n = true → P.has (pref name n) = false) (f : Attr → Attr) :
    ((P.nodes ++ sc.nodes.map (fun p => (pref name p.1, f p.2))).map (·.1)).Nodup := by
  have e : (P.nodes ++ sc.nodes.map (fun p => (pref name p.1, f p.2))).map (·.1) =
      P.nodeNames ++ sc.nodeNames.map (pref name) := by
    simp [nodeNames, List.map_map, Function.comp_def]
  rw [e, List.nodup_append]
  refine ⟨hP.nodup, nodup_map_of_inj hsc.nodup (fun x _ y _ e => pref_inj name e), ?_⟩
  intro x hx y hy e
  subst e
  obtain ⟨m, hm, rfl⟩ := List.mem_map.1 hy
  have := hclash m ((has_iff_mem sc m).2 hm)
  rw [(has_iff_mem P _).2 hx] at this
  cases this

theorem addSub_facts {P sc P' : Circuit} {name : Name} {conns : List (Name × List Name)}
    (hP : WF P) (hsc : WF sc) (h : P.addSubcircuit sc name conns true = (P', .ok)) :
    SubFacts P sc P' name conns := by
  obtain ⟨c1, c2, c3, c4, hca⟩ := addSub_unfold h
  have hclash : ∀ n, sc.has n = true → P.has (pref name n) = false := by
    intro n hn
    rw [List.any_eq_false] at c2
    simpa using c2 n ((has_iff_mem sc n).1 hn)
  have hbbclash : ∀ p ∈ sc.bbs, P.bbs.lookup (pref name p.1) = none := by
    intro p hp
    rw [List.any_eq_false] at c1
    have := c1 p hp
    cases hl : P.bbs.lookup (pref name p.1) with
    | none => rfl
    | some b => rw [hl] at this; simp at this
  obtain ⟨v1, v2, v3, v4⟩ := subPre_view hP hsc name hclash
  obtain ⟨a1, a2, a3, ⟨x, a4, a4'⟩, a5, a6, a7⟩ := connectAll_ok _ _ _ hca
  have hnodes : P'.nodes = P.nodes ++ sc.nodes.map (fun p => (pref name p.1, stripA p.2)) := by rw [a1, v1]
  have hnd : P'.nodeNames.Nodup := by
    unfold nodeNames; rw [hnodes]; exact names_append_nodup hP hsc name hclash stripA
  have hpre_ed : (subPre P sc name).edges.Nodup := by
    rw [v2, List.nodup_append]
    refine ⟨hP.edgesNodup, ?_, ?_⟩
    · apply nodup_map_of_inj hsc.edgesNodup
      intro x _ y _ e
      injection e with e1 e2
      exact Prod.ext (pref_inj name e1) (pref_inj name e2)
    · intro e he e' he' ee
      subst ee
      obtain ⟨e0, he0, rfl⟩ := List.mem_map.1 he'
      have h1 := (hP.closed _ he).1
      simp only [] at h1
      rw [hclash e0.1 (hsc.closed e0 he0).1] at h1
      cases h1
  have hconnHas : ∀ e, ConnRel sc name conns e → P'.has e.1 = true ∧ P'.has e.2 = true := by
    intro e he
    obtain ⟨q, hq, h1, h2⟩ := (subConns_rel sc name conns e).2 he
    have hq1 : q.1 ≠ [] := by intro e'; rw [e'] at h1; cases h1
    have hq2 : q.2 ≠ [] := by intro e'; rw [e'] at h2; cases h2
    obtain ⟨k1, k2⟩ := a7 q hq hq1 hq2
    exact ⟨by rw [has_congr a1]; exact k1 _ h1, by rw [has_congr a1]; exact k2 _ h2⟩
  refine ⟨hclash, hnodes, hnd, ⟨x, by rw [a4, v2], ?_⟩, ?_, a6 hpre_ed, by rw [a3, v3],
    fun hbbs => by rw [a2, v4 hbbs hbbclash], hconnHas, ?_⟩
  · intro e he
    exact (subConns_rel sc name conns e).1 (a4' e he)
  · intro e
    rw [a5, v2, List.mem_append, subConns_rel, or_assoc]
  · intro p hp hin u hu
    apply connectAll_buf_set _ _ _ hca p.2 (pref name p.1) u
    · unfold subConns
      refine List.mem_map.2 ⟨p, hp, ?_⟩
      rw [if_pos (List.contains_iff_mem.2 hin)]
    · exact hu
    · -- the spliced input is a buffer
      have hhas := mem_inputs_has hin
      obtain ⟨a, ha⟩ := has_exists hhas
      have hty : a.ty = some "input" := (mem_inputs_of_mem hsc.nodup ha).1 hin
      have hmem : (pref name p.1, stripA a) ∈ (subPre P sc name).nodes := by
        rw [v1]
        exact List.mem_append.2 (Or.inr (List.mem_map.2 ⟨(p.1, a), ha, rfl⟩))
      have hnd' : (subPre P sc name).nodeNames.Nodup := by
        rw [← nodeNames_congr a1]; exact hnd
      rw [ty?, attr?_of_mem hnd' hmem]
      simp [stripA, hty]

/-! ### structure -/

theorem SubFacts.has_parent {P sc P' : Circuit} {name : Name} {conns : List (Name × List Name)}
    (F : SubFacts P sc P' name conns) {n : Name} (h : P.has n = true) : P'.has n = true := by
  rw [has_iff_mem] at h ⊢
  unfold nodeNames at h ⊢
  rw [F.nodes, List.map_append]
  exact List.mem_append.2 (Or.inl h)

theorem SubFacts.has_child {P sc P' : Circuit} {name : Name} {conns : List (Name × List Name)}
    (F : SubFacts P sc P' name conns) {m : Name} (h : sc.has m = true) : P'.has (pref name m) = true := by
  rw [has_iff_mem] at h ⊢
  unfold nodeNames at h ⊢
  rw [F.nodes, List.map_append]
  obtain ⟨p, hp, e⟩ := List.mem_map.1 h
  exact List.mem_append.2 (Or.inr (List.mem_map.2 ⟨(pref name p.1, stripA p.2),
    List.mem_map.2 ⟨p, hp, rfl⟩, by rw [← e]⟩))

theorem SubFacts.wf {P sc P' : Circuit} {name : Name} {conns : List (Name × List Name)}
    (hP : WF P) (hsc : WF sc) (F : SubFacts P sc P' name conns) : WF P' := by
  refine ⟨F.nodup, F.edgesNodup, ?_⟩
  intro e he
  rcases (F.mem e).1 he with h | h | h
  · exact ⟨F.has_parent (hP.closed e h).1, F.has_parent (hP.closed e h).2⟩
  · obtain ⟨e0, he0, rfl⟩ := List.mem_map.1 h
    exact ⟨F.has_child (hsc.closed e0 he0).1, F.has_child (hsc.closed e0 he0).2⟩
  · exact F.connHas e h

/-! ### fan-in of the composite -/

theorem SubFacts.fanin_child {P sc P' : Circuit} {name : Name} {conns : List (Name × List Name)}
    (hP : WF P) (hsc : WF sc) (F : SubFacts P sc P' name conns) {m : Name} (hm : sc.has m = true)
    (hni : ∀ q ∈ conns, q.1 ∈ sc.inputs → q.1 ≠ m) (hfb : ∀ q ∈ conns, q.1 ∉ sc.inputs → pref name m ∉ q.2) :
    P'.fanin (pref name m) = (sc.fanin m).map (pref name) := by
  obtain ⟨x, hx, hx'⟩ := F.ext
  rw [fanin_eq_faninL, hx, faninL_append, faninL_append]
  have h1 : faninL P.edges (pref name m) = [] := by
    apply faninL_nil_of
    intro e he e2
    have := (hP.closed e he).2
    rw [e2, F.clash m hm] at this
    cases this
  have h2 : faninL x (pref name m) = [] := by
    apply faninL_nil_of
    intro e he e2
    obtain ⟨p, hp, hh | hh⟩ := hx' e he
    · obtain ⟨k0, _, k2⟩ := hh
      rw [e2] at k2
      exact hni p hp k0 (pref_inj name k2).symm
    · obtain ⟨k0, _, k2⟩ := hh
      rw [e2] at k2
      exact hfb p hp k0 k2
  rw [h1, h2, faninL_map_inj (pref name) (fun a b e => pref_inj name e), List.nil_append, List.append_nil]
  rfl

theorem SubFacts.fanin_parent {P sc P' : Circuit} {name : Name} {conns : List (Name × List Name)}
    (hsc : WF sc) (F : SubFacts P sc P' name conns) {n : Name} (hn : P.has n = true)
    (hfb : ∀ q ∈ conns, q.1 ∉ sc.inputs → n ∉ q.2) :
    P'.fanin n = P.fanin n := by
  obtain ⟨x, hx, hx'⟩ := F.ext
  rw [fanin_eq_faninL, hx, faninL_append, faninL_append]
  have h1 : faninL (sc.edges.map (fun e => (pref name e.1, pref name e.2))) n = [] := by
    apply faninL_nil_of
    intro e he e2
    obtain ⟨e0, he0, rfl⟩ := List.mem_map.1 he
    simp only [] at e2
    have := F.clash e0.2 (hsc.closed e0 he0).2
    rw [e2, hn] at this
    cases this
  have h2 : faninL x n = [] := by
    apply faninL_nil_of
    intro e he e2
    obtain ⟨p, hp, hh | hh⟩ := hx' e he
    · obtain ⟨k0, _, k2⟩ := hh
      have := F.clash p.1 (mem_inputs_has k0)
      rw [← k2, e2, hn] at this
      cases this
    · obtain ⟨k0, _, k2⟩ := hh
      rw [e2] at k2
      exact hfb p hp k0 k2
  rw [h1, h2, List.append_nil, List.append_nil]
  rfl

theorem gate_map_pref (t : String) (v : Val) (f : Name → Name) (l : List Name) :
    gateFn t ((l.map f).map v) = gateFn t (l.map (fun n => v (f n))) := by
  rw [List.map_map]; rfl

/-! ### the property theorems (mirrored vocabulary) -/

theorem stripA_ty_ne_input (a : Attr) : (stripA a).ty ≠ some "input" := by
  unfold stripA
  by_cases h : a.ty = some "input"
  · rw [if_pos h]; simp only []; intro e; injection e with e; exact absurd e (by decide)
  · rw [if_neg h]; exact h

theorem stripA_out_false (a : Attr) : (stripA a).out.getD false = false := by
  unfold stripA
  by_cases h : a.out = some true
  · simp only [h, if_true]; rfl
  · simp only [h, if_false]
    cases ho : a.out with
    | none => rfl
    | some b =>
      cases b with
      | false => rfl
      | true => exact absurd ho h

theorem stripA_ty_of_ne {a : Attr} {t : String} (h : a.ty = some t) (hne : t ≠ "input") : (stripA a).ty = some t := by
  unfold stripA
  have : ¬ a.ty = some "input" := by
    rw [h]; intro e; injection e with e; exact hne e
  show (if a.ty = some "input" then some "buf" else a.ty) = some t
  rw [if_neg this]; exact h

theorem SubFacts.io {P sc P' : Circuit} {name : Name} {conns : List (Name × List Name)}
    (F : SubFacts P sc P' name conns) : P'.inputs = P.inputs ∧ P'.outputs = P.outputs := by
  constructor
  · unfold inputs filterType
    rw [F.nodes, List.filter_append, List.map_append]
    conv => rhs; rw [← List.append_nil (List.map _ _)]
    congr 1
    rw [List.map_eq_nil_iff, List.filter_eq_nil_iff]
    intro q hq
    obtain ⟨p, _, rfl⟩ := List.mem_map.1 hq
    simp only []
    split
    · rename_i t ht
      have := stripA_ty_ne_input p.2
      intro hc
      have : t = "input" := by simpa using hc
      subst this
      exact stripA_ty_ne_input p.2 ht
    · simp
  · unfold outputs
    rw [F.nodes, List.filter_append, List.map_append]
    conv => rhs; rw [← List.append_nil (List.map _ _)]
    congr 1
    rw [List.map_eq_nil_iff, List.filter_eq_nil_iff]
    intro q hq
    obtain ⟨p, _, rfl⟩ := List.mem_map.1 hq
    simp only [stripA_out_false]
    decide

theorem SubFacts.sem {P sc P' : Circuit} {name : Name} {conns : List (Name × List Name)}
    (hP : WF P) (hsc : WF sc) (F : SubFacts P sc P' name conns) (v : Val) (hv : Consistent P' v) :
    (∀ p ∈ sc.nodes, ∀ t, p.2.ty = some t → t ≠ "input" →
        (∀ q ∈ conns, q.1 ∉ sc.inputs → pref name p.1 ∉ q.2) →
        NodeOK sc (fun n => v (pref name n)) p.1 t) ∧
    (∀ p ∈ conns, p.1 ∈ sc.inputs → ∀ u ∈ p.2, v (pref name p.1) = v u) ∧
    (∀ p ∈ P.nodes, ∀ t, p.2.ty = some t →
        (∀ q ∈ conns, q.1 ∉ sc.inputs → p.1 ∉ q.2) → NodeOK P v p.1 t) := by
  refine ⟨?_, ?_, ?_⟩
  · intro p hp t ht hne hfb
    have hmem : (pref name p.1, stripA p.2) ∈ P'.nodes := by
      rw [F.nodes]; exact List.mem_append.2 (Or.inr (List.mem_map.2 ⟨p, hp, rfl⟩))
    have hok := hv _ hmem t (stripA_ty_of_ne ht hne)
    have hhas : sc.has p.1 = true := (has_iff_mem sc p.1).2 (List.mem_map.2 ⟨p, hp, rfl⟩)
    have hni : p.1 ∉ sc.inputs := by
      intro hin
      have := (mem_inputs_of_mem hsc.nodup (a := p.2) hp).1 hin
      rw [ht] at this; injection this with this; exact hne this
    intro b hb
    apply hok b
    simp only []
    rw [F.fanin_child hP hsc hhas (fun q _ hq e => hni (e ▸ hq)) hfb, gate_map_pref]
    exact hb
  · intro p hp hin u hu
    obtain ⟨a, ha⟩ := has_exists (mem_inputs_has hin)
    have hty : a.ty = some "input" := (mem_inputs_of_mem hsc.nodup ha).1 hin
    have hmem : (pref name p.1, stripA a) ∈ P'.nodes := by
      rw [F.nodes]; exact List.mem_append.2 (Or.inr (List.mem_map.2 ⟨(p.1, a), ha, rfl⟩))
    have hty' : (stripA a).ty = some "buf" := by simp [stripA, hty]
    have hok := hv _ hmem "buf" hty'
    apply hok
    simp only []
    rw [F.buf p hp hin u hu]
    rfl
  · intro p hp t ht hfb
    have hmem : p ∈ P'.nodes := by rw [F.nodes]; exact List.mem_append.2 (Or.inl hp)
    have hok := hv p hmem t ht
    have hhas : P.has p.1 = true := (has_iff_mem P p.1).2 (List.mem_map.2 ⟨p, hp, rfl⟩)
    intro b hb
    apply hok b
    rw [F.fanin_parent hsc hhas hfb]
    exact hb

/-! ### strip_io and the disjoint union -/

theorem stripIO_view {sc : Circuit} (hsc : WF sc) :
    (Tx.stripIO sc).nodes = sc.nodes.map (fun p => (p.1, stripA p.2)) ∧ (Tx.stripIO sc).edges = sc.edges := by
  unfold Tx.stripIO
  simp only []
  have tn := foldl_setTyRaw_nodes "buf" sc.inputs sc
  obtain ⟨te, _, _⟩ := foldl_setTyRaw_frame "buf" sc.inputs sc
  generalize sc.inputs.foldl (fun acc n => acc.setTyRaw n "buf") sc = S at tn te
  have on := foldl_setOutRaw_nodes false sc.outputs S
  obtain ⟨oe, _, _⟩ := foldl_setOutRaw_frame false sc.outputs S
  generalize sc.outputs.foldl (fun acc n => acc.setOutRaw n false) S = O at on oe
  refine ⟨?_, by rw [oe, te]⟩
  rw [on, tn, List.map_map]
  apply List.map_congr_left
  intro p hp
  obtain ⟨n, a⟩ := p
  have hi := mem_inputs_of_mem hsc.nodup hp
  have ho := mem_outputs_of_mem hsc.nodup hp
  simp only [Function.comp]
  by_cases h1 : a.ty = some "input"
  · have h1' : sc.inputs.contains n = true := List.contains_iff_mem.2 (hi.2 h1)
    simp only [h1', if_true]
    by_cases h2 : a.out = some true
    · have h2' : sc.outputs.contains n = true := List.contains_iff_mem.2 (ho.2 h2)
      simp only [h2', if_true, stripA, h1, h2]
    · have h2' : sc.outputs.contains n = false := by
        cases hh : sc.outputs.contains n with
        | false => rfl
        | true => exact absurd (ho.1 (List.contains_iff_mem.1 hh)) h2
      simp only [h2', Bool.false_eq_true, if_false, stripA, h1, h2, if_true]
  · have h1' : sc.inputs.contains n = false := by
      cases hh : sc.inputs.contains n with
      | false => rfl
      | true => exact absurd (hi.1 (List.contains_iff_mem.1 hh)) h1
    simp only [h1', Bool.false_eq_true, if_false]
    by_cases h2 : a.out = some true
    · have h2' : sc.outputs.contains n = true := List.contains_iff_mem.2 (ho.2 h2)
      simp only [h2', if_true, stripA, h1, h2, if_false]
    · have h2' : sc.outputs.contains n = false := by
        cases hh : sc.outputs.contains n with
        | false => rfl
        | true => exact absurd (ho.1 (List.contains_iff_mem.1 hh)) h2
      simp only [h2', Bool.false_eq_true, if_false, stripA, h1, h2]

theorem SubFacts.disjoint {P sc P' : Circuit} {name : Name}
    (hP : WF P) (hsc : WF sc) (F : SubFacts P sc P' name []) (v : Val) :
    Consistent P' v ↔ (Consistent P v ∧ Consistent (Tx.stripIO sc) (fun n => v (pref name n))) := by
  obtain ⟨sn, se⟩ := stripIO_view hsc
  have hfS : ∀ m, (Tx.stripIO sc).fanin m = sc.fanin m := by
    intro m; rw [fanin_eq_faninL, fanin_eq_faninL, se]
  have hfc : ∀ m, sc.has m = true → P'.fanin (pref name m) = (sc.fanin m).map (pref name) :=
    fun m hm => F.fanin_child hP hsc hm (fun q hq => by cases hq) (fun q hq => by cases hq)
  have hfp : ∀ n, P.has n = true → P'.fanin n = P.fanin n :=
    fun n hn => F.fanin_parent hsc hn (fun q hq => by cases hq)
  constructor
  · intro hv
    constructor
    · intro p hp t ht b hb
      have hmem : p ∈ P'.nodes := by rw [F.nodes]; exact List.mem_append.2 (Or.inl hp)
      apply hv p hmem t ht b
      rw [hfp p.1 ((has_iff_mem P p.1).2 (List.mem_map.2 ⟨p, hp, rfl⟩))]
      exact hb
    · intro q hq t ht b hb
      rw [sn] at hq
      obtain ⟨p, hp, rfl⟩ := List.mem_map.1 hq
      simp only [] at ht hb ⊢
      have hmem : (pref name p.1, stripA p.2) ∈ P'.nodes := by
        rw [F.nodes]; exact List.mem_append.2 (Or.inr (List.mem_map.2 ⟨p, hp, rfl⟩))
      apply hv _ hmem t ht b
      simp only []
      rw [hfc p.1 ((has_iff_mem sc p.1).2 (List.mem_map.2 ⟨p, hp, rfl⟩)), gate_map_pref, ← hfS]
      exact hb
  · rintro ⟨h1, h2⟩ q hq t ht b hb
    rw [F.nodes] at hq
    rcases List.mem_append.1 hq with hq | hq
    · apply h1 q hq t ht b
      rw [← hfp q.1 ((has_iff_mem P q.1).2 (List.mem_map.2 ⟨q, hq, rfl⟩))]
      exact hb
    · obtain ⟨p, hp, rfl⟩ := List.mem_map.1 hq
      simp only [] at ht hb ⊢
      have hmem : (p.1, stripA p.2) ∈ (Tx.stripIO sc).nodes := by
        rw [sn]; exact List.mem_map.2 ⟨p, hp, rfl⟩
      apply h2 _ hmem t ht b
      simp only []
      rw [hfS, ← gate_map_pref, ← hfc p.1 ((has_iff_mem sc p.1).2 (List.mem_map.2 ⟨p, hp, rfl⟩))]
      exact hb

end CG
