/- C20 (second half, insert_registers): one splice step keeps the blackbox registry consistent with the node names -/
import CG.Proofs.LintProdD2
import CG.Proofs.InsRegOps
import CG.Proofs.LintLink
import CG.Props.C20
set_option linter.unusedSimpArgs false
set_option linter.unusedVariables false
set_option linter.unusedSectionVars false
namespace CG
namespace LintProdD
open Circuit InsReg

/-- without blackboxes, a consistent registry means that no node name has a dot (private copy) -/
theorem noDots_of_registryOK {c : Circuit} (hb : c.bbs = []) (hr : C20.RegistryOK c) : LintLink.NoDots c := by
  refine ⟨hb, fun g hg => ?_⟩
  cases hd : hasDot g with
  | false => rfl
  | true =>
    have := hr.1 g ((has_iff_mem c g).1 hg) hd
    rw [hb] at this
    exact absurd rfl this

namespace SpliceL
variable {a b : Circuit} {n r inst : Name} (h : Splice a b n r inst)
include h

/-- **one splice step keeps the registry consistent** when the instance name and the new buffer are dot-free -/
theorem registryOK (hr : C20.RegistryOK a) (hinst : hasDot inst = false) (hrd : hasDot r = false) :
    C20.RegistryOK b := by
  have hnew : b.bbs.lookup inst ≠ none := by
    rw [LintLink.lookup_ne_none_iff]
    exact ⟨(inst, ffBox), by rw [h.bbs]; simp, rfl⟩
  have hpd : dotPrefix (inst ++ ".d") = inst := by rw [← pin_d]; exact LintLink.dotPrefix_pin inst "d" hinst
  have hpq : dotPrefix (inst ++ ".q") = inst := by rw [← pin_q]; exact LintLink.dotPrefix_pin inst "q" hinst
  have hpk : dotPrefix (inst ++ ".clk") = inst := by rw [← pin_k]; exact LintLink.dotPrefix_pin inst "clk" hinst
  constructor
  · intro g hg hd
    rcases has_cases h ((has_iff_mem b g).2 hg) with hm | rfl | rfl | rfl | rfl
    · have := hr.1 g ((has_iff_mem a g).1 hm) hd
      rw [LintLink.lookup_ne_none_iff] at this ⊢
      obtain ⟨q, hq, e⟩ := this
      exact ⟨q, by rw [h.bbs]; exact List.mem_append_left _ hq, e⟩
    · rw [hrd] at hd; cases hd
    · rw [hpd]; exact hnew
    · rw [hpq]; exact hnew
    · rw [hpk]; exact hnew
  · intro p hp hv
    rw [h.bbs, List.mem_append, List.mem_singleton] at hp
    rcases hp with hp | rfl
    · have hkeep : ∀ pin want, (a.attr? pin).bind (·.ty) = some want → (b.attr? pin).bind (·.ty) = some want := by
        intro pin want hpw
        cases ha : a.attr? pin with
        | none => rw [ha] at hpw; cases hpw
        | some x => rw [h.attr_old (Limit.has_of_attr ha), ha]; rw [ha] at hpw; exact hpw
      apply hr.2 p hp
      rcases hv with ⟨g, hg, hv⟩ | ⟨g, hg, hv⟩
      · exact Or.inl ⟨g, hg, fun hc => hv (hkeep _ _ hc)⟩
      · exact Or.inr ⟨g, hg, fun hc => hv (hkeep _ _ hc)⟩
    · rcases hv with ⟨g, hg, hv⟩ | ⟨g, hg, hv⟩
      · simp only [ffBox, List.mem_cons, List.not_mem_nil, or_false] at hg
        rcases hg with rfl | rfl
        · apply hv
          simp only []
          rw [pin_k, attr_k h]
          rfl
        · apply hv
          simp only []
          rw [pin_d, attr_d h]
          rfl
      · simp only [ffBox, List.mem_cons, List.not_mem_nil, or_false] at hg
        subst hg
        apply hv
        simp only []
        rw [pin_q, attr_q h]
        rfl

end SpliceL
end LintProdD
end CG
