/- C02 helper: `Circuit.add` as the Verilog transformer calls it (no fan-out, fan-in possibly containing the node
   itself, a circuit that contains the untyped-for-simulation node `tie_x`). -/
import CG.Proofs.TernaryAdd
import CG.Proofs.VlogNames
namespace CG
namespace VT
open Verilog Circuit Ternary

/-- `Ternary.add_ok` without fan-out, allowing a self-loop and asking for types of the fan-in nodes only -/
theorem add_ok' (t : Circuit) (a : AddArgs) (n : Name)
    (hres : (if a.uid then t.uid a.n else some a.n) = some n)
    (hredef : a.uid = false → a.allowRedef = true)
    (hname : Limit.NameOK n)
    (hty : a.ty ∈ okTypes)
    (h0 : a.ty = "buf" ∨ a.ty = "not" → a.fanin.length ≤ 1 ∧ (a.fanin ≠ [] → ∀ e ∈ t.edges, e.2 ≠ n))
    (h1 : a.ty = "0" ∨ a.ty = "1" ∨ a.ty = "input" → a.fanin = [])
    (hfo : a.fanout = [])
    (hfi : ∀ u ∈ a.fanin, t.has u = true ∨ (a.addConnected = true ∧ Limit.NameOK u))
    (htyped : ∀ u ∈ a.fanin, u ≠ n → t.has u = true → ∃ ty, t.ty? u = some ty ∧ ty ∈ okTypes) :
    ∃ t', t.add a = (t', .ok, n) ∧ AddSpec t a n t' := by
  obtain ⟨f1, f2, f3, f4, f5, f6, f7⟩ := ok_facts hty
  have e := add_eq_addTail t a n hres hredef hname f1
    (by rintro ⟨hl, hc⟩; have := (h0 (f4 hc)).1; omega)
    (by rintro ⟨he, hc⟩; rw [h1 (f5 hc)] at he; simp at he)
  rw [e]
  have c1_has : ∀ x, (t.addNodeAttr n { ty := some a.ty, out := some a.output }).has x = (t.has x || x == n) :=
    addNodeAttr_has t n _
  have c1_self : (t.addNodeAttr n { ty := some a.ty, out := some a.output }).attr? n =
      some { ty := some a.ty, out := some a.output } := by
    rw [addNodeAttr_attr?, if_pos rfl]; cases t.attr? n <;> rfl
  have c1_old : ∀ x, x ≠ n → (t.addNodeAttr n { ty := some a.ty, out := some a.output }).attr? x = t.attr? x :=
    fun x hx => by rw [addNodeAttr_attr?, if_neg hx]
  have c1_edges : (t.addNodeAttr n { ty := some a.ty, out := some a.output }).edges = t.edges :=
    addNodeAttr_edges t n _
  obtain ⟨c2, hc2, s2⟩ := addR2_ok t a n (by
    intro f hf
    unfold acnList at hf
    cases hac : a.addConnected with
    | false => rw [hac] at hf; cases hf
    | true =>
      rw [hac, hfo] at hf
      simp only [if_true, List.append_nil] at hf
      rcases hfi f hf with h | ⟨_, h⟩
      · left; rw [c1_has, h]; rfl
      · exact Or.inr h)
  generalize hc1 : t.addNodeAttr n { ty := some a.ty, out := some a.output } = c1 at *
  have c2n : c2.has n = true := (s2.has n).mpr (Or.inl (by rw [c1_has]; simp))
  have c2_self : c2.attr? n = some { ty := some a.ty, out := some a.output } := by
    rw [s2.attr_old n (by rw [c1_has]; simp), c1_self]
  have c2_old : ∀ x, x ≠ n → t.has x = true → c2.attr? x = t.attr? x := by
    intro x hx hh
    rw [s2.attr_old x (by rw [c1_has, hh]; rfl), c1_old x hx]
  have c2_mono : ∀ x, t.has x = true → c2.has x = true :=
    fun x hh => (s2.has x).mpr (Or.inl (by rw [c1_has, hh]; rfl))
  have c2_fi : ∀ u ∈ a.fanin, c2.has u = true := by
    intro u hu
    rcases hfi u hu with h | ⟨hac, _⟩
    · exact c2_mono u h
    · refine (s2.has u).mpr (Or.inr ?_)
      unfold acnList; rw [hac]; simp [hu]
  have c2_fi_ty : ∀ u ∈ a.fanin, ∃ tu, c2.ty? u = some tu ∧ tu ∈ okTypes := by
    intro u hu
    by_cases hun : u = n
    · subst hun
      exact ⟨a.ty, by rw [ty_of_attr c2_self], hty⟩
    have hcase := hfi u hu
    by_cases hh : t.has u = true
    · obtain ⟨tu, h1, h2⟩ := htyped u hu hun hh
      refine ⟨tu, ?_, h2⟩
      unfold Circuit.ty? at h1 ⊢
      rw [c2_old u hun hh]; exact h1
    · have hh' : t.has u = false := by simpa using hh
      rcases hcase with h | ⟨hac, _⟩
      · exact absurd h hh
      · have : c2.attr? u = some bufAttr := by
          refine s2.attr_new u ?_ ?_
          · rw [c1_has, hh']; simpa using hun
          · unfold acnList; rw [hac]; simp [hu]
        exact ⟨"buf", by rw [ty_of_attr this]; rfl, by decide⟩
  rw [addTail_eq, hc2]
  simp only [bne_self_eq_false, Bool.false_eq_true, if_false]
  obtain ⟨c3, hc3, s3⟩ := connect_ok c2 [n] a.fanout (Or.inr (Or.inl hfo))
  have c3_edges : ∀ e, e ∈ c3.edges ↔ e ∈ t.edges := by
    intro e
    rw [s3.edges, s2.edges, c1_edges, hfo]
    simp
  obtain ⟨c4, hc4, s4⟩ := connect_ok c3 a.fanin [n] (by
    by_cases hfi0 : a.fanin = []
    · exact Or.inl hfi0
    · right; right
      refine Limit.connectCheck_none c3 a.fanin [n] ?_ ?_ ?_ ?_
      · intro u hu; rw [has_congr s3.nodes]; exact c2_fi u hu
      · intro v hv; rw [List.mem_singleton] at hv; rw [hv, has_congr s3.nodes]; exact c2n
      · intro v hv
        rw [List.mem_singleton] at hv; rw [hv]
        refine ⟨a.ty, by rw [ty?_congr s3.nodes, ty_of_attr c2_self], ?_, fun hc => ?_⟩
        · cases hc0 : (T.connectL 0).contains a.ty with
          | false => rfl
          | true => exact absurd (h1 (f6 hc0)) hfi0
        · obtain ⟨hlen, hnoin⟩ := h0 (f7 hc)
          have : c3.fanin n = [] := by
            apply fanin_nil_of
            intro e he
            exact hnoin hfi0 e ((c3_edges e).1 he)
          rw [this]; simpa using hlen
      · intro u hu
        obtain ⟨tu, h1, h2⟩ := c2_fi_ty u hu
        obtain ⟨_, g2, g3, _⟩ := ok_facts h2
        exact ⟨tu, by rw [ty?_congr s3.nodes]; exact h1, g2, g3⟩)
  have hn43 : c4.nodes = c2.nodes := by rw [s4.nodes, s3.nodes]
  refine ⟨c4, ?_, ?_⟩
  · unfold addTail3
    rw [hc3]
    simp only [bne_self_eq_false, Bool.false_eq_true, if_false]
    rw [hc4]
  · constructor
    · intro x
      rw [has_congr hn43, s2.has, c1_has, Bool.or_eq_true, beq_iff_eq]
      unfold acnList
      constructor
      · rintro ((h | h) | h)
        · exact Or.inl h
        · exact Or.inr (Or.inl h)
        · cases hac : a.addConnected with
          | false => rw [hac] at h; cases h
          | true =>
            rw [hac, hfo] at h
            simp only [if_true, List.append_nil] at h
            exact Or.inr (Or.inr ⟨rfl, h⟩)
      · rintro (h | h | ⟨hac, h⟩)
        · exact Or.inl (Or.inl h)
        · exact Or.inl (Or.inr h)
        · right; rw [hac]; simp [h]
    · rw [attr?_congr hn43]; exact c2_self
    · intro x hx hh; rw [attr?_congr hn43]; exact c2_old x hx hh
    · intro x hx hh hh4
      rw [attr?_congr hn43]
      rw [has_congr hn43, s2.has] at hh4
      have hc1x : c1.has x = false := by rw [c1_has, hh]; simpa using hx
      rcases hh4 with h | h
      · rw [hc1x] at h; cases h
      · exact s2.attr_new x hc1x h
    · intro e
      rw [s4.edges, c3_edges, hfo]
      simp
    · intro hnd
      rw [nodeNames_congr hn43]
      apply s2.nodupN
      rw [← hc1]
      exact addNodeAttr_nodup n _ hnd
    · intro hnd
      apply s4.nodupE
      apply s3.nodupE
      rw [s2.edges, c1_edges]
      exact hnd

end VT
end CG
