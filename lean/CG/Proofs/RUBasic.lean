/- basic helper lemmas for C16 (remove_unloaded): data model, `restrict` -/
import CG.Ops
import CG.Sem
namespace CG
namespace RU

/-! ### tables -/

theorem tables_remove_unloaded :
    Generated.remove_unloaded_lists = some Expected.remove_unloaded_lists := by decide

theorem L0 : T.removeUnloadedL 0 = ["bb_input"] := by
  simp [T.removeUnloadedL, tables_remove_unloaded, Expected.remove_unloaded_lists]

theorem L1 : T.removeUnloadedL 1 = ["input", "bb_output"] := by
  simp [T.removeUnloadedL, tables_remove_unloaded, Expected.remove_unloaded_lists]

theorem L2 : T.removeUnloadedL 2 = ["input", "bb_output"] := by
  simp [T.removeUnloadedL, tables_remove_unloaded, Expected.remove_unloaded_lists]

/-! ### basic facts about the data model -/

theorem has_iff (c : Circuit) (n : Name) : c.has n = true ↔ n ∈ c.nodeNames := by
  simp [Circuit.has, Circuit.nodeNames]

theorem has_iff_exists (c : Circuit) (n : Name) : c.has n = true ↔ ∃ a, (n, a) ∈ c.nodes := by
  simp [Circuit.has]

theorem mem_fanout (c : Circuit) (a b : Name) : b ∈ c.fanout a ↔ (a, b) ∈ c.edges := by
  simp [Circuit.fanout]

theorem mem_fanin (c : Circuit) (a b : Name) : a ∈ c.fanin b ↔ (a, b) ∈ c.edges := by
  simp [Circuit.fanin]

theorem lookup_of_mem {α} : ∀ (l : List (Name × α)) (n : Name) (a : α),
    (l.map (·.1)).Nodup → (n, a) ∈ l → l.lookup n = some a
  | [], _, _, _, h => by simp at h
  | (k, x) :: l, n, a, hnd, h => by
    simp only [List.map_cons, List.nodup_cons] at hnd
    simp only [List.mem_cons, Prod.mk.injEq] at h
    by_cases hk : n = k
    · subst hk
      rcases h with h | h
      · simp [List.lookup, h.2]
      · exact absurd (List.mem_map_of_mem (f := (·.1)) h) hnd.1
    · have h' : (n, a) ∈ l := by
        rcases h with h | h
        · exact absurd h.1 hk
        · exact h
      have : (n == k) = false := by simpa using hk
      simp [List.lookup, this, lookup_of_mem l n a hnd.2 h']

theorem attr_of_mem (c : Circuit) (hnd : c.nodeNames.Nodup) (n : Name) (a : Attr)
    (h : (n, a) ∈ c.nodes) : c.attr? n = some a :=
  lookup_of_mem c.nodes n a hnd h

/-! ### the circuit with a list of nodes deleted -/

def restrict (c : Circuit) (rem : List Name) : Circuit :=
  { c with nodes := c.nodes.filter (fun p => !rem.contains p.1),
           edges := c.edges.filter (fun e => !rem.contains e.1 && !rem.contains e.2) }

theorem restrict_nil (c : Circuit) : restrict c [] = c := by
  cases c; simp [restrict]

theorem restrict_removeNode (c : Circuit) (rem : List Name) (n : Name) :
    (restrict c rem).removeNode n = restrict c (n :: rem) := by
  simp only [restrict, Circuit.removeNode, List.filter_filter]
  congr 1
  · apply List.filter_congr
    intro p _
    simp only [List.contains_cons, Bool.not_or]
  · apply List.filter_congr
    intro e _
    simp only [List.contains_cons, Bool.not_or]
    cases (e.1 == n) <;> cases (e.2 == n) <;> cases (rem.contains e.1) <;> cases (rem.contains e.2) <;> rfl

theorem restrict_congr (c : Circuit) (r1 r2 : List Name) (h : ∀ n, n ∈ r1 ↔ n ∈ r2) :
    restrict c r1 = restrict c r2 := by
  have hc : ∀ n, r1.contains n = r2.contains n := by
    intro n
    have := h n
    rw [← List.contains_iff_mem, ← List.contains_iff_mem] at this
    cases h1 : r1.contains n <;> cases h2 : r2.contains n <;> simp_all
  simp only [restrict]
  congr 1
  · apply List.filter_congr; intro p _; rw [hc]
  · apply List.filter_congr; intro e _; rw [hc, hc]

theorem mem_restrict_nodes (c : Circuit) (rem : List Name) (p : Name × Attr) :
    p ∈ (restrict c rem).nodes ↔ p ∈ c.nodes ∧ p.1 ∉ rem := by
  simp [restrict]

theorem mem_restrict_edges (c : Circuit) (rem : List Name) (a b : Name) :
    (a, b) ∈ (restrict c rem).edges ↔ (a, b) ∈ c.edges ∧ a ∉ rem ∧ b ∉ rem := by
  simp [restrict]

theorem restrict_has (c : Circuit) (rem : List Name) (n : Name) :
    (restrict c rem).has n = true ↔ c.has n = true ∧ n ∉ rem := by
  simp only [has_iff_exists, mem_restrict_nodes]
  constructor
  · rintro ⟨a, h1, h2⟩; exact ⟨⟨a, h1⟩, h2⟩
  · rintro ⟨⟨a, h1⟩, h2⟩; exact ⟨a, h1, h2⟩

theorem lookup_filter_key {α} (q : Name → Bool) (n : Name) (hq : q n = true) :
    ∀ l : List (Name × α), (l.filter (fun p => q p.1)).lookup n = l.lookup n
  | [] => rfl
  | (k, x) :: l => by
    by_cases hk : q k = true
    · simp only [List.filter_cons, hk, if_true, List.lookup]
      cases n == k
      · exact lookup_filter_key q n hq l
      · rfl
    · have hne : (n == k) = false := by
        cases h : n == k
        · rfl
        · have : n = k := by simpa using h
          subst this; exact absurd hq hk
      simp only [List.filter_cons, hk, List.lookup, hne]
      exact lookup_filter_key q n hq l

theorem restrict_attr (c : Circuit) (rem : List Name) (n : Name) (h : n ∉ rem) :
    (restrict c rem).attr? n = c.attr? n := by
  simp only [Circuit.attr?, restrict]
  exact lookup_filter_key (fun k => !rem.contains k) n (by simpa using h) c.nodes

theorem restrict_ty (c : Circuit) (rem : List Name) (n : Name) (h : n ∉ rem) :
    (restrict c rem).ty? n = c.ty? n := by
  simp only [Circuit.ty?, restrict_attr c rem n h]

theorem restrict_isOut (c : Circuit) (rem : List Name) (n : Name) (h : n ∉ rem) :
    (restrict c rem).isOut n = c.isOut n := by
  simp only [Circuit.isOut, restrict_attr c rem n h]

theorem fanout_nodup (c : Circuit) (h : c.edges.Nodup) (a : Name) : (c.fanout a).Nodup := by
  unfold Circuit.fanout List.Nodup
  rw [List.pairwise_map]
  refine (List.Pairwise.filter _ h).imp_of_mem ?_
  intro x y hx hy hne
  simp only [List.mem_filter, beq_iff_eq] at hx hy
  intro h2
  apply hne
  rw [Prod.ext_iff]
  exact ⟨hx.2.trans hy.2.symm, h2⟩

theorem fanin_nodup (c : Circuit) (h : c.edges.Nodup) (a : Name) : (c.fanin a).Nodup := by
  unfold Circuit.fanin List.Nodup
  rw [List.pairwise_map]
  refine (List.Pairwise.filter _ h).imp_of_mem ?_
  intro x y hx hy hne
  simp only [List.mem_filter, beq_iff_eq] at hx hy
  intro h2
  apply hne
  rw [Prod.ext_iff]
  exact ⟨h2, hx.2.trans hy.2.symm⟩

theorem restrict_edges_nodup (c : Circuit) (h : c.edges.Nodup) (rem : List Name) :
    (restrict c rem).edges.Nodup := List.Pairwise.filter _ h

theorem length_one_of_all_eq {l : List Name} {n : Name} (hnd : l.Nodup) (hn : n ∈ l)
    (h : ∀ b ∈ l, b = n) : l.length = 1 := by
  match l, hnd, hn, h with
  | [x], _, _, _ => rfl
  | x :: y :: t, hnd, _, h =>
    have hx := h x (by simp)
    have hy := h y (by simp)
    simp [hx, hy] at hnd

theorem all_eq_of_length_one {l : List Name} {n : Name} (hl : l.length = 1) (hn : n ∈ l) :
    ∀ b ∈ l, b = n := by
  match l, hl, hn with
  | [x], _, hn =>
    intro b hb
    simp at hn hb
    rw [hn, hb]

end RU
end CG
