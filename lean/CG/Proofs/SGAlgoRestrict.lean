/- C17 (algorithm) helpers, part 14: comparing the dominator tree of a cone with that of a sub-cone.
   Below a node `u` of the cone of `o`, the part of the dominator tree of the cone of `o` coincides with the dominator
   tree of the cone of `u` itself. -/
import CG.Proofs.SGAlgoStruct
set_option linter.unusedSectionVars false
set_option linter.unusedVariables false
set_option linter.unusedSimpArgs false
namespace CG
namespace SGA
open Query Supergates Q

section
variable (c2 : Circuit) (hwf : WF c2) (hac : Acyclic c2)
include hwf hac

theorem anc_of_mem_cone_ne {u x : Name} (hx : x ∈ coneOf c2 u) (hne : x ≠ u) : Anc c2 x u := by
  rcases ((mem_cone c2 hwf u x).mp hx).cases with h | h
  · exact absurd h hne
  · exact h

/-- a proper member of the sub-cone is not the root of the big cone -/
theorem subcone_ne_root {o u x : Name} (hu : u ∈ coneOf c2 o) (hx : x ∈ coneOf c2 u) (hne : x ≠ u) : x ≠ o := by
  intro h
  subst h
  exact anc_irrefl hac (Plus.trans_star (anc_of_mem_cone_ne c2 hwf hac hx hne) ((mem_cone c2 hwf x u).mp hu))

/-- edges of the digraph of the sub-cone are edges of the digraph of the cone -/
theorem gE_sub_cone {o u a b : Name} (hu : u ∈ coneOf c2 o) (h : gE c2 u a b) : gE c2 o a b := by
  rcases (gE_iff c2 u a b).mp h with ⟨he, hb⟩ | ⟨he, hb, hbu⟩
  · exact (gE_iff c2 o a b).mpr (Or.inl ⟨he, cone_sub c2 hwf hu hb⟩)
  · exact (gE_iff c2 o a b).mpr (Or.inr ⟨he, cone_sub c2 hwf hu hb, subcone_ne_root c2 hwf hac hu hb hbu⟩)

/-- (R1) a path of the sub-cone avoiding `d` extends to one of the cone -/
theorem Rd_lift {o u d y : Name} (hu : u ∈ coneOf c2 o) (hd : d ∈ coneOf c2 u) (hdu : d ≠ u)
    (h : Rd c2 u d y) : Rd c2 o d y := by
  have hdanc : Anc c2 d u := anc_of_mem_cone_ne c2 hwf hac hd hdu
  have huo : AncR c2 u o := (mem_cone c2 hwf o u).mp hu
  have hod : o ≠ d := fun h1 => anc_irrefl hac (Plus.trans_star (h1 ▸ hdanc) huo)
  have hstart : Rd c2 o d u := Rd_back_star c2 hwf huo (Rd_root c2 hod) (by
    intro z hz _ hzd
    subst hzd
    exact anc_irrefl hac (Plus.trans_star hdanc hz))
  induction h with
  | refl _ => exact hstart
  | step _ hedge hc ih => exact .step ih (gE_sub_cone c2 hwf hac hu hedge) hc

theorem SD_restrict {o u d y : Name} (hu : u ∈ coneOf c2 o) (hd : d ∈ coneOf c2 u) (hdu : d ≠ u)
    (h : SD c2 o d y) : SD c2 u d y :=
  ⟨hd, h.2.1, fun hr => h.2.2 (Rd_lift c2 hwf hac hu hd hdu hr)⟩

/-- (R2) below `u`, a path of the cone avoiding `d` can be replaced by one of the sub-cone -/
theorem Rd_lower {o u d x : Name} (hdu : d ≠ u) (hx : ¬ Rd c2 o u x) (h : Rd c2 o d x) : Rd c2 u d x := by
  have key : ∀ y, Rd c2 o d y → Rd c2 o u y ∨ Rd c2 u d y := by
    intro y hy
    induction hy with
    | refl hod =>
      by_cases hou : o = u
      · subst hou; exact Or.inr (.refl _ hod)
      · exact Or.inl (Rd_root c2 hou)
    | @step y z _ hedge hzd ih =>
      by_cases hzu : z = u
      · subst hzu; exact Or.inr (.refl _ (fun h1 => hdu h1.symm))
      · rcases ih with h1 | h1
        · exact Or.inl (.step h1 hedge hzu)
        · by_cases hr : Rd c2 o u z
          · exact Or.inl hr
          · refine Or.inr (.step h1 ?_ hzd)
            have hzc : z ∈ coneOf c2 o := gE_mem c2 hedge
            have hzu' : z ∈ coneOf c2 u := (mem_cone c2 hwf u z).mpr (ancR_of_not_Rd c2 hwf hzc hr)
            rcases (gE_iff c2 o y z).mp hedge with ⟨he, _⟩ | ⟨he, _, _⟩
            · exact (gE_iff c2 u y z).mpr (Or.inl ⟨he, hzu'⟩)
            · exact (gE_iff c2 u y z).mpr (Or.inr ⟨he, hzu', hzu⟩)
  rcases key x h with h1 | h1
  · exact absurd h1 hx
  · exact h1

theorem SD_extend {o u d x : Name} (hu : u ∈ coneOf c2 o) (hdu : d ≠ u) (hx : SD c2 o u x) (h : SD c2 u d x) :
    SD c2 o d x :=
  ⟨cone_sub c2 hwf hu h.1, h.2.1, fun hr => h.2.2 (Rd_lower c2 hwf hac hdu hx.2.2 hr)⟩

/-- (R) below `u` the parent in the cone of `o` is the parent in the cone of `u` -/
theorem par_restrict {o u x : Name} (hx : x ∈ coneOf c2 o) (hux : SD c2 o u x) : par c2 o x = par c2 u x := by
  have hu := hux.1
  have hxu : x ∈ coneOf c2 u := (mem_cone c2 hwf u x).mpr (hux.anc hwf hx).star
  have hxne : x ≠ u := fun h => hux.2.1 h.symm
  obtain ⟨m, hm, hid⟩ := par_spec c2 hwf hac hxu hxne
  rw [hm, par_eq_iff c2 hwf hac hx]
  by_cases hmu : m = u
  · subst hmu
    refine ⟨hux, ?_⟩
    intro d hd
    by_cases hdm : d = m
    · exact Or.inl hdm
    · rcases SD_chain c2 hwf hx hd hux hdm with h1 | h1
      · exact Or.inr h1
      · have hdc : d ∈ coneOf c2 m := (mem_cone c2 hwf m d).mpr (h1.anc hwf hd.1).star
        rcases hid.2 d (SD_restrict c2 hwf hac hu hdc hdm hd) with h2 | h2
        · exact Or.inl h2
        · exact absurd h2 (not_SD_root c2)
  · have hmo : SD c2 o m x := SD_extend c2 hwf hac hu hmu hux hid.1
    have hum : SD c2 o u m := by
      rcases SD_chain c2 hwf hx hux hmo (fun h => hmu h.symm) with h1 | h1
      · exact h1
      · exact (anc_asymm hac (h1.anc hwf hu) (anc_of_mem_cone_ne c2 hwf hac hid.1.1 hmu)).elim
    refine ⟨hmo, ?_⟩
    intro d hd
    by_cases hdu : d = u
    · subst hdu; exact Or.inr hum
    · rcases SD_chain c2 hwf hx hd hux hdu with h1 | h1
      · exact Or.inr (SD_trans c2 hwf hac h1 hum hmo.1)
      · have hdc : d ∈ coneOf c2 u := (mem_cone c2 hwf u d).mpr (h1.anc hwf hd.1).star
        rcases hid.2 d (SD_restrict c2 hwf hac hu hdc hdu hd) with h2 | h2
        · exact Or.inl h2
        · exact Or.inr (SD_extend c2 hwf hac hu hdu hum h2)

end

end SGA
end CG
