/- C17 (super-circuit) helpers, part 6: one iteration of the loop over the supergates (`superStep`) -/
import CG.Proofs.SGSuperBuildC
namespace CG
namespace SGSuper
namespace Build
open Supergates SGA Circuit

theorem lookup_insts_none (k : Name) : ∀ (l : List (Found × Circuit)), (∀ q ∈ l, inst q.1.head ≠ k) →
    (l.map (fun q => (inst q.1.head, bbOf q))).lookup k = none
  | [], _ => rfl
  | q :: l, h => by
    have h1 : (k == inst q.1.head) = false := by
      rw [beq_eq_false_iff_ne]
      exact fun e => h q List.mem_cons_self e.symm
    rw [List.map_cons, List.lookup_cons, h1]
    exact lookup_insts_none k l (fun q' hq' => h q' (List.mem_cons_of_mem _ hq'))

theorem heads_ne_last {Kd : List (Found × Circuit)} {p : Found × Circuit}
    (hnd : ((Kd ++ [p]).map (·.1.head)).Nodup) : ∀ q ∈ Kd, q.1.head ≠ p.1.head := by
  intro q hq e
  rw [List.map_append, List.nodup_append] at hnd
  exact hnd.2.2 _ (List.mem_map.mpr ⟨q, hq, rfl⟩) _ (List.mem_map.mpr ⟨p, List.mem_singleton_self p, rfl⟩) e

section
variable {c2 : Circuit} {Kd : List (Found × Circuit)} {s : Circuit}

/-- a node of the partially built super-circuit that is named like a node of `c2` is a net -/
theorem net_of_has (hN : NamesOK c2) (hok : ∀ q ∈ Kd, SGOk c2 q) (D : MixDesc c2 [] Kd s) {x : Name} (hs : s.has x = true)
    (hx : c2.has x = true) : IsNet c2 Kd x := by
  rcases (D.has x).mp hs with h | ⟨q, hq, _⟩ | ⟨q, hq, g, hg, rfl⟩
  · simpa using h
  · exact absurd hq List.not_mem_nil
  · have hg2 : c2.has g = true := by
      rcases List.mem_append.mp hg with h | h
      · exact sg_inputs_has (hok q hq) h
      · rw [List.mem_singleton] at h; rw [h]; exact sg_head_has (hok q hq)
    rw [hN.pinFree _ _ (sg_head_has (hok q hq)) hg2] at hx
    cases hx

end

theorem step_kept (c2 : Circuit) (hN : NamesOK c2) (ord : Ord) (hord : OrdOK ord)
    (Kd : List (Found × Circuit)) (p : Found × Circuit) (s : Circuit)
    (hok : ∀ q ∈ Kd ++ [p], SGOk c2 q) (hnd : ((Kd ++ [p]).map (·.1.head)).Nodup)
    (hk : (internal p.2).isEmpty = false) (D : MixDesc c2 [] Kd s) :
    ∃ s', superStep ord s p = .ok s' ∧ MixDesc c2 [] (Kd ++ [p]) s' := by
  have X : SGOk c2 p := hok p (List.mem_append_right _ (List.mem_singleton_self p))
  have hokd : ∀ q ∈ Kd, SGOk c2 q := fun q hq => hok q (List.mem_append_left _ hq)
  have hne := heads_ne_last hnd
  have hh2 : c2.has p.1.head = true := sg_head_has X
  -- the io list
  have hio : sgIO p.2 ord = ord (p.2.inputs ++ [p.1.head]) := by unfold sgIO; rw [dedup_io X]
  have hio_mem : ∀ x, x ∈ sgIO p.2 ord ↔ (x ∈ p.2.inputs ∨ x = p.1.head) := by
    intro x; rw [hio, (hord _).mem_iff, List.mem_append, List.mem_singleton]
  have hio_nd : (sgIO p.2 ord).Nodup := by
    rw [hio, (hord _).nodup_iff, ← dedup_io X]
    rw [dedup_io X, List.nodup_append]
    refine ⟨sg_inputs_nodup X, by simp, ?_⟩
    intro a ha b hb
    rw [List.mem_singleton] at hb
    subst hb
    exact fun e => X.headInt (e ▸ ha)
  have hio_c2 : ∀ x ∈ sgIO p.2 ord, c2.has x = true := by
    intro x hx
    rcases (hio_mem x).mp hx with h | h
    · exact sg_inputs_has X h
    · rw [h]; exact hh2
  obtain ⟨s1, e1, g⟩ := addBufs (sgIO p.2 ord) s (fun i hi => nameOK_of c2 hN (hio_c2 i hi))
  have hwf1 : WF s1 := by
    refine ⟨g.nodup D.wf.nodup, by rw [g.edges]; exact D.wf.edgesNodup, ?_⟩
    intro e he
    rw [g.edges] at he
    exact ⟨(g.has _).mpr (Or.inl (D.wf.closed e he).1), (g.has _).mpr (Or.inl (D.wf.closed e he).2)⟩
  -- attributes of the io nets in s1
  have hattr1 : ∀ x, IsNet c2 (Kd ++ [p]) x → s1.attr? x =
      some { ty := some (if x ∈ c2.inputs then "input" else "buf"), out := some (decide (x ∈ c2.outputs)) } := by
    intro x hx
    have hx2 : c2.has x = true := isNet_has hok hx
    by_cases hs : s.has x = true
    · rw [g.old x hs]
      exact D.netAttr x (by simpa using net_of_has hN hokd D hs hx2)
    · have hs' : s.has x = false := by simpa using hs
      have hnin : x ∉ c2.inputs := fun h => hs ((D.has x).mpr (Or.inl (Or.inl h)))
      have hnout : x ∉ c2.outputs := fun h => hs ((D.has x).mpr (Or.inl (Or.inr (Or.inl h))))
      have hxio : x ∈ sgIO p.2 ord := by
        rcases hx with h | h | ⟨q, hq, h⟩
        · exact absurd h hnin
        · exact absurd h hnout
        · rcases List.mem_append.mp hq with hq | hq
          · exact absurd ((D.has x).mpr (Or.inl (Or.inr (Or.inr ⟨q, by simpa using hq, h⟩)))) hs
          · rw [List.mem_singleton] at hq; subst hq; exact (hio_mem x).mpr h
      rw [g.new x hxio hs', if_neg hnin]
      simp [hnout]
  have hnet_io : ∀ x ∈ sgIO p.2 ord, IsNet c2 (Kd ++ [p]) x := fun x hx =>
    Or.inr (Or.inr ⟨p, List.mem_append_right _ (List.mem_singleton_self p), (hio_mem x).mp hx⟩)
  -- freshness of the pins
  have hpin_c2 : ∀ g' ∈ (bbOf p).ins ++ (bbOf p).outs, c2.has g' = true := by
    intro g' hg
    rcases List.mem_append.mp hg with h | h
    · exact sg_inputs_has X h
    · have : g' = p.1.head := by simpa [bbOf] using h
      rw [this]; exact hh2
  have hfresh : ∀ g' ∈ (bbOf p).ins ++ (bbOf p).outs, s1.has (inst p.1.head ++ "." ++ g') = false := by
    intro g' hg
    have hg2 := hpin_c2 g' hg
    have hpf : c2.has (pin p.1.head g') = false := hN.pinFree _ _ hh2 hg2
    cases hh : s1.has (inst p.1.head ++ "." ++ g') with
    | false => rfl
    | true =>
      exfalso
      rcases (g.has _).mp hh with h | h
      · rcases (D.has _).mp h with h | ⟨q, hq, _⟩ | ⟨q, hq, g2, hg2', e⟩
        · have := isNet_has hokd (by simpa using h)
          rw [← pin_eq, hpf] at this; cases this
        · exact absurd hq List.not_mem_nil
        · have hg2c : c2.has g2 = true := by
            rcases List.mem_append.mp hg2' with h | h
            · exact sg_inputs_has (hokd q hq) h
            · rw [List.mem_singleton] at h; rw [h]; exact sg_head_has (hokd q hq)
          rw [← pin_eq] at e
          exact hne q hq (hN.pinInj _ _ _ _ hh2 hg2 (sg_head_has (hokd q hq)) hg2c e).1.symm
      · have := hio_c2 _ h
        rw [← pin_eq, hpf] at this; cases this
  have hreg : s1.bbs.lookup (inst p.1.head) = none := by
    rw [g.bbs, D.bbs]
    exact lookup_insts_none _ Kd (fun q hq e => hne q hq (inst_inj e))
  have hconn_mem : ∀ q, q ∈ (sgIO p.2 ord).map (fun i => (i, i)) ↔ (q.1 ∈ sgIO p.2 ord ∧ q.2 = q.1) := by
    intro q
    rw [List.mem_map]
    constructor
    · rintro ⟨i, hi, rfl⟩; exact ⟨hi, rfl⟩
    · rintro ⟨h1, h2⟩; exact ⟨q.1, h1, Prod.ext rfl h2.symm⟩
  have hty1 : ∀ x ∈ sgIO p.2 ord, s1.ty? x = some (if x ∈ c2.inputs then "input" else "buf") := fun x hx =>
    Ternary.ty_of_attr (hattr1 x (hnet_io x hx))
  obtain ⟨s2, e2, hname2, hbbs2, hwf2, hhas2, hold2, _, _, hedges2⟩ :=
    VR.addBlackbox_ok s1 (bbOf p) (inst p.1.head) ((sgIO p.2 ord).map (fun i => (i, i))) ord hord hwf1 hreg
      (nameOK_inst _) (sg_inputs_nodup X) (by simp [bbOf]) (by
        intro g' hg hg'
        have : g' = p.1.head := by simpa [bbOf] using hg'
        exact X.headInt (this ▸ hg)) hfresh
      (by
        have : ((fun x : Name × Name => x.1) ∘ fun i : Name => (i, i)) = id := rfl
        rw [List.map_map, this, List.map_id]; exact hio_nd)
      (by
        intro q hq
        rcases (hio_mem _).mp ((hconn_mem q).mp hq).1 with h | h
        · exact List.mem_append_left _ h
        · exact List.mem_append_right _ (by simp [bbOf, h]))
      (by
        intro q hq e
        have hm := (hconn_mem q).mp hq
        have h1 := (hN.nameOK _ (hio_c2 _ hm.1)).1
        rw [← hm.2, e] at h1
        exact absurd h1 (by decide))
      (by
        intro q hq _
        have hm := (hconn_mem q).mp hq
        refine ⟨_, by rw [hm.2]; exact hty1 _ hm.1, ?_, ?_⟩ <;> split <;> decide)
      (by
        intro q hq ho
        have hm := (hconn_mem q).mp hq
        have hqh : q.1 = p.1.head := by simpa [bbOf] using ho
        rw [hm.2, hqh]
        refine ⟨by rw [hty1 _ ((hio_mem _).mpr (Or.inr rfl)), if_neg (sg_head_not_input X)], ?_⟩
        rw [List.eq_nil_iff_forall_not_mem]
        intro x hx
        have he : (x, p.1.head) ∈ s.edges := by rw [← g.edges]; exact Q.mem_fanin.mp hx
        rcases (D.edges _).mp he with ⟨q', hq', _⟩ | ⟨q', hq', ⟨i, hi, e⟩ | e⟩
        · exact absurd hq' List.not_mem_nil
        · injection e with _ e
          have := hN.pinFree _ _ (sg_head_has (hokd q' hq')) (sg_inputs_has (hokd q' hq') hi)
          rw [← e, hh2] at this; cases this
        · injection e with _ e
          exact hne q' hq' e.symm)
      (by
        intro q hq q' hq' ho ho' _
        have hm := (hconn_mem q).mp hq
        have hm' := (hconn_mem q').mp hq'
        have h1 : q.1 = p.1.head := by simpa [bbOf] using ho
        have h2 : q'.1 = p.1.head := by simpa [bbOf] using ho'
        exact Prod.ext (h1.trans h2.symm) (by rw [hm.2, hm'.2, h1, h2]))
  -- the call
  have hconns : ((sgIO p.2 ord).map (fun i => (i, i))).map (fun q => (q.1, if q.2.isEmpty then [] else [q.2])) =
      (sgIO p.2 ord).map (fun i => (i, [i])) := by
    rw [List.map_map]
    apply List.map_congr_left
    intro i hi
    simp only [Function.comp, (hN.nameOK i (hio_c2 i hi)).1]
    rfl
  rw [hconns] at e2
  refine ⟨s2, ?_, ?_⟩
  · unfold superStep
    simp only [hk, Bool.false_eq_true, if_false]
    rw [e1]
    simp only [bind, Except.bind]
    show liftO (s1.addBlackbox (bbOf p) (inst p.1.head) _ ord) = _
    rw [e2]
    rfl
  · have hpins : ∀ x, (∃ g' ∈ (bbOf p).ins ++ (bbOf p).outs, x = inst p.1.head ++ "." ++ g') ↔
        ∃ g' ∈ p.2.inputs ++ [p.1.head], x = pin p.1.head g' := fun x => Iff.rfl
    refine ⟨hwf2, ?_, ?_, ?_, ?_, ?_⟩
    · rw [hbbs2, g.bbs, D.bbs, List.map_append]; rfl
    · intro x
      rw [hhas2, g.has, D.has, hpins]
      simp only [List.nil_append]
      constructor
      · rintro ((((h | ⟨q, hq, _⟩ | ⟨q, hq, h⟩)) | h) | h)
        · exact Or.inl (isNet_mono (fun q hq => List.mem_append_left _ hq) h)
        · exact absurd hq List.not_mem_nil
        · exact Or.inr (Or.inr ⟨q, List.mem_append_left _ hq, h⟩)
        · exact Or.inl (by simpa using hnet_io x h)
        · exact Or.inr (Or.inr ⟨p, List.mem_append_right _ (List.mem_singleton_self p), h⟩)
      · rintro (h | ⟨q, hq, _⟩ | ⟨q, hq, h⟩)
        · rcases h with h | h | ⟨q, hq, h⟩
          · exact Or.inl (Or.inl (Or.inl (Or.inl h)))
          · exact Or.inl (Or.inl (Or.inl (Or.inr (Or.inl h))))
          · rcases List.mem_append.mp hq with hq | hq
            · exact Or.inl (Or.inl (Or.inl (Or.inr (Or.inr ⟨q, hq, h⟩))))
            · rw [List.mem_singleton] at hq; subst hq
              exact Or.inl (Or.inr ((hio_mem x).mpr h))
        · exact absurd hq List.not_mem_nil
        · rcases List.mem_append.mp hq with hq | hq
          · exact Or.inl (Or.inl (Or.inr (Or.inr ⟨q, hq, h⟩)))
          · rw [List.mem_singleton] at hq; subst hq
            exact Or.inr h
    · intro x hx
      have hx' : IsNet c2 (Kd ++ [p]) x := by simpa using hx
      have h1 : s1.has x = true := by rw [has_eq_isSome, hattr1 x hx']; rfl
      rw [hold2 x h1]
      exact hattr1 x hx'
    · intro q hq; exact absurd hq List.not_mem_nil
    · intro e
      rw [hedges2, g.edges, D.edges]
      constructor
      · rintro ((⟨q, hq, _⟩ | ⟨q, hq, h⟩) | ⟨q, hq, h⟩)
        · exact absurd hq List.not_mem_nil
        · exact Or.inr ⟨q, List.mem_append_left _ hq, h⟩
        · refine Or.inr ⟨p, List.mem_append_right _ (List.mem_singleton_self p), ?_⟩
          have hm := (hconn_mem q).mp hq
          rcases h with ⟨hi, rfl⟩ | ⟨ho, rfl⟩
          · exact Or.inl ⟨q.1, hi, by rw [hm.2]; rfl⟩
          · have h1 : q.1 = p.1.head := by simpa [bbOf] using ho
            right
            rw [hm.2, h1]; rfl
      · rintro (⟨q, hq, _⟩ | ⟨q, hq, h⟩)
        · exact absurd hq List.not_mem_nil
        · rcases List.mem_append.mp hq with hq | hq
          · exact Or.inl (Or.inr ⟨q, hq, h⟩)
          · rw [List.mem_singleton] at hq; subst hq
            right
            rcases h with ⟨i, hi, rfl⟩ | rfl
            · exact ⟨(i, i), (hconn_mem _).mpr ⟨(hio_mem i).mpr (Or.inl hi), rfl⟩, Or.inl ⟨hi, rfl⟩⟩
            · exact ⟨(q.1.head, q.1.head), (hconn_mem _).mpr ⟨(hio_mem _).mpr (Or.inr rfl), rfl⟩,
                Or.inr ⟨by simp [bbOf], rfl⟩⟩

end Build
end SGSuper
end CG
