import CG.Proofs.FastTextPlan
import CG.Proofs.VModTextRunMod
set_option linter.unusedSimpArgs false
set_option linter.unusedVariables false
namespace CG
namespace FT
open Regex BenchText Verilog C14
open VMT (Seg SegL W wc)

theorem wc_idC (c : Char) : wc c = idC.mem c := rfl

theorem W_word {n : Name} (h : Word n) : W n.toList := by
  obtain ⟨⟨x, r, e, hx, hr⟩, _, hk, _⟩ := h
  refine ⟨?_, hk⟩
  intro c hc
  rw [e] at hc
  rw [wc_idC]
  rcases List.mem_cons.1 hc with rfl | hc
  · exact idC_of_idS hx
  · exact hr c hc

/-- a piece of text which, put between a non-word character and a non-empty closed segment, gives a closed segment -/
def Itm (w : List Char) : Prop := ∀ (c : Char) (r : List Char), wc c = false → Seg r → r ≠ [] → Seg (c :: (w ++ r))

theorem Itm.nil : Itm [] := fun c r hc hr _ => by simpa using Seg.sym hc hr

theorem Itm.word {w : List Char} (h : W w) : Itm w := fun c r hc hr hne => Seg.symWord hc h hr hne

theorem Itm.op {o : ROp} (h : OpOK o) : Itm (opT o) := by
  cases o with
  | net n => exact Itm.word (W_word h)
  | c0 =>
    intro c r hc hr hne
    have e : opT ROp.c0 = ['1'] ++ '\'' :: ('b' :: "0".toList) := by decide
    rw [e]
    simp only [List.append_assoc, List.cons_append]
    exact Seg.symWord hc VMT.W.one (Seg.symWord VMT.nw_quote (VMT.W.bit (Or.inl rfl)) hr hne) (by simp)
  | c1 =>
    intro c r hc hr hne
    have e : opT ROp.c1 = ['1'] ++ '\'' :: ('b' :: "1".toList) := by decide
    rw [e]
    simp only [List.append_assoc, List.cons_append]
    exact Seg.symWord hc VMT.W.one (Seg.symWord VMT.nw_quote (VMT.W.bit (Or.inr (Or.inl rfl))) hr hne) (by simp)

theorem Itm.pin {n o : List Char} (hn : W n) (ho : Itm o) : Itm (pinT n o) := by
  intro c r hc hr hne
  have h1 : Seg ('(' :: (o ++ ')' :: r)) := ho '(' (')' :: r) VMT.nw_lparen (Seg.sym VMT.nw_rparen hr) (by simp)
  have := Seg.sym hc (Seg.symWord VMT.nw_dot hn h1 (by simp))
  simpa [pinT] using this

theorem commaSep_one (w : List Char) : commaSep [w] = w := by simp [commaSep, List.intercalate]
theorem commaSep_cons₂ (w w' : List Char) (ws : List (List Char)) :
    commaSep (w :: w' :: ws) = w ++ ',' :: ' ' :: commaSep (w' :: ws) := by
  simp [commaSep, List.intercalate_cons_cons]

theorem Itm.commas : ∀ (ws : List (List Char)), (∀ w ∈ ws, Itm w) → Itm (commaSep ws)
  | [], _ => by
    have : commaSep [] = [] := by simp [commaSep, List.intercalate]
    rw [this]; exact Itm.nil
  | [w], h => by rw [commaSep_one]; exact h w (by simp)
  | w :: w' :: ws, h => by
    intro c r hc hr hne
    have ih := Itm.commas (w' :: ws) (fun x hx => h x (by simp [hx])) ' ' r VMT.nw_sp hr hne
    rw [commaSep_cons₂]
    simp only [List.append_assoc, List.cons_append]
    exact h w (by simp) c _ hc (Seg.sym VMT.nw_comma ih) (by simp)

theorem W_kInput : W kInput := VMT.W.lit (by decide) (by decide)
theorem W_kOutput : W kOutput := VMT.W.lit (by decide) (by decide)
theorem W_kWire : W kWire := VMT.W.lit (by decide) (by decide)
theorem W_kAssign : W kAssign := VMT.W.lit (by decide) (by decide)
theorem W_kModule : W kModule := VMT.W.lit (by decide) (by decide)

theorem seg_tail : Seg [';', '\n'] := Seg.sym VMT.nw_semi (Seg.one VMT.nw_nl)
theorem seg_tail3 : Seg [')', ';', '\n'] := Seg.sym VMT.nw_rparen seg_tail

theorem seg_decl {kw : List Char} (hk : W kw) {i : Name} (hi : Word i) : Seg (declLine kw i.toList) :=
  Seg.sym VMT.nw_sp (Seg.symWord VMT.nw_sp hk (Seg.symWord VMT.nw_sp (W_word hi) seg_tail (by simp)) (by simp))

theorem seg_stmt {s : RStmt} (h : StmtOK s) : Seg (stmtLine s) := by
  cases s with
  | gate ty inst out ops =>
    obtain ⟨hty, hinst, hout, hops⟩ := h
    have hargs : Itm (commaSep (out.toList :: ops.map opT)) := by
      apply Itm.commas
      intro w hw
      rcases List.mem_cons.1 hw with rfl | hw
      · exact Itm.word (W_word hout)
      · obtain ⟨o, ho, rfl⟩ := List.mem_map.1 hw
        exact Itm.op (hops o ho)
    have h1 := hargs '(' _ VMT.nw_lparen seg_tail3 (by simp)
    exact Seg.sym VMT.nw_sp (Seg.symWord VMT.nw_sp (W_word hty) (Seg.symWord VMT.nw_sp (W_word hinst) h1 (by simp)) (by simp))
  | assign l r =>
    obtain ⟨hl, hr⟩ := h
    have h1 := Itm.op hr ' ' _ VMT.nw_sp seg_tail (by simp)
    exact Seg.sym VMT.nw_sp (Seg.symWord VMT.nw_sp W_kAssign (Seg.symWord VMT.nw_sp (W_word hl)
      (Seg.sym VMT.nw_sp (Seg.sym VMT.nw_eq h1)) (by simp)) (by simp))
  | bb ty inst pins =>
    obtain ⟨hty, hinst, _, hpins⟩ := h
    have hargs : Itm (pinsT (pins.map pinOf)) := by
      unfold pinsT
      apply Itm.commas
      intro w hw
      obtain ⟨q, hq, rfl⟩ := List.mem_map.1 hw
      obtain ⟨p, hp, rfl⟩ := List.mem_map.1 hq
      obtain ⟨hp1, hp2⟩ := hpins p hp
      apply Itm.pin (W_word hp1)
      obtain ⟨pn, po⟩ := p
      cases po with
      | none => exact Itm.nil
      | some o => exact Itm.op (hp2 o rfl)
    have h1 := hargs '(' _ VMT.nw_lparen seg_tail3 (by simp)
    exact Seg.sym VMT.nw_sp (Seg.symWord VMT.nw_sp (W_word hty) (Seg.symWord VMT.nw_sp (W_word hinst)
      (Seg.sym VMT.nw_sp h1) (by simp)) (by simp))

theorem body_seg (r : RMod) (wires : List Name) (h : TOK r wires) : Seg (bodyT r wires) := by
  have h1 : ∀ l ∈ r.inputs.map (fun i => declLine kInput i.toList), Seg l := by
    intro l hl
    obtain ⟨i, hi, rfl⟩ := List.mem_map.1 hl
    exact seg_decl W_kInput (h.inputs i hi)
  have h2 : ∀ l ∈ r.outputs.map (fun i => declLine kOutput i.toList), Seg l := by
    intro l hl
    obtain ⟨i, hi, rfl⟩ := List.mem_map.1 hl
    exact seg_decl W_kOutput (h.outputs i hi)
  have h3 : ∀ l ∈ wires.map (fun i => declLine kWire i.toList), Seg l := by
    intro l hl
    obtain ⟨i, hi, rfl⟩ := List.mem_map.1 hl
    exact seg_decl W_kWire (h.wires i hi)
  have h4 : ∀ l ∈ r.stmts.map stmtLine, Seg l := by
    intro l hl
    obtain ⟨s, hs, rfl⟩ := List.mem_map.1 hl
    exact seg_stmt (h.stmts s hs)
  exact Seg.sym VMT.nw_nl ((Seg.flatten h1).append (Seg.sym VMT.nw_nl ((Seg.flatten h2).append (Seg.sym VMT.nw_nl
    ((Seg.flatten h3).append (Seg.sym VMT.nw_nl (Seg.flatten h4)))))))

theorem head_segL (r : RMod) (wires : List Name) (h : TOK r wires) :
    SegL (kModule ++ ' ' :: (r.name.toList ++ ' ' :: '(' :: (portsT r ++ ')' :: ';' :: bodyT r wires))) := by
  have hports : Itm (portsT r) := by
    unfold portsT
    apply Itm.commas
    intro w hw
    obtain ⟨n, hn, rfl⟩ := List.mem_map.1 hw
    rcases List.mem_append.1 hn with hn | hn
    · exact Itm.word (W_word (h.inputs n hn))
    · exact Itm.word (W_word (h.outputs n hn))
  have hb : Seg (')' :: ';' :: bodyT r wires) := Seg.sym VMT.nw_rparen (Seg.sym VMT.nw_semi (body_seg r wires h))
  have hp := hports '(' _ VMT.nw_lparen hb (by simp)
  have hn := Seg.symWord VMT.nw_sp (W_word h.name) (Seg.sym VMT.nw_sp hp) (by simp)
  exact SegL.word W_kModule hn (by simp)

theorem pre_brkL (r : RMod) (wires : List Name) (h : TOK r wires) :
    VMT.BrkL (kModule ++ ' ' :: (r.name.toList ++ ' ' :: '(' :: (portsT r ++ ')' :: ';' :: bodyT r wires))) :=
  (head_segL r wires h).2

theorem text_unique (r : RMod) (wires : List Name) (h : TOK r wires) (a b : List Char)
    (e : kModule ++ ' ' :: (r.name.toList ++ ' ' :: '(' :: (portsT r ++ ')' :: ';' :: (bodyT r wires ++ VMT.kwE ++ ['\n']))) = a ++ VMT.kwE ++ b)
    (hl : VMT.BrkL a) (hr : VMT.BrkR b) : b = ['\n'] := by
  obtain ⟨hno, hbrk⟩ := head_segL r wires h
  have e' : (kModule ++ ' ' :: (r.name.toList ++ ' ' :: '(' :: (portsT r ++ ')' :: ';' :: bodyT r wires))) ++ (VMT.kwE ++ ['\n']) =
      a ++ VMT.kwE ++ b := by
    rw [← e]; simp
  rcases VMT.split e' (Or.inl hbrk) with ⟨post', h1, h2⟩ | ⟨pre', h1, _⟩
  · exact absurd ⟨a, post', h1, hl, VMT.brkR_left (h2 ▸ hr)⟩ hno
  · exact VMT.kw_tail h1

end FT
end CG
