/- C14 helper: two circuits that both realise the specification circuit (with constant nodes `tie0`/`tie1` resp.
   `tie_0`/`tie_1`) are the same up to renaming; inputs, outputs, valuations, lint facts. -/
import CG.Proofs.FastFacts
import CG.Proofs.LimitGate
namespace CG
namespace FV
open Verilog FastVerilog Circuit

/-! ### the renaming -/

theorem tieMap_of_ne {n : Name} (h0 : n ≠ "tie0") (h1 : n ≠ "tie1") : tieMap n = n := by
  unfold tieMap; rw [if_neg h0, if_neg h1]

/-- names that are not the full reader's constant nodes: `tieMap` is injective on them -/
def NoUS (n : Name) : Prop := n ≠ "tie_0" ∧ n ≠ "tie_1"

theorem tieMap_inj {x y : Name} (hx : NoUS x) (hy : NoUS y) (h : tieMap x = tieMap y) : x = y := by
  unfold tieMap at h
  by_cases hx0 : x = "tie0" <;> by_cases hy0 : y = "tie0" <;> by_cases hx1 : x = "tie1" <;> by_cases hy1 : y = "tie1" <;>
    simp only [hx0, hy0, hx1, hy1, if_true, if_false] at h <;> first
      | (rw [hx0, hy0]) | (rw [hx1, hy1]) | exact h
      | (exact absurd h (by decide)) | (exact absurd h.symm hy.1) | (exact absurd h.symm hy.2)
      | (exact absurd h hx.1) | (exact absurd h hx.2) | (subst hx0; exact absurd hx1 (by decide))
      | (subst hy0; exact absurd hy1 (by decide))

theorem tieMap_ne_fast (x : Name) : tieMap x ≠ "tie0" ∧ tieMap x ≠ "tie1" := by
  unfold tieMap
  by_cases h0 : x = "tie0"
  · rw [if_pos h0]; exact ⟨by decide, by decide⟩
  · rw [if_neg h0]
    by_cases h1 : x = "tie1"
    · rw [if_pos h1]; exact ⟨by decide, by decide⟩
    · rw [if_neg h1]; exact ⟨h0, h1⟩

theorem tieMap_nm {a : ROp} (hv : a.Valid "tie0" "tie1") : tieMap (a.nm "tie0" "tie1") = a.nm "tie_0" "tie_1" := by
  cases a with
  | net n => exact tieMap_of_ne hv.1 hv.2
  | c0 => rfl
  | c1 => rfl

theorem lookup_map_tie {β : Type} : ∀ (l : List (Name × β)) (x : Name), (∀ p ∈ l, NoUS p.1) → NoUS x →
    (l.map (fun p => (tieMap p.1, p.2))).lookup (tieMap x) = l.lookup x
  | [], _, _, _ => rfl
  | p :: l, x, hl, hx => by
    rw [List.map_cons, List.lookup_cons, List.lookup_cons,
      lookup_map_tie l x (fun q hq => hl q (by simp [hq])) hx]
    by_cases e : x = p.1
    · simp [e]
    · have : tieMap x ≠ tieMap p.1 := fun e' => e (tieMap_inj hx (hl p (by simp)) e')
      rw [beq_false_of_ne this, beq_false_of_ne e]

theorem lookup_map_tie_none {β : Type} : ∀ (l : List (Name × β)) (n : Name), (n = "tie0" ∨ n = "tie1") →
    (l.map (fun p => (tieMap p.1, p.2))).lookup n = none
  | [], _, _ => rfl
  | p :: l, n, hn => by
    rw [List.map_cons, List.lookup_cons, lookup_map_tie_none l n hn]
    have : n ≠ tieMap p.1 := by
      rcases hn with rfl | rfl
      · exact (tieMap_ne_fast p.1).1.symm
      · exact (tieMap_ne_fast p.1).2.symm
    rw [beq_false_of_ne this]

theorem option_ext {α : Type} {x y : Option α} (h : ∀ a, x = some a ↔ y = some a) : x = y := by
  cases x with
  | none =>
    cases y with
    | none => rfl
    | some b => exact ((h b).2 rfl).symm ▸ rfl
  | some a => exact ((h a).1 rfl).symm

/-! ### consequences of `Spec` -/

section
variable {r : RMod} {bbs : List BBox}

theorem nodeSpec_name (h : Restricted r bbs) {t0 t1 n : Name} {a : Option String × Bool}
    (hs : NodeSpec r bbs t0 t1 n a) :
    n ∉ ["tie0", "tie1", "tie_0", "tie_1", "tie_x"] ∨ n = t0 ∨ n = t1 := by
  rcases hs with ⟨t, ht, _⟩ | ⟨rfl, _⟩ | ⟨rfl, _⟩ | ⟨hfl, _⟩
  · exact Or.inl (defTy_not_tie (RL.of_restricted h) ht)
  · exact Or.inr (Or.inl rfl)
  · exact Or.inr (Or.inr rfl)
  · exact Or.inl (floating_plain h.stmts hfl).2.2.2.2

theorem nodeSpec_rename (h : Restricted r bbs) {n : Name} {a : Option String × Bool} (hn : NoUS n) :
    NodeSpec r bbs "tie0" "tie1" n a ↔ NodeSpec r bbs "tie_0" "tie_1" (tieMap n) a := by
  have hrl := RL.of_restricted h
  by_cases h0 : n = "tie0"
  · subst h0
    have e : tieMap "tie0" = "tie_0" := rfl
    rw [e]
    constructor
    · rintro (⟨t, ht, _⟩ | ⟨_, ha, hc⟩ | ⟨hc, _⟩ | ⟨hfl, _⟩)
      · exact absurd (defTy_not_tie hrl ht) (by decide)
      · exact Or.inr (Or.inl ⟨rfl, ha, hc⟩)
      · exact absurd hc (by decide)
      · exact absurd (floating_plain h.stmts hfl).2.2.2.2 (by decide)
    · rintro (⟨t, ht, _⟩ | ⟨_, ha, hc⟩ | ⟨hc, _⟩ | ⟨hfl, _⟩)
      · exact absurd (defTy_not_tie hrl ht) (by decide)
      · exact Or.inr (Or.inl ⟨rfl, ha, hc⟩)
      · exact absurd hc (by decide)
      · exact absurd (floating_plain h.stmts hfl).2.2.2.2 (by decide)
  by_cases h1 : n = "tie1"
  · subst h1
    have e : tieMap "tie1" = "tie_1" := rfl
    rw [e]
    constructor
    · rintro (⟨t, ht, _⟩ | ⟨hc, _⟩ | ⟨_, ha, hc⟩ | ⟨hfl, _⟩)
      · exact absurd (defTy_not_tie hrl ht) (by decide)
      · exact absurd hc (by decide)
      · exact Or.inr (Or.inr (Or.inl ⟨rfl, ha, hc⟩))
      · exact absurd (floating_plain h.stmts hfl).2.2.2.2 (by decide)
    · rintro (⟨t, ht, _⟩ | ⟨hc, _⟩ | ⟨_, ha, hc⟩ | ⟨hfl, _⟩)
      · exact absurd (defTy_not_tie hrl ht) (by decide)
      · exact absurd hc (by decide)
      · exact Or.inr (Or.inr (Or.inl ⟨rfl, ha, hc⟩))
      · exact absurd (floating_plain h.stmts hfl).2.2.2.2 (by decide)
  rw [tieMap_of_ne h0 h1]
  constructor
  · rintro (hd | ⟨hc, _⟩ | ⟨hc, _⟩ | hfl)
    · exact Or.inl hd
    · exact absurd hc h0
    · exact absurd hc h1
    · exact Or.inr (Or.inr (Or.inr hfl))
  · rintro (hd | ⟨hc, _⟩ | ⟨hc, _⟩ | hfl)
    · exact Or.inl hd
    · exact absurd hc hn.1
    · exact absurd hc hn.2
    · exact Or.inr (Or.inr (Or.inr hfl))

variable {cf cv : Circuit}

theorem spec_has {t0 t1 : Name} {c : Circuit} (hs : Spec r bbs t0 t1 c) {x : Name} (hx : c.has x = true) :
    ∃ a, NodeSpec r bbs t0 t1 x a := by
  rw [has_eq_isSome] at hx
  cases ha : c.attr? x with
  | none => rw [ha] at hx; cases hx
  | some a => exact ⟨_, (hs.node x _).1 (by unfold view; rw [ha]; rfl)⟩

/-- the fast reader's circuit has no node called `tie_0` / `tie_1` -/
theorem fast_noUS (h : Restricted r bbs) (hf : Spec r bbs "tie0" "tie1" cf) {x : Name} (hx : cf.has x = true) : NoUS x := by
  obtain ⟨a, ha⟩ := spec_has hf hx
  rcases nodeSpec_name h ha with h1 | rfl | rfl
  · simp only [List.mem_cons, List.not_mem_nil, or_false, not_or] at h1
    exact ⟨h1.2.2.1, h1.2.2.2.1⟩
  · exact ⟨by decide, by decide⟩
  · exact ⟨by decide, by decide⟩

theorem fast_noUS_nodes (h : Restricted r bbs) (hf : Spec r bbs "tie0" "tie1" cf) : ∀ p ∈ cf.nodes, NoUS p.1 :=
  fun p hp => fast_noUS h hf ((has_iff_mem cf p.1).2 (List.mem_map.2 ⟨p, hp, rfl⟩))

theorem view_rename (h : Restricted r bbs) (hf : Spec r bbs "tie0" "tie1" cf) {x : Name} (hx : NoUS x) :
    view (renameTies cf) (tieMap x) = view cf x := by
  unfold view renameTies Circuit.attr?
  simp only []
  rw [lookup_map_tie cf.nodes x (fast_noUS_nodes h hf) hx]

theorem rename_edges (h : Restricted r bbs) (e : Name × Name) :
    (∃ e0, EdgeOf bbs r.stmts "tie0" "tie1" e0 ∧ e = (tieMap e0.1, tieMap e0.2)) ↔ EdgeOf bbs r.stmts "tie_0" "tie_1" e := by
  have hrl := RL.of_restricted h
  have key : ∀ s ∈ r.stmts, ∀ a b, s.edge bbs a b →
      (tieMap (a.nm "tie0" "tie1"), tieMap b) = (a.nm "tie_0" "tie_1", b) := by
    intro s hs a b hab
    rw [tieMap_nm (edge_src_valid (h.stmts s hs) hab (by decide) (by decide))]
    obtain ⟨t, ht⟩ := edge_tgt hab
    have := defTy_not_tie hrl (Or.inr ⟨s, hs, ht⟩ : DefTy bbs r.inputs r.stmts b t)
    simp only [List.mem_cons, List.not_mem_nil, or_false, not_or] at this
    rw [tieMap_of_ne this.1 this.2.1]
  constructor
  · rintro ⟨e0, ⟨s, hs, a, b, hab, rfl⟩, rfl⟩
    exact ⟨s, hs, a, b, hab, key s hs a b hab⟩
  · rintro ⟨s, hs, a, b, hab, rfl⟩
    exact ⟨_, ⟨s, hs, a, b, hab, rfl⟩, (key s hs a b hab).symm⟩

/-- **agreement**: the two realisations are the same circuit up to the names of the constant nodes -/
theorem spec_same (h : Restricted r bbs) (hf : Spec r bbs "tie0" "tie1" cf) (hv : Spec r bbs "tie_0" "tie_1" cv) :
    SameCircuit (renameTies cf) cv := by
  refine ⟨by rw [hv.name]; exact hf.name, ?_, ?_, ?_⟩
  · intro n
    by_cases hn : n = "tie0" ∨ n = "tie1"
    · have e1 : view (renameTies cf) n = none := by
        unfold view renameTies Circuit.attr?
        simp only []
        rw [lookup_map_tie_none cf.nodes n hn]; rfl
      rw [e1]
      cases hc : view cv n with
      | none => rfl
      | some a =>
        exfalso
        rcases nodeSpec_name h ((hv.node n a).1 hc) with h1 | rfl | rfl
        · rcases hn with rfl | rfl <;> exact h1 (by decide)
        · rcases hn with hn | hn <;> exact absurd hn (by decide)
        · rcases hn with hn | hn <;> exact absurd hn (by decide)
    · rw [not_or] at hn
      -- the fast-side name of `n`
      let x : Name := if n = "tie_0" then "tie0" else if n = "tie_1" then "tie1" else n
      have hx : NoUS x ∧ tieMap x = n := by
        show NoUS (if n = "tie_0" then "tie0" else if n = "tie_1" then "tie1" else n) ∧
          tieMap (if n = "tie_0" then "tie0" else if n = "tie_1" then "tie1" else n) = n
        by_cases h0 : n = "tie_0"
        · rw [if_pos h0, h0]; exact ⟨⟨by decide, by decide⟩, rfl⟩
        · rw [if_neg h0]
          by_cases h1 : n = "tie_1"
          · rw [if_pos h1, h1]; exact ⟨⟨by decide, by decide⟩, rfl⟩
          · rw [if_neg h1]; exact ⟨⟨h0, h1⟩, tieMap_of_ne hn.1 hn.2⟩
      rw [← hx.2, view_rename h hf hx.1]
      apply option_ext
      intro a
      rw [hf.node, hv.node, nodeSpec_rename h hx.1]
  · intro e
    show e ∈ cf.edges.map (fun e => (tieMap e.1, tieMap e.2)) ↔ _
    rw [hv.edges, ← rename_edges h, List.mem_map]
    constructor
    · rintro ⟨e0, he0, rfl⟩; exact ⟨e0, (hf.edges e0).1 he0, rfl⟩
    · rintro ⟨e0, he0, rfl⟩; exact ⟨e0, (hf.edges e0).2 he0, rfl⟩
  · intro q
    show q ∈ cf.bbs ↔ _
    rw [hf.bbs, hv.bbs]

/-! ### inputs and outputs -/

theorem view_of_mem {c : Circuit} (hnd : c.nodeNames.Nodup) {p : Name × Attr} (hp : p ∈ c.nodes) :
    view c p.1 = some (p.2.ty, p.2.out.getD false) := by
  unfold view
  rw [attr?_of_mem hnd (show (p.1, p.2) ∈ c.nodes from hp)]
  rfl

theorem mem_of_view {c : Circuit} {x : Name} {a : Option String × Bool} (h : view c x = some a) :
    ∃ at', (x, at') ∈ c.nodes ∧ a = (at'.ty, at'.out.getD false) := by
  unfold view at h
  cases ha : c.attr? x with
  | none => rw [ha] at h; cases h
  | some at' =>
    rw [ha] at h
    exact ⟨at', attr?_mem ha, by simpa using h.symm⟩

theorem defTy_input (h : Restricted r bbs) {x : Name} : DefTy bbs r.inputs r.stmts x "input" ↔ x ∈ r.inputs := by
  constructor
  · rintro (⟨hx, _⟩ | ⟨s, hs, hd⟩)
    · exact hx
    · rcases dty_cases (h.stmts s hs) hd with ⟨_, _, hg⟩ | ⟨_, _, _, _, _, _, hc | hc⟩
      · exact absurd hg (by decide)
      · exact absurd hc (by decide)
      · exact absurd hc (by decide)
  · exact fun hx => Or.inl ⟨hx, rfl⟩

theorem spec_inputs (h : Restricted r bbs) {t0 t1 : Name} {c : Circuit} (hs : Spec r bbs t0 t1 c) (x : Name) :
    x ∈ c.inputs ↔ x ∈ r.inputs := by
  unfold Circuit.inputs Circuit.filterType
  rw [List.mem_map]
  constructor
  · rintro ⟨p, hp, rfl⟩
    rw [List.mem_filter] at hp
    obtain ⟨hp, hty⟩ := hp
    have hv := view_of_mem hs.wf.nodup hp
    cases hpt : p.2.ty with
    | none => rw [hpt] at hty; cases hty
    | some t =>
      rw [hpt] at hty hv
      have ht : t = "input" := by simpa using hty
      subst ht
      rcases (hs.node _ _).1 hv with ⟨t, ht, e⟩ | ⟨_, e, _⟩ | ⟨_, e, _⟩ | ⟨_, e⟩
      · injection e with e1 _; injection e1 with e1; subst e1
        exact (defTy_input h).1 ht
      · injection e with e1 _; injection e1 with e1; exact absurd e1 (by decide)
      · injection e with e1 _; injection e1 with e1; exact absurd e1 (by decide)
      · injection e with e1 _; injection e1 with e1; exact absurd e1 (by decide)
  · intro hx
    have hn : NodeSpec r bbs t0 t1 x (some "input", decide (x ∈ r.outputs)) :=
      Or.inl ⟨"input", (defTy_input h).2 hx, rfl⟩
    obtain ⟨at', hm, e⟩ := mem_of_view ((hs.node _ _).2 hn)
    injection e with e1 _
    refine ⟨(x, at'), List.mem_filter.2 ⟨hm, ?_⟩, rfl⟩
    simp only [← e1]
    decide

theorem spec_outputs (h : Restricted r bbs) {t0 t1 : Name} {c : Circuit} (hs : Spec r bbs t0 t1 c) (x : Name) :
    x ∈ c.outputs ↔ x ∈ r.outputs := by
  unfold Circuit.outputs
  rw [List.mem_map]
  constructor
  · rintro ⟨p, hp, rfl⟩
    rw [List.mem_filter] at hp
    obtain ⟨hp, ho⟩ := hp
    have hv := view_of_mem hs.wf.nodup hp
    rw [ho] at hv
    rcases (hs.node _ _).1 hv with ⟨t, ht, e⟩ | ⟨_, e, _⟩ | ⟨_, e, _⟩ | ⟨_, e⟩
    · injection e with _ e2
      exact of_decide_eq_true e2.symm
    · injection e with _ e2; cases e2
    · injection e with _ e2; cases e2
    · injection e with _ e2; cases e2
  · intro hx
    obtain ⟨t, ht⟩ := h.out_def hx
    have hn : NodeSpec r bbs t0 t1 x (some t, decide (x ∈ r.outputs)) := Or.inl ⟨t, ht, rfl⟩
    obtain ⟨at', hm, e⟩ := mem_of_view ((hs.node _ _).2 hn)
    injection e with _ e2
    refine ⟨(x, at'), List.mem_filter.2 ⟨hm, ?_⟩, rfl⟩
    simp only [← e2]
    exact decide_eq_true hx

/-! ### valuations -/

theorem spec_consistent (h : Restricted r bbs) (hf : Spec r bbs "tie0" "tie1" cf) (hv : Spec r bbs "tie_0" "tie_1" cv)
    (v : Val) (hc : Consistent cv v) : Consistent cf (fun n => v (tieMap n)) := by
  have hsame := spec_same h hf hv
  intro p hp t hpt b hb
  have hx : NoUS p.1 := fast_noUS_nodes h hf p hp
  -- the node on the other side
  have hv1 := view_of_mem hf.wf.nodup hp
  rw [hpt] at hv1
  have hv2 : view cv (tieMap p.1) = some (some t, p.2.out.getD false) :=
    (hv.node _ _).2 ((nodeSpec_rename h hx).1 ((hf.node _ _).1 hv1))
  obtain ⟨at', hm, e⟩ := mem_of_view hv2
  injection e with e1 _
  have hok := hc (tieMap p.1, at') hm t e1.symm
  -- the fan-in lists agree up to order
  have hperm : (cv.fanin (tieMap p.1)).Perm ((cf.fanin p.1).map tieMap) := by
    rw [List.perm_ext_iff_of_nodup (fanin_nodup hv.wf.edgesNodup _)]
    · intro u
      rw [mem_fanin, ← hsame.2.2.1, List.mem_map]
      show (u, tieMap p.1) ∈ cf.edges.map (fun e => (tieMap e.1, tieMap e.2)) ↔ _
      rw [List.mem_map]
      constructor
      · rintro ⟨e0, he0, e⟩
        injection e with e1 e2
        have h2 := (hf.wf.closed e0 he0).2
        have : e0.2 = p.1 := tieMap_inj (fast_noUS h hf h2) hx e2
        exact ⟨e0.1, mem_fanin.2 (by rw [← this]; exact he0), e1⟩
      · rintro ⟨u0, hu0, rfl⟩
        exact ⟨(u0, p.1), mem_fanin.1 hu0, rfl⟩
    · apply nodup_map_of_inj (fanin_nodup hf.wf.edgesNodup _)
      intro a ha b hb e
      exact tieMap_inj (fast_noUS h hf (hf.wf.closed _ (mem_fanin.1 ha)).1)
        (fast_noUS h hf (hf.wf.closed _ (mem_fanin.1 hb)).1) e
  apply hok b
  rw [Limit.gateFn_perm_any t (hperm.map v), List.map_map]
  exact hb

/-! ### lint -/

theorem spec_types (h : Restricted r bbs) {t0 t1 : Name} {c : Circuit} (hs : Spec r bbs t0 t1 c) {n : Name} {t : String}
    (ht : c.ty? n = some t) : t ∈ Expected.supported_types := by
  unfold Circuit.ty? at ht
  cases ha : c.attr? n with
  | none => rw [ha] at ht; cases ht
  | some a =>
    rw [ha] at ht
    have hv : view c n = some (some t, a.out.getD false) := by
      unfold view; rw [ha]; simp only [Option.map_some]; rw [show a.ty = some t from ht]
    rcases (hs.node _ _).1 hv with ⟨t', ht', e⟩ | ⟨_, e, _⟩ | ⟨_, e, _⟩ | ⟨_, e⟩
    · injection e with e1 _; injection e1 with e1; subst e1
      exact defTy_supported (RL.of_restricted h) ht'
    · injection e with e1 _; injection e1 with e1; subst e1; decide
    · injection e with e1 _; injection e1 with e1; subst e1; decide
    · injection e with e1 _; injection e1 with e1; subst e1; decide

end

end FV
end CG
