/- C03 helper: the blackbox fold of `toWModule` on a writable circuit -/
import CG.Proofs.VRoundWriteB
namespace CG
namespace VR
open Verilog Circuit

theorem bbOutFold_ok {c : Circuit} {ord : Ord} (hord : OrdOK ord) (hc : Wr c) (inst : Name) :
    ∀ (l : List Name) (S : Name → Prop) (r : Circuit × List (Name × Option Expr)), CInv c S r.1 →
    (∀ g ∈ l, c.ty? (pin inst g) = some "bb_output") → (∀ g ∈ l, ¬ S (pin inst g)) → l.Nodup →
    ∃ r' xs, l.foldlM (bbOutStep ord inst) r = .ok (r', r.2 ++ xs) ∧
      CInv c (fun y => S y ∨ ∃ g ∈ l, y = pin inst g) r' ∧ xs.map (·.1) = l ∧ ∀ p ∈ xs, OutConn c inst p
  | [], S, r, hs, _, _, _ =>
    ⟨r.1, [], by simp [List.foldlM_nil]; rfl, hs.congr (fun x => by simp), rfl, by simp⟩
  | g :: l, S, r, hs, hty, hnS, hnd => by
    obtain ⟨r1, x, hx, hs1, hxc⟩ := bbOutStep_ok hord hc r hs inst g (hty g (by simp)) (hnS g (by simp))
    have hnd' := List.nodup_cons.1 hnd
    obtain ⟨r', xs, hxs, hs', hm, hall⟩ := bbOutFold_ok hord hc inst l _ (r1, r.2 ++ [(g, x)]) hs1
      (fun g' hg' => hty g' (by simp [hg']))
      (fun g' hg' => by
        rintro (h | h)
        · exact hnS g' (by simp [hg']) h
        · have := pin_inj_right h
          rw [this] at hg'
          exact hnd'.1 hg')
      hnd'.2
    refine ⟨r', (g, x) :: xs, ?_, hs'.congr ?_, by simp [hm], ?_⟩
    · rw [List.foldlM_cons, hx, Arith.bind_ok, hxs]
      simp
    · intro y
      simp only [List.mem_cons, exists_eq_or_imp, or_assoc]
    · intro p hp
      rcases List.mem_cons.1 hp with rfl | hp
      · exact hxc
      · exact hall p hp

theorem bbSpec_of {c : Circuit} {ord : Ord} (hord : OrdOK ord) (q : Name × BBox)
    (xi xo : List (Name × Option Expr)) (hi : xi.map (·.1) = ord q.2.ins) (ho : xo.map (·.1) = ord q.2.outs)
    (hic : ∀ p ∈ xi, InConn c q.1 p) (hoc : ∀ p ∈ xo, OutConn c q.1 p) :
    BBSpec c q (Item.inst q.2.name [(q.1, Conns.named (xi ++ xo))]) := by
  refine ⟨xi ++ xo, rfl, ?_, ?_⟩
  · rw [List.map_append, hi, ho]
    exact (hord _).append (hord _)
  · intro p hp
    rcases List.mem_append.1 hp with hp | hp
    · left
      refine ⟨?_, hic p hp⟩
      have : p.1 ∈ xi.map (·.1) := List.mem_map_of_mem hp
      rw [hi] at this
      exact (hord _).mem_iff.1 this
    · right
      refine ⟨?_, hoc p hp⟩
      have : p.1 ∈ xo.map (·.1) := List.mem_map_of_mem hp
      rw [ho] at this
      exact (hord _).mem_iff.1 this

theorem bbStep_ok {c : Circuit} {ord : Ord} (hord : OrdOK ord) (hc : Wr c) {S : Name → Prop}
    (s : Circuit × List Item) (hs : CInv c S s.1) (q : Name × BBox) (hq : q ∈ c.bbs)
    (hnS : ∀ g ∈ q.2.outs, ¬ S (pin q.1 g)) :
    ∃ r' it, bbStep ord s q = .ok (r', s.2 ++ [it]) ∧ BBSpec c q it ∧
      CInv c (fun y => S y ∨ ∃ g ∈ q.2.outs, y = pin q.1 g) r' := by
  obtain ⟨hpi, hpo, _, _, _, _, _, hndo, _⟩ := hc.pinsPresent q hq
  obtain ⟨xi, hxi, hmi, hci⟩ := bbInFold_ok hord hc hs q.1 (ord q.2.ins) []
    (fun g hg => hpi g ((hord _).mem_iff.1 hg))
  obtain ⟨r', xo, hxo, hs', hmo, hco⟩ := bbOutFold_ok hord hc q.1 (ord q.2.outs) S (s.1, [] ++ xi) hs
    (fun g hg => hpo g ((hord _).mem_iff.1 hg)) (fun g hg => hnS g ((hord _).mem_iff.1 hg))
    ((hord _).nodup_iff.2 hndo)
  refine ⟨r', _, ?_, bbSpec_of hord q xi xo hmi hmo hci hco, hs'.congr ?_⟩
  · unfold bbStep
    rw [hxi, Arith.bind_ok, hxo, Arith.bind_ok]
    simp only [List.nil_append]
    rfl
  · intro y
    constructor
    · rintro (h | ⟨g, hg, h⟩)
      · exact Or.inl h
      · exact Or.inr ⟨g, (hord _).mem_iff.2 hg, h⟩
    · rintro (h | ⟨g, hg, h⟩)
      · exact Or.inl h
      · exact Or.inr ⟨g, (hord _).mem_iff.1 hg, h⟩

theorem outPin_append_singleton (pre : List (Name × BBox)) (q : Name × BBox) (y : Name) :
    OutPin (pre ++ [q]) y ↔ (OutPin pre y ∨ ∃ g ∈ q.2.outs, y = pin q.1 g) := by
  unfold OutPin
  constructor
  · rintro ⟨q', hq', g, hg, h⟩
    rcases List.mem_append.1 hq' with h1 | h1
    · exact Or.inl ⟨q', h1, g, hg, h⟩
    · rw [List.mem_singleton] at h1; subst h1
      exact Or.inr ⟨g, hg, h⟩
  · rintro (⟨q', hq', g, hg, h⟩ | ⟨g, hg, h⟩)
    · exact ⟨q', List.mem_append_left _ hq', g, hg, h⟩
    · exact ⟨q, by simp, g, hg, h⟩

theorem bbFold_ok {c : Circuit} {ord : Ord} (hord : OrdOK ord) (hc : Wr c) :
    ∀ (l pre : List (Name × BBox)) (s : Circuit × List Item), pre ++ l = c.bbs → CInv c (OutPin pre) s.1 →
    ∃ r' items, l.foldlM (bbStep ord) s = .ok (r', s.2 ++ items) ∧ All2 (BBSpec c) l items ∧
      CInv c (OutPin c.bbs) r'
  | [], pre, s, hpre, hs => by
    rw [List.append_nil] at hpre
    exact ⟨s.1, [], by simp [List.foldlM_nil]; rfl, All2.nil, hpre ▸ hs⟩
  | q :: l, pre, s, hpre, hs => by
    have hq : q ∈ c.bbs := by rw [← hpre]; simp
    have hnd := hc.bbsNodup
    rw [← hpre, List.map_append, List.map_cons] at hnd
    have hqpre : q.1 ∉ pre.map (·.1) := by
      intro h
      exact (List.nodup_append.1 hnd).2.2 _ h _ (by simp) rfl
    have hnS : ∀ g ∈ q.2.outs, ¬ OutPin pre (pin q.1 g) := by
      rintro g hg ⟨q', hq', g', hg', h⟩
      have hq'c : q' ∈ c.bbs := by rw [← hpre]; simp [hq']
      have h1 := (hc.pinsPresent q hq).2.2.1.2.2.1
      have h2 := (hc.pinsPresent q' hq'c).2.2.1.2.2.1
      have := (pin_inj h1 h2 h).1
      apply hqpre
      rw [this]
      exact List.mem_map_of_mem hq'
    obtain ⟨r1, it, hstep, hspec, hs1⟩ := bbStep_ok hord hc s hs q hq hnS
    obtain ⟨r', items, hfold, hall, hs'⟩ := bbFold_ok hord hc l (pre ++ [q]) (r1, s.2 ++ [it])
      (by rw [List.append_assoc]; exact hpre) (hs1.congr (outPin_append_singleton pre q))
    refine ⟨r', it :: items, ?_, All2.cons hspec hall, hs'⟩
    rw [List.foldlM_cons, hstep, Arith.bind_ok, hfold]
    simp

/-- the blackbox fold succeeds; it leaves the edges that do not start at a blackbox output pin -/
theorem bbFold_spec {c : Circuit} {ord : Ord} (hord : OrdOK ord) (hc : Wr c) :
    ∃ c2 bi, c.bbs.foldlM (bbStep ord) (c, []) = .ok (c2, bi) ∧ All2 (BBSpec c) c.bbs bi ∧
      CInv c (fun x => c.ty? x = some "bb_output") c2 := by
  obtain ⟨c2, bi, h1, h2, h3⟩ := bbFold_ok hord hc c.bbs [] (c, []) rfl
    ((CInv.init hc).congr (fun x => by simp [OutPin]))
  exact ⟨c2, bi, by simpa using h1, h2, h3.congr (fun x => (outPin_iff hc x).symm)⟩

end VR
end CG
