/- C15 helper: the statements the writer emits, described gate by gate -/
import CG.Proofs.BenchSem
set_option linter.unusedSimpArgs false
set_option linter.unusedVariables false
namespace CG
namespace BenchP
open Circuit Ternary Bench

def toS (g : Def) : Stmt := Stmt.gate g.1 g.2.1 g.2.2

/-- the body of the writer's loop over the non-input nodes -/
def wstep (c : Circuit) (ord : Ord) (constInp : Name) (st : List Stmt × Option Name) (n : Name) :
    E (List Stmt × Option Name) :=
  match c.ty? n with
  | none => .error .keyError
  | some t =>
    if T.primitive.contains t then .ok (st.1 ++ [Stmt.gate n t (ord (c.fanin n))], st.2)
    else if t == "0" || t == "1" then
      (match st.2 with
       | some inv => .ok (([] : List Stmt), inv)
       | none => match c.uid (constInp ++ "_inv") with
         | some inv => .ok ([Stmt.gate inv "not" [constInp]], inv)
         | none => .error .fuel) >>= fun r =>
      .ok (st.1 ++ r.1 ++ [Stmt.gate n (if t == "0" then "and" else "or") [constInp, r.2]], some r.2)
    else .error .valueError

theorem toGateStmts_eq (c : Circuit) (ord : Ord) (i : Name) (rest : List Name) (hb : c.bbs = [])
    (ht : ∀ p ∈ c.nodes, p.2.ty.isSome = true) (hi : ord c.inputs = i :: rest) :
    toGateStmts c ord = (ord (c.nodeNames.filter (fun n => !c.inputs.contains n))).foldlM (wstep c ord i) ([], none)
      >>= fun st => pure st.1 := by
  unfold toGateStmts
  have h1 : (!c.bbs.isEmpty) = false := by rw [hb]; rfl
  have h2 : (c.nodes.any fun p => p.2.ty.isNone) = false := by
    rw [List.any_eq_false]
    intro p hp
    have := ht p hp
    cases h : p.2.ty with
    | none => rw [h] at this; cases this
    | some t => simp
  rw [h1, h2, hi]
  rfl

theorem wstep_prim (c : Circuit) (ord : Ord) (i : Name) (st : List Stmt × Option Name) (n : Name) (t : String)
    (h : c.ty? n = some t) (hp : T.primitive.contains t = true) :
    wstep c ord i st n = .ok (st.1 ++ [toS (n, t, ord (c.fanin n))], st.2) := by
  unfold wstep
  rw [h]
  simp only [hp, if_true]
  rfl

theorem wstep_const_some (c : Circuit) (ord : Ord) (i : Name) (l : List Stmt) (inv : Name) (n : Name) (t : String)
    (h : c.ty? n = some t) (hc : t = "0" ∨ t = "1") :
    wstep c ord i (l, some inv) n = .ok (l ++ [toS (n, if t = "0" then "and" else "or", [i, inv])], some inv) := by
  unfold wstep
  rw [h]
  rcases hc with rfl | rfl
  · simp [toS, bind, Except.bind]
    decide
  · simp [toS, bind, Except.bind]
    decide

theorem wstep_const_none (c : Circuit) (ord : Ord) (i : Name) (l : List Stmt) (inv : Name) (n : Name) (t : String)
    (h : c.ty? n = some t) (hc : t = "0" ∨ t = "1") (hu : c.uid (i ++ "_inv") = some inv) :
    wstep c ord i (l, none) n =
      .ok (l ++ [toS (inv, "not", [i]), toS (n, if t = "0" then "and" else "or", [i, inv])], some inv) := by
  unfold wstep
  rw [h]
  rcases hc with rfl | rfl
  · simp only [hu]
    simp [toS, bind, Except.bind]
    decide
  · simp only [hu]
    simp [toS, bind, Except.bind]
    decide

/-- how the gate line `g` written for a node of type `t` looks -/
def GDesc (c : Circuit) (ord : Ord) (i : Name) (invO : Option Name) (g : Def) (t : String) : Prop :=
  (T.primitive.contains t = true ∧ g.2.1 = t ∧ g.2.2 = ord (c.fanin g.1)) ∨
  (t = "0" ∧ g.2.1 = "and" ∧ ∃ inv, invO = some inv ∧ g.2.2 = [i, inv]) ∨
  (t = "1" ∧ g.2.1 = "or" ∧ ∃ inv, invO = some inv ∧ g.2.2 = [i, inv])

/-- the gate lines `gs` written after the nodes `done` were visited; `invO` = the lazily created inverter -/
structure WInv (c : Circuit) (ord : Ord) (i : Name) (done : List Name) (gs : List Def) (invO : Option Name) : Prop where
  doneHas : ∀ x ∈ done, c.has x = true
  mem : ∀ x, x ∈ names gs ↔ (x ∈ done ∨ invO = some x)
  nodup : (names gs).Nodup
  desc : ∀ g ∈ gs, (g.1 ∈ done ∧ ∃ t, c.ty? g.1 = some t ∧ GDesc c ord i invO g t) ∨
    (invO = some g.1 ∧ g.2.1 = "not" ∧ g.2.2 = [i])
  uid : ∀ inv, invO = some inv → c.uid (i ++ "_inv") = some inv ∧ ((inv, "not", [i]) : Def) ∈ gs ∧
    ∃ n ∈ done, c.ty? n = some "0" ∨ c.ty? n = some "1"

theorem WInv.init (c : Circuit) (ord : Ord) (i : Name) : WInv c ord i [] [] none :=
  ⟨(fun x hx => by cases hx), (fun x => by simp [names]), List.nodup_nil, (fun g hg => by cases hg),
   (fun inv h => by cases h)⟩

theorem WInv.inv_fresh {c : Circuit} {ord : Ord} {i : Name} {done : List Name} {gs : List Def} {invO : Option Name}
    (h : WInv c ord i done gs invO) {inv : Name} (hi : invO = some inv) : c.has inv = false :=
  (Limit.uid_spec c _ inv (h.uid inv hi).1).1

theorem WInv.not_mem {c : Circuit} {ord : Ord} {i : Name} {done : List Name} {gs : List Def} {invO : Option Name}
    (h : WInv c ord i done gs invO) {n : Name} (hn : c.has n = true) (hnd : n ∉ done) : n ∉ names gs := by
  intro hm
  rcases (h.mem n).mp hm with h1 | h1
  · exact hnd h1
  · rw [h.inv_fresh h1] at hn; cases hn

theorem GDesc.mono {c : Circuit} {ord : Ord} {i : Name} {invO : Option Name} {g : Def} {t : String} {inv : Name}
    (h : GDesc c ord i invO g t) (hi : invO = none ∨ invO = some inv) : GDesc c ord i (some inv) g t := by
  rcases h with h | ⟨h1, h2, inv', h3, h4⟩ | ⟨h1, h2, inv', h3, h4⟩
  · exact Or.inl h
  · rcases hi with hi | hi
    · rw [hi] at h3; cases h3
    · exact Or.inr (Or.inl ⟨h1, h2, inv', by rw [← h3, hi], h4⟩)
  · rcases hi with hi | hi
    · rw [hi] at h3; cases h3
    · exact Or.inr (Or.inr ⟨h1, h2, inv', by rw [← h3, hi], h4⟩)

section steps
variable {c : Circuit} {ord : Ord} {i : Name} {done : List Name} {gs : List Def} {invO : Option Name}

/-- one more line, inverter unchanged -/
theorem WInv.step1 (h : WInv c ord i done gs invO) {n : Name} (hn : c.has n = true) (hnd : n ∉ done) (g : Def)
    (hg1 : g.1 = n) {t : String} (ht : c.ty? n = some t) (hd : GDesc c ord i invO g t)
    (hconst : (t = "0" ∨ t = "1") → invO ≠ none) : WInv c ord i (done ++ [n]) (gs ++ [g]) invO := by
  refine ⟨?_, ?_, ?_, ?_, ?_⟩
  · intro x hx
    rcases List.mem_append.mp hx with h1 | h1
    · exact h.doneHas x h1
    · rw [List.mem_singleton] at h1; rw [h1]; exact hn
  · intro x
    rw [names_append, List.mem_append, h.mem, List.mem_append]
    simp only [names, List.map_cons, List.map_nil, List.mem_singleton, hg1]
    constructor
    · rintro ((h1 | h1) | h1)
      · exact Or.inl (Or.inl h1)
      · exact Or.inr h1
      · exact Or.inl (Or.inr h1)
    · rintro ((h1 | h1) | h1)
      · exact Or.inl (Or.inl h1)
      · exact Or.inr h1
      · exact Or.inl (Or.inr h1)
  · rw [names_append, List.nodup_append]
    refine ⟨h.nodup, by simp [names], ?_⟩
    intro a ha b hb hab
    simp only [names, List.map_cons, List.map_nil, List.mem_singleton, hg1] at hb
    rw [hab, hb] at ha
    exact h.not_mem hn hnd ha
  · intro g' hg'
    rcases List.mem_append.mp hg' with h1 | h1
    · rcases h.desc g' h1 with ⟨h2, h3⟩ | h2
      · exact Or.inl ⟨List.mem_append.mpr (Or.inl h2), h3⟩
      · exact Or.inr h2
    · rw [List.mem_singleton] at h1
      rw [h1]
      exact Or.inl ⟨by rw [hg1]; simp, t, by rw [hg1]; exact ht, hd⟩
  · intro inv hi
    obtain ⟨h1, h2, m, h3, h4⟩ := h.uid inv hi
    exact ⟨h1, List.mem_append.mpr (Or.inl h2), m, List.mem_append.mpr (Or.inl h3), h4⟩

/-- the first constant: the inverter line and the constant's line -/
theorem WInv.step2 (h : WInv c ord i done gs none) {n inv : Name} (hn : c.has n = true) (hnd : n ∉ done)
    (hu : c.uid (i ++ "_inv") = some inv) {t : String} (ht : c.ty? n = some t) (hc : t = "0" ∨ t = "1") :
    WInv c ord i (done ++ [n]) (gs ++ [(inv, "not", [i]), (n, if t = "0" then "and" else "or", [i, inv])])
      (some inv) := by
  have hfresh : c.has inv = false := (Limit.uid_spec c _ inv hu).1
  have hne : n ≠ inv := by rintro rfl; rw [hfresh] at hn; cases hn
  have hmem : ∀ x, x ∈ names gs ↔ x ∈ done := by
    intro x; rw [h.mem]; simp
  refine ⟨?_, ?_, ?_, ?_, ?_⟩
  · intro x hx
    rcases List.mem_append.mp hx with h1 | h1
    · exact h.doneHas x h1
    · rw [List.mem_singleton] at h1; rw [h1]; exact hn
  · intro x
    rw [names_append, List.mem_append, hmem, List.mem_append]
    simp only [names, List.map_cons, List.map_nil, List.mem_cons, List.not_mem_nil, or_false, Option.some.injEq]
    constructor
    · rintro (h1 | h1 | h1)
      · exact Or.inl (Or.inl h1)
      · exact Or.inr h1.symm
      · exact Or.inl (Or.inr h1)
    · rintro ((h1 | h1) | h1)
      · exact Or.inl h1
      · exact Or.inr (Or.inr h1)
      · exact Or.inr (Or.inl h1.symm)
  · rw [names_append, List.nodup_append]
    refine ⟨h.nodup, ?_, ?_⟩
    · simp only [names, List.map_cons, List.map_nil, List.nodup_cons, List.mem_singleton, List.not_mem_nil,
        not_false_eq_true, List.nodup_nil, and_true]
      exact fun e => hne e.symm
    · intro a ha b hb hab
      simp only [names, List.map_cons, List.map_nil, List.mem_cons, List.not_mem_nil, or_false] at hb
      rw [hab] at ha
      have hbd : b ∈ done := (hmem b).mp ha
      rcases hb with hb | hb
      · rw [hb] at hbd; rw [h.doneHas inv hbd] at hfresh; cases hfresh
      · rw [hb] at hbd; exact hnd hbd
  · intro g' hg'
    rcases List.mem_append.mp hg' with h1 | h1
    · rcases h.desc g' h1 with ⟨h2, t', h3, h4⟩ | h2
      · exact Or.inl ⟨List.mem_append.mpr (Or.inl h2), t', h3, h4.mono (Or.inl rfl)⟩
      · exact absurd h2.1 (by simp)
    · simp only [List.mem_cons, List.not_mem_nil, or_false] at h1
      rcases h1 with h1 | h1
      · rw [h1]; exact Or.inr ⟨rfl, rfl, rfl⟩
      · rw [h1]
        refine Or.inl ⟨by simp, t, ht, ?_⟩
        rcases hc with rfl | rfl
        · exact Or.inr (Or.inl ⟨rfl, rfl, inv, rfl, rfl⟩)
        · exact Or.inr (Or.inr ⟨rfl, rfl, inv, rfl, rfl⟩)
  · intro inv' hi
    have : inv' = inv := (Option.some.inj hi).symm
    rw [this]
    exact ⟨hu, by simp, n, by simp, by rcases hc with rfl | rfl <;> simp [ht]⟩
end steps

/-- the writer's loop succeeds and its output is described by `WInv` -/
theorem wfold (c : Circuit) (ord : Ord) (i : Name) : ∀ (rest done : List Name) (gs : List Def) (invO : Option Name),
    WInv c ord i done gs invO → (done ++ rest).Nodup →
    (∀ n ∈ rest, ∃ t, c.ty? n = some t ∧ (T.primitive.contains t = true ∨ t = "0" ∨ t = "1")) →
    ∃ gs' invO', rest.foldlM (wstep c ord i) (gs.map toS, invO) = .ok (gs'.map toS, invO') ∧
      WInv c ord i (done ++ rest) gs' invO'
  | [], done, gs, invO, h, _, _ => ⟨gs, invO, rfl, by simpa using h⟩
  | n :: rest, done, gs, invO, h, hnd, hty => by
    obtain ⟨t, ht, hcase⟩ := hty n (by simp)
    have hn : c.has n = true := has_of_ty? ht
    have hnd1 : n ∉ done := by
      intro hm
      exact (List.nodup_append.mp hnd).2.2 n hm n (by simp) rfl
    have hnd' : ((done ++ [n]) ++ rest).Nodup := by rw [List.append_assoc]; exact hnd
    have hty' : ∀ m ∈ rest, ∃ t, c.ty? m = some t ∧ (T.primitive.contains t = true ∨ t = "0" ∨ t = "1") :=
      fun m hm => hty m (by simp [hm])
    have hp0 : T.primitive.contains "0" = false := by decide
    have hp1 : T.primitive.contains "1" = false := by decide
    rw [List.foldlM_cons]
    rcases hcase with hp | hc
    · -- primitive gate
      have hstep := h.step1 hn hnd1 (n, t, ord (c.fanin n)) rfl ht (Or.inl ⟨hp, rfl, rfl⟩)
        (by rintro (rfl | rfl) <;> simp_all)
      obtain ⟨gs', invO', e, h'⟩ := wfold c ord i rest (done ++ [n]) _ invO hstep hnd' hty'
      refine ⟨gs', invO', ?_, by rw [List.append_assoc] at h'; exact h'⟩
      rw [wstep_prim c ord i _ n t ht hp]
      simp only [bind, Except.bind]
      rw [← e, List.map_append]
      rfl
    · cases hinv : invO with
      | some inv =>
        rw [hinv] at h
        have hstep := h.step1 hn hnd1 (n, if t = "0" then "and" else "or", [i, inv]) rfl ht
          (by
            rcases hc with rfl | rfl
            · exact Or.inr (Or.inl ⟨rfl, rfl, inv, rfl, rfl⟩)
            · exact Or.inr (Or.inr ⟨rfl, rfl, inv, rfl, rfl⟩))
          (fun _ => by simp)
        obtain ⟨gs', invO', e, h'⟩ := wfold c ord i rest (done ++ [n]) _ (some inv) hstep hnd' hty'
        refine ⟨gs', invO', ?_, by rw [List.append_assoc] at h'; exact h'⟩
        rw [wstep_const_some c ord i _ inv n t ht hc]
        simp only [bind, Except.bind]
        rw [← e, List.map_append]
        rfl
      | none =>
        rw [hinv] at h
        have hsome := Limit.uid_isSome c (i ++ "_inv") []
        cases hu : c.uid (i ++ "_inv") with
        | none => rw [hu] at hsome; cases hsome
        | some inv =>
          have hstep := h.step2 hn hnd1 hu ht hc
          obtain ⟨gs', invO', e, h'⟩ := wfold c ord i rest (done ++ [n]) _ (some inv) hstep hnd' hty'
          refine ⟨gs', invO', ?_, by rw [List.append_assoc] at h'; exact h'⟩
          rw [wstep_const_none c ord i _ inv n t ht hc hu]
          simp only [bind, Except.bind]
          rw [← e, List.map_append]
          rfl

end BenchP
end CG
