/- C18 helper: the feedback-arc-set heuristic cuts every cycle -/
import CG.Tx3
import CG.Spec
import CG.Proofs.QueryKahn
import CG.Proofs.Acyclic
namespace CG
namespace AU
open Query Q

/-! ## `firstMax` picks a member -/

theorem foldl_pick (key : Name → Int) : ∀ (xs : List Name) (b : Name),
    xs.foldl (fun best y => if key y > key best then y else best) b = b ∨
    xs.foldl (fun best y => if key y > key best then y else best) b ∈ xs
  | [], _ => Or.inl rfl
  | y :: xs, b => by
    rw [List.foldl_cons]
    by_cases h : key y > key b
    · rw [if_pos h]
      rcases foldl_pick key xs y with h1 | h1
      · rw [h1]; exact Or.inr List.mem_cons_self
      · exact Or.inr (List.mem_cons_of_mem _ h1)
    · rw [if_neg h]
      rcases foldl_pick key xs b with h1 | h1
      · exact Or.inl h1
      · exact Or.inr (List.mem_cons_of_mem _ h1)

theorem firstMax_none (key : Name → Int) (l : List Name) (h : Tx.firstMax key l = none) : l = [] := by
  cases l with
  | nil => rfl
  | cons x xs => simp [Tx.firstMax] at h

theorem firstMax_mem (key : Name → Int) (l : List Name) (n : Name) (h : Tx.firstMax key l = some n) : n ∈ l := by
  cases l with
  | nil => simp [Tx.firstMax] at h
  | cons x xs =>
    simp only [Tx.firstMax, Option.some.injEq] at h
    rcases foldl_pick key xs x with h1 | h1
    · rw [h1] at h; rw [← h]; exact List.mem_cons_self
    · rw [h] at h1; exact List.mem_cons_of_mem _ h1

/-! ## `peel` keeps every name and does not grow the remainder -/

theorem peel_succ (deg : List Name → Name → Nat) (fuel : Nat) (rem acc : List Name) :
    Tx.peel deg (fuel + 1) rem acc =
      if (rem.filter (fun n => deg rem n == 0)).isEmpty then (acc, rem)
      else Tx.peel deg fuel (rem.filter (fun n => !(rem.filter (fun n => deg rem n == 0)).contains n))
        (acc ++ rem.filter (fun n => deg rem n == 0)) := rfl

theorem peel_spec (deg : List Name → Name → Nat) : ∀ (fuel : Nat) (rem acc : List Name),
    (∀ x, (x ∈ acc ∨ x ∈ rem) → (x ∈ (Tx.peel deg fuel rem acc).1 ∨ x ∈ (Tx.peel deg fuel rem acc).2)) ∧
    (Tx.peel deg fuel rem acc).2.length ≤ rem.length
  | 0, rem, acc => ⟨fun _ h => h, Nat.le_refl _⟩
  | fuel + 1, rem, acc => by
    rw [peel_succ]
    by_cases hz : (rem.filter (fun n => deg rem n == 0)).isEmpty = true
    · rw [if_pos hz]; exact ⟨fun _ h => h, Nat.le_refl _⟩
    · rw [if_neg hz]
      have ih := peel_spec deg fuel
        (rem.filter (fun n => !(rem.filter (fun n => deg rem n == 0)).contains n))
        (acc ++ rem.filter (fun n => deg rem n == 0))
      refine ⟨fun x hx => ih.1 x ?_, Nat.le_trans ih.2 (List.length_filter_le _ _)⟩
      rcases hx with hx | hx
      · exact Or.inl (List.mem_append_left _ hx)
      · by_cases hm : x ∈ rem.filter (fun n => deg rem n == 0)
        · exact Or.inl (List.mem_append_right _ hm)
        · refine Or.inr (List.mem_filter.mpr ⟨hx, ?_⟩)
          have hc : (rem.filter (fun n => deg rem n == 0)).contains x = false := by
            rw [Bool.eq_false_iff]
            intro h
            exact hm (by simpa using h)
          rw [hc]; rfl

/-! ## `fasLoop` keeps every name -/

theorem fasLoop_succ (edges : List (Name × Name)) (fuel : Nat) (rem s1 s2 : List Name) :
    Tx.fasLoop edges (fuel + 1) rem s1 s2 =
      if rem.isEmpty then (s1, s2) else
      match Tx.firstMax (fun x =>
          (Tx.outDeg edges (Tx.peel (Tx.inDeg edges)
            ((Tx.peel (Tx.outDeg edges) (rem.length + 1) rem []).2.length + 1)
            (Tx.peel (Tx.outDeg edges) (rem.length + 1) rem []).2 []).2 x : Int) -
          (Tx.inDeg edges (Tx.peel (Tx.inDeg edges)
            ((Tx.peel (Tx.outDeg edges) (rem.length + 1) rem []).2.length + 1)
            (Tx.peel (Tx.outDeg edges) (rem.length + 1) rem []).2 []).2 x : Int))
          (Tx.peel (Tx.inDeg edges)
            ((Tx.peel (Tx.outDeg edges) (rem.length + 1) rem []).2.length + 1)
            (Tx.peel (Tx.outDeg edges) (rem.length + 1) rem []).2 []).2 with
      | none => Tx.fasLoop edges fuel
          (Tx.peel (Tx.inDeg edges)
            ((Tx.peel (Tx.outDeg edges) (rem.length + 1) rem []).2.length + 1)
            (Tx.peel (Tx.outDeg edges) (rem.length + 1) rem []).2 []).2
          (s1 ++ (Tx.peel (Tx.inDeg edges)
            ((Tx.peel (Tx.outDeg edges) (rem.length + 1) rem []).2.length + 1)
            (Tx.peel (Tx.outDeg edges) (rem.length + 1) rem []).2 []).1)
          (s2 ++ (Tx.peel (Tx.outDeg edges) (rem.length + 1) rem []).1)
      | some n => Tx.fasLoop edges fuel
          ((Tx.peel (Tx.inDeg edges)
            ((Tx.peel (Tx.outDeg edges) (rem.length + 1) rem []).2.length + 1)
            (Tx.peel (Tx.outDeg edges) (rem.length + 1) rem []).2 []).2.filter (· != n))
          (s1 ++ (Tx.peel (Tx.inDeg edges)
            ((Tx.peel (Tx.outDeg edges) (rem.length + 1) rem []).2.length + 1)
            (Tx.peel (Tx.outDeg edges) (rem.length + 1) rem []).2 []).1 ++ [n])
          (s2 ++ (Tx.peel (Tx.outDeg edges) (rem.length + 1) rem []).1) := rfl

theorem filter_ne_length_lt (l : List Name) (n : Name) (h : n ∈ l) : (l.filter (· != n)).length < l.length := by
  induction l with
  | nil => cases h
  | cons x xs ih =>
    by_cases hx : x = n
    · rw [List.filter_cons_of_neg (by simp [hx])]
      exact Nat.lt_succ_of_le (List.length_filter_le _ _)
    · have hn : n ∈ xs := by
        rcases List.mem_cons.mp h with h | h
        · exact absurd h.symm hx
        · exact h
      rw [List.filter_cons_of_pos (by simpa using hx)]
      simp only [List.length_cons]
      exact Nat.succ_lt_succ (ih hn)

theorem fasLoop_keeps (edges : List (Name × Name)) : ∀ (fuel : Nat) (rem s1 s2 : List Name),
    rem.length ≤ fuel → ∀ x, (x ∈ rem ∨ x ∈ s1 ∨ x ∈ s2) →
      x ∈ (Tx.fasLoop edges fuel rem s1 s2).1 ∨ x ∈ (Tx.fasLoop edges fuel rem s1 s2).2
  | 0, rem, s1, s2 => by
    intro hlen x hx
    have : rem = [] := List.eq_nil_of_length_eq_zero (Nat.le_zero.mp hlen)
    subst this
    rcases hx with hx | hx
    · cases hx
    · exact hx
  | fuel + 1, rem, s1, s2 => by
    intro hlen x hx
    rw [fasLoop_succ]
    by_cases he : rem.isEmpty = true
    · rw [if_pos he]
      have : rem = [] := List.isEmpty_iff.mp he
      subst this
      rcases hx with hx | hx
      · cases hx
      · exact hx
    · rw [if_neg he]
      have hp1 := peel_spec (Tx.outDeg edges) (rem.length + 1) rem []
      generalize Tx.peel (Tx.outDeg edges) (rem.length + 1) rem [] = p1 at hp1 ⊢
      have hp2 := peel_spec (Tx.inDeg edges) (p1.2.length + 1) p1.2 []
      generalize Tx.peel (Tx.inDeg edges) (p1.2.length + 1) p1.2 [] = p2 at hp2 ⊢
      have hl2 : p2.2.length ≤ fuel + 1 := Nat.le_trans hp2.2 (Nat.le_trans hp1.2 hlen)
      -- where `x` lives after the two peels
      have hx' : x ∈ p2.2 ∨ x ∈ s1 ++ p2.1 ∨ x ∈ s2 ++ p1.1 := by
        rcases hx with hx | hx | hx
        · rcases hp1.1 x (Or.inr hx) with h | h
          · exact Or.inr (Or.inr (List.mem_append_right _ h))
          · rcases hp2.1 x (Or.inr h) with h | h
            · exact Or.inr (Or.inl (List.mem_append_right _ h))
            · exact Or.inl h
        · exact Or.inr (Or.inl (List.mem_append_left _ hx))
        · exact Or.inr (Or.inr (List.mem_append_left _ hx))
      split
      · rename_i hfm
        have hnil := firstMax_none _ _ hfm
        refine fasLoop_keeps edges fuel _ _ _ ?_ x hx'
        rw [hnil]; exact Nat.zero_le _
      · rename_i n hfm
        have hmem := firstMax_mem _ _ _ hfm
        have hlt := filter_ne_length_lt _ _ hmem
        refine fasLoop_keeps edges fuel _ _ _ (by omega) x ?_
        rcases hx' with h | h | h
        · by_cases hxn : x = n
          · exact Or.inr (Or.inl (List.mem_append_right _ (by simp [hxn])))
          · exact Or.inl (List.mem_filter.mpr ⟨h, by simpa using hxn⟩)
        · exact Or.inr (Or.inl (List.mem_append_left _ h))
        · exact Or.inr (Or.inr h)

/-! ## the ordering -/

/-- the vertex ordering computed by `approx_min_fas` -/
def ordering (c : Circuit) : List Name :=
  (Tx.fasLoop c.edges (c.nodes.length + 1) c.nodeNames [] []).1 ++
  (Tx.fasLoop c.edges (c.nodes.length + 1) c.nodeNames [] []).2.reverse

theorem approxMinFas_eq (c : Circuit) :
    Tx.approxMinFas c =
      (c.edges.filter (fun e => (ordering c).idxOf e.1 > (ordering c).idxOf e.2)).filter
        (fun e => (descendants c e.2).contains e.1) := rfl

theorem mem_ordering (c : Circuit) (x : Name) (hx : x ∈ c.nodeNames) : x ∈ ordering c := by
  have h := fasLoop_keeps c.edges (c.nodes.length + 1) c.nodeNames [] []
    (by rw [nodeNames_length]; exact Nat.le_succ _) x (Or.inl hx)
  unfold ordering
  rcases h with h | h
  · exact List.mem_append_left _ h
  · exact List.mem_append_right _ (List.mem_reverse.mpr h)

theorem mem_approxMinFas (c : Circuit) (e : Name × Name) :
    e ∈ Tx.approxMinFas c ↔
      (e ∈ c.edges ∧ (ordering c).idxOf e.1 > (ordering c).idxOf e.2) ∧ (descendants c e.2).contains e.1 = true := by
  rw [approxMinFas_eq, List.mem_filter, List.mem_filter]
  simp

theorem fas_sub (c : Circuit) :
    ∀ e ∈ Tx.approxMinFas c, e ∈ c.edges ∧ (descendants c e.2).contains e.1 = true := by
  intro e he
  have h := (mem_approxMinFas c e).mp he
  exact ⟨h.1.1, h.2⟩

/-! ## the cut circuit -/

/-- the circuit with the feedback edges removed -/
abbrev cut (c : Circuit) : Circuit :=
  { c with edges := c.edges.filter (fun e => !(Tx.approxMinFas c).contains e) }

theorem cut_wf (c : Circuit) (hwf : WF c) : WF (cut c) where
  nodup := hwf.nodup
  edgesNodup := List.Nodup.sublist List.filter_sublist hwf.edgesNodup
  closed := fun e he => hwf.closed e (List.mem_filter.mp he).1

theorem cut_edge (c : Circuit) (a b : Name) (h : EdgeRel (cut c) a b) :
    EdgeRel c a b ∧ (a, b) ∉ Tx.approxMinFas c := by
  have h' := List.mem_filter.mp h
  refine ⟨h'.1, ?_⟩
  have := h'.2
  simpa using this

theorem star_mono (c : Circuit) {a b : Name} (h : Star (EdgeRel (cut c)) a b) : Star (EdgeRel c) a b := by
  rcases h with ⟨k, hk⟩
  exact ⟨k, hk.mono (fun a b hab => (cut_edge c a b hab).1)⟩

/-- an edge of the cut circuit that lies on a cycle is a forward edge -/
theorem edge_le (c : Circuit) (hwf : WF c) (hns : ∀ e ∈ c.edges, e.1 ≠ e.2) (a b : Name)
    (he : EdgeRel (cut c) a b) (hback : Star (EdgeRel (cut c)) b a) :
    (ordering c).idxOf a ≤ (ordering c).idxOf b := by
  have hc := cut_edge c a b he
  apply Nat.le_of_not_lt
  intro hlt
  apply hc.2
  rw [mem_approxMinFas]
  refine ⟨⟨hc.1, hlt⟩, ?_⟩
  have hab : a ≠ b := hns (a, b) hc.1
  have hplus : Plus (EdgeRel c) b a := by
    rcases (star_mono c hback).cases with h | h
    · exact absurd h.symm hab
    · exact h
  have : a ∈ descendants c b := (mem_descendants c hwf b a).mpr ⟨hplus, hab⟩
  simpa using this

theorem path_le (c : Circuit) (hwf : WF c) (hns : ∀ e ∈ c.edges, e.1 ≠ e.2) :
    ∀ (k : Nat) (x y : Name), RPath (EdgeRel (cut c)) x y k → Star (EdgeRel (cut c)) y x →
      (ordering c).idxOf x ≤ (ordering c).idxOf y := by
  intro k x y hp
  induction hp with
  | nil a => intro _; exact Nat.le_refl _
  | @cons a b d k hab hbd ih =>
    intro hda
    have h1 : (ordering c).idxOf a ≤ (ordering c).idxOf b :=
      edge_le c hwf hns a b hab (Star.trans ⟨k, hbd⟩ hda)
    have h2 : (ordering c).idxOf b ≤ (ordering c).idxOf d :=
      ih (Star.trans hda ⟨1, RPath.single hab⟩)
    exact Nat.le_trans h1 h2

theorem fas_cuts (c : Circuit) (hwf : WF c) (hns : ∀ e ∈ c.edges, e.1 ≠ e.2) :
    isCyclic { c with edges := c.edges.filter (fun e => !(Tx.approxMinFas c).contains e) } = false := by
  cases hcy : isCyclic (cut c) with
  | false => rfl
  | true =>
    exfalso
    rcases (isCyclic_iff (cut c) (cut_wf c hwf)).mp hcy with ⟨n, hn⟩
    rcases hn.head with ⟨m, hnm, hmn⟩
    have h1 := edge_le c hwf hns n m hnm hmn
    rcases hmn with ⟨k, hk⟩
    have h2 := path_le c hwf hns k m n hk ⟨1, RPath.single hnm⟩
    have hc := cut_edge c n m hnm
    have hcl := hwf.closed (n, m) hc.1
    have hn' : n ∈ ordering c := mem_ordering c n ((has_iff c n).mp hcl.1)
    have hm' : m ∈ ordering c := mem_ordering c m ((has_iff c m).mp hcl.2)
    have : n = m := Tseitin.idxOf_inj (ordering c) n m hn' hm' (Nat.le_antisymm h1 h2)
    exact hns (n, m) hc.1 this

end AU
end CG

