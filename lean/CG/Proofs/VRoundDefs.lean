/- C03 helper: vocabulary shared by the writer side (VRoundWrite), the API lemmas (VRoundOps) and the reader replay -/
import CG.Verilog
import CG.VerilogTables
import CG.Spec
import CG.Props.C06
import CG.Proofs.TernaryAdd
import CG.Proofs.ArithGen
import CG.Proofs.ApiBB
import CG.Proofs.VRoundStr
namespace CG
namespace VR
open Verilog Circuit

/-- copy of `C03.PlainName` (the property file imports the helper files, not the other way round) -/
def PName (n : Name) : Prop :=
  n ≠ "" ∧ Circuit.isDigit0 n = false ∧ ¬ n.toList.contains '.' ∧ ¬ n.startsWith "\\" ∧
  n ≠ "tie_0" ∧ n ≠ "tie_1" ∧ n ≠ "tie_x"

/-- copy of `C03.Writable` -/
structure Wr (c : Circuit) : Prop where
  clean : LintClean c
  full : ∀ p ∈ c.nodes, p.2.ty.isSome = true ∧ p.2.out.isSome = true
  names : ∀ p ∈ c.nodes, (p.2.ty ≠ some "bb_input" ∧ p.2.ty ≠ some "bb_output") → PName p.1
  pins : ∀ p ∈ c.nodes, (p.2.ty = some "bb_input" ∨ p.2.ty = some "bb_output") →
    ∃ q ∈ c.bbs, ∃ g, p.1 = q.1 ++ "." ++ g ∧ ((p.2.ty = some "bb_input" ∧ g ∈ q.2.ins) ∨ (p.2.ty = some "bb_output" ∧ g ∈ q.2.outs))
  pinsPresent : ∀ q ∈ c.bbs, (∀ g ∈ q.2.ins, c.ty? (q.1 ++ "." ++ g) = some "bb_input") ∧
    (∀ g ∈ q.2.outs, c.ty? (q.1 ++ "." ++ g) = some "bb_output") ∧ PName q.1 ∧ PName q.2.name ∧
    q.2.name ∉ CG.Expected.primitive_gates ∧ (∀ g ∈ q.2.ins ++ q.2.outs, PName g) ∧ q.2.ins.Nodup ∧ q.2.outs.Nodup ∧
    (∀ g ∈ q.2.ins, g ∉ q.2.outs)
  bbsNodup : (c.bbs.map (·.1)).Nodup
  bbTypes : ∀ q ∈ c.bbs, ∀ r ∈ c.bbs, q.2.name = r.2.name → q.2 = r.2
  noPinOutputs : ∀ p ∈ c.nodes, (p.2.ty = some "bb_input" ∨ p.2.ty = some "bb_output") → p.2.out = some false

def constTys : List String := ["0", "1", "x"]

/-- pointwise relation between two lists of equal length -/
inductive All2 {α β : Type} (R : α → β → Prop) : List α → List β → Prop
  | nil : All2 R [] []
  | cons {a : α} {b : β} {l : List α} {m : List β} : R a b → All2 R l m → All2 R (a :: l) (b :: m)

/-- one named-port connection of the instance statement of registry entry `q` -/
def ConnSpec (c : Circuit) (q : Name × BBox) (p : Name × Option Expr) : Prop :=
  (p.1 ∈ q.2.ins ∧ ∃ d, p.2 = some (Expr.id d) ∧ (d, q.1 ++ "." ++ p.1) ∈ c.edges) ∨
  (p.1 ∈ q.2.outs ∧ ((∃ d, p.2 = some (Expr.id d) ∧ (q.1 ++ "." ++ p.1, d) ∈ c.edges) ∨
     (p.2 = none ∧ ∀ d, (q.1 ++ "." ++ p.1, d) ∉ c.edges)))

/-- the statement emitted for registry entry `q` -/
def BBSpec (c : Circuit) (q : Name × BBox) (it : Item) : Prop :=
  ∃ ps, it = Item.inst q.2.name [(q.1, Conns.named ps)] ∧ (ps.map (·.1)).Perm (q.2.ins ++ q.2.outs) ∧
    ∀ p ∈ ps, ConnSpec c q p

/-- the statement emitted for gate / constant node `n` (gate-primitive form) -/
def GSpec (c : Circuit) (n : Name) (it : Item) : Prop :=
  ∃ t, c.ty? n = some t ∧
   ((t ∈ gateTypes ∧ ∃ g F, it = Item.inst t [(g, Conns.positional ((n :: F).map Expr.id))] ∧ F.Nodup ∧ F ≠ [] ∧
       ∀ u, u ∈ F ↔ ((u, n) ∈ c.edges ∧ c.ty? u ≠ some "bb_output")) ∨
    (t ∈ constTys ∧ it = Item.assign [(n, Expr.const t)]))

/-- the nodes that get a statement of their own: gates with a fan-in that is not a blackbox output pin, and constants -/
def NeedsStmt (c : Circuit) (n : Name) : Prop :=
  ∃ t, c.ty? n = some t ∧ ((t ∈ gateTypes ∧ ∃ u, (u, n) ∈ c.edges ∧ c.ty? u ≠ some "bb_output") ∨ t ∈ constTys)

end VR
end CG
