/- C12 helpers: completeness of the recursive depth visit.

   `Settled vis g`: every successor of `g` is visited with a value at least one larger than `g`'s.
   `Good vis Exc g`: `g` is settled, or excused by `Exc`, or excused by a reachable proper ancestor which is
   not visited yet.  A call `visit n` turns "all nodes good, where descendants of `n` are excused" into
   "all nodes good" (Hoare-style; `Exc` is a free parameter, instantiated with the nodes on the call stack and
   the descendants of the siblings still to be visited). -/
import CG.Proofs.QueryVisit
namespace CG
namespace Q
open Query

def Mono (v v' : Visited) : Prop := ∀ x w, vget v x = some w → ∃ w', vget v' x = some w' ∧ w ≤ w'

theorem Mono.refl (v : Visited) : Mono v v := fun _ w h => ⟨w, h, Nat.le_refl _⟩

theorem Mono.trans {v1 v2 v3 : Visited} (h1 : Mono v1 v2) (h2 : Mono v2 v3) : Mono v1 v3 := by
  intro x w h
  obtain ⟨w', hw', hle⟩ := h1 x w h
  obtain ⟨w'', hw'', hle'⟩ := h2 x w' hw'
  exact ⟨w'', hw'', Nat.le_trans hle hle'⟩

theorem mono_vset (vis : Visited) (n : Name) (depth : Nat) : Mono vis (vset vis n (newVal vis n depth)) := by
  intro x w h
  by_cases hx : x = n
  · subst hx
    exact ⟨_, vget_vset_self _ _ _, newVal_ge_old vis x depth w h⟩
  · exact ⟨w, by rw [vget_vset_ne _ _ _ _ hx]; exact h, Nat.le_refl _⟩

section Frame
variable (pred succ : Name → List Name) (ord : Ord) (hord : OrdOK ord) (R : List Name)

/-- what a visit-like function `vf · fo` guarantees: values only grow, only descendants of `fo` change, and
    `fo` ends with at least `dd` -/
def FrameOK (succ : Name → List Name) (dd : Nat) (fo : Name) (v v' : Visited) : Prop :=
  Mono v v' ∧ (∀ x, ¬ Star (SuccRel succ) fo x → vget v' x = vget v x) ∧ ∃ w, vget v' fo = some w ∧ dd ≤ w

theorem fold_frame (vf : Visited → Name → Option Visited) (dd : Nat) : ∀ (L : List Name),
    (∀ fo ∈ L, ∀ v v', vf v fo = some v' → FrameOK succ dd fo v v') →
    ∀ v0 v', L.foldlM vf v0 = some v' →
      Mono v0 v' ∧ (∀ x, (∀ fo ∈ L, ¬ Star (SuccRel succ) fo x) → vget v' x = vget v0 x) ∧
      ∀ fo ∈ L, ∃ w, vget v' fo = some w ∧ dd ≤ w
  | [], _, v0, v', h => by
    simp only [List.foldlM_nil, Option.pure_def, Option.some.injEq] at h
    subst h
    exact ⟨Mono.refl _, fun _ _ => rfl, fun _ h => by cases h⟩
  | a :: L, hvf, v0, v', h => by
    rw [List.foldlM_cons] at h
    cases hf : vf v0 a with
    | none => simp [hf] at h
    | some v1 =>
      simp only [hf, Option.bind_eq_bind, Option.bind_some] at h
      obtain ⟨m1, f1, w1, hw1, hle1⟩ := hvf a (by simp) v0 v1 hf
      obtain ⟨m2, f2, g2⟩ := fold_frame vf dd L (fun fo hfo => hvf fo (List.mem_cons_of_mem _ hfo)) v1 v' h
      refine ⟨m1.trans m2, ?_, ?_⟩
      · intro x hx
        rw [f2 x (fun fo hfo => hx fo (List.mem_cons_of_mem _ hfo)), f1 x (hx a (by simp))]
      · intro fo hfo
        rcases List.mem_cons.mp hfo with rfl | hfo
        · obtain ⟨w', hw', hle'⟩ := m2 fo w1 hw1
          exact ⟨w', hw', Nat.le_trans hle1 hle'⟩
        · exact g2 fo hfo

include hord in
theorem visit_frame : ∀ (fuel : Nat) (n : Name) (vis : Visited) (depth : Nat) (vis' : Visited),
    visit pred succ ord true R fuel n vis depth = some vis' → FrameOK succ depth n vis vis' := by
  intro fuel
  induction fuel with
  | zero => intro n vis depth vis' h; simp [visit] at h
  | succ fuel ih =>
    intro n vis depth vis' h
    rw [visit_succ] at h
    have hself : vget (vset vis n (newVal vis n depth)) n = some (newVal vis n depth) := vget_vset_self _ _ _
    split at h
    · obtain ⟨m, f, _⟩ := fold_frame succ _ (newVal vis n depth + 1) _
        (fun fo _ v v' hv => ih fo v _ v' hv) _ _ h
      refine ⟨(mono_vset vis n depth).trans m, ?_, ?_⟩
      · intro x hx
        have hxn : x ≠ n := fun h => hx (by rw [h]; exact Star.refl n)
        rw [f x ?_, vget_vset_ne _ _ _ _ hxn]
        intro fo hfo hs
        have hfo' : fo ∈ succ n := (mem_dedup fo _).mp ((hord _).mem_iff.mp hfo)
        exact hx (Plus.of_step_star (E := SuccRel succ) hfo' hs).star
      · obtain ⟨w', hw', hle'⟩ := m n _ hself
        exact ⟨w', hw', Nat.le_trans (newVal_ge vis n depth) hle'⟩
    · simp only [Option.some.injEq] at h
      subst h
      refine ⟨mono_vset vis n depth, ?_, _, hself, newVal_ge vis n depth⟩
      intro x hx
      have hxn : x ≠ n := fun h => hx (by rw [h]; exact Star.refl n)
      exact vget_vset_ne _ _ _ _ hxn

end Frame

/-! ### the completeness invariant -/

def Settled (succ : Name → List Name) (vis : Visited) (g : Name) : Prop :=
  ∀ vg, vget vis g = some vg → ∀ m ∈ succ g, ∃ vm, vget vis m = some vm ∧ vg + 1 ≤ vm

def Good (succ : Name → List Name) (R : List Name) (vis : Visited) (Exc : Name → Prop) (g : Name) : Prop :=
  Settled succ vis g ∨ Exc g ∨ ∃ q ∈ R, vget vis q = none ∧ Plus (SuccRel succ) q g

theorem Good.mono {succ : Name → List Name} {R : List Name} {vis : Visited} {Exc Exc' : Name → Prop} {g : Name}
    (h : Good succ R vis Exc g) (himp : Exc g → Exc' g) : Good succ R vis Exc' g := by
  rcases h with h | h | h
  · exact Or.inl h
  · exact Or.inr (Or.inl (himp h))
  · exact Or.inr (Or.inr h)

theorem fold_good (succ : Name → List Name) (R : List Name) (vf : Visited → Name → Option Visited) :
    ∀ (L : List Name),
    (∀ fo ∈ L, ∀ v v' (Exc : Name → Prop), vf v fo = some v' →
      (∀ g, Good succ R v (fun g => Exc g ∨ Star (SuccRel succ) fo g) g) → ∀ g, Good succ R v' Exc g) →
    ∀ v0 v' (Exc : Name → Prop), L.foldlM vf v0 = some v' →
      (∀ g, Good succ R v0 (fun g => Exc g ∨ ∃ fo ∈ L, Star (SuccRel succ) fo g) g) → ∀ g, Good succ R v' Exc g
  | [], _, v0, v', Exc, h, hg => by
    simp only [List.foldlM_nil, Option.pure_def, Option.some.injEq] at h
    subst h
    intro g
    refine (hg g).mono ?_
    rintro (h | ⟨fo, hfo, _⟩)
    · exact h
    · cases hfo
  | a :: L, hvf, v0, v', Exc, h, hg => by
    rw [List.foldlM_cons] at h
    cases hf : vf v0 a with
    | none => simp [hf] at h
    | some v1 =>
      simp only [hf, Option.bind_eq_bind, Option.bind_some] at h
      apply fold_good succ R vf L (fun fo hfo => hvf fo (List.mem_cons_of_mem _ hfo)) v1 v' Exc h
      apply hvf a (by simp) v0 v1 _ hf
      intro g
      refine (hg g).mono ?_
      rintro (h | ⟨fo, hfo, hs⟩)
      · exact Or.inl (Or.inl h)
      · rcases List.mem_cons.mp hfo with rfl | hfo
        · exact Or.inr hs
        · exact Or.inl (Or.inr ⟨fo, hfo, hs⟩)

section Spec
variable (pred succ : Name → List Name) (hps : ∀ a b, a ∈ pred b ↔ b ∈ succ a)
variable (rank : Name → Nat) (hr : ∀ a b, SuccRel succ a b → rank a < rank b)
variable (ord : Ord) (hord : OrdOK ord) (R : List Name)

/-- writing the merged value of `n` keeps every node good, `n` and its descendants being excused -/
theorem good_vset (vis : Visited) (n : Name) (depth : Nat) (Exc : Name → Prop)
    (hg : ∀ g, Good succ R vis (fun g => Exc g ∨ Star (SuccRel succ) n g) g) :
    ∀ g, Good succ R (vset vis n (newVal vis n depth)) (fun g => Exc g ∨ Star (SuccRel succ) n g) g := by
  intro g
  by_cases hgn : g = n
  · exact Or.inr (Or.inl (Or.inr (hgn ▸ Star.refl g)))
  · rcases hg g with h | h | ⟨q, hqR, hq, hp⟩
    · left
      intro vg hvg m hm
      rw [vget_vset_ne _ _ _ _ hgn] at hvg
      obtain ⟨vm, hvm, hle⟩ := h vg hvg m hm
      obtain ⟨vm', hvm', hle'⟩ := mono_vset vis n depth m vm hvm
      exact ⟨vm', hvm', Nat.le_trans hle hle'⟩
    · exact Or.inr (Or.inl h)
    · by_cases hqn : q = n
      · exact Or.inr (Or.inl (Or.inr (hqn ▸ hp.star)))
      · exact Or.inr (Or.inr ⟨q, hqR, by rw [vget_vset_ne _ _ _ _ hqn]; exact hq, hp⟩)

include hps hr hord in
theorem visit_good : ∀ (fuel : Nat) (n : Name) (vis : Visited) (depth : Nat) (vis' : Visited) (Exc : Name → Prop),
    visit pred succ ord true R fuel n vis depth = some vis' →
    (∀ g, Good succ R vis (fun g => Exc g ∨ Star (SuccRel succ) n g) g) → ∀ g, Good succ R vis' Exc g := by
  intro fuel
  induction fuel with
  | zero => intro n vis depth vis' Exc h; simp [visit] at h
  | succ fuel ih =>
    intro n vis depth vis' Exc h hg
    have hg1 := good_vset succ R vis n depth Exc hg
    rw [visit_succ] at h
    have hL : ∀ fo, fo ∈ ord (dedup (succ n)) ↔ fo ∈ succ n := by
      intro fo; rw [(hord _).mem_iff, mem_dedup]
    by_cases hgate : gate pred R (vset vis n (newVal vis n depth)) n = true
    · rw [if_pos hgate] at h
      -- children: `n` itself is excused while its successors are visited
      have hloop := fold_good succ R _ _
        (fun fo _ v v' Exc' hv hgv => ih fo v _ v' Exc' hv hgv) _ _ (fun g => Exc g ∨ g = n) h ?_
      · obtain ⟨_, hfr, hge⟩ := fold_frame succ _ (newVal vis n depth + 1) _
          (fun fo _ v v' hv => visit_frame pred succ ord hord R fuel fo v _ v' hv) _ _ h
        intro g
        rcases hloop g with h1 | (h1 | h1) | h1
        · exact Or.inl h1
        · exact Or.inr (Or.inl h1)
        · -- `n` is settled after the loop
          left
          subst h1
          intro vg hvg m hm
          have hn : vget vis' g = vget (vset vis g (newVal vis g depth)) g := by
            apply hfr
            intro fo hfo hs
            have h1 : SuccRel succ g fo := (hL fo).mp hfo
            have := (Plus.of_step_star h1 hs).rank_lt rank hr
            omega
          rw [hn, vget_vset_self] at hvg
          simp only [Option.some.injEq] at hvg
          subst hvg
          exact hge m ((hL m).mpr hm)
        · exact Or.inr (Or.inr h1)
      · intro g
        refine (hg1 g).mono ?_
        rintro (h1 | h1)
        · exact Or.inl (Or.inl h1)
        · rcases h1.cases with h2 | h2
          · exact Or.inl (Or.inr h2.symm)
          · obtain ⟨fo, hfo, hs⟩ := h2.head
            exact Or.inr ⟨fo, (hL fo).mpr hfo, hs⟩
    · rw [if_neg hgate] at h
      simp only [Option.some.injEq] at h
      subst h
      -- closed gate: a reachable predecessor of `n` is unvisited and excuses all descendants of `n`
      have hex : ∃ q, q ∈ pred n ∧ q ∈ R ∧ vget (vset vis n (newVal vis n depth)) q = none := by
        unfold gate at hgate
        rw [Bool.not_eq_true, List.all_eq_false] at hgate
        obtain ⟨q, hq, hnone⟩ := hgate
        rw [List.mem_filter, List.contains_iff_mem] at hq
        refine ⟨q, hq.1, hq.2, ?_⟩
        cases hv : vget (vset vis n (newVal vis n depth)) q with
        | none => rfl
        | some v => simp [hv] at hnone
      obtain ⟨q, hqp, hqR, hqn⟩ := hex
      intro g
      rcases hg1 g with h1 | (h1 | h1) | h1
      · exact Or.inl h1
      · exact Or.inr (Or.inl h1)
      · exact Or.inr (Or.inr ⟨q, hqR, hqn, Plus.of_step_star ((hps q n).mp hqp) h1⟩)
      · exact Or.inr (Or.inr h1)

include hps hr hord in
/-- the top-level loop of `fanout_depth` / `fanin_depth` -/
theorem depth_loop_complete (ns : List Name)
    (hR : ∀ x, x ∈ R ↔ ∃ a ∈ ns, Plus (SuccRel succ) a x)
    (fuel : Nat) (vis : Visited)
    (h : (ord (unionAll (ns.map succ))).foldlM (fun v f => visit pred succ ord true R fuel f v 1)
      (ns.foldl (fun v n => vset v n 0) []) = some vis) :
    ∀ a ∈ ns, ∀ b k, RPath (SuccRel succ) a b k → ∃ w, vget vis b = some w ∧ k ≤ w := by
  have hfirst : ∀ fo, fo ∈ ord (unionAll (ns.map succ)) ↔ ∃ a ∈ ns, fo ∈ succ a := by
    intro fo; rw [(hord _).mem_iff, mem_unionAll_map]
  have hv0 : ∀ x, vget (ns.foldl (fun v n => vset v n 0) []) x = if x ∈ ns then some 0 else none := by
    intro x; rw [vget_init]; rfl
  obtain ⟨hmono, hfr, hge⟩ := fold_frame succ _ 1 _
    (fun fo _ v v' hv => visit_frame pred succ ord hord R fuel fo v _ v' hv) _ _ h
  have hloop := fold_good succ R _ _
    (fun fo _ v v' Exc' hv hgv => visit_good pred succ hps rank hr ord hord R fuel fo v _ v' Exc' hv hgv)
    _ _ (fun g => g ∈ ns ∧ g ∉ R) h ?_
  · -- the start nodes outside `R` are settled at the end
    have hstart : ∀ g, g ∈ ns → g ∉ R → Settled succ vis g := by
      intro g hgns hgR vg hvg m hm
      have hn : vget vis g = some 0 := by
        rw [hfr g ?_, hv0, if_pos hgns]
        intro fo hfo hs
        obtain ⟨a, ha, hfa⟩ := (hfirst fo).mp hfo
        exact hgR ((hR g).mpr ⟨a, ha, Plus.of_step_star hfa hs⟩)
      rw [hn] at hvg
      simp only [Option.some.injEq] at hvg
      subst hvg
      exact hge m ((hfirst m).mpr ⟨g, hgns, hm⟩)
    have hgood : ∀ g, Settled succ vis g ∨ ∃ q ∈ R, vget vis q = none ∧ Plus (SuccRel succ) q g := by
      intro g
      rcases hloop g with h1 | h1 | h1
      · exact Or.inl h1
      · exact Or.inl (hstart g h1.1 h1.2)
      · exact Or.inr h1
    have hstartdom : ∀ a ∈ ns, ∃ w, vget vis a = some w := by
      intro a ha
      obtain ⟨w, hw, _⟩ := hmono a 0 (by rw [hv0, if_pos ha])
      exact ⟨w, hw⟩
    -- every reachable node is visited
    have hdom : ∀ (r : Nat) (q : Name), rank q = r → q ∈ R → ∃ w, vget vis q = some w := by
      intro r
      induction r using Nat.strongRecOn with
      | _ r ihr =>
        intro q hrq hqR
        obtain ⟨a, ha, hp⟩ := (hR q).mp hqR
        obtain ⟨p, hap, hpq⟩ := hp.tail
        have hrp : rank p < rank q := hr p q hpq
        have hpdom : ∃ w, vget vis p = some w := by
          rcases hap.cases with h1 | h1
          · exact h1 ▸ hstartdom a ha
          · exact ihr (rank p) (by omega) p rfl ((hR p).mpr ⟨a, ha, h1⟩)
        obtain ⟨wp, hwp⟩ := hpdom
        rcases hgood p with h1 | ⟨q', hq'R, hq'n, hq'p⟩
        · obtain ⟨vm, hvm, _⟩ := h1 wp hwp q hpq
          exact ⟨vm, hvm⟩
        · have := hq'p.rank_lt rank hr
          obtain ⟨w, hw⟩ := ihr (rank q') (by omega) q' rfl hq'R
          rw [hw] at hq'n
          cases hq'n
    have hsettled : ∀ g, Settled succ vis g := by
      intro g
      rcases hgood g with h1 | ⟨q, hqR, hqn, _⟩
      · exact h1
      · obtain ⟨w, hw⟩ := hdom (rank q) q rfl hqR
        rw [hw] at hqn
        cases hqn
    intro a ha b k
    induction k generalizing b with
    | zero =>
      intro hp
      have := hp.zero_eq
      subst this
      obtain ⟨w, hw⟩ := hstartdom a ha
      exact ⟨w, hw, Nat.zero_le _⟩
    | succ k ihk =>
      intro hp
      obtain ⟨f, hpf, hfb⟩ := hp.snoc_inv
      obtain ⟨w, hw, hle⟩ := ihk f hpf
      obtain ⟨vm, hvm, hle'⟩ := hsettled f w hw b hfb
      exact ⟨vm, hvm, by omega⟩
  · intro g
    by_cases hgns : g ∈ ns
    · by_cases hgR : g ∈ R
      · obtain ⟨a, ha, hp⟩ := (hR g).mp hgR
        obtain ⟨fo, hfo, hs⟩ := hp.head
        exact Or.inr (Or.inl (Or.inr ⟨fo, (hfirst fo).mpr ⟨a, ha, hfo⟩, hs⟩))
      · exact Or.inr (Or.inl (Or.inl ⟨hgns, hgR⟩))
    · left
      intro vg hvg
      rw [hv0, if_neg hgns] at hvg
      cases hvg

end Spec

end Q
end CG
