/- C03 helper: the invariant of the reader replay and its preservation by one `add_node` call -/
import CG.Proofs.VRoundOps
namespace CG
namespace VR
open Verilog Circuit

def isTie (x : Name) : Prop := x = "tie_0" ∨ x = "tie_1" ∨ x = "tie_x"

theorem isTie_iff (x : Name) : isTie x ↔ ∃ t, t ∈ constTys ∧ x = "tie_" ++ t := by
  unfold isTie constTys
  constructor
  · rintro (h | h | h)
    · exact ⟨"0", by simp, by rw [h]; decide⟩
    · exact ⟨"1", by simp, by rw [h]; decide⟩
    · exact ⟨"x", by simp, by rw [h]; decide⟩
  · rintro ⟨t, ht, rfl⟩
    simp only [List.mem_cons, List.not_mem_nil, or_false] at ht
    rcases ht with rfl | rfl | rfl
    · left; decide
    · right; left; decide
    · right; right; decide

/-- the type a node of `c` has in the circuit that is read back -/
def fty (c : Circuit) (x : Name) : String :=
  match c.ty? x with
  | some t => if t ∈ constTys then "buf" else t
  | none => ""

/-- the wires of the circuit that is read back: those of `c` plus one from the constant node to each constant -/
def CEdge (c : Circuit) (e : Name × Name) : Prop :=
  e ∈ c.edges ∨ ∃ t, t ∈ constTys ∧ c.ty? e.2 = some t ∧ e.1 = "tie_" ++ t

def PinTy (c : Circuit) (x : Name) : Prop := c.ty? x = some "bb_input" ∨ c.ty? x = some "bb_output"

/-! ### facts about a writable circuit -/

theorem ty_mem {c : Circuit} {x : Name} {t : String} (h : c.ty? x = some t) : ∃ a, (x, a) ∈ c.nodes ∧ a.ty = some t := by
  unfold Circuit.ty? at h
  cases ha : c.attr? x with
  | none => rw [ha] at h; cases h
  | some a => rw [ha] at h; exact ⟨a, attr?_mem ha, h⟩

theorem Wr.ws {c : Circuit} (hc : Wr c) : WS c := Arith.WS_of_lintClean hc.clean

theorem Wr.pname {c : Circuit} (hc : Wr c) {x : Name} {t : String} (h : c.ty? x = some t)
    (h1 : t ≠ "bb_input") (h2 : t ≠ "bb_output") : PName x := by
  obtain ⟨a, ha, hat⟩ := ty_mem h
  exact hc.names (x, a) ha ⟨by rw [hat]; simpa using h1, by rw [hat]; simpa using h2⟩

theorem Wr.pname' {c : Circuit} (hc : Wr c) {x : Name} (hx : c.has x = true) (hp : ¬ PinTy c x) : PName x := by
  obtain ⟨t, ht, _⟩ := hc.ws.typed x hx
  refine hc.pname ht ?_ ?_
  · rintro rfl; exact hp (Or.inl ht)
  · rintro rfl; exact hp (Or.inr ht)

theorem Wr.pin_name {c : Circuit} (hc : Wr c) {x : Name} (h : PinTy c x) :
    ∃ q ∈ c.bbs, ∃ g, x = q.1 ++ "." ++ g ∧ ((c.ty? x = some "bb_input" ∧ g ∈ q.2.ins) ∨ (c.ty? x = some "bb_output" ∧ g ∈ q.2.outs)) := by
  have : ∃ t, c.ty? x = some t ∧ (t = "bb_input" ∨ t = "bb_output") := by
    rcases h with h | h
    · exact ⟨_, h, Or.inl rfl⟩
    · exact ⟨_, h, Or.inr rfl⟩
  obtain ⟨t, ht, htt⟩ := this
  obtain ⟨a, ha, hat⟩ := ty_mem ht
  obtain ⟨q, hq, g, e, hg⟩ := hc.pins (x, a) ha (by
    rcases htt with rfl | rfl
    · exact Or.inl hat
    · exact Or.inr hat)
  refine ⟨q, hq, g, e, ?_⟩
  rcases hg with ⟨h1, h2⟩ | ⟨h1, h2⟩
  · left; refine ⟨?_, h2⟩; rw [ht, ← hat]; exact h1
  · right; refine ⟨?_, h2⟩; rw [ht, ← hat]; exact h1

theorem PName.not_tie {x : Name} (h : PName x) : ¬ isTie x := by
  rintro (e | e | e)
  · exact h.2.2.2.2.1 e
  · exact h.2.2.2.2.2.1 e
  · exact h.2.2.2.2.2.2 e

theorem PName.nameOK {x : Name} (h : PName x) : Limit.NameOK x := by
  refine ⟨h.2.1, ?_⟩
  cases he : x.isEmpty with
  | false => rfl
  | true => rw [String.isEmpty_iff] at he; exact absurd he h.1

theorem tie_nodot {x : Name} (h : isTie x) : ¬ x.toList.contains '.' = true := by
  rcases h with rfl | rfl | rfl <;> decide

theorem Wr.not_tie {c : Circuit} (hc : Wr c) {x : Name} (hx : c.has x = true) : ¬ isTie x := by
  by_cases hp : PinTy c x
  · obtain ⟨q, _, g, e, _⟩ := hc.pin_name hp
    intro ht
    exact tie_nodot ht (by rw [e]; exact pin_has_dot _ _)
  · exact (hc.pname' hx hp).not_tie

theorem fty_of {c : Circuit} {x : Name} {t : String} (h : c.ty? x = some t) (hn : t ∉ constTys) : fty c x = t := by
  unfold fty; rw [h]; simp only [if_neg hn]

theorem fty_const {c : Circuit} {x : Name} {t : String} (h : c.ty? x = some t) (hn : t ∈ constTys) : fty c x = "buf" := by
  unfold fty; rw [h]; simp only [if_pos hn]

theorem Wr.fty_ok {c : Circuit} (hc : Wr c) {x : Name} (hx : c.has x = true) (hp : ¬ PinTy c x) :
    fty c x ∈ Expected.supported_types ∧ fty c x ≠ "bb_input" ∧ fty c x ≠ "bb_output" := by
  obtain ⟨t, ht, hs⟩ := hc.ws.typed x hx
  by_cases hcst : t ∈ constTys
  · rw [fty_const ht hcst]; decide
  · rw [fty_of ht hcst]
    refine ⟨hs, ?_, ?_⟩
    · rintro rfl; exact hp (Or.inl ht)
    · rintro rfl; exact hp (Or.inr ht)

/-! ### the invariant -/

/-- state `st` of the reader after the statements of the defined nodes `D` and of the registry prefix `B` -/
structure RInv (c st : Circuit) (B : List (Name × BBox)) (D : Name → Prop) : Prop where
  wf : WF st
  bbs : st.bbs = B
  sub : ∀ x, st.has x = true → isTie x ∨ c.has x = true
  attr : ∀ x a, st.attr? x = some a → ¬ isTie x → a.out = some false ∧ (a.ty = some "buf" ∨ a.ty = some (fty c x))
  tie : ∀ t, t ∈ constTys → st.attr? ("tie_" ++ t) = some { ty := some t, out := some false }
  dty : ∀ x, D x → st.ty? x = some (fty c x)
  pin : ∀ x, st.has x = true → PinTy c x → D x
  edges : ∀ e, e ∈ st.edges ↔ (CEdge c e ∧ (D e.2 ∨ (D e.1 ∧ c.ty? e.1 = some "bb_output")))

/-- every node of the state has a type that is not a pin type, unless it is a pin of `c` -/
theorem RInv.typed {c st : Circuit} {B D} (hc : Wr c) (h : RInv c st B D) {x : Name} (hx : st.has x = true)
    (hp : isTie x ∨ ¬ PinTy c x) : ∃ t, st.ty? x = some t ∧ t ≠ "bb_input" ∧ t ≠ "bb_output" := by
  by_cases ht : isTie x
  · obtain ⟨t, htc, rfl⟩ := (isTie_iff x).1 ht
    refine ⟨t, Ternary.ty_of_attr (h.tie t htc), ?_⟩
    simp only [constTys, List.mem_cons, List.not_mem_nil, or_false] at htc
    rcases htc with rfl | rfl | rfl <;> decide
  · have hp' : ¬ PinTy c x := by
      rcases hp with hp | hp
      · exact absurd hp ht
      · exact hp
    obtain ⟨a, ha⟩ := Limit.attr_of_has hx
    obtain ⟨_, hty⟩ := h.attr x a ha ht
    have hcx : c.has x = true := by
      rcases h.sub x hx with h1 | h1
      · exact absurd h1 ht
      · exact h1
    rcases hty with hty | hty
    · exact ⟨"buf", by rw [Ternary.ty_of_attr ha, hty], by decide, by decide⟩
    · exact ⟨_, by rw [Ternary.ty_of_attr ha, hty], (hc.fty_ok hcx hp').2⟩

theorem cedge_tie_src {c : Circuit} (hc : Wr c) {u v : Name} (h : CEdge c (u, v)) (hu : isTie u) :
    ∃ t, t ∈ constTys ∧ c.ty? v = some t ∧ u = "tie_" ++ t := by
  rcases h with h | h
  · exact absurd hu (hc.not_tie (hc.ws.closed u v h).1)
  · exact h

theorem cedge_has_tgt {c : Circuit} (hc : Wr c) {u v : Name} (h : CEdge c (u, v)) : c.has v = true := by
  rcases h with h | ⟨t, _, h, _⟩
  · exact (hc.ws.closed u v h).2
  · exact has_of_ty? h

/-! ### one `add_node` call -/

/-- `Ternary.AddSpec` specialised to the reader's argument record -/
structure AS (t : Circuit) (n ty : String) (F : List Name) (t' : Circuit) : Prop where
  has : ∀ x, t'.has x = true ↔ (t.has x = true ∨ x = n ∨ x ∈ F)
  attr_self : t'.attr? n = some { ty := some ty, out := some false }
  attr_old : ∀ x, x ≠ n → t.has x = true → t'.attr? x = t.attr? x
  attr_new : ∀ x, x ≠ n → t.has x = false → t'.has x = true → t'.attr? x = some Ternary.bufAttr
  edges : ∀ e, e ∈ t'.edges ↔ (e ∈ t.edges ∨ (e.1 ∈ F ∧ e.2 = n))
  nodupN : t.nodeNames.Nodup → t'.nodeNames.Nodup
  nodupE : t.edges.Nodup → t'.edges.Nodup
  bbs : t'.bbs = t.bbs

theorem AS.of_spec {t t' : Circuit} {n ty : String} {F : List Name}
    (hs : Ternary.AddSpec t (rdArgs n ty F) n t') (hb : t'.bbs = t.bbs) : AS t n ty F t' := by
  refine ⟨?_, hs.attr_self, hs.attr_old, hs.attr_new, ?_, hs.nodupN, hs.nodupE, hb⟩
  · intro x
    rw [hs.has]
    simp only [rdArgs, true_and]
  · intro e
    rw [hs.edges]
    simp only [rdArgs, List.not_mem_nil, and_false, false_or]

theorem rinv_as {c st st' : Circuit} {B : List (Name × BBox)} {D D' : Name → Prop} (hc : Wr c) (h : RInv c st B D)
    {n ty : String} {F : List Name} (s : AS st n ty F st')
    (hn : c.has n = true) (hnp : ¬ PinTy c n) (hty : ty = fty c n ∨ (ty = "buf" ∧ ¬ D' n))
    (hD : ∀ x, D' x ↔ (D x ∨ (x = n ∧ D' n)))
    (hF : ∀ u, u ∈ F ↔ (D' n ∧ ¬ D n ∧ CEdge c (u, n)))
    (hFu : ∀ u ∈ F, isTie u ∨ (c.has u = true ∧ ¬ PinTy c u)) :
    RInv c st' B D' := by
  have hnt : ¬ isTie n := hc.not_tie hn
  have hmono : ∀ x, st.has x = true → st'.has x = true := fun x hx => (s.has x).2 (Or.inl hx)
  constructor
  · refine ⟨s.nodupN h.wf.nodup, s.nodupE h.wf.edgesNodup, ?_⟩
    intro e he
    rcases (s.edges e).1 he with h1 | ⟨h1, h2⟩
    · exact ⟨hmono _ (h.wf.closed e h1).1, hmono _ (h.wf.closed e h1).2⟩
    · exact ⟨(s.has _).2 (Or.inr (Or.inr h1)), (s.has _).2 (Or.inr (Or.inl h2))⟩
  · rw [s.bbs, h.bbs]
  · intro x hx
    rcases (s.has x).1 hx with h1 | h1 | h1
    · exact h.sub x h1
    · right; rw [h1]; exact hn
    · rcases hFu x h1 with h2 | h2
      · exact Or.inl h2
      · exact Or.inr h2.1
  · intro x a ha hxt
    by_cases hxn : x = n
    · subst hxn
      rw [s.attr_self] at ha
      injection ha with ha
      subst ha
      refine ⟨rfl, ?_⟩
      rcases hty with hty | ⟨hty, _⟩
      · exact Or.inr (by rw [hty])
      · exact Or.inl (by rw [hty])
    · by_cases hx : st.has x = true
      · rw [s.attr_old x hxn hx] at ha
        exact h.attr x a ha hxt
      · have hx' : st.has x = false := by simpa using hx
        rw [s.attr_new x hxn hx' (Limit.has_of_attr ha)] at ha
        injection ha with ha
        subst ha
        exact ⟨rfl, Or.inl rfl⟩
  · intro t ht
    have hne : "tie_" ++ t ≠ n := by
      intro e; exact hnt ((isTie_iff n).2 ⟨t, ht, e.symm⟩)
    rw [s.attr_old _ hne (Limit.has_of_attr (h.tie t ht))]
    exact h.tie t ht
  · intro x hx
    by_cases hxn : x = n
    · subst hxn
      rcases hty with hty | ⟨_, hty⟩
      · rw [Ternary.ty_of_attr s.attr_self, hty]
      · exact absurd hx hty
    · have hdx : D x := by
        rcases (hD x).1 hx with h1 | ⟨h1, _⟩
        · exact h1
        · exact absurd h1 hxn
      have := h.dty x hdx
      unfold Circuit.ty? at this ⊢
      rw [s.attr_old x hxn (has_of_ty? (h.dty x hdx))]
      exact this
  · intro x hx hp
    rcases (s.has x).1 hx with h1 | h1 | h1
    · exact (hD x).2 (Or.inl (h.pin x h1 hp))
    · rw [h1] at hp; exact absurd hp hnp
    · rcases hFu x h1 with h2 | h2
      · have : c.has x = true := by
          rcases hp with hp | hp <;> exact has_of_ty? hp
        exact absurd h2 (hc.not_tie this)
      · exact absurd hp h2.2
  · intro e
    rw [s.edges, h.edges]
    constructor
    · rintro (⟨h1, h2⟩ | ⟨h1, h2⟩)
      · refine ⟨h1, ?_⟩
        rcases h2 with h2 | ⟨h2, h3⟩
        · exact Or.inl ((hD _).2 (Or.inl h2))
        · exact Or.inr ⟨(hD _).2 (Or.inl h2), h3⟩
      · obtain ⟨d1, _, d3⟩ := (hF e.1).1 h1
        have he : e = (e.1, n) := by rw [← h2]
        refine ⟨by rw [he]; exact d3, Or.inl (by rw [h2]; exact d1)⟩
    · rintro ⟨h1, h2 | ⟨h2, h3⟩⟩
      · rcases (hD _).1 h2 with h4 | ⟨h4, h5⟩
        · exact Or.inl ⟨h1, Or.inl h4⟩
        · by_cases hdn : D n
          · exact Or.inl ⟨h1, Or.inl (by rw [h4]; exact hdn)⟩
          · right
            refine ⟨(hF e.1).2 ⟨h5, hdn, ?_⟩, h4⟩
            rw [← h4]; exact h1
      · rcases (hD _).1 h2 with h4 | ⟨h4, _⟩
        · exact Or.inl ⟨h1, Or.inr ⟨h4, h3⟩⟩
        · rw [h4] at h3; exact absurd (Or.inr h3) hnp

theorem buf_not_const : ("buf" : String) ∉ constTys := by decide

theorem rinv_add {c st : Circuit} {B : List (Name × BBox)} {D D' : Name → Prop} (hc : Wr c) (h : RInv c st B D)
    {n ty : String} {F : List Name}
    (hn : c.has n = true) (hnp : ¬ PinTy c n) (hty : ty = fty c n)
    (hD : ∀ x, D' x ↔ (D x ∨ (x = n ∧ D' n)))
    (hF : ∀ u, u ∈ F ↔ (D' n ∧ ¬ D n ∧ CEdge c (u, n)))
    (hFu : ∀ u ∈ F, isTie u ∨ (c.has u = true ∧ ¬ PinTy c u))
    (h0 : ty = "buf" ∨ ty = "not" → F.length ≤ 1)
    (h1 : ty = "0" ∨ ty = "1" ∨ ty = "x" ∨ ty = "input" → F = []) :
    ∃ st', st.add (rdArgs n ty F) = (st', .ok, n) ∧ RInv c st' B D' ∧ st'.name = st.name := by
  have hfo := hc.fty_ok hn hnp
  rw [← hty] at hfo
  have g0 : ty = "buf" ∨ ty = "not" → F.length ≤ 1 ∧ (F ≠ [] → ∀ e ∈ st.edges, e.2 ≠ n) := by
    intro hbn
    refine ⟨h0 hbn, ?_⟩
    intro hne e he hen
    obtain ⟨u, hu⟩ := List.exists_mem_of_ne_nil F hne
    obtain ⟨_, hDn, hce⟩ := (hF u).1 hu
    obtain ⟨ce, hd⟩ := (h.edges e).1 he
    rcases hd with hd | ⟨_, hbo⟩
    · rw [hen] at hd; exact hDn hd
    · have hce1 : c.has e.1 = true := has_of_ty? hbo
      rcases ce with ce | ⟨t, ht, _, ce⟩
      · have ce' : (e.1, n) ∈ c.edges := by rw [← hen]; exact ce
        obtain ⟨hbuf, _⟩ := hc.ws.bbOut e.1 n ce' hbo
        rcases hce with hce | ⟨t, ht, hce, _⟩
        · have : u = e.1 := hc.ws.single n "buf" hbuf (by decide) u e.1 hce ce'
          rcases hFu u hu with h2 | h2
          · rw [this] at h2; exact hc.not_tie hce1 h2
          · rw [this] at h2; exact h2.2 (Or.inr hbo)
        · rw [hbuf] at hce
          injection hce with hce
          rw [← hce] at ht
          exact buf_not_const ht
      · exact hc.not_tie hce1 ((isTie_iff _).2 ⟨t, ht, ce⟩)
  have gfi : ∀ u ∈ F, u = n ∨ (∃ tu, st.ty? u = some tu ∧ tu ≠ "bb_input" ∧ tu ≠ "bb_output") ∨
      (st.has u = false ∧ Limit.NameOK u) := by
    intro u hu
    by_cases hun : u = n
    · exact Or.inl hun
    · right
      by_cases hsu : st.has u = true
      · left
        refine h.typed hc hsu ?_
        rcases hFu u hu with h2 | h2
        · exact Or.inl h2
        · exact Or.inr h2.2
      · right
        refine ⟨by simpa using hsu, ?_⟩
        rcases hFu u hu with h2 | h2
        · obtain ⟨t, ht, rfl⟩ := (isTie_iff u).1 h2
          exact absurd (Limit.has_of_attr (h.tie t ht)) hsu
        · exact (hc.pname' h2.1 h2.2).nameOK
  obtain ⟨st', e, hs, hb, hnm⟩ := add_ok' st n ty F (hc.pname' hn hnp).nameOK hfo.1 hfo.2 g0 h1 gfi
  exact ⟨st', e, rinv_as hc h (AS.of_spec hs hb) hn hnp (Or.inl hty) hD hF hFu, hnm⟩

/-- auto-creation of a missing net as an undriven `buf` -/
theorem rinv_fresh {c st : Circuit} {B : List (Name × BBox)} {D : Name → Prop} (hc : Wr c) (h : RInv c st B D)
    {n : Name} (hn : c.has n = true) (hnp : ¬ PinTy c n) (hf : st.has n = false) :
    RInv c (st.addNodeAttr n Ternary.bufAttr) B D := by
  have hDn : ¬ D n := by
    intro hd
    have := has_of_ty? (h.dty n hd)
    rw [hf] at this; cases this
  refine rinv_as (F := []) (ty := "buf") hc h ?_ hn hnp (Or.inr ⟨rfl, hDn⟩) ?_ ?_ (fun u hu => nomatch hu)
  · refine ⟨?_, ?_, ?_, ?_, ?_, ?_, ?_, addNodeAttr_bbs _ _ _⟩
    · intro x
      rw [addNodeAttr_has, Bool.or_eq_true, beq_iff_eq]
      simp
    · rw [addNodeAttr_attr?, if_pos rfl, attr?_none_of_not_has hf]; rfl
    · intro x hx _
      rw [addNodeAttr_attr?, if_neg hx]
    · intro x hx h1 h2
      rw [addNodeAttr_has, h1] at h2
      simp at h2
      exact absurd h2 hx
    · intro e
      rw [addNodeAttr_edges]
      simp
    · exact addNodeAttr_nodup n _
    · intro hnd; rw [addNodeAttr_edges]; exact hnd
  · intro x
    constructor
    · exact Or.inl
    · rintro (h1 | ⟨_, h1⟩)
      · exact h1
      · exact absurd h1 hDn
  · intro u
    constructor
    · intro h1; cases h1
    · rintro ⟨h1, _⟩; exact absurd h1 hDn

end VR
end CG
