/- frame lemmas for the construction API used by limit_fanin / limit_fanout (C05 helper) -/
import CG.Tx
import CG.Spec
import CG.Proofs.RUBasic
import CG.Proofs.LimitUid
namespace CG
namespace Limit
open Circuit

/-! ### tables -/

theorem tables_gatemap : Generated.gatemap = some Expected.gatemap := by decide
theorem tables_supported : Generated.supported_types = some Expected.supported_types := by decide
theorem tables_add : Generated.add_lists = some Expected.add_lists := by decide
theorem tables_connect : Generated.connect_lists = some Expected.connect_lists := by decide

theorem T_gatemap : T.gatemap = Expected.gatemap := by simp [T.gatemap, tables_gatemap]
theorem T_supported : T.supported = Expected.supported_types := by simp [T.supported, tables_supported]
theorem T_addL0 : T.addL 0 = ["buf", "not"] := by simp [T.addL, tables_add, Expected.add_lists]
theorem T_addL1 : T.addL 1 = ["0", "1", "x", "input"] := by simp [T.addL, tables_add, Expected.add_lists]
theorem T_connectL0 : T.connectL 0 = ["input", "0", "1", "x", "bb_output"] := by
  simp [T.connectL, tables_connect, Expected.connect_lists]
theorem T_connectL1 : T.connectL 1 = ["bb_input", "buf", "not"] := by
  simp [T.connectL, tables_connect, Expected.connect_lists]
theorem T_connectL2 : T.connectL 2 = ["bb_input"] := by
  simp [T.connectL, tables_connect, Expected.connect_lists]
theorem T_connectL3 : T.connectL 3 = ["bb_output"] := by
  simp [T.connectL, tables_connect, Expected.connect_lists]

/-! ### a circuit with one node appended -/

theorem attr_none_iff (c : Circuit) (m : Name) : c.attr? m = none ↔ c.has m = false := by
  unfold Circuit.attr? Circuit.has
  rw [List.lookup_eq_none_iff, Bool.eq_false_iff, Ne, List.any_eq_true]
  constructor
  · rintro h ⟨p, hp, he⟩
    have := h p hp
    simp only [bne_iff_ne, ne_eq] at this
    exact this (beq_iff_eq.mp he).symm
  · intro h p hp
    simp only [bne_iff_ne, ne_eq]
    intro he
    exact h ⟨p, hp, beq_iff_eq.mpr he.symm⟩

theorem has_of_attr {c : Circuit} {m : Name} {a : Attr} (h : c.attr? m = some a) : c.has m = true := by
  cases hh : c.has m with
  | true => rfl
  | false => rw [(attr_none_iff c m).mpr hh] at h; cases h

theorem has_of_ty {c : Circuit} {m : Name} {t : String} (h : c.ty? m = some t) : c.has m = true := by
  unfold Circuit.ty? at h
  cases ha : c.attr? m with
  | none => rw [ha] at h; cases h
  | some a => exact has_of_attr ha

theorem attr_of_has {c : Circuit} {m : Name} (h : c.has m = true) : ∃ a, c.attr? m = some a := by
  cases ha : c.attr? m with
  | none => rw [(attr_none_iff c m).mp ha] at h; cases h
  | some a => exact ⟨a, rfl⟩

theorem mem_nodes_of_attr {c : Circuit} {m : Name} {a : Attr} (h : c.attr? m = some a) : (m, a) ∈ c.nodes := by
  unfold Circuit.attr? at h
  obtain ⟨l₁, l₂, hl, _⟩ := List.lookup_eq_some_iff.mp h
  rw [hl]
  simp

section ext
variable {c c' : Circuit} {r : Name} {a : Attr}

theorem ext_has (hn : c'.nodes = c.nodes ++ [(r, a)]) (m : Name) :
    c'.has m = true ↔ c.has m = true ∨ m = r := by
  simp only [Circuit.has, hn, List.any_append, Bool.or_eq_true, List.any_cons, List.any_nil, Bool.or_false,
    beq_iff_eq]
  constructor
  · rintro (h | h)
    · exact Or.inl h
    · exact Or.inr h.symm
  · rintro (h | h)
    · exact Or.inl h
    · exact Or.inr h.symm

theorem ext_attr_old (hn : c'.nodes = c.nodes ++ [(r, a)]) {m : Name} (hm : c.has m = true) :
    c'.attr? m = c.attr? m := by
  obtain ⟨x, hx⟩ := attr_of_has hm
  unfold Circuit.attr? at hx ⊢
  rw [hn, List.lookup_append, hx]
  rfl

theorem ext_attr_new (hn : c'.nodes = c.nodes ++ [(r, a)]) (hr : c.has r = false) :
    c'.attr? r = some a := by
  have := (attr_none_iff c r).mpr hr
  unfold Circuit.attr? at this ⊢
  rw [hn, List.lookup_append, this]
  simp [List.lookup]

theorem ext_ty_old (hn : c'.nodes = c.nodes ++ [(r, a)]) {m : Name} (hm : c.has m = true) :
    c'.ty? m = c.ty? m := by
  unfold Circuit.ty?
  rw [ext_attr_old hn hm]

theorem ext_ty_new (hn : c'.nodes = c.nodes ++ [(r, a)]) (hr : c.has r = false) :
    c'.ty? r = a.ty := by
  unfold Circuit.ty?
  rw [ext_attr_new hn hr]
  rfl

/-- case split on a typed node of the extended circuit -/
theorem ext_ty_cases (hn : c'.nodes = c.nodes ++ [(r, a)]) (hr : c.has r = false) {m : Name} {t : String}
    (h : c'.ty? m = some t) : (c.has m = true ∧ c.ty? m = some t) ∨ (m = r ∧ a.ty = some t) := by
  rcases (ext_has hn m).mp (has_of_ty h) with hm | rfl
  · exact Or.inl ⟨hm, by rw [← ext_ty_old hn hm]; exact h⟩
  · exact Or.inr ⟨rfl, by rw [← ext_ty_new hn hr]; exact h⟩

theorem ext_inputs (hn : c'.nodes = c.nodes ++ [(r, a)]) (ha : a.ty ≠ some "input") :
    c'.inputs = c.inputs := by
  unfold Circuit.inputs Circuit.filterType
  rw [hn, List.filter_append, List.map_append]
  cases hty : a.ty with
  | none => simp [hty]
  | some t =>
    have : t ≠ "input" := by rintro rfl; exact ha hty
    simp [hty, this]

theorem ext_outputs (hn : c'.nodes = c.nodes ++ [(r, a)]) (ha : a.out = some false) :
    c'.outputs = c.outputs := by
  unfold Circuit.outputs
  rw [hn, List.filter_append, List.map_append]
  simp [ha]

theorem ext_nodeNames (hn : c'.nodes = c.nodes ++ [(r, a)]) : c'.nodeNames = c.nodeNames ++ [r] := by
  simp [Circuit.nodeNames, hn]

end ext

/-! ### `connect` -/

theorem goV_none (c : Circuit) (us : List Name) : ∀ (vs : List Name),
    (∀ v ∈ vs, ∃ t, c.ty? v = some t ∧ (T.connectL 0).contains t = false ∧
      ((T.connectL 1).contains t = true → (c.fanin v).length + us.length ≤ 1)) →
    Circuit.connectCheck.goV c us vs = none
  | [], _ => rfl
  | v :: rest, h => by
    obtain ⟨t, h1, h2, h3⟩ := h v (by simp)
    unfold Circuit.connectCheck.goV
    simp only [h1, h2]
    have h4 : ((T.connectL 1).contains t && decide ((c.fanin v).length + us.length > 1)) = false := by
      cases hc : (T.connectL 1).contains t with
      | false => rfl
      | true => have := h3 hc; simp; omega
    simp only [h4]
    exact goV_none c us rest (fun v' hv' => h v' (by simp [hv']))

theorem goU_none (c : Circuit) (vs : List Name) : ∀ (us : List Name),
    (∀ u ∈ us, ∃ t, c.ty? u = some t ∧ (T.connectL 2).contains t = false ∧ (T.connectL 3).contains t = false) →
    Circuit.connectCheck.goU c vs us = none
  | [], _ => rfl
  | u :: rest, h => by
    obtain ⟨t, h1, h2, h3⟩ := h u (by simp)
    unfold Circuit.connectCheck.goU
    simp only [h1, h2, h3]
    exact goU_none c vs rest (fun u' hu' => h u' (by simp [hu']))

theorem connectCheck_none (c : Circuit) (us vs : List Name)
    (hus : ∀ u ∈ us, c.has u = true) (hvs : ∀ v ∈ vs, c.has v = true)
    (hV : ∀ v ∈ vs, ∃ t, c.ty? v = some t ∧ (T.connectL 0).contains t = false ∧
      ((T.connectL 1).contains t = true → (c.fanin v).length + us.length ≤ 1))
    (hU : ∀ u ∈ us, ∃ t, c.ty? u = some t ∧ (T.connectL 2).contains t = false ∧
      (T.connectL 3).contains t = false) :
    c.connectCheck us vs = none := by
  unfold Circuit.connectCheck
  have h1 : (us.any fun n => !c.has n) = false := by
    rw [List.any_eq_false]; intro u hu; simp [hus u hu]
  have h2 : (vs.any fun n => !c.has n) = false := by
    rw [List.any_eq_false]; intro v hv; simp [hvs v hv]
  simp only [h1, h2, goV_none c us vs hV, goU_none c vs us hU]
  rfl

end Limit
end CG
