/- C14 (text level, module extraction) helper: declarative reading of the pieces of the module-extraction pattern
   (literal runs, `.*?` under DOTALL, `\b`) -/
import CG.Proofs.VModTextDefs
namespace CG
namespace VMT
open Regex BenchText

theorem mem_single (c x : Char) : CSet.mem { ranges := [(c, c)] } x = true ↔ x = c := by
  simp only [CSet.mem, List.any_cons, List.any_nil, Bool.or_false, Bool.false_eq_true, if_false, Bool.and_eq_true,
    decide_eq_true_eq]
  constructor
  · rintro ⟨h1, h2⟩; exact Char.le_antisymm h2 h1
  · rintro rfl; exact ⟨Char.le_refl _, Char.le_refl _⟩

theorem den_ch (ctx : Ctx) (a : Char) (s : List Char) (c : Caps) (s' : List Char) (c' : Caps) :
    Den ctx (ch a) s c s' c' ↔ s = a :: s' ∧ c' = c := by
  simp only [ch, Den]
  constructor
  · rintro ⟨x, e, hm, hc⟩
    rw [mem_single] at hm
    subst hm
    exact ⟨e, hc⟩
  · rintro ⟨e, hc⟩
    exact ⟨a, e, (mem_single a a).2 rfl, hc⟩

theorem den_litThen (ctx : Ctx) (r : Re) : ∀ (u s : List Char) (c : Caps) (s' : List Char) (c' : Caps),
    Den ctx (litThen u r) s c s' c' ↔ ∃ s1, s = u ++ s1 ∧ Den ctx r s1 c s' c'
  | [], s, c, s', c' => by
    simp only [litThen, List.foldr_nil, List.nil_append]
    exact ⟨fun h => ⟨s, rfl, h⟩, fun ⟨s1, e, h⟩ => e ▸ h⟩
  | a :: u, s, c, s', c' => by
    have ih := den_litThen ctx r u
    show Den ctx (.seq (ch a) (litThen u r)) s c s' c' ↔ _
    simp only [Den]
    constructor
    · rintro ⟨s1, c1, h1, h2⟩
      obtain ⟨e, rfl⟩ := (den_ch ctx a s c s1 c1).1 h1
      obtain ⟨s2, e2, h3⟩ := (ih s1 c1 s' c').1 h2
      exact ⟨s2, by rw [e, e2]; rfl, h3⟩
    · rintro ⟨s1, e, h⟩
      exact ⟨u ++ s1, c, (den_ch ctx a s c _ c).2 ⟨by rw [e]; rfl, rfl⟩, (ih _ c s' c').2 ⟨s1, rfl, h⟩⟩

theorem need_litThen (N : Nat) (r : Re) : ∀ u : List Char, need N (litThen u r) = need N r + 2 * u.length
  | [] => by simp [litThen]
  | a :: u => by
    have ih := need_litThen N r u
    show need N (.seq (ch a) (litThen u r)) = _
    simp only [need, ch, ih, List.length_cons]
    omega

/-- `.` repeated over any characters (DOTALL) -/
theorem iter_any (ctx : Ctx) (hd : ctx.dotall = true) (c : Caps) (s : List Char) :
    ∀ u : List Char, Iter (Den ctx .any) u.length (u ++ s) c s c
  | [] => ⟨rfl, rfl⟩
  | a :: u => ⟨u ++ s, c, ⟨a, rfl, by simp [hd], rfl⟩, by simp, iter_any ctx hd c s u⟩

theorem den_star_any (ctx : Ctx) (hd : ctx.dotall = true) (g : Bool) (c : Caps) (u s : List Char) :
    Den ctx (.star .any g) (u ++ s) c s c := ⟨u.length, iter_any ctx hd c s u⟩

/-! ### word boundaries -/

def lastW (pre : List Char) : Bool := match pre.getLast? with | some c => wc c | none => false
def headW (s : List Char) : Bool := match s.head? with | some c => wc c | none => false

theorem brkL_of_lastW {pre : List Char} (h : lastW pre = false) : BrkL pre := by
  intro c hc
  simpa [lastW, hc] using h

theorem brkR_of_headW {s : List Char} (h : headW s = false) : BrkR s := by
  intro c hc
  simpa [headW, hc] using h

/-- the matcher's `\b` test at the junction of a split of the text -/
theorem wbAt_split (ctx : Ctx) (pre s : List Char) (h : txt ctx = pre ++ s) :
    wbAt ctx (ctx.s.size - s.length) = (lastW pre != headW s) := by
  have hsz : ctx.s.size = pre.length + s.length := by rw [← txt_length, h, List.length_append]
  have hp : ctx.s.size - s.length = pre.length := by omega
  have hget : ∀ i (hi : i < ctx.s.size), ctx.s[i] = (pre ++ s)[i]'(by rw [List.length_append]; omega) := by
    intro i hi
    have : (txt ctx)[i]'(by rw [txt_length]; exact hi) = ctx.s[i] := by simp [txt]
    rw [← this]
    simp only [h]
  rw [hp]
  unfold wbAt
  simp only []
  congr 1
  · -- before
    rcases List.eq_nil_or_concat pre with rfl | ⟨p, a, rfl⟩
    · simp [lastW]
    · rw [List.concat_eq_append] at *
      have hne : ((p ++ [a]).length == 0) = false := by simp
      simp only [hne, Bool.false_eq_true, if_false]
      have hlt : (p ++ [a]).length - 1 < ctx.s.size := by simp at hsz ⊢; omega
      rw [dif_pos hlt, hget _ hlt]
      simp [lastW, wc, List.getElem_append_right]
  · cases s with
    | nil =>
      have : ¬ pre.length < ctx.s.size := by simp at hsz; omega
      rw [dif_neg this]
      rfl
    | cons a s =>
      have hlt : pre.length < ctx.s.size := by simp at hsz; omega
      rw [dif_pos hlt, hget _ hlt]
      simp [headW, wc]

end VMT
end CG
