/- C17 (super-circuit) helpers, part 3: filling one instance moves it from the blackbox side of the description to the
   filled side; filling all of them gives the fully spliced circuit. -/
import CG.Proofs.SGSuperFillB
set_option linter.unusedSectionVars false
set_option linter.unusedVariables false
set_option linter.unusedSimpArgs false
namespace CG
namespace SGSuper
open Supergates SGA Circuit

theorem fill_step (c2 : Circuit) (hwf2 : WF c2) (hN : NamesOK c2) (ord : Ord) (hord : OrdOK ord)
    (K1 K2 : List (Found × Circuit)) (p : Found × Circuit) (t : Circuit)
    (hok : ∀ q ∈ K1 ++ p :: K2, SGOk c2 q) (hnd : ((K1 ++ p :: K2).map (·.1.head)).Nodup)
    (D : MixDesc c2 K1 (p :: K2) t) :
    ∃ t', t.fillBlackbox (inst p.1.head) p.2 ord = (t', .ok) ∧ MixDesc c2 (K1 ++ [p]) K2 t' := by
  obtain ⟨t', hfill⟩ := fill_succeeds hN ord hok hnd D
  refine ⟨t', hfill, ?_⟩
  have Hp : SGOk c2 p := hok p (List.mem_append.mpr (Or.inr List.mem_cons_self))
  have H1 : ∀ q ∈ K1, SGOk c2 q := fun q hq => hok q (List.mem_append.mpr (Or.inl hq))
  have H2 : ∀ q ∈ K2, SGOk c2 q := fun q hq => hok q (List.mem_append.mpr (Or.inr (List.mem_cons_of_mem _ hq)))
  have hbbsnd : (p.2.bbs.map (·.1)).Nodup := by rw [Hp.bbs_nil]; exact List.nodup_nil
  obtain ⟨sHas, sChild, sParent, sEdges, sBbs, sWf⟩ :=
    C06.fill_blackbox_struct t p.2 t' (inst p.1.head) (bbOf p) ord hord D.wf Hp.wf Hp.full hbbsnd (lookup_head D) hfill
  -- nets
  have netIff : ∀ x, IsNet c2 (K1 ++ p :: K2) x ↔ IsNet c2 ((K1 ++ [p]) ++ K2) x :=
    fun x => isNet_congr (fun q => mem_shift K1 K2 p q) x
  have netHas : ∀ x, IsNet c2 (K1 ++ p :: K2) x → t.has x = true ∧ NotPin p x :=
    fun x hx => ⟨(D.has x).mpr (Or.inl hx), notPin_net hN Hp (isNet_c2 hok hx)⟩
  -- earlier spliced nodes
  have preHas : ∀ q ∈ K1, ∀ n, q.2.has n = true → t.has (pre q.1.head n) = true ∧ NotPin p (pre q.1.head n) :=
    fun q hq n hn => ⟨(D.has _).mpr (Or.inr (Or.inl ⟨q, hq, n, hn, rfl⟩)),
      notPin_pre hN Hp (H1 q hq).head_c2 ((H1 q hq).node_c2 hn)⟩
  -- later pins
  have pinHas : ∀ q ∈ K2, ∀ g ∈ q.2.inputs ++ [q.1.head], t.has (pin q.1.head g) = true ∧ NotPin p (pin q.1.head g) :=
    fun q hq g hg => ⟨(D.has _).mpr (Or.inr (Or.inr ⟨q, List.mem_cons_of_mem _ hq, g, hg, rfl⟩)),
      notPin_pin hN Hp (H2 q hq).head_c2 ((H2 q hq).pinname_c2 ((pinname_iff g).mpr hg)) (heads_ne_right hnd q hq)⟩
  refine ⟨sWf, ?_, ?_, ?_, ?_, ?_⟩
  · -- registry
    rw [sBbs, Hp.bbs_nil, List.map_nil, List.append_nil]
    exact bbs_after hnd D
  · -- nodes
    intro x
    rw [sHas]
    constructor
    · rintro (⟨hx, hnp⟩ | ⟨m, hm, e⟩)
      · rcases (D.has x).mp hx with h | ⟨q, hq, n, hn, e⟩ | ⟨q, hq, g, hg, e⟩
        · exact Or.inl ((netIff x).mp h)
        · exact Or.inr (Or.inl ⟨q, List.mem_append.mpr (Or.inl hq), n, hn, e⟩)
        · rcases List.mem_cons.mp hq with h | h
          · subst h
            exact absurd e (hnp g ((pinname_iff g).mpr hg))
          · exact Or.inr (Or.inr ⟨q, h, g, hg, e⟩)
      · exact Or.inr (Or.inl ⟨p, List.mem_append.mpr (Or.inr (List.mem_singleton.mpr rfl)), m, hm, e⟩)
    · rintro (h | ⟨q, hq, n, hn, e⟩ | ⟨q, hq, g, hg, e⟩)
      · exact Or.inl (netHas x ((netIff x).mpr h))
      · rcases List.mem_append.mp hq with h | h
        · subst e
          exact Or.inl (preHas q h n hn)
        · have : q = p := List.mem_singleton.mp h
          subst this
          exact Or.inr ⟨n, hn, e⟩
      · subst e
        exact Or.inl (pinHas q hq g hg)
  · -- attributes of nets
    intro x hx
    have hx' := (netIff x).mpr hx
    obtain ⟨a, b⟩ := netHas x hx'
    rw [sParent x a b]
    exact D.netAttr x hx'
  · -- attributes of spliced nodes
    intro q hq n a hna
    rcases List.mem_append.mp hq with h | h
    · have hn : q.2.has n = true := (Circuit.has_iff_mem q.2 n).mpr (List.mem_map.mpr ⟨(n, a), hna, rfl⟩)
      obtain ⟨a1, b1⟩ := preHas q h n hn
      rw [sParent _ a1 b1]
      exact D.preAttr q h n a hna
    · have : q = p := List.mem_singleton.mp h
      subst this
      exact sChild n a hna
  · -- edges
    intro e
    rw [sEdges]
    constructor
    · rintro (⟨e0, he0, rfl⟩ | he)
      · rcases (D.edges e0).mp he0 with ⟨q, hq, h⟩ | ⟨q, hq, h⟩
        · have hq' : q ∈ K1 ++ [p] := List.mem_append.mpr (Or.inl hq)
          have Hq := H1 q hq
          left
          refine ⟨q, hq', ?_⟩
          rcases h with ⟨i, hi, rfl⟩ | rfl | ⟨e1, he1, rfl⟩
          · left
            refine ⟨i, hi, ?_⟩
            show (C06.renPin _ _ i, C06.renPin _ _ (pre q.1.head i)) = _
            rw [ren_notPin (notPin_net hN Hp (Hq.input_c2 hi)), ren_notPin (preHas q hq i (Hq.input_has hi)).2]
          · right; left
            show (C06.renPin _ _ (pre q.1.head q.1.head), C06.renPin _ _ q.1.head) = _
            rw [ren_notPin (notPin_net hN Hp Hq.head_c2), ren_notPin (preHas q hq _ Hq.head_has).2]
          · right; right
            refine ⟨e1, he1, ?_⟩
            show (C06.renPin _ _ (pre q.1.head e1.1), C06.renPin _ _ (pre q.1.head e1.2)) = _
            rw [ren_notPin (preHas q hq _ (Hq.wf.closed e1 he1).1).2, ren_notPin (preHas q hq _ (Hq.wf.closed e1 he1).2).2]
        · rcases List.mem_cons.mp hq with hqp | hq2
          · subst hqp
            left
            refine ⟨q, List.mem_append.mpr (Or.inr (List.mem_singleton.mpr rfl)), ?_⟩
            rcases h with ⟨i, hi, rfl⟩ | rfl
            · left
              refine ⟨i, hi, ?_⟩
              show (C06.renPin _ _ i, C06.renPin _ _ (pin q.1.head i)) = _
              rw [ren_notPin (notPin_net hN Hp (Hp.input_c2 hi)), ren_pin (input_pinname hi)]
            · right; left
              show (C06.renPin _ _ (pin q.1.head q.1.head), C06.renPin _ _ q.1.head) = _
              rw [ren_notPin (notPin_net hN Hp Hp.head_c2), ren_pin head_pinname]
          · right
            have Hq := H2 q hq2
            refine ⟨q, hq2, ?_⟩
            rcases h with ⟨i, hi, rfl⟩ | rfl
            · left
              refine ⟨i, hi, ?_⟩
              show (C06.renPin _ _ i, C06.renPin _ _ (pin q.1.head i)) = _
              rw [ren_notPin (notPin_net hN Hp (Hq.input_c2 hi)),
                ren_notPin (pinHas q hq2 i (List.mem_append.mpr (Or.inl hi))).2]
            · right
              show (C06.renPin _ _ (pin q.1.head q.1.head), C06.renPin _ _ q.1.head) = _
              rw [ren_notPin (notPin_net hN Hp Hq.head_c2),
                ren_notPin (pinHas q hq2 _ (List.mem_append.mpr (Or.inr (List.mem_singleton.mpr rfl)))).2]
      · obtain ⟨e1, he1, rfl⟩ := List.mem_map.mp he
        left
        exact ⟨p, List.mem_append.mpr (Or.inr (List.mem_singleton.mpr rfl)), Or.inr (Or.inr ⟨e1, he1, rfl⟩)⟩
    · rintro (⟨q, hq, h⟩ | ⟨q, hq2, h⟩)
      · rcases List.mem_append.mp hq with hq1 | hqp
        · have Hq := H1 q hq1
          left
          rcases h with ⟨i, hi, rfl⟩ | rfl | ⟨e1, he1, rfl⟩
          · refine ⟨(i, pre q.1.head i), (D.edges _).mpr (Or.inl ⟨q, hq1, Or.inl ⟨i, hi, rfl⟩⟩), ?_⟩
            show _ = (C06.renPin _ _ i, C06.renPin _ _ (pre q.1.head i))
            rw [ren_notPin (notPin_net hN Hp (Hq.input_c2 hi)), ren_notPin (preHas q hq1 i (Hq.input_has hi)).2]
          · refine ⟨(pre q.1.head q.1.head, q.1.head), (D.edges _).mpr (Or.inl ⟨q, hq1, Or.inr (Or.inl rfl)⟩), ?_⟩
            show _ = (C06.renPin _ _ (pre q.1.head q.1.head), C06.renPin _ _ q.1.head)
            rw [ren_notPin (notPin_net hN Hp Hq.head_c2), ren_notPin (preHas q hq1 _ Hq.head_has).2]
          · refine ⟨(pre q.1.head e1.1, pre q.1.head e1.2),
              (D.edges _).mpr (Or.inl ⟨q, hq1, Or.inr (Or.inr ⟨e1, he1, rfl⟩)⟩), ?_⟩
            show _ = (C06.renPin _ _ (pre q.1.head e1.1), C06.renPin _ _ (pre q.1.head e1.2))
            rw [ren_notPin (preHas q hq1 _ (Hq.wf.closed e1 he1).1).2, ren_notPin (preHas q hq1 _ (Hq.wf.closed e1 he1).2).2]
        · have : q = p := List.mem_singleton.mp hqp
          subst this
          rcases h with ⟨i, hi, rfl⟩ | rfl | ⟨e1, he1, rfl⟩
          · left
            refine ⟨(i, pin q.1.head i),
              (D.edges _).mpr (Or.inr ⟨q, List.mem_cons_self, Or.inl ⟨i, hi, rfl⟩⟩), ?_⟩
            show _ = (C06.renPin _ _ i, C06.renPin _ _ (pin q.1.head i))
            rw [ren_notPin (notPin_net hN Hp (Hp.input_c2 hi)), ren_pin (input_pinname hi)]
          · left
            refine ⟨(pin q.1.head q.1.head, q.1.head),
              (D.edges _).mpr (Or.inr ⟨q, List.mem_cons_self, Or.inr rfl⟩), ?_⟩
            show _ = (C06.renPin _ _ (pin q.1.head q.1.head), C06.renPin _ _ q.1.head)
            rw [ren_notPin (notPin_net hN Hp Hp.head_c2), ren_pin head_pinname]
          · right
            exact List.mem_map.mpr ⟨e1, he1, rfl⟩
      · have Hq := H2 q hq2
        left
        rcases h with ⟨i, hi, rfl⟩ | rfl
        · refine ⟨(i, pin q.1.head i),
            (D.edges _).mpr (Or.inr ⟨q, List.mem_cons_of_mem _ hq2, Or.inl ⟨i, hi, rfl⟩⟩), ?_⟩
          show _ = (C06.renPin _ _ i, C06.renPin _ _ (pin q.1.head i))
          rw [ren_notPin (notPin_net hN Hp (Hq.input_c2 hi)),
            ren_notPin (pinHas q hq2 i (List.mem_append.mpr (Or.inl hi))).2]
        · refine ⟨(pin q.1.head q.1.head, q.1.head),
            (D.edges _).mpr (Or.inr ⟨q, List.mem_cons_of_mem _ hq2, Or.inr rfl⟩), ?_⟩
          show _ = (C06.renPin _ _ (pin q.1.head q.1.head), C06.renPin _ _ q.1.head)
          rw [ren_notPin (notPin_net hN Hp Hq.head_c2),
            ren_notPin (pinHas q hq2 _ (List.mem_append.mpr (Or.inr (List.mem_singleton.mpr rfl)))).2]

/-- the fold, generalised over the already filled instances -/
theorem fillAll_desc_gen (c2 : Circuit) (hwf2 : WF c2) (hN : NamesOK c2) (ord : Ord) (hord : OrdOK ord) :
    ∀ (K2 K1 : List (Found × Circuit)) (t : Circuit),
      (∀ q ∈ K1 ++ K2, SGOk c2 q) → ((K1 ++ K2).map (·.1.head)).Nodup → MixDesc c2 K1 K2 t →
      ∃ full, fillAll t (K2.map (fun p => (inst p.1.head, p.2))) ord = .ok full ∧ MixDesc c2 (K1 ++ K2) [] full
  | [], K1, t, _, _, D => ⟨t, rfl, by rw [List.append_nil]; exact D⟩
  | p :: K2, K1, t, hok, hnd, D => by
    obtain ⟨t', hfill, D'⟩ := fill_step c2 hwf2 hN ord hord K1 K2 p t hok hnd D
    have e : (K1 ++ [p]) ++ K2 = K1 ++ p :: K2 := by rw [List.append_assoc]; rfl
    obtain ⟨full, hfull, DF⟩ := fillAll_desc_gen c2 hwf2 hN ord hord K2 (K1 ++ [p]) t'
      (by rw [e]; exact hok) (by rw [e]; exact hnd) D'
    refine ⟨full, ?_, by rw [← e]; exact DF⟩
    rw [← hfull]
    unfold fillAll
    rw [List.map_cons, List.foldlM_cons, hfill]
    rfl

theorem fillAll_desc (c2 : Circuit) (hwf2 : WF c2) (hN : NamesOK c2) (ord : Ord) (hord : OrdOK ord)
    (K : List (Found × Circuit)) (s : Circuit)
    (hok : ∀ q ∈ K, SGOk c2 q) (hnd : (K.map (·.1.head)).Nodup) (D : MixDesc c2 [] K s) :
    ∃ full, fillAll s (K.map (fun p => (inst p.1.head, p.2))) ord = .ok full ∧ MixDesc c2 K [] full := by
  have := fillAll_desc_gen c2 hwf2 hN ord hord K [] s (by simpa using hok) (by simpa using hnd) D
  simpa using this

end SGSuper
end CG
