/- helper lemmas for C08 (model counting): counting lemmas on duplicate-free lists of Boolean lists, the semantics
   of blocking clauses, the invariant of the `while solver.solve()` loop, and the order-independence of the count -/
import CG.Sat
import CG.Spec
import CG.Props.C01
namespace CG
namespace MC

/-! ## counting -/

theorem nodup_subset_length_le {α : Type} [DecidableEq α] :
    ∀ (l l' : List α), l.Nodup → l ⊆ l' → l.length ≤ l'.length := by
  intro l
  induction l with
  | nil => intro l' _ _; exact Nat.zero_le _
  | cons a l ih =>
    intro l' hnd hsub
    rw [List.nodup_cons] at hnd
    have ha : a ∈ l' := hsub List.mem_cons_self
    have hlen : l'.length = (l'.erase a).length + 1 := by
      have h := (List.perm_cons_erase ha).length_eq
      rw [h, List.length_cons]
    have hsub' : l ⊆ l'.erase a := by
      intro x hx
      have hne : x ≠ a := fun h => hnd.1 (h ▸ hx)
      exact (List.mem_erase_of_ne hne).mpr (hsub (List.mem_cons_of_mem _ hx))
    have h := ih (l'.erase a) hnd.2 hsub'
    rw [List.length_cons, hlen]
    exact Nat.succ_le_succ h

theorem nodup_map_of_inj_on {α β : Type} (f : α → β) :
    ∀ (l : List α), l.Nodup → (∀ x ∈ l, ∀ y ∈ l, f x = f y → x = y) → (l.map f).Nodup := by
  intro l
  induction l with
  | nil => intro _ _; exact List.nodup_nil
  | cons a l ih =>
    intro hnd hinj
    rw [List.nodup_cons] at hnd
    rw [List.map_cons, List.nodup_cons]
    refine ⟨?_, ih hnd.2 (fun x hx y hy => hinj x (List.mem_cons_of_mem _ hx) y (List.mem_cons_of_mem _ hy))⟩
    intro hmem
    obtain ⟨y, hy, hfy⟩ := List.mem_map.mp hmem
    have h := hinj y (List.mem_cons_of_mem _ hy) a List.mem_cons_self hfy
    exact hnd.1 (h ▸ hy)

/-- all Boolean lists of length `k` -/
def allBools : Nat → List (List Bool)
  | 0 => [[]]
  | k + 1 => (allBools k).map (false :: ·) ++ (allBools k).map (true :: ·)

theorem allBools_length : ∀ k, (allBools k).length = 2 ^ k
  | 0 => rfl
  | k + 1 => by
    rw [allBools, List.length_append, List.length_map, List.length_map, allBools_length k, Nat.pow_succ]
    omega

theorem mem_allBools : ∀ (k : Nat) (bs : List Bool), bs.length = k → bs ∈ allBools k
  | 0, [], _ => List.mem_cons_self
  | 0, _ :: _, h => by cases h
  | k + 1, [], h => by cases h
  | k + 1, b :: bs, h => by
    have ih := mem_allBools k bs (Nat.succ.inj h)
    rw [allBools, List.mem_append, List.mem_map, List.mem_map]
    cases b
    · exact Or.inl ⟨bs, ih, rfl⟩
    · exact Or.inr ⟨bs, ih, rfl⟩

/-- a duplicate-free list of Boolean lists of length `k` has at most `2 ^ k` elements -/
theorem nodup_bools_length_le (k : Nat) (B : List (List Bool)) (hnd : B.Nodup)
    (hlen : ∀ bs ∈ B, bs.length = k) : B.length ≤ 2 ^ k := by
  rw [← allBools_length k]
  exact nodup_subset_length_le B (allBools k) hnd (fun bs hbs => mem_allBools k bs (hlen bs hbs))

/-! ## projections and blocking clauses -/

/-- the projection of an assignment onto the startpoints -/
def proj (sp : List Name) (σ : Var → Bool) : List Bool := sp.map (fun n => σ (.node n))

theorem proj_length (sp : List Name) (σ : Var → Bool) : (proj sp σ).length = sp.length := by
  rw [proj, List.length_map]

theorem lit_block (a b : Bool) : (if (!b) = true then a else !a) = true ↔ a ≠ b := by
  cases a <;> cases b <;> decide

/-- a blocking clause is falsified exactly by the assignments with the same projection -/
theorem blocking_sat (σ σ₀ : Var → Bool) :
    ∀ sp, Clause.sat σ (blockingClause σ₀ sp) = true ↔ proj sp σ ≠ proj sp σ₀ := by
  intro sp
  induction sp with
  | nil =>
    constructor
    · intro h; cases h
    · intro h; exact absurd rfl h
  | cons n sp ih =>
    have hcl : Clause.sat σ (blockingClause σ₀ (n :: sp)) =
        (Lit.sat σ { pos := !σ₀ (.node n), v := .node n } || Clause.sat σ (blockingClause σ₀ sp)) := rfl
    have hp : ∀ τ : Var → Bool, proj (n :: sp) τ = τ (.node n) :: proj sp τ := fun _ => rfl
    rw [hcl, hp, hp, Bool.or_eq_true, ih]
    have hl : Lit.sat σ { pos := !σ₀ (.node n), v := .node n } = true ↔ σ (.node n) ≠ σ₀ (.node n) :=
      lit_block _ _
    rw [hl]
    constructor
    · rintro (h | h) heq
      · exact h (List.cons.inj heq).1
      · exact h (List.cons.inj heq).2
    · intro hne
      by_cases h1 : σ (.node n) = σ₀ (.node n)
      · refine Or.inr (fun h2 => hne ?_)
        rw [h1, h2]
      · exact Or.inl h1

theorem sat_snoc (σ : Var → Bool) (g : CNF) (cl : Clause) :
    CNF.sat σ (g ++ [cl]) = true ↔ CNF.sat σ g = true ∧ Clause.sat σ cl = true := by
  rw [Tseitin.cnf_sat_append, Bool.and_eq_true]
  have h : CNF.sat σ [cl] = (Clause.sat σ cl && true) := rfl
  rw [h, Bool.and_true]

/-! ## the loop -/

/-- invariant of the blocking-clause loop: `B` is the duplicate-free list of projections blocked so far, each the
    projection of a model of `base`; `g` is equivalent to `base` plus "projection not in `B`" -/
theorem go_spec (s : Solver) (hs : SolverSpec s) (sp : List Name) (base : CNF) :
    ∀ (fuel : Nat) (g : CNF) (B : List (List Bool)), B.Nodup →
      (∀ bs ∈ B, ∃ σ, CNF.sat σ base = true ∧ proj sp σ = bs) →
      (∀ σ, CNF.sat σ g = true ↔ (CNF.sat σ base = true ∧ proj sp σ ∉ B)) →
      2 ^ sp.length + 1 ≤ fuel + B.length →
      ∃ L : List (List Bool), L.Nodup ∧ (∀ bs, bs ∈ L ↔ ∃ σ, CNF.sat σ base = true ∧ proj sp σ = bs) ∧
        modelCountGo s sp fuel g B.length = some L.length := by
  intro fuel
  induction fuel with
  | zero =>
    intro g B hnd hB _ hfuel
    have hle := nodup_bools_length_le sp.length B hnd (fun bs hbs => by
      obtain ⟨σ, _, rfl⟩ := hB bs hbs
      exact proj_length sp σ)
    omega
  | succ fuel ih =>
    intro g B hnd hB hg hfuel
    cases hsg : s g with
    | none =>
      refine ⟨B, hnd, fun bs => ⟨hB bs, ?_⟩, ?_⟩
      · rintro ⟨σ, hσ, rfl⟩
        by_cases hmem : proj sp σ ∈ B
        · exact hmem
        · have h1 := (hg σ).mpr ⟨hσ, hmem⟩
          have h2 := hs.complete g hsg σ
          rw [h1] at h2
          cases h2
      · rw [modelCountGo, hsg]
    | some σ =>
      have hσ := (hg σ).mp (hs.sound g σ hsg)
      have hnd' : (proj sp σ :: B).Nodup := List.nodup_cons.mpr ⟨hσ.2, hnd⟩
      have hB' : ∀ bs ∈ proj sp σ :: B, ∃ τ, CNF.sat τ base = true ∧ proj sp τ = bs := by
        intro bs hbs
        rcases List.mem_cons.mp hbs with rfl | hbs
        · exact ⟨σ, hσ.1, rfl⟩
        · exact hB bs hbs
      have hg' : ∀ τ, CNF.sat τ (g ++ [blockingClause σ sp]) = true ↔
          (CNF.sat τ base = true ∧ proj sp τ ∉ proj sp σ :: B) := by
        intro τ
        rw [sat_snoc, hg τ, blocking_sat, List.mem_cons, not_or]
        constructor
        · rintro ⟨⟨h1, h2⟩, h3⟩; exact ⟨h1, h3, h2⟩
        · rintro ⟨h1, h3, h2⟩; exact ⟨⟨h1, h2⟩, h3⟩
      have hfuel' : 2 ^ sp.length + 1 ≤ fuel + (proj sp σ :: B).length := by
        rw [List.length_cons]; omega
      obtain ⟨L, hL1, hL2, hL3⟩ := ih (g ++ [blockingClause σ sp]) (proj sp σ :: B) hnd' hB' hg' hfuel'
      refine ⟨L, hL1, hL2, ?_⟩
      rw [modelCountGo, hsg]
      exact hL3

/-! ## the formula handed to the solver, projected -/

theorem base_projection (c : Circuit) (ord : Ord) (hord : OrdOK ord) (hc : C01.Clean c) (f : CNF)
    (hf : cnf c ord = .ok f) (as : List (Name × Bool)) (sp : List Name) (bs : List Bool) :
    (∃ σ, CNF.sat σ (f ++ assumptionClauses as) = true ∧ sp.map (fun n => σ (.node n)) = bs) ↔
      ∃ v, Consistent c v ∧ (∀ p ∈ as, v p.1 = p.2) ∧ sp.map v = bs := by
  constructor
  · rintro ⟨σ, hσ, hbs⟩
    rw [Tseitin.cnf_sat_append, Bool.and_eq_true] at hσ
    exact ⟨fun n => σ (.node n), C01.cnf_sound c ord hord hc f hf σ hσ.1,
      (Tseitin.assumption_sat σ as).mp hσ.2, hbs⟩
  · rintro ⟨v, hv, hag, hbs⟩
    refine ⟨C01.ext c v, ?_, hbs⟩
    rw [Tseitin.cnf_sat_append, Bool.and_eq_true]
    exact ⟨C01.cnf_complete c ord hord hc f hf v hv, (Tseitin.assumption_sat _ as).mpr hag⟩

theorem modelCount_spec (s : Solver) (hs : SolverSpec s) (c : Circuit) (ord : Ord) (hord : OrdOK ord)
    (hc : C01.Clean c) (as : List (Name × Bool)) (hin : ∀ p ∈ as, c.has p.1 = true) :
    ∃ L : List (List Bool), L.Nodup ∧
      (∀ bs, bs ∈ L ↔ ∃ v, Consistent c v ∧ (∀ p ∈ as, v p.1 = p.2) ∧ (ord c.startpointsAll).map v = bs) ∧
      modelCount s c ord as = .ok L.length := by
  obtain ⟨f, hf⟩ := C01.cnf_ok c ord hord hc
  have hty : c.nodes.any (fun p => p.2.ty.isNone) = false := by
    rw [List.any_eq_false]
    intro p hp
    obtain ⟨t, ht, _⟩ := hc.typed p hp
    rw [ht]
    simp
  have hany : as.any (fun p => !c.has p.1) = false := by
    rw [List.any_eq_false]
    intro p hp
    rw [hin p hp]
    simp
  obtain ⟨L, hnd, hmem, hgo⟩ := go_spec s hs (ord c.startpointsAll) (f ++ assumptionClauses as)
    (2 ^ (ord c.startpointsAll).length + 1) (f ++ assumptionClauses as) [] List.nodup_nil
    (fun bs hbs => by cases hbs)
    (fun σ => ⟨fun h => ⟨h, fun hm => by cases hm⟩, fun h => h.1⟩)
    (Nat.le_refl _)
  refine ⟨L, hnd, fun bs => (hmem bs).trans (base_projection c ord hord hc f hf as _ bs), ?_⟩
  unfold modelCount
  simp only [hty, Bool.false_eq_true, if_false, hf, hany]
  rw [List.length_nil] at hgo
  rw [hgo]

/-! ## order independence -/

/-- a permutation of the startpoints induces a reindexing of their valuations -/
theorem perm_reindex {sp1 sp2 : List Name} (h : sp1.Perm sp2) :
    ∃ φ : List Bool → List Bool, ∀ v : Name → Bool, φ (sp1.map v) = sp2.map v := by
  induction h with
  | nil => exact ⟨id, fun _ => rfl⟩
  | cons x _ ih =>
    obtain ⟨φ, hφ⟩ := ih
    refine ⟨fun l => l.headD false :: φ l.tail, fun v => ?_⟩
    show (List.map v (x :: _)).headD false :: φ (List.map v (x :: _)).tail = _
    rw [List.map_cons, List.map_cons, List.headD_cons, List.tail_cons, hφ v]
  | swap x y l =>
    exact ⟨fun l => l.tail.headD false :: l.headD false :: l.tail.tail, fun v => rfl⟩
  | trans _ _ ih1 ih2 =>
    obtain ⟨φ, hφ⟩ := ih1
    obtain ⟨ψ, hψ⟩ := ih2
    exact ⟨fun l => ψ (φ l), fun v => by show ψ (φ _) = _; rw [hφ v, hψ v]⟩

theorem count_le_of_perm {sp1 sp2 : List Name} (h : sp1.Perm sp2) (P : (Name → Bool) → Prop)
    (L1 L2 : List (List Bool)) (hn1 : L1.Nodup)
    (h1 : ∀ bs, bs ∈ L1 ↔ ∃ v, P v ∧ sp1.map v = bs) (h2 : ∀ bs, bs ∈ L2 ↔ ∃ v, P v ∧ sp2.map v = bs) :
    L1.length ≤ L2.length := by
  obtain ⟨φ, hφ⟩ := perm_reindex h
  obtain ⟨ψ, hψ⟩ := perm_reindex h.symm
  have hinv : ∀ x ∈ L1, ψ (φ x) = x := by
    intro x hx
    obtain ⟨v, _, rfl⟩ := (h1 x).mp hx
    rw [hφ v, hψ v]
  have hnd : (L1.map φ).Nodup := nodup_map_of_inj_on φ L1 hn1 (fun x hx y hy hxy => by
    rw [← hinv x hx, ← hinv y hy, hxy])
  have hsub : L1.map φ ⊆ L2 := by
    intro bs hbs
    obtain ⟨x, hx, rfl⟩ := List.mem_map.mp hbs
    obtain ⟨v, hv, rfl⟩ := (h1 x).mp hx
    exact (h2 _).mpr ⟨v, hv, (hφ v).symm⟩
  have hle := nodup_subset_length_le (L1.map φ) L2 hnd hsub
  rw [List.length_map] at hle
  exact hle

theorem count_eq_of_perm {sp1 sp2 : List Name} (h : sp1.Perm sp2) (P : (Name → Bool) → Prop)
    (L1 L2 : List (List Bool)) (hn1 : L1.Nodup) (hn2 : L2.Nodup)
    (h1 : ∀ bs, bs ∈ L1 ↔ ∃ v, P v ∧ sp1.map v = bs) (h2 : ∀ bs, bs ∈ L2 ↔ ∃ v, P v ∧ sp2.map v = bs) :
    L1.length = L2.length :=
  Nat.le_antisymm (count_le_of_perm h P L1 L2 hn1 h1 h2) (count_le_of_perm h.symm P L2 L1 hn2 h2 h1)

theorem modelCount_order (s : Solver) (hs : SolverSpec s) (c : Circuit) (o1 o2 : Ord)
    (ho1 : OrdOK o1) (ho2 : OrdOK o2) (hc : C01.Clean c) (as : List (Name × Bool))
    (hin : ∀ p ∈ as, c.has p.1 = true) :
    modelCount s c o1 as = modelCount s c o2 as := by
  obtain ⟨L1, hn1, hm1, hc1⟩ := modelCount_spec s hs c o1 ho1 hc as hin
  obtain ⟨L2, hn2, hm2, hc2⟩ := modelCount_spec s hs c o2 ho2 hc as hin
  have hperm : (o1 c.startpointsAll).Perm (o2 c.startpointsAll) :=
    (ho1 c.startpointsAll).trans (ho2 c.startpointsAll).symm
  have hlen := count_eq_of_perm hperm (fun v => Consistent c v ∧ ∀ p ∈ as, v p.1 = p.2) L1 L2 hn1 hn2
    (fun bs => (hm1 bs).trans ⟨fun ⟨v, a, b, d⟩ => ⟨v, ⟨a, b⟩, d⟩, fun ⟨v, ⟨a, b⟩, d⟩ => ⟨v, a, b, d⟩⟩)
    (fun bs => (hm2 bs).trans ⟨fun ⟨v, a, b, d⟩ => ⟨v, ⟨a, b⟩, d⟩, fun ⟨v, ⟨a, b⟩, d⟩ => ⟨v, a, b, d⟩⟩)
  rw [hc1, hc2, hlen]

theorem signalProbability_spec (s : Solver) (hs : SolverSpec s) (sub : Circuit) (n : Name) (ord : Ord)
    (hord : OrdOK ord) (hc : C01.Clean sub) (hn : sub.has n = true) :
    ∃ L : List (List Bool), L.Nodup ∧
      (∀ bs, bs ∈ L ↔ ∃ v, Consistent sub v ∧ (∀ p ∈ [(n, true)], v p.1 = p.2) ∧
        (ord sub.startpointsAll).map v = bs) ∧
      signalProbability s sub n ord = .ok (L.length, sub.startpointsAll.length) := by
  obtain ⟨L, hnd, hmem, hcnt⟩ := modelCount_spec s hs sub ord hord hc [(n, true)] (fun p hp => by
    rcases List.mem_singleton.mp hp with rfl
    exact hn)
  refine ⟨L, hnd, hmem, ?_⟩
  rw [signalProbability, hcnt]

end MC
end CG
