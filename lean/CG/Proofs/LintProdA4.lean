/- C20 (second half, ternary) helper: the branches of `Tx.ternaryNode`, with the nodes they create -/
import CG.Proofs.LintProdA3
namespace CG
namespace LintProdA
open Circuit Ternary

variable {c : Circuit} {mp : Name → Name}

/-- the nodes of `t'` that `t` lacks are companions or dot-free, correctly driven helper gates -/
def NewN (c : Circuit) (mp : Name → Name) (t t' : Circuit) : Prop :=
  ∀ y, t'.has y = true →
    t.has y = true ∨ (∃ m, c.has m = true ∧ y = mp m) ∨ (IsHelper y ∧ hasDot y = false ∧ Ar t' y)

theorem ord_ne_nil {ord : Ord} (hord : OrdOK ord) {l : List Name} (h : l ≠ []) : ord l ≠ [] := by
  intro e
  have := (hord l).length_eq
  rw [e] at this
  cases l with
  | nil => exact h rfl
  | cons a l => simp at this

theorem andor_core2 {G : Gadget} (hG : GStable G) (g : GoodC c) (hm : MapOK c mp) {ord : Ord} (hord : OrdOK ord)
    (hnd : ∀ y, c.has y = true → hasDot y = false)
    {t : Circuit} (hW : W c mp t) (hsub : ∀ x, c.has x = true → t.has x = true) {n : Name}
    (hn : c.has n = true) (hne : c.fanin n ≠ []) (hclean : ∀ e ∈ t.edges, e.2 ≠ mp n) (out : Bool)
    (sfxz : String) (hsz : sfxz ∈ helperSfx) (step : Name → Circuit → Name → E Circuit)
    (hstep : ∀ z, StepOK2 G c mp z (step z)) :
    ∃ t', (Tx.addC t { n := mp n, ty := "and", output := out, allowRedef := true } >>= fun t1 =>
      Tx.addC t1 { n := n ++ "_x_in_fi", ty := "or", fanout := [mp n], fanin := (ord (c.fanin n)).map mp,
                   uid := true, addConnected := true } >>= fun t2 =>
      addE t2 { n := n ++ sfxz, ty := "nor", fanout := [mp n], uid := true } >>= fun r =>
      (ord (c.fanin n)).foldlM (step r.2) r.1) = .ok t' ∧
      W c mp t' ∧ Frame t t' (S mp t n) (S mp t n) ∧ AndOr G c mp t' n ∧ NewN c mp t t' ∧ Ar t' (mp n) := by
  have hfi : ∀ p, p ∈ ord (c.fanin n) ↔ p ∈ c.fanin n := fun p => (hord (c.fanin n)).mem_iff
  have hfic : ∀ p ∈ ord (c.fanin n), c.has p = true := fun p hp =>
    (g.edge (mem_fanin.mp ((hfi p).mp hp))).1
  -- the companion
  obtain ⟨t1, hadd1, o1, hnew1⟩ := comp_gate2 hW n hn (hm.nameOK g hn) "and" [] out false (by decide)
    (fun h => absurd h (by decide)) (fun _ => rfl) hclean (fun u hu => nomatch hu)
  -- the `x_in_fi` gate
  obtain ⟨t2, x, hadd2, o2, hnew2, hdot2⟩ := fresh_gate2 hm o1.w n "_x_in_fi" "or" ((ord (c.fanin n)).map mp)
    [mp n] true (g.digit hn) (by decide) (by decide) (fun h => absurd h (by decide))
    (by intro v hv; rw [List.mem_singleton] at hv; subst hv; exact ⟨"and", o1.ty_r, by decide⟩)
    (by
      intro u hu
      obtain ⟨p, hp, rfl⟩ := List.mem_map.mp hu
      exact Or.inr ⟨rfl, p, hfic p hp, rfl, hm.nameOK g (hfic p hp)⟩)
  have hmx : mp n ≠ x := ne_of_has_fresh o1.has_r o2.fresh
  have hty2 : t2.ty? (mp n) = some "and" := by rw [o2.frame.ty o1.has_r hmx]; exact o1.ty_r
  have hm2 : t2.has (mp n) = true := has_of_ty? hty2
  -- the `not_in_fi` gate
  obtain ⟨t3, z, hadd3, o3, hnew3, hdot3⟩ := fresh_gate2 hm o2.w n sfxz "nor" [] [mp n] false
    (g.digit hn) hsz (by decide) (fun h => absurd h (by decide))
    (by intro v hv; rw [List.mem_singleton] at hv; subst hv; exact ⟨"and", hty2, by decide⟩)
    (fun u hu => nomatch hu)
  have hmz : mp n ≠ z := ne_of_has_fresh hm2 o3.fresh
  have hxz : x ≠ z := ne_of_has_fresh o2.has_r o3.fresh
  have hty3 : t3.ty? (mp n) = some "and" := by rw [o3.frame.ty hm2 hmz]; exact hty2
  have hm3 : t3.has (mp n) = true := has_of_ty? hty3
  have hx3 : t3.has x = true := o3.frame.has _ o2.has_r
  -- the operand loop
  obtain ⟨t', e4, hW', hf4, ha, hb, hnew4⟩ := collect_loop2 hG (hstep z) (ord (c.fanin n)) t3 o3.w o3.ty_r
    (by
      intro p hp
      refine ⟨?_, ?_, g.digit (hfic p hp), hnd p (hfic p hp)⟩
      · exact o3.frame.has _ (o2.frame.has _ (o1.frame.has _ (hsub p (hfic p hp))))
      · exact o3.frame.has _ (o2.has_fi _ (List.mem_map.mpr ⟨p, hp, rfl⟩)))
  have hnz : ¬ (mp n = z ∨ NewH t3 (mp n)) := fun h => h.elim hmz (not_newH hm3)
  have hnx : ¬ (x = z ∨ NewH t3 x) := fun h => h.elim hxz (not_newH hx3)
  -- the final attributes and fan-ins of the three named gates
  have hty_m : t'.ty? (mp n) = some "and" := by rw [hf4.ty hm3 (not_newH hm3)]; exact hty3
  have hfi_m : FaninIs t' (mp n) [x, z] := by
    intro u
    rw [hf4.edge hnz u, o3.into_fo (mp n) (by simp) u, o2.into_fo (mp n) (by simp) u, o1.fanin_r u]
    simp
  have hty_x : t'.ty? x = some "or" := by
    rw [hf4.ty hx3 (not_newH hx3), o3.frame.ty o2.has_r hxz]; exact o2.ty_r
  have hfi_x : FaninIs t' x ((c.fanin n).map mp) := by
    refine (hf4.faninIs hnx (o3.frame.faninIs ?_ o2.fanin_r)).congr ?_
    · rintro (h | h)
      · exact hxz h
      · exact hmx (List.mem_singleton.mp h).symm
    · intro u
      simp only [List.mem_map]
      exact ⟨fun ⟨p, hp, e⟩ => ⟨p, (hfi p).mp hp, e⟩, fun ⟨p, hp, e⟩ => ⟨p, (hfi p).mpr hp, e⟩⟩
  have hty_z : t'.ty? z = some "nor" := by rw [hf4.ty o3.has_r (not_newH o3.has_r)]; exact o3.ty_r
  refine ⟨t', ?_, hW', ?_, ?_, ?_, ?_⟩
  · rw [addC_of hadd1, ok_bind, addC_of hadd2, ok_bind, addE_of hadd3, ok_bind]
    exact e4
  · -- the frame
    have f1 : Frame t t1 (S mp t n) (S mp t n) := o1.frame.weaken (fun _ _ h => Or.inl h) (fun _ h => Or.inl h)
    have f2 : Frame t t2 (S mp t n) (S mp t n) := ext_frame f1 o2.frameH
      (fun y hy => Or.inl (List.mem_singleton.mp hy)) (fun y hy => Or.inr hy)
    have f3 : Frame t t3 (S mp t n) (S mp t n) := ext_frame f2 o3.frameH
      (fun y hy => Or.inl (List.mem_singleton.mp hy)) (fun y hy => Or.inr hy)
    refine ext_frame f3 hf4 (fun y hy => ?_) (fun y hy => Or.inr hy)
    subst hy
    exact Or.inr (NewH.mono f2.has ⟨o3.fresh, o3.helper⟩)
  · refine ⟨x, z, hty_m, hfi_m, o2.helper, hty_x, hfi_x, o3.helper, hty_z, ?_, ?_⟩
    · intro h he
      rcases ha h he with h1 | ⟨p, hp, hg⟩
      · exact absurd ((o3.fanin_r h).mp h1) (by simp)
      · exact ⟨p, (hfi p).mp hp, hg⟩
    · intro p hp
      exact hb p ((hfi p).mpr hp)
  · -- the new nodes
    have hx_ok : IsHelper x ∧ hasDot x = false ∧ Ar t' x :=
      ⟨o2.helper, by rw [hdot2]; exact hnd n hn,
        Ar.of_multi_faninIs hty_x (by decide) hfi_x (by simpa using hne)⟩
    have hz_ok : IsHelper z ∧ hasDot z = false ∧ Ar t' z := by
      refine ⟨o3.helper, by rw [hdot3]; exact hnd n hn, ?_⟩
      cases hof : ord (c.fanin n) with
      | nil => exact absurd hof (ord_ne_nil hord hne)
      | cons p l =>
        obtain ⟨h, he, _⟩ := hb p (by rw [hof]; simp)
        exact Ar.of_multi hty_z (by decide) he
    intro y hy
    rcases hnew4 y hy with h4 | ⟨h4, _, h5, h6⟩
    · rcases hnew3 y h4 with h3 | h3 | ⟨h3, _⟩
      · rcases hnew2 y h3 with h2 | h2 | ⟨_, h2⟩
        · rcases hnew1 y h2 with h1 | h1 | ⟨h1, _⟩
          · exact Or.inl h1
          · exact Or.inr (Or.inl ⟨n, hn, h1⟩)
          · cases h1
        · subst h2; exact Or.inr (Or.inr hx_ok)
        · obtain ⟨p, hp, rfl⟩ := List.mem_map.mp h2
          exact Or.inr (Or.inl ⟨p, hfic p hp, rfl⟩)
      · subst h3; exact Or.inr (Or.inr hz_ok)
      · cases h3
    · exact Or.inr (Or.inr ⟨h4, h5, h6⟩)
  · exact Ar.of_multi_faninIs hty_m (by decide) hfi_m (by simp)

/-! ### the branches with a single companion gate -/

theorem simple_core2 (g : GoodC c) (hm : MapOK c mp) {t : Circuit} (hW : W c mp t) {n : Name}
    (hn : c.has n = true) (hclean : ∀ e ∈ t.edges, e.2 ≠ mp n) (ty' : String) (fi : List Name) (out ac : Bool)
    (hty : ty' ∈ ["buf", "or", "0", "input"]) (hbuf : ty' = "buf" → fi.length ≤ 1)
    (hsrc : ty' = "0" ∨ ty' = "input" → fi = [])
    (hfi : ∀ p ∈ fi, (p, n) ∈ c.edges) (hac : fi ≠ [] → ac = true) :
    ∃ t', Tx.addC t { n := mp n, ty := ty', fanin := fi.map mp, output := out, addConnected := ac,
                      allowRedef := true } = .ok t' ∧
      W c mp t' ∧ Frame t t' (S mp t n) (S mp t n) ∧ t'.ty? (mp n) = some ty' ∧ FaninIs t' (mp n) (fi.map mp) ∧
      NewN c mp t t' := by
  obtain ⟨t', hadd, o, hnew⟩ := comp_gate2 hW n hn (hm.nameOK g hn) ty' (fi.map mp) out ac
    (by
      simp only [List.mem_cons, List.not_mem_nil, or_false] at hty ⊢
      rcases hty with rfl | rfl | rfl | rfl <;> simp)
    (by intro h; rw [List.length_map]; exact hbuf h)
    (by intro h; rw [hsrc h]; rfl) hclean
    (by
      intro u hu
      obtain ⟨p, hp, rfl⟩ := List.mem_map.mp hu
      obtain ⟨hpc, _, hpn⟩ := g.edge (hfi p hp)
      refine ⟨fun e => hpn (hm.inj hpc hn e), Or.inr ⟨hac (List.ne_nil_of_mem hp), p, hpc, rfl, hm.nameOK g hpc⟩⟩)
  refine ⟨t', addC_of hadd, o.w, o.frame.weaken (fun _ _ h => Or.inl h) (fun _ h => Or.inl h), o.ty_r, o.fanin_r, ?_⟩
  intro y hy
  rcases hnew y hy with h1 | h1 | ⟨_, h1⟩
  · exact Or.inl h1
  · exact Or.inr (Or.inl ⟨n, hn, h1⟩)
  · obtain ⟨p, hp, rfl⟩ := List.mem_map.mp h1
    exact Or.inr (Or.inl ⟨p, (g.edge (hfi p hp)).1, rfl⟩)

end LintProdA
end CG
