/-
  CG.Proofs.VText — helper lemmas for the text-level theorems of C03 (lexer/parser invert the renderer); import hub.
   * `VTextLex`   — big-step view of the lexer with the fuel bound built in (`VX.Lexes`), one rule per kind of token
   * `VTextDefs`  — the shape of the emitted module as far as lexer and parser care (`VX.WOK`, `VX.StmtOK`)
   * `VTextLine`  — comma-separated lists (lexer and `sepBy`), behavioural chains (text, tokens, `pExpr`)
   * `VTextItem`  — one printed line = one item (`VX.line_stmt`, declarations)
   * `VTextMod`   — the whole module (`VX.module_text`)
   * `VTextWrite` — what the writer emits has the shape `WOK` (`VX.wok_of_write`)
   * `VTextGlue`  — executable identifier checks for the examples
-/
import CG.Proofs.VRound
import CG.Proofs.Vlog
import CG.Proofs.VTextLex
import CG.Proofs.VTextDefs
import CG.Proofs.VTextLine
import CG.Proofs.VTextItem
import CG.Proofs.VTextMod
import CG.Proofs.VTextWrite
import CG.Proofs.VTextGlue
