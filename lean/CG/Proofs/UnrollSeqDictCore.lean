/- C09 (sequential_unroll with a per-flop initial-value dict): soundness and completeness of the unrolling for ANY
   retyping of step-0 state inputs ("a set of flops, each its own value"); generalises the final phase of
   `USS.seq_sound` / `USS.seq_complete` -/
import CG.Proofs.UnrollSeqSem
set_option linter.unusedSimpArgs false
set_option linter.unusedVariables false
namespace CG
namespace USD
open Circuit Unroll Strip USS

section
variable {c : Circuit} {bb : BBox} {d q : Name} {ig : List Name} {ru : Bool} {pfx : String} {ord : Ord} {n : Nat}
  {cs0 : Circuit} {r : Tx.UState}

/-- distinct flops have distinct step-0 state inputs -/
theorem Setup.q0_inj (T : Setup c bb d q ig ru pfx ord n cs0 r) {u u' : Name × BBox} (hu : u ∈ c.bbs) (hu' : u' ∈ c.bbs)
    (e : N (prune cs0 bb (insts c) d q ig ru) pfx (u.1 ++ "_" ++ q) 0 =
         N (prune cs0 bb (insts c) d q ig ru) pfx (u'.1 ++ "_" ++ q) 0) : u.1 = u'.1 := by
  have hnd := T.I.wf.nodup
  unfold Circuit.nodeNames at hnd
  rw [T.I.nodes] at hnd
  obtain ⟨k, hk⟩ : ∃ k, n = k + 1 := ⟨n - 1, by have := T.npos; omega⟩
  rw [hk, List.range_succ_eq_map, List.flatMap_cons] at hnd
  unfold stepNodes at hnd
  rw [List.map_append, List.map_append, List.map_map] at hnd
  have h1 := (List.nodup_append.1 (List.nodup_append.1 hnd).1).1
  exact under_inj (inj_of_nodup_map h1 _ (T.qName u hu).2.2.2 _ (T.qName u' hu').2.2.2 e)

/-- soundness for any circuit on the graph of the plain unrolling that differs from it only in the types of step-0
    state inputs: a consistent valuation is a run, and the initial state can be read off at those nodes -/
theorem sound_core (hord : OrdOK ord) (G : SeqGood' c bb d q) (K : NoClash c bb ig)
    (T : Setup c bb d q ig ru pfx ord n cs0 r) {uc : Circuit}
    (e1 : uc.edges = r.1.edges) (e2 : uc.nodeNames = r.1.nodeNames)
    (e3 : ∀ x, uc.ty? x = r.1.ty? x ∨ ∃ u ∈ c.bbs, x = N (prune cs0 bb (insts c) d q ig ru) pfx (u.1 ++ "_" ++ q) 0)
    (v : Val) (hv : Consistent uc v) :
    ∃ w, SeqRun' c d q n w ∧
      (∀ o ∈ c.outputs, ∀ t, t < n → v (Tx.ioName r.2 o t) = w t o) ∧
      (∀ u ∈ c.bbs, ∀ t, t < n → v (Tx.ioName r.2 (u.1 ++ "_" ++ d) t) = w t (u.1 ++ "." ++ d)) ∧
      (∀ u ∈ c.bbs, w 0 (u.1 ++ "." ++ q) = v (N (prune cs0 bb (insts c) d q ig ru) pfx (u.1 ++ "_" ++ q) 0)) := by
  have hndu : uc.nodeNames.Nodup := by rw [e2]; exact T.I.wf.nodup
  have hv0 : Consistent r.1 v := by
    apply consistent_transfer e1.symm T.I.wf.nodup hndu hv
    intro x t hx
    rcases e3 x with h3 | ⟨u, hu, rfl⟩
    · exact Or.inl (by rw [h3]; exact hx)
    · rw [T.q0_input hu] at hx
      injection hx with hx
      subst hx
      exact Or.inr (fun l b hg => by rw [USS.gateFn_input] at hg; cases hg)
  obtain ⟨s1, s2, s3⟩ := T.I.sem T.C hv0
  have hA := R12_removable G K T.S
  have hB := R3_removable (cs0.remove (R12 c bb d q ig)) (insts c) q ru
  have hback : ∀ t x, dropped c ig x = false → sname c ig x ∈ ord (prune cs0 bb (insts c) d q ig ru).io →
      back c ig cs0 (R12 c bb d q ig) (R3 (cs0.remove (R12 c bb d q ig)) (insts c) q ru) (fun y => v (U t y)) x =
        v (U t (sname c ig x)) := by
    intro t x hd hio
    have h3 := has_of_mem_io ((hord _).mem_iff.1 hio)
    rw [prune_eq, remove2_has] at h3
    exact back_val _ hd h3.2.1 h3.2.2
  refine ⟨fun t => back c ig cs0 (R12 c bb d q ig) (R3 (cs0.remove (R12 c bb d q ig)) (insts c) q ru) (fun y => v (U t y)),
    ⟨?_, ?_⟩, ?_, ?_, ?_⟩
  · intro t ht
    apply back_consistent G.clean T.S hA hB
    rw [← prune_eq]
    exact s1 t ht
  · intro t ht u hu
    obtain ⟨_, qd, qs, qio⟩ := T.qName u hu
    obtain ⟨_, dd, ds, dio⟩ := T.dName u hu
    show back _ _ _ _ _ _ _ = back _ _ _ _ _ _ _
    rw [hback _ _ qd (by rw [qs]; exact qio), hback _ _ dd (by rw [ds]; exact dio), qs, ds]
    exact s2 t ht _ (mem_sio hu)
  · intro o ho t ht
    obtain ⟨o3, os, od, _⟩ := out_survives G K T.S ru ho
    have oio : o ∈ ord (prune cs0 bb (insts c) d q ig ru).io := (hord _).mem_iff.2 (mem_union.2 (Or.inr o3))
    show _ = back _ _ _ _ _ _ _
    rw [hback _ _ od (by rw [os]; exact oio), os, T.ioName oio ht]
    exact s3 o oio t ht
  · intro u hu t ht
    obtain ⟨_, dd, ds, dio⟩ := T.dName u hu
    show _ = back _ _ _ _ _ _ _
    rw [hback _ _ dd (by rw [ds]; exact dio), ds, T.ioName dio ht]
    exact s3 _ dio t ht
  · intro u hu
    obtain ⟨_, qd, qs, qio⟩ := T.qName u hu
    show back _ _ _ _ _ _ _ = _
    rw [hback _ _ qd (by rw [qs]; exact qio), qs, ← s3 _ qio 0 T.npos]

/-- completeness for any circuit on the graph of the plain unrolling whose types differ from it only at step-0 state
    inputs retyped to a constant that the run starts from -/
theorem complete_core (hord : OrdOK ord) (G : SeqGood' c bb d q) (K : NoClash c bb ig)
    (T : Setup c bb d q ig ru pfx ord n cs0 r) {uc : Circuit}
    (e1 : uc.edges = r.1.edges) (e2 : uc.nodeNames = r.1.nodeNames)
    (w : Nat → Val) (hw : SeqRun' c d q n w)
    (e3 : ∀ x s, uc.ty? x = some s → r.1.ty? x = some s ∨
      ∃ u ∈ c.bbs, x = N (prune cs0 bb (insts c) d q ig ru) pfx (u.1 ++ "_" ++ q) 0 ∧ (s = "0" ∨ s = "1") ∧
        w 0 (u.1 ++ "." ++ q) = (s == "1")) :
    ∃ v, Consistent uc v ∧
      (∀ o ∈ c.outputs, ∀ t, t < n → v (Tx.ioName r.2 o t) = w t o) ∧
      (∀ u ∈ c.bbs, ∀ t, t < n → v (Tx.ioName r.2 (u.1 ++ "_" ++ d) t) = w t (u.1 ++ "." ++ d)) := by
  have hndu : uc.nodeNames.Nodup := by rw [e2]; exact T.I.wf.nodup
  have hA := R12_removable G K T.S
  have hB := R3_removable (cs0.remove (R12 c bb d q ig)) (insts c) q ru
  have hw3 : ∀ t, t < n → Consistent (prune cs0 bb (insts c) d q ig ru) (pushVal c ig (w t)) := by
    intro t ht
    rw [prune_eq]
    exact fwd_consistent G.clean T.S hA hB (hw.1 t ht)
  have hlink : ∀ t, t + 1 < n → ∀ p ∈ sio c d q, pushVal c ig (w (t + 1)) p.2 = pushVal c ig (w t) p.1 := by
    intro t ht p hp
    obtain ⟨u, hu, rfl⟩ := mem_sio_inv hp
    obtain ⟨qh, qd, qs, _⟩ := T.qName u hu
    obtain ⟨dh, dd, ds, _⟩ := T.dName u hu
    show pushVal c ig (w (t + 1)) (u.1 ++ "_" ++ q) = pushVal c ig (w t) (u.1 ++ "_" ++ d)
    rw [← qs, ← ds, pushVal_surv T.S _ qh qd, pushVal_surv T.S _ dh dd]
    exact hw.2 t ht u hu
  have hio : ∀ x ∈ ord (prune cs0 bb (insts c) d q ig ru).io, x ∉ (prune cs0 bb (insts c) d q ig ru).inputs →
      (prune cs0 bb (insts c) d q ig ru).has x = true := fun x hx _ => has_of_mem_io ((hord _).mem_iff.1 hx)
  obtain ⟨k1, k2⟩ := T.I.complete T.C hio (fun t => pushVal c ig (w t)) hw3 hlink
  refine ⟨valOf (prune cs0 bb (insts c) d q ig ru) pfx (ord (prune cs0 bb (insts c) d q ig ru).io) n
    (fun t => pushVal c ig (w t)), ?_, ?_, ?_⟩
  · apply consistent_transfer e1 hndu T.I.wf.nodup k1
    intro x t hx
    rcases e3 x t hx with h3 | ⟨u, hu, rfl, hs, hw0⟩
    · exact Or.inl h3
    · right
      intro l b hg
      rw [gateFn_const hs l] at hg
      injection hg with hg
      obtain ⟨qh, qd, qs, qio⟩ := T.qName u hu
      rw [← hg, valOf_N T.I _ T.npos qio, ← qs, pushVal_surv T.S _ qh qd]
      exact hw0
  · intro o ho t ht
    obtain ⟨o3, os, od, oh⟩ := out_survives G K T.S ru ho
    have oio : o ∈ ord (prune cs0 bb (insts c) d q ig ru).io := (hord _).mem_iff.2 (mem_union.2 (Or.inr o3))
    rw [T.ioName oio ht, valOf_N T.I _ ht oio]
    have := pushVal_surv T.S (w t) oh od
    rw [os] at this
    exact this
  · intro u hu t ht
    obtain ⟨dh, dd, ds, dio⟩ := T.dName u hu
    rw [T.ioName dio ht, valOf_N T.I _ ht dio, ← ds]
    exact pushVal_surv T.S (w t) dh dd

end
end USD
end CG
