/- C14 helper: the graph-building folds of the fast reader (nodes from a functional list, edges between known nodes) -/
import CG.Proofs.FastAsmB
set_option linter.unusedSimpArgs false
set_option linter.unusedVariables false
namespace CG
namespace FV
open Verilog FastVerilog Circuit

/-! ### adding a functional list of attributed nodes -/

def addAll (l : List (Name × Attr)) (c : Circuit) : Circuit := l.foldl (fun c p => c.addNodeAttr p.1 p.2) c

theorem attr_merge_self (a : Attr) :
    ({ ty := a.ty.orElse (fun _ => a.ty), out := a.out.orElse (fun _ => a.out) } : Attr) = a := by
  obtain ⟨ty, out⟩ := a
  cases ty <;> cases out <;> rfl

theorem addAll_spec : ∀ (l : List (Name × Attr)) (c : Circuit),
    (∀ p ∈ l, ∀ q ∈ l, p.1 = q.1 → p.2 = q.2) →
    (∀ p ∈ l, c.attr? p.1 = none ∨ c.attr? p.1 = some p.2) →
    c.nodeNames.Nodup →
    (addAll l c).nodeNames.Nodup ∧ (addAll l c).edges = c.edges ∧ (addAll l c).name = c.name ∧
      (addAll l c).bbs = c.bbs ∧ (∀ p ∈ l, (addAll l c).attr? p.1 = some p.2) ∧
      (∀ m, (∀ p ∈ l, p.1 ≠ m) → (addAll l c).attr? m = c.attr? m)
  | [], c, _, _, hn => ⟨hn, rfl, rfl, rfl, fun _ h => (by cases h), fun _ _ => rfl⟩
  | p :: l, c, hfun, hcomp, hn => by
    have hp1 : (c.addNodeAttr p.1 p.2).attr? p.1 = some p.2 := by
      rw [addNodeAttr_attr?, if_pos rfl]
      rcases hcomp p (by simp) with h | h
      · rw [h]
      · rw [h]; simp only []; rw [attr_merge_self]
    have hcomp' : ∀ q ∈ l, (c.addNodeAttr p.1 p.2).attr? q.1 = none ∨ (c.addNodeAttr p.1 p.2).attr? q.1 = some q.2 := by
      intro q hq
      by_cases hqp : q.1 = p.1
      · right
        rw [hqp, hp1, hfun p (by simp) q (by simp [hq]) hqp.symm]
      · rw [addNodeAttr_attr?, if_neg hqp]
        exact hcomp q (by simp [hq])
    obtain ⟨i1, i2, i3, i4, i5, i6⟩ := addAll_spec l (c.addNodeAttr p.1 p.2)
      (fun a ha b hb => hfun a (by simp [ha]) b (by simp [hb])) hcomp' (addNodeAttr_nodup _ _ hn)
    have e : addAll (p :: l) c = addAll l (c.addNodeAttr p.1 p.2) := rfl
    rw [e]
    refine ⟨i1, by rw [i2, addNodeAttr_edges], by rw [i3, addNodeAttr_name], by rw [i4, addNodeAttr_bbs], ?_, ?_⟩
    · intro q hq
      rcases List.mem_cons.1 hq with rfl | hq'
      · by_cases hex : ∃ q' ∈ l, q'.1 = q.1
        · obtain ⟨q', hq', e'⟩ := hex
          have h5 := i5 q' hq'
          rw [e'] at h5
          rw [h5, hfun q' (by simp [hq']) q (by simp) e']
        · rw [i6 q.1 (fun q' hq' e' => hex ⟨q', hq', e'⟩), hp1]
      · exact i5 q hq'
    · intro m hm
      rw [i6 m (fun q hq => hm q (by simp [hq])), addNodeAttr_attr?, if_neg (fun e => hm p (by simp) e.symm)]

theorem addAll_empty (l : List (Name × Attr)) (nm : String) (hfun : ∀ p ∈ l, ∀ q ∈ l, p.1 = q.1 → p.2 = q.2) :
    (addAll l { name := nm }).nodeNames.Nodup ∧ (addAll l { name := nm }).edges = [] ∧
      (addAll l { name := nm }).name = nm ∧
      ∀ n x, (addAll l { name := nm }).attr? n = some x ↔ (n, x) ∈ l := by
  obtain ⟨i1, i2, i3, _, i5, i6⟩ := addAll_spec l { name := nm } hfun (fun _ _ => Or.inl rfl) List.nodup_nil
  refine ⟨i1, i2, i3, ?_⟩
  intro n x
  constructor
  · intro hx
    by_cases hex : ∃ q ∈ l, q.1 = n
    · obtain ⟨q, hq, rfl⟩ := hex
      rw [i5 q hq] at hx
      injection hx with hx
      rw [← hx]; exact hq
    · rw [i6 n (fun q hq e => hex ⟨q, hq, e⟩)] at hx
      cases hx
  · intro hx
    exact i5 (n, x) hx

/-! ### the node list of the fast reader -/

def nodeList (ins : List Name) (nets : List (String × List Name)) : List (Name × Attr) :=
  ins.map (fun n => (n, ({ ty := some "input", out := none } : Attr))) ++
    [("tie0", { ty := some "0" }), ("tie1", { ty := some "1" })] ++
    nets.flatMap (fun kv => kv.2.map (fun n => (n, ({ ty := some kv.1, out := some false } : Attr))))

theorem mem_nodeList (ins : List Name) (nets : List (String × List Name)) (n : Name) (x : Attr) :
    (n, x) ∈ nodeList ins nets ↔
      (n ∈ ins ∧ x = { ty := some "input", out := none }) ∨ (n = "tie0" ∧ x = { ty := some "0" }) ∨
      (n = "tie1" ∧ x = { ty := some "1" }) ∨ ∃ k, inNets nets k n ∧ x = { ty := some k, out := some false } := by
  unfold nodeList inNets
  simp only [List.mem_append, List.mem_map, List.mem_flatMap, List.mem_cons, List.not_mem_nil, or_false,
    Prod.mk.injEq, Prod.exists]
  constructor
  · rintro ((⟨m, hm, rfl, rfl⟩ | ⟨rfl, rfl⟩ | ⟨rfl, rfl⟩) | ⟨k, vs, hkv, m, hm, rfl, rfl⟩)
    · exact Or.inl ⟨hm, rfl⟩
    · exact Or.inr (Or.inl ⟨rfl, rfl⟩)
    · exact Or.inr (Or.inr (Or.inl ⟨rfl, rfl⟩))
    · exact Or.inr (Or.inr (Or.inr ⟨k, ⟨vs, hkv, hm⟩, rfl⟩))
  · rintro (⟨hm, rfl⟩ | ⟨rfl, rfl⟩ | ⟨rfl, rfl⟩ | ⟨k, ⟨vs, hkv, hm⟩, rfl⟩)
    · exact Or.inl (Or.inl ⟨n, hm, rfl, rfl⟩)
    · exact Or.inl (Or.inr (Or.inl ⟨rfl, rfl⟩))
    · exact Or.inl (Or.inr (Or.inr ⟨rfl, rfl⟩))
    · exact Or.inr ⟨k, vs, hkv, n, hm, rfl, rfl⟩

theorem addNodes_eq (c : Circuit) (ns : List Name) (t : String) (o : Option Bool) :
    addNodes c ns t o = addAll (ns.map (fun n => (n, ({ ty := some t, out := o } : Attr)))) c := by
  unfold addNodes addAll
  rw [List.foldl_map]

theorem netsFold_eq (nets : List (String × List Name)) (c : Circuit) :
    nets.foldl (fun c kv => addNodes c kv.2 kv.1 (some false)) c =
      addAll (nets.flatMap (fun kv => kv.2.map (fun n => (n, ({ ty := some kv.1, out := some false } : Attr))))) c := by
  unfold addAll
  rw [List.foldl_flatMap]
  congr 1
  funext c kv
  exact addNodes_eq c kv.2 kv.1 (some false)

theorem nodes_eq (nm : String) (ins : List Name) (nets : List (String × List Name)) :
    nets.foldl (fun c kv => addNodes c kv.2 kv.1 (some false))
      (((addNodes { name := nm } ins "input" none).addNodeAttr "tie0" { ty := some "0" }).addNodeAttr "tie1"
        { ty := some "1" }) = addAll (nodeList ins nets) { name := nm } := by
  rw [netsFold_eq, addNodes_eq]
  unfold nodeList addAll
  rw [List.foldl_append, List.foldl_append]
  rfl

/-! ### adding edges between existing nodes -/

theorem addEdgeAuto_eq {c : Circuit} {e : Name × Name} (h1 : c.has e.1 = true) (h2 : c.has e.2 = true) :
    addEdgeAuto c e = c.addEdge e.1 e.2 := by
  simp only [addEdgeAuto, h1, h2, if_true]

theorem foldl_addEdgeAuto : ∀ (es : List (Name × Name)) (c : Circuit),
    (∀ e ∈ es, c.has e.1 = true ∧ c.has e.2 = true) →
    es.foldl addEdgeAuto c = es.foldl (fun c e => c.addEdge e.1 e.2) c
  | [], _, _ => rfl
  | e :: es, c, h => by
    have he := h e (by simp)
    rw [List.foldl_cons, List.foldl_cons, addEdgeAuto_eq he.1 he.2]
    apply foldl_addEdgeAuto
    intro x hx
    have := h x (by simp [hx])
    rw [has_congr (addEdge_nodes c e.1 e.2), has_congr (addEdge_nodes c e.1 e.2)]
    exact this

/-! ### adding edges whose endpoints may be missing: the fast reader's floating nets -/

/-- `add_edges_from` creates a missing endpoint without attributes -/
def ensure (c : Circuit) (n : Name) : Circuit := if c.has n then c else { c with nodes := c.nodes ++ [(n, {})] }

theorem addEdgeAuto_ensure (c : Circuit) (e : Name × Name) :
    addEdgeAuto c e = ((ensure (ensure c e.1) e.2).addEdge e.1 e.2) := rfl

theorem ensure_edges (c : Circuit) (n : Name) : (ensure c n).edges = c.edges := by
  unfold ensure; split <;> rfl
theorem ensure_name (c : Circuit) (n : Name) : (ensure c n).name = c.name := by
  unfold ensure; split <;> rfl

theorem ensure_has (c : Circuit) (n m : Name) : (ensure c n).has m = true ↔ c.has m = true ∨ m = n := by
  unfold ensure
  by_cases h : c.has n = true
  · rw [if_pos h]
    exact ⟨Or.inl, fun h' => h'.elim id (fun e => e ▸ h)⟩
  · rw [if_neg h]
    simp only [Circuit.has, List.any_append, List.any_cons, List.any_nil, Bool.or_false, Bool.or_eq_true, beq_iff_eq]
    exact ⟨fun h' => h'.imp id Eq.symm, fun h' => h'.imp id Eq.symm⟩

theorem ensure_nodup (c : Circuit) (n : Name) (hn : c.nodeNames.Nodup) : (ensure c n).nodeNames.Nodup := by
  unfold ensure
  by_cases h : c.has n = true
  · rw [if_pos h]; exact hn
  · rw [if_neg h]
    show (List.map (·.1) (c.nodes ++ [(n, ({} : Attr))])).Nodup
    rw [List.map_append, List.nodup_append]
    refine ⟨hn, by simp, ?_⟩
    intro a ha b hb e
    simp only [List.map_cons, List.map_nil, List.mem_singleton] at hb
    subst hb; subst e
    exact h ((has_iff_mem c a).2 ha)

theorem ensure_attr_old (c : Circuit) (n : Name) {m : Name} (hm : c.has m = true) : (ensure c n).attr? m = c.attr? m := by
  unfold ensure
  by_cases h : c.has n = true
  · rw [if_pos h]
  · rw [if_neg h]
    unfold Circuit.attr?
    simp only []
    rw [has_eq_isSome] at hm
    unfold Circuit.attr? at hm
    cases hl : c.nodes.lookup m with
    | none => rw [hl] at hm; cases hm
    | some a => rw [List.lookup_append, hl]; rfl

theorem ensure_attr_new (c : Circuit) (n : Name) (hn : c.has n = false) : (ensure c n).attr? n = some {} := by
  unfold ensure
  rw [if_neg (by rw [hn]; exact Bool.false_ne_true)]
  unfold Circuit.attr?
  simp only []
  rw [List.lookup_append]
  have : c.nodes.lookup n = none := attr?_none_of_not_has hn
  rw [this]
  simp [List.lookup]

/-- the node lists `add_edges_from` passes through: names stay duplicate-free, old nodes keep their attributes, a node
    created on the way has none -/
theorem addEdgeAuto_step (c : Circuit) (e : Name × Name) (hn : c.nodeNames.Nodup) (he : c.edges.Nodup) :
    (addEdgeAuto c e).nodeNames.Nodup ∧ (addEdgeAuto c e).edges.Nodup ∧ (addEdgeAuto c e).name = c.name ∧
    (∀ x, x ∈ (addEdgeAuto c e).edges ↔ x ∈ c.edges ∨ x = e) ∧
    (∀ m, (addEdgeAuto c e).has m = true ↔ c.has m = true ∨ m = e.1 ∨ m = e.2) ∧
    (∀ m, c.has m = true → (addEdgeAuto c e).attr? m = c.attr? m) ∧
    (∀ m, c.has m = false → (addEdgeAuto c e).has m = true → (addEdgeAuto c e).attr? m = some {}) := by
  rw [addEdgeAuto_ensure]
  have hnodes := addEdge_nodes (ensure (ensure c e.1) e.2) e.1 e.2
  have hhas : ∀ m, ((ensure (ensure c e.1) e.2).addEdge e.1 e.2).has m = true ↔ c.has m = true ∨ m = e.1 ∨ m = e.2 := by
    intro m
    rw [has_congr hnodes, ensure_has, ensure_has, or_assoc]
  have hold : ∀ m, c.has m = true → ((ensure (ensure c e.1) e.2).addEdge e.1 e.2).attr? m = c.attr? m := by
    intro m hm
    rw [attr?_congr hnodes, ensure_attr_old _ _ ((ensure_has c e.1 m).2 (Or.inl hm)), ensure_attr_old _ _ hm]
  refine ⟨?_, ?_, ?_, ?_, hhas, hold, ?_⟩
  · rw [nodeNames_congr hnodes]
    exact ensure_nodup _ _ (ensure_nodup _ _ hn)
  · apply addEdge_nodup
    rw [ensure_edges, ensure_edges]; exact he
  · rw [addEdge_name, ensure_name, ensure_name]
  · intro x
    rw [addEdge_mem, ensure_edges, ensure_edges]
  · intro m hm h2
    rw [attr?_congr hnodes]
    by_cases h1 : (ensure c e.1).has m = true
    · rw [ensure_attr_old _ _ h1]
      rcases (ensure_has c e.1 m).1 h1 with h | h
      · rw [hm] at h; cases h
      · subst h; exact ensure_attr_new c _ hm
    · have h1' : (ensure c e.1).has m = false := by simpa using h1
      rcases (hhas m).1 h2 with h | h | h
      · rw [hm] at h; cases h
      · exact absurd ((ensure_has c e.1 m).2 (Or.inr h)) h1
      · subst h; exact ensure_attr_new _ _ h1'

theorem foldl_addEdgeAuto_spec : ∀ (es : List (Name × Name)) (c : Circuit), c.nodeNames.Nodup → c.edges.Nodup →
    (es.foldl addEdgeAuto c).nodeNames.Nodup ∧ (es.foldl addEdgeAuto c).edges.Nodup ∧
    (es.foldl addEdgeAuto c).name = c.name ∧
    (∀ x, x ∈ (es.foldl addEdgeAuto c).edges ↔ x ∈ c.edges ∨ x ∈ es) ∧
    (∀ m, (es.foldl addEdgeAuto c).has m = true ↔ c.has m = true ∨ ∃ e ∈ es, m = e.1 ∨ m = e.2) ∧
    (∀ m, c.has m = true → (es.foldl addEdgeAuto c).attr? m = c.attr? m) ∧
    (∀ m, c.has m = false → (es.foldl addEdgeAuto c).has m = true → (es.foldl addEdgeAuto c).attr? m = some {})
  | [], c, hn, he => ⟨hn, he, rfl, fun x => by simp, fun m => by simp, fun _ _ => rfl,
      fun m h1 h2 => by rw [List.foldl_nil] at h2; rw [h1] at h2; cases h2⟩
  | e :: es, c, hn, he => by
    obtain ⟨s1, s2, s3, s4, s5, s6, s7⟩ := addEdgeAuto_step c e hn he
    obtain ⟨i1, i2, i3, i4, i5, i6, i7⟩ := foldl_addEdgeAuto_spec es (addEdgeAuto c e) s1 s2
    rw [List.foldl_cons]
    refine ⟨i1, i2, by rw [i3, s3], ?_, ?_, ?_, ?_⟩
    · intro x
      rw [i4, s4, List.mem_cons, or_assoc]
    · intro m
      rw [i5, s5]
      constructor
      · rintro ((h | h) | ⟨e', he', h⟩)
        · exact Or.inl h
        · exact Or.inr ⟨e, by simp, h⟩
        · exact Or.inr ⟨e', by simp [he'], h⟩
      · rintro (h | ⟨e', he', h⟩)
        · exact Or.inl (Or.inl h)
        · rcases List.mem_cons.1 he' with rfl | he'
          · exact Or.inl (Or.inr h)
          · exact Or.inr ⟨e', he', h⟩
    · intro m hm
      rw [i6 m ((s5 m).2 (Or.inl hm)), s6 m hm]
    · intro m hm hm'
      by_cases h1 : (addEdgeAuto c e).has m = true
      · rw [i6 m h1]; exact s7 m hm h1
      · exact i7 m (by simpa using h1) hm'

/-- nodes without a type (created as edge endpoints) become undriven buffers -/
def fillBuf (c : Circuit) : Circuit :=
  { c with nodes := c.nodes.map (fun p =>
      if p.2.ty.isNone then (p.1, { p.2 with ty := some "buf", out := some false }) else p) }

def fillAttr (a : Attr) : Attr := if a.ty.isNone then { a with ty := some "buf", out := some false } else a

theorem fillBuf_nodes (c : Circuit) : (fillBuf c).nodes = c.nodes.map (fun p => (p.1, fillAttr p.2)) := by
  unfold fillBuf fillAttr
  simp only []
  apply List.map_congr_left
  intro p _
  split <;> rfl

theorem fillBuf_nodeNames (c : Circuit) : (fillBuf c).nodeNames = c.nodeNames := by
  unfold Circuit.nodeNames
  rw [fillBuf_nodes, List.map_map]
  rfl

theorem lookup_map_snd' {β γ : Type} (f : β → γ) : ∀ (l : List (Name × β)) (k : Name),
    (l.map (fun p => (p.1, f p.2))).lookup k = (l.lookup k).map f
  | [], _ => rfl
  | p :: l, k => by
    rw [List.map_cons, List.lookup_cons, List.lookup_cons]
    cases k == p.1
    · exact lookup_map_snd' f l k
    · rfl

theorem fillBuf_attr (c : Circuit) (n : Name) : (fillBuf c).attr? n = (c.attr? n).map fillAttr := by
  unfold Circuit.attr?
  rw [fillBuf_nodes, lookup_map_snd']

theorem fillBuf_has (c : Circuit) (n : Name) : (fillBuf c).has n = c.has n := by
  rw [has_eq_isSome, has_eq_isSome, fillBuf_attr]
  cases c.attr? n <;> rfl

theorem fillAttr_of_ty {a : Attr} {t : String} (h : a.ty = some t) : fillAttr a = a := by
  unfold fillAttr; rw [h]; rfl

/-! ### `assemble` split after the bookkeeping -/

def finish (name : String) (ins outs : List Name) (a2 : Acc) : E Circuit :=
  let g0 := addNodes { name := name } ins "input" none
  let g1 := (g0.addNodeAttr "tie0" { ty := some "0" }).addNodeAttr "tie1" { ty := some "1" }
  let g2 := a2.nets.foldl (fun c kv => addNodes c kv.2 kv.1 (some false)) g1
  let g3e := a2.edges.foldl addEdgeAuto g2
  let g3 : Circuit := { g3e with nodes := g3e.nodes.map (fun p =>
    if p.2.ty.isNone then (p.1, { p.2 with ty := some "buf", out := some false }) else p) }
  outs.foldlM (fun (c : Circuit) o => if c.has o then pure (c.setOutRaw o true) else .error .keyError) g3 >>= fun g4 =>
  let g5 := if (g4.fanout "tie0").isEmpty then g4.removeNode "tie0" else g4
  let g6 := if (g5.fanout "tie1").isEmpty then g5.removeNode "tie1" else g5
  pure { g6 with bbs := a2.bbs }

theorem assemble_eq (p : FParsed) (bbs : List BBox) (ord ordIn : Ord) :
    FastVerilog.assemble p bbs ord ordIn =
      (p.insts.foldlM (doInst bbs ord "tie0" "tie1") ({} : Acc) >>= fun a =>
        finish p.name (ordIn p.inputs) p.outputs (p.assigns.foldl assignStep a)) := rfl

theorem setOutStep_eq :
    (fun (c : Circuit) (o : Name) => if c.has o then (pure (c.setOutRaw o true) : E Circuit) else .error .keyError) =
      fun c o => liftO (c.setOutput [o] true) := by
  funext c o
  by_cases h : c.has o = true
  · rw [if_pos h, setOutput, if_pos h, setOutput]; rfl
  · rw [if_neg h, setOutput, if_neg h]; rfl

theorem finish_eq (name : String) (ins outs : List Name) (a2 : Acc) :
    finish name ins outs a2 =
      (outs.foldlM (fun c o => liftO (c.setOutput [o] true))
          (fillBuf (a2.edges.foldl addEdgeAuto (addAll (nodeList ins a2.nets) { name := name }))) >>= fun g4 =>
        pure { VR.dropTie (VR.dropTie g4 "tie0") "tie1" with bbs := a2.bbs }) := by
  unfold finish
  simp only []
  rw [nodes_eq, setOutStep_eq]
  rfl

theorem wf_bbs {c : Circuit} (h : WF c) (b : List (Name × BBox)) : WF { c with bbs := b } :=
  ⟨h.nodup, h.edgesNodup, h.closed⟩

end FV
end CG
