/- helper lemmas for C20 (sensitization_transform passes lint): the self-miter with default startpoints / endpoints is a
   tied miter, and the three edits keep it lint-clean -/
import CG.Proofs.LintProdCMiterB
set_option linter.unusedSimpArgs false
set_option linter.unusedVariables false
namespace CG
namespace LintProd
open Circuit Miter

/-! ### the self-miter has no `bb_input` node -/

theorem self_miter_nobbi {c m0 : Circuit} {ord : Ord} (hord : OrdOK ord) (hc : LintClean c) (hb : c.bbs = [])
    (hin : c.inputs ≠ []) (hout : c.outputs ≠ []) (h : Tx.miter c none none none ord = .ok m0) :
    ∀ q ∈ c.nodes, q.2.ty ≠ some "bb_input" := by
  have hne : c.nodes ≠ [] := by
    intro e
    apply hin
    unfold inputs filterType
    rw [e]; rfl
  rw [C04.miter_self, C04.miter_defaults c c ord hord hne] at h
  have hspA : ∀ s, s ∈ ord (Tx.inter c.startpointsAll c.startpointsAll) ↔ s ∈ c.startpointsAll := by
    intro s
    rw [Sens.ord_mem hord, Sens.mem_inter, and_self]
  have hepA : ∀ e, e ∈ ord (Tx.inter c.endpointsAll c.endpointsAll) ↔ e ∈ c.endpointsAll := by
    intro e
    rw [Sens.ord_mem hord, Sens.mem_inter, and_self]
  have hinSA : ∀ s, s ∈ c.inputs → s ∈ c.startpointsAll := by
    intro s hs
    unfold startpointsAll
    unfold inputs at hs
    rw [Sens.mem_filterType] at hs ⊢
    obtain ⟨a, ha, t, ht, hm⟩ := hs
    exact ⟨a, ha, t, ht, by simp only [List.mem_singleton] at hm; subst hm; simp⟩
  have hsp : ord (Tx.inter c.startpointsAll c.startpointsAll) ≠ [] := by
    cases hi : c.inputs with
    | nil => exact absurd hi hin
    | cons i l =>
      intro e
      have := (hspA i).2 (hinSA i (by rw [hi]; simp))
      rw [e] at this
      cases this
  have hep : ord (Tx.inter c.endpointsAll c.endpointsAll) ≠ [] := by
    cases ho : c.outputs with
    | nil => exact absurd ho hout
    | cons o l =>
      intro e
      have : o ∈ c.endpointsAll := by
        unfold endpointsAll
        rw [mem_union]
        left; rw [ho]; simp
      have := (hepA o).2 this
      rw [e] at this
      cases this
  have T := miter_ep_types hc hc hb hb hne h
  intro q hq hty
  have hmem : q.1 ∈ c.endpointsAll := by
    unfold endpointsAll
    rw [mem_union]
    right
    rw [Sens.mem_filterType]
    exact ⟨q.2, hq, "bb_input", hty, by simp⟩
  exact ((T q.1 ((hepA q.1).2 hmem)).1 q.2 hq).1 hty

/-! ### the three edits -/

theorem wf_cut {m0 : Circuit} (w : WF m0) (nm : String) (n : Name) : WF (Sens.cut m0 nm n) := by
  refine ⟨w.nodup, ?_, ?_⟩
  · unfold Sens.cut disconnect
    exact List.Pairwise.filter _ w.edgesNodup
  · intro e he
    unfold Sens.cut disconnect at he
    exact w.closed e (List.mem_filter.1 he).1

/-- the result of `sensitization_transform`, as far as lint is concerned -/
structure ZView (m0 m : Circuit) (n : Name) : Prop where
  wf : WF m
  has : ∀ x, m.has x = m0.has x
  ty : ∀ x, m.ty? x = if x = pref "c1" n then some "not" else m0.ty? x
  nodes : m.nodes = m0.nodes.map (fun p => if p.1 == pref "c1" n then (p.1, { p.2 with ty := some "not" }) else p)
  fanin1 : m.fanin (pref "c1" n) = [pref "c0" n]
  fanin : ∀ x, x ≠ pref "c1" n → m.fanin x = m0.fanin x
  bbs : m.bbs = []

theorem zview_of_steps {c m0 m2 m : Circuit} {n : Name} {sp ep : List Name} {nm : String}
    (V : MView c c sp ep m0) (hh : m0.has ("c1_" ++ n) = true)
    (h2 : (Sens.cut m0 nm n).setType ["c1_" ++ n] "not" = (m2, .ok))
    (h3 : m2.connect ["c0_" ++ n] ["c1_" ++ n] = (m, .ok)) : ZView m0 m n := by
  have S := Sens.sview_of_steps V hh h2 h3
  obtain ⟨hhas2, e2⟩ := AU.setType_ok h2
  subst e2
  have a1 := (connect_ok h3).1
  refine ⟨AU.wf_connect h3 (AU.wf_setTyRaw _ _ (wf_cut V.wf nm n)), ?_, ?_, S.nodes, S.fanin1, S.fanin, S.bbs⟩
  · intro x
    rw [has_congr a1, setTyRaw_has]
    rfl
  · intro x
    rw [ty?_congr a1, setTyRaw_ty?, pref_c1]
    by_cases hx : x = "c1_" ++ n
    · rw [if_pos ⟨hx, hhas2⟩, if_pos hx]
    · rw [if_neg (fun hc => hx hc.1), if_neg hx]
      rfl

theorem not_not_source : "not" ∉ sourceTypes := by decide
theorem not_not_multi : "not" ∉ multiTypes := by decide

/-- the edited miter is lint-clean when the miter is and has no blackbox pins -/
theorem zview_lintClean {m0 m : Circuit} {n : Name} (Z : ZView m0 m n) (h0 : LintClean m0)
    (nobbo : ∀ x, m0.ty? x ≠ some "bb_output") (nobbi : ∀ x, m0.ty? x ≠ some "bb_input") : LintClean m := by
  have tyne : ∀ x t, m.ty? x = some t → t ≠ "not" → x ≠ pref "c1" n ∧ m0.ty? x = some t := by
    intro x t hty hne
    rw [Z.ty] at hty
    by_cases hx : x = pref "c1" n
    · rw [if_pos hx] at hty
      injection hty with hty
      exact absurd hty.symm hne
    · rw [if_neg hx] at hty
      exact ⟨hx, hty⟩
  apply lintClean_of_nobb Z.wf
  · intro p hp
    rw [Z.nodes] at hp
    obtain ⟨q, hq, rfl⟩ := List.mem_map.1 hp
    by_cases hx : (q.1 == pref "c1" n) = true
    · rw [if_pos hx]
      exact ⟨"not", rfl, by decide⟩
    · rw [if_neg hx]
      exact h0.typed q hq
  · intro x t hty hs
    obtain ⟨hx, h0ty⟩ := tyne x t hty (fun e => not_not_source (e ▸ hs))
    rw [Z.fanin x hx]
    exact h0.noFanin x t h0ty hs
  · intro x t hty hs
    by_cases hx : x = pref "c1" n
    · rw [hx, Z.fanin1]
      rfl
    · rw [Z.ty, if_neg hx] at hty
      rw [Z.fanin x hx]
      exact h0.single x t hty hs
  · intro x t hty hs
    obtain ⟨hx, h0ty⟩ := tyne x t hty (fun e => not_not_multi (e ▸ hs))
    rw [Z.fanin x hx]
    exact h0.multi x t h0ty hs
  · intro x hty
    exact nobbo x (tyne x _ hty (by decide)).2
  · intro x hty
    exact nobbi x (tyne x _ hty (by decide)).2

/-- a miter of pin-free circuits is pin-free -/
theorem mv_nobb {c0 c1 m : Circuit} {sp ep : List Name} (V : MView c0 c1 sp ep m) {t : String}
    (hb : t = "bb_output" ∨ t = "bb_input")
    (n0 : ∀ q ∈ c0.nodes, q.2.ty ≠ some t) (n1 : ∀ q ∈ c1.nodes, q.2.ty ≠ some t) : ∀ x, m.ty? x ≠ some t := by
  intro x hty
  rcases mv_ty_cases V hty with ⟨q, hq, rfl, ht⟩ | ⟨q, hq, rfl, ht⟩ | ⟨hsp, rfl⟩ | ⟨rfl, e⟩ | ⟨e, he, rfl, rfl⟩
  · exact n0 q hq (stripA_bb ht hb)
  · exact n1 q hq (stripA_bb ht hb)
  · rcases hb with hb | hb <;> exact absurd hb (by decide)
  · rcases satTy_cases ep with h | h | h <;> rw [h] at e <;> subst e <;> rcases hb with hb | hb <;>
      exact absurd hb (by decide)
  · rcases hb with hb | hb <;> exact absurd hb (by decide)

/-- the result of `sensitization_transform` (default endpoints) is lint-clean and dot-free -/
theorem sensitization_clean {c m : Circuit} {n : Name} {ord : Ord} {ordE : List (Name × Name) → List (Name × Name)}
    (hord : OrdOK ord) (hc : LintClean c) (hb : c.bbs = []) (hr : LintLink.DotsRegistered c)
    (hout : c.outputs ≠ []) (hin : c.inputs ≠ [])
    (h : Tx.sensitizationTransform c n [] ord ordE = .ok m) : LintClean m ∧ LintLink.NoDots m := by
  obtain ⟨m0, m2, h0, hh, h2, h3⟩ := Sens.sensitization_steps hb h
  obtain ⟨sp, ep, V, hspN, hepN, hspne, hepne, hsp, hep, hnbo⟩ := Sens.self_miter hord hc hb hin hout h0
  have hnbi := self_miter_nobbi hord hc hb hin hout h0
  have Z := zview_of_steps V hh h2 h3
  have hin0 : ∀ s ∈ sp, s ∈ c.inputs := fun s hs => (hsp s).1 hs
  have hall : ∀ i ∈ c.inputs, i ∈ sp := fun s hs => (hsp s).2 hs
  have hep0 : ∀ e ∈ ep, c.has e = true := fun e he => mem_outputs_has ((hep e).1 he)
  have hept : ∀ e ∈ ep, ∀ a, (e, a) ∈ c.nodes → a.ty ≠ some "bb_input" ∧ a.ty ≠ some "bb_output" :=
    fun e _ a ha => ⟨hnbi (e, a) ha, hnbo (e, a) ha⟩
  have H : TiedHyp c c sp ep := ⟨hc, hc, hspN, hepN, hin0, hin0, hall, hall, hep0, hep0, hept, hept⟩
  have L0 := mv_lintClean V H
  have d := noDots_of_registered hb hr
  have D0 := mv_noDots V d d hin0 hep0
  refine ⟨zview_lintClean Z L0 (mv_nobb V (Or.inl rfl) hnbo hnbo) (mv_nobb V (Or.inr rfl) hnbi hnbi), ?_⟩
  exact D0.of_sub (Z.bbs.trans D0.bbs.symm) (fun g hg => by rw [Z.has] at hg; exact hg)

end LintProd
end CG
