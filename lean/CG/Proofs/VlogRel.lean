/- C02 helper: `relabelOne old new` when `new` may already exist (merge semantics of `nx.relabel_nodes(copy=False)`):
   `new` keeps its position and receives `old`'s attributes, every edge is renamed. -/
import CG.Proofs.ComposeRel
import CG.Proofs.ArithPop1
namespace CG
namespace VT
open Circuit

theorem relabelOne_merge {c : Circuit} (hnd : c.nodeNames.Nodup) (hed : c.edges.Nodup) {old new : Name} {a : Attr}
    (ha : c.attr? old = some a) (hty : a.ty.isSome = true) (hout : a.out.isSome = true) (hne : new ≠ old) :
    (c.relabelOne old new).nodeNames.Nodup ∧ (c.relabelOne old new).edges.Nodup ∧
    (c.relabelOne old new).name = c.name ∧
    (∀ m, (c.relabelOne old new).attr? m = if m = old then none else if m = new then some a else c.attr? m) ∧
    (∀ e, e ∈ (c.relabelOne old new).edges ↔
      ∃ e0 ∈ c.edges, e = (if e0.1 = old then new else e0.1, if e0.2 = old then new else e0.2)) := by
  have hne' : (new == old) = false := by simpa using hne
  unfold relabelOne
  rw [ha]
  simp only [hne', Bool.false_eq_true, if_false]
  generalize hout' : ((c.edges.filter (·.1 == old)).map (fun e => (new, if e.2 == old then new else e.2))) = outE
  generalize hin : ((c.edges.filter (·.2 == old)).map (fun e => (if e.1 == old then new else e.1, new))) = inE
  have hnodes := foldl_addEdge_nodes (outE ++ inE) ((c.addNodeAttr new a).removeNode old)
  obtain ⟨t, ht⟩ := Option.isSome_iff_exists.mp hty
  obtain ⟨o, ho⟩ := Option.isSome_iff_exists.mp hout
  have hattr : ∀ m, (List.foldl (fun c e => c.addEdge e.1 e.2) ((c.addNodeAttr new a).removeNode old)
      (outE ++ inE)).attr? m = if m = old then none else if m = new then some a else c.attr? m := by
    intro m
    rw [attr?_congr hnodes, removeNode_attr?, addNodeAttr_attr?]
    by_cases h1 : m = old
    · rw [if_pos h1, if_pos h1]
    · rw [if_neg h1, if_neg h1]
      by_cases h2 : m = new
      · rw [if_pos h2, if_pos h2]
        cases c.attr? new with
        | none => rfl
        | some b =>
          cases a with
          | mk aty aout =>
            simp only at ht ho
            subst ht ho
            rfl
      · rw [if_neg h2, if_neg h2]
  have hname : (List.foldl (fun c e => c.addEdge e.1 e.2) ((c.addNodeAttr new a).removeNode old)
      (outE ++ inE)).name = c.name := by
    rw [foldl_addEdge_name]
    exact addNodeAttr_name c new a
  refine ⟨?_, ?_, hname, hattr, ?_⟩
  · rw [nodeNames_congr hnodes]
    exact removeNode_nodup old (addNodeAttr_nodup new a hnd)
  · apply foldl_addEdge_nodup
    apply removeNode_edges_nodup
    rw [addNodeAttr_edges]; exact hed
  · intro e
    rw [foldl_addEdge_mem, removeNode_mem, addNodeAttr_edges, List.mem_append, ← hout', ← hin]
    simp only [List.mem_map, List.mem_filter]
    constructor
    · rintro (⟨h1, h2, h3⟩ | ⟨e0, ⟨h0, hk⟩, rfl⟩ | ⟨e0, ⟨h0, hk⟩, rfl⟩)
      · exact ⟨e, h1, by rw [if_neg h2, if_neg h3]⟩
      · refine ⟨e0, h0, ?_⟩
        have : e0.1 = old := by simpa using hk
        rw [if_pos this]
        by_cases h2 : e0.2 = old
        · simp [h2]
        · simp [h2]
      · refine ⟨e0, h0, ?_⟩
        have : e0.2 = old := by simpa using hk
        rw [if_pos this]
        by_cases h2 : e0.1 = old
        · simp [h2]
        · simp [h2]
    · rintro ⟨e0, h0, rfl⟩
      by_cases e1 : e0.1 = old
      · right; left
        refine ⟨e0, ⟨h0, by simpa using e1⟩, ?_⟩
        rw [if_pos e1]
        by_cases h2 : e0.2 = old
        · simp [h2]
        · simp [h2]
      · by_cases e2 : e0.2 = old
        · right; right
          refine ⟨e0, ⟨h0, by simpa using e2⟩, ?_⟩
          rw [if_pos e2]
          simp [e1]
        · left
          rw [if_neg e1, if_neg e2]
          exact ⟨h0, e1, e2⟩

end VT
end CG
