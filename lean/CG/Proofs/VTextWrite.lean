/- C03 helper (text level): what the writer emits has the shape `VX.WOK` -/
import CG.Proofs.VTextDefs
import CG.Proofs.VRoundWrite
namespace CG
namespace VX
open Verilog Circuit

/-- copy of `C03.NamesOK` -/
structure NOK (c : Circuit) : Prop where
  name : Ident c.name
  nodes : ∀ p ∈ c.nodes, (p.2.ty ≠ some "bb_input" ∧ p.2.ty ≠ some "bb_output") → Ident p.1
  insts : ∀ q ∈ c.bbs, Ident q.1 ∧ Ident q.2.name ∧ ∀ g ∈ q.2.ins ++ q.2.outs, Ident g

/-! ### names the writer makes up -/

theorem isDigit_of_char {ch : Char} (h : ch.isDigit = true) : isDigit ch = true := by
  simp only [Char.isDigit, Bool.and_eq_true, decide_eq_true_eq] at h
  simp only [isDigit, Bool.and_eq_true, decide_eq_true_eq, Char.le_def]
  exact h

theorem kw_head {s : String} (h : s ∈ keywords) : s.toList.head? ≠ some 'g' := by
  simp only [keywords, List.mem_cons, List.not_mem_nil, or_false] at h
  rcases h with rfl | rfl | rfl | rfl | rfl | rfl <;> decide

theorem ident_gate {t : String} (h : t ∈ gateTypes) : Ident t := by
  simp only [gateTypes, List.mem_cons, List.not_mem_nil, or_false] at h
  rcases h with rfl | rfl | rfl | rfl | rfl | rfl | rfl | rfl
  · exact ⟨⟨'x', "or".toList, by decide, by decide, by decide⟩, by decide⟩
  · exact ⟨⟨'x', "nor".toList, by decide, by decide, by decide⟩, by decide⟩
  · exact ⟨⟨'b', "uf".toList, by decide, by decide, by decide⟩, by decide⟩
  · exact ⟨⟨'n', "ot".toList, by decide, by decide, by decide⟩, by decide⟩
  · exact ⟨⟨'n', "or".toList, by decide, by decide, by decide⟩, by decide⟩
  · exact ⟨⟨'o', "r".toList, by decide, by decide, by decide⟩, by decide⟩
  · exact ⟨⟨'a', "nd".toList, by decide, by decide, by decide⟩, by decide⟩
  · exact ⟨⟨'n', "and".toList, by decide, by decide, by decide⟩, by decide⟩

/-- `g_<k>` and `g_<k>_<j>` -/
theorem ident_g (rest : String) (hr : ∀ x ∈ rest.toList, isDigit x = true ∨ x = '_') : Ident ("g_" ++ rest) := by
  have e : ("g_" ++ rest).toList = 'g' :: ('_' :: rest.toList) := by
    rw [String.toList_append]; rfl
  refine ⟨⟨'g', '_' :: rest.toList, e, Or.inl (by decide), ?_⟩, ?_⟩
  · intro x hx
    rcases List.mem_cons.1 hx with rfl | hx
    · exact Or.inr (Or.inr rfl)
    · rcases hr x hx with h | h
      · exact Or.inr (Or.inl h)
      · exact Or.inr (Or.inr h)
  · intro hk
    apply kw_head hk
    rw [e]; rfl

theorem ident_uid {c2 : Circuit} {k : Nat} {g : Name} (h : c2.uid ("g_" ++ toString k) = some g) : Ident g := by
  rcases (Limit.uid_spec c2 _ g h).2 with rfl | ⟨j, rfl⟩
  · exact ident_g _ (fun x hx => Or.inl (isDigit_of_char (Arith.toString_digits k x hx)))
  · unfold uidName
    rw [String.append_assoc, String.append_assoc]
    apply ident_g
    intro x hx
    simp only [String.toList_append, List.mem_append] at hx
    rcases hx with hx | hx | hx
    · exact Or.inl (isDigit_of_char (Arith.toString_digits k x hx))
    · have : x = '_' := by simpa using hx
      exact Or.inr this
    · exact Or.inl (isDigit_of_char (Arith.toString_digits j x hx))

/-! ### names of the circuit -/

theorem ident_node {c : Circuit} (hn : NOK c) {x : Name} {t : String} (h : c.ty? x = some t)
    (h1 : t ≠ "bb_input") (h2 : t ≠ "bb_output") : Ident x := by
  obtain ⟨a, ha, hat⟩ := VR.mem_of_ty? h
  apply hn.nodes (x, a) ha
  constructor
  · intro e; rw [hat] at e; exact h1 (Option.some.inj e)
  · intro e; rw [hat] at e; exact h2 (Option.some.inj e)

theorem ty_of_has {c : Circuit} (hc : VR.Wr c) {x : Name} (h : c.has x = true) : ∃ t, c.ty? x = some t := by
  obtain ⟨t, ht, _⟩ := VR.ty?_of_mem_nodeNames hc ((has_iff_mem c x).1 h)
  exact ⟨t, ht⟩

/-- the source of an edge that is not a blackbox output pin -/
theorem ident_src {c : Circuit} (hc : VR.Wr c) (hn : NOK c) {u n : Name} (he : (u, n) ∈ c.edges)
    (hu : c.ty? u ≠ some "bb_output") : Ident u := by
  obtain ⟨t, ht⟩ := ty_of_has hc (hc.clean.closed _ he).1
  apply ident_node hn ht
  · rintro rfl
    exact hc.clean.noBBInFanout _ he ht
  · rintro rfl
    exact hu ht

theorem ident_input {c : Circuit} (hn : NOK c) {i : Name} (h : i ∈ c.inputs) : Ident i := by
  simp only [inputs, filterType, List.mem_map, List.mem_filter] at h
  obtain ⟨p, ⟨hp, hty⟩, rfl⟩ := h
  apply hn.nodes p hp
  cases ht : p.2.ty with
  | none => rw [ht] at hty; simp at hty
  | some t =>
    rw [ht] at hty
    have : t = "input" := by simpa using hty
    subst this
    exact ⟨by decide, by decide⟩

theorem ident_output {c : Circuit} (hc : VR.Wr c) (hn : NOK c) {o : Name} (h : o ∈ c.outputs) : Ident o := by
  simp only [outputs, List.mem_map, List.mem_filter] at h
  obtain ⟨p, ⟨hp, ho⟩, rfl⟩ := h
  apply hn.nodes p hp
  constructor
  · intro e
    have := hc.noPinOutputs p hp (Or.inl e)
    rw [this] at ho
    simp at ho
  · intro e
    have := hc.noPinOutputs p hp (Or.inr e)
    rw [this] at ho
    simp at ho

/-! ### `All2` -/

theorem All2.snoc {α β : Type} {R : α → β → Prop} {l : List α} {m : List β} {a : α} {b : β}
    (h : All2 R l m) (hab : R a b) : All2 R (l ++ [a]) (m ++ [b]) := by
  induction h with
  | nil => exact All2.cons hab All2.nil
  | cons h1 _ ih => exact All2.cons h1 ih

/-! ### blackbox statements -/

theorem connOK_of_spec {c : Circuit} (hc : VR.Wr c) (hn : NOK c) {q : Name × BBox} (hq : q ∈ c.bbs)
    {p : Name × Option Expr} (h : VR.ConnSpec c q p) : ConnOK p := by
  obtain ⟨hpi, hpo, _⟩ := hc.pinsPresent q hq
  obtain ⟨_, _, hpins⟩ := hn.insts q hq
  rcases h with ⟨hin, d, hd, he⟩ | ⟨hout, h⟩
  · refine ⟨hpins _ (List.mem_append_left _ hin), Or.inr ⟨d, hd, ?_⟩⟩
    apply ident_src hc hn he
    intro hbo
    have := (hc.clean.bbOut _ he hbo).1
    rw [hpi _ hin] at this
    exact absurd this (by decide)
  · refine ⟨hpins _ (List.mem_append_right _ hout), ?_⟩
    rcases h with ⟨d, hd, he⟩ | ⟨hnone, _⟩
    · refine Or.inr ⟨d, hd, ?_⟩
      have hb := (hc.clean.bbOut _ he (hpo _ hout)).1
      exact ident_node hn hb (by decide) (by decide)
    · exact Or.inl hnone

theorem stmtOK_of_bbSpec {c : Circuit} (hc : VR.Wr c) (hn : NOK c) (hpin : ∀ q ∈ c.bbs, q.2.ins ++ q.2.outs ≠ [])
    {q : Name × BBox} (hq : q ∈ c.bbs) {it : Item} (h : VR.BBSpec c q it) : StmtOK it false := by
  obtain ⟨ps, rfl, hperm, hall⟩ := h
  obtain ⟨hi, hm, _⟩ := hn.insts q hq
  refine Or.inl ⟨rfl, q.2.name, q.1, ps, rfl, hm, hi, ?_, fun p hp => connOK_of_spec hc hn hq (hall p hp)⟩
  rintro rfl
  apply hpin q hq
  exact List.Perm.eq_nil (by simpa using hperm.symm)

theorem all2_bb {c : Circuit} (hc : VR.Wr c) (hn : NOK c) (hpin : ∀ q ∈ c.bbs, q.2.ins ++ q.2.outs ≠ []) :
    ∀ (l : List (Name × BBox)) (bi : List Item), (∀ q ∈ l, q ∈ c.bbs) → VR.All2 (VR.BBSpec c) l bi →
    All2 StmtOK bi (bi.map (fun _ => false))
  | _, _, _, VR.All2.nil => All2.nil
  | _, _, hl, VR.All2.cons h1 h2 =>
    All2.cons (stmtOK_of_bbSpec hc hn hpin (hl _ (by simp)) h1)
      (all2_bb hc hn hpin _ _ (fun q hq => hl q (by simp [hq])) h2)

/-! ### gate / constant statements -/

/-- what one step of the gate fold does to the statements and paren flags -/
def StepOK (st st' : List Item × List Name × List Bool) : Prop :=
  (st'.1 = st.1 ∧ st'.2.2 = st.2.2) ∨ ∃ it p, st'.1 = st.1 ++ [it] ∧ st'.2.2 = st.2.2 ++ [p] ∧ StmtOK it p

theorem cons_of_not_isEmpty {l : List Name} (h : ¬ l.isEmpty = true) : ∃ d ds, l = d :: ds := by
  cases l with
  | nil => exact absurd rfl h
  | cons d ds => exact ⟨d, ds, rfl⟩

theorem gateStep_beh {st st' : List Item × List Name × List Bool} {n t : Name} {d : Name} {ds : List Name}
    (hn : Ident n) (hF : ∀ y ∈ d :: ds, Ident y) (ht : t ∈ gateTypes)
    (h : (if (t == "buf") = true then
            (pure (st.1 ++ [Item.assign [(n, Expr.id ((d :: ds).headD ""))]], st.2.1 ++ [n], st.2.2 ++ [false]) :
              E (List Item × List Name × List Bool))
          else if (t == "not") = true then
            pure (st.1 ++ [Item.assign [(n, Expr.not (Expr.id ((d :: ds).headD "")))]], st.2.1 ++ [n], st.2.2 ++ [false])
          else if (t == "xnor" || t == "nor" || t == "nand") = true then
            pure (st.1 ++ [Item.assign [(n, Expr.not (if (t == "xor" || t == "xnor") = true then chain Expr.xor (d :: ds)
                else if (t == "and" || t == "nand") = true then chain Expr.and (d :: ds) else chain Expr.or (d :: ds)))]],
              st.2.1 ++ [n], st.2.2 ++ [true])
          else
            pure (st.1 ++ [Item.assign [(n, (if (t == "xor" || t == "xnor") = true then chain Expr.xor (d :: ds)
                else if (t == "and" || t == "nand") = true then chain Expr.and (d :: ds) else chain Expr.or (d :: ds)))]],
              st.2.1 ++ [n], st.2.2 ++ [false])) = .ok st') : StepOK st st' := by
  have hd : Ident d := hF d (by simp)
  simp only [gateTypes, List.mem_cons, List.not_mem_nil, or_false] at ht
  rcases ht with rfl | rfl | rfl | rfl | rfl | rfl | rfl | rfl
  all_goals
    simp (decide := true) only [if_true, if_false, List.headD_cons] at h
    injection h with h
    subst h
    refine Or.inr ⟨_, _, rfl, rfl, Or.inr (Or.inr ⟨n, _, rfl, hn, ?_⟩)⟩
  · exact Or.inr (Or.inr (Or.inl ⟨rfl, _, _, d, ds, IsOp.xor, rfl, hF⟩))
  · exact Or.inr (Or.inr (Or.inr ⟨rfl, _, _, d, ds, IsOp.xor, rfl, hF⟩))
  · exact Or.inr (Or.inr (Or.inl ⟨rfl, _, _, d, [], IsOp.and, rfl, fun y hy => by
      rw [List.mem_singleton] at hy; rw [hy]; exact hd⟩))
  · exact Or.inr (Or.inl ⟨rfl, d, rfl, hd⟩)
  · exact Or.inr (Or.inr (Or.inr ⟨rfl, _, _, d, ds, IsOp.or, rfl, hF⟩))
  · exact Or.inr (Or.inr (Or.inl ⟨rfl, _, _, d, ds, IsOp.or, rfl, hF⟩))
  · exact Or.inr (Or.inr (Or.inl ⟨rfl, _, _, d, ds, IsOp.and, rfl, hF⟩))
  · exact Or.inr (Or.inr (Or.inr ⟨rfl, _, _, d, ds, IsOp.and, rfl, hF⟩))

theorem gateStep_stmt {c c2 : Circuit} {ord : Ord} (hord : OrdOK ord) (beh : Bool) (hc : VR.Wr c) (hn : NOK c)
    (h2 : VR.CInv c (fun x => c.ty? x = some "bb_output") c2) (st st' : List Item × List Name × List Bool) (n : Name)
    (h : VR.gateStep ord beh c2 st n = .ok st') : StepOK st st' := by
  unfold VR.gateStep at h
  cases hty : c2.ty? n with
  | none => rw [hty] at h; simp at h
  | some t =>
    rw [hty] at h
    simp only at h
    have htyc : c.ty? n = some t := by rw [← ty?_congr h2.nodes]; exact hty
    by_cases hg : gateTypes.contains t = true
    · rw [if_pos hg] at h
      have hgm : t ∈ gateTypes := by simpa using hg
      have hnI : Ident n := by
        apply ident_node hn htyc
        · rintro rfl; exact absurd hg (by decide)
        · rintro rfl; exact absurd hg (by decide)
      by_cases he : (ord (c2.fanin n)).isEmpty = true
      · rw [if_pos he] at h
        injection h with h
        subst h
        exact Or.inl ⟨rfl, rfl⟩
      · rw [if_neg he] at h
        have hF : ∀ y ∈ ord (c2.fanin n), Ident y := by
          intro y hy
          have hy2 := (h2.edges _).1 (mem_fanin.1 ((hord _).mem_iff.1 hy))
          exact ident_src hc hn hy2.1 hy2.2
        obtain ⟨d, ds, hF'⟩ := cons_of_not_isEmpty he
        cases beh with
        | true =>
          simp only [if_true] at h
          rw [hF'] at h hF
          exact gateStep_beh hnI hF hgm h
        | false =>
          simp only [Bool.false_eq_true, if_false] at h
          cases hu : c2.uid ("g_" ++ toString st.1.length) with
          | none => rw [hu] at h; simp at h
          | some g =>
            rw [hu] at h
            injection h with h
            subst h
            refine Or.inr ⟨_, _, rfl, rfl, Or.inr (Or.inl ⟨rfl, t, g, n :: ord (c2.fanin n), rfl, ident_gate hgm,
              ident_uid hu, by simp, ?_⟩)⟩
            intro y hy
            rcases List.mem_cons.1 hy with rfl | hy
            · exact hnI
            · exact hF y hy
    · rw [if_neg hg] at h
      by_cases hk : (t == "0" || t == "1" || t == "x") = true
      · rw [if_pos hk] at h
        injection h with h
        subst h
        refine Or.inr ⟨_, _, rfl, rfl, Or.inr (Or.inr ⟨n, _, rfl, ?_, Or.inl ⟨rfl, t, rfl, ?_⟩⟩)⟩
        · apply ident_node hn htyc
          · rintro rfl; exact absurd hk (by decide)
          · rintro rfl; exact absurd hk (by decide)
        · simpa [or_assoc] using hk
      · rw [if_neg hk] at h
        by_cases hi : (t == "input" || t == "bb_input" || t == "bb_output") = true
        · rw [if_pos hi] at h
          injection h with h
          subst h
          exact Or.inl ⟨rfl, rfl⟩
        · rw [if_neg hi] at h
          simp at h

theorem gateFold_stmts {c c2 : Circuit} {ord : Ord} (hord : OrdOK ord) (beh : Bool) (hc : VR.Wr c) (hn : NOK c)
    (h2 : VR.CInv c (fun x => c.ty? x = some "bb_output") c2) :
    ∀ (l : List Name) (st st' : List Item × List Name × List Bool),
    l.foldlM (VR.gateStep ord beh c2) st = .ok st' → All2 StmtOK st.1 st.2.2 → All2 StmtOK st'.1 st'.2.2
  | [], st, st', h, hall => by
    rw [List.foldlM_nil] at h
    injection h with h
    subst h
    exact hall
  | n :: l, st, st', h, hall => by
    rw [List.foldlM_cons] at h
    cases h1 : VR.gateStep ord beh c2 st n with
    | error e => rw [h1] at h; exact absurd h (by intro h; cases h)
    | ok st1 =>
      rw [h1, Arith.bind_ok] at h
      apply gateFold_stmts hord beh hc hn h2 l st1 st' h
      rcases gateStep_stmt hord beh hc hn h2 st st1 n h1 with ⟨e1, e2⟩ | ⟨it, p, e1, e2, hs⟩
      · rw [e1, e2]; exact hall
      · rw [e1, e2]; exact hall.snoc hs

/-! ### the whole module -/

theorem wok_of_write (c : Circuit) (beh : Bool) (ord : Ord) (hord : OrdOK ord) (hc : VR.Wr c) (hn : NOK c)
    (hio : c.inputs ≠ [] ∨ c.outputs ≠ [])
    (hpin : ∀ q ∈ c.bbs, q.2.ins ++ q.2.outs ≠ [])
    (wm : WModule) (h : toWModule c beh ord = .ok wm) : WOK wm := by
  obtain ⟨hname, hin, hout, hw⟩ := VR.write_decls' c beh ord hord hc wm h
  obtain ⟨c2, bi, hbb, hall, h2⟩ := VR.bbFold_spec hord hc
  rw [VR.toWModule_eq, VR.c1_eq ord hord hc, VR.any_none hc] at h
  simp only [Bool.false_eq_true, if_false, pure_bind] at h
  rw [hbb, Arith.bind_ok] at h
  cases hg : (ord c2.nodeNames).foldlM (VR.gateStep ord beh c2) (bi, [], bi.map (fun _ => false)) with
  | error e => simp only [hg] at h; exact absurd h (by intro h; cases h)
  | ok st =>
    have hst := gateFold_stmts hord beh hc hn h2 _ _ _ hg (all2_bb hc hn hpin c.bbs bi (fun _ hq => hq) hall)
    simp only [hg] at h
    rw [Arith.bind_ok] at h
    injection h with h
    subst h
    refine ⟨?_, ?_, ?_, ?_, ?_, hst⟩
    · rw [hname]; exact hn.name
    · exact fun i hi => ident_input hn (hin.mem_iff.1 hi)
    · exact fun o ho => ident_output hc hn (hout.mem_iff.1 ho)
    · intro w hw'
      obtain ⟨t, ht, htm⟩ := (hw w).1 hw'
      apply ident_node hn ht
      · rintro rfl; exact absurd htm (by decide)
      · rintro rfl; exact absurd htm (by decide)
    · intro hnil
      obtain ⟨h1, h2'⟩ := List.append_eq_nil_iff.1 hnil
      rcases hio with hio | hio
      · exact hio (List.Perm.eq_nil (h1 ▸ hin.symm : c.inputs.Perm []))
      · exact hio (List.Perm.eq_nil (h2' ▸ hout.symm : c.outputs.Perm []))

end VX
end CG
