/- helper lemmas for C15 (bench reader / writer) -/
import CG.Bench
import CG.Spec
import CG.Props.C06
namespace CG

/-- a name containing a dot (blackbox pin syntax) -/
def hasDotB (n : Name) : Prop := n.toList.contains '.' = true


namespace BenchP
open Bench

theorem write_bbs (c : Circuit) (ord : Ord) (h : c.bbs ≠ []) : write c ord = .error .valueError := by
  unfold write toGateStmts
  have : (!c.bbs.isEmpty) = true := by
    cases hb : c.bbs with
    | nil => exact absurd hb h
    | cons a l => rfl
  rw [if_pos this]
  rfl

theorem write_noInputs (c : Circuit) (ord : Ord) (hb : c.bbs = []) (ht : ∀ p ∈ c.nodes, p.2.ty.isSome = true)
    (hi : c.inputs = []) (ho : OrdOK ord) : write c ord = .error .keyError := by
  unfold write toGateStmts
  have h1 : (!c.bbs.isEmpty) = false := by rw [hb]; rfl
  have h2 : (c.nodes.any fun p => p.2.ty.isNone) = false := by
    rw [List.any_eq_false]
    intro p hp
    have := ht p hp
    cases h : p.2.ty with
    | none => rw [h] at this; cases this
    | some t => simp
  have h3 : ord c.inputs = [] := by
    rw [hi]; exact List.perm_nil.mp (ho [])
  rw [h1, h2, h3]
  rfl

end BenchP
end CG
