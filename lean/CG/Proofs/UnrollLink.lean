/- C09 (unroll), phase C of an iteration: step 0 turns the state inputs into inputs, later steps wire them -/
import CG.Proofs.UnrollSub
set_option linter.unusedSimpArgs false
set_option linter.unusedVariables false
namespace CG
namespace Unroll
open Circuit

theorem setTypePhase (f : Name × Name → Name) : ∀ (l : List (Name × Name)) (P uc : Circuit),
    l.foldlM (fun uc p => liftO (uc.setType [f p] "input")) P = .ok uc →
    uc = (l.map f).foldl (fun acc n => acc.setTyRaw n "input") P
  | [], P, uc, h => by rw [foldlM_nil_ok _ _ _ h]; rfl
  | p :: l, P, uc, h => by
    obtain ⟨c1, h1, h2⟩ := foldlM_cons_ok _ _ _ _ _ h
    obtain ⟨_, e⟩ := setType1_ok (liftO_ok h1)
    subst e
    rw [setTypePhase f l _ _ h2]
    rfl

theorem connect1_facts {c c' : Circuit} {u x : Name} (hwf : WF c) (h : c.connect [u] [x] = (c', .ok))
    (hx : c.ty? x = some "buf") :
    WF c' ∧ c'.nodes = c.nodes ∧ c'.fanin x = [u] ∧ ∀ y, y ≠ x → c'.fanin y = c.fanin y := by
  obtain ⟨a1, _, _, ⟨ext, a4, a4'⟩, a5, a6, a7⟩ := connect_ok h
  obtain ⟨k1, k2, _, _⟩ := connectCheck_none (a7 (by simp) (by simp))
  refine ⟨⟨?_, a6 hwf.edgesNodup, ?_⟩, a1, connect_buf_set h (by simp) hx, ?_⟩
  · rw [nodeNames_congr a1]; exact hwf.nodup
  · intro e he
    rw [has_congr a1, has_congr a1]
    rcases (a5 e).1 he with he | ⟨h1, h2⟩
    · exact hwf.closed e he
    · exact ⟨k1 _ h1, k2 _ h2⟩
  · intro y hy
    rw [fanin_eq_faninL, fanin_eq_faninL, a4, faninL_append]
    have : faninL ext y = [] := by
      apply faninL_nil_of
      intro e he e2
      have := (a4' e he).2
      simp only [List.mem_singleton] at this
      exact hy (e2 ▸ this)
    rw [this, List.append_nil]

theorem connectPhase (f g : Name × Name → Name) : ∀ (l : List (Name × Name)) (P uc : Circuit), WF P →
    (l.map g).Nodup → (∀ p ∈ l, P.ty? (g p) = some "buf") →
    l.foldlM (fun uc p => liftO (uc.connect [f p] [g p])) P = .ok uc →
    WF uc ∧ uc.nodes = P.nodes ∧ (∀ y, (∀ p ∈ l, y ≠ g p) → uc.fanin y = P.fanin y) ∧
    (∀ p ∈ l, uc.fanin (g p) = [f p])
  | [], P, uc, hwf, _, _, h => by
    rw [foldlM_nil_ok _ _ _ h]
    exact ⟨hwf, rfl, fun _ _ => rfl, fun p hp => by cases hp⟩
  | p :: l, P, uc, hwf, hnd, hty, h => by
    obtain ⟨c1, h1, h2⟩ := foldlM_cons_ok _ _ _ _ _ h
    rw [List.map_cons, List.nodup_cons] at hnd
    obtain ⟨w1, n1, f1, o1⟩ := connect1_facts hwf (liftO_ok h1) (hty p (by simp))
    obtain ⟨w2, n2, o2, f2⟩ := connectPhase f g l c1 uc w1 hnd.2
      (fun q hq => by rw [ty?_congr n1]; exact hty q (List.mem_cons_of_mem _ hq)) h2
    refine ⟨w2, by rw [n2, n1], ?_, ?_⟩
    · intro y hy
      rw [o2 y (fun q hq => hy q (List.mem_cons_of_mem _ hq)), o1 y (hy p (by simp))]
    · intro q hq
      rcases List.mem_cons.1 hq with rfl | hq'
      · rw [o2 (g q) ?_, f1]
        intro q' hq' e
        exact hnd.1 (e ▸ List.mem_map.2 ⟨q', hq', rfl⟩)
      · exact f2 q hq'

end Unroll
end CG
