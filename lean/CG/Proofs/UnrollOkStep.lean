/- C09 (unroll succeeds): one iteration of the loop succeeds from the loop invariant -/
import CG.Proofs.UnrollOkLink
import CG.Proofs.UnrollLoop
set_option linter.unusedSimpArgs false
set_option linter.unusedVariables false
namespace CG
namespace UnrollOk
open Circuit Unroll

/-- the naming side conditions of a call with `n` steps, in the vocabulary of the helper files -/
structure NamesOK (c : Circuit) (pfx : String) (io : List Name) (n : Nat) : Prop where
  /-- the io nodes do not start with a digit (then neither do their per-step names) -/
  dig : ∀ x ∈ io, isDigit0 x = false
  /-- the per-step io names are pairwise distinct -/
  inj : ∀ x ∈ io, ∀ x' ∈ io, ∀ t, t < n → ∀ t', t' < n → N c pfx x t = N c pfx x' t' → x = x' ∧ t = t'
  /-- no per-step io name is the name of a spliced copy -/
  copy : ∀ x ∈ io, ∀ t, t < n → ∀ y, c.has y = true → ∀ j, j < n → N c pfx x t ≠ U j y

theorem U_inj2 {t t' : Nat} {x y : Name} (h : U t x = U t' y) : t = t' ∧ x = y :=
  Arith.pref_idx_inj "unrolled_" h

section
variable {c : Circuit} {stateIO : List (Name × Name)} {pfx : String} {io : List Name}

/-- the names of phase A are fresh in the circuit built so far -/
theorem fresh_N {n k : Nat} (H : NamesOK c pfx io n) (hk : k < n) {s : Tx.UState} (I : Inv c stateIO pfx io k s)
    {x : Name} (hx : x ∈ io) : s.1.has (N c pfx x k) = false := by
  cases hh : s.1.has (N c pfx x k) with
  | false => rfl
  | true =>
    exfalso
    obtain ⟨a, ha⟩ := has_exists hh
    obtain ⟨t, ht, h | h⟩ := (I.mem_nodes _ a).1 ha
    · obtain ⟨x', hx', e, _⟩ := h
      have := (H.inj x hx x' hx' k hk t (by omega) e).2
      omega
    · obtain ⟨p, hp, e, _⟩ := h
      exact H.copy x hx k hk p.1 (has_of_mem_nodes hp) t (by omega) e

/-- the names of the copy of step `k` are fresh in the circuit left by phase A -/
theorem fresh_U {n k : Nat} (H : NamesOK c pfx io n) (hk : k < n) {s : Tx.UState} (I : Inv c stateIO pfx io k s)
    {P : Circuit} (hPn : P.nodes = s.1.nodes ++ io.map (fun x => (N c pfx x k, ioAttr0 c stateIO x)))
    {y : Name} (hy : c.has y = true) : P.has (U k y) = false := by
  cases hh : P.has (U k y) with
  | false => rfl
  | true =>
    exfalso
    obtain ⟨a, ha⟩ := has_exists hh
    rw [hPn] at ha
    rcases List.mem_append.1 ha with ha | ha
    · obtain ⟨t, ht, h | h⟩ := (I.mem_nodes _ a).1 ha
      · obtain ⟨x', hx', e, _⟩ := h
        exact H.copy x' hx' t (by omega) y hy k hk e.symm
      · obtain ⟨p, hp, e, _⟩ := h
        have := (U_inj2 e).1
        omega
    · obtain ⟨x', hx', e⟩ := List.mem_map.1 ha
      injection e with e _
      exact H.copy x' hx' k hk y hy k hk e

theorem step_succeeds (C : Ctx c stateIO io) (hc : LintClean c) (hbb : c.bbs = [])
    (hpin : PinOK c)
    (hio : ∀ x ∈ io, x ∈ c.io) {n k : Nat} (H : NamesOK c pfx io n) (hk : k < n) {s : Tx.UState}
    (I : Inv c stateIO pfx io k s) : ∃ s', Tx.unrollStep c io stateIO pfx s k = .ok s' := by
  have hvals : ∀ p ∈ stateIO, p.2 ∈ io := fun p hp => C.ioIn _ (C.valsIn p hp)
  -- phase A
  obtain ⟨s1, hA⟩ := ioPhase_succeeds (c := c) (stateIO := stateIO) (pfx := pfx) (k := k) io s H.dig
    (fun x hx => fresh_N H hk I hx)
    (nodup_map_of_inj C.ioNodup (fun x hx y hy e => (H.inj x hx y hy k hk k hk e).1))
  obtain ⟨wfP, nodesP, edgesP, mapP⟩ := ioPhase io s s1 I.wf hA
  rw [I.map, ioPhase_map c pfx io C.ioNodup k] at mapP
  have hconns : io.map (fun x => (x, [Tx.ioName s1.2 x k])) = io.map (fun x => (x, [N c pfx x k])) := by
    apply List.map_congr_left
    intro x hx
    rw [mapP, ioName_mapAt c pfx io (k + 1) hx (Nat.lt_succ_self k)]
  -- phase B
  obtain ⟨P', hB⟩ := subPhase_succeeds (stateIO := stateIO) hc hbb hpin I.wf wfP nodesP edgesP hio C.ioNodup
    (fun y hy => fresh_U H hk I nodesP hy)
  obtain ⟨wfP', nodesP', oldB, inB, copyB, outB, freeB⟩ :=
    subPhase C.wf I.wf wfP nodesP edgesP C.ioIn hB
  obtain ⟨inj, fresh, hasN, hasQ⟩ := ioNames_facts (stateIO := stateIO) wfP nodesP
  have memP' : ∀ q, q ∈ s1.1.nodes → q ∈ P'.nodes := fun q hq => by
    rw [nodesP']; exact List.mem_append.2 (Or.inl hq)
  have memNew : ∀ x ∈ io, (N c pfx x k, ioAttr0 c stateIO x) ∈ P'.nodes := fun x hx =>
    memP' _ (by rw [nodesP]; exact List.mem_append.2 (Or.inr (List.mem_map.2 ⟨x, hx, rfl⟩)))
  -- phase C
  have hC : ∃ uc', (if k == 0 then
        stateIO.foldlM (fun uc p => liftO (uc.setType [Tx.ioName s1.2 p.2 0] "input")) P'
      else
        stateIO.foldlM (fun uc p => liftO (uc.connect [Tx.ioName s1.2 p.1 (k - 1)] [Tx.ioName s1.2 p.2 k])) P') =
        .ok uc' := by
    cases k with
    | zero =>
      rw [if_pos (show ((0 : Nat) == 0) = true from rfl)]
      apply setTypeFold_succeeds (fun p => Tx.ioName s1.2 p.2 0)
      intro p hp
      rw [mapP, ioName_mapAt c pfx io 1 (hvals p hp) (by omega)]
      exact has_of_mem_nodes (memNew _ (hvals p hp))
    | succ k =>
      rw [if_neg (by simp)]
      have hk1 : k + 1 - 1 = k := by omega
      rw [hk1]
      have ef : ∀ p ∈ stateIO, Tx.ioName s1.2 p.1 k = N c pfx p.1 k := fun p hp => by
        rw [mapP, ioName_mapAt c pfx io (k + 2) (C.keysIO p hp) (by omega)]
      have eg : ∀ p ∈ stateIO, Tx.ioName s1.2 p.2 (k + 1) = N c pfx p.2 (k + 1) := fun p hp => by
        rw [mapP, ioName_mapAt c pfx io (k + 2) (hvals p hp) (by omega)]
      apply connectFold_succeeds (fun p => Tx.ioName s1.2 p.1 k) (fun p => Tx.ioName s1.2 p.2 (k + 1))
      · have e : stateIO.map (fun p => Tx.ioName s1.2 p.2 (k + 1)) = stateIO.map (fun p => N c pfx p.2 (k + 1)) :=
          List.map_congr_left eg
        rw [e]
        have := nodup_map_of_inj C.valsNodup (f := fun x => N c pfx x (k + 1)) (fun x hx y hy e => by
          obtain ⟨p, hp, rfl⟩ := List.mem_map.1 hx
          obtain ⟨q, hq, rfl⟩ := List.mem_map.1 hy
          exact inj _ (hvals p hp) _ (hvals q hq) e)
        rw [List.map_map] at this
        exact this
      · intro p hp
        show ∃ t, P'.ty? (Tx.ioName s1.2 p.1 k) = some t ∧ t ≠ "bb_input" ∧ t ≠ "bb_output"
        rw [ef p hp]
        refine ⟨ioTy c stateIO p.1 k, ?_, not_pin_of_cases (ioTy_cases c stateIO p.1 k)⟩
        have hm : (N c pfx p.1 k, ioAttr c stateIO p.1 k) ∈ P'.nodes :=
          memP' _ (by rw [nodesP]; exact List.mem_append.2 (Or.inl (I.memN (by omega) (C.keysIO p hp))))
        rw [Arith.ty?_of_mem wfP'.nodup hm]
        rfl
      · intro p hp
        show P'.ty? (Tx.ioName s1.2 p.2 (k + 1)) = some "buf" ∧ P'.fanin (Tx.ioName s1.2 p.2 (k + 1)) = []
        rw [eg p hp]
        refine ⟨?_, freeB _ (hvals p hp) (C.valsIn p hp)⟩
        rw [Arith.ty?_of_mem wfP'.nodup (memNew _ (hvals p hp))]
        show some (ioTy0 c stateIO p.2) = some "buf"
        rw [(ioTy0_state hp).1]
  obtain ⟨uc', hC⟩ := hC
  refine ⟨(uc', s1.2), ?_⟩
  unfold Tx.unrollStep
  rw [hA]
  show (liftO (s1.1.addSubcircuit c ("unrolled_" ++ toString k) (io.map (fun x => (x, [Tx.ioName s1.2 x k])))) >>=
    fun uc => (if k == 0 then
        stateIO.foldlM (fun uc p => liftO (uc.setType [Tx.ioName s1.2 p.2 0] "input")) uc
      else
        stateIO.foldlM (fun uc p => liftO (uc.connect [Tx.ioName s1.2 p.1 (k - 1)] [Tx.ioName s1.2 p.2 k])) uc) >>=
      fun uc' => pure (uc', s1.2)) = _
  rw [hconns, hB]
  show ((if k == 0 then
        stateIO.foldlM (fun uc p => liftO (uc.setType [Tx.ioName s1.2 p.2 0] "input")) P'
      else
        stateIO.foldlM (fun uc p => liftO (uc.connect [Tx.ioName s1.2 p.1 (k - 1)] [Tx.ioName s1.2 p.2 k])) P') >>=
      fun uc' => pure (uc', s1.2)) = _
  rw [hC]
  rfl

end
end UnrollOk
end CG
