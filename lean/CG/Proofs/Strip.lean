/-
  CG.Proofs.Strip — helper lemmas for strip_blackboxes (C06); import hub.
-/
import CG.Tx
import CG.Spec
import CG.Proofs.StripBase
import CG.Proofs.StripView
import CG.Proofs.StripSem
import CG.Proofs.StripMain
