/- C20 (second half, ternary) helper: the arity condition of one node (`Ar`), its stability under frames, and the two
   kinds of `add` calls of `ternary` with a description of the nodes they create -/
import CG.Proofs.Ternary
import CG.Proofs.LintLinkNoDot
namespace CG
namespace LintProdA
open Circuit Ternary

/-! ### names -/

theorem hasDot_uidOf {base x : Name} (h : UidOf base x) : hasDot x = hasDot base := by
  rcases h with rfl | ⟨j, rfl⟩
  · rfl
  · exact LintLink.hasDot_uidName base j

theorem hasDot_sfx {b sfx : Name} (hs : sfx ∈ helperSfx) : hasDot (b ++ sfx) = hasDot b := by
  have : hasDot sfx = false := by
    simp only [helperSfx, List.mem_cons, List.not_mem_nil, or_false] at hs
    rcases hs with rfl | rfl | rfl | rfl | rfl | rfl <;> decide
  rw [LintLink.hasDot_append, this, Bool.or_false]

theorem hasDot_comp {c : Circuit} {mp : Name → Name} (hm : MapOK c mp) {n : Name} (hn : c.has n = true) :
    hasDot (mp n) = hasDot n := by
  rw [hasDot_uidOf (hm.uidOf hn), LintLink.hasDot_append]
  have : hasDot "_X" = false := by decide
  rw [this, Bool.or_false]

/-! ### the arity condition -/

def srcT : List String := ["0", "1", "input"]
def sglT : List String := ["buf", "not"]

/-- node `y` is typed and wired as lint wants it (stated on the edge set) -/
def Ar (t : Circuit) (y : Name) : Prop :=
  ∃ ty, t.ty? y = some ty ∧
    ((ty ∈ srcT ∧ ∀ u, (u, y) ∉ t.edges) ∨ (ty ∈ sglT ∧ ∃ q, FaninIs t y [q]) ∨
     (ty ∈ multiTypes ∧ ∃ u, (u, y) ∈ t.edges))

theorem src_not_single {ty : String} (h : ty ∈ srcT) : ty ∉ singleTypes := by
  simp only [srcT, List.mem_cons, List.not_mem_nil, or_false] at h
  rcases h with rfl | rfl | rfl <;> decide
theorem src_not_multi {ty : String} (h : ty ∈ srcT) : ty ∉ multiTypes := by
  simp only [srcT, List.mem_cons, List.not_mem_nil, or_false] at h
  rcases h with rfl | rfl | rfl <;> decide
theorem sgl_not_source {ty : String} (h : ty ∈ sglT) : ty ∉ sourceTypes := by
  simp only [sglT, List.mem_cons, List.not_mem_nil, or_false] at h
  rcases h with rfl | rfl <;> decide
theorem sgl_not_multi {ty : String} (h : ty ∈ sglT) : ty ∉ multiTypes := by
  simp only [sglT, List.mem_cons, List.not_mem_nil, or_false] at h
  rcases h with rfl | rfl <;> decide
theorem multi_not_source {ty : String} (h : ty ∈ multiTypes) : ty ∉ sourceTypes := by
  simp only [multiTypes, List.mem_cons, List.not_mem_nil, or_false] at h
  rcases h with rfl | rfl | rfl | rfl | rfl | rfl <;> decide
theorem multi_not_single {ty : String} (h : ty ∈ multiTypes) : ty ∉ singleTypes := by
  simp only [multiTypes, List.mem_cons, List.not_mem_nil, or_false] at h
  rcases h with rfl | rfl | rfl | rfl | rfl | rfl <;> decide
theorem multi_not_src {ty : String} (h : ty ∈ multiTypes) : ty ∉ srcT := by
  simp only [multiTypes, List.mem_cons, List.not_mem_nil, or_false] at h
  rcases h with rfl | rfl | rfl | rfl | rfl | rfl <;> decide
theorem multi_not_sgl {ty : String} (h : ty ∈ multiTypes) : ty ∉ sglT := by
  simp only [multiTypes, List.mem_cons, List.not_mem_nil, or_false] at h
  rcases h with rfl | rfl | rfl | rfl | rfl | rfl <;> decide

variable {t t' : Circuit} {A E : Name → Prop} {y : Name}

theorem Ar.has (h : Ar t y) : t.has y = true := by
  obtain ⟨ty, h, _⟩ := h
  exact has_of_ty? h

/-- a frame that leaves `y` alone keeps its arity condition -/
theorem Ar.frame_fix (hf : Frame t t' A E) (hA : ¬ A y) (hE : ¬ E y) (h : Ar t y) : Ar t' y := by
  have hy := h.has
  obtain ⟨ty, hty, hc⟩ := h
  refine ⟨ty, by rw [hf.ty hy hA]; exact hty, ?_⟩
  rcases hc with ⟨hm, he⟩ | ⟨hm, q, hq⟩ | ⟨hm, u, hu⟩
  · exact Or.inl ⟨hm, fun u hu => he u ((hf.edge hE u).mp hu)⟩
  · exact Or.inr (Or.inl ⟨hm, q, hf.faninIs hE hq⟩)
  · exact Or.inr (Or.inr ⟨hm, u, hf.mono _ hu⟩)

/-- a frame that keeps the attributes of a driven multi-input gate keeps its arity condition -/
theorem Ar.frame_multi (hf : Frame t t' A E) (hA : ¬ A y) {ty : String} (hty : t.ty? y = some ty)
    (hm : ty ∈ multiTypes) (h : Ar t y) : Ar t' y := by
  have hy := h.has
  obtain ⟨ty', hty', hc⟩ := h
  rw [hty] at hty'; cases hty'
  refine ⟨ty, by rw [hf.ty hy hA]; exact hty, ?_⟩
  rcases hc with ⟨hm', _⟩ | ⟨hm', _⟩ | ⟨_, u, hu⟩
  · exact absurd hm' (multi_not_src hm)
  · exact absurd hm' (multi_not_sgl hm)
  · exact Or.inr (Or.inr ⟨hm, u, hf.mono _ hu⟩)

theorem Ar.of_multi {ty : String} {u : Name} (hty : t.ty? y = some ty) (hm : ty ∈ multiTypes)
    (he : (u, y) ∈ t.edges) : Ar t y :=
  ⟨ty, hty, Or.inr (Or.inr ⟨hm, u, he⟩)⟩

theorem Ar.of_multi_faninIs {ty : String} {l : List Name} (hty : t.ty? y = some ty) (hm : ty ∈ multiTypes)
    (hf : FaninIs t y l) (hl : l ≠ []) : Ar t y := by
  cases l with
  | nil => exact absurd rfl hl
  | cons u l => exact Ar.of_multi hty hm ((hf u).mpr (by simp))

theorem Ar.of_src {ty : String} (hty : t.ty? y = some ty) (hm : ty ∈ srcT) (hf : FaninIs t y []) : Ar t y :=
  ⟨ty, hty, Or.inl ⟨hm, fun u hu => by have := (hf u).mp hu; cases this⟩⟩

theorem Ar.of_sgl {ty : String} {q : Name} (hty : t.ty? y = some ty) (hm : ty ∈ sglT) (hf : FaninIs t y [q]) :
    Ar t y :=
  ⟨ty, hty, Or.inr (Or.inl ⟨hm, q, hf⟩)⟩

/-- what lint asks of the node -/
theorem Ar.lint (hnd : t.edges.Nodup) (h : Ar t y) {ty : String} (hty : t.ty? y = some ty) :
    (ty ∈ sourceTypes → t.fanin y = []) ∧ (ty ∈ singleTypes → (t.fanin y).length = 1) ∧
    (ty ∈ multiTypes → 1 ≤ (t.fanin y).length) := by
  obtain ⟨ty0, h0, hc⟩ := h
  rw [h0] at hty; cases hty
  rcases hc with ⟨hm, he⟩ | ⟨hm, q, hq⟩ | ⟨hm, u, hu⟩
  · have hf : t.fanin y = [] := by
      apply fanin_nil_of
      intro e he' h2
      apply he e.1
      rw [← h2]
      exact he'
    exact ⟨fun _ => hf, fun h => absurd h (src_not_single hm), fun h => absurd h (src_not_multi hm)⟩
  · have hf : t.fanin y = [q] := fanin_eq_singleton hnd hq
    exact ⟨fun h => absurd h (sgl_not_source hm), fun _ => by rw [hf]; rfl, fun h => absurd h (sgl_not_multi hm)⟩
  · have hmem : u ∈ t.fanin y := mem_fanin.mpr hu
    refine ⟨fun h => absurd h (multi_not_source hm), fun h => absurd h (multi_not_single hm), fun _ => ?_⟩
    cases hfi : t.fanin y with
    | nil => rw [hfi] at hmem; cases hmem
    | cons a l => simp

/-! ### a fresh helper gate, with the nodes it creates -/

theorem fresh_gate2 {c : Circuit} {mp : Name → Name} (hm : MapOK c mp) {t : Circuit} (hW : W c mp t)
    (b sfx ty : String) (fi fo : List Name) (ac : Bool)
    (hb : Circuit.isDigit0 b = false) (hs : sfx ∈ helperSfx)
    (hty : ty ∈ ["or", "nor", "and", "not"]) (hnot : ty = "not" → fi.length ≤ 1)
    (hfo : ∀ v ∈ fo, ∃ tv, t.ty? v = some tv ∧ tv ∈ multiTypes)
    (hfi : ∀ u ∈ fi, t.has u = true ∨ (ac = true ∧ ∃ m, c.has m = true ∧ u = mp m ∧ Limit.NameOK u)) :
    ∃ t' r, t.add { n := b ++ sfx, ty := ty, fanout := fo, fanin := fi, uid := true, addConnected := ac } =
        (t', .ok, r) ∧ FreshOut c mp t ty fi fo t' r ∧
        (∀ y, t'.has y = true → t.has y = true ∨ y = r ∨ (ac = true ∧ y ∈ fi)) ∧ hasDot r = hasDot b := by
  obtain ⟨t', r, hadd, o⟩ := fresh_gate hm hW b sfx ty fi fo ac hb hs hty hnot hfo hfi
  have hsome := Limit.uid_isSome t (b ++ sfx) []
  cases hr : t.uid (b ++ sfx) with
  | none => rw [hr] at hsome; cases hsome
  | some r0 =>
    obtain ⟨hfresh, huid⟩ := Limit.uid_spec t _ r0 hr
    have hhelper : IsHelper r0 := ⟨b, sfx, hs, huid⟩
    have hok : ty ∈ okTypes := by
      simp only [List.mem_cons, List.not_mem_nil, or_false] at hty
      rcases hty with rfl | rfl | rfl | rfl <;> decide
    have hfo_has : ∀ v ∈ fo, t.has v = true := fun v hv => by
      obtain ⟨tv, h, _⟩ := hfo v hv; exact has_of_ty? h
    have hfo_ne : ∀ v ∈ fo, v ≠ r0 := fun v hv e => by
      have := hfo_has v hv; rw [e, hfresh] at this; cases this
    have hfi_ne : ∀ u ∈ fi, u ≠ r0 := fun u hu e => by
      rcases hfi u hu with h | ⟨_, m, hmc, hmu, _⟩
      · rw [e, hfresh] at h; cases h
      · exact hm.ne_helper hmc hhelper (e ▸ hmu)
    obtain ⟨t'', hadd', s⟩ := add_ok t
      { n := b ++ sfx, ty := ty, fanout := fo, fanin := fi, uid := true, addConnected := ac } r0
      (by simp only [if_true]; exact hr) (by intro h; cases h) (nameOK_helper hs hb hr) hok
      (by
        intro h
        refine ⟨?_, fun _ => hW.no_in hfresh⟩
        simp only [List.mem_cons, List.not_mem_nil, or_false] at hty
        rcases h with h | h
        · rcases hty with rfl | rfl | rfl | rfl <;> simp at h
        · exact hnot h)
      (by
        intro h
        simp only [List.mem_cons, List.not_mem_nil, or_false] at hty
        rcases hty with rfl | rfl | rfl | rfl <;> simp at h)
      (fun v hv => ⟨hfo_ne v hv, hfo v hv⟩)
      (fun u hu => ⟨hfi_ne u hu, (hfi u hu).imp id (fun ⟨h1, _, _, _, h2⟩ => ⟨h1, h2⟩)⟩)
      hW.typed
    rw [hadd] at hadd'
    have e1 : t' = t'' := by injection hadd'
    have e2 : r = r0 := by
      injection hadd' with _ h2
      injection h2
    subst e1; subst e2
    refine ⟨t', r, hadd, o, fun y hy => (s.has y).mp hy, ?_⟩
    rw [hasDot_uidOf huid, hasDot_sfx hs]

/-! ### a companion (re)definition, with the nodes it creates -/

theorem comp_gate2 {c : Circuit} {mp : Name → Name} {t : Circuit} (hW : W c mp t)
    (n : Name) (hn : c.has n = true) (hname : Limit.NameOK (mp n))
    (ty : String) (fi : List Name) (out ac : Bool)
    (hty : ty ∈ ["and", "buf", "or", "0", "input"])
    (hbuf : ty = "buf" → fi.length ≤ 1) (hsrc : ty = "0" ∨ ty = "input" → fi = [])
    (hclean : ∀ e ∈ t.edges, e.2 ≠ mp n)
    (hfi : ∀ u ∈ fi, u ≠ mp n ∧
      (t.has u = true ∨ (ac = true ∧ ∃ m, c.has m = true ∧ u = mp m ∧ Limit.NameOK u))) :
    ∃ t', t.add { n := mp n, ty := ty, fanin := fi, output := out, addConnected := ac, allowRedef := true } =
        (t', .ok, mp n) ∧ CompOut c mp t ty fi t' (mp n) ∧
        (∀ y, t'.has y = true → t.has y = true ∨ y = mp n ∨ (ac = true ∧ y ∈ fi)) := by
  obtain ⟨t', hadd, o⟩ := comp_gate hW n hn hname ty fi out ac hty hbuf hsrc hclean hfi
  have hok : ty ∈ okTypes := by
    simp only [List.mem_cons, List.not_mem_nil, or_false] at hty
    rcases hty with rfl | rfl | rfl | rfl | rfl <;> decide
  obtain ⟨t'', hadd', s⟩ := add_ok t
    { n := mp n, ty := ty, fanin := fi, output := out, addConnected := ac, allowRedef := true } (mp n)
    (by simp) (fun _ => rfl) hname hok
    (by
      intro h
      refine ⟨?_, fun _ => hclean⟩
      simp only [List.mem_cons, List.not_mem_nil, or_false] at hty
      rcases h with h | h
      · exact hbuf h
      · rcases hty with rfl | rfl | rfl | rfl | rfl <;> simp at h)
    (by
      intro h
      simp only [List.mem_cons, List.not_mem_nil, or_false] at hty
      rcases h with h | h | h
      · exact hsrc (Or.inl h)
      · rcases hty with rfl | rfl | rfl | rfl | rfl <;> simp at h
      · exact hsrc (Or.inr h))
    (fun v hv => nomatch hv)
    (fun u hu => ⟨(hfi u hu).1, (hfi u hu).2.imp id (fun ⟨h1, _, _, _, h2⟩ => ⟨h1, h2⟩)⟩)
    hW.typed
  rw [hadd] at hadd'
  have e1 : t' = t'' := by injection hadd'
  subst e1
  exact ⟨t', hadd, o, fun y hy => (s.has y).mp hy⟩

end LintProdA
end CG
