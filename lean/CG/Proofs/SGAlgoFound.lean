/- C17 (algorithm) helpers, part 13: `insertFound`, `allFound`, `minimalCover` — which supergates are recorded -/
import CG.Proofs.SGAlgoIndep
set_option linter.unusedSectionVars false
set_option linter.unusedVariables false
set_option linter.unusedSimpArgs false
namespace CG
namespace SGA
open Query Supergates Q

theorem setEq_refl (a : List Name) : setEq a a = true := (SG.setEq_iff a a).mpr (fun _ => Iff.rfl)

theorem setEq_trans {a b c : List Name} (h1 : setEq a b = true) (h2 : setEq b c = true) : setEq a c = true :=
  (SG.setEq_iff a c).mpr (fun x => ((SG.setEq_iff a b).mp h1 x).trans ((SG.setEq_iff b c).mp h2 x))

theorem setEq_symm {a b : List Name} (h : setEq a b = true) : setEq b a = true :=
  (SG.setEq_iff b a).mpr (fun x => ((SG.setEq_iff a b).mp h x).symm)

theorem mem_insertFound {acc : List Found} {f g : Found} (h : g ∈ insertFound acc f) : g ∈ acc ∨ g = f := by
  unfold insertFound at h
  split at h
  · obtain ⟨g', hg', heq⟩ := List.mem_map.mp h
    split at heq
    · exact Or.inr heq.symm
    · exact Or.inl (heq ▸ hg')
  · rcases List.mem_append.mp h with h | h
    · exact Or.inl h
    · exact Or.inr (List.mem_singleton.mp h)

theorem insertFound_self (acc : List Found) (f : Found) : f ∈ insertFound acc f := by
  unfold insertFound
  split
  · rename_i hany
    obtain ⟨g, hg, hs⟩ := List.any_eq_true.mp hany
    exact List.mem_map.mpr ⟨g, hg, by rw [if_pos hs]⟩
  · exact List.mem_append_right _ (List.mem_singleton.mpr rfl)

theorem insertFound_keeps {acc : List Found} (f : Found) {S : List Name}
    (h : ∃ g ∈ acc, setEq g.nodes S = true) : ∃ g ∈ insertFound acc f, setEq g.nodes S = true := by
  obtain ⟨g, hg, hs⟩ := h
  unfold insertFound
  split
  · by_cases hgf : setEq g.nodes f.nodes = true
    · exact ⟨f, List.mem_map.mpr ⟨g, hg, by rw [if_pos hgf]⟩, setEq_trans (setEq_symm hgf) hs⟩
    · exact ⟨g, List.mem_map.mpr ⟨g, hg, by rw [if_neg hgf]⟩, hs⟩
  · exact ⟨g, List.mem_append_left _ hg, hs⟩

/-- the inner fold of `allFound` over the supergates of one cone -/
def addCone (o : Name) (acc : List Found) (l : List (Name × List Name)) : List Found :=
  l.foldl (fun acc p => insertFound acc { head := p.1, cone := o, nodes := p.2 }) acc

theorem mem_addCone (o : Name) : ∀ (l : List (Name × List Name)) (acc : List Found) (g : Found),
    g ∈ addCone o acc l → g ∈ acc ∨ ∃ p ∈ l, g = { head := p.1, cone := o, nodes := p.2 }
  | [], acc, g, h => Or.inl h
  | p :: ps, acc, g, h => by
    rcases mem_addCone o ps _ g h with h1 | ⟨q, hq, h1⟩
    · rcases mem_insertFound h1 with h2 | h2
      · exact Or.inl h2
      · exact Or.inr ⟨p, List.mem_cons_self, h2⟩
    · exact Or.inr ⟨q, List.mem_cons_of_mem _ hq, h1⟩

theorem addCone_keeps (o : Name) : ∀ (l : List (Name × List Name)) (acc : List Found) (S : List Name),
    (∃ g ∈ acc, setEq g.nodes S = true) → ∃ g ∈ addCone o acc l, setEq g.nodes S = true
  | [], _, _, h => h
  | p :: ps, acc, S, h => addCone_keeps o ps _ S (insertFound_keeps _ h)

theorem addCone_has (o : Name) : ∀ (l : List (Name × List Name)) (acc : List Found), ∀ p ∈ l,
    ∃ g ∈ addCone o acc l, setEq g.nodes p.2 = true
  | [], _, p, hp => absurd hp List.not_mem_nil
  | q :: qs, acc, p, hp => by
    rcases List.mem_cons.mp hp with h | h
    · subst h
      exact addCone_keeps o qs _ p.2 ⟨_, insertFound_self acc _, setEq_refl _⟩
    · exact addCone_has o qs _ p h

/-- the supergates of one cone as computed -/
abbrev coneList (c2 : Circuit) (o : Name) : List (Name × List Name) :=
  coneSGs (domChildren c2 o) ((domChildren c2 o).length + 1) [o] []

theorem allFound_eq (c2 : Circuit) (outs : List Name) :
    allFound c2 outs = outs.foldl (fun acc o => addCone o acc (coneList c2 o)) [] := rfl

theorem mem_foldl_addCone (c2 : Circuit) : ∀ (outs : List Name) (acc : List Found) (g : Found),
    g ∈ outs.foldl (fun acc o => addCone o acc (coneList c2 o)) acc →
      g ∈ acc ∨ ∃ o ∈ outs, ∃ p ∈ coneList c2 o, g = { head := p.1, cone := o, nodes := p.2 }
  | [], acc, g, h => Or.inl h
  | o :: os, acc, g, h => by
    rcases mem_foldl_addCone c2 os _ g h with h1 | ⟨o', ho', h1⟩
    · rcases mem_addCone o _ _ g h1 with h2 | h2
      · exact Or.inl h2
      · exact Or.inr ⟨o, List.mem_cons_self, h2⟩
    · exact Or.inr ⟨o', List.mem_cons_of_mem _ ho', h1⟩

theorem foldl_addCone_keeps (c2 : Circuit) : ∀ (outs : List Name) (acc : List Found) (S : List Name),
    (∃ g ∈ acc, setEq g.nodes S = true) →
      ∃ g ∈ outs.foldl (fun acc o => addCone o acc (coneList c2 o)) acc, setEq g.nodes S = true
  | [], _, _, h => h
  | o :: os, acc, S, h => foldl_addCone_keeps c2 os _ S (addCone_keeps o _ acc S h)

theorem foldl_addCone_has (c2 : Circuit) : ∀ (outs : List Name) (acc : List Found), ∀ o ∈ outs,
    ∀ p ∈ coneList c2 o, ∃ g ∈ outs.foldl (fun acc o => addCone o acc (coneList c2 o)) acc, setEq g.nodes p.2 = true
  | [], _, o, ho, _, _ => absurd ho List.not_mem_nil
  | o' :: os, acc, o, ho, p, hp => by
    rcases List.mem_cons.mp ho with h | h
    · subst h
      exact foldl_addCone_keeps c2 os _ p.2 (addCone_has o _ acc p hp)
    · exact foldl_addCone_has c2 os _ o h p hp

/-- every recorded supergate comes from the growth loop of one of the cones -/
theorem allFound_sound (c2 : Circuit) (outs : List Name) {f : Found} (h : f ∈ allFound c2 outs) :
    ∃ o ∈ outs, ∃ p ∈ coneList c2 o, f = { head := p.1, cone := o, nodes := p.2 } := by
  rw [allFound_eq] at h
  rcases mem_foldl_addCone c2 outs [] f h with h1 | h1
  · exact absurd h1 List.not_mem_nil
  · exact h1

/-- every supergate of every cone is recorded, up to the identity of node sets -/
theorem allFound_complete (c2 : Circuit) (outs : List Name) {o : Name} (ho : o ∈ outs)
    {p : Name × List Name} (hp : p ∈ coneList c2 o) : ∃ f ∈ allFound c2 outs, setEq f.nodes p.2 = true := by
  rw [allFound_eq]
  exact foldl_addCone_has c2 outs [] o ho p hp

/-- the entries of a cone satisfy the per-supergate context -/
theorem coneList_ctx (c2 : Circuit) (hc : LintClean c2) (hac : Acyclic c2) (hfi : ∀ n, (c2.fanin n).length ≤ 2)
    {o : Name} (ho : c2.has o = true) {p : Name × List Name} (hp : p ∈ coneList c2 o) : SGCtx c2 o p.1 p.2 := by
  have T := treeOK c2 hc.toWF hac o
  obtain ⟨hh, heq⟩ := (coneSGs_spec T).1 p hp
  obtain ⟨g1, g2, _, _⟩ := growSG_spec T hh.1
  exact ⟨hc, hac, hfi, ho, hh, heq ▸ g1, fun x => by rw [heq]; exact g2 x⟩

theorem allFound_ctx (c2 : Circuit) (hc : LintClean c2) (hac : Acyclic c2) (hfi : ∀ n, (c2.fanin n).length ≤ 2)
    (outs : List Name) (houts : ∀ o ∈ outs, c2.has o = true) {f : Found} (h : f ∈ allFound c2 outs) :
    f.cone ∈ outs ∧ SGCtx c2 f.cone f.head f.nodes := by
  obtain ⟨o, ho, p, hp, rfl⟩ := allFound_sound c2 outs h
  exact ⟨ho, coneList_ctx c2 hc hac hfi (houts o ho) hp⟩

theorem mem_minimalCover {c2 : Circuit} {fs : List Found} {p : Found × Circuit} (h : p ∈ minimalCover c2 fs) :
    p.1 ∈ fs ∧ p.2 = sgCircuit c2 p.1.cone p.1.head p.1.nodes := by
  unfold minimalCover at h
  obtain ⟨f, hf, heq⟩ := List.mem_map.mp (List.mem_filter.mp h).1
  subst heq
  exact ⟨hf, rfl⟩

theorem algo_sgs (c2 : Circuit) (outs : List Name) : (algo c2 outs).sgs = minimalCover c2 (allFound c2 outs) := rfl

theorem has_of_outputs (c2 : Circuit) (hwf : WF c2) {outs : List Name} (houts : outs.Perm c2.outputs) :
    ∀ o ∈ outs, c2.has o = true := by
  intro o ho
  have : o ∈ c2.outputs := houts.mem_iff.mp ho
  rw [Q.has_iff]
  unfold Circuit.outputs at this
  obtain ⟨p, hp, rfl⟩ := List.mem_map.mp this
  exact List.mem_map.mpr ⟨p, (List.mem_filter.mp hp).1, rfl⟩

/-- every supergate returned by the algorithm satisfies the per-supergate context -/
theorem algo_ctx (c2 : Circuit) (hc : LintClean c2) (hac : Acyclic c2) (hfi : ∀ n, (c2.fanin n).length ≤ 2)
    (outs : List Name) (houts : outs.Perm c2.outputs) {p : Found × Circuit} (hp : p ∈ (algo c2 outs).sgs) :
    p.2 = sgCircuit c2 p.1.cone p.1.head p.1.nodes ∧ p.1.cone ∈ outs ∧ SGCtx c2 p.1.cone p.1.head p.1.nodes := by
  rw [algo_sgs] at hp
  obtain ⟨h1, h2⟩ := mem_minimalCover hp
  exact ⟨h2, allFound_ctx c2 hc hac hfi outs (has_of_outputs c2 hc.toWF houts) h1⟩

end SGA
end CG
