/- C05 (`insert_registers_ok`) helpers: one iteration of the inner loop of `insert_registers` succeeds -/
import CG.Proofs.TxOkIR2
set_option linter.unusedSimpArgs false
set_option linter.unusedVariables false
namespace CG
namespace TxOk
open Circuit InsReg LintProdD

theorem nameOK_ff (n : Name) : Limit.NameOK ("ff_" ++ n) :=
  Limit.NameOK.append (x := "ff_") ⟨by decide, by decide⟩ n

theorem nil_of_forall_not_mem {l : List Name} (h : ∀ x, x ∉ l) : l = [] := by
  cases l with
  | nil => rfl
  | cons x xs => exact absurd List.mem_cons_self (h x)

/-- **one splice step succeeds** on a lint-clean circuit when the spliced node and the clock are typed nodes other
    than blackbox pins, the node's name does not start with a digit and the flop instance `ff_<n>` and its pins are new -/
theorem step_succeeds {ord : Ord} (hord : OrdOK ord) (i : Nat) {cr : Circuit} {n : Name}
    (hc : LintClean cr) (hasn : cr.has n = true) (hdig : isDigit0 n = false) (hpn : NotPin cr n)
    (hasclk : cr.has "clk" = true) (hpk : NotPin cr "clk")
    (hl : cr.bbs.lookup ("ff_" ++ n) = none)
    (fd : cr.has ("ff_" ++ n ++ ".d") = false) (fq : cr.has ("ff_" ++ n ++ ".q") = false)
    (fk : cr.has ("ff_" ++ n ++ ".clk") = false) :
    ∃ cr', spliceStep ord i cr n = .ok cr' := by
  have hfo : ∀ v, v ∈ ord (dedup (cr.fanout n)) ↔ (n, v) ∈ cr.edges := by
    intro v
    rw [(hord _).mem_iff, Q.mem_dedup, mem_fanout]
  generalize hfoe : ord (dedup (cr.fanout n)) = fo at hfo
  have hcdn : (cr.disconnect [n] fo).nodes = cr.nodes := rfl
  have hcde : ∀ e, e ∈ (cr.disconnect [n] fo).edges ↔ e ∈ cr.edges ∧ e.1 ≠ n := by
    intro e
    rw [← hfoe]
    exact mem_disconnect_all hord n e
  -- the fresh name
  have hsome := Limit.uid_isSome (cr.disconnect [n] fo) (n ++ "_cg_insert_reg_q_" ++ toString i) []
  cases hu : (cr.disconnect [n] fo).uid (n ++ "_cg_insert_reg_q_" ++ toString i) with
  | none => rw [hu] at hsome; cases hsome
  | some r =>
  have hfr : cr.has r = false := by
    have := (Limit.uid_spec _ _ r hu).1
    rwa [has_congr hcdn] at this
  have hname : Limit.NameOK r :=
    Limit.nameOK_uid _ n "_cg_insert_reg_q_" (toString i) r "cg_insert_reg_q_".toList (by decide) hdig hu
  have hlen := uid_length hu
  -- the circuit after `add_node`
  have hn1 : ((cr.disconnect [n] fo).addNodeAttr r bufA).nodes = cr.nodes ++ [(r, bufA)] := by
    rw [addNodeAttr_fresh _ (by rw [has_congr hcdn]; exact hfr)]
    rfl
  have he1 : ((cr.disconnect [n] fo).addNodeAttr r bufA).edges = (cr.disconnect [n] fo).edges :=
    addNodeAttr_edges _ _ _
  have hfo_has : ∀ v ∈ fo, cr.has v = true := fun v hv => (hc.closed _ ((hfo v).1 hv)).2
  have hck : fo ≠ [] → ((cr.disconnect [n] fo).addNodeAttr r bufA).connectCheck [r] fo = none := by
    intro _
    refine Limit.connectCheck_none _ [r] fo ?_ ?_ ?_ ?_
    · intro u hu'
      rw [List.mem_singleton] at hu'
      rw [hu']
      exact (Limit.ext_has hn1 r).2 (Or.inr rfl)
    · intro v hv
      exact (Limit.ext_has hn1 v).2 (Or.inl (hfo_has v hv))
    · intro v hv
      have hvh := hfo_has v hv
      obtain ⟨a, ha⟩ := Limit.attr_of_has hvh
      obtain ⟨t, ht, _⟩ := hc.typed _ (attr?_mem ha)
      have hty : cr.ty? v = some t := by unfold Circuit.ty?; rw [ha]; exact ht
      have hnv : n ∈ cr.fanin v := mem_fanin.2 ((hfo v).1 hv)
      refine ⟨t, by rw [Limit.ext_ty_old hn1 hvh]; exact hty, ?_, ?_⟩
      · -- a node with fan-in is no source
        rw [Limit.T_connectL0]
        cases hcn : ["input", "0", "1", "x", "bb_output"].contains t with
        | false => rfl
        | true =>
          have : t ∈ sourceTypes := by simpa [sourceTypes] using hcn
          rw [hc.noFanin v t hty this] at hnv
          cases hnv
      · intro hc1
        rw [Limit.T_connectL1] at hc1
        have hs : t ∈ singleTypes := by
          simp only [List.contains_iff_mem, List.mem_cons, List.not_mem_nil, or_false] at hc1
          simp only [singleTypes, List.mem_cons, List.not_mem_nil, or_false]
          rcases hc1 with h | h | h
          · exact Or.inr (Or.inr h)
          · exact Or.inl h
          · exact Or.inr (Or.inl h)
        have h1 := hc.single v t hty hs
        have hfi : ((cr.disconnect [n] fo).addNodeAttr r bufA).fanin v = [] := by
          apply nil_of_forall_not_mem
          intro x hx
          rw [mem_fanin, he1, hcde] at hx
          obtain ⟨hx1, hx2⟩ := hx
          have hx3 : x ∈ cr.fanin v := mem_fanin.2 hx1
          match hfv : cr.fanin v, h1 with
          | [y], _ =>
            rw [hfv, List.mem_singleton] at hnv hx3
            exact hx2 (hx3.trans hnv.symm)
        rw [hfi]
        simp
    · intro u hu'
      rw [List.mem_singleton] at hu'
      rw [hu']
      refine ⟨"buf", by rw [Limit.ext_ty_new hn1 hfr]; rfl, by decide, by decide⟩
  obtain ⟨cA, hA⟩ := buf_add_ok (cr.disconnect [n] fo) _ r fo hu hname hck
  -- what the buffer `add` produced
  obtain ⟨_, _, c2, h2, h3⟩ := add_inv rfl rfl hA
  rw [connect_empty_left] at h3
  injection h3 with h3 _
  subst h3
  obtain ⟨k2, kb2, _, _, e2, n2, _⟩ := connect_ok h2
  have hnA : c2.nodes = cr.nodes ++ [(r, bufA)] := k2.trans hn1
  have heA : ∀ e, e ∈ c2.edges ↔ (e ∈ cr.edges ∧ e.1 ≠ n) ∨ (e.1 = r ∧ e.2 ∈ fo) := by
    intro e
    rw [e2, List.mem_singleton]
    show e ∈ ((cr.disconnect [n] fo).addNodeAttr r bufA).edges ∨ _ ↔ _
    rw [he1, hcde]
  have hasA : ∀ m, c2.has m = true ↔ cr.has m = true ∨ m = r := Limit.ext_has hnA
  have hwfA : WF c2 := by
    refine ⟨?_, ?_, ?_⟩
    · rw [nodeNames_congr k2]
      exact addNodeAttr_nodup _ _ hc.nodup
    · apply n2
      show ((cr.disconnect [n] fo).addNodeAttr r bufA).edges.Nodup
      rw [he1]
      exact disconnect_edges_nodup _ _ hc.edgesNodup
    · intro e he
      rcases (heA e).1 he with ⟨h1, _⟩ | ⟨h1, h2'⟩
      · obtain ⟨c1', c2'⟩ := hc.closed e h1
        exact ⟨(hasA _).2 (Or.inl c1'), (hasA _).2 (Or.inl c2')⟩
      · exact ⟨(hasA _).2 (Or.inr h1), (hasA _).2 (Or.inl (hfo_has _ h2'))⟩
  have hfreshA : ∀ x, cr.has x = false → x.length < r.length → c2.has x = false := by
    intro x hx hl'
    cases hh : c2.has x with
    | false => rfl
    | true =>
      rcases (hasA x).1 hh with h | h
      · rw [hx] at h; cases h
      · rw [h] at hl'; omega
  have hpl : ∀ p : String, p.length ≤ 4 → ("ff_" ++ n ++ p).length < r.length := by
    intro p hp
    rw [String.length_append, String.length_append]
    have : "ff_".length = 3 := by decide
    omega
  obtain ⟨an, han⟩ := Limit.attr_of_has hasn
  obtain ⟨tn, htn, _⟩ := hc.typed _ (attr?_mem han)
  have htyn : cr.ty? n = some tn := by unfold Circuit.ty?; rw [han]; exact htn
  obtain ⟨ak, hak⟩ := Limit.attr_of_has hasclk
  obtain ⟨tk, htk, _⟩ := hc.typed _ (attr?_mem hak)
  have htyk : cr.ty? "clk" = some tk := by unfold Circuit.ty?; rw [hak]; exact htk
  have hrfi : c2.fanin r = [] := by
    apply Ternary.fanin_nil_of
    intro e he h
    rcases (heA e).1 he with ⟨h1, _⟩ | ⟨_, h2'⟩
    · have := (hc.closed e h1).2
      rw [h, hfr] at this; cases this
    · have := hfo_has _ h2'
      rw [h, hfr] at this; cases this
  obtain ⟨cB, hB⟩ := addBlackbox_ok (inst := "ff_" ++ n) (n := n) (r := r) hord hwfA (nameOK_ff n)
    (by rw [kb2, addNodeAttr_bbs]; exact hl)
    (hfreshA _ fd (hpl ".d" (by decide))) (hfreshA _ fq (hpl ".q" (by decide))) (hfreshA _ fk (hpl ".clk" (by decide)))
    (tn := tn) (tk := tk)
    (by rw [Limit.ext_ty_old hnA hasn]; exact htyn)
    (fun h => hpn.1 (by rw [htyn, h])) (fun h => hpn.2 (by rw [htyn, h]))
    (by rw [Limit.ext_ty_old hnA hasclk]; exact htyk)
    (fun h => hpk.1 (by rw [htyk, h])) (fun h => hpk.2 (by rw [htyk, h]))
    (by rw [Limit.ext_ty_new hnA hfr]; rfl) hrfi
  refine ⟨cB, ?_⟩
  unfold spliceStep
  rw [hfoe]
  unfold addE
  rw [hA]
  show liftO (c2.addBlackbox ffBox ("ff_" ++ n) [("d", [n]), ("q", [r]), ("clk", ["clk"])] ord) = _
  rw [hB]
  rfl

end TxOk
end CG
