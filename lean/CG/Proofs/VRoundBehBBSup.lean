/- C03 helper (behavioural round trip WITH blackboxes): a supplement to `VR.RInv` for the declaration and instance
   phases of the reader: every node that is neither a constant node nor declared yet (input / pin) is a plain buffer
   (`VR.RInv` only says "a buffer or its final type"). -/
import CG.Proofs.VRoundBehBBInv
import CG.Proofs.InsRegOps
namespace CG
namespace VBB
open Verilog Circuit Ternary VT

theorem bind_ok_inv {α β} {x : E α} {f : α → E β} {b : β} (h : (x >>= f) = .ok b) : ∃ a, x = .ok a ∧ f a = .ok b := by
  cases x with
  | error e => cases h
  | ok a => exact ⟨a, rfl, h⟩

/-- every node outside `D` other than the constant nodes is a plain buffer -/
def Sup (D : Name → Prop) (st : Circuit) : Prop :=
  ∀ x a, st.attr? x = some a → ¬ D x → ¬ VR.isTie x → a = bufAttr

theorem Sup.mono {D D' : Name → Prop} {st : Circuit} (h : Sup D st) (hd : ∀ x, D x → D' x) : Sup D' st :=
  fun x a ha hx ht => h x a ha (fun h' => hx (hd x h')) ht

theorem sup_tie3 (D : Name → Prop) : Sup D VR.tie3 :=
  fun _ _ ha _ ht => absurd (VR.tie3_has (Limit.has_of_attr ha)) ht

/-- one `add_node` call of the reader -/
theorem sup_add {D : Name → Prop} {t t' : Circuit} {n ty : String} {F : List Name}
    (s : AddSpec t (VR.rdArgs n ty F) n t') (h : Sup D t) (hn : D n ∨ ty = "buf") : Sup D t' := by
  intro x a ha hx ht
  by_cases hxn : x = n
  · subst hxn
    rcases hn with hn | hn
    · exact absurd hn hx
    · have := s.attr_self
      rw [ha] at this
      injection this with this
      rw [this, hn]
      rfl
  · cases hh : t.has x with
    | true =>
      rw [s.attr_old x hxn hh] at ha
      exact h x a ha hx ht
    | false =>
      have := s.attr_new x hxn hh (Limit.has_of_attr ha)
      rw [ha] at this
      injection this

theorem sup_addNodeAttr {D : Name → Prop} {t : Circuit} {n : Name} (h : Sup D t) (hf : t.has n = false) :
    Sup D (t.addNodeAttr n { ty := some "buf", out := some false }) := by
  intro x a ha hx ht
  rw [addNodeAttr_attr?] at ha
  by_cases hxn : x = n
  · subst hxn
    rw [if_pos rfl, attr?_none_of_not_has hf] at ha
    injection ha with ha
    rw [← ha]
    rfl
  · rw [if_neg hxn] at ha
    exact h x a ha hx ht

/-! ### input declarations -/

theorem iphase_sup {bbs : List BBox} {ord' : Ord} : ∀ (I : List Name) (st : TState) (d : Decls) (D : Name → Prop),
    (∀ i ∈ I, Limit.NameOK i) → Sup D st.c →
    ∀ s', (I.map (fun i => Item.input [i])).foldlM (doItem bbs ord') (st, d) = .ok s' →
      Sup (fun x => D x ∨ x ∈ I) s'.1.c
  | [], st, d, D, _, h, s', hs' => by
    simp only [List.map_nil, List.foldlM_nil] at hs'
    injection hs' with hs'
    rw [← hs']
    exact h.mono (fun x hx => Or.inl hx)
  | i :: I, st, d, D, hI, h, s', hs' => by
    obtain ⟨t', e, spec, _, _⟩ := VR.add_ok' st.c i "input" [] (hI i (by simp)) (by decide) (by decide)
      (fun h => absurd h (by decide)) (fun _ => rfl) (fun u hu => nomatch hu)
    have e1 : doItem bbs ord' (st, d) (Item.input [i]) =
        .ok ({ st with c := t' }, { d with inputs := d.inputs ++ [i] }) := by
      show [i].foldlM (fun st n => addNode st n "input" [] false >>= fun r => pure r.1) st >>= _ = _
      rw [VR.foldlM_single, VR.addNode_ok e]
      rfl
    rw [List.map_cons, List.foldlM_cons, e1, Arith.bind_ok] at hs'
    have h1 : Sup (fun x => D x ∨ x = i) t' := sup_add spec (h.mono (fun x hx => Or.inl hx)) (Or.inl (Or.inr rfl))
    have := iphase_sup I { st with c := t' } _ _ (fun j hj => hI j (by simp [hj])) h1 s' hs'
    exact this.mono (by
      rintro x ((hx | hx) | hx)
      · exact Or.inl hx
      · exact Or.inr (by simp [hx])
      · exact Or.inr (by simp [hx]))

/-! ### one instance statement -/

theorem loadLoop_sup {c : Circuit} (hc : VR.Wr c) {q : Name × BBox} (hq : q ∈ c.bbs) {cs : List (Name × Name)}
    (hcs : VR.CS c q cs) {D : Name → Prop} :
    ∀ (os : List Name), (∀ o ∈ os, o ∈ q.2.outs) → ∀ st : TState, Sup D st.c →
    ∀ st', os.foldlM (VR.loadStep cs) st = .ok st' → Sup D st'.c
  | [], _, st, h, st', hs' => by
    simp only [List.foldlM_nil] at hs'
    injection hs' with hs'
    rw [← hs']; exact h
  | o :: os, ho, st, h, st', hs' => by
    rw [List.foldlM_cons] at hs'
    unfold VR.loadStep at hs'
    cases hl : cs.lookup o with
    | none =>
      rw [hl] at hs'
      simp only [] at hs'
      rw [pure_bind] at hs'
      exact loadLoop_sup hc hq hcs os (fun x hx => ho x (by simp [hx])) st h st' hs'
    | some net =>
      rw [hl] at hs'
      simp only [] at hs'
      have hm : (o, net) ∈ cs := lookup_mem hl
      obtain ⟨_, _, hn, hnp⟩ := VR.out_net hc hq hcs hm (ho o (by simp))
      obtain ⟨t', e, spec, _, _⟩ := VR.add_ok' st.c net "buf" [] (hc.pname' hn hnp).nameOK (by decide) (by decide)
        (fun _ => ⟨by simp, fun h => absurd rfl h⟩) (fun _ => rfl) (fun u hu => nomatch hu)
      rw [VR.addNode_ok e, Arith.bind_ok, pure_bind] at hs'
      exact loadLoop_sup hc hq hcs os (fun x hx => ho x (by simp [hx])) { st with c := t' }
        (sup_add spec h (Or.inr rfl)) st' hs'

theorem netLoop_sup {c : Circuit} (hc : VR.Wr c) {q : Name × BBox} (hq : q ∈ c.bbs) {cs : List (Name × Name)}
    (hcs : VR.CS c q cs) {D : Name → Prop} :
    ∀ (l : List (Name × Name)), (∀ p ∈ l, p ∈ cs) → ∀ c0 : Circuit, Sup D c0 →
    ∀ c1, l.foldlM VR.netStep c0 = .ok c1 → Sup D c1
  | [], _, c0, h, c1, hs' => by
    simp only [List.foldlM_nil] at hs'
    injection hs' with hs'
    rw [← hs']; exact h
  | p :: l, hl, c0, h, c1, hs' => by
    rw [List.foldlM_cons] at hs'
    unfold VR.netStep at hs'
    obtain ⟨hn, hnp⟩ := VR.net_ok hc hq hcs (hl p (by simp))
    by_cases hh : c0.has p.2 = true
    · rw [if_pos hh, pure_bind] at hs'
      exact netLoop_sup hc hq hcs l (fun x hx => hl x (by simp [hx])) c0 h c1 hs'
    · rw [if_neg hh] at hs'
      have hf : c0.has p.2 = false := by simpa using hh
      rw [VR.addC_plain hf (hc.pname' hn hnp).nameOK (by decide), Arith.bind_ok] at hs'
      exact netLoop_sup hc hq hcs l (fun x hx => hl x (by simp [hx])) _ (sup_addNodeAttr h hf) c1 hs'

/-! ### `add_blackbox` only appends the pin nodes -/

theorem go_nodes (bb : BBox) (inst : Name) : ∀ (conns : List (Name × List Name)) (c c' : Circuit),
    addBlackbox.go bb inst c conns = (c', .ok) → c'.nodes = c.nodes
  | [], c, c', h => by
    rw [addBlackbox.go] at h
    injection h with h _
    rw [h]
  | (p, ns) :: rest, c, c', h => by
    rw [addBlackbox.go] at h
    split at h
    · generalize hcn : c.connect ns [inst ++ "." ++ p] = r at h
      obtain ⟨c1, o⟩ := r
      cases o <;> simp only [] at h <;> try (exact Outcome.noConfusion (Prod.mk.inj h).2)
      have := connect_nodes c ns [inst ++ "." ++ p]
      rw [hcn] at this
      rw [go_nodes bb inst rest c1 c' h, this]
    · split at h
      · generalize hcn : c.connect [inst ++ "." ++ p] ns = r at h
        obtain ⟨c1, o⟩ := r
        cases o <;> simp only [] at h <;> try (exact Outcome.noConfusion (Prod.mk.inj h).2)
        have := connect_nodes c [inst ++ "." ++ p] ns
        rw [hcn] at this
        rw [go_nodes bb inst rest c1 c' h, this]
      · exact Outcome.noConfusion (Prod.mk.inj h).2

theorem addBlackbox_nodes {c c' : Circuit} {bb : BBox} {inst : Name} {conns : List (Name × List Name)} {ord : Ord}
    (h : c.addBlackbox bb inst conns ord = (c', .ok)) :
    c'.nodes = c.nodes ++ (ord bb.ins).map (fun p => (inst ++ "." ++ p, InsReg.pinA "bb_input")) ++
      (ord bb.outs).map (fun p => (inst ++ "." ++ p, InsReg.pinA "bb_output")) := by
  unfold addBlackbox at h
  by_cases hl : (c.bbs.lookup inst).isSome = true
  · rw [if_pos hl] at h
    exact Outcome.noConfusion (Prod.mk.inj h).2
  rw [if_neg hl] at h
  generalize hp1 : addBlackbox.pins inst c "bb_input" (ord bb.ins) = r1 at h
  obtain ⟨c1, o1⟩ := r1
  cases o1 <;> simp only [] at h <;> try (exact Outcome.noConfusion (Prod.mk.inj h).2)
  generalize hp2 : addBlackbox.pins inst c1 "bb_output" (ord bb.outs) = r2 at h
  obtain ⟨c2, o2⟩ := r2
  cases o2 <;> simp only [] at h <;> try (exact Outcome.noConfusion (Prod.mk.inj h).2)
  obtain ⟨a1, _⟩ := InsReg.pins_inv inst "bb_input" _ c c1 hp1
  obtain ⟨b1, _⟩ := InsReg.pins_inv inst "bb_output" _ c1 c2 hp2
  rw [go_nodes bb inst conns _ c' h, setBB_nodes, b1, a1]

theorem sup_addBlackbox {D : Name → Prop} {c c' : Circuit} {bb : BBox} {inst : Name} {conns : List (Name × List Name)}
    {ord : Ord} (hord : OrdOK ord) (h : c.addBlackbox bb inst conns ord = (c', .ok)) (hs : Sup D c) :
    Sup (fun x => D x ∨ ∃ g ∈ bb.ins ++ bb.outs, x = inst ++ "." ++ g) c' := by
  intro x a ha hx ht
  have hn := addBlackbox_nodes h
  unfold Circuit.attr? at ha
  rw [hn, List.append_assoc, List.lookup_append] at ha
  cases hc : c.attr? x with
  | some b =>
    have hc' : List.lookup x c.nodes = some b := hc
    rw [hc'] at ha
    simp only [Option.some_or] at ha
    injection ha with ha
    subst ha
    exact hs x b hc (fun h' => hx (Or.inl h')) ht
  | none =>
    exfalso
    have hc' : List.lookup x c.nodes = none := hc
    rw [hc'] at ha
    simp only [Option.none_or] at ha
    have hm := lookup_mem ha
    rw [List.mem_append, List.mem_map, List.mem_map] at hm
    rcases hm with ⟨p, hp, e⟩ | ⟨p, hp, e⟩
    · injection e with e _
      exact hx (Or.inr ⟨p, List.mem_append_left _ ((hord _).mem_iff.1 hp), e.symm⟩)
    · injection e with e _
      exact hx (Or.inr ⟨p, List.mem_append_right _ ((hord _).mem_iff.1 hp), e.symm⟩)

/-- the supplement is kept by one instance statement -/
theorem bstep_sup {c : Circuit} (hc : VR.Wr c) {ord' : Ord} (hord' : OrdOK ord') {st : TState} {d : Decls}
    {D : Name → Prop} {q : Name × BBox} (hq : q ∈ c.bbs) {it : Item} (hs : VR.BBSpec c q it) (hsup : Sup D st.c) :
    ∀ s', doItem (c.bbs.map (·.2)) ord' (st, d) it = .ok s' →
      Sup (fun x => D x ∨ ∃ g ∈ q.2.ins ++ q.2.outs, x = q.1 ++ "." ++ g) s'.1.c := by
  intro s' hs'
  obtain ⟨ps, rfl, hperm, hconn⟩ := hs
  obtain ⟨hsimple, hcs⟩ := VR.cs_of_spec hc hq hperm hconn
  obtain ⟨_, _, _, _, hnp, _⟩ := hc.pinsPresent q hq
  have hprim : T.primitive.contains q.2.name = false := by
    rw [VR.T_primitive]
    cases hh : Expected.primitive_gates.contains q.2.name with
    | false => rfl
    | true => exact absurd (List.contains_iff_mem.1 hh) hnp
  have hfind := VR.find_bb c.bbs q hq (fun r hr e => (hc.bbTypes q hq r hr e.symm).symm)
  have e0 : doItem (c.bbs.map (·.2)) ord' (st, d) (Item.inst q.2.name [(q.1, Conns.named ps)]) =
      VR.bbTail ord' q (VR.conns0 ps) st >>= fun st => pure (st, d) := by
    show [(q.1, Conns.named ps)].foldlM (doInstance (c.bbs.map (·.2)) ord' q.2.name) st >>= _ = _
    rw [VR.foldlM_single, VR.doInstance_bb st q ps hprim hsimple hcs.keys hfind]
  rw [e0] at hs'
  obtain ⟨st2, h2, hs'⟩ := bind_ok_inv hs'
  injection hs' with hs'
  rw [← hs']
  unfold VR.bbTail at h2
  obtain ⟨st1, e1, h2⟩ := bind_ok_inv h2
  obtain ⟨c1, e2, h2⟩ := bind_ok_inv h2
  obtain ⟨c2, e3, h2⟩ := bind_ok_inv h2
  injection h2 with h2
  rw [← h2]
  have s1 := loadLoop_sup hc hq hcs (ord' q.2.outs) (fun o ho => (hord' _).mem_iff.1 ho) st hsup st1 e1
  have s2 := netLoop_sup hc hq hcs (VR.conns0 ps) (fun _ hp => hp) st1.c s1 c1 e2
  have e3' : c1.addBlackbox q.2 q.1 ((VR.conns0 ps).map (fun p => (p.1, if p.2.isEmpty then [] else [p.2]))) ord' =
      (c2, .ok) := by
    generalize c1.addBlackbox q.2 q.1 ((VR.conns0 ps).map (fun p => (p.1, if p.2.isEmpty then [] else [p.2]))) ord' = r
      at e3
    obtain ⟨c2', o⟩ := r
    cases o <;> first | (injection e3 with e3; rw [e3]) | cases e3
  exact sup_addBlackbox hord' e3' s2

/-- the supplement is kept by the instance statements -/
theorem bphase_sup {c : Circuit} (hc : VR.Wr c) {ord' : Ord} (hord' : OrdOK ord') :
    ∀ (Q : List (Name × BBox)) (bi : List Item), VR.All2 (VR.BBSpec c) Q bi → (∀ q ∈ Q, q ∈ c.bbs) →
    ∀ (st : TState) (d : Decls) (D : Name → Prop), Sup D st.c →
    ∀ s', bi.foldlM (doItem (c.bbs.map (·.2)) ord') (st, d) = .ok s' → Sup (fun x => D x ∨ VR.pinOf Q x) s'.1.c := by
  intro Q bi hall
  induction hall with
  | nil =>
    intro _ st d D h s' hs'
    simp only [List.foldlM_nil] at hs'
    injection hs' with hs'
    rw [← hs']
    exact h.mono (fun x hx => Or.inl hx)
  | @cons q it Q' m hs _ ih =>
    intro hQ st d D h s' hs'
    rw [List.foldlM_cons] at hs'
    obtain ⟨s1, e1, hs'⟩ := bind_ok_inv hs'
    have h1 := bstep_sup hc hord' (d := d) (hQ q (by simp)) hs h s1 e1
    have := ih (fun r hr => hQ r (by simp [hr])) s1.1 s1.2 _ h1 s' hs'
    refine this.mono ?_
    rintro x ((hx | ⟨g, hg, hx⟩) | ⟨r, hr, hx⟩)
    · exact Or.inl hx
    · exact Or.inr ⟨q, by simp, g, hg, hx⟩
    · exact Or.inr ⟨r, by simp [hr], hx⟩

end VBB
end CG
