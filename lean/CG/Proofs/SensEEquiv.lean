/- helper lemmas for C11 (selected endpoints): circuits with the same typed nodes and the same edge set have the same
   consistent valuations, the same inputs and the same lint status -/
import CG.Proofs.Sens
set_option linter.unusedSimpArgs false
set_option linter.unusedVariables false
namespace CG
namespace SensE
open Circuit Miter Q Query

/-- `c'` has the same typed nodes and the same edge set as `c` (orders and output marks may differ) -/
structure CEq (c c' : Circuit) : Prop where
  names : c'.nodeNames.Perm c.nodeNames
  ty : ∀ x, c'.ty? x = c.ty? x
  edges : c'.edges.Perm c.edges

section ceq
variable {c c' : Circuit}

theorem CEq.has (h : CEq c c') (x : Name) : c'.has x = c.has x := by
  cases h1 : c.has x with
  | true =>
    rw [has_iff_mem] at h1 ⊢
    exact h.names.mem_iff.2 h1
  | false =>
    cases h2 : c'.has x with
    | false => rfl
    | true =>
      rw [has_iff_mem] at h2
      rw [(has_iff_mem c x).2 (h.names.mem_iff.1 h2)] at h1
      cases h1

theorem CEq.fanin (h : CEq c c') (x : Name) : (c'.fanin x).Perm (c.fanin x) := by
  unfold Circuit.fanin
  exact (h.edges.filter _).map _

theorem CEq.fanout (h : CEq c c') (x : Name) : (c'.fanout x).Perm (c.fanout x) := by
  unfold Circuit.fanout
  exact (h.edges.filter _).map _

theorem CEq.mem_edges (h : CEq c c') (e : Name × Name) : e ∈ c'.edges ↔ e ∈ c.edges := h.edges.mem_iff

theorem CEq.wf (h : CEq c c') (w : WF c) : WF c' := by
  refine ⟨h.names.nodup_iff.2 w.nodup, h.edges.nodup_iff.2 w.edgesNodup, ?_⟩
  intro e he
  have := w.closed e ((h.mem_edges e).1 he)
  rw [h.has, h.has]
  exact this

theorem CEq.nodeOK (h : CEq c c') (v : Val) (x : Name) (t : String) : NodeOK c' v x t ↔ NodeOK c v x t := by
  unfold NodeOK
  rw [Tseitin.gateFn_perm t ((h.fanin x).map v)]

/-- statements about all typed nodes, via `ty?` -/
theorem forall_nodes_iff (hnd : c.nodeNames.Nodup) (P : Name → String → Prop) :
    (∀ p ∈ c.nodes, ∀ t, p.2.ty = some t → P p.1 t) ↔ (∀ x t, c.ty? x = some t → P x t) := by
  constructor
  · intro hp x t ht
    obtain ⟨p, hp', rfl, hpt⟩ := Tseitin.mem_of_ty c x t ht
    exact hp p hp' t hpt
  · intro hx p hp t ht
    exact hx p.1 t (ty?_of_mem hnd hp ht)

theorem CEq.forall_nodes (h : CEq c c') (w : WF c) (P : Name → String → Prop) :
    (∀ p ∈ c'.nodes, ∀ t, p.2.ty = some t → P p.1 t) ↔ (∀ p ∈ c.nodes, ∀ t, p.2.ty = some t → P p.1 t) := by
  rw [forall_nodes_iff (h.wf w).nodup, forall_nodes_iff w.nodup]
  simp only [h.ty]

theorem CEq.consistent (h : CEq c c') (w : WF c) (v : Val) : Consistent c' v ↔ Consistent c v := by
  unfold Consistent
  rw [h.forall_nodes w (fun x t => NodeOK c' v x t)]
  constructor
  · intro hh p hp t ht
    exact (h.nodeOK v p.1 t).1 (hh p hp t ht)
  · intro hh p hp t ht
    exact (h.nodeOK v p.1 t).2 (hh p hp t ht)

/-- every equation except that of `n` -/
theorem CEq.except (h : CEq c c') (w : WF c) (n : Name) (v : Val) :
    (∀ p ∈ c'.nodes, p.1 ≠ n → ∀ t, p.2.ty = some t → NodeOK c' v p.1 t) ↔
      (∀ p ∈ c.nodes, p.1 ≠ n → ∀ t, p.2.ty = some t → NodeOK c v p.1 t) := by
  have := h.forall_nodes w (fun x t => x ≠ n → NodeOK c' v x t)
  constructor
  · intro hh p hp hne t ht
    exact (h.nodeOK v p.1 t).1 (this.1 (fun q hq t ht hne => hh q hq hne t ht) p hp t ht hne)
  · intro hh p hp hne t ht
    exact this.2 (fun q hq t ht hne => (h.nodeOK v q.1 t).2 (hh q hq hne t ht)) p hp t ht hne

theorem CEq.inputs (h : CEq c c') (w : WF c) (x : Name) : x ∈ c'.inputs ↔ x ∈ c.inputs := by
  rw [CG.mem_inputs (h.wf w).nodup, CG.mem_inputs w.nodup, h.ty]

theorem CEq.mem_nodes_ty (h : CEq c c') (w : WF c) {p : Name × Attr} (hp : p ∈ c'.nodes) :
    ∃ q ∈ c.nodes, q.1 = p.1 ∧ q.2.ty = p.2.ty := by
  have hh : c.has p.1 = true := by rw [← h.has]; exact has_of_mem hp
  obtain ⟨a, ha⟩ := has_exists hh
  refine ⟨(p.1, a), ha, rfl, ?_⟩
  have e1 : c'.ty? p.1 = p.2.ty := by
    unfold Circuit.ty?
    rw [attr?_of_mem (h.wf w).nodup hp]
    rfl
  have e2 : c.ty? p.1 = a.ty := by
    unfold Circuit.ty?
    rw [attr?_of_mem w.nodup ha]
    rfl
  show a.ty = p.2.ty
  rw [← e1, ← e2, h.ty]

theorem CEq.lint (h : CEq c c') (hc : LintClean c) : LintClean c' := by
  have w := hc.toWF
  refine { toWF := h.wf w, typed := ?_, noFanin := ?_, single := ?_, multi := ?_, bbOut := ?_, noBBInFanout := ?_ }
  · intro p hp
    obtain ⟨q, hq, _, e⟩ := h.mem_nodes_ty w hp
    rw [← e]
    exact hc.typed q hq
  · intro y t ht hs
    rw [h.ty] at ht
    have := hc.noFanin y t ht hs
    have hp := h.fanin y
    rw [this] at hp
    exact hp.eq_nil
  · intro y t ht hs
    rw [h.ty] at ht
    rw [(h.fanin y).length_eq]
    exact hc.single y t ht hs
  · intro y t ht hs
    rw [h.ty] at ht
    rw [(h.fanin y).length_eq]
    exact hc.multi y t ht hs
  · intro e he hty
    rw [h.ty] at hty ⊢
    rw [(h.fanout e.1).length_eq]
    exact hc.bbOut e ((h.mem_edges e).1 he) hty
  · intro e he
    rw [h.ty]
    exact hc.noBBInFanout e ((h.mem_edges e).1 he)

theorem CEq.nox (h : CEq c c') (w : WF c) (hx : ∀ p ∈ c.nodes, p.2.ty ≠ some "x") :
    ∀ p ∈ c'.nodes, p.2.ty ≠ some "x" := by
  intro p hp
  obtain ⟨q, hq, _, e⟩ := h.mem_nodes_ty w hp
  rw [← e]
  exact hx q hq

end ceq

end SensE
end CG
