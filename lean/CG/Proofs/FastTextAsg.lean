/- C14 (character level, fast parser) helper: the `assign` pattern on the lines of a module text and the named-connection
   pattern on the connection list of one instance -/
import CG.Proofs.FastTextDefs
import CG.Proofs.BenchTextSpecGate
import CG.Proofs.VModTextMatch
set_option linter.unusedSimpArgs false
set_option linter.unusedVariables false
namespace CG
namespace FT
open Regex BenchText

/-! ### characters -/

theorem idQ_mem_a (x : Char) : idQ.mem x = true ↔
    ((97 ≤ x.toNat ∧ x.toNat ≤ 122) ∨ (65 ≤ x.toNat ∧ x.toNat ≤ 90) ∨ (48 ≤ x.toNat ∧ x.toNat ≤ 57) ∨ x.toNat = 95 ∨
      x.toNat = 39) := by
  simp only [CSet.mem, idQ, List.any_cons, List.any_nil, Bool.or_false, Bool.false_eq_true, if_false,
    Bool.or_eq_true, Bool.and_eq_true, decide_eq_true_eq, le_iff, Char.reduceToNat]
  omega

theorem nwsl_mem (x : Char) : nwsl.mem x = true ↔ (¬ wsS.mem x = true ∧ x.toNat ≠ 40) := by
  rw [wsS_mem]
  simp only [CSet.mem, nwsl, wsRanges, List.cons_append, List.nil_append, List.any_cons, List.any_nil, Bool.or_false,
    if_true, Bool.not_eq_true', Bool.or_eq_false_iff, Bool.and_eq_false_iff,
    decide_eq_false_iff_not, le_iff, Char.reduceToNat]
  omega

theorem nwsr_mem (x : Char) : nwsr.mem x = true ↔ (¬ wsS.mem x = true ∧ x.toNat ≠ 41) := by
  rw [wsS_mem]
  simp only [CSet.mem, nwsr, wsRanges, List.cons_append, List.nil_append, List.any_cons, List.any_nil, Bool.or_false,
    if_true, Bool.not_eq_true', Bool.or_eq_false_iff, Bool.and_eq_false_iff,
    decide_eq_false_iff_not, le_iff, Char.reduceToNat]
  omega

theorem idQ_of_idC_a {x : Char} (h : idC.mem x = true) : idQ.mem x = true := by
  rw [idC_mem] at h; rw [idQ_mem_a]; omega
theorem idQ_ne {x : Char} (h : idQ.mem x = true) :
    x ≠ '(' ∧ x ≠ ')' ∧ x ≠ '=' ∧ x ≠ ' ' ∧ x ≠ ',' ∧ x ≠ '\n' ∧ x ≠ ';' ∧ x ≠ '.' := by
  rw [idQ_mem_a] at h
  simp only [ne_eq, eq_iff, Char.reduceToNat]
  omega
theorem not_ws_of_idQ {x : Char} (h : idQ.mem x = true) : ¬ wsS.mem x = true := by
  rw [idQ_mem_a] at h; rw [wsS_mem]; omega
theorem ws_ne' {x : Char} (h : wsS.mem x = true) : x ≠ ';' ∧ x ≠ '=' ∧ x ≠ '(' ∧ x ≠ ')' ∧ x ≠ '.' ∧ x ≠ 'a' := by
  rw [wsS_mem] at h
  simp only [ne_eq, eq_iff, Char.reduceToNat]
  omega
theorem nwsl_of_idQ {x : Char} (h : idQ.mem x = true) : nwsl.mem x = true := by
  rw [nwsl_mem, wsS_mem]; rw [idQ_mem_a] at h; omega
theorem nwsr_of_idQ {x : Char} (h : idQ.mem x = true) : nwsr.mem x = true := by
  rw [nwsr_mem, wsS_mem]; rw [idQ_mem_a] at h; omega
theorem not_ws_of_nwsl {x : Char} (h : nwsl.mem x = true) : ¬ wsS.mem x = true := ((nwsl_mem x).mp h).1
theorem not_ws_of_nwsr {x : Char} (h : nwsr.mem x = true) : ¬ wsS.mem x = true := ((nwsr_mem x).mp h).1
theorem nwsl_ne {x : Char} (h : nwsl.mem x = true) : x ≠ '(' := by
  intro e; rw [e] at h; exact absurd h (by decide)
theorem nwsr_ne {x : Char} (h : nwsr.mem x = true) : x ≠ ')' := by
  intro e; rw [e] at h; exact absurd h (by decide)

/-! ### list alignment at the end of a maximal run -/

theorem run_align {P : Char → Prop} : ∀ {a a' b b' : List Char}, a ++ b = a' ++ b' → (∀ x ∈ a, P x) → (∀ x ∈ a', P x) →
    (∀ x r, b = x :: r → ¬ P x) → (∀ x r, b' = x :: r → ¬ P x) → a = a' ∧ b = b'
  | [], [], b, b', h, _, _, _, _ => ⟨rfl, h⟩
  | [], y :: a', b, b', h, _, ha', hb, _ => by
    simp only [List.nil_append, List.cons_append] at h
    exact absurd (ha' y (by simp)) (hb y _ h)
  | x :: a, [], b, b', h, ha, _, _, hb' => by
    simp only [List.nil_append, List.cons_append] at h
    exact absurd (ha x (by simp)) (hb' x _ h.symm)
  | x :: a, y :: a', b, b', h, ha, ha', hb, hb' => by
    simp only [List.cons_append, List.cons.injEq] at h
    obtain ⟨h1, h2⟩ := run_align h.2 (fun z hz => ha z (by simp [hz])) (fun z hz => ha' z (by simp [hz])) hb hb'
    exact ⟨by rw [h.1, h1], h2⟩

theorem head_not {P : Char → Prop} {w t : List Char} {c : Char} (hw : ∀ x ∈ w, ¬ P x) (hc : ¬ P c) :
    ∀ x r, w ++ c :: t = x :: r → ¬ P x := by
  intro x r e
  cases w with
  | nil =>
    simp only [List.nil_append, List.cons.injEq] at e
    rw [← e.1]; exact hc
  | cons y w =>
    simp only [List.cons_append, List.cons.injEq] at e
    rw [← e.1]; exact hw y (by simp)

theorem head_not' {P : Char → Prop} {t : List Char} {c : Char} (hc : ¬ P c) : ∀ x r, c :: t = x :: r → ¬ P x := by
  intro x r e
  simp only [List.cons.injEq] at e
  rw [← e.1]; exact hc

theorem grp2_a (ctx : Ctx) (a1 b1 a2 b2 : Nat) :
    grp ctx 2 [(2, a2, b2), (1, a1, b1)] = [slice ctx.s a1 b1, slice ctx.s a2 b2] := by
  simp [grp, capOf, List.range, List.range.loop, List.find?]

variable (ctx : Ctx)

theorem den_set (S : CSet) (s : List Char) (c : Caps) (s' : List Char) (c' : Caps) :
    Den ctx (.set S) s c s' c' ↔ ∃ x, s = x :: s' ∧ S.mem x = true ∧ c' = c := Iff.rfl

/-! ### Task A: `assign\s+(ident)\s*=\s*([a-zA-Z\d_][a-zA-Z\d_']*)\s*;` -/

theorem need_rxAsg (s : Array Char) : need s.size rxAsg ≤ fuelFor s := by
  unfold rxAsg
  rw [VMT.need_litThen]
  simp only [need, ws, ws1, ident, ch, kAssign, fuelFor, List.length_cons, List.length_nil]
  omega

/-- words matched by the `assign` pattern -/
theorem den_rxAsg (s s' : List Char) (c' : Caps) :
    Den ctx rxAsg s [] s' c' ↔
      ∃ a w1 x idr w2 w3 y q w4, wsS.mem a = true ∧ AllWs w1 ∧ idS.mem x = true ∧ AllIdC idr ∧ AllWs w2 ∧ AllWs w3 ∧
        idC.mem y = true ∧ (∀ z ∈ q, idQ.mem z = true) ∧ AllWs w4 ∧
        s = kAssign ++ a :: (w1 ++ x :: (idr ++ (w2 ++ '=' :: (w3 ++ y :: (q ++ (w4 ++ ';' :: s')))))) ∧
        c' = [(2, ctx.s.size - (y :: (q ++ (w4 ++ ';' :: s'))).length, ctx.s.size - (w4 ++ ';' :: s').length),
              (1, ctx.s.size - (x :: (idr ++ (w2 ++ '=' :: (w3 ++ y :: (q ++ (w4 ++ ';' :: s')))))).length,
                  ctx.s.size - (w2 ++ '=' :: (w3 ++ y :: (q ++ (w4 ++ ';' :: s')))).length)] := by
  unfold rxAsg ws1
  simp only [VMT.den_litThen, den_seq, den_group, den_ws, den_ch, den_ident, den_plus_set, den_star_set, den_set]
  constructor
  · rintro ⟨s1, rfl, s2, c2, ⟨a, w1, rfl, ha, hw1, rfl⟩, s3, c3, ⟨c1, ⟨x, idr, rfl, hx, hidr, rfl⟩, rfl⟩, s4, c4,
      ⟨w2, rfl, hw2, rfl⟩, s5, c5, ⟨rfl, rfl⟩, s6, c6, ⟨w3, rfl, hw3, rfl⟩, s7, c7,
      ⟨c8, ⟨s8, c9, ⟨y, rfl, hy, rfl⟩, q, rfl, hq, rfl⟩, rfl⟩, s9, c10, ⟨w4, rfl, hw4, rfl⟩, rfl, rfl⟩
    exact ⟨a, w1, x, idr, w2, w3, y, q, w4, ha, hw1, hx, hidr, hw2, hw3, hy, hq, hw4, rfl, rfl⟩
  · rintro ⟨a, w1, x, idr, w2, w3, y, q, w4, ha, hw1, hx, hidr, hw2, hw3, hy, hq, hw4, rfl, rfl⟩
    exact ⟨_, rfl, _, _, ⟨a, w1, rfl, ha, hw1, rfl⟩, _, _, ⟨_, ⟨x, idr, rfl, hx, hidr, rfl⟩, rfl⟩, _, _,
      ⟨w2, rfl, hw2, rfl⟩, _, _, ⟨rfl, rfl⟩, _, _, ⟨w3, rfl, hw3, rfl⟩, _, _,
      ⟨_, ⟨_, _, ⟨y, rfl, hy, rfl⟩, q, rfl, hq, rfl⟩, rfl⟩, _, _, ⟨w4, rfl, hw4, rfl⟩, rfl, rfl⟩

theorem asg_first {c : Char} {r s' : List Char} {c' : Caps} (h : Den ctx rxAsg (c :: r) [] s' c') : c = 'a' := by
  rw [den_rxAsg] at h
  obtain ⟨a, w1, x, idr, w2, w3, y, q, w4, _, _, _, _, _, _, _, _, _, e, _⟩ := h
  simp only [kAssign, List.cons_append, List.cons.injEq] at e
  exact e.1

theorem asg_nil {s' : List Char} {c' : Caps} : ¬ Den ctx rxAsg [] [] s' c' := by
  rw [den_rxAsg]
  rintro ⟨a, w1, x, idr, w2, w3, y, q, w4, _, _, _, _, _, _, _, _, _, e, _⟩
  simp [kAssign] at e

/-- a match contains an `=` before its first `;` -/
theorem asg_shape {s s' : List Char} {c' : Caps} (h : Den ctx rxAsg s [] s' c') :
    ∃ pre post, s = pre ++ '=' :: post ∧ ';' ∉ pre ∧ ';' ∈ post := by
  rw [den_rxAsg] at h
  obtain ⟨a, w1, x, idr, w2, w3, y, q, w4, ha, hw1, hx, hidr, hw2, hw3, hy, hq, hw4, e, _⟩ := h
  refine ⟨kAssign ++ a :: (w1 ++ x :: (idr ++ w2)), w3 ++ y :: (q ++ (w4 ++ ';' :: s')), ?_, ?_, by simp⟩
  · rw [e]; simp only [List.cons_append, List.append_assoc]
  · intro hm
    simp only [List.mem_append, List.mem_cons] at hm
    rcases hm with hm | hm | hm | hm | hm | hm
    · exact absurd hm (by decide)
    · rw [← hm] at ha; exact absurd ha (by decide)
    · exact (ws_ne' (hw1 _ hm)).1 rfl
    · rw [← hm] at hx; exact absurd hx (by decide)
    · have := hidr _ hm; exact absurd this (by decide)
    · exact (ws_ne' (hw2 _ hm)).1 rfl

/-- no match on a text whose part before the first `;` contains no `=` -/
theorem asg_noeq {a b s' : List Char} {c' : Caps} (ha : '=' ∉ a) : ¬ Den ctx rxAsg (a ++ ';' :: b) [] s' c' := by
  intro h
  obtain ⟨pre, post, e, hpre, _⟩ := asg_shape ctx h
  obtain ⟨_, e1, _⟩ := split_first e hpre ha
  exact absurd e1 (by decide)

/-- a line `BODY;\n` whose body contains no `=` -/
theorem asg_miss_line {body : List Char} (hb : '=' ∉ body) : PieceOK ctx rxAsg 2 ⟨[], body ++ [';', '\n'], none⟩ := by
  apply pieceOK_miss
  intro u t rest s' c' hu ht h
  rcases suf_append hu with ⟨X', ⟨u', hX⟩, e⟩ | ⟨u', e⟩
  · rw [e] at h
    simp only [List.append_assoc, List.cons_append, List.nil_append] at h
    exact asg_noeq ctx (fun hm => hb (mem_of_suf hX hm)) h
  · rcases suf_cons e with e | ⟨u'', e⟩
    · rw [e] at h
      exact asg_noeq ctx (a := []) (by simp) h
    · rcases suf_cons e with e | ⟨u3, e⟩
      · rw [e] at h
        exact absurd (asg_first ctx h) (by decide)
      · simp only [List.append_eq_nil_iff] at e
        exact ht e.2

theorem asg_nl : PieceOK ctx rxAsg 2 ⟨[], ['\n'], none⟩ := by
  apply pieceOK_miss
  intro u t rest s' c' hu ht h
  rcases suf_cons hu with e | ⟨u', e⟩
  · rw [e] at h
    exact absurd (asg_first ctx h) (by decide)
  · simp only [List.append_eq_nil_iff] at e
    exact ht e.2

/-- the captures of an `assign` line -/
def asgCaps (l r rest : List Char) : Caps :=
  [(2, ctx.s.size - (r ++ ';' :: rest).length, ctx.s.size - (';' :: rest).length),
   (1, ctx.s.size - (l ++ ' ' :: '=' :: ' ' :: (r ++ ';' :: rest)).length,
       ctx.s.size - (' ' :: '=' :: ' ' :: (r ++ ';' :: rest)).length)]

theorem asg_success {l r rest : List Char} (hl : IdentL l) (hr : RhsL r) :
    Den ctx rxAsg (kAssign ++ ' ' :: (l ++ ' ' :: '=' :: ' ' :: (r ++ ';' :: rest))) [] rest (asgCaps ctx l r rest) := by
  obtain ⟨x, idr, rfl, hx, hidr⟩ := hl
  obtain ⟨y, q, rfl, hy, hq⟩ := hr
  rw [den_rxAsg]
  have hsp : AllWs [' '] := by intro z hz; rw [List.mem_singleton.mp hz]; exact ws_space
  exact ⟨' ', [], x, idr, [' '], [' '], y, q, [], ws_space, by simp [AllWs], hx, hidr, hsp, hsp, hy, hq, by simp [AllWs],
    by simp, by simp [asgCaps]⟩

theorem asg_unique {l r rest s' : List Char} {c' : Caps} (hl : IdentL l) (hr : RhsL r)
    (h : Den ctx rxAsg (kAssign ++ ' ' :: (l ++ ' ' :: '=' :: ' ' :: (r ++ ';' :: rest))) [] s' c') :
    s' = rest ∧ c' = asgCaps ctx l r rest := by
  obtain ⟨x0, r0, rfl, hx0, hr0⟩ := hl
  obtain ⟨y0, q0, rfl, hy0, hq0⟩ := hr
  rw [den_rxAsg] at h
  obtain ⟨a, w1, x, idr, w2, w3, y, q, w4, ha, hw1, hx, hidr, hw2, hw3, hy, hq, hw4, e, hc⟩ := h
  have e0 := List.append_cancel_left e
  simp only [List.cons.injEq] at e0
  obtain ⟨ea, e1⟩ := e0
  -- `w1` is empty
  have E1 : ([] : List Char) ++ (x0 :: r0 ++ ' ' :: '=' :: ' ' :: (y0 :: q0 ++ ';' :: rest)) =
      w1 ++ x :: (idr ++ (w2 ++ '=' :: (w3 ++ y :: (q ++ (w4 ++ ';' :: s'))))) := e1
  obtain ⟨hw1e, E2⟩ := run_align (P := fun z => wsS.mem z = true) E1 (by simp) hw1
    (head_not' (fun hh => not_idS_of_ws hh hx0)) (head_not' (fun hh => not_idS_of_ws hh hx))
  simp only [List.cons_append, List.cons.injEq] at E2
  obtain ⟨ex, E2⟩ := E2
  -- the name
  obtain ⟨hidre, E3⟩ := run_align (P := fun z => idC.mem z = true) E2 hr0 hidr
    (head_not' (by decide)) (head_not (fun z hz hh => not_ws_of_idC hh (hw2 z hz)) (by decide))
  -- blank, `=`
  have E3' : [' '] ++ ('=' :: ' ' :: (y0 :: (q0 ++ ';' :: rest))) = w2 ++ '=' :: (w3 ++ y :: (q ++ (w4 ++ ';' :: s'))) := E3
  obtain ⟨hw2e, E4⟩ := run_align (P := fun z => wsS.mem z = true) E3'
    (by intro z hz; rw [List.mem_singleton.mp hz]; exact ws_space) hw2 (head_not' (by decide)) (head_not' (by decide))
  simp only [List.cons.injEq, true_and] at E4
  -- blank, right-hand side
  have E4' : [' '] ++ (y0 :: (q0 ++ ';' :: rest)) = w3 ++ y :: (q ++ (w4 ++ ';' :: s')) := E4
  obtain ⟨hw3e, E5⟩ := run_align (P := fun z => wsS.mem z = true) E4'
    (by intro z hz; rw [List.mem_singleton.mp hz]; exact ws_space) hw3
    (head_not' (fun hh => not_ws_of_idC hy0 hh)) (head_not' (fun hh => not_ws_of_idC hy hh))
  simp only [List.cons.injEq] at E5
  obtain ⟨ey, E5⟩ := E5
  obtain ⟨hqe, E6⟩ := run_align (P := fun z => idQ.mem z = true) E5 hq0 hq
    (head_not' (by decide)) (head_not (fun z hz hh => not_ws_of_idQ hh (hw4 z hz)) (by decide))
  have E6' : ([] : List Char) ++ (';' :: rest) = w4 ++ ';' :: s' := E6
  obtain ⟨hw4e, E7⟩ := run_align (P := fun z => wsS.mem z = true) E6' (by simp) hw4
    (head_not' (by decide)) (head_not' (by decide))
  simp only [List.cons.injEq, true_and] at E7
  subst hw1e ex hidre hw2e hw3e ey hqe hw4e E7
  exact ⟨rfl, by rw [hc]; simp [asgCaps]⟩

/-- `  assign L = R;` -/
theorem asg_hit {l r : List Char} (hl : IdentL l) (hr : RhsL r) :
    PieceOK ctx rxAsg 2 ⟨[' ', ' '], kAssign ++ ' ' :: (l ++ ' ' :: '=' :: ' ' :: (r ++ [';'])), some [String.ofList l, String.ofList r]⟩ := by
  intro p rest hp hd
  have hd0 : (txt ctx).drop p = [' ', ' '] ++ ((kAssign ++ ' ' :: (l ++ ' ' :: '=' :: ' ' :: (r ++ [';']))) ++ rest) := hd
  have hp2 : p + 2 ≤ ctx.s.size := le_of_drop ctx hp hd0
  have hd2 : (txt ctx).drop (p + 2) = (kAssign ++ ' ' :: (l ++ ' ' :: '=' :: ' ' :: (r ++ [';']))) ++ rest :=
    drop_add ctx hd0
  have hd' : (txt ctx).drop (p + 2) = kAssign ++ ' ' :: (l ++ ' ' :: '=' :: ' ' :: (r ++ ';' :: rest)) := by
    rw [hd2]; simp
  refine ⟨?_, ?_⟩
  · show NoneIn ctx rxAsg p (p + ([' ', ' '] : List Char).length)
    refine noneIn_of_den ctx rxAsg [' ', ' '] ?_ p _ hp hd0
    intro u t rest' s' c' hu ht h
    cases t with
    | nil => exact ht rfl
    | cons c t =>
      have hc : c ∈ [' ', ' '] := mem_of_suf hu (by simp)
      have := asg_first ctx h
      subst this
      exact absurd hc (by decide)
  · show _ ∧ ∃ caps, m ctx (fuelFor ctx.s) rxAsg (p + 2) [] k0 =
      some (p + 2 + (kAssign ++ ' ' :: (l ++ ' ' :: '=' :: ' ' :: (r ++ [';']))).length, caps) ∧ grp ctx 2 caps = _
    refine ⟨by simp [kAssign], asgCaps ctx l r rest, ?_, ?_⟩
    · have hm := m_some ctx (fuelFor ctx.s) rxAsg (p + 2) hp2 (need_rxAsg ctx.s) rest (asgCaps ctx l r rest)
        (by rw [hd']; exact asg_success ctx hl hr)
        (by intro s' c' h; rw [hd'] at h; exact asg_unique ctx hl hr h)
      rw [hm, end_pos ctx hp2 hd2]
    · rw [asgCaps, grp2_a]
      have e1 : (txt ctx).drop (p + 2) = (kAssign ++ [' ']) ++ (l ++ ' ' :: '=' :: ' ' :: (r ++ ';' :: rest)) := by
        rw [hd']; simp
      have e2 : (txt ctx).drop (p + 2) = (kAssign ++ ' ' :: (l ++ [' ', '=', ' '])) ++ (r ++ ';' :: rest) := by
        rw [hd']; simp
      rw [slice_eq ctx hp2 e1, slice_eq ctx hp2 e2]

theorem asg_miss_decl {kw n : List Char} (hkw : AllLetter kw) (hn : IdentL n) : PieceOK ctx rxAsg 2 ⟨[], declLine kw n, none⟩ := by
  have e : declLine kw n = (' ' :: ' ' :: (kw ++ ' ' :: n)) ++ [';', '\n'] := by simp [declLine]
  rw [e]
  apply asg_miss_line
  intro hm
  simp only [List.mem_cons, List.mem_append] at hm
  rcases hm with hm | hm | hm | hm | hm
  · exact absurd hm (by decide)
  · exact absurd hm (by decide)
  · exact absurd (hkw _ hm) (by decide)
  · exact absurd hm (by decide)
  · exact (idC_ne (hn.all _ hm)).2.2.1 rfl

theorem argQ_ne {x : Char} (h : idQ.mem x = true ∨ x = ',' ∨ x = ' ') : x ≠ '=' ∧ x ≠ '.' := by
  rcases h with h | rfl | rfl
  · exact ⟨(idQ_ne h).2.2.1, (idQ_ne h).2.2.2.2.2.2.2⟩
  · decide
  · decide

theorem asg_miss_gate {ty inst args : List Char} (hty : IdentL ty) (hinst : IdentL inst) (hargs : AllArgQ args) :
    PieceOK ctx rxAsg 2 ⟨[], gateLine ty inst args, none⟩ := by
  have e : gateLine ty inst args = (' ' :: ' ' :: (ty ++ ' ' :: (inst ++ '(' :: (args ++ [')'])))) ++ [';', '\n'] := by
    simp [gateLine]
  rw [e]
  apply asg_miss_line
  intro hm
  simp only [List.mem_cons, List.mem_append, List.not_mem_nil, or_false] at hm
  rcases hm with hm | hm | hm | hm | hm | hm | hm | hm
  · exact absurd hm (by decide)
  · exact absurd hm (by decide)
  · exact (idC_ne (hty.all _ hm)).2.2.1 rfl
  · exact absurd hm (by decide)
  · exact (idC_ne (hinst.all _ hm)).2.2.1 rfl
  · exact absurd hm (by decide)
  · exact (argQ_ne (hargs _ hm)).1 rfl
  · exact absurd hm (by decide)

theorem asg_miss_bb {ty inst pins : List Char} (hty : IdentL ty) (hinst : IdentL inst) (hpins : AllPinQ pins) :
    PieceOK ctx rxAsg 2 ⟨[], bbLine ty inst pins, none⟩ := by
  have e : bbLine ty inst pins = (' ' :: ' ' :: (ty ++ ' ' :: (inst ++ ' ' :: '(' :: (pins ++ [')'])))) ++ [';', '\n'] := by
    simp [bbLine]
  rw [e]
  apply asg_miss_line
  intro hm
  simp only [List.mem_cons, List.mem_append, List.not_mem_nil, or_false] at hm
  rcases hm with hm | hm | hm | hm | hm | hm | hm | hm | hm
  · exact absurd hm (by decide)
  · exact absurd hm (by decide)
  · exact (idC_ne (hty.all _ hm)).2.2.1 rfl
  · exact absurd hm (by decide)
  · exact (idC_ne (hinst.all _ hm)).2.2.1 rfl
  · exact absurd hm (by decide)
  · exact absurd hm (by decide)
  · rcases hpins _ hm with h | h | h | h | h | h
    · exact (idQ_ne h).2.2.1 rfl
    all_goals exact absurd h (by decide)
  · exact absurd hm (by decide)

theorem asg_tail {p : Nat} (hp : p ≤ ctx.s.size) (h : (txt ctx).drop p = VMT.kwE ++ ['\n']) :
    ∀ i, p ≤ i → i ≤ ctx.s.size → m ctx (fuelFor ctx.s) rxAsg i [] k0 = none := by
  intro i h1 h2
  apply m_none ctx _ _ i h2
  intro s' c' hden
  obtain ⟨pre, post, e, _, hsemi⟩ := asg_shape ctx hden
  have hmem : ';' ∈ (txt ctx).drop i := by rw [e]; simp [hsemi]
  have hi : (txt ctx).drop i = ((txt ctx).drop p).drop (i - p) := by
    rw [List.drop_drop]; congr 1; omega
  rw [hi, h] at hmem
  have := List.mem_of_mem_drop hmem
  exact absurd this (by decide)

/-! ### Task B: `\.\s*([^\s(]+)\s*\(\s*([^\s)]+)\s*\)` -/

theorem need_rxPin (s : Array Char) : need s.size rxPin ≤ fuelFor s := by
  unfold rxPin
  simp only [need, ws, ch, fuelFor]
  omega

/-- words matched by the named-connection pattern -/
theorem den_rxPin (s s' : List Char) (c' : Caps) :
    Den ctx rxPin s [] s' c' ↔
      ∃ w1 x g1 w2 w3 y g2 w4, AllWs w1 ∧ nwsl.mem x = true ∧ (∀ z ∈ g1, nwsl.mem z = true) ∧ AllWs w2 ∧ AllWs w3 ∧
        nwsr.mem y = true ∧ (∀ z ∈ g2, nwsr.mem z = true) ∧ AllWs w4 ∧
        s = '.' :: (w1 ++ x :: (g1 ++ (w2 ++ '(' :: (w3 ++ y :: (g2 ++ (w4 ++ ')' :: s')))))) ∧
        c' = [(2, ctx.s.size - (y :: (g2 ++ (w4 ++ ')' :: s'))).length, ctx.s.size - (w4 ++ ')' :: s').length),
              (1, ctx.s.size - (x :: (g1 ++ (w2 ++ '(' :: (w3 ++ y :: (g2 ++ (w4 ++ ')' :: s')))))).length,
                  ctx.s.size - (w2 ++ '(' :: (w3 ++ y :: (g2 ++ (w4 ++ ')' :: s')))).length)] := by
  unfold rxPin
  simp only [den_seq, den_group, den_ws, den_ch, den_plus_set]
  constructor
  · rintro ⟨s1, c1, ⟨rfl, rfl⟩, s2, c2, ⟨w1, rfl, hw1, rfl⟩, s3, c3, ⟨c4, ⟨x, g1, rfl, hx, hg1, rfl⟩, rfl⟩, s4, c5,
      ⟨w2, rfl, hw2, rfl⟩, s5, c6, ⟨rfl, rfl⟩, s6, c7, ⟨w3, rfl, hw3, rfl⟩, s7, c8,
      ⟨c9, ⟨y, g2, rfl, hy, hg2, rfl⟩, rfl⟩, s8, c10, ⟨w4, rfl, hw4, rfl⟩, rfl, rfl⟩
    exact ⟨w1, x, g1, w2, w3, y, g2, w4, hw1, hx, hg1, hw2, hw3, hy, hg2, hw4, rfl, rfl⟩
  · rintro ⟨w1, x, g1, w2, w3, y, g2, w4, hw1, hx, hg1, hw2, hw3, hy, hg2, hw4, rfl, rfl⟩
    exact ⟨_, _, ⟨rfl, rfl⟩, _, _, ⟨w1, rfl, hw1, rfl⟩, _, _, ⟨_, ⟨x, g1, rfl, hx, hg1, rfl⟩, rfl⟩, _, _,
      ⟨w2, rfl, hw2, rfl⟩, _, _, ⟨rfl, rfl⟩, _, _, ⟨w3, rfl, hw3, rfl⟩, _, _,
      ⟨_, ⟨y, g2, rfl, hy, hg2, rfl⟩, rfl⟩, _, _, ⟨w4, rfl, hw4, rfl⟩, rfl, rfl⟩

theorem pin_first {c : Char} {r s' : List Char} {c' : Caps} (h : Den ctx rxPin (c :: r) [] s' c') : c = '.' := by
  rw [den_rxPin] at h
  obtain ⟨w1, x, g1, w2, w3, y, g2, w4, _, _, _, _, _, _, _, _, e, _⟩ := h
  simp only [List.cons.injEq] at e
  exact e.1

theorem pin_nil {s' : List Char} {c' : Caps} : ¬ Den ctx rxPin [] [] s' c' := by
  rw [den_rxPin]
  rintro ⟨w1, x, g1, w2, w3, y, g2, w4, _, _, _, _, _, _, _, _, e, _⟩
  cases e

/-- a piece without `.` -/
theorem pin_miss_nodot {l : List Char} (h : '.' ∉ l) : PieceOK ctx rxPin 2 ⟨[], l, none⟩ := by
  apply pieceOK_miss
  intro u t rest s' c' hu ht hden
  cases t with
  | nil => exact ht rfl
  | cons c t =>
    have hc : c ∈ l := mem_of_suf hu (by simp)
    have := pin_first ctx hden
    subst this
    exact h hc

/-- the shape of a match at `.NAME(` -/
theorem pin_align {n tl s' : List Char} {c' : Caps} (hn : IdentL n)
    (h : Den ctx rxPin ('.' :: (n ++ '(' :: tl)) [] s' c') :
    ∃ w3 y g2 w4, AllWs w3 ∧ nwsr.mem y = true ∧ (∀ z ∈ g2, nwsr.mem z = true) ∧ AllWs w4 ∧
      tl = w3 ++ y :: (g2 ++ (w4 ++ ')' :: s')) ∧
      c' = [(2, ctx.s.size - (y :: (g2 ++ (w4 ++ ')' :: s'))).length, ctx.s.size - (w4 ++ ')' :: s').length),
            (1, ctx.s.size - (n ++ '(' :: tl).length, ctx.s.size - ('(' :: tl).length)] := by
  obtain ⟨x0, r0, rfl, hx0, hr0⟩ := hn
  rw [den_rxPin] at h
  obtain ⟨w1, x, g1, w2, w3, y, g2, w4, hw1, hx, hg1, hw2, hw3, hy, hg2, hw4, e, hc⟩ := h
  simp only [List.cons.injEq, true_and] at e
  have E1 : ([] : List Char) ++ (x0 :: r0 ++ '(' :: tl) =
      w1 ++ x :: (g1 ++ (w2 ++ '(' :: (w3 ++ y :: (g2 ++ (w4 ++ ')' :: s'))))) := e
  obtain ⟨hw1e, E2⟩ := run_align (P := fun z => wsS.mem z = true) E1 (by simp) hw1
    (head_not' (fun hh => not_idS_of_ws hh hx0)) (head_not' (not_ws_of_nwsl hx))
  have E2' : (x0 :: r0) ++ ('(' :: tl) = (x :: g1) ++ (w2 ++ '(' :: (w3 ++ y :: (g2 ++ (w4 ++ ')' :: s')))) := E2
  obtain ⟨hne, E3⟩ := run_align (P := fun z => nwsl.mem z = true) E2'
    (by
      intro z hz
      rcases List.mem_cons.mp hz with rfl | hz
      · exact nwsl_of_idQ (idQ_of_idC_a (idC_of_idS hx0))
      · exact nwsl_of_idQ (idQ_of_idC_a (hr0 z hz)))
    (by
      intro z hz
      rcases List.mem_cons.mp hz with rfl | hz
      · exact hx
      · exact hg1 z hz)
    (head_not' (by decide)) (head_not (fun z hz hh => not_ws_of_nwsl hh (hw2 z hz)) (by decide))
  have E3' : ([] : List Char) ++ ('(' :: tl) = w2 ++ '(' :: (w3 ++ y :: (g2 ++ (w4 ++ ')' :: s'))) := E3
  obtain ⟨hw2e, E4⟩ := run_align (P := fun z => wsS.mem z = true) E3' (by simp) hw2
    (head_not' (by decide)) (head_not' (by decide))
  simp only [List.cons.injEq, true_and] at E4
  subst hw1e hw2e
  refine ⟨w3, y, g2, w4, hw3, hy, hg2, hw4, E4, ?_⟩
  rw [hc, ← E4, hne]
  simp

/-- the captures of a connected pin -/
def pinCaps (n o rest : List Char) : Caps :=
  [(2, ctx.s.size - (o ++ ')' :: rest).length, ctx.s.size - (')' :: rest).length),
   (1, ctx.s.size - (n ++ '(' :: (o ++ ')' :: rest)).length, ctx.s.size - ('(' :: (o ++ ')' :: rest)).length)]

theorem pin_success {n o rest : List Char} (hn : IdentL n) (ho : RhsL o) :
    Den ctx rxPin ('.' :: (n ++ '(' :: (o ++ ')' :: rest))) [] rest (pinCaps ctx n o rest) := by
  obtain ⟨x, g1, rfl, hx, hg1⟩ := hn
  obtain ⟨y, g2, rfl, hy, hg2⟩ := ho
  rw [den_rxPin]
  exact ⟨[], x, g1, [], [], y, g2, [], by simp [AllWs], nwsl_of_idQ (idQ_of_idC_a (idC_of_idS hx)),
    fun z hz => nwsl_of_idQ (idQ_of_idC_a (hg1 z hz)), by simp [AllWs], by simp [AllWs], nwsr_of_idQ (idQ_of_idC_a hy),
    fun z hz => nwsr_of_idQ (hg2 z hz), by simp [AllWs], by simp, by simp [pinCaps]⟩

theorem pin_unique {n o rest s' : List Char} {c' : Caps} (hn : IdentL n) (ho : RhsL o)
    (h : Den ctx rxPin ('.' :: (n ++ '(' :: (o ++ ')' :: rest))) [] s' c') :
    s' = rest ∧ c' = pinCaps ctx n o rest := by
  obtain ⟨w3, y, g2, w4, hw3, hy, hg2, hw4, e, hc⟩ := pin_align ctx hn h
  obtain ⟨y0, q0, rfl, hy0, hq0⟩ := ho
  have E1 : ([] : List Char) ++ (y0 :: q0 ++ ')' :: rest) = w3 ++ y :: (g2 ++ (w4 ++ ')' :: s')) := e
  obtain ⟨hw3e, E2⟩ := run_align (P := fun z => wsS.mem z = true) E1 (by simp) hw3
    (head_not' (fun hh => not_ws_of_idC hy0 hh)) (head_not' (not_ws_of_nwsr hy))
  have E2' : (y0 :: q0) ++ (')' :: rest) = (y :: g2) ++ (w4 ++ ')' :: s') := E2
  obtain ⟨hoe, E3⟩ := run_align (P := fun z => nwsr.mem z = true) E2'
    (by
      intro z hz
      rcases List.mem_cons.mp hz with rfl | hz
      · exact nwsr_of_idQ (idQ_of_idC_a hy0)
      · exact nwsr_of_idQ (hq0 z hz))
    (by
      intro z hz
      rcases List.mem_cons.mp hz with rfl | hz
      · exact hy
      · exact hg2 z hz)
    (head_not' (by decide)) (head_not (fun z hz hh => not_ws_of_nwsr hh (hw4 z hz)) (by decide))
  have E3' : ([] : List Char) ++ (')' :: rest) = w4 ++ ')' :: s' := E3
  obtain ⟨hw4e, E4⟩ := run_align (P := fun z => wsS.mem z = true) E3' (by simp) hw4
    (head_not' (by decide)) (head_not' (by decide))
  simp only [List.cons.injEq, true_and] at E4
  subst hw3e hw4e E4
  refine ⟨rfl, ?_⟩
  simp only [List.cons.injEq] at hoe
  obtain ⟨rfl, rfl⟩ := hoe
  rw [hc]
  simp [pinCaps]

/-- `.NAME(NET)` -/
theorem pin_hit {n o : List Char} (hn : IdentL n) (ho : RhsL o) :
    PieceOK ctx rxPin 2 ⟨[], pinT n o, some [String.ofList n, String.ofList o]⟩ := by
  intro p rest hp hd
  have hd0 : (txt ctx).drop p = pinT n o ++ rest := hd
  have hd' : (txt ctx).drop p = '.' :: (n ++ '(' :: (o ++ ')' :: rest)) := by rw [hd0]; simp [pinT]
  refine ⟨fun i h1 h2 => by simp at h2; omega, ?_⟩
  show _ ∧ ∃ caps, m ctx (fuelFor ctx.s) rxPin (p + 0) [] k0 = some (p + 0 + (pinT n o).length, caps) ∧ grp ctx 2 caps = _
  refine ⟨by simp [pinT], pinCaps ctx n o rest, ?_, ?_⟩
  · have hm := m_some ctx (fuelFor ctx.s) rxPin p hp (need_rxPin ctx.s) rest (pinCaps ctx n o rest)
      (by rw [hd']; exact pin_success ctx hn ho)
      (by intro s' c' h; rw [hd'] at h; exact pin_unique ctx hn ho h)
    rw [Nat.add_zero, hm, end_pos ctx hp hd0]
  · rw [pinCaps, grp2_a]
    have e1 : (txt ctx).drop p = ['.'] ++ (n ++ '(' :: (o ++ ')' :: rest)) := by rw [hd']; simp
    have e2 : (txt ctx).drop p = ('.' :: (n ++ ['('])) ++ (o ++ ')' :: rest) := by rw [hd']; simp
    rw [slice_eq ctx hp e1, slice_eq ctx hp e2]

/-- `.NAME()` -/
theorem pin_miss_empty {n : List Char} (hn : IdentL n) : PieceOK ctx rxPin 2 ⟨[], pinT n [], none⟩ := by
  apply pieceOK_miss
  intro u t rest s' c' hu ht hden
  have hu' : u ++ t = '.' :: (n ++ ['(', ')']) := by rw [hu]; simp [pinT]
  rcases suf_cons hu' with e | ⟨u', e⟩
  · rw [e] at hden
    have hden' : Den ctx rxPin ('.' :: (n ++ '(' :: (')' :: rest))) [] s' c' := by simpa using hden
    obtain ⟨w3, y, g2, w4, hw3, hy, hg2, hw4, e2, _⟩ := pin_align ctx hn hden'
    have E1 : ([] : List Char) ++ (')' :: rest) = w3 ++ y :: (g2 ++ (w4 ++ ')' :: s')) := e2
    obtain ⟨_, E2⟩ := run_align (P := fun z => wsS.mem z = true) E1 (by simp) hw3
      (head_not' (by decide)) (head_not' (not_ws_of_nwsr hy))
    simp only [List.cons.injEq] at E2
    exact nwsr_ne hy E2.1.symm
  · cases t with
    | nil => exact ht rfl
    | cons c t =>
      have hc : c ∈ n ++ ['(', ')'] := mem_of_suf e (by simp)
      have := pin_first ctx hden
      subst this
      simp only [List.mem_append, List.mem_cons, List.not_mem_nil, or_false] at hc
      rcases hc with hc | hc | hc
      · exact absurd (hn.all _ hc) (by decide)
      · exact absurd hc (by decide)
      · exact absurd hc (by decide)

/-- the piece of one pin -/
def pinPiece (q : List Char × List Char) : Piece :=
  if q.2 = [] then ⟨[], pinT q.1 [], none⟩ else ⟨[], pinT q.1 q.2, some [String.ofList q.1, String.ofList q.2]⟩

def pinPieces : List (List Char × List Char) → List Piece
  | [] => []
  | [q] => [pinPiece q]
  | q :: q' :: ps => pinPiece q :: ⟨[], [',', ' '], none⟩ :: pinPieces (q' :: ps)

theorem pinPiece_text (q : List Char × List Char) : (pinPiece q).text = pinT q.1 q.2 := by
  unfold pinPiece
  by_cases h : q.2 = []
  · rw [if_pos h, h]; rfl
  · rw [if_neg h]; rfl

theorem pinPiece_hit (q : List Char × List Char) :
    (pinPiece q).hit = if q.2 = [] then none else some [String.ofList q.1, String.ofList q.2] := by
  unfold pinPiece
  by_cases h : q.2 = []
  · rw [if_pos h, if_pos h]
  · rw [if_neg h, if_neg h]

theorem pinPieces_text : ∀ ps : List (List Char × List Char), ((pinPieces ps).map Piece.text).flatten = pinsT ps
  | [] => by simp [pinPieces, pinsT, commaSep, List.intercalate]
  | [q] => by simp [pinPieces, pinsT, commaSep, List.intercalate, pinPiece_text]
  | q :: q' :: ps => by
    have ih := pinPieces_text (q' :: ps)
    simp only [pinsT, commaSep, List.intercalate, List.map_cons] at ih
    simp only [pinPieces, pinsT, commaSep, List.intercalate, List.map_cons, List.flatten_cons, pinPiece_text,
      List.intersperse_cons_cons, ih]
    rfl

theorem pinPieces_hit : ∀ ps : List (List Char × List Char), (pinPieces ps).filterMap (·.hit) =
    ps.filterMap (fun q => if q.2 = [] then none else some [String.ofList q.1, String.ofList q.2])
  | [] => rfl
  | [q] => by simp [pinPieces, List.filterMap_cons, pinPiece_hit]
  | q :: q' :: ps => by
    have ih := pinPieces_hit (q' :: ps)
    simp only [pinPieces, List.filterMap_cons, pinPiece_hit, ih]

theorem pinPieces_ok : ∀ ps : List (List Char × List Char), (∀ q ∈ ps, IdentL q.1 ∧ (q.2 = [] ∨ RhsL q.2)) →
    ∀ c ∈ pinPieces ps, PieceOK ctx rxPin 2 c := by
  have one : ∀ q : List Char × List Char, IdentL q.1 ∧ (q.2 = [] ∨ RhsL q.2) → PieceOK ctx rxPin 2 (pinPiece q) := by
    intro q hq
    unfold pinPiece
    by_cases h : q.2 = []
    · rw [if_pos h]; exact pin_miss_empty ctx hq.1
    · rw [if_neg h]; exact pin_hit ctx hq.1 (hq.2.resolve_left h)
  intro ps
  induction ps with
  | nil => intro _ c hc; simp [pinPieces] at hc
  | cons q ps ih =>
    intro hps c hc
    cases ps with
    | nil =>
      simp only [pinPieces, List.mem_singleton] at hc
      rw [hc]; exact one q (hps q (by simp))
    | cons q' ps =>
      simp only [pinPieces, List.mem_cons] at hc
      rcases hc with rfl | rfl | hc
      · exact one q (hps q (by simp))
      · exact pin_miss_nodot ctx (by decide)
      · exact ih (fun x hx => hps x (by simp [hx])) c (by simpa [pinPieces] using hc)

theorem pin_end : ∀ i, ctx.s.size - ([] : List Char).length ≤ i → i ≤ ctx.s.size →
    m ctx (fuelFor ctx.s) rxPin i [] k0 = none := by
  intro i h1 h2
  have hi : i = ctx.s.size := by simp at h1; omega
  subst hi
  apply m_none ctx _ _ _ (Nat.le_refl _)
  intro s' c'
  have : (txt ctx).drop ctx.s.size = [] := by
    apply List.drop_eq_nil_of_le; rw [txt_length]; exact Nat.le_refl _
  rw [this]
  exact pin_nil ctx

/-- the named connections of a blackbox instance: one match per connected pin, none for `.p()` -/
theorem pin_scan (ps : List (List Char × List Char)) (hps : ∀ q ∈ ps, IdentL q.1 ∧ (q.2 = [] ∨ RhsL q.2))
    (ht : txt ctx = pinsT ps) :
    (allMatches ctx rxPin 2 (ctx.s.size + 2) 0).map (fun mt => mt.groups.map (·.getD "")) =
      ps.filterMap (fun q => if q.2 = [] then none else some [String.ofList q.1, String.ofList q.2]) := by
  rw [← pinPieces_hit]
  exact scan_pieces ctx rxPin 2 (pinPieces ps) [] (pinPieces_ok ctx ps hps) (pin_end ctx)
    (by rw [pinPieces_text, List.append_nil, ht])

/-- a positional connection list contains no `.`: no match -/
theorem pin_scan_args (args : List Char) (h : AllArgQ args) (ht : txt ctx = args) :
    (allMatches ctx rxPin 2 (ctx.s.size + 2) 0).map (fun mt => mt.groups.map (·.getD "")) = [] := by
  have := scan_pieces ctx rxPin 2 [⟨[], args, none⟩] [] (by
      intro c hc
      rw [List.mem_singleton.mp hc]
      exact pin_miss_nodot ctx (fun hm => (argQ_ne (h _ hm)).2 rfl))
    (pin_end ctx) (by simp [Piece.text, ht])
  simpa using this

end FT
end CG
