import CG.Proofs.FastTextDefs
import CG.Proofs.BenchTextStr2
set_option linter.unusedSimpArgs false
set_option linter.unusedVariables false
namespace CG
namespace FT
open Regex BenchText

/-- list-level characterization of `dropWhile` from a decomposition -/
theorem dropWhile_of_split {p : Char → Bool} : ∀ (t d : List Char), (∀ x ∈ t, p x = true) → d.head?.any p = false →
    (t ++ d).dropWhile p = d
  | [], d, _, hd => by
    cases d with
    | nil => rfl
    | cons x d => simp at hd; simp [List.dropWhile, hd]
  | x :: t, d, ht, hd => by
    have := dropWhile_of_split t d (fun y hy => ht y (by simp [hy])) hd
    simp [List.dropWhile, ht x (by simp), this]

theorem toList_dropWhile (s : String.Slice) (p : Char → Bool) :
    (s.dropWhile p).copy.toList = s.copy.toList.dropWhile p := by
  have h1 := String.Slice.takeWhile_append_dropWhile (pat := p) (s := s)
  have h2 : (s.takeWhile p).all p = true := String.Slice.all_takeWhile
  have h3 : (s.dropWhile p).startsWith p = false := String.Slice.startsWith_dropWhile
  rw [String.Slice.all_bool_eq, List.all_eq_true] at h2
  rw [String.Slice.startsWith_bool_eq_head?] at h3
  rw [← h1, String.toList_append, dropWhile_of_split _ _ h2 h3]

/-- list-level characterization of `dropEndWhile` from a decomposition -/
theorem dropEnd_of_split {p : Char → Bool} (d t : List Char) (ht : ∀ x ∈ t, p x = true) (hd : d.getLast?.any p = false) :
    ((d ++ t).reverse.dropWhile p).reverse = d := by
  rw [List.reverse_append, dropWhile_of_split _ _ (by simpa using ht) (by simpa [List.head?_reverse] using hd)]
  simp

theorem toList_dropEndWhile (s : String.Slice) (p : Char → Bool) :
    (s.dropEndWhile p).copy.toList = (s.copy.toList.reverse.dropWhile p).reverse := by
  have h1 := String.Slice.dropEndWhile_append_takeEndWhile (pat := p) (s := s)
  have h2 : (s.takeEndWhile p).revAll p = true := String.Slice.revAll_takeEndWhile
  have h3 : (s.dropEndWhile p).endsWith p = false := String.Slice.endsWith_dropEndWhile
  rw [String.Slice.revAll_bool_eq, List.all_eq_true] at h2
  rw [String.Slice.endsWith_bool_eq_getLast?] at h3
  rw [← h1, String.toList_append, dropEnd_of_split _ _ h2 h3]

/-- Python's `str.strip` on character lists -/
theorem strip_toList (s : String) :
    (FastVerilog.strip s).toList =
      ((s.toList.dropWhile Char.isWhitespace).reverse.dropWhile Char.isWhitespace).reverse := by
  unfold FastVerilog.strip String.trimAscii String.Slice.trimAscii String.Slice.trimAsciiEnd String.Slice.trimAsciiStart
  show (String.Slice.copy _).toList = _
  rw [toList_dropEndWhile, toList_dropWhile]
  simp

theorem dropWhile_none {p : Char → Bool} : ∀ (w : List Char), (∀ x ∈ w, p x = false) → w.dropWhile p = w
  | [], _ => rfl
  | x :: w, h => by simp [List.dropWhile, h x (by simp)]

/-- nothing to strip -/
theorem strip_word (w : List Char) (h : ∀ x ∈ w, x.isWhitespace = false) : FastVerilog.strip (String.ofList w) = String.ofList w := by
  rw [← String.toList_inj, strip_toList]
  simp only [String.toList_ofList]
  rw [dropWhile_none w h, dropWhile_none w.reverse (by simpa using h)]
  simp

/-- one leading blank -/
theorem strip_sp_word (w : List Char) (h : ∀ x ∈ w, x.isWhitespace = false) (hne : w ≠ []) :
    FastVerilog.strip (String.ofList (' ' :: w)) = String.ofList w := by
  rw [← String.toList_inj, strip_toList]
  simp only [String.toList_ofList]
  have : (' ' :: w).dropWhile Char.isWhitespace = w.dropWhile Char.isWhitespace := by
    simp [List.dropWhile, Char.isWhitespace]
  rw [this, dropWhile_none w h, dropWhile_none w.reverse (by simpa using h)]
  simp

theorem idQ_mem_s (x : Char) : idQ.mem x = true ↔
    ((97 ≤ x.toNat ∧ x.toNat ≤ 122) ∨ (65 ≤ x.toNat ∧ x.toNat ≤ 90) ∨ (48 ≤ x.toNat ∧ x.toNat ≤ 57) ∨ x.toNat = 95 ∨ x.toNat = 39) := by
  simp only [CSet.mem, idQ, List.any_cons, List.any_nil, Bool.or_false, Bool.false_eq_true, if_false,
    Bool.or_eq_true, Bool.and_eq_true, decide_eq_true_eq, le_iff, Char.reduceToNat]
  omega

theorem idQ_not_ws {x : Char} (h : idQ.mem x = true) : x.isWhitespace = false := by
  rw [idQ_mem_s] at h
  simp only [Char.isWhitespace, Bool.or_eq_false_iff, decide_eq_false_iff_not, eq_iff, Char.reduceToNat]
  omega

theorem idQ_not_comma {w : List Char} (h : ∀ x ∈ w, idQ.mem x = true) : ',' ∉ w := by
  intro hm
  have := (idQ_mem_s _).mp (h _ hm)
  simp only [Char.reduceToNat] at this
  omega

theorem splitOn_commaSep : ∀ (rest : List (List Char)) (w : List Char), (∀ v ∈ w :: rest, ',' ∉ v) →
    (commaSep (w :: rest)).splitOn ',' = w :: rest.map (' ' :: ·)
  | [], w, h => by
    have : commaSep [w] = w := by simp [commaSep, List.intercalate]
    rw [this]
    simpa using List.splitOn_eq_singleton (h w (by simp))
  | v :: rest, w, h => by
    have ih := splitOn_commaSep rest v (fun u hu => h u (List.mem_cons_of_mem _ hu))
    have e : commaSep (w :: v :: rest) = w ++ ',' :: (' ' :: commaSep (v :: rest)) := by
      simp [commaSep, List.intercalate_cons_cons]
    rw [e, List.splitOn_append_cons_self_of_not_mem (h w (by simp)), List.splitOn_cons_eq_if_modifyHead, ih]
    simp

/-- `"a, b, 1'b1".split(",")` stripped gives back the operands -/
theorem split_commaSep (ws : List (List Char)) (hne : ws ≠ []) (h : ∀ w ∈ ws, w ≠ [] ∧ ∀ x ∈ w, idQ.mem x = true) :
    ((String.ofList (commaSep ws)).splitOn ",").map FastVerilog.strip = ws.map String.ofList := by
  have e1 : ("," : String) = String.singleton ',' := rfl
  rw [e1, splitOn_single, String.toList_ofList]
  cases ws with
  | nil => exact absurd rfl hne
  | cons w rest =>
    rw [splitOn_commaSep rest w (fun v hv => idQ_not_comma (h v hv).2)]
    simp only [List.map_cons, List.map_map]
    congr 1
    · exact strip_word w (fun x hx => idQ_not_ws ((h w (by simp)).2 x hx))
    · apply List.map_congr_left
      intro v hv
      have hv' := h v (by simp [hv])
      exact strip_sp_word v (fun x hx => idQ_not_ws (hv'.2 x hx)) hv'.1

/-- a single name -/
theorem split_word (w : List Char) (h : w ≠ [] ∧ ∀ x ∈ w, idQ.mem x = true) :
    ((String.ofList w).splitOn ",").map FastVerilog.strip = [String.ofList w] := by
  have := split_commaSep [w] (by simp) (by simpa using h)
  have e : commaSep [w] = w := by simp [commaSep, List.intercalate]
  rw [e] at this
  simpa using this

/-- whatever the text, the split is never empty -/
theorem split_ne_nil (s : String) : (s.splitOn ",").map FastVerilog.strip ≠ [] := by
  have e1 : ("," : String) = String.singleton ',' := rfl
  rw [e1, splitOn_single]
  simp [List.splitOn_ne_nil]

end FT
end CG
