/- C03 helper: success + frame lemmas for the API calls the Verilog reader makes -/
import CG.Proofs.VRoundDefs
import CG.Proofs.VRoundOpsA
import CG.Proofs.VRoundOpsB
import CG.Proofs.VRoundOpsC
namespace CG
namespace VR
open Verilog Circuit

/-- the `AddArgs` of the reader's `add_node` (no uid) -/
def rdArgs (n ty : String) (fanin : List Name) : AddArgs :=
  { n := n, ty := ty, fanin := fanin, uid := false, addConnected := true, allowRedef := true }

/-- `c.add(n, ty, fanin=fanin, add_connected_nodes=True, allow_redefinition=True)` succeeds -/
theorem add_ok' (t : Circuit) (n ty : String) (fanin : List Name)
    (hname : Limit.NameOK n)
    (hty : ty ∈ Expected.supported_types) (hnotpin : ty ≠ "bb_input" ∧ ty ≠ "bb_output")
    (h0 : ty = "buf" ∨ ty = "not" → fanin.length ≤ 1 ∧ (fanin ≠ [] → ∀ e ∈ t.edges, e.2 ≠ n))
    (h1 : ty = "0" ∨ ty = "1" ∨ ty = "x" ∨ ty = "input" → fanin = [])
    (hfi : ∀ u ∈ fanin, u = n ∨ (∃ tu, t.ty? u = some tu ∧ tu ≠ "bb_input" ∧ tu ≠ "bb_output") ∨
      (t.has u = false ∧ Limit.NameOK u)) :
    ∃ t', t.add (rdArgs n ty fanin) = (t', .ok, n) ∧ Ternary.AddSpec t (rdArgs n ty fanin) n t' ∧
      t'.bbs = t.bbs ∧ t'.name = t.name :=
  add_ok_gen t (rdArgs n ty fanin) n rfl (fun _ => rfl) hname hty hnotpin h0 h1 rfl rfl hfi

/-- `c.add(n, ty)` with default flags on a fresh name -/
theorem add_plain_ok (t : Circuit) (n ty : String) (hfresh : t.has n = false) (hname : Limit.NameOK n)
    (hty : ty ∈ Expected.supported_types) :
    t.add { n := n, ty := ty } = (t.addNodeAttr n { ty := some ty, out := some false }, .ok, n) := by
  have hsup : T.supported.contains ty = true := by
    rw [Limit.T_supported]; exact List.contains_iff_mem.2 hty
  unfold Circuit.add
  simp only [Bool.false_eq_true, if_false, hfresh, hsup, hname.1, hname.2, Bool.not_false, Bool.and_false,
    Bool.false_and, Bool.not_true, List.length_nil, List.isEmpty_nil, Bool.and_true, gt_iff_lt,
    Nat.not_lt_zero, decide_false, List.nil_append, connect_empty_right, connect_empty_left,
    bne_self_eq_false]

/-- `c.add_blackbox(bb, inst, connections)` with single-net connections succeeds and does exactly this -/
theorem addBlackbox_ok (c : Circuit) (bb : BBox) (inst : Name) (conns : List (Name × Name)) (ord : Ord)
    (hord : OrdOK ord) (hwf : WF c)
    (hreg : c.bbs.lookup inst = none)
    (hinst : Limit.NameOK inst)
    (hins : bb.ins.Nodup) (houts : bb.outs.Nodup) (hdisj : ∀ g ∈ bb.ins, g ∉ bb.outs)
    (hfresh : ∀ g ∈ bb.ins ++ bb.outs, c.has (inst ++ "." ++ g) = false)
    (hkeys : (conns.map (·.1)).Nodup) (hkm : ∀ p ∈ conns, p.1 ∈ bb.ins ++ bb.outs)
    (hnets : ∀ p ∈ conns, p.2 ≠ "")
    (hin : ∀ p ∈ conns, p.1 ∈ bb.ins → ∃ t, c.ty? p.2 = some t ∧ t ≠ "bb_input" ∧ t ≠ "bb_output")
    (hout : ∀ p ∈ conns, p.1 ∈ bb.outs → c.ty? p.2 = some "buf" ∧ c.fanin p.2 = [])
    (houtnets : ∀ p ∈ conns, ∀ p' ∈ conns, p.1 ∈ bb.outs → p'.1 ∈ bb.outs → p.2 = p'.2 → p = p') :
    ∃ c', c.addBlackbox bb inst (conns.map (fun p => (p.1, if p.2.isEmpty then [] else [p.2]))) ord = (c', .ok) ∧
      c'.name = c.name ∧ c'.bbs = c.bbs ++ [(inst, bb)] ∧ WF c' ∧
      (∀ x, c'.has x = true ↔ (c.has x = true ∨ ∃ g ∈ bb.ins ++ bb.outs, x = inst ++ "." ++ g)) ∧
      (∀ x, c.has x = true → c'.attr? x = c.attr? x) ∧
      (∀ g ∈ bb.ins, c'.attr? (inst ++ "." ++ g) = some { ty := some "bb_input", out := some false }) ∧
      (∀ g ∈ bb.outs, c'.attr? (inst ++ "." ++ g) = some { ty := some "bb_output", out := some false }) ∧
      (∀ e, e ∈ c'.edges ↔ (e ∈ c.edges ∨ ∃ p ∈ conns,
        (p.1 ∈ bb.ins ∧ e = (p.2, inst ++ "." ++ p.1)) ∨ (p.1 ∈ bb.outs ∧ e = (inst ++ "." ++ p.1, p.2)))) :=
  addBlackbox_main c bb inst conns ord hord hwf hreg hinst hins houts hdisj hfresh hkeys hkm hnets hin hout houtnets

end VR
end CG
