/- helper lemmas for C11 (total correctness of `sensitivity_transform`): every inverted copy is built -/
import CG.Proofs.SensOkD
set_option linter.unusedSimpArgs false
set_option linter.unusedVariables false
namespace CG
namespace SensOk
open Circuit Miter Sens
open Tx (addC)

theorem senCopy_eq (cone : Circuit) (sp : List Name) (n : Name) (A : Circuit) (i : Nat) (s0 : Name) :
    Tx.senCopy cone sp n A (i, s0) =
      (liftO (A.addSubcircuit cone ("inv_" ++ s0) []) >>= fun A1 =>
        sp.foldlM (invStep s0) A1 >>= fun A2 => addC A2 (difA n s0 i)) := rfl

section
variable {cone pcC : Circuit} {sp : List Name} {n : Name} {k : Nat}

/-- the circuit after the copies of the list `L1` -/
structure SA (cone : Circuit) (sp : List Name) (n : Name) (s2 : Circuit) (L1 : List (Nat × Name)) (A : Circuit) :
    Prop where
  wf : WF A
  names : A.nodeNames = s2.nodeNames ++ L1.flatMap (copyNames cone)
  edges : ∀ e, e ∈ A.edges ↔ e ∈ s2.edges ∨ ∃ q ∈ L1, CopyEdge cone sp n q e
  tyOld : ∀ x, s2.has x = true → A.ty? x = s2.ty? x

theorem sa_of (H : OkH cone pcC sp n k) {s2 : Circuit} (B : S2 cone pcC sp s2) {L1 : List (Nat × Name)}
    (hL1 : ∀ q ∈ L1, q ∈ idxL sp) {A : Circuit} (hA : L1.foldlM (Tx.senCopy cone sp n) s2 = .ok A) :
    SA cone sp n s2 L1 A := by
  obtain ⟨a1, a2, a3, a4, _⟩ := copiesFold H.lcone.toWF L1 s2 A hA B.wf
    (fun q hq => mem_inputs_has (H.spin _ (mem_idxL_snd (hL1 q hq))))
  exact ⟨a1, a2, a3, a4⟩

theorem SA.has_iff {s2 A : Circuit} {L1 : List (Nat × Name)} (S : SA cone sp n s2 L1 A) (x : Name) :
    A.has x = true ↔ s2.has x = true ∨ ∃ q ∈ L1, (∃ y, cone.has y = true ∧ x = pref ("inv_" ++ q.2) y) ∨
      x = "dif_out_" ++ q.2 := by
  rw [has_iff_mem, S.names, List.mem_append, ← has_iff_mem]
  unfold copyNames
  simp only [List.mem_flatMap, List.mem_append, List.mem_map, List.mem_singleton]
  constructor
  · rintro (h | ⟨q, hq, ⟨y, hy, rfl⟩ | h⟩)
    · exact Or.inl h
    · exact Or.inr ⟨q, hq, Or.inl ⟨y, (has_iff_mem _ _).2 hy, rfl⟩⟩
    · exact Or.inr ⟨q, hq, Or.inr h⟩
  · rintro (h | ⟨q, hq, ⟨y, hy, rfl⟩ | h⟩)
    · exact Or.inl h
    · exact Or.inr ⟨q, hq, Or.inl ⟨y, (has_iff_mem _ _).1 hy, rfl⟩⟩
    · exact Or.inr ⟨q, hq, Or.inr h⟩

theorem SA.mono {s2 A : Circuit} {L1 : List (Nat × Name)} (S : SA cone sp n s2 L1 A) {x : Name}
    (hx : s2.has x = true) : A.has x = true := (S.has_iff x).2 (Or.inl hx)

/-- no edge of the circuit built so far drives the counter input `pc_in_i` when copy `i` is not built yet -/
theorem SA.pcin_undriven (H : OkH cone pcC sp n k) {s2 A : Circuit} (B : S2 cone pcC sp s2)
    {L1 : List (Nat × Name)} (S : SA cone sp n s2 L1 A) {i : Nat} (hi : i < sp.length)
    (hL1 : ∀ q ∈ L1, q.1 ≠ i) : ∀ e ∈ A.edges, e.2 ≠ pref "pc" ("in_" ++ toString i) := by
  intro e he e2
  rcases (S.edges e).1 he with he | ⟨q, hq, he⟩
  · rcases (B.edges e).1 he with ⟨e0, _, rfl⟩ | ⟨s, _, rfl⟩ | ⟨e0, h0, rfl⟩
    · exact orig_ne_pc _ _ e2
    · exact orig_ne_pc _ _ e2
    · have e3 : e0.2 = "in_" ++ toString i := pref_inj _ e2
      have hm : e0.1 ∈ pcC.fanin ("in_" ++ toString i) := Circuit.mem_fanin.2 (by rw [← e3]; exact h0)
      rw [noFanin_inputs H.lpc _ (H.pcin i hi)] at hm
      cases hm
  · rcases he with ⟨e0, _, rfl⟩ | ⟨s1, _, rfl⟩ | rfl | rfl | rfl
    · exact pc_ne_inv _ _ _ e2.symm
    · exact pc_ne_inv _ _ _ e2.symm
    · have e3 : "in_" ++ toString q.1 = "in_" ++ toString i := pref_inj _ e2
      exact hL1 q hq ((Arith.idx_inj _).1 e3)
    · exact pc_ne_dif _ _ e2.symm
    · exact pc_ne_dif _ _ e2.symm

/-! ### one copy -/

theorem copy_step_ok (H : OkH cone pcC sp n k) {s2 : Circuit} (B : S2 cone pcC sp s2)
    {L1 L2 : List (Nat × Name)} {i : Nat} {s0 : Name} (hL : idxL sp = L1 ++ (i, s0) :: L2) {A : Circuit}
    (hA : L1.foldlM (Tx.senCopy cone sp n) s2 = .ok A) : ∃ A', Tx.senCopy cone sp n A (i, s0) = .ok A' := by
  have wcone := H.lcone.toWF
  have hq : (i, s0) ∈ idxL sp := mem_mid hL
  have hs0 : s0 ∈ sp := mem_idxL_snd hq
  have hi : i < sp.length := mem_idxL_lt hq
  have hnd := idxL_nodup H.spnd
  have hqL : (i, s0) ∉ L1 := not_mem_prefix hnd hL
  have hL1 : ∀ q ∈ L1, q ∈ idxL sp := fun q hq' => mem_of_prefix hL hq'
  have hL1s : ∀ q ∈ L1, q.2 ≠ s0 := by
    intro q hq' e
    exact hqL ((idxL_snd_inj H.spnd (hL1 q hq') hq e) ▸ hq')
  have hL1i : ∀ q ∈ L1, q.1 ≠ i := by
    intro q hq' e
    exact hqL ((idxL_fst_inj (hL1 q hq') hq e) ▸ hq')
  have S := sa_of H B hL1 hA
  -- the copy is spliced in
  have hfreshI : ∀ y, cone.has y = true → A.has (pref ("inv_" ++ s0) y) = false := by
    intro y hy
    cases hh : A.has (pref ("inv_" ++ s0) y) with
    | false => rfl
    | true =>
      rcases (S.has_iff _).1 hh with h2 | ⟨q, hq', ⟨y', hy', e⟩ | e⟩
      · rcases (B.has_iff _).1 h2 with ⟨x, _, e⟩ | hm | ⟨x, _, e⟩
        · exact absurd e.symm (orig_ne_inv _ _ _)
        · exact absurd rfl (H.clInv _ hm s0 hs0 y hy)
        · exact absurd e.symm (pc_ne_inv _ _ _)
      · exact absurd (H.sep s0 hs0 q.2 (mem_idxL_snd (hL1 q hq')) y y' hy hy' e).symm (hL1s q hq')
      · exact absurd e (inv_ne_dif _ _ _)
  obtain ⟨A1, h1⟩ := addSub_ok_nil A cone ("inv_" ++ s0) H.cbb
    (fun y hy => hfreshI y ((has_iff_mem _ _).2 hy)) (typed_isNone H.lcone)
  obtain ⟨n1, e1, _, w1⟩ := sub_exact S.wf wcone h1
  have nm1 : A1.nodeNames = A.nodeNames ++ cone.nodeNames.map (pref ("inv_" ++ s0)) := by
    rw [names_append n1, names_nodesOf]
  have m1 : ∀ x, A.has x = true → A1.has x = true := fun x hx => has_mono_of_names nm1 hx
  have t1 : ∀ x, s2.has x = true → A1.ty? x = s2.ty? x := by
    intro x hx
    rw [Arith.ty?_append_left n1 (S.mono hx), S.tyOld x hx]
  have tc1 : ∀ p ∈ cone.nodes, A1.has (pref ("inv_" ++ s0) p.1) = true ∧
      A1.ty? (pref ("inv_" ++ s0) p.1) = (stripA p.2).ty := by
    intro p hp
    have hm : (pref ("inv_" ++ s0) p.1, stripA p.2) ∈ A1.nodes := by
      rw [n1]; exact List.mem_append.2 (Or.inr (List.mem_map.2 ⟨p, hp, rfl⟩))
    refine ⟨Miter.has_of_mem hm, ?_⟩
    rw [ty?, attr?_of_mem w1.nodup hm]
    rfl
  have hsp : ∀ s ∈ sp, A1.has s = true ∧ A1.ty? s = some "input" := by
    intro s hs
    have h2 : s2.has s = true := (B.has_iff s).2 (Or.inr (Or.inl hs))
    exact ⟨m1 _ (S.mono h2), by rw [t1 s h2, B.tyInp s hs]⟩
  have hcp : ∀ s ∈ sp, A1.has (pref ("inv_" ++ s0) s) = true ∧ A1.ty? (pref ("inv_" ++ s0) s) = some "buf" := by
    intro s hs
    have hin := H.spin s hs
    obtain ⟨a, ha⟩ := has_exists (mem_inputs_has hin)
    have hta : a.ty = some "input" := (mem_inputs_of_mem H.lcone.nodup ha).1 hin
    obtain ⟨k1, k2⟩ := tc1 (s, a) ha
    exact ⟨k1, by rw [k2]; exact Miter.stripA_input hta⟩
  have hed : ∀ e ∈ A1.edges, ∀ s ∈ sp, e.2 ≠ pref ("inv_" ++ s0) s := by
    intro e he s hs e2
    rw [e1, List.mem_append] at he
    rcases he with he | he
    · have := (S.wf.closed e he).2
      rw [e2, hfreshI s (mem_inputs_has (H.spin s hs))] at this
      cases this
    · obtain ⟨e0, h0, rfl⟩ := (mem_edgesOf _ _ _).1 he
      have e3 : e0.2 = s := pref_inj _ e2
      have hm : e0.1 ∈ cone.fanin s := Circuit.mem_fanin.2 (by rw [← e3]; exact h0)
      rw [noFanin_inputs H.lcone s (H.spin s hs)] at hm
      cases hm
  -- the wiring loop
  obtain ⟨A2, h2⟩ := inv_loop_ok H hs0 w1 hsp hcp hed
  obtain ⟨w2, nm2, ed2, ty2, ty2a, _⟩ := invFold s0 sp A1 A2 h2 w1
  have m2 : ∀ x, A1.has x = true → A2.has x = true := by
    intro x hx
    rw [has_iff_mem, nm2, ← has_iff_mem]; exact hx
  have t2 : ∀ x, s2.has x = true → (∀ y, x ≠ pref ("inv_" ++ s0) y) → A2.ty? x = s2.ty? x := by
    intro x hx hne
    rw [ty2 x (hne s0), t1 x hx]
  -- the comparator
  have hfreshD : A2.has ("dif_out_" ++ s0) = false := by
    rw [has_false_iff, nm2, nm1, List.mem_append, ← has_iff_mem]
    rintro (hh | hm)
    · rcases (S.has_iff _).1 hh with h2' | ⟨q, hq', ⟨y', _, e⟩ | e⟩
      · rcases (B.has_iff _).1 h2' with ⟨x, _, e⟩ | hm | ⟨x, _, e⟩
        · exact orig_ne_dif _ _ e.symm
        · exact H.clDif _ hm s0 hs0 rfl
        · exact pc_ne_dif _ _ e.symm
      · exact inv_ne_dif _ _ _ e.symm
      · exact hL1s q hq' (dif_inj e).symm
    · obtain ⟨y, _, e⟩ := List.mem_map.1 hm
      exact inv_ne_dif _ _ _ e
  have hpin := H.pcin i hi
  obtain ⟨ai, hai⟩ := has_exists (mem_inputs_has hpin)
  have htai : ai.ty = some "input" := (mem_inputs_of_mem H.lpc.nodup hai).1 hpin
  have hp0 : s2.has (pref "pc" ("in_" ++ toString i)) = true :=
    (B.has_iff _).2 (Or.inr (Or.inr ⟨_, mem_inputs_has hpin, rfl⟩))
  have hp2 : A2.ty? (pref "pc" ("in_" ++ toString i)) = some "buf" := by
    rw [t2 _ hp0 (fun y => pc_ne_inv _ _ _), B.tyPc _ hai]
    exact Miter.stripA_input htai
  have hp3 : A2.fanin (pref "pc" ("in_" ++ toString i)) = [] := by
    apply fanin_nil_of_edges
    intro e he e2
    rcases (ed2 e).1 he with he | ⟨s1, _, rfl⟩
    · rw [e1, List.mem_append] at he
      rcases he with he | he
      · exact S.pcin_undriven H B hi hL1i e he e2
      · obtain ⟨e0, _, rfl⟩ := (mem_edgesOf _ _ _).1 he
        exact pc_ne_inv _ _ _ e2.symm
    · exact pc_ne_inv _ _ _ e2.symm
  obtain ⟨an, han⟩ := has_exists H.hn
  have ho0 : s2.has (pref "orig" n) = true := (B.has_iff _).2 (Or.inl ⟨n, H.hn, rfl⟩)
  have ho2 : ∃ t, A2.ty? (pref "orig" n) = some t ∧ t ≠ "bb_input" ∧ t ≠ "bb_output" := by
    obtain ⟨t, k1, k2, k3⟩ := strip_nobb H.lcone han (H.nobb n)
    exact ⟨t, by rw [t2 _ ho0 (fun y => orig_ne_inv _ _ _), B.tyOrig _ han]; exact k1, k2, k3⟩
  have hi2 : ∃ t, A2.ty? (pref ("inv_" ++ s0) n) = some t ∧ t ≠ "bb_input" ∧ t ≠ "bb_output" := by
    by_cases hns : n = s0
    · subst hns
      exact ⟨"not", ty2a hs0, by decide, by decide⟩
    · obtain ⟨t, k1, k2, k3⟩ := strip_nobb H.lcone han (H.nobb n)
      refine ⟨t, ?_, k2, k3⟩
      rw [ty2 _ (fun e => hns (pref_inj _ e)), (tc1 _ han).2]
      exact k1
  obtain ⟨A', h3⟩ := dif_ok (n := n) (i := i) hfreshD (m2 _ (m1 _ (S.mono hp0))) hp2 hp3
    (m2 _ (m1 _ (S.mono ho0))) ho2 (m2 _ (tc1 _ han).1) hi2
  refine ⟨A', ?_⟩
  rw [senCopy_eq, h1, liftO_of, Miter.ok_bind, h2, Miter.ok_bind]
  exact h3

theorem copies_ok (H : OkH cone pcC sp n k) {s2 : Circuit} (B : S2 cone pcC sp s2) :
    ∃ s3, (idxL sp).foldlM (Tx.senCopy cone sp n) s2 = .ok s3 ∧ SA cone sp n s2 (idxL sp) s3 := by
  obtain ⟨s3, h3⟩ := foldlM_ok_prefix (Tx.senCopy cone sp n) (idxL sp) s2
    (fun L1 q L2 A hL hA => copy_step_ok H B (i := q.1) (s0 := q.2) hL hA)
  exact ⟨s3, h3, sa_of H B (fun q hq => hq) h3⟩

end

end SensOk
end CG
