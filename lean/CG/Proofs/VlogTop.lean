/- C02 helper: the whole transformer run on a module of continuous assignments. -/
import CG.Proofs.VlogFold
namespace CG
namespace VT
open Verilog Circuit Ternary

variable {D : Name → Prop} {ins : List Name}

/-! ### the three constant nodes -/

def c2 : Circuit :=
  { nodes := [("tie_0", { ty := some "0", out := some false }), ("tie_1", { ty := some "1", out := some false }),
              ("tie_x", { ty := some "x", out := some false })] }

theorem init_ok : (Tx.addC {} { n := "tie_0", ty := "0" } >>= fun c0 =>
    Tx.addC c0 { n := "tie_1", ty := "1" } >>= fun c1 => Tx.addC c1 { n := "tie_x", ty := "x" }) = .ok c2 := by
  rfl

theorem c2_has (x : Name) : c2.has x = true ↔ (x = "tie_0" ∨ x = "tie_1" ∨ x = "tie_x") := by
  unfold Circuit.has c2
  simp only [List.any_cons, List.any_nil, Bool.or_false, Bool.or_eq_true, beq_iff_eq]
  constructor
  · rintro (h | h | h)
    · exact Or.inl h.symm
    · exact Or.inr (Or.inl h.symm)
    · exact Or.inr (Or.inr h.symm)
  · rintro (h | h | h)
    · exact Or.inl h.symm
    · exact Or.inr (Or.inl h.symm)
    · exact Or.inr (Or.inr h.symm)

theorem c2_SI (D : Name → Prop) : SI D [] c2 := by
  constructor
  · exact ⟨by decide, by decide, fun e he => by cases he⟩
  · intro x hx
    rcases (c2_has x).mp hx with h | h | h
    · exact Or.inl h
    · exact Or.inr (Or.inl h)
    · exact Or.inr (Or.inr (Or.inl h))
  · rfl
  · rfl
  · rfl
  · intro x a ha hxx
    rcases (c2_has x).mp (has_of_attr' ha) with rfl | rfl | rfl
    · have : c2.attr? "tie_0" = some { ty := some "0", out := some false } := rfl
      rw [this] at ha; injection ha with ha; rw [← ha]
      exact ⟨rfl, "0", rfl, by decide⟩
    · have : c2.attr? "tie_1" = some { ty := some "1", out := some false } := rfl
      rw [this] at ha; injection ha with ha; rw [← ha]
      exact ⟨rfl, "1", rfl, by decide⟩
    · exact absurd rfl hxx
  · intro x
    constructor
    · intro h
      rcases (c2_has x).mp (has_of_ty? h) with rfl | rfl | rfl
      · exact absurd h (by decide)
      · exact absurd h (by decide)
      · exact absurd h (by decide)
    · intro h; cases h

/-! ### input declarations -/

theorem input_step {I : List Name} {st : TState} {i : Name} (hSI : SI D I st.c) (he : st.c.edges = []) (hi : D i)
    (hnt : i ≠ "tie_0" ∧ i ≠ "tie_1" ∧ i ≠ "tie_x") (hok : Limit.NameOK i) :
    ∃ c', addNode st i "input" [] false = .ok ({ st with c := c' }, i) ∧ SI D (I ++ [i]) c' ∧ c'.edges = [] ∧
      (∀ x, c'.has x = true ↔ (st.c.has x = true ∨ x = i)) := by
  obtain ⟨c', hadd, s⟩ := add_ok' st.c
    { n := i, ty := "input", fanin := [], uid := false, addConnected := true, allowRedef := true } i
    rfl (fun _ => rfl) hok (show "input" ∈ okTypes by decide)
    (by
      intro h
      have h' : "input" = "buf" ∨ "input" = "not" := h
      exact absurd h' (by decide))
    (fun _ => rfl) rfl (fun u hu => by cases hu) (fun u hu => by cases hu)
  have hedges : c'.edges = [] := by
    apply List.eq_nil_iff_forall_not_mem.mpr
    intro e he'
    have := (s.edges e).mp he'
    rw [he] at this
    simp at this
  have hhas : ∀ x, c'.has x = true ↔ (st.c.has x = true ∨ x = i) := by
    intro x; rw [s.has]; simp
  have hself : c'.attr? i = some { ty := some "input", out := some false } := s.attr_self
  have hattr : ∀ x, x ≠ i → c'.attr? x = st.c.attr? x := by
    intro x hx
    cases hc : st.c.has x with
    | true => exact s.attr_old x hx hc
    | false =>
      have : c'.has x = false := by
        cases h : c'.has x with
        | false => rfl
        | true =>
          rcases (hhas x).mp h with h1 | h1
          · rw [hc] at h1; cases h1
          · exact absurd h1 hx
      rw [attr?_none_of_not_has this, attr?_none_of_not_has hc]
  refine ⟨c', ?_, ?_, hedges, hhas⟩
  · unfold addNode addE
    rw [hadd]
    rfl
  · constructor
    · exact ⟨s.nodupN hSI.wf.nodup, s.nodupE hSI.wf.edgesNodup, fun e he' => by rw [hedges] at he'; cases he'⟩
    · intro x hx
      rcases (hhas x).mp hx with h | rfl
      · exact hSI.cls x h
      · exact Or.inr (Or.inr (Or.inr (Or.inl hi)))
    · rw [hattr _ (Ne.symm hnt.1)]; exact hSI.tie0
    · rw [hattr _ (Ne.symm hnt.2.1)]; exact hSI.tie1
    · rw [hattr _ (Ne.symm hnt.2.2)]; exact hSI.tiex
    · intro x ax hx hxx
      by_cases hxi : x = i
      · rw [hxi, hself] at hx
        injection hx with hx
        rw [← hx]
        exact ⟨rfl, "input", rfl, by decide⟩
      · rw [hattr x hxi] at hx
        exact hSI.typed x ax hx hxx
    · intro x
      rw [List.mem_append, List.mem_singleton, ← hSI.inp x]
      by_cases hxi : x = i
      · rw [hxi, ty_of_attr hself]
        simp
      · unfold Circuit.ty?
        rw [hattr x hxi]
        simp [hxi]

theorem input_items (bbs : List BBox) (ord : Ord) :
    ∀ (rest I : List Name) (st : TState) (d : Decls), SI D I st.c → st.c.edges = [] →
      (∀ i ∈ rest, D i ∧ (i ≠ "tie_0" ∧ i ≠ "tie_1" ∧ i ≠ "tie_x") ∧ Limit.NameOK i) →
      ∃ c' d', (rest.map (fun i => Item.input [i])).foldlM (doItem bbs ord) (st, d) = .ok ({ st with c := c' }, d') ∧
        d'.io = d.io ∧ d'.inputs = d.inputs ++ rest ∧ d'.outputs = d.outputs ∧
        SI D (I ++ rest) c' ∧ c'.edges = [] ∧ (∀ x, c'.has x = true ↔ (st.c.has x = true ∨ x ∈ rest))
  | [], I, st, d, hSI, he, _ => ⟨st.c, d, rfl, rfl, by simp, rfl, by simpa using hSI, he, by simp⟩
  | i :: rest, I, st, d, hSI, he, hr => by
    obtain ⟨hi, hnt, hok⟩ := hr i (by simp)
    obtain ⟨c1, h1, si1, he1, hh1⟩ := input_step hSI he hi hnt hok
    obtain ⟨c', d', h2, g1, g2, g3, si2, he2, hh2⟩ := input_items bbs ord rest (I ++ [i]) { st with c := c1 }
      { d with inputs := d.inputs ++ [i] } si1 he1 (fun j hj => hr j (List.mem_cons_of_mem _ hj))
    refine ⟨c', d', ?_, g1, by rw [g2]; simp, g3, by simpa using si2, he2, ?_⟩
    · rw [List.map_cons, List.foldlM_cons]
      have : doItem bbs ord (st, d) (Item.input [i]) = .ok ({ st with c := c1 }, { d with inputs := d.inputs ++ [i] }) := by
        simp only [doItem, List.foldlM_cons, List.foldlM_nil]
        rw [h1]
        rfl
      rw [this]
      exact h2
    · intro x
      rw [hh2, hh1, List.mem_cons]
      constructor
      · rintro ((h | h) | h)
        · exact Or.inl h
        · exact Or.inr (Or.inl h)
        · exact Or.inr (Or.inr h)
      · rintro (h | h | h)
        · exact Or.inl (Or.inl h)
        · exact Or.inl (Or.inr h)
        · exact Or.inr h

theorem output_items (bbs : List BBox) (ord : Ord) (st : TState) :
    ∀ (outs : List Name) (d : Decls),
      ∃ d', (outs.map (fun o => Item.output [o])).foldlM (doItem bbs ord) (st, d) = .ok (st, d') ∧
        d'.io = d.io ∧ d'.inputs = d.inputs ∧ d'.outputs = d.outputs ++ outs
  | [], d => ⟨d, rfl, rfl, rfl, by simp⟩
  | o :: outs, d => by
    obtain ⟨d', h, g1, g2, g3⟩ := output_items bbs ord st outs { d with outputs := d.outputs ++ [o] }
    refine ⟨d', ?_, g1, g2, by rw [g3]; simp⟩
    rw [List.map_cons, List.foldlM_cons]
    exact h

/-! ### the final steps: outputs, dropping unused constants -/

theorem setOutput_fold : ∀ (outs : List Name) (c : Circuit), (∀ o ∈ outs, c.has o = true) →
    outs.foldlM (fun c o => liftO (c.setOutput [o] true)) c = .ok (outs.foldl (fun acc n => acc.setOutRaw n true) c)
  | [], _, _ => rfl
  | o :: outs, c, h => by
    rw [List.foldlM_cons, List.foldl_cons]
    have h1 : liftO (c.setOutput [o] true) = .ok (c.setOutRaw o true) := by
      simp only [Circuit.setOutput, h o (by simp), if_true]
      rfl
    rw [h1]
    exact setOutput_fold outs _ (fun o' ho' => by rw [setOutRaw_has]; exact h o' (List.mem_cons_of_mem _ ho'))

def dropTie (c : Circuit) (t : Name) : Circuit := if (c.fanout t).isEmpty then c.remove [t] else c

structure DropOut (c c' : Circuit) (t : Name) : Prop where
  name : c'.name = c.name
  nodup : c.nodeNames.Nodup → c'.nodeNames.Nodup
  enodup : c.edges.Nodup → c'.edges.Nodup
  attr_o : ∀ x, x ≠ t → c'.attr? x = c.attr? x
  attr_t : c'.attr? t = c.attr? t ∨ c'.attr? t = none
  sem : c.nodeNames.Nodup → c.edges.Nodup → ∀ b : Bool,
    (∀ a t', c.attr? t = some a → a.ty = some t' → ∀ l b', gateFn t' l = some b' → b' = b) →
    ∀ v, Consistent c' v → ∃ v', Consistent c v' ∧ ∀ x, x ≠ t → v' x = v x

theorem dropTie_out (c : Circuit) (t : Name) : DropOut c (dropTie c t) t := by
  unfold dropTie
  by_cases hf : (c.fanout t).isEmpty = true
  · rw [if_pos hf]
    have hrm : c.remove [t] = c.removeNode t := rfl
    rw [hrm]
    have hfo : ∀ e ∈ c.edges, e.1 ≠ t := by
      intro e he het
      have : e.2 ∈ c.fanout t := mem_fanout.mpr (by rw [← het]; exact he)
      rw [List.isEmpty_iff] at hf
      rw [hf] at this
      cases this
    refine ⟨rfl, removeNode_nodup t, removeNode_edges_nodup t, ?_, ?_, ?_⟩
    · intro x hx; rw [removeNode_attr?, if_neg hx]
    · right; rw [removeNode_attr?, if_pos rfl]
    · intro hnd hed b hT v hv
      refine ⟨fun x => if x = t then b else v x, ?_, fun x hx => by simp only [if_neg hx]⟩
      intro p hp t' ht' b' hb'
      have hpa : c.attr? p.1 = some p.2 := attr?_of_mem hnd hp
      by_cases hpt : p.1 = t
      · simp only [if_pos hpt]
        exact (hT p.2 t' (hpt ▸ hpa) ht' _ b' hb').symm
      · simp only [if_neg hpt]
        have hmap : (c.fanin p.1).map (fun x => if x = t then b else v x) = (c.fanin p.1).map v := by
          apply List.map_congr_left
          intro u hu
          rw [if_neg (hfo _ (mem_fanin.mp hu))]
        rw [hmap] at hb'
        refine val_of hv (removeNode_edges_nodup t hed) (a := p.2) ?_ ht' (c.fanin p.1) (fanin_nodup hed p.1) ?_ hb'
        · rw [removeNode_attr?, if_neg hpt]; exact hpa
        · intro u
          rw [removeNode_mem, mem_fanin]
          constructor
          · exact fun h => h.1
          · exact fun h => ⟨h, hfo _ h, hpt⟩
  · rw [if_neg hf]
    exact ⟨rfl, id, id, fun _ _ => rfl, Or.inl rfl, fun _ _ _ _ v hv => ⟨v, hv, fun _ _ => rfl⟩⟩

/-- consistency only depends on node types and edges -/
theorem consistent_congr {c c' : Circuit} (hn : c'.nodeNames = c.nodeNames) (hnd : c.nodeNames.Nodup)
    (hty : ∀ x, c'.ty? x = c.ty? x) (he : c'.edges = c.edges) {v : Val} (hv : Consistent c' v) : Consistent c v := by
  intro p hp t ht b hb
  have hpa : c.attr? p.1 = some p.2 := attr?_of_mem hnd hp
  have hh : c'.has p.1 = true := by
    rw [has_iff_mem, hn]; exact List.mem_map.2 ⟨p, hp, rfl⟩
  obtain ⟨a', ha'⟩ := Limit.attr_of_has hh
  have hta' : a'.ty = some t := by
    have := hty p.1
    rw [ty_of_attr ha', ty_of_attr hpa, ht] at this
    exact this
  have hfan : c'.fanin p.1 = c.fanin p.1 := by unfold Circuit.fanin; rw [he]
  exact hv (p.1, a') (attr?_mem ha') t hta' b (by rw [hfan]; exact hb)

end VT
end CG
