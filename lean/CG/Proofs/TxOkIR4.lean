/- C05 (`insert_registers_ok`) helpers: the invariant carried through the two loops of `insert_registers` and the
   success of the loops -/
import CG.Proofs.TxOkIR3
set_option linter.unusedSimpArgs false
set_option linter.unusedVariables false
namespace CG
namespace TxOk
open Circuit InsReg LintProdD

/-! ### names of the flop pins -/

/-- the three pin suffixes -/
def pinSfx : List String := ["d", "q", "clk"]

theorem hasDot_ff (m : Name) (hm : hasDot m = false) : hasDot ("ff_" ++ m) = false := by
  rw [LintLink.hasDot_append, hm]; decide

theorem hasDot_pin (m g : Name) : hasDot ("ff_" ++ m ++ "." ++ g) = true := by
  rw [LintLink.hasDot_append, LintLink.hasDot_append]
  have : hasDot "." = true := by decide
  rw [this]; simp

/-- pins of different dot-free nodes are different -/
theorem pin_inj {m n g g' : Name} (hm : hasDot m = false) (hn : hasDot n = false)
    (h : "ff_" ++ m ++ "." ++ g = "ff_" ++ n ++ "." ++ g') : m = n := by
  have h1 := LintLink.dotPrefix_pin ("ff_" ++ m) g (hasDot_ff m hm)
  have h2 := LintLink.dotPrefix_pin ("ff_" ++ n) g' (hasDot_ff n hn)
  rw [h, h2] at h1
  exact ((String.append_right_inj _).1 h1).symm

/-! ### the invariant -/

/-- global part: lint-clean, with a clock that is no blackbox pin -/
structure Glob (cr : Circuit) : Prop where
  clean : LintClean cr
  hasclk : cr.has "clk" = true
  clk : NotPin cr "clk"

/-- what is needed of a node that is still to be spliced -/
structure Todo (cr : Circuit) (m : Name) : Prop where
  has : cr.has m = true
  dig : isDigit0 m = false
  dot : hasDot m = false
  notPin : NotPin cr m
  look : cr.bbs.lookup ("ff_" ++ m) = none
  fresh : ∀ g ∈ pinSfx, cr.has ("ff_" ++ m ++ "." ++ g) = false

theorem step_ok' {ord : Ord} (hord : OrdOK ord) (i : Nat) {cr : Circuit} {n : Name} (G : Glob cr) (T : Todo cr n) :
    ∃ cr', spliceStep ord i cr n = .ok cr' := by
  refine step_succeeds hord i G.clean T.has T.dig T.notPin G.hasclk G.clk T.look ?_ ?_ ?_
  · rw [← pin_d]; exact T.fresh "d" (by decide)
  · rw [← pin_q]; exact T.fresh "q" (by decide)
  · rw [← pin_k]; exact T.fresh "clk" (by decide)

theorem step_keeps {ord : Ord} (hord : OrdOK ord) {i : Nat} {cr cr' : Circuit} {n : Name} (G : Glob cr) (T : Todo cr n)
    (h : spliceStep ord i cr n = .ok cr') : Glob cr' ∧ ∀ m, m ≠ n → Todo cr m → Todo cr' m := by
  obtain ⟨r, S, hd, p1, p2⟩ := step_inv hord G.clean.toWF h
  have hnp : ∀ {m : Name}, cr.has m = true → NotPin cr m → NotPin cr' m := by
    intro m hm hp
    unfold NotPin
    rw [SpliceL.ty_old S hm]
    exact hp
  refine ⟨⟨SpliceL.lintClean S G.clean p1 p2, S.has_old S.hasclk, hnp S.hasclk G.clk⟩, ?_⟩
  intro m hmn Tm
  refine ⟨S.has_old Tm.has, Tm.dig, Tm.dot, hnp Tm.has Tm.notPin, ?_, ?_⟩
  · rw [S.bbs, List.lookup_append, Tm.look]
    have : ("ff_" ++ m == "ff_" ++ n) = false := by
      rw [beq_eq_false_iff_ne]
      exact fun e => hmn ((String.append_right_inj _).1 e)
    simp [List.lookup, this]
  · intro g hg
    cases hh : cr'.has ("ff_" ++ m ++ "." ++ g) with
    | false => rfl
    | true =>
      exfalso
      rcases SpliceL.has_cases S hh with h1 | h1 | h1 | h1 | h1
      · rw [Tm.fresh g hg] at h1; cases h1
      · have := hasDot_pin m g
        rw [h1, hd, T.dot] at this; cases this
      · rw [← pin_d] at h1; exact hmn (pin_inj Tm.dot T.dot h1)
      · rw [← pin_q] at h1; exact hmn (pin_inj Tm.dot T.dot h1)
      · rw [← pin_k] at h1; exact hmn (pin_inj Tm.dot T.dot h1)

/-! ### the loops -/

/-- the inner loop (one register level) -/
theorem inner_ok {ord : Ord} (hord : OrdOK ord) (i : Nat) : ∀ (l : List Name) (cr : Circuit), Glob cr → l.Nodup →
    (∀ m ∈ l, Todo cr m) →
    ∃ cr', l.foldlM (fun cr n => spliceStep ord i cr n) cr = .ok cr' ∧ Glob cr' ∧
      ∀ m, m ∉ l → Todo cr m → Todo cr' m
  | [], cr, G, _, _ => ⟨cr, rfl, G, fun _ _ h => h⟩
  | n :: l, cr, G, hnd, hT => by
    have hn := List.nodup_cons.1 hnd
    have Tn := hT n List.mem_cons_self
    obtain ⟨cr1, h1⟩ := step_ok' hord i G Tn
    obtain ⟨G1, K1⟩ := step_keeps hord G Tn h1
    obtain ⟨cr', h2, G2, K2⟩ := inner_ok hord i l cr1 G1 hn.2 (fun m hm =>
      K1 m (fun e => hn.1 (e ▸ hm)) (hT m (List.mem_cons_of_mem _ hm)))
    refine ⟨cr', ?_, G2, ?_⟩
    · rw [List.foldlM_cons, h1]
      exact h2
    · intro m hm Tm
      rw [List.mem_cons, not_or] at hm
      exact K2 m hm.2 (K1 m hm.1 Tm)

/-- the outer loop over the register levels -/
theorem outer_ok {ord : Ord} (hord : OrdOK ord) (names : Nat → List Name) : ∀ (levels : List Nat) (cr : Circuit),
    Glob cr → levels.Nodup → (∀ i ∈ levels, (names i).Nodup) →
    (∀ i ∈ levels, ∀ j ∈ levels, i ≠ j → ∀ m ∈ names i, m ∉ names j) →
    (∀ i ∈ levels, ∀ m ∈ names i, Todo cr m) →
    ∃ cr', levels.foldlM (fun cr i => (names i).foldlM (fun cr n => spliceStep ord i cr n) cr) cr = .ok cr'
  | [], cr, _, _, _, _, _ => ⟨cr, rfl⟩
  | i :: levels, cr, G, hnd, hN, hD, hT => by
    have hi := List.nodup_cons.1 hnd
    obtain ⟨cr1, h1, G1, K1⟩ := inner_ok hord i (names i) cr G (hN i List.mem_cons_self) (hT i List.mem_cons_self)
    obtain ⟨cr', h2⟩ := outer_ok hord names levels cr1 G1 hi.2
      (fun j hj => hN j (List.mem_cons_of_mem _ hj))
      (fun a ha b hb => hD a (List.mem_cons_of_mem _ ha) b (List.mem_cons_of_mem _ hb))
      (fun j hj m hm => K1 m
        (fun hmi => hD j (List.mem_cons_of_mem _ hj) i List.mem_cons_self (fun e => hi.1 (e ▸ hj)) m hm hmi)
        (hT j (List.mem_cons_of_mem _ hj) m hm))
    refine ⟨cr', ?_⟩
    rw [List.foldlM_cons, h1]
    exact h2

end TxOk
end CG
