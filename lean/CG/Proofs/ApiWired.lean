/- C07 helper: set-like formulation `WS` of the wiring clauses, and transfer lemmas -/
import CG.Proofs.ApiBasic
set_option linter.unusedSimpArgs false
set_option linter.unusedVariables false
namespace CG
open Circuit

/-- list-level wiring clauses (field-for-field the structure `C07.Wired`) -/
structure WiredL (c : Circuit) : Prop where
  nodup : c.nodeNames.Nodup
  edgesNodup : c.edges.Nodup
  closed : ∀ e ∈ c.edges, c.has e.1 = true ∧ c.has e.2 = true
  typed : ∀ p ∈ c.nodes, ∃ t, p.2.ty = some t ∧ t ∈ Expected.supported_types
  noFanin : ∀ e ∈ c.edges, ∀ t, c.ty? e.2 = some t → t ∉ ["input", "0", "1", "x", "bb_output"]
  single : ∀ n t, c.ty? n = some t → t ∈ ["bb_input", "buf", "not"] → (c.fanin n).length ≤ 1
  noBBInFanout : ∀ e ∈ c.edges, c.ty? e.1 ≠ some "bb_input"
  bbOut : ∀ e ∈ c.edges, c.ty? e.1 = some "bb_output" →
            c.ty? e.2 = some "buf" ∧ (c.fanout e.1).length ≤ 1

/-- the same clauses in terms of `has`, `ty?` and edge membership only -/
structure WS (c : Circuit) : Prop where
  nodup : c.nodeNames.Nodup
  edgesNodup : c.edges.Nodup
  closed : ∀ u v, (u, v) ∈ c.edges → c.has u = true ∧ c.has v = true
  typed : ∀ n, c.has n = true → ∃ t, c.ty? n = some t ∧ t ∈ Expected.supported_types
  noFanin : ∀ u v, (u, v) ∈ c.edges → ∀ t, c.ty? v = some t → t ∉ ["input", "0", "1", "x", "bb_output"]
  single : ∀ n t, c.ty? n = some t → t ∈ ["bb_input", "buf", "not"] →
            ∀ u u', (u, n) ∈ c.edges → (u', n) ∈ c.edges → u = u'
  noBBInFanout : ∀ u v, (u, v) ∈ c.edges → c.ty? u ≠ some "bb_input"
  bbOut : ∀ u v, (u, v) ∈ c.edges → c.ty? u = some "bb_output" →
            c.ty? v = some "buf" ∧ ∀ v', (u, v') ∈ c.edges → v' = v

theorem typed_of_typedL {c : Circuit}
    (h : ∀ p ∈ c.nodes, ∃ t, p.2.ty = some t ∧ t ∈ Expected.supported_types) :
    ∀ n, c.has n = true → ∃ t, c.ty? n = some t ∧ t ∈ Expected.supported_types := by
  intro n hn
  rw [has_eq_isSome] at hn
  cases ha : c.attr? n with
  | none => rw [ha] at hn; simp at hn
  | some a =>
    obtain ⟨t, ht, hs⟩ := h (n, a) (attr?_mem ha)
    exact ⟨t, by simpa [ty?, ha] using ht, hs⟩

theorem typedL_of_typed {c : Circuit} (hnd : c.nodeNames.Nodup)
    (h : ∀ n, c.has n = true → ∃ t, c.ty? n = some t ∧ t ∈ Expected.supported_types) :
    ∀ p ∈ c.nodes, ∃ t, p.2.ty = some t ∧ t ∈ Expected.supported_types := by
  rintro ⟨n, a⟩ hp
  have ha := attr?_of_mem hnd hp
  have hn : c.has n = true := by rw [has_eq_isSome, ha]; rfl
  obtain ⟨t, ht, hs⟩ := h n hn
  refine ⟨t, ?_, hs⟩
  simpa [ty?, ha] using ht

theorem WiredL_iff_WS (c : Circuit) : WiredL c ↔ WS c := by
  constructor
  · intro h
    refine ⟨h.nodup, h.edgesNodup, fun u v he => h.closed (u, v) he, typed_of_typedL h.typed,
      fun u v he => h.noFanin (u, v) he, ?_, fun u v he => h.noBBInFanout (u, v) he, ?_⟩
    · intro n t ht hs
      exact (fanin_le_one_iff h.edgesNodup n).1 (h.single n t ht hs)
    · intro u v he hu
      obtain ⟨h1, h2⟩ := h.bbOut (u, v) he hu
      exact ⟨h1, fun v' hv' => (fanout_le_one_iff h.edgesNodup u).1 h2 v' v hv' he⟩
  · intro h
    refine ⟨h.nodup, h.edgesNodup, fun e he => h.closed e.1 e.2 he, typedL_of_typed h.nodup h.typed,
      fun e he => h.noFanin e.1 e.2 he, ?_, fun e he => h.noBBInFanout e.1 e.2 he, ?_⟩
    · intro n t ht hs
      exact (fanin_le_one_iff h.edgesNodup n).2 (h.single n t ht hs)
    · intro e he hu
      obtain ⟨h1, h2⟩ := h.bbOut e.1 e.2 he hu
      refine ⟨h1, (fanout_le_one_iff h.edgesNodup e.1).2 ?_⟩
      intro x y hx hy
      rw [h2 x hx, h2 y hy]

/-- pins clause, identical to `C07.PinsOK` -/
def PinsOK' (c : Circuit) (gone : List Name) : Prop :=
  ∀ p ∈ c.bbs,
    (∀ g ∈ p.2.ins, (p.1 ++ "." ++ g) ∉ gone → c.ty? (p.1 ++ "." ++ g) = some "bb_input") ∧
    (∀ g ∈ p.2.outs, (p.1 ++ "." ++ g) ∉ gone → c.ty? (p.1 ++ "." ++ g) = some "bb_output")

def Inv' (c : Circuit) (gone : List Name) : Prop := WS c ∧ PinsOK' c gone

theorem WS.ty?_some {c : Circuit} (h : WS c) {n : Name} (hn : c.has n = true) : ∃ t, c.ty? n = some t := by
  obtain ⟨t, ht, _⟩ := h.typed n hn; exact ⟨t, ht⟩

/-- sub-circuit: fewer nodes / edges, types of the remaining nodes unchanged -/
theorem WS.sub {c c' : Circuit} (h : WS c) (hnd : c'.nodeNames.Nodup) (hed : c'.edges.Nodup)
    (hsub : ∀ e, e ∈ c'.edges → e ∈ c.edges)
    (hhas : ∀ n, c'.has n = true → c.has n = true ∧ c'.ty? n = c.ty? n)
    (hclosed : ∀ u v, (u, v) ∈ c'.edges → c'.has u = true ∧ c'.has v = true) : WS c' := by
  have hty : ∀ n t, c'.ty? n = some t → c.ty? n = some t := by
    intro n t ht; rw [← (hhas n (has_of_ty? ht)).2]; exact ht
  refine ⟨hnd, hed, hclosed, ?_, ?_, ?_, ?_, ?_⟩
  · intro n hn; obtain ⟨h1, h2⟩ := hhas n hn; rw [h2]; exact h.typed n h1
  · intro u v he t ht; exact h.noFanin _ _ (hsub _ he) t (hty _ _ ht)
  · intro n t ht hs u u' hu hu'; exact h.single n t (hty _ _ ht) hs u u' (hsub _ hu) (hsub _ hu')
  · intro u v he hb; exact h.noBBInFanout _ _ (hsub _ he) (hty _ _ hb)
  · intro u v he hb
    obtain ⟨h1, h2⟩ := h.bbOut _ _ (hsub _ he) (hty _ _ hb)
    refine ⟨?_, fun v' hv' => h2 v' (hsub _ hv')⟩
    rw [(hhas v (hclosed _ _ he).2).2]; exact h1

/-- same names, types and edges -/
theorem WS.congr {c c' : Circuit} (h : WS c) (hnames : c'.nodeNames = c.nodeNames)
    (hty : ∀ n, c'.ty? n = c.ty? n) (hedges : c'.edges = c.edges) : WS c' := by
  have hhas : ∀ n, c'.has n = c.has n := by
    intro n; rw [Bool.eq_iff_iff, has_iff_mem, has_iff_mem, hnames]
  apply h.sub (by rw [hnames]; exact h.nodup) (by rw [hedges]; exact h.edgesNodup)
  · intro e he; rw [hedges] at he; exact he
  · intro n hn; rw [hhas] at hn; exact ⟨hn, hty n⟩
  · intro u v he; rw [hedges] at he; rw [hhas, hhas]; exact h.closed _ _ he

/-- more (isolated, typed) nodes, same edges -/
theorem WS.extend {c c' : Circuit} (h : WS c) (hnd : c'.nodeNames.Nodup) (hedges : c'.edges = c.edges)
    (hhas : ∀ n, c.has n = true → c'.has n = true ∧ c'.ty? n = c.ty? n)
    (htyped : ∀ n, c'.has n = true → ∃ t, c'.ty? n = some t ∧ t ∈ Expected.supported_types) : WS c' := by
  refine ⟨hnd, by rw [hedges]; exact h.edgesNodup, ?_, htyped, ?_, ?_, ?_, ?_⟩
  · intro u v he; rw [hedges] at he
    obtain ⟨a, b⟩ := h.closed _ _ he
    exact ⟨(hhas _ a).1, (hhas _ b).1⟩
  · intro u v he t ht; rw [hedges] at he
    rw [(hhas _ (h.closed _ _ he).2).2] at ht
    exact h.noFanin _ _ he t ht
  · intro n t ht hs u u' hu hu'; rw [hedges] at hu hu'
    rw [(hhas _ (h.closed _ _ hu).2).2] at ht
    exact h.single n t ht hs u u' hu hu'
  · intro u v he; rw [hedges] at he
    rw [(hhas _ (h.closed _ _ he).1).2]
    exact h.noBBInFanout _ _ he
  · intro u v he hb; rw [hedges] at he
    rw [(hhas _ (h.closed _ _ he).1).2] at hb
    obtain ⟨h1, h2⟩ := h.bbOut _ _ he hb
    refine ⟨by rw [(hhas _ (h.closed _ _ he).2).2]; exact h1, ?_⟩
    intro v' hv'; rw [hedges] at hv'; exact h2 v' hv'

/-- the pins clause only looks at the registry and at the types of nodes that exist -/
theorem PinsOK'.ext {c c' : Circuit} {gone gone' : List Name} (h : PinsOK' c gone) (hb : c'.bbs = c.bbs)
    (hty : ∀ n, n ∉ gone' → c.has n = true → c'.ty? n = c.ty? n) (hg : ∀ n, n ∈ gone → n ∈ gone') :
    PinsOK' c' gone' := by
  intro p hp
  rw [hb] at hp
  obtain ⟨h1, h2⟩ := h p hp
  constructor
  · intro g hg' hgone
    have := h1 g hg' (fun hx => hgone (hg _ hx))
    rw [hty _ hgone (has_of_ty? this)]; exact this
  · intro g hg' hgone
    have := h2 g hg' (fun hx => hgone (hg _ hx))
    rw [hty _ hgone (has_of_ty? this)]; exact this

/-- transfer of the wiring clauses along a renaming that is injective on the nodes -/
theorem WS.transfer {c c' : Circuit} (h : WS c) (ρ : Name → Name)
    (hinj : ∀ x y, c.has x = true → c.has y = true → ρ x = ρ y → x = y)
    (hnd : c'.nodeNames.Nodup) (hed : c'.edges.Nodup)
    (hhas : ∀ n, c'.has n = true ↔ ∃ m, c.has m = true ∧ n = ρ m)
    (hty : ∀ m, c.has m = true → c'.ty? (ρ m) = c.ty? m)
    (hedge : ∀ e, e ∈ c'.edges ↔ ∃ e0 ∈ c.edges, e = (ρ e0.1, ρ e0.2)) : WS c' := by
  have edge' : ∀ {u v}, (u, v) ∈ c'.edges → ∃ u0 v0, (u0, v0) ∈ c.edges ∧ u = ρ u0 ∧ v = ρ v0 := by
    intro u v he
    obtain ⟨⟨u0, v0⟩, h0, e⟩ := (hedge _).1 he
    injection e with e1 e2
    exact ⟨u0, v0, h0, e1, e2⟩
  refine ⟨hnd, hed, ?_, ?_, ?_, ?_, ?_, ?_⟩
  · intro u v he
    obtain ⟨u0, v0, h0, rfl, rfl⟩ := edge' he
    obtain ⟨hu, hv⟩ := h.closed _ _ h0
    exact ⟨(hhas _).2 ⟨u0, hu, rfl⟩, (hhas _).2 ⟨v0, hv, rfl⟩⟩
  · intro n hn
    obtain ⟨m, hm, rfl⟩ := (hhas n).1 hn
    rw [hty m hm]; exact h.typed m hm
  · intro u v he t ht
    obtain ⟨u0, v0, h0, rfl, rfl⟩ := edge' he
    rw [hty v0 (h.closed _ _ h0).2] at ht
    exact h.noFanin _ _ h0 t ht
  · intro n t ht hs u u' hu hu'
    obtain ⟨u0, v0, h0, rfl, rfl⟩ := edge' hu
    obtain ⟨u1, v1, h1, rfl, e⟩ := edge' hu'
    have hv : v0 = v1 := hinj _ _ (h.closed _ _ h0).2 (h.closed _ _ h1).2 e
    subst hv
    rw [hty v0 (h.closed _ _ h0).2] at ht
    rw [h.single v0 t ht hs u0 u1 h0 h1]
  · intro u v he
    obtain ⟨u0, v0, h0, rfl, rfl⟩ := edge' he
    rw [hty u0 (h.closed _ _ h0).1]
    exact h.noBBInFanout _ _ h0
  · intro u v he hu
    obtain ⟨u0, v0, h0, rfl, rfl⟩ := edge' he
    rw [hty u0 (h.closed _ _ h0).1] at hu
    obtain ⟨hb, huniq⟩ := h.bbOut _ _ h0 hu
    refine ⟨by rw [hty v0 (h.closed _ _ h0).2]; exact hb, ?_⟩
    intro v' hv'
    obtain ⟨u1, v1, h1, e, rfl⟩ := edge' hv'
    have : u0 = u1 := hinj _ _ (h.closed _ _ h0).1 (h.closed _ _ h1).1 e
    subst this
    rw [huniq v1 h1]

/-- union of a wired circuit `c1` with a wired graph `g` whose `input` nodes become `buf`;
    nodes present on both sides are blackbox pins of `c1` (input pins meet `input` nodes of `g`,
    output pins meet non-pin, non-input nodes of `g`) -/
theorem WS.merge {c1 g F : Circuit} (h1 : WS c1) (hg : WS g)
    (hov : ∀ n, c1.has n = true → g.has n = true →
       (c1.ty? n = some "bb_input" ∧ g.ty? n = some "input") ∨
       (c1.ty? n = some "bb_output" ∧ ∃ t, g.ty? n = some t ∧ t ≠ "input" ∧ t ≠ "bb_input" ∧ t ≠ "bb_output"))
    (hnd : F.nodeNames.Nodup) (hed : F.edges.Nodup)
    (hhas : ∀ n, F.has n = true ↔ c1.has n = true ∨ g.has n = true)
    (hty : ∀ n, F.ty? n = if g.has n = true then
        (if g.ty? n = some "input" then some "buf" else g.ty? n) else c1.ty? n)
    (hedge : ∀ e, e ∈ F.edges ↔ e ∈ c1.edges ∨ e ∈ g.edges) : WS F := by
  have tyC : ∀ n, g.has n = false → F.ty? n = c1.ty? n := by
    intro n hn; rw [hty, if_neg (by simp [hn])]
  have tyG : ∀ n t, g.has n = true → g.ty? n = some t → t ≠ "input" → F.ty? n = some t := by
    intro n t hn ht hne; rw [hty, if_pos hn, ht, if_neg (by simpa using hne)]
  have tyGi : ∀ n, g.has n = true → g.ty? n = some "input" → F.ty? n = some "buf" := by
    intro n hn ht; rw [hty, if_pos hn, if_pos ht]
  have bcases : ∀ n, g.has n = true ∨ g.has n = false := by
    intro n; cases g.has n <;> simp
  refine ⟨hnd, hed, ?_, ?_, ?_, ?_, ?_, ?_⟩
  · -- closed
    intro u v he
    rcases (hedge _).1 he with he | he
    · obtain ⟨a, b⟩ := h1.closed _ _ he
      exact ⟨(hhas _).2 (Or.inl a), (hhas _).2 (Or.inl b)⟩
    · obtain ⟨a, b⟩ := hg.closed _ _ he
      exact ⟨(hhas _).2 (Or.inr a), (hhas _).2 (Or.inr b)⟩
  · -- typed
    intro n hn
    rcases bcases n with hgn | hgn
    · obtain ⟨t, ht, hs⟩ := hg.typed n hgn
      by_cases hi : t = "input"
      · subst hi; exact ⟨"buf", tyGi n hgn ht, by decide⟩
      · exact ⟨t, tyG n t hgn ht hi, hs⟩
    · rw [tyC n hgn]
      rcases (hhas n).1 hn with h | h
      · exact h1.typed n h
      · rw [hgn] at h; cases h
  · -- noFanin
    intro u v he t ht
    rcases (hedge _).1 he with he | he
    · have hcv := (h1.closed _ _ he).2
      rcases bcases v with hgv | hgv
      · rcases hov v hcv hgv with ⟨_, hgi⟩ | ⟨hc, _⟩
        · rw [tyGi v hgv hgi] at ht; injection ht with ht; subst ht; decide
        · exact absurd (by decide) (h1.noFanin _ _ he _ hc)
      · rw [tyC v hgv] at ht; exact h1.noFanin _ _ he t ht
    · have hgv := (hg.closed _ _ he).2
      obtain ⟨tg, htg⟩ := hg.ty?_some hgv
      have hz := hg.noFanin _ _ he tg htg
      have hi : tg ≠ "input" := by intro e; subst e; exact hz (by decide)
      rw [tyG v tg hgv htg hi] at ht; injection ht with ht; subst ht; exact hz
  · -- single
    intro n t ht hs u u' hu hu'
    have mixed : ∀ a b, (a, n) ∈ c1.edges → (b, n) ∈ g.edges → False := by
      intro a b ha hb
      rcases hov n (h1.closed _ _ ha).2 (hg.closed _ _ hb).2 with ⟨_, hgi⟩ | ⟨hc, _⟩
      · exact hg.noFanin _ _ hb _ hgi (by decide)
      · exact h1.noFanin _ _ ha _ hc (by decide)
    rcases (hedge _).1 hu with hu | hu <;> rcases (hedge _).1 hu' with hu' | hu'
    · have hcn := (h1.closed _ _ hu).2
      rcases bcases n with hgn | hgn
      · rcases hov n hcn hgn with ⟨hc, _⟩ | ⟨hc, _⟩
        · exact h1.single n _ hc (by decide) u u' hu hu'
        · exact absurd (by decide) (h1.noFanin _ _ hu _ hc)
      · rw [tyC n hgn] at ht; exact h1.single n t ht hs u u' hu hu'
    · exact (mixed _ _ hu hu').elim
    · exact (mixed _ _ hu' hu).elim
    · have hgn := (hg.closed _ _ hu).2
      obtain ⟨tg, htg⟩ := hg.ty?_some hgn
      have hz := hg.noFanin _ _ hu tg htg
      have hi : tg ≠ "input" := by intro e; subst e; exact hz (by decide)
      rw [tyG n tg hgn htg hi] at ht; injection ht with ht; subst ht
      exact hg.single n tg htg hs u u' hu hu'
  · -- noBBInFanout
    intro u v he
    rcases bcases u with hgu | hgu
    · obtain ⟨tg, htg⟩ := hg.ty?_some hgu
      by_cases hi : tg = "input"
      · subst hi; rw [tyGi u hgu htg]; decide
      · rw [tyG u tg hgu htg hi]
        rcases (hedge _).1 he with he | he
        · rcases hov u (h1.closed _ _ he).1 hgu with ⟨_, hgi⟩ | ⟨_, t', ht', _, hb, _⟩
          · rw [htg] at hgi; injection hgi with hgi; exact absurd hgi hi
          · rw [htg] at ht'; injection ht' with ht'; subst ht'
            intro e; injection e with e; exact hb e
        · have := hg.noBBInFanout _ _ he
          rw [htg] at this; exact this
    · rw [tyC u hgu]
      rcases (hedge _).1 he with he | he
      · exact h1.noBBInFanout _ _ he
      · have := (hg.closed _ _ he).1; rw [hgu] at this; cases this
  · -- bbOut
    intro u v he hu
    rcases bcases u with hgu | hgu
    · obtain ⟨tg, htg⟩ := hg.ty?_some hgu
      by_cases hi : tg = "input"
      · subst hi; rw [tyGi u hgu htg] at hu; injection hu with hu; exact absurd hu (by decide)
      · rw [tyG u tg hgu htg hi] at hu; injection hu with hu; subst hu
        have hcu : c1.has u = false := by
          cases hh : c1.has u with
          | false => rfl
          | true =>
            rcases hov u hh hgu with ⟨_, hgi⟩ | ⟨_, t', ht', _, _, hb⟩
            · rw [htg] at hgi; injection hgi with hgi; exact absurd hgi hi
            · rw [htg] at ht'; injection ht' with ht'; exact absurd ht'.symm hb
        have ing : ∀ x, (u, x) ∈ F.edges → (u, x) ∈ g.edges := by
          intro x hx
          rcases (hedge _).1 hx with hx | hx
          · have := (h1.closed _ _ hx).1; rw [hcu] at this; cases this
          · exact hx
        have heg := ing v he
        obtain ⟨hb, huniq⟩ := hg.bbOut _ _ heg htg
        exact ⟨tyG v "buf" (hg.closed _ _ heg).2 hb (by decide), fun v' hv' => huniq v' (ing v' hv')⟩
    · rw [tyC u hgu] at hu
      have inc : ∀ x, (u, x) ∈ F.edges → (u, x) ∈ c1.edges := by
        intro x hx
        rcases (hedge _).1 hx with hx | hx
        · exact hx
        · have := (hg.closed _ _ hx).1; rw [hgu] at this; cases this
      have hec := inc v he
      obtain ⟨hb, huniq⟩ := h1.bbOut _ _ hec hu
      refine ⟨?_, fun v' hv' => huniq v' (inc v' hv')⟩
      rcases bcases v with hgv | hgv
      · rcases hov v (h1.closed _ _ hec).2 hgv with ⟨hc, _⟩ | ⟨hc, _⟩
        · rw [hb] at hc; exact absurd hc (by decide)
        · rw [hb] at hc; exact absurd hc (by decide)
      · rw [tyC v hgv]; exact hb

end CG
