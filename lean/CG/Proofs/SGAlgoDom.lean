/- C17 (algorithm) helpers, part 1: abstract dominator theory over an arbitrary edge relation (paths avoiding a set),
   the link with `reachAvoid`, and the arg-max fold used by `idom`. -/
import CG.SupergatesAlgo
import CG.Proofs.QueryClosure
set_option linter.unusedSectionVars false
set_option linter.unusedVariables false
set_option linter.unusedSimpArgs false
namespace CG
namespace SGA
open Query Supergates

/-- a path from `a` to `b` all of whose nodes (both ends included) avoid `B` -/
inductive RA (E : Name → Name → Prop) (B : Name → Prop) : Name → Name → Prop where
  | refl (a : Name) : ¬ B a → RA E B a a
  | step {a b c : Name} : RA E B a b → E b c → ¬ B c → RA E B a c

namespace RA
variable {E : Name → Name → Prop} {B B' : Name → Prop}

theorem start_ok {a b : Name} (h : RA E B a b) : ¬ B a := by
  induction h with
  | refl h => exact h
  | step _ _ _ ih => exact ih

theorem end_ok {a b : Name} (h : RA E B a b) : ¬ B b := by
  cases h with
  | refl h => exact h
  | step _ _ h => exact h

theorem trans {a b c : Name} (h1 : RA E B a b) (h2 : RA E B b c) : RA E B a c := by
  induction h2 with
  | refl _ => exact h1
  | step _ he hb ih => exact .step ih he hb

theorem mono (hB : ∀ z, B' z → B z) {a b : Name} (h : RA E B a b) : RA E B' a b := by
  induction h with
  | refl h => exact .refl _ (fun hb => h (hB _ hb))
  | step _ he hb ih => exact .step ih he (fun hc => hb (hB _ hc))

theorem mono_rel {E' : Name → Name → Prop} (hE : ∀ a b, E a b → E' a b) {a b : Name} (h : RA E B a b) :
    RA E' B a b := by
  induction h with
  | refl h => exact .refl _ h
  | step _ he hb ih => exact .step ih (hE _ _ he) hb

theorem head {a b c : Name} (he : E a b) (ha : ¬ B a) (h : RA E B b c) : RA E B a c :=
  (RA.step (.refl a ha) he h.start_ok).trans h

end RA

/-- reachable from the root `r` avoiding the single node `d` -/
abbrev R (E : Name → Name → Prop) (r d : Name) (x : Name) : Prop := RA E (fun z => z = d) r x

/-- plainly reachable -/
abbrev Rch (E : Name → Name → Prop) (r x : Name) : Prop := RA E (fun _ => False) r x

theorem R.rch {E : Name → Name → Prop} {r d x : Name} (h : R E r d x) : Rch E r x :=
  RA.mono (fun _ hf => hf.elim) h

/-- a path avoiding `d` that cannot reach `e` avoiding `d` avoids `e` as well -/
theorem R_swap {E : Name → Name → Prop} {r d e x : Name} (h : R E r d x) (he : ¬ R E r d e) : R E r e x := by
  induction h with
  | refl h =>
    refine .refl _ ?_
    intro hae
    subst hae
    exact he (.refl _ h)
  | step hp hedge hc ih =>
    refine .step ih hedge ?_
    intro hce
    subst hce
    exact he (.step hp hedge hc)

/-- dominance is transitive -/
theorem dom_trans {E : Name → Name → Prop} {r d e x : Name} (h1 : ¬ R E r d e) (h2 : ¬ R E r e x) : ¬ R E r d x :=
  fun h => h2 (R_swap h h1)

/-- dominance is antisymmetric on reachable nodes -/
theorem dom_antisymm {E : Name → Name → Prop} {r d x : Name} (hx : Rch E r x) (hne : d ≠ x) :
    R E r d x ∨ R E r x d := by
  have key : ∀ y, Rch E r y → RA E (fun z => z = d ∨ z = x) r y ∨ R E r x d ∨ R E r d x := by
    intro y hy
    induction hy with
    | refl _ =>
      by_cases had : r = d
      · subst had; exact Or.inr (Or.inl (.refl r hne))
      · by_cases hax : r = x
        · subst hax; exact Or.inr (Or.inr (.refl r had))
        · exact Or.inl (.refl r (fun h => h.elim had hax))
    | @step _ c _ hedge _ ih =>
      rcases ih with h | h | h
      · by_cases hcd : c = d
        · subst hcd
          exact Or.inr (Or.inl (.step (RA.mono (fun z hz => Or.inr hz) h) hedge hne))
        · by_cases hcx : c = x
          · subst hcx
            exact Or.inr (Or.inr (.step (RA.mono (fun z hz => Or.inl hz) h) hedge hcd))
          · exact Or.inl (.step h hedge (fun h => h.elim hcd hcx))
      · exact Or.inr (Or.inl h)
      · exact Or.inr (Or.inr h)
  rcases key x hx with h | h | h
  · exact absurd (Or.inr rfl) h.end_ok
  · exact Or.inr h
  · exact Or.inl h

/-- two dominators of a reachable node are comparable -/
theorem dom_chain {E : Name → Name → Prop} {r d e x : Name} (hx : Rch E r x) (hne : d ≠ e)
    (hd : ¬ R E r d x) (he : ¬ R E r e x) : ¬ R E r e d ∨ ¬ R E r d e := by
  have hd0 : RA E (fun z => z = e) d d := .refl d hne
  have he0 : RA E (fun z => z = d) e e := .refl e (fun h => hne h.symm)
  have key : ∀ y, Rch E r y → RA E (fun z => z = d ∨ z = e) r y ∨ RA E (fun z => z = e) d y ∨
      RA E (fun z => z = d) e y := by
    intro y hy
    induction hy with
    | refl _ =>
      by_cases had : r = d
      · subst had; exact Or.inr (Or.inl hd0)
      · by_cases hae : r = e
        · subst hae; exact Or.inr (Or.inr he0)
        · exact Or.inl (.refl r (fun h => h.elim had hae))
    | @step _ c _ hedge _ ih =>
      by_cases hcd : c = d
      · subst hcd; exact Or.inr (Or.inl hd0)
      · by_cases hce : c = e
        · subst hce; exact Or.inr (Or.inr he0)
        · rcases ih with h | h | h
          · exact Or.inl (.step h hedge (fun h => h.elim hcd hce))
          · exact Or.inr (Or.inl (.step h hedge hce))
          · exact Or.inr (Or.inr (.step h hedge hcd))
  rcases key x hx with h | h | h
  · exact absurd (RA.mono (fun z hz => Or.inl hz) h) hd
  · exact Or.inl (fun hed => he (RA.trans hed h))
  · exact Or.inr (fun hde => hd (RA.trans hde h))

/-! ### `reachAvoid` computes `R` -/

theorem mem_reachAvoid (succ : Name → List Name) (U : List Name) (hU : ∀ a b, b ∈ succ a → b ∈ U)
    (n : Nat) (hn : U.length ≤ n) (root d x : Name) (hroot : root ∈ U) :
    x ∈ reachAvoid succ n root d ↔ R (Q.SuccRel succ) root d x := by
  unfold reachAvoid
  by_cases hrd : root = d
  · rw [if_pos (by simpa using hrd)]
    constructor
    · intro h; exact absurd h List.not_mem_nil
    · intro h; exact absurd hrd h.start_ok
  · rw [if_neg (by simpa using hrd)]
    have hU' : ∀ a b, b ∈ (succ a).filter (· != d) → b ∈ U := fun a b hb => hU a b (List.mem_filter.mp hb).1
    obtain ⟨_, r2, r3, r4⟩ := Q.closureGo_spec (fun x => (succ x).filter (· != d)) U hU' (n + 1) [root] [root]
      (List.nodup_cons.mpr ⟨List.not_mem_nil, List.nodup_nil⟩) (by intro y hy; rw [List.mem_singleton] at hy; exact hy ▸ hroot)
      (by simp; omega) (fun y hy => hy) (fun y hy hny => absurd hy hny)
    constructor
    · intro hx
      refine r4 (fun y => R (Q.SuccRel succ) root d y) ?_ ?_ x hx
      · intro y hy
        rw [List.mem_singleton] at hy
        subst hy
        exact .refl _ hrd
      · intro a b ha hb
        have hb' := List.mem_filter.mp hb
        exact .step ha hb'.1 (by simpa using hb'.2)
    · intro h
      induction h with
      | refl _ => exact r2 root (List.mem_singleton.mpr rfl)
      | step _ hedge hc ih =>
        exact r3 _ ih _ (List.mem_filter.mpr ⟨hedge, by simpa using hc⟩)

/-! ### the arg-max fold of `idom` -/

def pick (len : Name → Nat) (best : Option Name) (d : Name) : Option Name :=
  match best with
  | none => some d
  | some b => if len b < len d then some d else some b

theorem foldl_pick_some (len : Name → Nat) : ∀ (l : List Name) (b : Name),
    ∃ m, l.foldl (pick len) (some b) = some m ∧ (m = b ∨ m ∈ l) ∧ len b ≤ len m ∧ ∀ d ∈ l, len d ≤ len m
  | [], b => ⟨b, rfl, Or.inl rfl, Nat.le_refl _, fun d hd => absurd hd List.not_mem_nil⟩
  | x :: xs, b => by
    rw [List.foldl_cons]
    unfold pick
    by_cases hlt : len b < len x
    · simp only [hlt, if_true]
      obtain ⟨m, h1, h2, h3, h4⟩ := foldl_pick_some len xs x
      refine ⟨m, h1, ?_, by omega, ?_⟩
      · rcases h2 with h | h
        · exact Or.inr (h ▸ List.mem_cons_self)
        · exact Or.inr (List.mem_cons_of_mem _ h)
      · intro d hd
        rcases List.mem_cons.mp hd with h | h
        · exact h ▸ h3
        · exact h4 d h
    · simp only [hlt, if_false]
      obtain ⟨m, h1, h2, h3, h4⟩ := foldl_pick_some len xs b
      refine ⟨m, h1, ?_, h3, ?_⟩
      · rcases h2 with h | h
        · exact Or.inl h
        · exact Or.inr (List.mem_cons_of_mem _ h)
      · intro d hd
        rcases List.mem_cons.mp hd with h | h
        · rw [h]; omega
        · exact h4 d h

theorem foldl_pick (len : Name → Nat) (l : List Name) (hne : l ≠ []) :
    ∃ m, l.foldl (pick len) none = some m ∧ m ∈ l ∧ ∀ d ∈ l, len d ≤ len m := by
  cases l with
  | nil => exact absurd rfl hne
  | cons x xs =>
    rw [List.foldl_cons]
    show ∃ m, xs.foldl (pick len) (some x) = some m ∧ _
    obtain ⟨m, h1, h2, h3, h4⟩ := foldl_pick_some len xs x
    refine ⟨m, h1, ?_, ?_⟩
    · rcases h2 with h | h
      · exact h ▸ List.mem_cons_self
      · exact List.mem_cons_of_mem _ h
    · intro d hd
      rcases List.mem_cons.mp hd with h | h
      · exact h ▸ h3
      · exact h4 d h

theorem idom_eq_fold (succ : Name → List Name) (cone : List Name) (root x : Name) :
    idom succ cone root x = if x == root then none else
      (sdoms succ cone root x).foldl (pick (fun d => (sdoms succ cone root d).length)) none := by
  unfold idom
  split
  · rfl
  · rfl

end SGA
end CG
