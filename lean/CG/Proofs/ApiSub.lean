/- C07 helper: prefixing, relabelCopy, graphUpdate, IO stripping (shared by add_subcircuit / fill_blackbox) -/
import CG.Proofs.ApiBB
set_option linter.unusedSimpArgs false
set_option linter.unusedVariables false
namespace CG
open Circuit

/-! ### names -/

theorem pref_inj (name : Name) {a b : Name} (h : pref name a = pref name b) : a = b := by
  unfold pref at h
  rw [String.append_assoc, String.append_assoc] at h
  exact (String.append_right_inj _).1 ((String.append_right_inj _).1 h)

theorem pref_pin (name i g : Name) : pref name i ++ "." ++ g = pref name (i ++ "." ++ g) := by
  unfold pref
  simp only [String.append_assoc]

theorem pin_inj (inst : Name) {a b : Name} (h : inst ++ "." ++ a = inst ++ "." ++ b) : a = b := by
  rw [String.append_assoc, String.append_assoc] at h
  exact (String.append_right_inj _).1 ((String.append_right_inj _).1 h)

theorem pin_ne_pref (inst a b : Name) : inst ++ "." ++ a ≠ pref inst b := by
  unfold pref
  intro h
  rw [String.append_assoc, String.append_assoc] at h
  have h' := (String.append_right_inj _).1 h
  have := congrArg String.toList h'
  simp [String.toList_append] at this

/-! ### small list facts -/

theorem mem_union {a b : List Name} {x : Name} : x ∈ Circuit.union a b ↔ x ∈ a ∨ x ∈ b := by
  unfold Circuit.union
  simp only [List.mem_append, List.mem_filter]
  constructor
  · rintro (h | ⟨h, _⟩)
    · exact Or.inl h
    · exact Or.inr h
  · rintro (h | h)
    · exact Or.inl h
    · by_cases hx : x ∈ a
      · exact Or.inl hx
      · exact Or.inr ⟨h, by simpa using hx⟩

theorem sameSet_iff {a b : List Name} (h : sameSet a b = true) (x : Name) : x ∈ a ↔ x ∈ b := by
  unfold sameSet at h
  simp only [Bool.and_eq_true, List.all_eq_true] at h
  exact ⟨fun hx => List.contains_iff_mem.1 (h.1 x hx), fun hx => List.contains_iff_mem.1 (h.2 x hx)⟩

theorem mem_inputs {c : Circuit} (hnd : c.nodeNames.Nodup) (m : Name) :
    m ∈ c.inputs ↔ c.ty? m = some "input" := by
  unfold inputs filterType
  simp only [List.mem_map, List.mem_filter]
  constructor
  · rintro ⟨⟨n, a⟩, ⟨hp, hq⟩, e⟩
    simp only [] at e; subst e
    rw [ty?, attr?_of_mem hnd hp]
    simp only [Option.bind_some]
    cases hty : a.ty with
    | none => rw [hty] at hq; simp at hq
    | some t => rw [hty] at hq; simp at hq; rw [hq]
  · intro h
    have hh := has_of_ty? h
    rw [has_eq_isSome] at hh
    cases ha : c.attr? m with
    | none => rw [ha] at hh; simp at hh
    | some a =>
      refine ⟨(m, a), ⟨attr?_mem ha, ?_⟩, rfl⟩
      rw [ty?, ha] at h
      simp only [Option.bind_some] at h
      simp [h]

theorem mem_outputs_has {c : Circuit} {m : Name} (h : m ∈ c.outputs) : c.has m = true := by
  unfold outputs at h
  simp only [List.mem_map, List.mem_filter] at h
  obtain ⟨⟨n, a⟩, ⟨hp, _⟩, e⟩ := h
  simp only [] at e; subst e
  rw [has_iff_mem]; exact List.mem_map.2 ⟨(n, a), hp, rfl⟩

/-! ### folds of addNodeAttr -/

theorem foldl_addNodeAttr_view : ∀ (l : List (Name × Attr)) (acc : Circuit), (l.map (·.1)).Nodup →
    (l.foldl (fun acc p => acc.addNodeAttr p.1 p.2) acc).edges = acc.edges ∧
    (l.foldl (fun acc p => acc.addNodeAttr p.1 p.2) acc).bbs = acc.bbs ∧
    (acc.nodeNames.Nodup → (l.foldl (fun acc p => acc.addNodeAttr p.1 p.2) acc).nodeNames.Nodup) ∧
    (∀ m, (l.foldl (fun acc p => acc.addNodeAttr p.1 p.2) acc).has m = (acc.has m || (l.map (·.1)).contains m)) ∧
    (∀ n a, (n, a) ∈ l → (l.foldl (fun acc p => acc.addNodeAttr p.1 p.2) acc).ty? n =
        a.ty.orElse (fun _ => acc.ty? n)) ∧
    (∀ m, m ∉ l.map (·.1) → (l.foldl (fun acc p => acc.addNodeAttr p.1 p.2) acc).ty? m = acc.ty? m) := by
  intro l
  induction l with
  | nil =>
    intro acc _
    exact ⟨rfl, rfl, fun h => h, fun m => (by simp), fun n a h => (by cases h), fun m _ => rfl⟩
  | cons p l ih =>
    intro acc hnd
    obtain ⟨n0, a0⟩ := p
    simp only [List.map_cons, List.nodup_cons] at hnd
    obtain ⟨i1, i2, i3, i4, i5, i6⟩ := ih (acc.addNodeAttr n0 a0) hnd.2
    simp only [List.foldl_cons]
    refine ⟨by rw [i1, addNodeAttr_edges], by rw [i2, addNodeAttr_bbs],
      fun h => i3 (addNodeAttr_nodup n0 a0 h), ?_, ?_, ?_⟩
    · intro m
      rw [i4, addNodeAttr_has]
      simp only [List.map_cons, List.contains_cons, Bool.or_assoc]
    · intro n a hmem
      rcases List.mem_cons.1 hmem with e | hmem'
      · injection e with e1 e2; subst e1; subst e2
        rw [i6 n hnd.1, addNodeAttr_ty?, if_pos rfl]
      · have hne : n ≠ n0 := by
          intro e; subst e; exact hnd.1 (List.mem_map.2 ⟨(n, a), hmem', rfl⟩)
        rw [i5 n a hmem', addNodeAttr_ty?, if_neg hne]
    · intro m hm
      simp only [List.map_cons, List.mem_cons, not_or] at hm
      rw [i6 m hm.2, addNodeAttr_ty?, if_neg hm.1]

/-! ### relabelCopy along an injective renaming -/

theorem relabelCopy_view {sc : Circuit} (hsc : WS sc) (f : Name → Name)
    (hf : ∀ a b, f a = f b → a = b) :
    (sc.relabelCopy f).nodeNames.Nodup ∧ (sc.relabelCopy f).edges.Nodup ∧
    (sc.relabelCopy f).bbs = sc.bbs ∧
    (∀ m, (sc.relabelCopy f).has m = true ↔ ∃ n, sc.has n = true ∧ m = f n) ∧
    (∀ n, sc.has n = true → (sc.relabelCopy f).ty? (f n) = sc.ty? n) ∧
    (∀ e, e ∈ (sc.relabelCopy f).edges ↔ ∃ e0 ∈ sc.edges, e = (f e0.1, f e0.2)) := by
  unfold relabelCopy
  simp only []
  have hfold1 : ∀ (l : List (Name × Attr)) (acc : Circuit),
      l.foldl (fun acc p => acc.addNodeAttr (f p.1) p.2) acc =
      (l.map (fun p => (f p.1, p.2))).foldl (fun acc p => acc.addNodeAttr p.1 p.2) acc := by
    intro l acc; rw [List.foldl_map]
  have hfold2 : ∀ (l : List (Name × Name)) (acc : Circuit),
      l.foldl (fun acc e => acc.addEdge (f e.1) (f e.2)) acc =
      (l.map (fun e => (f e.1, f e.2))).foldl (fun acc e => acc.addEdge e.1 e.2) acc := by
    intro l acc; rw [List.foldl_map]
  rw [hfold1, hfold2]
  have hnames : (sc.nodes.map (fun p => (f p.1, p.2))).map (·.1) = sc.nodeNames.map f := by
    simp [nodeNames, List.map_map, Function.comp_def]
  have hnd : ((sc.nodes.map (fun p => (f p.1, p.2))).map (·.1)).Nodup := by
    rw [hnames]; exact nodup_map_of_inj hsc.nodup (fun x _ y _ e => hf x y e)
  obtain ⟨i1, i2, i3, i4, i5, i6⟩ :=
    foldl_addNodeAttr_view (sc.nodes.map (fun p => (f p.1, p.2))) { name := sc.name, bbs := sc.bbs } hnd
  generalize hg1 : (sc.nodes.map (fun p => (f p.1, p.2))).foldl (fun acc p => acc.addNodeAttr p.1 p.2)
      ({ name := sc.name, bbs := sc.bbs } : Circuit) = g1 at i1 i2 i3 i4 i5 i6
  have hn2 := foldl_addEdge_nodes (sc.edges.map (fun e => (f e.1, f e.2))) g1
  refine ⟨?_, ?_, ?_, ?_, ?_, ?_⟩
  · rw [nodeNames_congr hn2]; apply i3; simp [nodeNames]
  · apply foldl_addEdge_nodup; rw [i1]; simp
  · rw [foldl_addEdge_bbs, i2]
  · intro m
    rw [has_congr hn2, i4, hnames]
    have : ({ name := sc.name, bbs := sc.bbs } : Circuit).has m = false := by simp [has]
    rw [this, Bool.false_or, List.contains_iff_mem, List.mem_map]
    constructor
    · rintro ⟨n, hn, e⟩; exact ⟨n, (has_iff_mem sc n).2 hn, e.symm⟩
    · rintro ⟨n, hn, e⟩; exact ⟨n, (has_iff_mem sc n).1 hn, e.symm⟩
  · intro n hn
    rw [ty?_congr hn2]
    rw [has_eq_isSome] at hn
    cases ha : sc.attr? n with
    | none => rw [ha] at hn; simp at hn
    | some a =>
      have hmem : (f n, a) ∈ sc.nodes.map (fun p => (f p.1, p.2)) :=
        List.mem_map.2 ⟨(n, a), attr?_mem ha, rfl⟩
      rw [i5 (f n) a hmem]
      have : ({ name := sc.name, bbs := sc.bbs } : Circuit).ty? (f n) = none := by simp [ty?, attr?]
      rw [this, ty?, ha]
      simp only [Option.bind_some]
      cases hty : a.ty <;> simp [hty]
  · intro e
    rw [foldl_addEdge_mem, i1]
    simp only [List.mem_map]
    constructor
    · rintro (h | ⟨e0, h0, e1⟩)
      · simp at h
      · exact ⟨e0, h0, e1.symm⟩
    · rintro ⟨e0, h0, e1⟩
      exact Or.inr ⟨e0, h0, e1.symm⟩

theorem relabelCopy_WS {sc : Circuit} (hsc : WS sc) (f : Name → Name) (hf : ∀ a b, f a = f b → a = b) :
    WS (sc.relabelCopy f) := by
  obtain ⟨i1, i2, _, i4, i5, i6⟩ := relabelCopy_view hsc f hf
  exact hsc.transfer f (fun x y _ _ e => hf x y e) i1 i2 i4 i5 i6

/-! ### graphUpdate -/

theorem graphUpdate_view (c : Circuit) {g : Circuit} (hg : WS g) :
    (c.graphUpdate g).bbs = c.bbs ∧
    (c.nodeNames.Nodup → (c.graphUpdate g).nodeNames.Nodup) ∧
    (c.edges.Nodup → (c.graphUpdate g).edges.Nodup) ∧
    (∀ m, (c.graphUpdate g).has m = (c.has m || g.has m)) ∧
    (∀ m, (c.graphUpdate g).ty? m = if g.has m = true then g.ty? m else c.ty? m) ∧
    (∀ e, e ∈ (c.graphUpdate g).edges ↔ e ∈ c.edges ∨ e ∈ g.edges) := by
  unfold graphUpdate
  simp only []
  obtain ⟨i1, i2, i3, i4, i5, i6⟩ := foldl_addNodeAttr_view g.nodes c hg.nodup
  generalize (g.nodes.foldl (fun acc p => acc.addNodeAttr p.1 p.2) c) = c1 at i1 i2 i3 i4 i5 i6
  have hn2 := foldl_addEdge_nodes g.edges c1
  have hgh : ∀ m, (g.nodes.map (·.1)).contains m = g.has m := by
    intro m
    rw [Bool.eq_iff_iff, List.contains_iff_mem, has_iff_mem]; rfl
  refine ⟨by rw [foldl_addEdge_bbs, i2], fun h => by rw [nodeNames_congr hn2]; exact i3 h,
    fun h => foldl_addEdge_nodup _ (by rw [i1]; exact h), ?_, ?_, ?_⟩
  · intro m; rw [has_congr hn2, i4, hgh]
  · intro m
    rw [ty?_congr hn2]
    by_cases hm : g.has m = true
    · rw [if_pos hm]
      have hm' := hm
      rw [has_eq_isSome] at hm'
      cases ha : g.attr? m with
      | none => rw [ha] at hm'; simp at hm'
      | some a =>
        rw [i5 m a (attr?_mem ha)]
        obtain ⟨t, ht⟩ := hg.ty?_some hm
        have hat : a.ty = some t := by
          rw [ty?, ha] at ht; simpa using ht
        rw [ht, hat]; rfl
    · rw [if_neg hm]
      apply i6
      intro hmem
      apply hm
      rw [has_iff_mem]; exact hmem
  · intro e; rw [foldl_addEdge_mem, i1]

/-! ### folds of setTyRaw / setOutRaw -/

theorem foldl_setTyRaw_view (t : String) : ∀ (L : List Name) (c : Circuit),
    (L.foldl (fun acc n => acc.setTyRaw n t) c).edges = c.edges ∧
    (L.foldl (fun acc n => acc.setTyRaw n t) c).bbs = c.bbs ∧
    (L.foldl (fun acc n => acc.setTyRaw n t) c).nodeNames = c.nodeNames ∧
    (∀ m, (L.foldl (fun acc n => acc.setTyRaw n t) c).ty? m =
      if m ∈ L ∧ c.has m = true then some t else c.ty? m) := by
  intro L
  induction L with
  | nil => intro c; exact ⟨rfl, rfl, rfl, fun m => (by simp)⟩
  | cons n L ih =>
    intro c
    obtain ⟨i1, i2, i3, i4⟩ := ih (c.setTyRaw n t)
    simp only [List.foldl_cons]
    refine ⟨by rw [i1, setTyRaw_edges], by rw [i2, setTyRaw_bbs], by rw [i3, setTyRaw_nodeNames], ?_⟩
    intro m
    rw [i4, setTyRaw_has, setTyRaw_ty?]
    by_cases hm : c.has m = true
    · by_cases hL : m ∈ L
      · simp [hm, hL]
      · by_cases e : m = n
        · subst e; simp [hm, hL]
        · simp [hm, hL, e]
    · have : ¬ (m = n ∧ c.has n = true) := by
        rintro ⟨e, h⟩; subst e; exact hm h
      simp [hm, this]

theorem foldl_setOutRaw_view (b : Bool) : ∀ (L : List Name) (c : Circuit),
    (L.foldl (fun acc n => acc.setOutRaw n b) c).edges = c.edges ∧
    (L.foldl (fun acc n => acc.setOutRaw n b) c).bbs = c.bbs ∧
    (L.foldl (fun acc n => acc.setOutRaw n b) c).nodeNames = c.nodeNames ∧
    (∀ m, (L.foldl (fun acc n => acc.setOutRaw n b) c).ty? m = c.ty? m) := by
  intro L
  induction L with
  | nil => intro c; exact ⟨rfl, rfl, rfl, fun m => rfl⟩
  | cons n L ih =>
    intro c
    obtain ⟨i1, i2, i3, i4⟩ := ih (c.setOutRaw n b)
    simp only [List.foldl_cons]
    exact ⟨by rw [i1, setOutRaw_edges], by rw [i2, setOutRaw_bbs], by rw [i3, setOutRaw_nodeNames],
      fun m => by rw [i4, setOutRaw_ty?]⟩

theorem has_of_names {c c' : Circuit} (h : c'.nodeNames = c.nodeNames) (m : Name) : c'.has m = c.has m := by
  rw [Bool.eq_iff_iff, has_iff_mem, has_iff_mem, h]

/-- `c1 ∪ g`, inputs of `g` turned into buffers, output marks cleared -/
theorem strip_union {c1 g : Circuit} (h1 : WS c1) (hg : WS g)
    (hov : ∀ n, c1.has n = true → g.has n = true →
       (c1.ty? n = some "bb_input" ∧ g.ty? n = some "input") ∨
       (c1.ty? n = some "bb_output" ∧ ∃ t, g.ty? n = some t ∧ t ≠ "input" ∧ t ≠ "bb_input" ∧ t ≠ "bb_output"))
    (insL outsL : List Name) (hins : ∀ n, n ∈ insL ↔ g.ty? n = some "input") :
    WS (outsL.foldl (fun acc n => acc.setOutRaw n false)
          (insL.foldl (fun acc n => acc.setTyRaw n "buf") (c1.graphUpdate g))) ∧
    (outsL.foldl (fun acc n => acc.setOutRaw n false)
          (insL.foldl (fun acc n => acc.setTyRaw n "buf") (c1.graphUpdate g))).bbs = c1.bbs ∧
    (∀ n, (outsL.foldl (fun acc n => acc.setOutRaw n false)
          (insL.foldl (fun acc n => acc.setTyRaw n "buf") (c1.graphUpdate g))).ty? n =
        if g.has n = true then (if g.ty? n = some "input" then some "buf" else g.ty? n) else c1.ty? n) := by
  obtain ⟨u1, u2, u3, u4, u5, u6⟩ := graphUpdate_view c1 hg
  obtain ⟨s1, s2, s3, s4⟩ := foldl_setTyRaw_view "buf" insL (c1.graphUpdate g)
  obtain ⟨o1, o2, o3, o4⟩ := foldl_setOutRaw_view false outsL
    (insL.foldl (fun acc n => acc.setTyRaw n "buf") (c1.graphUpdate g))
  generalize (outsL.foldl (fun acc n => acc.setOutRaw n false)
          (insL.foldl (fun acc n => acc.setTyRaw n "buf") (c1.graphUpdate g))) = F at o1 o2 o3 o4
  generalize (insL.foldl (fun acc n => acc.setTyRaw n "buf") (c1.graphUpdate g)) = S at s1 s2 s3 s4 o1 o2 o3 o4
  generalize (c1.graphUpdate g) = U at u1 u2 u3 u4 u5 u6 s1 s2 s3 s4
  have hty : ∀ n, F.ty? n =
      if g.has n = true then (if g.ty? n = some "input" then some "buf" else g.ty? n) else c1.ty? n := by
    intro n
    rw [o4, s4, u5, u4]
    by_cases hgn : g.has n = true
    · simp only [if_pos hgn]
      by_cases hi : g.ty? n = some "input"
      · have : n ∈ insL ∧ (c1.has n || g.has n) = true := ⟨(hins n).2 hi, by simp [hgn]⟩
        rw [if_pos this, if_pos hi]
      · have : ¬ (n ∈ insL ∧ (c1.has n || g.has n) = true) := fun h => hi ((hins n).1 h.1)
        rw [if_neg this, if_neg hi]
    · simp only [if_neg hgn]
      have : ¬ (n ∈ insL ∧ (c1.has n || g.has n) = true) := by
        intro h
        exact hgn (has_of_ty? ((hins n).1 h.1))
      rw [if_neg this]
  have hnames : F.nodeNames = U.nodeNames := by rw [o3, s3]
  refine ⟨?_, by rw [o2, s2, u1], hty⟩
  apply WS.merge h1 hg hov
  · rw [hnames]; exact u2 h1.nodup
  · rw [o1, s1]; exact u3 h1.edgesNodup
  · intro n; rw [has_of_names hnames, u4]; simp
  · exact hty
  · intro e; rw [o1, s1]; exact u6 e

theorem ins_names_iff {sc : Circuit} (hsc : WS sc) (f : Name → Name) (hf : ∀ a b, f a = f b → a = b)
    (L : List Name) (hL : ∀ x, x ∈ L ↔ x ∈ sc.inputs) (m : Name) :
    m ∈ L.map f ↔ (sc.relabelCopy f).ty? m = some "input" := by
  obtain ⟨_, _, _, i4, i5, _⟩ := relabelCopy_view hsc f hf
  constructor
  · intro hm
    obtain ⟨n, hn, e⟩ := List.mem_map.1 hm
    subst e
    have hi := (mem_inputs hsc.nodup n).1 ((hL n).1 hn)
    rw [i5 n (has_of_ty? hi)]; exact hi
  · intro hm
    obtain ⟨n, hn, e⟩ := (i4 m).1 (has_of_ty? hm)
    subst e
    rw [i5 n hn] at hm
    exact List.mem_map.2 ⟨n, (hL n).2 ((mem_inputs hsc.nodup n).2 hm), rfl⟩

/-! ### registry folds, connectAll -/

theorem foldl_setBB_Inv (f : Name → Name) : ∀ (l : List (Name × BBox)) (c : Circuit) (gone : List Name),
    Inv' c gone →
    (∀ p ∈ l, (∀ g ∈ p.2.ins, c.ty? (f p.1 ++ "." ++ g) = some "bb_input") ∧
              (∀ g ∈ p.2.outs, c.ty? (f p.1 ++ "." ++ g) = some "bb_output")) →
    Inv' (l.foldl (fun acc p => acc.setBB (f p.1) p.2) c) gone := by
  intro l
  induction l with
  | nil => intro c gone h _; exact h
  | cons p l ih =>
    intro c gone h hp
    simp only [List.foldl_cons]
    apply ih
    · exact setBB_Inv h _ _ (fun g hg _ => (hp p (by simp)).1 g hg) (fun g hg _ => (hp p (by simp)).2 g hg)
    · intro q hq
      have hty : ∀ n, (c.setBB (f p.1) p.2).ty? n = c.ty? n := ty?_congr (setBB_nodes c _ _)
      obtain ⟨a, b⟩ := hp q (List.mem_cons_of_mem _ hq)
      exact ⟨fun g hg => by rw [hty]; exact a g hg, fun g hg => by rw [hty]; exact b g hg⟩

theorem connectAll_spec : ∀ (l : List (List Name × List Name)) (c : Circuit) (gone : List Name),
    Inv' c gone → Inv' (c.connectAll l).1 gone ∧
      ((c.connectAll l).2 = .ok ∨ (c.connectAll l).2 = .valueError) := by
  intro l
  induction l with
  | nil => intro c gone h; rw [connectAll]; exact ⟨h, Or.inl rfl⟩
  | cons x l ih =>
    intro c gone h
    obtain ⟨us, vs⟩ := x
    rw [connectAll]
    have hI := connect_Inv h us vs
    have hC := connect_class h.1.allTyped us vs
    split
    · rename_i c' heq; rw [heq] at hI; exact ih c' gone hI
    · exact ⟨hI, hC⟩

end CG
