/- C02 helper (structural netlists): what a circuit realising the specification `FV.Spec` computes — gate outputs,
   assigned nets, blackbox pins.  Stated in the `CG.FV` mirror vocabulary; CG/Props/C02.lean translates. -/
import CG.Proofs.VlogStructA
namespace CG
namespace VS
open Verilog FastVerilog Circuit FV

/-- value of an operand (mirror of `C02.opVal`) -/
def opVal (v : Val) : FV.ROp → Bool
  | .net n => v n
  | .c0 => false
  | .c1 => true

/-- mirror of `C02.primFn` -/
def primFn (ty : String) (ins : List Bool) : Bool :=
  if ty = "and" then ins.all id else if ty = "nand" then !ins.all id
  else if ty = "or" then ins.any id else if ty = "nor" then !ins.any id
  else if ty = "xor" then xorL ins else if ty = "xnor" then !xorL ins
  else if ty = "not" then !(ins.headD false) else ins.headD false

/-! ### the parity-normalised operand list -/

theorem parityOps_of_not_parity {ty : String} (h1 : ty ≠ "xor") (h2 : ty ≠ "xnor") (ops : List FV.ROp) :
    parityOps ty ops = ops := by
  unfold parityOps
  rw [if_neg]
  simp [h1, h2]

theorem parityOps_nodup_of_parity {ty : String} (h : ty = "xor" ∨ ty = "xnor") (ops : List FV.ROp) :
    (parityOps ty ops).Nodup := by
  unfold parityOps
  by_cases hl : (dedup ops).length < ops.length
  · rw [if_pos (by rcases h with rfl | rfl <;> simp [hl])]
    simp only []
    split
    · simp
    · exact List.Nodup.sublist List.filter_sublist (dedup_nodup ops)
  · rw [if_neg (by simp [hl])]
    exact nodup_of_dedup_length ops hl

theorem xorL_parityOps (ty : String) (ops : List FV.ROp) (g : FV.ROp → Bool) (hg : g .c0 = false) :
    xorL ((parityOps ty ops).map g) = xorL (ops.map g) := by
  unfold parityOps
  split
  · simp only []
    split
    · rename_i he
      rw [← xorL_odd g ops, List.isEmpty_iff.1 he]
      simp [xorL, hg]
    · exact xorL_odd g ops
  · rfl

/-! ### reading a realisation of the specification -/

section
variable {r : RMod} {bbs : List BBox} {c : Circuit}

theorem node_of_spec (hs : Spec r bbs "tie_0" "tie_1" c) {n : Name} {t : String} {o : Bool}
    (hn : NodeSpec r bbs "tie_0" "tie_1" n (some t, o)) :
    (∃ at', (n, at') ∈ c.nodes ∧ at'.ty = some t) ∧ c.ty? n = some t := by
  obtain ⟨at', hm, e⟩ := mem_of_view ((hs.node _ _).2 hn)
  injection e with e1 _
  refine ⟨⟨at', hm, e1.symm⟩, ?_⟩
  unfold Circuit.ty?
  rw [attr?_of_mem hs.wf.nodup hm]
  exact e1.symm

theorem node_of_defTy (hs : Spec r bbs "tie_0" "tie_1" c) {n : Name} {t : String}
    (hd : DefTy bbs r.inputs r.stmts n t) :
    (∃ at', (n, at') ∈ c.nodes ∧ at'.ty = some t) ∧ c.ty? n = some t :=
  node_of_spec hs (Or.inl ⟨t, hd, rfl⟩)

theorem gateFn_zero (l : List Bool) : gateFn "0" l = some false := by simp [gateFn]
theorem gateFn_one (l : List Bool) : gateFn "1" l = some true := by simp [gateFn]

/-- the node an edge starts at carries the value of the operand: constant nodes are typed `0` / `1` -/
theorem src_val (hs : Spec r bbs "tie_0" "tie_1" c) {v : Val} (hc : Consistent c v) {a : FV.ROp}
    (hu : ∃ s ∈ r.stmts, ∃ b, s.edge bbs a b) : v (a.nm "tie_0" "tie_1") = opVal v a := by
  cases a with
  | net n => rfl
  | c0 =>
    obtain ⟨⟨at', hm, hty⟩, _⟩ := node_of_spec hs (n := "tie_0") (t := "0") (o := false) (Or.inr (Or.inl ⟨rfl, rfl, hu⟩))
    exact hc _ hm "0" hty false (gateFn_zero _)
  | c1 =>
    obtain ⟨⟨at', hm, hty⟩, _⟩ := node_of_spec hs (n := "tie_1") (t := "1") (o := false) (Or.inr (Or.inr (Or.inl ⟨rfl, rfl, hu⟩)))
    exact hc _ hm "1" hty true (gateFn_one _)

/-- the edges into a node a statement defines are that statement's -/
theorem edge_into (h : Restricted r bbs) (hs : Spec r bbs "tie_0" "tie_1" c) {s : RStmt} (hm : s ∈ r.stmts)
    {b : Name} {t : String} (hd : s.dty bbs b t) (u : Name) :
    (u, b) ∈ c.edges ↔ ∃ a, s.edge bbs a b ∧ u = a.nm "tie_0" "tie_1" := by
  rw [hs.edges]
  constructor
  · rintro ⟨s', hs', a, b', he, e⟩
    injection e with e1 e2
    subst e2
    obtain ⟨t', ht'⟩ := edge_tgt he
    have := (RL.of_restricted h).same_stmt hs' hm ht' hd
    subst this
    exact ⟨a, he, e1⟩
  · rintro ⟨a, he, rfl⟩
    exact ⟨s, hm, a, b, he, rfl⟩

/-! ### gates -/

theorem gateFn_and (l : List Bool) : gateFn "and" l = some (l.all id) := by simp [gateFn]
theorem gateFn_nand (l : List Bool) : gateFn "nand" l = some (!l.all id) := by simp [gateFn]
theorem gateFn_or (l : List Bool) : gateFn "or" l = some (l.any id) := by simp [gateFn]
theorem gateFn_nor (l : List Bool) : gateFn "nor" l = some (!l.any id) := by simp [gateFn]
theorem gateFn_xor (l : List Bool) : gateFn "xor" l = some (xorL l) := by simp [gateFn]
theorem gateFn_xnor (l : List Bool) : gateFn "xnor" l = some (!xorL l) := by simp [gateFn]
theorem gateFn_buf (a : Bool) : gateFn "buf" [a] = some a := by simp [gateFn]
theorem gateFn_not (a : Bool) : gateFn "not" [a] = some (!a) := by simp [gateFn]

theorem primFn_and (l : List Bool) : primFn "and" l = l.all id := by simp [primFn]
theorem primFn_nand (l : List Bool) : primFn "nand" l = !l.all id := by simp [primFn]
theorem primFn_or (l : List Bool) : primFn "or" l = l.any id := by simp [primFn]
theorem primFn_nor (l : List Bool) : primFn "nor" l = !l.any id := by simp [primFn]
theorem primFn_xor (l : List Bool) : primFn "xor" l = xorL l := by simp [primFn]
theorem primFn_xnor (l : List Bool) : primFn "xnor" l = !xorL l := by simp [primFn]
theorem primFn_buf (a : Bool) : primFn "buf" [a] = a := by simp [primFn]
theorem primFn_not (a : Bool) : primFn "not" [a] = !a := by simp [primFn]

/-- a gate output carries the Verilog function of the operand values -/
theorem gate_sem (h : Restricted r bbs) (hs : Spec r bbs "tie_0" "tie_1" c) {ty inst out : Name} {ops : List FV.ROp}
    (hm : RStmt.gate ty inst out ops ∈ r.stmts) (v : Val) (hc : Consistent c v) :
    v out = primFn ty (ops.map (opVal v)) := by
  have hok := h.stmts _ hm
  obtain ⟨hty, _, _, hne, hun, _⟩ := hok
  have hd : (RStmt.gate ty inst out ops).dty bbs out ty := ⟨rfl, rfl⟩
  obtain ⟨⟨at', hn, hat⟩, _⟩ := node_of_defTy hs (Or.inr ⟨_, hm, hd⟩)
  have hnode := hc _ hn ty hat
  have hF : ∀ u, u ∈ c.fanin out ↔ ∃ a ∈ parityOps ty ops, u = a.nm "tie_0" "tie_1" := by
    intro u
    rw [mem_fanin, edge_into h hs hm hd]
    constructor
    · rintro ⟨a, ⟨ha, _⟩, e⟩; exact ⟨a, ha, e⟩
    · rintro ⟨a, ha, e⟩; exact ⟨a, ⟨ha, rfl⟩, e⟩
  have hval : ∀ a ∈ parityOps ty ops, v (a.nm "tie_0" "tie_1") = opVal v a :=
    fun a ha => src_val hs hc ⟨_, hm, out, ha, rfl⟩
  have hvalid : ∀ a ∈ parityOps ty ops, a.Valid "tie_0" "tie_1" :=
    fun a ha => edge_src_valid (h.stmts _ hm) (s := RStmt.gate ty inst out ops) (b := out) ⟨ha, rfl⟩ (by decide) (by decide)
  have hnd := fanin_nodup hs.wf.edgesNodup out
  have h1 : ∀ x ∈ c.fanin out, ∃ a ∈ parityOps ty ops, opVal v a = v x := by
    intro x hx
    obtain ⟨a, ha, rfl⟩ := (hF x).1 hx
    exact ⟨a, ha, (hval a ha).symm⟩
  have h2 : ∀ a ∈ parityOps ty ops, ∃ x ∈ c.fanin out, v x = opVal v a :=
    fun a ha => ⟨_, (hF _).2 ⟨a, ha, rfl⟩, hval a ha⟩
  -- duplicate-free operand lists: the fan-in is the operand list up to order
  have hperm : (parityOps ty ops).Nodup → ((c.fanin out).map v).Perm ((parityOps ty ops).map (opVal v)) := by
    intro hP
    have hp : (c.fanin out).Perm ((parityOps ty ops).map (ROp.nm "tie_0" "tie_1")) := by
      rw [List.perm_ext_iff_of_nodup hnd
        (nodup_map_of_inj hP (fun a ha b hb => nm_inj (by decide) (hvalid a ha) (hvalid b hb)))]
      intro u
      rw [hF, List.mem_map]
      constructor
      · rintro ⟨a, ha, e⟩; exact ⟨a, ha, e.symm⟩
      · rintro ⟨a, ha, e⟩; exact ⟨a, ha, e.symm⟩
    have := hp.map v
    rw [List.map_map] at this
    rw [show (parityOps ty ops).map (opVal v) = (parityOps ty ops).map (v ∘ ROp.nm "tie_0" "tie_1") from
      List.map_congr_left (fun a ha => (hval a ha).symm)]
    exact this
  have hxor : (ty = "xor" ∨ ty = "xnor") → xorL ((c.fanin out).map v) = xorL (ops.map (opVal v)) := by
    intro hp
    rw [Limit.xorL_perm (hperm (parityOps_nodup_of_parity hp ops)), xorL_parityOps ty ops (opVal v) rfl]
  have hsingle : (ty = "buf" ∨ ty = "not") → ∃ a, ops = [a] ∧ (c.fanin out).map v = [opVal v a] := by
    intro hp
    have hl := hun hp
    match ops, hl, hperm with
    | [a], _, hperm =>
      rw [parityOps_single] at hperm
      exact ⟨a, rfl, List.perm_singleton.1 (hperm (by simp))⟩
  apply hnode
  simp only [gateTypes, List.mem_cons, List.not_mem_nil, or_false] at hty
  rcases hty with rfl | rfl | rfl | rfl | rfl | rfl | rfl | rfl
  · rw [gateFn_xor, primFn_xor, hxor (Or.inl rfl)]
  · rw [gateFn_xnor, primFn_xnor, hxor (Or.inr rfl)]
  · obtain ⟨a, rfl, e⟩ := hsingle (Or.inl rfl)
    rw [e, List.map_singleton, gateFn_buf, primFn_buf]
  · obtain ⟨a, rfl, e⟩ := hsingle (Or.inr rfl)
    rw [e, List.map_singleton, gateFn_not, primFn_not]
  · rw [parityOps_of_not_parity (by decide) (by decide)] at h1 h2
    rw [gateFn_nor, primFn_nor, any_map_eq v (opVal v) _ ops h1 h2]
  · rw [parityOps_of_not_parity (by decide) (by decide)] at h1 h2
    rw [gateFn_or, primFn_or, any_map_eq v (opVal v) _ ops h1 h2]
  · rw [parityOps_of_not_parity (by decide) (by decide)] at h1 h2
    rw [gateFn_and, primFn_and, all_map_eq v (opVal v) _ ops h1 h2]
  · rw [parityOps_of_not_parity (by decide) (by decide)] at h1 h2
    rw [gateFn_nand, primFn_nand, all_map_eq v (opVal v) _ ops h1 h2]

/-! ### assigns -/

theorem assign_sem (h : Restricted r bbs) (hs : Spec r bbs "tie_0" "tie_1" c) {l : Name} {rhs : FV.ROp}
    (hm : RStmt.assign l rhs ∈ r.stmts) (v : Val) (hc : Consistent c v) : v l = opVal v rhs := by
  have hd : (RStmt.assign l rhs).dty bbs l "buf" := ⟨rfl, rfl⟩
  obtain ⟨⟨at', hn, hat⟩, _⟩ := node_of_defTy hs (Or.inr ⟨_, hm, hd⟩)
  have hnode := hc _ hn "buf" hat
  have hF : c.fanin l = [rhs.nm "tie_0" "tie_1"] := by
    apply eq_singleton_of_nodup (fanin_nodup hs.wf.edgesNodup l)
    intro u
    rw [mem_fanin, edge_into h hs hm hd]
    constructor
    · rintro ⟨a, ⟨rfl, _⟩, e⟩; exact e
    · rintro rfl; exact ⟨rhs, ⟨rfl, rfl⟩, rfl⟩
  rw [← src_val hs hc ⟨_, hm, l, rfl, rfl⟩]
  apply hnode
  rw [hF, List.map_singleton, gateFn_buf]

/-! ### blackbox instances -/

theorem bb_struct (h : Restricted r bbs) (hs : Spec r bbs "tie_0" "tie_1" c) {ty inst : Name}
    {pins : List (Name × Option FV.ROp)} (hm : RStmt.bb ty inst pins ∈ r.stmts) :
    ∃ d, bbs.find? (fun b => b.name == ty) = some d ∧ (inst, d) ∈ c.bbs ∧
      (∀ g ∈ d.ins, c.ty? (inst ++ "." ++ g) = some "bb_input" ∧
        c.fanin (inst ++ "." ++ g) =
          (match pins.lookup g with | some (some o) => [o.nm "tie_0" "tie_1"] | _ => [])) ∧
      (∀ g ∈ d.outs, c.ty? (inst ++ "." ++ g) = some "bb_output" ∧
        c.fanout (inst ++ "." ++ g) =
          (match pins.lookup g with | some (some o) => [o.nm "tie_0" "tie_1"] | _ => [])) := by
  have hrl := RL.of_restricted h
  obtain ⟨_, hinst, d, hd, hpl, hndd, hpn, hpm, hpo⟩ := h.stmts _ hm
  refine ⟨d, hd, (hs.bbs _).2 ⟨_, hm, d, hd, rfl⟩, ?_, ?_⟩
  · intro g hg
    have hdty : (RStmt.bb ty inst pins).dty bbs (inst ++ "." ++ g) "bb_input" :=
      ⟨d, hd, Or.inr (Or.inl ⟨g, hg, rfl, rfl⟩)⟩
    refine ⟨(node_of_defTy hs (Or.inr ⟨_, hm, hdty⟩)).2, ?_⟩
    have hF : ∀ u, u ∈ c.fanin (inst ++ "." ++ g) ↔ ∃ a, pins.lookup g = some (some a) ∧ u = a.nm "tie_0" "tie_1" := by
      intro u
      rw [mem_fanin, edge_into h hs hm hdty]
      constructor
      · rintro ⟨a, ⟨d', hd', p, o, hp, hcase⟩, e⟩
        refine ⟨a, ?_, e⟩
        rcases hcase with ⟨_, rfl, e'⟩ | ⟨_, _, rfl⟩
        · have := VR.pin_inj_right e'
          subst this
          exact (lookup_iff_mem hpn _ _).2 hp
        · exact absurd ((hpo _ hp _ rfl).1 _ (by simp [ROp.nets])) (pin_not_plain inst g)
      · rintro ⟨a, ha, e⟩
        exact ⟨a, ⟨d, hd, g, a, (lookup_iff_mem hpn _ _).1 ha, Or.inl ⟨hg, rfl, rfl⟩⟩, e⟩
    cases hl : pins.lookup g with
    | none =>
      apply eq_nil_of_no_mem
      intro u hu
      obtain ⟨a, ha, _⟩ := (hF u).1 hu
      rw [hl] at ha; cases ha
    | some x =>
      cases x with
      | none =>
        apply eq_nil_of_no_mem
        intro u hu
        obtain ⟨a, ha, _⟩ := (hF u).1 hu
        rw [hl] at ha; injection ha with ha; cases ha
      | some o =>
        apply eq_singleton_of_nodup (fanin_nodup hs.wf.edgesNodup _)
        intro u
        rw [hF, hl]
        constructor
        · rintro ⟨a, ha, e⟩
          injection ha with ha; injection ha with ha; subst ha; exact e
        · rintro rfl; exact ⟨o, rfl, rfl⟩
  · intro g hg
    have hdty : (RStmt.bb ty inst pins).dty bbs (inst ++ "." ++ g) "bb_output" :=
      ⟨d, hd, Or.inr (Or.inr ⟨g, hg, rfl, rfl⟩)⟩
    refine ⟨(node_of_defTy hs (Or.inr ⟨_, hm, hdty⟩)).2, ?_⟩
    have hties := pin_ne_ties hinst g
    have hF : ∀ w, w ∈ c.fanout (inst ++ "." ++ g) ↔ pins.lookup g = some (some (ROp.net w)) := by
      intro w
      rw [mem_fanout, hs.edges, lookup_iff_mem hpn]
      constructor
      · rintro ⟨s', hs', a, b, he, e⟩
        injection e with e1 e2
        subst e2
        rcases edge_src (h.stmts s' hs') he with rfl | rfl | ⟨n, rfl, _, hp⟩ | ⟨n, rfl, hdn⟩
        · exact absurd e1 hties.2.2.1
        · exact absurd e1 hties.2.2.2.1
        · exact absurd e1.symm (hp.ne_pin inst g)
        · have e1' : inst ++ "." ++ g = n := e1
          subst e1'
          have := hrl.same_stmt hs' hm hdn hdty
          subst this
          obtain ⟨d', hd', p, o, hp, hcase⟩ := he
          rcases hcase with ⟨_, ha, _⟩ | ⟨_, ha, rfl⟩
          · subst ha
            exact absurd ((hpo _ hp _ rfl).1 _ (by simp [ROp.nets])) (pin_not_plain inst g)
          · injection ha with ha
            have := VR.pin_inj_right ha
            subst this
            exact hp
      · intro hp
        exact ⟨_, hm, .net (inst ++ "." ++ g), w, ⟨d, hd, g, .net w, hp, Or.inr ⟨hg, rfl, rfl⟩⟩, rfl⟩
    cases hl : pins.lookup g with
    | none =>
      apply eq_nil_of_no_mem
      intro u hu
      have := (hF u).1 hu
      rw [hl] at this; cases this
    | some x =>
      cases x with
      | none =>
        apply eq_nil_of_no_mem
        intro u hu
        have := (hF u).1 hu
        rw [hl] at this; injection this with this; cases this
      | some o =>
        obtain ⟨n, rfl⟩ := (hpo _ ((lookup_iff_mem hpn _ _).1 hl) o rfl).2 hg
        apply eq_singleton_of_nodup (fanout_nodup hs.wf.edgesNodup _)
        intro u
        rw [hF, hl]
        constructor
        · intro e
          injection e with e; injection e with e; injection e with e
          exact e.symm
        · rintro rfl; rfl

end

end VS
end CG
