/-
  C09, regression example for a defect of `tx.unroll` that is fixed in the library (K33).

  `cex` has an input `a` that is also marked as an output, and `a` is used as a state output (paired with the
  state input `s`).  Before the fix, `unroll` created the io node of `a` as a `buf` (because `a` occurs in
  `state_io`), although `a` is an input of `cex` that is not a state *input*: `a_cg_unroll_t` was then an undriven
  buffer, missing from the inputs of the unrolled circuit (which is therefore not lint-clean), and `unroll_inputs`
  needed the extra hypothesis `hki : ∀ p ∈ stateIO, p.1 ∉ c.inputs`.
  Fixed in the library (K33): only state *inputs* are forced to buffers.  The theorems below check, on the former
  counterexample, that the per-step copies of `a` are now inputs of the unrolled circuit, that its inputs are exactly
  the ones `unroll_inputs` (now without `hki`) describes, and that the result is lint-clean.
-/
import CG.Props.C09
import CG.Lint
namespace CG.C09

def cex : Circuit :=
  { nodes := [("a", { ty := some "input", out := some true }), ("s", { ty := some "input", out := some false }),
              ("g", { ty := some "and", out := some true })],
    edges := [("a", "g"), ("s", "g")] }

def cexIO : List (Name × Name) := [("a", "s")]

theorem cex_good : Good cex ∧ Pairing cex cexIO :=
  ⟨⟨Limit.lintClean_of_checks cex ⟨by decide, by decide, by decide⟩ (by decide) (by decide) (by decide), rfl⟩,
    ⟨by decide, by decide, by decide, by decide, by decide⟩⟩

/-- the hypothesis `hki` that used to be needed (before the fix K33) fails here: `a` is a state output and an input -/
example : ¬ (∀ p ∈ cexIO, p.1 ∉ cex.inputs) := by decide

def cexUC : Circuit := ((Tx.unroll cex 2 cexIO "cg_unroll" id).toOption.map (·.1)).getD {}
def cexMap : List (Name × List Name) := ((Tx.unroll cex 2 cexIO "cg_unroll" id).toOption.map (·.2)).getD []

theorem cex_ok : Tx.unroll cex 2 cexIO "cg_unroll" id = .ok (cexUC, cexMap) := by
  have h : (Tx.unroll cex 2 cexIO "cg_unroll" id).toOption.isSome = true := by decide
  unfold cexUC cexMap
  cases hr : Tx.unroll cex 2 cexIO "cg_unroll" id with
  | error e => rw [hr] at h; cases h
  | ok r => rfl

/-- the io map of the unrolled circuit -/
theorem cex_map : cexMap = [("a", ["a_cg_unroll_0", "a_cg_unroll_1"]), ("s", ["s_cg_unroll_0", "s_cg_unroll_1"]),
    ("g", ["g_cg_unroll_0", "g_cg_unroll_1"])] := by decide

/-- fixed in the library (K33): the per-step copies of the input `a` (a state output) are inputs of the unrolled
    circuit — before the fix they were undriven buffers -/
theorem cex_input_copies : ∀ t, t < 2 → Tx.ioName cexMap "a" t ∈ cexUC.inputs := by decide

theorem cex_is_input : "a_cg_unroll_0" ∈ cexUC.inputs ∧ "a_cg_unroll_1" ∈ cexUC.inputs := by decide

/-- the inputs of the unrolled circuit: both copies of `a`, and the step-0 copy of the state input `s` -/
theorem cex_inputs : cexUC.inputs = ["a_cg_unroll_0", "s_cg_unroll_0", "a_cg_unroll_1"] := by decide

/-- the right-hand side of `unroll_inputs` for `a_cg_unroll_0` (it was false of the old result) -/
theorem cex_rhs : ∃ x ∈ cex.inputs, (∀ p ∈ cexIO, p.2 ≠ x) ∧ ∃ t, t < 2 ∧ "a_cg_unroll_0" = Tx.ioName cexMap x t :=
  ⟨"a", by decide, by decide, 0, by decide, by decide⟩

/-- fixed in the library (K33): the unrolled circuit is lint-clean (no undriven buffer any more) -/
theorem cex_lint_ok : lint cexUC = .ok := by decide

/-- `unroll_inputs` (without `hki`) applies to the former counterexample -/
theorem cex_unroll_inputs : ∀ y, y ∈ cexUC.inputs ↔
    ((∃ p ∈ cexIO, y = Tx.ioName cexMap p.2 0) ∨
     (∃ x ∈ cex.inputs, (∀ p ∈ cexIO, p.2 ≠ x) ∧ ∃ t, t < 2 ∧ y = Tx.ioName cexMap x t)) :=
  (unroll_inputs cex cexUC 2 cexIO "cg_unroll" id (fun l => List.Perm.refl l) cex_good.1 cex_good.2 cexMap cex_ok).2.2.1

end CG.C09
