/-
  C09, counterexample to the original statement of `unroll_inputs` (without the hypothesis `hki`).

  `cex` has an input `a` that is also marked as an output, and `a` is used as a state output (paired with the
  state input `s`).  `unroll` creates the io node of `a` as a `buf` (because `a` occurs in `state_io`), although
  `a` is an input of `cex` that is not a state *input*: the original right-hand side
  `∃ x ∈ c.inputs, (∀ p ∈ stateIO, p.2 ≠ x) ∧ ∃ t < n, y = ioName ioMap x t` then claims `a_cg_unroll_0` is a free
  input of the unrolled circuit, which it is not.
  The smallest repair is `hki : ∀ p ∈ stateIO, p.1 ∉ c.inputs` (no state output is itself an input node).
-/
import CG.Props.C09
namespace CG.C09

def cex : Circuit :=
  { nodes := [("a", { ty := some "input", out := some true }), ("s", { ty := some "input", out := some false }),
              ("g", { ty := some "and", out := some true })],
    edges := [("a", "g"), ("s", "g")] }

def cexIO : List (Name × Name) := [("a", "s")]

theorem cex_good : Good cex ∧ Pairing cex cexIO :=
  ⟨⟨Limit.lintClean_of_checks cex ⟨by decide, by decide, by decide⟩ (by decide) (by decide) (by decide), rfl⟩,
    ⟨by decide, by decide, by decide, by decide, by decide⟩⟩

/-- the hypothesis that was added fails here -/
example : ¬ (∀ p ∈ cexIO, p.1 ∉ cex.inputs) := by decide

def cexUC : Circuit := ((Tx.unroll cex 2 cexIO "cg_unroll" id).toOption.map (·.1)).getD {}
def cexMap : List (Name × List Name) := ((Tx.unroll cex 2 cexIO "cg_unroll" id).toOption.map (·.2)).getD []

theorem cex_ok : Tx.unroll cex 2 cexIO "cg_unroll" id = .ok (cexUC, cexMap) := by
  have h : (Tx.unroll cex 2 cexIO "cg_unroll" id).toOption.isSome = true := by decide
  unfold cexUC cexMap
  cases hr : Tx.unroll cex 2 cexIO "cg_unroll" id with
  | error e => rw [hr] at h; cases h
  | ok r => rfl

theorem cex_not_input : "a_cg_unroll_0" ∉ cexUC.inputs := by decide

theorem cex_rhs : ∃ x ∈ cex.inputs, (∀ p ∈ cexIO, p.2 ≠ x) ∧ ∃ t, t < 2 ∧ "a_cg_unroll_0" = Tx.ioName cexMap x t :=
  ⟨"a", by decide, by decide, 0, by decide, by decide⟩

/-- the original statement of `unroll_inputs` is false -/
theorem unroll_inputs_original_false :
    ¬ (∀ (c uc : Circuit) (n : Nat) (stateIO : List (Name × Name)) (pfx : String) (ord : Ord)
        (_ : OrdOK ord) (_ : Good c) (_ : Pairing c stateIO) (ioMap : List (Name × List Name))
        (_ : Tx.unroll c n stateIO pfx ord = .ok (uc, ioMap)),
        (ioMap.map (·.1)).Perm c.io ∧ (∀ p ∈ ioMap, p.2.length = n) ∧
        (∀ y, y ∈ uc.inputs ↔
          ((∃ p ∈ stateIO, y = Tx.ioName ioMap p.2 0) ∨
           (∃ x ∈ c.inputs, (∀ p ∈ stateIO, p.2 ≠ x) ∧ ∃ t, t < n ∧ y = Tx.ioName ioMap x t))) ∧
        (∀ y, y ∈ uc.outputs ↔ ∃ x ∈ c.outputs, ∃ t, t < n ∧ y = Tx.ioName ioMap x t)) := by
  intro H
  have h := (H cex cexUC 2 cexIO "cg_unroll" id (fun l => List.Perm.refl l) cex_good.1 cex_good.2 cexMap cex_ok).2.2.1
    "a_cg_unroll_0"
  exact cex_not_input (h.2 (Or.inr cex_rhs))

end CG.C09
