/- helper lemmas for C11: the construction phases of `sensitivity_transform` -/
import CG.Proofs.SensCone
set_option linter.unusedSimpArgs false
set_option linter.unusedVariables false
namespace CG
namespace Sens
open Circuit Miter
open Tx (addC)

/-! ### unfolding `sensitivity_transform` -/

def tieA (s : Name) : AddArgs := { n := s, ty := "input", fanout := ["orig_" ++ s] }
def outA (o : Nat) : AddArgs :=
  { n := "sen_out_" ++ toString o, ty := "buf", fanin := ["pc_out_" ++ toString o], output := true }

theorem sensitivity_steps {c sen : Circuit} {n : Name} {ord : Ord} (hb : c.bbs = [])
    (h : Tx.sensitivityTransform c n ord = .ok sen) :
    ∃ sp0 tfi pcC k s0 s1 s2 s3, Query.startpoints c [n] = .ok sp0 ∧ 1 ≤ (ord sp0).length ∧
      Query.transitiveFanin c [n] = .ok tfi ∧
      ({} : Circuit).addSubcircuit (Tx.inducedSub c (n :: tfi)) "orig" [] = (s0, .ok) ∧
      (ord sp0).foldlM (fun acc s => addC acc (tieA s)) s0 = .ok s1 ∧
      Logic.popcount (ord sp0).length = .ok pcC ∧
      s1.addSubcircuit pcC "pc" [] = (s2, .ok) ∧
      ((ord sp0).zipIdx.map (fun p => (p.2, p.1))).foldlM
        (Tx.senCopy (Tx.inducedSub c (n :: tfi)) (ord sp0) n) s2 = .ok s3 ∧
      Logic.clog2 ((ord sp0).length + 1) = .ok k ∧
      (List.range k).foldlM (fun acc o => addC acc (outA o)) s3 = .ok sen := by
  unfold Tx.sensitivityTransform at h
  simp only [hb, List.isEmpty_nil, Bool.not_true, Bool.false_eq_true, if_false] at h
  cases hsp : Query.startpoints c [n] with
  | error e => rw [hsp] at h; cases h
  | ok sp0 =>
    rw [hsp] at h
    simp only [pure_bind] at h
    by_cases hlen : (ord sp0).length < 1
    · rw [if_pos hlen] at h; cases h
    · rw [if_neg hlen] at h
      cases htfi : Query.transitiveFanin c [n] with
      | error e => rw [htfi] at h; cases h
      | ok tfi =>
        rw [htfi] at h
        simp only [pure_bind] at h
        obtain ⟨s0, h0, h⟩ := bind_ok h
        obtain ⟨s1, h1, h⟩ := bind_ok h
        obtain ⟨pcC, hp, h⟩ := bind_ok h
        obtain ⟨s2, h2, h⟩ := bind_ok h
        obtain ⟨s3, h3, h⟩ := bind_ok h
        obtain ⟨k, hk, h⟩ := bind_ok h
        exact ⟨sp0, tfi, pcC, k, s0, s1, s2, s3, rfl, by omega, rfl, liftO_ok h0, h1, hp, liftO_ok h2, h3, hk, h⟩

/-! ### names -/

theorem pref_orig (y : Name) : pref "orig" y = "orig_" ++ y := by
  unfold pref
  rw [String.append_assoc]
  rfl

theorem pref_pc (y : Name) : pref "pc" y = "pc_" ++ y := by
  unfold pref
  rw [String.append_assoc]
  rfl

theorem pc_in (i : Nat) : "pc_in_" ++ toString i = pref "pc" ("in_" ++ toString i) := by
  rw [pref_pc, ← String.append_assoc]
  rfl

theorem pc_out (o : Nat) : "pc_out_" ++ toString o = pref "pc" ("out_" ++ toString o) := by
  rw [pref_pc, ← String.append_assoc]
  rfl

/-! ### circuits whose node list is extended -/

theorem names_append {A B : Circuit} {L : List (Name × Attr)} (h : B.nodes = A.nodes ++ L) :
    B.nodeNames = A.nodeNames ++ L.map (·.1) := by
  unfold Circuit.nodeNames
  rw [h, List.map_append]

theorem wf_empty : WF ({} : Circuit) := ⟨List.nodup_nil, List.nodup_nil, fun e he => by cases he⟩

theorem has_of_names {A : Circuit} {x : Name} (h : x ∈ A.nodeNames) : A.has x = true := (has_iff_mem A x).2 h

/-- a node of the first part of a duplicate-free name list is not in the second part -/
theorem not_mem_right_of_nodup {l1 l2 : List Name} (h : (l1 ++ l2).Nodup) {x : Name} (h1 : x ∈ l1) : x ∉ l2 := by
  intro h2
  exact (List.nodup_append.1 h).2.2 x h1 x h2 rfl

/-! ### phase 1: the shared inputs -/

theorem plain_tieA (s : Name) : Plain (tieA s) := by
  refine ⟨rfl, rfl, rfl, by simp [tieA], by simp [tieA], by simp [tieA]⟩

theorem newEdges_tieA (s : Name) : newEdges (tieA s) = [(s, pref "orig" s)] := by
  rw [pref_orig]; rfl

/-- a shared input cannot be wired to a node whose type does not accept a driver -/
theorem tieA_target_ty {ci ci' : Circuit} {s : Name} (w : WF ci) (h : addC ci (tieA s) = .ok ci')
    {a : Attr} (hm : (pref "orig" s, a) ∈ ci.nodes) : a.ty ≠ some "bb_output" := by
  obtain ⟨hfresh, c3, h3, _⟩ := AU.addC_ok rfl rfl rfl h
  have hfo : (tieA s).fanout = [pref "orig" s] := by rw [pref_orig]; rfl
  have hk := (connect_ok h3).2.2.2.2.2.2 (by simp) (by rw [hfo]; simp)
  obtain ⟨_, _, kV, _⟩ := connectCheck_none hk
  obtain ⟨t, ht, hnot, _⟩ := kV (pref "orig" s) (by rw [hfo]; simp)
  have keep := AU.keeps_addNodeAttr (A := ci) { ty := some (tieA s).ty, out := some (tieA s).output } hfresh
    (pref "orig" s) (has_of_mem hm) (by simp)
  rw [keep.2.1, ty?, attr?_of_mem w.nodup hm] at ht
  simp only [Option.bind_some] at ht
  intro e
  rw [e] at ht
  injection ht with ht
  subst ht
  exact hnot (by decide)

/-! ### phase 4: the output buffers -/

theorem plain_outA (o : Nat) : Plain (outA o) := by
  refine ⟨rfl, rfl, rfl, by simp [outA], by simp [outA], ?_⟩
  simp only [outA, List.mem_singleton]
  name_ne

theorem newEdges_outA (o : Nat) :
    newEdges (outA o) = [(pref "pc" ("out_" ++ toString o), "sen_out_" ++ toString o)] := by
  rw [← pc_out]; rfl

end Sens
end CG
