/- C20 (second half, strip_blackboxes): machine-checked counterexamples to `C20.strip_blackboxes_passes_lint` as stated
   (`LintClean c`, `RegistryOK c` and a successful call do NOT imply that the result passes lint) -/
import CG.Props.C20
namespace CG
namespace LintProdDCex

/-- first counterexample: a dotted node that is not a pin.  `u.x` is a primary input named after the recorded (pin-less)
    instance `u`; lint accepts it because `u` is in the registry.  `strip_blackboxes` empties the registry and keeps
    the node under its dotted name, which lint then rejects. -/
def cexDot : Circuit :=
  { nodes := [("u.x", { ty := some "input", out := some false })],
    edges := [], bbs := [("u", { name := "m", ins := [], outs := [] })] }

/-- second counterexample: an ignored output pin that drives something.  The flop output `u.q` drives the buffer `o`;
    with `ignore_pins = ["q"]` the pin node is deleted and `o` stays behind as an undriven buffer. -/
def cexDrop : Circuit :=
  { nodes := [("a", { ty := some "input", out := some false }),
              ("u.d", { ty := some "bb_input", out := some false }),
              ("u.q", { ty := some "bb_output", out := some false }), ("o", { ty := some "buf", out := some true })],
    edges := [("a", "u.d"), ("u.q", "o")],
    bbs := [("u", { name := "ff", ins := ["d"], outs := ["q"] })] }

theorem ordOK_id : C20.OrdOK id := fun l => List.Perm.refl l

theorem cexDot_hyps : LintClean cexDot ∧ C20.RegistryOK cexDot :=
  C20.lintClean_of_lint_ok cexDot id ordOK_id ⟨by decide, by decide, by decide⟩ (by decide) (by decide)

theorem cexDrop_hyps : LintClean cexDrop ∧ C20.RegistryOK cexDrop :=
  C20.lintClean_of_lint_ok cexDrop id ordOK_id ⟨by decide, by decide, by decide⟩ (by decide) (by decide)

/-- the call succeeds and its result is rejected by lint -/
theorem cexDot_fails :
    (Tx.stripBlackboxes cexDot [] id).toOption.map (fun c' => lint c' {} id) = some Outcome.valueError := by
  decide +kernel

theorem cexDrop_fails :
    (Tx.stripBlackboxes cexDrop ["q"] id).toOption.map (fun c' => lint c' {} id) = some Outcome.valueError := by
  decide +kernel

private theorem refute (c : Circuit) (ig : List Name) (hh : LintClean c ∧ C20.RegistryOK c)
    (hf : (Tx.stripBlackboxes c ig id).toOption.map (fun c' => lint c' {} id) = some Outcome.valueError) :
    ¬ (∀ (c c' : Circuit) (ignore : List Name) (ord ord' : Ord), C20.OrdOK ord → C20.OrdOK ord' →
      LintClean c → C20.RegistryOK c → Tx.stripBlackboxes c ignore ord = .ok c' → lint c' {} ord' = Outcome.ok) := by
  intro hall
  cases hs : Tx.stripBlackboxes c ig id with
  | error e => rw [hs] at hf; cases hf
  | ok c' =>
    have hok := hall c c' ig id id ordOK_id ordOK_id hh.1 hh.2 hs
    rw [hs] at hf
    simp only [Except.toOption, Option.map_some, hok] at hf
    cases hf

/-- **the statement `C20.strip_blackboxes_passes_lint` is false as given** (dotted non-pin node; `ignore_pins = []`) -/
theorem strip_blackboxes_passes_lint_false :
    ¬ (∀ (c c' : Circuit) (ignore : List Name) (ord ord' : Ord), C20.OrdOK ord → C20.OrdOK ord' →
      LintClean c → C20.RegistryOK c → Tx.stripBlackboxes c ignore ord = .ok c' → lint c' {} ord' = Outcome.ok) :=
  refute cexDot [] cexDot_hyps cexDot_fails

/-- the second, independent reason (an ignored output pin with a load) -/
theorem strip_blackboxes_passes_lint_false' :
    ¬ (∀ (c c' : Circuit) (ignore : List Name) (ord ord' : Ord), C20.OrdOK ord → C20.OrdOK ord' →
      LintClean c → C20.RegistryOK c → Tx.stripBlackboxes c ignore ord = .ok c' → lint c' {} ord' = Outcome.ok) :=
  refute cexDrop ["q"] cexDrop_hyps cexDrop_fails

end LintProdDCex
end CG
