/- C05 (insert_registers) helpers: one iteration of the inner loop is a `Splice` -/
import CG.Proofs.InsRegOps
set_option linter.unusedSimpArgs false
set_option linter.unusedVariables false
namespace CG
namespace InsReg
open Circuit

/-- the body of the inner loop of `insert_registers` -/
def spliceStep (ord : Ord) (i : Nat) (cr : Circuit) (n : Name) : E Circuit :=
  addE (cr.disconnect [n] (ord (dedup (cr.fanout n))))
      { n := n ++ "_cg_insert_reg_q_" ++ toString i, ty := "buf", uid := true,
        fanout := ord (dedup (cr.fanout n)) } >>= fun r =>
    liftO (r.1.addBlackbox ffBox ("ff_" ++ n) [("d", [n]), ("q", [r.2]), ("clk", ["clk"])] ord)

theorem ne_of_length_lt {a b : String} (h : a.length < b.length) : a ≠ b := by
  rintro rfl; omega

theorem base_length (n : Name) (i : Nat) : n.length + 17 ≤ (n ++ "_cg_insert_reg_q_" ++ toString i).length := by
  rw [String.length_append, String.length_append]
  have : "_cg_insert_reg_q_".length = 17 := by decide
  omega

theorem uid_length {c : Circuit} {n r : Name} {i : Nat}
    (h : c.uid (n ++ "_cg_insert_reg_q_" ++ toString i) = some r) : n.length + 17 ≤ r.length := by
  rcases (Limit.uid_spec c _ r h).2 with rfl | ⟨j, rfl⟩
  · exact base_length n i
  · unfold uidName
    rw [String.length_append, String.length_append]
    have := base_length n i
    omega

theorem pin_length (n : Name) (p : String) : n.length + 3 ≤ ("ff_" ++ n ++ p).length := by
  rw [String.length_append, String.length_append]
  have : "ff_".length = 3 := by decide
  omega

theorem mem_disconnect_all {cr : Circuit} {ord : Ord} (hord : OrdOK ord) (n : Name) (e : Name × Name) :
    e ∈ (cr.disconnect [n] (ord (dedup (cr.fanout n)))).edges ↔ e ∈ cr.edges ∧ e.1 ≠ n := by
  unfold disconnect
  simp only [List.mem_filter, Bool.not_eq_true', Bool.and_eq_false_iff]
  constructor
  · rintro ⟨he, h1 | h1⟩
    · refine ⟨he, ?_⟩
      intro h2
      rw [h2] at h1
      simp at h1
    · refine ⟨he, ?_⟩
      intro h2
      have : e.2 ∈ ord (dedup (cr.fanout n)) := by
        rw [(hord _).mem_iff, Q.mem_dedup, mem_fanout, ← h2]
        exact he
      rw [← List.contains_iff_mem] at this
      rw [this] at h1
      cases h1
  · rintro ⟨he, h1⟩
    refine ⟨he, Or.inl ?_⟩
    simp [h1]

theorem splice_of_step {ord : Ord} (hord : OrdOK ord) {i : Nat} {cr cr' : Circuit} {n : Name} (hwf : WF cr)
    (h : spliceStep ord i cr n = .ok cr') : ∃ r, Splice cr cr' n r ("ff_" ++ n) := by
  obtain ⟨⟨cA, r⟩, hA, hB⟩ := AU.bind_ok h
  have hadd := addE_inv hA
  obtain ⟨hu, hfr, c2, h2, h3⟩ := add_inv rfl rfl hadd
  simp only [if_true] at hu
  rw [connect_empty_left] at h3
  injection h3 with h3 _
  subst h3
  have hB' := AU.liftO_ok hB
  simp only [] at hB'
  have S := addBlackbox_inv hord hB'
  obtain ⟨k2, kb2, _, _, e2, n2, _⟩ := connect_ok h2
  have hfr' : cr.has r = false := hfr
  have hlen := uid_length hu
  have hnodesA : c2.nodes = cr.nodes ++ [(r, bufA)] := by
    rw [k2, addNodeAttr_fresh _ hfr]
    rfl
  have hasA : ∀ m, cr.has m = true → c2.has m = true := by
    intro m hm
    rw [has_iff_mem] at hm ⊢
    rw [nodeNames, hnodesA, List.map_append]
    exact List.mem_append_left _ hm
  have hasAr : c2.has r = true := by
    rw [has_iff_mem, nodeNames, hnodesA]
    simp
  have freshA : ∀ m, c2.has m = false → cr.has m = false := by
    intro m hm
    cases hh : cr.has m with
    | false => rfl
    | true => rw [hasA m hh] at hm; cases hm
  have neA : ∀ m, c2.has m = false → r ≠ m := by
    rintro m hm rfl
    rw [hasAr] at hm
    cases hm
  have hnodes : ∀ p, p ∈ cr'.nodes ↔ p ∈ cr.nodes ∨ p = (r, bufA) ∨ p = ("ff_" ++ n ++ ".d", inA) ∨
      p = ("ff_" ++ n ++ ".q", outA) ∨ p = ("ff_" ++ n ++ ".clk", inA) := by
    intro p
    rw [S.nodes, hnodesA, List.mem_append, List.mem_singleton, or_assoc]
  have hasOld : ∀ m, m.length < n.length + 3 → cr'.has m = true → cr.has m = true := by
    intro m hm hh
    obtain ⟨at', hp⟩ := (RU.has_iff_exists cr' m).mp hh
    rcases (hnodes _).mp hp with hp | hp | hp | hp | hp
    · exact (RU.has_iff_exists cr m).mpr ⟨at', hp⟩
    · have := (Prod.mk.inj hp).1
      subst this
      omega
    all_goals
      have := (Prod.mk.inj hp).1
      have hl := pin_length n
      subst this
      first | (have := hl ".d"; omega) | (have := hl ".q"; omega) | (have := hl ".clk"; omega)
  have hasn : cr.has n = true := hasOld n (by omega) S.hasn
  refine ⟨r, ?_⟩
  refine
    { wf := hwf, hasn := hasn, hasclk := ?_, fr := hfr', fd := freshA _ S.fd, fq := freshA _ S.fq,
      fk := freshA _ S.fk, rd := neA _ S.fd, rq := neA _ S.fq, rk := neA _ S.fk, nodes := hnodes, nodup := ?_,
      edges := ?_, enodup := ?_, bbs := ?_ }
  · by_cases hl : "clk".length < n.length + 3
    · exact hasOld "clk" hl S.hasclk
    · -- `n` is the empty string: every new name is still longer than "clk"
      obtain ⟨at', hp⟩ := (RU.has_iff_exists cr' "clk").mp S.hasclk
      have h3 : "clk".length = 3 := by decide
      rcases (hnodes _).mp hp with hp | hp | hp | hp | hp
      · exact (RU.has_iff_exists cr "clk").mpr ⟨at', hp⟩
      · have := (Prod.mk.inj hp).1
        rw [← this] at hlen
        omega
      · have := (Prod.mk.inj hp).1
        have hl2 : ("ff_" ++ n ++ ".d").length = 3 + n.length + 2 := by
          rw [String.length_append, String.length_append]; rfl
        rw [← this] at hl2
        omega
      · have := (Prod.mk.inj hp).1
        have hl2 : ("ff_" ++ n ++ ".q").length = 3 + n.length + 2 := by
          rw [String.length_append, String.length_append]; rfl
        rw [← this] at hl2
        omega
      · have := (Prod.mk.inj hp).1
        have hl2 : ("ff_" ++ n ++ ".clk").length = 3 + n.length + 4 := by
          rw [String.length_append, String.length_append]; rfl
        rw [← this] at hl2
        omega
  · apply S.nodup
    rw [nodeNames_congr k2]
    exact addNodeAttr_nodup _ _ hwf.nodup
  · intro e
    rw [S.edges, e2, addNodeAttr_edges, mem_disconnect_all hord]
    have hfo : e.1 ∈ [r] ∧ e.2 ∈ ord (dedup (cr.fanout n)) ↔ e.1 = r ∧ (n, e.2) ∈ cr.edges := by
      rw [List.mem_singleton, (hord _).mem_iff, Q.mem_dedup, mem_fanout]
    rw [hfo, or_assoc]
  · apply S.enodup
    apply n2
    rw [addNodeAttr_edges]
    exact disconnect_edges_nodup _ _ hwf.edgesNodup
  · rw [S.bbs, kb2, addNodeAttr_bbs]
    rfl

end InsReg
end CG
