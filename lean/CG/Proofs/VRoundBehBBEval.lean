/- C03 helper (behavioural round trip WITH blackboxes): `evalExpr` on a mux-free expression over declared nets, in the
   presence of pin nodes: success, invariant, value of the returned net, backward extension.
   Generalises `VT.evalExpr_ok` / `VB.evalExpr_ok2`. -/
import CG.Proofs.VRoundBehBBInv
namespace CG
namespace VBB
open Verilog Circuit Ternary VT VB

variable {D P : Name → Prop} {ins : List Name} {c0 : Circuit}

/-- `VB.addNode_uid_ok2` with pins around -/
theorem addNode_uid_ok2' (hD : DeclOK' D P ins) (st : TState) (hSI : SI' D P ins c0 st.c) (base ty : String)
    (fanin : List Name)
    (hbase : IsSyn base) (hty : ty ∈ gateTys) (hlen : ty = "not" → fanin.length ≤ 1)
    (hfi : ∀ u ∈ fanin, Usable' D P st.c u) :
    ∃ c' n, addNode st base ty fanin true = .ok ({ st with c := c' }, n) ∧ GateOut' D P ins c0 st.c c' n ty fanin ∧
      BExt st.c c' := by
  have hsome := Limit.uid_isSome st.c base []
  cases hu : st.c.uid base with
  | none => rw [hu] at hsome; cases hsome
  | some r =>
    obtain ⟨hfresh, huid⟩ := Limit.uid_spec st.c base r hu
    have hsyn : IsSyn r := hbase.uidOf huid
    have hgt := gateTys_ok hty
    have hsup := okTypes_sup hgt.1
    obtain ⟨t', hadd, spec, hbbs, _⟩ := VR.add_ok_gen st.c
      { n := base, ty := ty, fanin := fanin, uid := true, addConnected := true, allowRedef := true } r
      (by simp only [if_true]; exact hu) (fun _ => rfl) hsyn.nameOK hsup.1 hsup.2
      (by
        rintro (h | h)
        · exact absurd h hgt.2.1
        · exact ⟨hlen h, fun _ e he => (hSI.not_has_of_edge hfresh e he).2⟩)
      (by
        rintro (h | h | h | h)
        · exact absurd h hgt.2.2.1
        · exact absurd h hgt.2.2.2.1
        · subst h; exact absurd hty (by decide)
        · exact absurd h hgt.2.2.2.2)
      rfl rfl
      (fun u hu' => hSI.usable_fi hD (hfi u hu'))
    have hnfi : r ∉ fanin := by
      intro hm
      rcases (hfi r hm).1 with ⟨h, _⟩ | h
      · rw [hfresh] at h; cases h
      · exact hD.notSyn r h hsyn
    refine ⟨t', r, ?_, gateOut_of_spec' hD hSI spec hbbs hsyn hfresh hty rfl rfl rfl hfi,
      gate_bext spec hSI.wf rfl hfresh hnfi hsyn⟩
    unfold addNode addE
    rw [hadd]
    rfl

theorem val_tie0' {c : Circuit} (h : SI' D P ins c0 c) : ValFact c "tie_0" (fun _ => false) := fun _ hv =>
  Arith.zero_val hv (attr?_mem h.tie0) rfl

theorem val_tie1' {c : Circuit} (h : SI' D P ins c0 c) : ValFact c "tie_1" (fun _ => true) := fun v hv =>
  hv _ (attr?_mem h.tie1) "1" rfl true (by simp [gateFn])

structure EvalOut' (D P : Name → Prop) (ins : List Name) (c0 : Circuit) (st st' : TState) (n : Name) (e : Expr) : Prop where
  si : SI' D P ins c0 st'.c
  ge : ∀ g ∈ st'.gateExprs, IsSyn g
  ext : Ext st.c st'.c
  val : ValFact st'.c n (fun v => denote v e)
  cls : (D n ∨ n = "tie_0" ∨ n = "tie_1") ∨
    (n ∈ st'.gateExprs ∧ IsSyn n ∧ st.c.has n = false ∧ st'.c.has n = true ∧ ∀ e ∈ st'.c.edges, e.1 ≠ n)

theorem EvalOut'.usable (hD : DeclOK' D P ins) {st st' : TState} {n : Name} {e : Expr}
    (o : EvalOut' D P ins c0 st st' n e) : Usable' D P st'.c n := by
  rcases o.cls with (h | rfl | rfl) | ⟨_, hs, _, hh, _⟩
  · exact ⟨Or.inr h, hD.dp n h⟩
  · exact ⟨Or.inl ⟨o.si.has_tie0, by decide⟩, fun hp => (hD.pNotTie _ hp).1 rfl⟩
  · exact ⟨Or.inl ⟨o.si.has_tie1, by decide⟩, fun hp => (hD.pNotTie _ hp).2.1 rfl⟩
  · refine ⟨Or.inl ⟨hh, ?_⟩, fun hp => hD.pNotSyn _ hp hs⟩
    rintro rfl
    exact tiex_not_syn hs

theorem EvalOut'.of_gate {st0 st : TState} {c' : Circuit} {n : Name} {ty : String} {fanin : List Name} {e : Expr}
    (hext0 : Ext st0.c st.c) (hge : ∀ g ∈ st.gateExprs, IsSyn g) (o : GateOut' D P ins c0 st.c c' n ty fanin)
    (hval : ValFact c' n (fun v => denote v e)) :
    EvalOut' D P ins c0 st0 { c := c', gateExprs := insertNew st.gateExprs n } n e where
  si := o.si
  ge := fun g hg => (mem_insertNew hg).elim (hge g) (fun h => h ▸ o.syn)
  ext := hext0.trans o.ext
  val := hval
  cls := by
    have hf : st0.c.has n = false := by
      cases h : st0.c.has n with
      | false => rfl
      | true => have := o.fresh; rw [hext0.mono n h] at this; cases this
    exact Or.inr ⟨mem_insertNew_self _ _, o.syn, hf, o.has, o.noOut⟩

theorem gate_ok2' (hD : DeclOK' D P ins) (st : TState) (hSI : SI' D P ins c0 st.c) (base ty : String) (fanin : List Name)
    (hbase : IsSyn base) (hty : ty ∈ gateTys) (hlen : ty = "not" → fanin.length ≤ 1)
    (hfi : ∀ u ∈ fanin, Usable' D P st.c u) :
    ∃ c' n, gate st base ty fanin = .ok ({ c := c', gateExprs := insertNew st.gateExprs n }, n) ∧
      GateOut' D P ins c0 st.c c' n ty fanin ∧ BExt st.c c' := by
  obtain ⟨c', n, h, o, b⟩ := addNode_uid_ok2' hD st hSI base ty fanin hbase hty hlen hfi
  refine ⟨c', n, ?_, o, b⟩
  unfold gate
  rw [h]
  rfl

theorem bin_step2' (hD : DeclOK' D P ins) {st s1 s2 : TState} {a b e : Expr} {ma mb : Name}
    (o1 : EvalOut' D P ins c0 st s1 ma a) (o2 : EvalOut' D P ins c0 s1 s2 mb b)
    (base ty : String) (hbase : IsSyn base) (hty : ty ∈ gateTys) (hnot : ty ≠ "not")
    (op : Bool → Bool → Bool)
    (h1 : ma = mb → ∀ b, gateFn ty [b] = some (op b b))
    (h2 : ma ≠ mb → ∀ b1 b2, gateFn ty [b1, b2] = some (op b1 b2))
    (hden : ∀ v, denote v e = op (denote v a) (denote v b)) :
    ∃ s3 n, gate s2 base ty [ma, mb] = .ok (s3, n) ∧ EvalOut' D P ins c0 st s3 n e ∧ BExt s2.c s3.c := by
  have hfi : ∀ u ∈ [ma, mb], Usable' D P s2.c u := by
    intro u hu
    simp only [List.mem_cons, List.not_mem_nil, or_false] at hu
    rcases hu with rfl | rfl
    · exact (o1.usable hD).mono o2.ext.mono
    · exact o2.usable hD
  obtain ⟨c', n, hg, go, bx⟩ := gate_ok2' hD s2 o2.si base ty [ma, mb] hbase hty (fun h => absurd h hnot) hfi
  refine ⟨_, n, hg, EvalOut'.of_gate (o1.ext.trans o2.ext) o2.ge go ?_, bx⟩
  intro v hv
  have hn : v n = op (v ma) (v mb) := val_bin op go.si.wf.edgesNodup go.ty go.fanin h1 h2 v hv
  have hv2 : Consistent s2.c v := go.ext.consistent o2.si.wf go.si.wf hv
  have hv1 : Consistent s1.c v := o2.ext.consistent o1.si.wf o2.si.wf hv2
  have e2 : v mb = denote v b := o2.val v hv2
  have e1 : v ma = denote v a := o1.val v hv1
  show v n = denote v e
  rw [hn, e2, e1]
  exact (hden v).symm

/-- `VT.evalExpr_ok` for mux-free expressions, with the backward extension -/
theorem evalExpr_ok2' (hD : DeclOK' D P ins) : ∀ (e : Expr) (st : TState), SI' D P ins c0 st.c → (∀ g ∈ st.gateExprs, IsSyn g) →
    (∀ x ∈ exprIds e, D x) → BinConsts e → VP.NoMux e →
    ∃ st' n, evalExpr st e = .ok (st', n) ∧ EvalOut' D P ins c0 st st' n e ∧ BExt st.c st'.c
  | .id s, st, hSI, hge, hids, _, _ =>
    ⟨st, s, rfl, ⟨hSI, hge, Ext.refl _, fun _ _ => rfl, Or.inl (Or.inl (hids s (by simp [exprIds])))⟩, BExt.refl _⟩
  | .const c, st, hSI, hge, _, hc, _ => by
    rcases hc with rfl | rfl
    · exact ⟨st, "tie_0", rfl, ⟨hSI, hge, Ext.refl _, val_tie0' hSI, Or.inl (Or.inr (Or.inl rfl))⟩, BExt.refl _⟩
    · exact ⟨st, "tie_1", rfl, ⟨hSI, hge, Ext.refl _, val_tie1' hSI, Or.inl (Or.inr (Or.inr rfl))⟩, BExt.refl _⟩
  | .not a, st, hSI, hge, hids, hc, hnm => by
    obtain ⟨s1, m, h1, o1, b1⟩ := evalExpr_ok2' hD a st hSI hge hids hc hnm
    obtain ⟨c', n, hg, go, bg⟩ := gate_ok2' hD s1 o1.si ("not_" ++ m) "not" [m] (isSyn_lit (by decide) m) (by decide)
      (fun _ => by simp) (by intro u hu; rw [List.mem_singleton] at hu; rw [hu]; exact o1.usable hD)
    refine ⟨_, n, ?_, EvalOut'.of_gate o1.ext o1.ge go ?_, b1.trans bg o1.ext.mono⟩
    · simp only [evalExpr]
      rw [h1]
      exact hg
    · intro v hv
      have e0 : v n = !v m := val_not go.si.wf.edgesNodup go.ty go.fanin v hv
      have e1 : v m = denote v a := o1.val v (go.ext.consistent o1.si.wf go.si.wf hv)
      show v n = denote v (.not a)
      rw [e0, e1]
      rfl
  | .and a b, st, hSI, hge, hids, hc, hnm => by
    obtain ⟨s1, ma, h1, o1, b1⟩ := evalExpr_ok2' hD a st hSI hge (fun x hx => hids x (by simp [exprIds, hx])) hc.1 hnm.1
    obtain ⟨s2, mb, h2, o2, b2⟩ := evalExpr_ok2' hD b s1 o1.si o1.ge (fun x hx => hids x (by simp [exprIds, hx])) hc.2 hnm.2
    obtain ⟨s3, n, hg, o3, b3⟩ := bin_step2' hD o1 o2 ("and_" ++ ma ++ "_" ++ mb) "and" (syn3 (by decide) ma mb)
      (by decide) (by decide) (· && ·) (fun _ => gate_and1) (fun _ => gate_and2) (e := .and a b) (fun _ => rfl)
    refine ⟨s3, n, ?_, o3, (b1.trans b2 o1.ext.mono).trans b3 (o1.ext.trans o2.ext).mono⟩
    simp only [evalExpr]
    rw [h1]
    simp only [Arith.bind_ok]
    rw [h2]
    exact hg
  | .or a b, st, hSI, hge, hids, hc, hnm => by
    obtain ⟨s1, ma, h1, o1, b1⟩ := evalExpr_ok2' hD a st hSI hge (fun x hx => hids x (by simp [exprIds, hx])) hc.1 hnm.1
    obtain ⟨s2, mb, h2, o2, b2⟩ := evalExpr_ok2' hD b s1 o1.si o1.ge (fun x hx => hids x (by simp [exprIds, hx])) hc.2 hnm.2
    obtain ⟨s3, n, hg, o3, b3⟩ := bin_step2' hD o1 o2 ("or_" ++ ma ++ "_" ++ mb) "or" (syn3 (by decide) ma mb)
      (by decide) (by decide) (· || ·) (fun _ => gate_or1) (fun _ => gate_or2) (e := .or a b) (fun _ => rfl)
    refine ⟨s3, n, ?_, o3, (b1.trans b2 o1.ext.mono).trans b3 (o1.ext.trans o2.ext).mono⟩
    simp only [evalExpr]
    rw [h1]
    simp only [Arith.bind_ok]
    rw [h2]
    exact hg
  | .xor a b, st, hSI, hge, hids, hc, hnm => by
    obtain ⟨s1, ma, h1, o1, b1⟩ := evalExpr_ok2' hD a st hSI hge (fun x hx => hids x (by simp [exprIds, hx])) hc.1 hnm.1
    obtain ⟨s2, mb, h2, o2, b2⟩ := evalExpr_ok2' hD b s1 o1.si o1.ge (fun x hx => hids x (by simp [exprIds, hx])) hc.2 hnm.2
    by_cases hab : ma = mb
    · refine ⟨s2, "tie_0", ?_, ⟨o2.si, o2.ge, o1.ext.trans o2.ext, ?_, Or.inl (Or.inr (Or.inl rfl))⟩,
        b1.trans b2 o1.ext.mono⟩
      · simp only [evalExpr]
        rw [h1]
        simp only [Arith.bind_ok]
        rw [h2]
        simp only [Arith.bind_ok, hab, beq_self_eq_true, if_true]
        rfl
      · intro v hv
        have hv1 : Consistent s1.c v := o2.ext.consistent o1.si.wf o2.si.wf hv
        have e0 : v "tie_0" = false := val_tie0' o2.si v hv
        have e2 : v mb = denote v b := o2.val v hv
        have e1 : v ma = denote v a := o1.val v hv1
        show v "tie_0" = denote v (.xor a b)
        rw [e0]
        simp only [denote]
        rw [← e2, ← e1, hab]
        simp
    · obtain ⟨s3, n, hg, o3, b3⟩ := bin_step2' hD o1 o2 ("xor_" ++ ma ++ "_" ++ mb) "xor" (syn3 (by decide) ma mb)
        (by decide) (by decide) Bool.xor (fun h => absurd h hab) (fun _ => gate_xor2) (e := .xor a b) (fun _ => rfl)
      refine ⟨s3, n, ?_, o3, (b1.trans b2 o1.ext.mono).trans b3 (o1.ext.trans o2.ext).mono⟩
      simp only [evalExpr]
      rw [h1]
      simp only [Arith.bind_ok]
      rw [h2]
      have : (ma == mb) = false := by simpa using hab
      simp only [Arith.bind_ok, this, Bool.false_eq_true, if_false]
      exact hg
  | .xnor a b, st, hSI, hge, hids, hc, hnm => by
    obtain ⟨s1, ma, h1, o1, b1⟩ := evalExpr_ok2' hD a st hSI hge (fun x hx => hids x (by simp [exprIds, hx])) hc.1 hnm.1
    obtain ⟨s2, mb, h2, o2, b2⟩ := evalExpr_ok2' hD b s1 o1.si o1.ge (fun x hx => hids x (by simp [exprIds, hx])) hc.2 hnm.2
    by_cases hab : ma = mb
    · refine ⟨s2, "tie_1", ?_, ⟨o2.si, o2.ge, o1.ext.trans o2.ext, ?_, Or.inl (Or.inr (Or.inr rfl))⟩,
        b1.trans b2 o1.ext.mono⟩
      · simp only [evalExpr]
        rw [h1]
        simp only [Arith.bind_ok]
        rw [h2]
        simp only [Arith.bind_ok, hab, beq_self_eq_true, if_true]
        rfl
      · intro v hv
        have hv1 : Consistent s1.c v := o2.ext.consistent o1.si.wf o2.si.wf hv
        have e0 : v "tie_1" = true := val_tie1' o2.si v hv
        have e2 : v mb = denote v b := o2.val v hv
        have e1 : v ma = denote v a := o1.val v hv1
        show v "tie_1" = denote v (.xnor a b)
        rw [e0]
        simp only [denote]
        rw [← e2, ← e1, hab]
        simp
    · obtain ⟨s3, n, hg, o3, b3⟩ := bin_step2' hD o1 o2 ("xnor_" ++ ma ++ "_" ++ mb) "xnor" (syn3 (by decide) ma mb)
        (by decide) (by decide) (fun x y => !Bool.xor x y) (fun h => absurd h hab) (fun _ => gate_xnor2)
        (e := .xnor a b) (fun _ => rfl)
      refine ⟨s3, n, ?_, o3, (b1.trans b2 o1.ext.mono).trans b3 (o1.ext.trans o2.ext).mono⟩
      simp only [evalExpr]
      rw [h1]
      simp only [Arith.bind_ok]
      rw [h2]
      have : (ma == mb) = false := by simpa using hab
      simp only [Arith.bind_ok, this, Bool.false_eq_true, if_false]
      exact hg
  | .mux _ _ _, _, _, _, _, _, hnm => hnm.elim

end VBB
end CG
