/- helper lemma for C11 (`influence` never fails): every per-startpoint transform and model count succeeds -/
import CG.Proofs.SensEInf
import CG.Proofs.SensEOk
set_option linter.unusedSimpArgs false
set_option linter.unusedVariables false
namespace CG
namespace SensE
open Circuit Miter Q Query

theorem influence_ok_core (s : Solver) (hs : SolverSpec s) {c : Circuit} {n : Name} {tfi sp : List Name} {ord : Ord}
    {ordE : List (Name × Name) → List (Name × Name)} (hord : OrdOK ord) (hordE : ∀ l, (ordE l).Perm l)
    (hcl : LintClean c) (hb : c.bbs = []) (hnox : ∀ p ∈ c.nodes, p.2.ty ≠ some "x") (hn : c.has n = true)
    (hsp : startpoints c [n] = .ok sp) (htfi : transitiveFanin c [n] = .ok tfi)
    (hnames : ∀ x ∈ n :: tfi, Limit.NameOK x)
    (hnbb : ∀ x ∈ n :: tfi, c.ty? x ≠ some "bb_input" ∧ c.ty? x ≠ some "bb_output")
    (hclash : ∀ s ∈ sp, s ≠ "sat" ∧ (∀ x, s ≠ "c0_" ++ x) ∧ (∀ x, s ≠ "c1_" ++ x) ∧ (∀ x, s ≠ "dif_" ++ x)) :
    ∃ r, Props.influence s c n ord ordE = .ok r := by
  have w := hcl.toWF
  unfold Props.influence
  rw [hsp]
  dsimp only
  apply mapM_ok
  intro sx hsx
  have hsx' : sx ∈ sp := (Sens.ord_mem hord sp sx).1 hsx
  obtain ⟨hk, hsa⟩ := (Sens.mem_sp_iff hcl hn htfi hsp sx).1 hsx'
  -- a startpoint of the cone that is not a blackbox pin is an input
  have hsxi : sx ∈ c.inputs := by
    unfold Circuit.startpointsAll at hsa
    rw [Sens.mem_filterType] at hsa
    obtain ⟨a, ha, t, ht, hm⟩ := hsa
    have e : c.ty? sx = some t := ty?_of_mem w.nodup ha ht
    simp only [List.mem_cons, List.not_mem_nil, or_false] at hm
    rcases hm with rfl | rfl
    · exact (CG.mem_inputs w.nodup sx).2 e
    · exact absurd e (hnbb sx hk).2
  have hinsp : ∀ i ∈ c.inputs, i ∈ [n] ++ tfi → i ∈ sp := by
    intro i hi hik
    rw [Sens.mem_sp_iff hcl hn htfi hsp]
    refine ⟨hik, ?_⟩
    obtain ⟨p, hp, rfl, hpt⟩ := Tseitin.mem_of_ty c i "input" ((CG.mem_inputs w.nodup i).1 hi)
    unfold Circuit.startpointsAll
    rw [Sens.mem_filterType]
    exact ⟨p.2, hp, "input", hpt, by simp⟩
  obtain ⟨m, hm⟩ := transform_ok (n := sx) (E := [n]) hord hordE hcl hb (by simp) htfi hk ⟨sx, hsxi, hk⟩
    hnames hnbb (fun i hi hik => hclash i (hinsp i hi hik))
  obtain ⟨L, _, hcnt, _⟩ := count_one s hs hord hordE hcl hb hnox hn hsp htfi hsx' hm
  rw [hm]
  dsimp only
  rw [hcnt]
  exact ⟨_, rfl⟩

/-! ### failing runs (for the counterexamples of CG/Props/C11.lean) -/

theorem toOption_none {α : Type} {x : Except Outcome α} (h : x.toOption = none) : ∀ a, x ≠ .ok a := by
  intro a e
  rw [e] at h
  cases h

theorem ok_of_toOption {α : Type} {x : Except Outcome α} {a : α} (h : x.toOption = some a) : x = .ok a := by
  cases x with
  | error e => cases h
  | ok b =>
    simp only [Except.toOption] at h
    injection h with h
    rw [h]

/-- whatever the solver, `influence` fails when the transform of the first startpoint fails -/
theorem influence_fails (s : Solver) (c : Circuit) (n sx : Name) (sp : List Name)
    (h1 : (Query.startpoints c [n]).toOption = some (sx :: sp))
    (h2 : (Tx.sensitizationTransform c sx [n] id id).toOption = none) :
    ¬ ∃ r, Props.influence s c n id id = .ok r := by
  rintro ⟨r, hr⟩
  unfold Props.influence at hr
  rw [ok_of_toOption h1] at hr
  simp only [id, List.mapM_cons] at hr
  cases hT : Tx.sensitizationTransform c sx [n] id id with
  | ok m => exact toOption_none h2 m hT
  | error e =>
    rw [hT] at hr
    cases hr

/-- a sound and complete solver exists (classically), so statements quantified over `SolverSpec` solvers are not vacuous -/
noncomputable def idealSolver : Solver := fun f =>
  open Classical in if h : ∃ σ : Var → Bool, CNF.sat σ f = true then some (Classical.choose h) else none

theorem idealSolver_spec : SolverSpec idealSolver := by
  refine ⟨?_, ?_⟩
  · intro f σ h
    unfold idealSolver at h
    by_cases hex : ∃ σ : Var → Bool, CNF.sat σ f = true
    · rw [dif_pos hex] at h
      injection h with h
      rw [← h]
      exact Classical.choose_spec hex
    · rw [dif_neg hex] at h
      cases h
  · intro f h σ
    unfold idealSolver at h
    by_cases hex : ∃ σ : Var → Bool, CNF.sat σ f = true
    · rw [dif_pos hex] at h
      cases h
    · cases hσ : CNF.sat σ f with
      | false => rfl
      | true => exact absurd ⟨σ, hσ⟩ hex

end SensE
end CG
