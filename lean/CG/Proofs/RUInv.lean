/- the worklist invariant of `remove_unloaded` (C16) -/
import CG.Proofs.RUBasic
namespace CG
namespace RU

def OrdOK (ord : Ord) : Prop := ∀ l, (ord l).Perm l

def Sink (c : Circuit) (s : Name) : Prop := c.isOut s = true ∨ c.ty? s = some "bb_input"

def Removable (c : Circuit) (inputs : Bool) (n : Name) : Prop :=
  c.ty? n ≠ some "bb_input" ∧ (inputs = true ∨ (c.ty? n ≠ some "input" ∧ c.ty? n ≠ some "bb_output"))

structure Good (c : Circuit) : Prop where
  nodup : c.nodeNames.Nodup
  edgesNodup : c.edges.Nodup
  closed : ∀ e ∈ c.edges, c.has e.1 = true ∧ c.has e.2 = true
  acyclic : ∃ rank : Name → Nat, ∀ e ∈ c.edges, rank e.1 < rank e.2
  noFaninOnSources : ∀ e ∈ c.edges, c.ty? e.2 ≠ some "input" ∧ c.ty? e.2 ≠ some "bb_output"
  noBBInFanout : ∀ e ∈ c.edges, c.ty? e.1 ≠ some "bb_input"

/-- `L` is a liveness predicate of `c`: a node is live iff it is a sink or feeds a live node -/
def IsLive (c : Circuit) (L : Name → Prop) : Prop :=
  ∀ n, L n ↔ ((c.has n = true ∧ Sink c n) ∨ ∃ b, (n, b) ∈ c.edges ∧ L b)

/-! ### unfolding the loop -/

def appList (inputs : Bool) (ord : Ord) (c : Circuit) (n : Name) : List Name :=
  (ord (c.fanin n)).filter (fun fi =>
      !(!inputs && (match c.ty? fi with | some t => (T.removeUnloadedL 2).contains t | none => false))
      && !c.isOut fi && (c.fanout fi).length == 1)

theorem go_nil (inputs : Bool) (ord : Ord) (fuel : Nat) (c : Circuit) (removed : List Name) :
    Circuit.removeUnloadedGo inputs ord (fuel + 1) c [] removed = some (c, removed.reverse) := by
  simp [Circuit.removeUnloadedGo]

theorem go_cons (inputs : Bool) (ord : Ord) (fuel : Nat) (c : Circuit) (wl : List Name) (hwl : wl ≠ [])
    (removed : List Name) :
    Circuit.removeUnloadedGo inputs ord (fuel + 1) c wl removed =
      Circuit.removeUnloadedGo inputs ord fuel (c.removeNode wl.getLast!)
        (wl.dropLast ++ appList inputs ord c wl.getLast!) (wl.getLast! :: removed) := by
  cases wl with
  | nil => exact absurd rfl hwl
  | cons x xs => rfl

theorem getLast!_concat (wl0 : List Name) (n : Name) : (wl0 ++ [n]).getLast! = n := by
  rw [List.getLast!_eq_getLast?_getD]
  simp

theorem go_concat (inputs : Bool) (ord : Ord) (fuel : Nat) (c : Circuit) (wl0 : List Name) (n : Name)
    (removed : List Name) :
    Circuit.removeUnloadedGo inputs ord (fuel + 1) c (wl0 ++ [n]) removed =
      Circuit.removeUnloadedGo inputs ord fuel (c.removeNode n) (wl0 ++ appList inputs ord c n) (n :: removed) := by
  rw [go_cons inputs ord fuel c (wl0 ++ [n]) (by simp), getLast!_concat, List.dropLast_concat]

theorem skip_iff (inputs : Bool) (o : Option String) :
    (!(!inputs && (match o with | some t => (T.removeUnloadedL 2).contains t | none => false))) = true ↔
      (inputs = true ∨ (o ≠ some "input" ∧ o ≠ some "bb_output")) := by
  rw [L2]
  cases inputs <;> cases o <;> simp

theorem app_mem (c : Circuit) (hg : Good c) (inputs : Bool) (ord : Ord) (hord : OrdOK ord)
    (rem : List Name) (n : Name) (hn : n ∉ rem) (fi : Name) :
    fi ∈ appList inputs ord (restrict c rem) n ↔
      ((fi, n) ∈ c.edges ∧ fi ∉ rem ∧
        (inputs = true ∨ (c.ty? fi ≠ some "input" ∧ c.ty? fi ≠ some "bb_output")) ∧
        c.isOut fi = false ∧ ∀ b, (fi, b) ∈ c.edges → b ∈ rem ∨ b = n) := by
  unfold appList
  rw [List.mem_filter, (hord _).mem_iff, mem_fanin, mem_restrict_edges]
  simp only [Bool.and_eq_true, skip_iff]
  constructor
  · rintro ⟨⟨he, hfi, _⟩, ⟨hs, ho⟩, hl⟩
    rw [restrict_ty c rem fi hfi] at hs
    rw [restrict_isOut c rem fi hfi] at ho
    refine ⟨he, hfi, hs, by simpa using ho, ?_⟩
    intro b hb
    by_cases hbr : b ∈ rem
    · exact Or.inl hbr
    · right
      have hl' : ((restrict c rem).fanout fi).length = 1 := by simpa using hl
      exact all_eq_of_length_one hl' (n := n)
        ((mem_fanout _ _ _).2 ((mem_restrict_edges _ _ _ _).2 ⟨he, hfi, hn⟩)) b
        ((mem_fanout _ _ _).2 ((mem_restrict_edges _ _ _ _).2 ⟨hb, hfi, hbr⟩))
  · rintro ⟨he, hfi, hs, ho, hall⟩
    refine ⟨⟨he, hfi, hn⟩, ⟨by rwa [restrict_ty c rem fi hfi], by rw [restrict_isOut c rem fi hfi]; simp [ho]⟩, ?_⟩
    have : ((restrict c rem).fanout fi).length = 1 :=
      length_one_of_all_eq (fanout_nodup _ (restrict_edges_nodup c hg.edgesNodup rem) fi) (n := n)
        ((mem_fanout _ _ _).2 ((mem_restrict_edges _ _ _ _).2 ⟨he, hfi, hn⟩))
        (by
          intro b hb
          rw [mem_fanout, mem_restrict_edges] at hb
          rcases hall b hb.1 with h | h
          · exact absurd h hb.2.2
          · exact h)
    simpa using this

theorem app_nodup (c : Circuit) (hg : Good c) (inputs : Bool) (ord : Ord) (hord : OrdOK ord)
    (rem : List Name) (n : Name) : (appList inputs ord (restrict c rem) n).Nodup := by
  unfold appList
  refine List.Pairwise.filter _ ?_
  exact (hord _).nodup_iff.2 (fanin_nodup _ (restrict_edges_nodup c hg.edgesNodup rem) n)

/-! ### the invariant -/

theorem not_out_of_dead {c : Circuit} {L : Name → Prop} (hL : IsLive c L) {m : Name}
    (hm : c.has m = true) (hd : ¬ L m) : c.isOut m = false := by
  cases h : c.isOut m
  · rfl
  · exact absurd ((hL m).2 (Or.inl ⟨hm, Or.inl h⟩)) hd

theorem dead_succ {c : Circuit} {L : Name → Prop} (hL : IsLive c L) {a b : Name}
    (he : (a, b) ∈ c.edges) (hd : ¬ L a) : ¬ L b :=
  fun hb => hd ((hL a).2 (Or.inr ⟨b, he, hb⟩))

structure Inv (c : Circuit) (inputs : Bool) (L : Name → Prop) (rem wl : List Name) : Prop where
  remNodup : rem.Nodup
  wlNodup : wl.Nodup
  disj : ∀ n ∈ wl, n ∉ rem
  remHas : ∀ n ∈ rem, c.has n = true
  wlOK : ∀ n ∈ wl, c.has n = true ∧ ∀ b, (n, b) ∈ c.edges → b ∈ rem
  dead : ∀ n, n ∈ rem ∨ n ∈ wl → ¬ L n ∧ Removable c inputs n
  complete : ∀ m, c.has m = true → ¬ L m → Removable c inputs m → m ∉ rem → m ∉ wl →
      ∃ b, (m, b) ∈ c.edges ∧ b ∉ rem

theorem Inv.step {c : Circuit} (hg : Good c) {inputs : Bool} {L : Name → Prop} (hL : IsLive c L)
    {ord : Ord} (hord : OrdOK ord) {rem wl0 : List Name} {n : Name}
    (h : Inv c inputs L rem (wl0 ++ [n])) :
    Inv c inputs L (n :: rem) (wl0 ++ appList inputs ord (restrict c rem) n) := by
  have hnwl : n ∈ wl0 ++ [n] := by simp
  have hnrem : n ∉ rem := h.disj n hnwl
  have hnd := List.nodup_append.1 h.wlNodup
  have hnwl0 : n ∉ wl0 := fun hx => hnd.2.2 n hx n (by simp) rfl
  have hnOK := h.wlOK n hnwl
  have hndead := h.dead n (Or.inr hnwl)
  have happ := app_mem c hg inputs ord hord rem n hnrem
  refine ⟨?_, ?_, ?_, ?_, ?_, ?_, ?_⟩
  · exact List.nodup_cons.2 ⟨hnrem, h.remNodup⟩
  · refine List.nodup_append.2 ⟨hnd.1, app_nodup c hg inputs ord hord rem n, ?_⟩
    intro a ha b hb hab
    subst hab
    obtain ⟨he, _, _, _, _⟩ := (happ a).1 hb
    exact hnrem ((h.wlOK a (by simp [ha])).2 n he)
  · intro x hx
    rw [List.mem_append] at hx
    rw [List.mem_cons, not_or]
    rcases hx with hx | hx
    · exact ⟨fun hxn => hnwl0 (hxn ▸ hx), h.disj x (by simp [hx])⟩
    · obtain ⟨he, hfi, _, _, _⟩ := (happ x).1 hx
      refine ⟨fun hxn => ?_, hfi⟩
      subst hxn
      exact hnrem (hnOK.2 x he)
  · intro x hx
    rcases List.mem_cons.1 hx with hx | hx
    · exact hx ▸ hnOK.1
    · exact h.remHas x hx
  · intro x hx
    rcases List.mem_append.1 hx with hx | hx
    · have := h.wlOK x (by simp [hx])
      exact ⟨this.1, fun b hb => List.mem_cons_of_mem _ (this.2 b hb)⟩
    · obtain ⟨he, _, _, _, hall⟩ := (happ x).1 hx
      refine ⟨(hg.closed _ he).1, fun b hb => ?_⟩
      rcases hall b hb with hb | hb
      · exact List.mem_cons_of_mem _ hb
      · exact hb ▸ List.mem_cons_self
  · intro x hx
    have hx' : (x ∈ rem ∨ x ∈ wl0 ++ [n]) ∨ x ∈ appList inputs ord (restrict c rem) n := by
      rcases hx with hx | hx
      · rcases List.mem_cons.1 hx with hx | hx
        · exact Or.inl (Or.inr (hx ▸ hnwl))
        · exact Or.inl (Or.inl hx)
      · rcases List.mem_append.1 hx with hx | hx
        · exact Or.inl (Or.inr (List.mem_append_left _ hx))
        · exact Or.inr hx
    rcases hx' with hx' | hx'
    · exact h.dead x hx'
    · obtain ⟨he, hfi, hs, ho, hall⟩ := (happ x).1 hx'
      have hnb := hg.noBBInFanout _ he
      refine ⟨fun hlx => ?_, hnb, hs⟩
      rcases (hL x).1 hlx with ⟨_, hsink⟩ | ⟨b, hb, hlb⟩
      · rcases hsink with hsink | hsink
        · rw [ho] at hsink; exact Bool.noConfusion hsink
        · exact hnb hsink
      · rcases hall b hb with hbr | hbn
        · exact (h.dead b (Or.inl hbr)).1 hlb
        · exact hndead.1 (hbn ▸ hlb)
  · intro m hm hdm hrm hmr hmw
    rw [List.mem_cons, not_or] at hmr
    rw [List.mem_append, not_or] at hmw
    have hmw' : m ∉ wl0 ++ [n] := by
      simp only [List.mem_append, List.mem_singleton, not_or]
      exact ⟨hmw.1, hmr.1⟩
    obtain ⟨b, hb, hbr⟩ := h.complete m hm hdm hrm hmr.2 hmw'
    by_cases hex : ∃ b, (m, b) ∈ c.edges ∧ b ∉ rem ∧ b ≠ n
    · obtain ⟨b', hb', hbr', hbn'⟩ := hex
      exact ⟨b', hb', by rw [List.mem_cons, not_or]; exact ⟨hbn', hbr'⟩⟩
    · exfalso
      have hall : ∀ b, (m, b) ∈ c.edges → b ∈ rem ∨ b = n := by
        intro b' hb'
        by_cases h1 : b' ∈ rem
        · exact Or.inl h1
        · by_cases h2 : b' = n
          · exact Or.inr h2
          · exact absurd ⟨b', hb', h1, h2⟩ hex
      have hbn : b = n := by
        rcases hall b hb with h1 | h1
        · exact absurd h1 hbr
        · exact h1
      exact hmw.2 ((happ m).2 ⟨hbn ▸ hb, hmr.2, hrm.2, not_out_of_dead hL hm hdm, hall⟩)

/-! ### the initial worklist -/

def initList (c : Circuit) (inputs : Bool) : List Name :=
  (c.nodes.filter (fun p =>
      (match p.2.ty with | some t => !(T.removeUnloadedL 0).contains t | none => true)
      && !(p.2.out.getD false) && (c.fanout p.1).isEmpty
      && (inputs || (match p.2.ty with | some t => !(T.removeUnloadedL 1).contains t | none => true)))).map (·.1)

theorem removeUnloaded_eq (c : Circuit) (inputs : Bool) (ord : Ord) :
    c.removeUnloaded inputs ord =
      Circuit.removeUnloadedGo inputs ord (2 * c.nodes.length + c.edges.length + 2) c (initList c inputs) [] := rfl

theorem ty0_iff (o : Option String) :
    (match o with | some t => !(T.removeUnloadedL 0).contains t | none => true) = true ↔ o ≠ some "bb_input" := by
  rw [L0]; cases o <;> simp

theorem ty1_iff (inputs : Bool) (o : Option String) :
    (inputs || (match o with | some t => !(T.removeUnloadedL 1).contains t | none => true)) = true ↔
      (inputs = true ∨ (o ≠ some "input" ∧ o ≠ some "bb_output")) := by
  rw [L1]; cases inputs <;> cases o <;> simp

theorem fanout_isEmpty_iff (c : Circuit) (n : Name) :
    (c.fanout n).isEmpty = true ↔ ∀ b, (n, b) ∉ c.edges := by
  rw [List.isEmpty_iff, List.eq_nil_iff_forall_not_mem]
  constructor
  · intro h b hb; exact h b ((mem_fanout c n b).2 hb)
  · intro h b hb; exact h b ((mem_fanout c n b).1 hb)

theorem mem_initList (c : Circuit) (hnd : c.nodeNames.Nodup) (inputs : Bool) (n : Name) :
    n ∈ initList c inputs ↔
      (c.has n = true ∧ c.ty? n ≠ some "bb_input" ∧ c.isOut n = false ∧ (∀ b, (n, b) ∉ c.edges) ∧
        (inputs = true ∨ (c.ty? n ≠ some "input" ∧ c.ty? n ≠ some "bb_output"))) := by
  unfold initList
  simp only [List.mem_map, List.mem_filter, Bool.and_eq_true, ty0_iff, ty1_iff, fanout_isEmpty_iff,
    has_iff_exists]
  constructor
  · rintro ⟨⟨k, a⟩, ⟨hmem, ⟨⟨h0, ho⟩, hf⟩, h1⟩, rfl⟩
    have hattr := attr_of_mem c hnd k a hmem
    have hty : c.ty? k = a.ty := by simp [Circuit.ty?, hattr]
    have hout : c.isOut k = a.out.getD false := by simp [Circuit.isOut, hattr]
    simp only at h0 ho hf h1 ⊢
    refine ⟨⟨a, hmem⟩, hty ▸ h0, ?_, hf, hty ▸ h1⟩
    rw [hout]; simpa using ho
  · rintro ⟨⟨a, hmem⟩, h0, ho, hf, h1⟩
    have hattr := attr_of_mem c hnd n a hmem
    have hty : c.ty? n = a.ty := by simp [Circuit.ty?, hattr]
    have hout : c.isOut n = a.out.getD false := by simp [Circuit.isOut, hattr]
    refine ⟨(n, a), ⟨hmem, ⟨⟨hty ▸ h0, ?_⟩, hf⟩, hty ▸ h1⟩, rfl⟩
    rw [hout] at ho; simpa using ho

theorem initList_nodup (c : Circuit) (hnd : c.nodeNames.Nodup) (inputs : Bool) :
    (initList c inputs).Nodup :=
  List.Nodup.sublist (List.Sublist.map _ List.filter_sublist) hnd

theorem Inv.init {c : Circuit} (hg : Good c) (inputs : Bool) {L : Name → Prop} (hL : IsLive c L) :
    Inv c inputs L [] (initList c inputs) := by
  refine ⟨List.nodup_nil, initList_nodup c hg.nodup inputs, ?_, ?_, ?_, ?_, ?_⟩
  · intro n _; exact List.not_mem_nil
  · intro n hn; exact absurd hn List.not_mem_nil
  · intro n hn
    obtain ⟨hh, _, _, hf, _⟩ := (mem_initList c hg.nodup inputs n).1 hn
    exact ⟨hh, fun b hb => absurd hb (hf b)⟩
  · intro n hn
    rcases hn with hn | hn
    · exact absurd hn List.not_mem_nil
    · obtain ⟨_, h0, ho, hf, h1⟩ := (mem_initList c hg.nodup inputs n).1 hn
      refine ⟨fun hl => ?_, h0, h1⟩
      rcases (hL n).1 hl with ⟨_, hs | hs⟩ | ⟨b, hb, _⟩
      · rw [ho] at hs; exact Bool.noConfusion hs
      · exact h0 hs
      · exact hf b hb
  · intro m hm hdm hrm _ hmw
    by_cases hex : ∃ b, (m, b) ∈ c.edges
    · obtain ⟨b, hb⟩ := hex
      exact ⟨b, hb, List.not_mem_nil⟩
    · exfalso
      apply hmw
      exact (mem_initList c hg.nodup inputs m).2
        ⟨hm, hrm.1, not_out_of_dead hL hm hdm, fun b hb => hex ⟨b, hb⟩, hrm.2⟩

/-! ### running the loop -/

theorem restrict_length_lt (c : Circuit) (rem : List Name) (n : Name) (hn : n ∉ rem) (hh : c.has n = true) :
    (restrict c (n :: rem)).nodes.length < (restrict c rem).nodes.length := by
  rw [← restrict_removeNode]
  simp only [Circuit.removeNode]
  rw [List.length_filter_lt_length_iff_exists]
  obtain ⟨a, ha⟩ := (has_iff_exists _ _).1 ((restrict_has c rem n).2 ⟨hh, hn⟩)
  exact ⟨(n, a), ha, by simp⟩

theorem run {c : Circuit} (hg : Good c) {inputs : Bool} {L : Name → Prop} (hL : IsLive c L)
    {ord : Ord} (hord : OrdOK ord) :
    ∀ (fuel : Nat) (rem wl : List Name), Inv c inputs L rem wl → (restrict c rem).nodes.length < fuel →
      ∃ rem', Circuit.removeUnloadedGo inputs ord fuel (restrict c rem) wl rem
          = some (restrict c rem', rem'.reverse) ∧ Inv c inputs L rem' []
  | 0, _, _, _, hlt => absurd hlt (Nat.not_lt_zero _)
  | fuel + 1, rem, wl, hinv, hlt => by
    rcases List.eq_nil_or_concat wl with rfl | ⟨wl0, n, rfl⟩
    · exact ⟨rem, go_nil _ _ _ _ _, hinv⟩
    · rw [List.concat_eq_append] at hinv ⊢
      rw [go_concat, restrict_removeNode]
      have hn : n ∈ wl0 ++ [n] := by simp
      have hlt' := restrict_length_lt c rem n (hinv.disj n hn) (hinv.wlOK n hn).1
      exact run hg hL hord fuel (n :: rem) _ (hinv.step hg hL hord) (by omega)

/-! ### when the worklist is empty everything dead has been deleted -/

theorem le_sum_of_mem : ∀ (l : List Nat) (x : Nat), x ∈ l → x ≤ l.sum
  | [], _, h => absurd h List.not_mem_nil
  | y :: l, x, h => by
    rw [List.sum_cons]
    rcases List.mem_cons.1 h with h | h
    · omega
    · have := le_sum_of_mem l x h; omega

theorem Inv.final {c : Circuit} (hg : Good c) {inputs : Bool} {L : Name → Prop} (hL : IsLive c L)
    {rem : List Name} (h : Inv c inputs L rem []) :
    ∀ n, n ∈ rem ↔ (c.has n = true ∧ ¬ L n ∧ Removable c inputs n) := by
  intro n
  constructor
  · intro hn
    have := h.dead n (Or.inl hn)
    exact ⟨h.remHas n hn, this.1, this.2⟩
  · rintro ⟨hh, hd, hr⟩
    obtain ⟨rank, hrank⟩ := hg.acyclic
    -- an upper bound for the rank of every node
    have hbound : ∃ B, ∀ m, c.has m = true → rank m ≤ B := by
      refine ⟨(c.nodeNames.map rank).sum, fun m hm => ?_⟩
      exact le_sum_of_mem _ _ (List.mem_map_of_mem ((has_iff c m).1 hm))
    obtain ⟨B, hB⟩ := hbound
    have key : ∀ k m, c.has m = true → ¬ L m → Removable c inputs m → B - rank m < k → m ∈ rem := by
      intro k
      induction k with
      | zero => intro m _ _ _ hk; exact absurd hk (Nat.not_lt_zero _)
      | succ k ih =>
        intro m hm hdm hrm hk
        apply Classical.byContradiction
        intro hmr
        obtain ⟨b, hb, hbr⟩ := h.complete m hm hdm hrm hmr List.not_mem_nil
        have hhb := (hg.closed _ hb).2
        have hdb := dead_succ hL hb hdm
        have hrb : Removable c inputs b := by
          refine ⟨fun hty => hdb ((hL b).2 (Or.inl ⟨hhb, Or.inr hty⟩)), Or.inr (hg.noFaninOnSources _ hb)⟩
        have h1 := hrank _ hb
        have h2 := hB b hhb
        exact hbr (ih b hhb hdb hrb (by simp only at h1; omega))
    exact key (B + 1) n hh hd hr (by omega)

end RU
end CG
