/- C20 (second half, strip_blackboxes): the stripped circuit is lint-clean and dot-free exactly under two extra
   conditions on the argument (every dotted node is a pin; an ignored output pin drives nothing) -/
import CG.Proofs.Strip
import CG.Proofs.LintLink
set_option linter.unusedSimpArgs false
set_option linter.unusedVariables false
namespace CG
namespace LintProdD
open Circuit Strip

/-- every dotted node name of `c` belongs to a blackbox pin node -/
def DotsArePins (c : Circuit) : Prop :=
  ∀ g ∈ c.nodeNames, hasDot g = true → c.ty? g = some "bb_input" ∨ c.ty? g = some "bb_output"

/-- the output pins deleted by `ignore_pins` drive nothing -/
def DroppedOutsUnloaded (c : Circuit) (ignore : List Name) : Prop :=
  ∀ n, c.ty? n = some "bb_output" → ignore.contains (Tx.lastDot n) = true → c.fanout n = []

theorem hasDot_replaceDots (n : Name) : hasDot (Tx.replaceDots n) = false := by
  unfold hasDot Tx.replaceDots
  rw [Bool.eq_false_iff]
  intro h
  rw [String.toList_ofList, List.contains_iff_mem, List.mem_map] at h
  obtain ⟨ch, _, e⟩ := h
  by_cases hc : ch = '.'
  · subst hc
    simp at e
  · have : (ch == '.') = false := by simpa using hc
    rw [this] at e
    simp only [Bool.false_eq_true, if_false] at e
    exact hc e

section
variable {c c' : Circuit} {ig : List Name}

/-- a surviving node with a dropped driver is impossible when dropped output pins are unloaded -/
theorem driver_not_dropped (hc : LintClean c) (hd : DroppedOutsUnloaded c ig) {u n : Name}
    (he : (u, n) ∈ c.edges) : dropped c ig u = false := by
  cases hdu : dropped c ig u with
  | false => rfl
  | true =>
    have hp := dropped_isPin hdu
    obtain ⟨h1, _, _, h4⟩ := load_of_pin hc he hp
    have hig : ig.contains (Tx.lastDot u) = true := by
      simp only [dropped, Bool.and_eq_true] at hdu
      exact hdu.2
    rw [hd u h1 hig] at h4
    cases h4

theorem fanin_len (hc : LintClean c) (S : StripView c ig c') (hd : DroppedOutsUnloaded c ig) {n : Name}
    (h1 : c.has n = true) (h2 : dropped c ig n = false) :
    (c'.fanin (sname c ig n)).length = (c.fanin n).length := by
  have P := fanin_perm hc.toWF S h1 h2
  have hf : (c.fanin n).filter (fun u => !dropped c ig u) = c.fanin n := by
    apply List.filter_eq_self.2
    intro u hu
    rw [driver_not_dropped hc hd (mem_fanin.mp hu)]
    rfl
  rw [hf] at P
  rw [P.length_eq, List.length_map]

/-- the attribute of a surviving node in the result -/
theorem attr_cases (S : StripView c ig c') {n : Name} (h1 : c.has n = true) (h2 : dropped c ig n = false) :
    (isPin c n = false ∧ sname c ig n = n ∧ c'.attr? n = c.attr? n) ∨
    (c.ty? n = some "bb_input" ∧ sname c ig n = Tx.replaceDots n ∧
      c'.attr? (Tx.replaceDots n) = some { ty := some "buf", out := some true }) ∨
    (c.ty? n = some "bb_output" ∧ sname c ig n = Tx.replaceDots n ∧
      ∃ a : Attr, c'.attr? (Tx.replaceDots n) = some { a with ty := some "input" }) := by
  cases hp : isPin c n with
  | false =>
    exact Or.inl ⟨rfl, sname_of_not_kept (kept_false_of_not_pin hp), S.attrKeep n h1 hp⟩
  | true =>
    have hk := kept_of_pin_not_dropped hp h2
    rcases (isPin_iff c n).1 hp with h | h
    · exact Or.inr (Or.inl ⟨h, sname_of_kept hk, S.attrIn n h hk⟩)
    · obtain ⟨a, ha⟩ := Limit.attr_of_has h1
      have hta : a.ty = some "bb_output" := by simpa [Circuit.ty?, ha] using h
      exact Or.inr (Or.inr ⟨h, sname_of_kept hk, a, S.attrOut n a ha hta hk⟩)

/-- the type of a surviving node in the result -/
theorem ty_cases (S : StripView c ig c') {n : Name} (h1 : c.has n = true) (h2 : dropped c ig n = false) :
    (isPin c n = false ∧ sname c ig n = n ∧ c'.ty? (sname c ig n) = c.ty? n) ∨
    (c.ty? n = some "bb_input" ∧ c'.ty? (sname c ig n) = some "buf") ∨
    (c.ty? n = some "bb_output" ∧ c'.ty? (sname c ig n) = some "input") := by
  rcases attr_cases S h1 h2 with ⟨a1, a2, a3⟩ | ⟨a1, a2, a3⟩ | ⟨a1, a2, a, a3⟩
  · refine Or.inl ⟨a1, a2, ?_⟩
    rw [a2]
    unfold Circuit.ty?
    rw [a3]
  · refine Or.inr (Or.inl ⟨a1, ?_⟩)
    rw [a2]
    unfold Circuit.ty?
    rw [a3]
    rfl
  · refine Or.inr (Or.inr ⟨a1, ?_⟩)
    rw [a2]
    unfold Circuit.ty?
    rw [a3]
    rfl

theorem not_pin_ty {n : Name} {t : String} (hp : isPin c n = false) (ht : c.ty? n = some t) :
    t ≠ "bb_input" ∧ t ≠ "bb_output" := by
  constructor <;> rintro rfl
  · have := (isPin_iff c n).2 (Or.inl ht)
    rw [hp] at this; cases this
  · have := (isPin_iff c n).2 (Or.inr ht)
    rw [hp] at this; cases this

/-- no pin type survives -/
theorem no_pin_types (S : StripView c ig c') (m : Name) :
    c'.ty? m ≠ some "bb_input" ∧ c'.ty? m ≠ some "bb_output" := by
  cases hh : c'.has m with
  | false =>
    rw [ty?_none_of_not_has hh]
    exact ⟨by simp, by simp⟩
  | true =>
    obtain ⟨n, h1, h2, rfl⟩ := (S.has m).1 hh
    rcases ty_cases S h1 h2 with ⟨a1, _, a3⟩ | ⟨_, a3⟩ | ⟨_, a3⟩
    · rw [a3]
      cases ht : c.ty? n with
      | none => exact ⟨by simp, by simp⟩
      | some t =>
        obtain ⟨x, y⟩ := not_pin_ty a1 ht
        exact ⟨fun e => x (Option.some.inj e), fun e => y (Option.some.inj e)⟩
    · rw [a3]; exact ⟨by decide, by decide⟩
    · rw [a3]; exact ⟨by decide, by decide⟩

/-- **the stripped circuit is lint-clean** when the deleted output pins drive nothing -/
theorem strip_lintClean (hc : LintClean c) (S : StripView c ig c') (hd : DroppedOutsUnloaded c ig) :
    LintClean c' := by
  have hwf : WF c' := by
    refine ⟨S.nodup, S.edgesNodup, ?_⟩
    intro e he
    obtain ⟨a, b, hab, da, db, rfl⟩ := (S.edges e).1 he
    exact ⟨(S.has _).2 ⟨a, (hc.closed _ hab).1, da, rfl⟩, (S.has _).2 ⟨b, (hc.closed _ hab).2, db, rfl⟩⟩
  -- the facts about a typed node of the result
  have key : ∀ m t, c'.ty? m = some t →
      (t ∈ Expected.supported_types) ∧ (t ∈ sourceTypes → c'.fanin m = []) ∧
      (t ∈ singleTypes → (c'.fanin m).length = 1) ∧ (t ∈ multiTypes → 1 ≤ (c'.fanin m).length) := by
    intro m t hty
    have hh : c'.has m = true := has_of_ty? hty
    obtain ⟨n, h1, h2, rfl⟩ := (S.has m).1 hh
    have hlen := fanin_len hc S hd h1 h2
    rcases ty_cases S h1 h2 with ⟨a1, _, a3⟩ | ⟨a1, a3⟩ | ⟨a1, a3⟩
    · rw [a3] at hty
      obtain ⟨a, ha⟩ := Limit.attr_of_has h1
      obtain ⟨t', ht', hsup⟩ := hc.typed _ (attr?_mem ha)
      have : t' = t := by
        have : c.ty? n = some t' := by unfold Circuit.ty?; rw [ha]; exact ht'
        rw [this] at hty
        exact Option.some.inj hty
      subst this
      refine ⟨hsup, ?_, ?_, ?_⟩
      · intro hs
        have := hc.noFanin n t' hty hs
        rw [this] at hlen
        exact List.eq_nil_of_length_eq_zero hlen
      · intro hs
        rw [hlen]
        exact hc.single n t' hty hs
      · intro hs
        rw [hlen]
        exact hc.multi n t' hty hs
    · rw [a3] at hty
      have := Option.some.inj hty
      subst this
      refine ⟨by decide, fun hs => absurd hs (by decide), ?_, fun hs => absurd hs (by decide)⟩
      intro _
      rw [hlen]
      exact hc.single n "bb_input" a1 (by decide)
    · rw [a3] at hty
      have := Option.some.inj hty
      subst this
      refine ⟨by decide, ?_, fun hs => absurd hs (by decide), fun hs => absurd hs (by decide)⟩
      intro _
      have := hc.noFanin n "bb_output" a1 (by decide)
      rw [this] at hlen
      exact List.eq_nil_of_length_eq_zero hlen
  refine
    { toWF := hwf, typed := ?_, noFanin := fun n t h1 h2 => (key n t h1).2.1 h2,
      single := fun n t h1 h2 => (key n t h1).2.2.1 h2, multi := fun n t h1 h2 => (key n t h1).2.2.2 h2,
      bbOut := fun e _ h => absurd h (no_pin_types S e.1).2,
      noBBInFanout := fun e _ => (no_pin_types S e.1).1 }
  intro p hp
  have ha : c'.attr? p.1 = some p.2 := attr?_of_mem S.nodup (by exact hp)
  have hh : c'.has p.1 = true := Limit.has_of_attr ha
  obtain ⟨n, h1, h2, e⟩ := (S.has p.1).1 hh
  rcases ty_cases S h1 h2 with ⟨a1, _, a3⟩ | ⟨a1, a3⟩ | ⟨a1, a3⟩
  · obtain ⟨a, hca⟩ := Limit.attr_of_has h1
    obtain ⟨t', ht', hsup⟩ := hc.typed _ (attr?_mem hca)
    have h5 : c.ty? n = some t' := by unfold Circuit.ty?; rw [hca]; exact ht'
    rw [← e, h5] at a3
    refine ⟨t', ?_, hsup⟩
    unfold Circuit.ty? at a3
    rw [ha] at a3
    exact a3
  · rw [← e] at a3
    refine ⟨"buf", ?_, by decide⟩
    unfold Circuit.ty? at a3
    rw [ha] at a3
    exact a3
  · rw [← e] at a3
    refine ⟨"input", ?_, by decide⟩
    unfold Circuit.ty? at a3
    rw [ha] at a3
    exact a3

/-- **the stripped circuit has no dotted names** when every dotted node of the argument is a pin -/
theorem strip_noDots (S : StripView c ig c') (hb : c'.bbs = []) (hdots : DotsArePins c) : LintLink.NoDots c' := by
  refine ⟨hb, ?_⟩
  intro m hh
  obtain ⟨n, h1, h2, rfl⟩ := (S.has m).1 hh
  cases hk : kept c ig n with
  | true =>
    rw [sname_of_kept hk]
    exact hasDot_replaceDots n
  | false =>
    rw [sname_of_not_kept hk]
    cases hdn : hasDot n with
    | false => rfl
    | true =>
      have hp : isPin c n = true := (isPin_iff c n).2 (hdots n ((has_iff_mem c n).1 h1) hdn)
      rw [kept_of_pin_not_dropped hp h2] at hk
      cases hk

/-- conversely: a lint-clean, dot-free result forces both conditions -/
theorem strip_conditions_of_clean (hc : LintClean c) (S : StripView c ig c') (hcl : LintClean c')
    (hnd : ∀ g, c'.has g = true → hasDot g = false) : DotsArePins c ∧ DroppedOutsUnloaded c ig := by
  constructor
  · intro g hg hdg
    have h1 : c.has g = true := (has_iff_mem c g).2 hg
    cases hp : isPin c g with
    | true => exact (isPin_iff c g).1 hp
    | false =>
      have h2 := dropped_false_of_not_pin (ig := ig) hp
      have : c'.has g = true :=
        (S.has g).2 ⟨g, h1, h2, (sname_of_not_kept (kept_false_of_not_pin hp)).symm⟩
      rw [hnd g this] at hdg
      cases hdg
  · intro u hty hig
    cases hfo : c.fanout u with
    | nil => rfl
    | cons n rest =>
      exfalso
      have he : (u, n) ∈ c.edges := mem_fanout.mp (by rw [hfo]; exact List.mem_cons_self)
      have hpu : isPin c u = true := (isPin_iff c u).2 (Or.inr hty)
      obtain ⟨_, hbuf, hfi, _⟩ := load_of_pin hc he hpu
      have hpn : isPin c n = false := by
        cases hpn : isPin c n with
        | false => rfl
        | true =>
          rcases (isPin_iff c n).1 hpn with h | h <;> rw [hbuf] at h <;> exact absurd (Option.some.inj h) (by decide)
      have h1 : c.has n = true := (hc.closed _ he).2
      have h2 := dropped_false_of_not_pin (ig := ig) hpn
      have hsn : sname c ig n = n := sname_of_not_kept (kept_false_of_not_pin hpn)
      have hdu : dropped c ig u = true := by
        simp only [dropped, hpu, hig, Bool.and_self]
      have P := fanin_perm hc.toWF S h1 h2
      rw [hfi, hsn] at P
      simp only [List.filter_cons, hdu, Bool.not_true, Bool.false_eq_true, if_false, List.filter_nil, List.map_nil] at P
      have hty' : c'.ty? n = some "buf" := by
        unfold Circuit.ty?
        rw [S.attrKeep n h1 hpn]
        exact hbuf
      have := hcl.single n "buf" hty' (by decide)
      rw [List.perm_nil.mp P] at this
      cases this

end

end LintProdD
end CG
