/- lemmas for C01: first-come numbering, uniqueness and existence of valuations of acyclic circuits -/
import CG.Proofs.Cnf
set_option linter.unusedSimpArgs false
namespace CG
namespace Tseitin

/-! ## numbering -/

theorem idxOf_inj {α : Type} [BEq α] [LawfulBEq α] : ∀ (l : List α) (a b : α), a ∈ l → b ∈ l →
    l.idxOf a = l.idxOf b → a = b := by
  intro l
  induction l with
  | nil => intro a b ha; cases ha
  | cons x l ih =>
    intro a b ha hb h
    rw [List.idxOf_cons, List.idxOf_cons] at h
    by_cases hxa : x = a
    · by_cases hxb : x = b
      · rw [← hxa, ← hxb]
      · have h1 : (x == a) = true := by simpa using hxa
        have h2 : (x == b) = false := by simpa using hxb
        rw [h1, h2] at h
        simp at h
    · by_cases hxb : x = b
      · have h1 : (x == a) = false := by simpa using hxa
        have h2 : (x == b) = true := by simpa using hxb
        rw [h1, h2] at h
        simp at h
      · have h1 : (x == a) = false := by simpa using hxa
        have h2 : (x == b) = false := by simpa using hxb
        rw [h1, h2] at h
        simp only [cond_false, Nat.add_right_cancel_iff] at h
        have ha' : a ∈ l := by
          rcases List.mem_cons.mp ha with h | h
          · exact absurd h.symm hxa
          · exact h
        have hb' : b ∈ l := by
          rcases List.mem_cons.mp hb with h | h
          · exact absurd h.symm hxb
          · exact h
        exact ih a b ha' hb' h

/-! ## gate functions of clean nodes are total -/

theorem mem_fanin (c : Circuit) (f n : Name) : f ∈ c.fanin n ↔ (f, n) ∈ c.edges := by
  simp only [Circuit.fanin, List.mem_map, List.mem_filter, beq_iff_eq]
  constructor
  · rintro ⟨e, ⟨he, rfl⟩, rfl⟩; exact he
  · intro h; exact ⟨(f, n), ⟨h, rfl⟩, rfl⟩

theorem gateFn_total (t : String) (l : List Bool)
    (hsup : t ∈ Expected.supported_types) (hx : t ≠ "x") (hfree : ¬ (t = "input" ∨ t = "bb_output"))
    (hsingle : t ∈ ["buf", "not", "bb_input"] → l.length = 1) : ∃ b, gateFn t l = some b := by
  simp only [Expected.supported_types, Expected.addable_types, Expected.primitive_gates, List.cons_append,
    List.nil_append, List.mem_cons, List.not_mem_nil, or_false] at hsup
  rcases hsup with rfl | rfl | rfl | rfl | rfl | rfl | rfl | rfl | rfl | rfl | rfl | rfl | rfl | rfl
  · have h1 := hsingle (by simp)
    match l, h1 with
    | [a], _ => exact ⟨a, by simp [gateFn]⟩
  · exact ⟨l.all id, by simp [gateFn]⟩
  · exact ⟨l.any id, by simp [gateFn]⟩
  · exact ⟨xorL l, by simp [gateFn]⟩
  · have h1 := hsingle (by simp)
    match l, h1 with
    | [a], _ => exact ⟨!a, by simp [gateFn]⟩
  · exact ⟨!l.all id, by simp [gateFn]⟩
  · exact ⟨!l.any id, by simp [gateFn]⟩
  · exact ⟨!xorL l, by simp [gateFn]⟩
  · exact ⟨false, by simp [gateFn]⟩
  · exact ⟨true, by simp [gateFn]⟩
  · exact absurd rfl hx
  · exact absurd (Or.inl rfl) hfree
  · have h1 := hsingle (by simp)
    match l, h1 with
    | [a], _ => exact ⟨a, by simp [gateFn]⟩
  · exact absurd (Or.inr rfl) hfree

theorem acyclic_unique' (c : Circuit) (hnd : c.nodeNames.Nodup)
    (htyped : ∀ p ∈ c.nodes, ∃ t, p.2.ty = some t ∧ t ∈ Expected.supported_types ∧ t ≠ "x")
    (hsingle : ∀ n t, c.ty? n = some t → t ∈ ["buf", "not", "bb_input"] → (c.fanin n).length ≤ 1)
    (closed : ∀ e ∈ c.edges, c.has e.1 = true ∧ c.has e.2 = true)
    (rank : Name → Nat) (hrank : ∀ e ∈ c.edges, rank e.1 < rank e.2)
    (v w : Val) (hv : Consistent c v) (hw : Consistent c w)
    (hfree : ∀ n, (c.ty? n = some "input" ∨ c.ty? n = some "bb_output" ∨
      (∃ t, c.ty? n = some t ∧ t ∈ ["buf", "not", "bb_input"] ∧ c.fanin n = [])) → v n = w n) :
    ∀ n, c.has n = true → v n = w n := by
  intro n
  induction hk : rank n using Nat.strongRecOn generalizing n with
  | _ k ih =>
    intro hn
    obtain ⟨p, hp, rfl⟩ := (mem_nodeNames c n).mp ((has_iff c n).mp hn)
    obtain ⟨t, ht, hsup, hx⟩ := htyped p hp
    have hty : c.ty? p.1 = some t := by rw [ty_of_mem c hnd p hp, ht]
    by_cases hf : t = "input" ∨ t = "bb_output"
    · apply hfree
      rcases hf with rfl | rfl
      · exact Or.inl hty
      · exact Or.inr (Or.inl hty)
    · by_cases hu : t ∈ ["buf", "not", "bb_input"] ∧ c.fanin p.1 = []
      · exact hfree p.1 (Or.inr (Or.inr ⟨t, hty, hu.1, hu.2⟩))
      have hmap : (c.fanin p.1).map v = (c.fanin p.1).map w := by
        apply List.map_congr_left
        intro f hf'
        have he := (mem_fanin c f p.1).mp hf'
        have hr := hrank _ he
        exact ih (rank f) (by rw [← hk]; exact hr) f rfl (closed _ he).1
      obtain ⟨b, hb⟩ := gateFn_total t ((c.fanin p.1).map v) hsup hx hf
        (fun h => by
          rw [List.length_map]
          have h1 := hsingle p.1 t hty h
          have h2 : (c.fanin p.1).length ≠ 0 := fun h0 => hu ⟨h, List.length_eq_zero_iff.mp h0⟩
          omega)
      rw [hv p hp t ht b hb, hw p hp t ht b (by rw [← hmap]; exact hb)]

/-! ## evaluation along a topological order -/

theorem evalStep_lookup_ne (c : Circuit) (free : Val) (env : List (Name × Bool)) (n m : Name) (h : m ≠ n) :
    (evalStep c free env n).lookup m = env.lookup m := by
  have : (m == n) = false := by simpa using h
  simp only [evalStep, List.lookup_cons, this]

theorem foldl_lookup_notin (c : Circuit) (free : Val) (m : Name) : ∀ (l : List Name) (env : List (Name × Bool)),
    m ∉ l → (l.foldl (evalStep c free) env).lookup m = env.lookup m := by
  intro l
  induction l with
  | nil => intro env _; rfl
  | cons x l ih =>
    intro env h
    rw [List.mem_cons, not_or] at h
    rw [List.foldl_cons, ih _ h.2, evalStep_lookup_ne c free env x m h.1]

/-- the value a node would get from the gate function, given the values of its fan-in -/
def stepVal (c : Circuit) (free : Val) (u : Val) (n : Name) : Bool :=
  match c.ty? n with
  | some t => (match gateFn t ((c.fanin n).map u) with | some b => b | none => free n)
  | none => free n

theorem evalStep_lookup_self (c : Circuit) (free : Val) (env : List (Name × Bool)) (n : Name) :
    (evalStep c free env n).lookup n = some (stepVal c free (envVal env free) n) := by
  simp only [evalStep, List.lookup_cons, beq_self_eq_true]
  rfl

theorem eval_eq (c : Circuit) (order : List Name) (free : Val) (hnd : order.Nodup)
    (htopo : ∀ i j (hi : i < order.length) (hj : j < order.length), (order[i], order[j]) ∈ c.edges → i < j)
    (n : Name) (hn : n ∈ order) :
    eval c order free n = stepVal c free (eval c order free) n := by
  obtain ⟨pre, post, rfl⟩ := List.append_of_mem hn
  have hnd' : (n :: post).Nodup := (List.nodup_append.mp hnd).2.1
  have hnpost : n ∉ post := (List.nodup_cons.mp hnd').1
  -- the environment when `n` is evaluated, and at the end
  have hfin : evalEnv c (pre ++ n :: post) free =
      post.foldl (evalStep c free) (evalStep c free (pre.foldl (evalStep c free) []) n) := by
    rw [evalEnv, List.foldl_append, List.foldl_cons]
  -- fan-in of `n` is never evaluated at or after `n`
  have hC : ∀ f ∈ c.fanin n, f ∉ n :: post := by
    intro f hf hmem
    have he := (mem_fanin c f n).mp hf
    obtain ⟨k, hk, hkf⟩ := List.mem_iff_getElem.mp hmem
    have hi : pre.length + k < (pre ++ n :: post).length := by
      rw [List.length_append]; omega
    have hj : pre.length < (pre ++ n :: post).length := by
      rw [List.length_append, List.length_cons]; omega
    have e1 : (pre ++ n :: post)[pre.length + k] = f := by
      rw [List.getElem_append_right (by omega)]
      simp only [Nat.add_sub_cancel_left]
      exact hkf
    have e2 : (pre ++ n :: post)[pre.length] = n := by
      rw [List.getElem_append_right (by omega)]
      simp
    have := htopo (pre.length + k) pre.length hi hj (by rw [e1, e2]; exact he)
    omega
  have hvals : (c.fanin n).map (envVal (pre.foldl (evalStep c free) []) free) =
      (c.fanin n).map (eval c (pre ++ n :: post) free) := by
    apply List.map_congr_left
    intro f hf
    have hfn := hC f hf
    rw [List.mem_cons, not_or] at hfn
    unfold eval envVal
    rw [hfin, foldl_lookup_notin c free f post _ hfn.2, evalStep_lookup_ne c free _ n f hfn.1]
  have hself : (evalEnv c (pre ++ n :: post) free).lookup n =
      some (stepVal c free (envVal (pre.foldl (evalStep c free) []) free) n) := by
    rw [hfin, foldl_lookup_notin c free n post _ hnpost, evalStep_lookup_self]
  have key : ∀ x, (evalEnv c (pre ++ n :: post) free).lookup n = some x →
      eval c (pre ++ n :: post) free n = x := by
    intro x hx
    unfold eval envVal
    rw [hx]
  rw [key _ hself]
  unfold stepVal
  rw [hvals]

theorem acyclic_exists' (c : Circuit) (hnd : c.nodeNames.Nodup) (order : List Name) (free : Val)
    (hperm : order.Perm c.nodeNames)
    (htopo : ∀ i j (hi : i < order.length) (hj : j < order.length), (order[i], order[j]) ∈ c.edges → i < j) :
    Consistent c (eval c order free) ∧
    ∀ n, (c.ty? n = some "input" ∨ c.ty? n = some "bb_output" ∨
      (∃ t, c.ty? n = some t ∧ t ∈ ["buf", "not", "bb_input"] ∧ c.fanin n = [])) →
      eval c order free n = free n := by
  have hndo : order.Nodup := hperm.nodup_iff.mpr hnd
  constructor
  · intro p hp t ht b hb
    have hty : c.ty? p.1 = some t := by rw [ty_of_mem c hnd p hp, ht]
    have hn : p.1 ∈ order := hperm.mem_iff.mpr ((mem_nodeNames c p.1).mpr ⟨p, hp, rfl⟩)
    rw [eval_eq c order free hndo htopo p.1 hn]
    unfold stepVal
    rw [hty]
    simp only [hb]
  · intro n hn
    have hmem : n ∈ order := by
      have key : ∀ t, c.ty? n = some t → n ∈ order := by
        intro t h
        obtain ⟨p, hp, rfl, _⟩ := mem_of_ty c n _ h
        exact hperm.mem_iff.mpr ((mem_nodeNames c p.1).mpr ⟨p, hp, rfl⟩)
      rcases hn with h | h | ⟨t, h, _, _⟩ <;> exact key _ h
    rw [eval_eq c order free hndo htopo n hmem]
    unfold stepVal
    rcases hn with h | h | ⟨t, h, ht, hnil⟩
    · rw [h]; simp [gateFn]
    · rw [h]; simp [gateFn]
    · rw [h, hnil]
      simp only [List.mem_cons, List.not_mem_nil, or_false] at ht
      rcases ht with rfl | rfl | rfl <;> simp [gateFn]

end Tseitin
end CG
