/- C02 helper: `evalExpr` succeeds on every expression over declared nets and returns a net carrying its value. -/
import CG.Proofs.VlogEval
namespace CG
namespace VT
open Verilog Circuit Ternary

variable {D : Name → Prop} {ins : List Name}

theorem bin_step (hD : DeclOK D ins) {st s1 s2 : TState} {a b e : Expr} {ma mb : Name}
    (o1 : EvalOut D ins st s1 ma a) (o2 : EvalOut D ins s1 s2 mb b)
    (base ty : String) (hbase : IsSyn base) (hty : ty ∈ gateTys) (hnot : ty ≠ "not")
    (op : Bool → Bool → Bool)
    (h1 : ma = mb → ∀ b, gateFn ty [b] = some (op b b))
    (h2 : ma ≠ mb → ∀ b1 b2, gateFn ty [b1, b2] = some (op b1 b2))
    (hden : ∀ v, denote v e = op (denote v a) (denote v b)) :
    ∃ s3 n, gate s2 base ty [ma, mb] = .ok (s3, n) ∧ EvalOut D ins st s3 n e := by
  have hfi : ∀ u ∈ [ma, mb], Usable D s2.c u := by
    intro u hu
    simp only [List.mem_cons, List.not_mem_nil, or_false] at hu
    rcases hu with rfl | rfl
    · exact o1.usable.mono o2.ext.mono
    · exact o2.usable
  obtain ⟨c', n, hg, go⟩ := gate_ok hD s2 o2.si base ty [ma, mb] hbase hty (fun h => absurd h hnot) hfi
  refine ⟨_, n, hg, EvalOut.of_gate (o1.ext.trans o2.ext) o2.ge go ?_⟩
  intro v hv
  have hn : v n = op (v ma) (v mb) := val_bin op go.si.wf.edgesNodup go.ty go.fanin h1 h2 v hv
  have hv2 : Consistent s2.c v := go.ext.consistent o2.si.wf go.si.wf hv
  have hv1 : Consistent s1.c v := o2.ext.consistent o1.si.wf o2.si.wf hv2
  have e2 : v mb = denote v b := o2.val v hv2
  have e1 : v ma = denote v a := o1.val v hv1
  show v n = denote v e
  rw [hn, e2, e1]
  exact (hden v).symm

theorem syn3 {p : String} (hp : p ∈ synPrefixes) (x y : String) : IsSyn (p ++ x ++ "_" ++ y) :=
  ((isSyn_lit hp x).append "_").append y

theorem evalExpr_ok (hD : DeclOK D ins) : ∀ (e : Expr) (st : TState), SI D ins st.c → (∀ g ∈ st.gateExprs, IsSyn g) →
    (∀ x ∈ exprIds e, D x) → BinConsts e → ∃ st' n, evalExpr st e = .ok (st', n) ∧ EvalOut D ins st st' n e
  | .id s, st, hSI, hge, hids, _ =>
    ⟨st, s, rfl, hSI, hge, Ext.refl _, fun _ _ => rfl, Or.inl (Or.inl (hids s (by simp [exprIds])))⟩
  | .const c, st, hSI, hge, _, hc => by
    rcases hc with rfl | rfl
    · exact ⟨st, "tie_0", rfl, hSI, hge, Ext.refl _, val_tie0 hSI, Or.inl (Or.inr (Or.inl rfl))⟩
    · exact ⟨st, "tie_1", rfl, hSI, hge, Ext.refl _, val_tie1 hSI, Or.inl (Or.inr (Or.inr rfl))⟩
  | .not a, st, hSI, hge, hids, hc => by
    obtain ⟨s1, m, h1, o1⟩ := evalExpr_ok hD a st hSI hge hids hc
    obtain ⟨c', n, hg, go⟩ := gate_ok hD s1 o1.si ("not_" ++ m) "not" [m] (isSyn_lit (by decide) m) (by decide)
      (fun _ => by simp) (by intro u hu; rw [List.mem_singleton] at hu; rw [hu]; exact o1.usable)
    refine ⟨_, n, ?_, EvalOut.of_gate o1.ext o1.ge go ?_⟩
    · simp only [evalExpr]
      rw [h1]
      exact hg
    · intro v hv
      have e0 : v n = !v m := val_not go.si.wf.edgesNodup go.ty go.fanin v hv
      have e1 : v m = denote v a := o1.val v (go.ext.consistent o1.si.wf go.si.wf hv)
      show v n = denote v (.not a)
      rw [e0, e1]
      rfl
  | .and a b, st, hSI, hge, hids, hc => by
    obtain ⟨s1, ma, h1, o1⟩ := evalExpr_ok hD a st hSI hge (fun x hx => hids x (by simp [exprIds, hx])) hc.1
    obtain ⟨s2, mb, h2, o2⟩ := evalExpr_ok hD b s1 o1.si o1.ge (fun x hx => hids x (by simp [exprIds, hx])) hc.2
    obtain ⟨s3, n, hg, o3⟩ := bin_step hD o1 o2 ("and_" ++ ma ++ "_" ++ mb) "and" (syn3 (by decide) ma mb)
      (by decide) (by decide) (· && ·) (fun _ => gate_and1) (fun _ => gate_and2) (e := .and a b) (fun _ => rfl)
    refine ⟨s3, n, ?_, o3⟩
    simp only [evalExpr]
    rw [h1]
    simp only [Arith.bind_ok]
    rw [h2]
    exact hg
  | .or a b, st, hSI, hge, hids, hc => by
    obtain ⟨s1, ma, h1, o1⟩ := evalExpr_ok hD a st hSI hge (fun x hx => hids x (by simp [exprIds, hx])) hc.1
    obtain ⟨s2, mb, h2, o2⟩ := evalExpr_ok hD b s1 o1.si o1.ge (fun x hx => hids x (by simp [exprIds, hx])) hc.2
    obtain ⟨s3, n, hg, o3⟩ := bin_step hD o1 o2 ("or_" ++ ma ++ "_" ++ mb) "or" (syn3 (by decide) ma mb)
      (by decide) (by decide) (· || ·) (fun _ => gate_or1) (fun _ => gate_or2) (e := .or a b) (fun _ => rfl)
    refine ⟨s3, n, ?_, o3⟩
    simp only [evalExpr]
    rw [h1]
    simp only [Arith.bind_ok]
    rw [h2]
    exact hg
  | .xor a b, st, hSI, hge, hids, hc => by
    obtain ⟨s1, ma, h1, o1⟩ := evalExpr_ok hD a st hSI hge (fun x hx => hids x (by simp [exprIds, hx])) hc.1
    obtain ⟨s2, mb, h2, o2⟩ := evalExpr_ok hD b s1 o1.si o1.ge (fun x hx => hids x (by simp [exprIds, hx])) hc.2
    by_cases hab : ma = mb
    · refine ⟨s2, "tie_0", ?_, o2.si, o2.ge, o1.ext.trans o2.ext, ?_, Or.inl (Or.inr (Or.inl rfl))⟩
      · simp only [evalExpr]
        rw [h1]
        simp only [Arith.bind_ok]
        rw [h2]
        simp only [Arith.bind_ok, hab, beq_self_eq_true, if_true]
        rfl
      · intro v hv
        have hv1 : Consistent s1.c v := o2.ext.consistent o1.si.wf o2.si.wf hv
        have e0 : v "tie_0" = false := val_tie0 o2.si v hv
        have e2 : v mb = denote v b := o2.val v hv
        have e1 : v ma = denote v a := o1.val v hv1
        show v "tie_0" = denote v (.xor a b)
        rw [e0]
        simp only [denote]
        rw [← e2, ← e1, hab]
        simp
    · obtain ⟨s3, n, hg, o3⟩ := bin_step hD o1 o2 ("xor_" ++ ma ++ "_" ++ mb) "xor" (syn3 (by decide) ma mb)
        (by decide) (by decide) Bool.xor (fun h => absurd h hab) (fun _ => gate_xor2) (e := .xor a b) (fun _ => rfl)
      refine ⟨s3, n, ?_, o3⟩
      simp only [evalExpr]
      rw [h1]
      simp only [Arith.bind_ok]
      rw [h2]
      have : (ma == mb) = false := by simpa using hab
      simp only [Arith.bind_ok, this, Bool.false_eq_true, if_false]
      exact hg
  | .xnor a b, st, hSI, hge, hids, hc => by
    obtain ⟨s1, ma, h1, o1⟩ := evalExpr_ok hD a st hSI hge (fun x hx => hids x (by simp [exprIds, hx])) hc.1
    obtain ⟨s2, mb, h2, o2⟩ := evalExpr_ok hD b s1 o1.si o1.ge (fun x hx => hids x (by simp [exprIds, hx])) hc.2
    by_cases hab : ma = mb
    · refine ⟨s2, "tie_1", ?_, o2.si, o2.ge, o1.ext.trans o2.ext, ?_, Or.inl (Or.inr (Or.inr rfl))⟩
      · simp only [evalExpr]
        rw [h1]
        simp only [Arith.bind_ok]
        rw [h2]
        simp only [Arith.bind_ok, hab, beq_self_eq_true, if_true]
        rfl
      · intro v hv
        have hv1 : Consistent s1.c v := o2.ext.consistent o1.si.wf o2.si.wf hv
        have e0 : v "tie_1" = true := val_tie1 o2.si v hv
        have e2 : v mb = denote v b := o2.val v hv
        have e1 : v ma = denote v a := o1.val v hv1
        show v "tie_1" = denote v (.xnor a b)
        rw [e0]
        simp only [denote]
        rw [← e2, ← e1, hab]
        simp
    · obtain ⟨s3, n, hg, o3⟩ := bin_step hD o1 o2 ("xnor_" ++ ma ++ "_" ++ mb) "xnor" (syn3 (by decide) ma mb)
        (by decide) (by decide) (fun x y => !Bool.xor x y) (fun h => absurd h hab) (fun _ => gate_xnor2)
        (e := .xnor a b) (fun _ => rfl)
      refine ⟨s3, n, ?_, o3⟩
      simp only [evalExpr]
      rw [h1]
      simp only [Arith.bind_ok]
      rw [h2]
      have : (ma == mb) = false := by simpa using hab
      simp only [Arith.bind_ok, this, Bool.false_eq_true, if_false]
      exact hg
  | .mux c a b, st, hSI, hge, hids, hc => by
    obtain ⟨sc, mc, hc1, oc⟩ := evalExpr_ok hD c st hSI hge (fun x hx => hids x (by simp [exprIds, hx])) hc.1
    obtain ⟨sa, ma, ha1, oa⟩ := evalExpr_ok hD a sc oc.si oc.ge (fun x hx => hids x (by simp [exprIds, hx])) hc.2.1
    obtain ⟨sb, mb, hb1, ob⟩ := evalExpr_ok hD b sa oa.si oa.ge (fun x hx => hids x (by simp [exprIds, hx])) hc.2.2
    -- usable operands in sb
    have uc : Usable D sb.c mc := (oc.usable.mono oa.ext.mono).mono ob.ext.mono
    have ua : Usable D sb.c ma := oa.usable.mono ob.ext.mono
    have ub : Usable D sb.c mb := ob.usable
    -- the four gates
    obtain ⟨cn, rn, hn, gn⟩ := addNode_uid_ok hD sb ob.si ("mux_n_" ++ (mc ++ "_" ++ ma ++ "_" ++ mb)) "not" [mc]
      (isSyn_lit (by decide) _) (by decide) (fun _ => by simp)
      (by intro u hu; rw [List.mem_singleton] at hu; rw [hu]; exact uc)
    have un : Usable D cn rn := Or.inl ⟨gn.has, fun h => tiex_not_syn (h ▸ gn.syn)⟩
    obtain ⟨c0, r0, h0, g0⟩ := addNode_uid_ok hD { sb with c := cn } gn.si ("mux_a0_" ++ (mc ++ "_" ++ ma ++ "_" ++ mb))
      "and" [rn, mb] (isSyn_lit (by decide) _) (by decide) (fun h => by simp at h)
      (by
        intro u hu
        simp only [List.mem_cons, List.not_mem_nil, or_false] at hu
        rcases hu with rfl | rfl
        · exact un
        · exact ub.mono gn.ext.mono)
    have u0 : Usable D c0 r0 := Or.inl ⟨g0.has, fun h => tiex_not_syn (h ▸ g0.syn)⟩
    obtain ⟨c1, r1, h1, g1⟩ := addNode_uid_ok hD { sb with c := c0 } g0.si ("mux_a1_" ++ (mc ++ "_" ++ ma ++ "_" ++ mb))
      "and" [mc, ma] (isSyn_lit (by decide) _) (by decide) (fun h => by simp at h)
      (by
        intro u hu
        simp only [List.mem_cons, List.not_mem_nil, or_false] at hu
        rcases hu with rfl | rfl
        · exact (uc.mono gn.ext.mono).mono g0.ext.mono
        · exact (ua.mono gn.ext.mono).mono g0.ext.mono)
    have u1 : Usable D c1 r1 := Or.inl ⟨g1.has, fun h => tiex_not_syn (h ▸ g1.syn)⟩
    obtain ⟨co, ro, ho, go⟩ := gate_ok hD { sb with c := c1 } g1.si ("mux_o_" ++ (mc ++ "_" ++ ma ++ "_" ++ mb))
      "or" [r0, r1] (isSyn_lit (by decide) _) (by decide) (fun h => by simp at h)
      (by
        intro u hu
        simp only [List.mem_cons, List.not_mem_nil, or_false] at hu
        rcases hu with rfl | rfl
        · exact u0.mono g1.ext.mono
        · exact u1)
    have hext : Ext st.c c1 := (((oc.ext.trans oa.ext).trans ob.ext).trans gn.ext).trans (g0.ext.trans g1.ext)
    refine ⟨_, ro, ?_, EvalOut.of_gate (st := { sb with c := c1 }) hext ob.ge go ?_⟩
    · simp only [evalExpr]
      rw [hc1]
      simp only [Arith.bind_ok]
      rw [ha1]
      simp only [Arith.bind_ok]
      rw [hb1]
      simp only [Arith.bind_ok]
      rw [hn]
      simp only [Arith.bind_ok]
      rw [h0]
      simp only [Arith.bind_ok]
      rw [h1]
      simp only [Arith.bind_ok]
      exact ho
    · intro v hv
      have hv1 : Consistent c1 v := go.ext.consistent g1.si.wf go.si.wf hv
      have hv0 : Consistent c0 v := g1.ext.consistent g0.si.wf g1.si.wf hv1
      have hvn : Consistent cn v := g0.ext.consistent gn.si.wf g0.si.wf hv0
      have hvb : Consistent sb.c v := gn.ext.consistent ob.si.wf gn.si.wf hvn
      have hva : Consistent sa.c v := ob.ext.consistent oa.si.wf ob.si.wf hvb
      have hvc : Consistent sc.c v := oa.ext.consistent oc.si.wf oa.si.wf hva
      have e_o : v ro = (v r0 || v r1) :=
        val_bin (· || ·) go.si.wf.edgesNodup go.ty go.fanin (fun _ => gate_or1) (fun _ => gate_or2) v hv
      have e_1 : v r1 = (v mc && v ma) :=
        val_bin (· && ·) g1.si.wf.edgesNodup g1.ty g1.fanin (fun _ => gate_and1) (fun _ => gate_and2) v hv1
      have e_0 : v r0 = (v rn && v mb) :=
        val_bin (· && ·) g0.si.wf.edgesNodup g0.ty g0.fanin (fun _ => gate_and1) (fun _ => gate_and2) v hv0
      have e_n : v rn = !v mc := val_not gn.si.wf.edgesNodup gn.ty gn.fanin v hvn
      have e_b : v mb = denote v b := ob.val v hvb
      have e_a : v ma = denote v a := oa.val v hva
      have e_c : v mc = denote v c := oc.val v hvc
      show v ro = denote v (.mux c a b)
      rw [e_o, e_1, e_0, e_n, e_b, e_a, e_c]
      simp only [denote]
      cases denote v c <;> cases denote v a <;> cases denote v b <;> rfl

end VT
end CG
