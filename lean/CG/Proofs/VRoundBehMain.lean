/- C03 helper (behavioural round trip): assembly — the writer's assignments (`VRoundBehWrite`) form a module of the
   subset handled by the C02 lemmas; `VT.transform_ok` gives the forward direction, `VB.transform_back` the converse. -/
import CG.Proofs.VRoundBehWrite
import CG.Proofs.VRoundBehBackC
namespace CG
namespace VB
open Verilog Circuit Ternary VT

/-- **behavioural write → read round trip** (vocabulary of the helper files) -/
theorem roundtrip (c : Circuit) (ord ord' : Ord) (hord : OrdOK ord) (_hord' : OrdOK ord') (hc : VR.Wr c)
    (hnobb : c.bbs = []) (hnx : ∀ p ∈ c.nodes, p.2.ty ≠ some "x") (hns : ∀ p ∈ c.nodes, ¬ IsSyn p.1) :
    ∃ wm c', toWModule c true ord = .ok wm ∧ transform wm.toModule [] ord' = .ok c' ∧
      c'.name = c.name ∧ (∀ x, x ∈ c'.inputs ↔ x ∈ c.inputs) ∧ (∀ x, x ∈ c'.outputs ↔ x ∈ c.outputs) ∧
      (∀ v', Consistent c' v' → Consistent c v') ∧
      (∀ v, Consistent c v → ∃ v', Consistent c' v' ∧ ∀ n, c.has n = true → v' n = v n) := by
  obtain ⟨wm, hw, hname, hin, hout, hstmts⟩ := write_beh c ord hord hc hnobb
  obtain ⟨hA, hAnd, hAall⟩ := asgs_spec c ord hord hc hnobb hnx
  have hnd := hc.clean.nodup
  -- facts about the nodes of `c`
  have no_bb : ∀ p ∈ c.nodes, p.2.ty ≠ some "bb_input" ∧ p.2.ty ≠ some "bb_output" := by
    intro p hp
    constructor
    · intro h
      obtain ⟨q, hq, _⟩ := hc.pins p hp (Or.inl h)
      rw [hnobb] at hq; cases hq
    · intro h
      obtain ⟨q, hq, _⟩ := hc.pins p hp (Or.inr h)
      rw [hnobb] at hq; cases hq
  have pname : ∀ n, c.has n = true → VR.PName n := by
    intro n hn
    obtain ⟨a, ha⟩ := Limit.attr_of_has hn
    exact hc.names (n, a) (attr?_mem ha) (no_bb _ (attr?_mem ha))
  have nsyn : ∀ n, c.has n = true → ¬ IsSyn n := by
    intro n hn
    obtain ⟨a, ha⟩ := Limit.attr_of_has hn
    exact hns (n, a) (attr?_mem ha)
  have ntie : ∀ n, c.has n = true → n ≠ "tie_0" ∧ n ≠ "tie_1" ∧ n ≠ "tie_x" :=
    fun n hn => (pname n hn).2.2.2.2
  have cls : ∀ n, c.has n = true → n ∈ ord c.inputs ∨ n ∈ (asgs ord c).map (·.1) := by
    intro n hn
    obtain ⟨t, ht, _⟩ := VR.ty?_of_mem_nodeNames hc ((has_iff_mem c n).1 hn)
    by_cases hti : t = "input"
    · left
      rw [(hord _).mem_iff, mem_inputs hnd, ht, hti]
    · exact Or.inr (hAall n t ht hti)
  have hasA : ∀ a ∈ asgs ord c, c.has a.1 = true := by
    intro a ha
    obtain ⟨t, ht, _⟩ := hA a ha
    exact has_of_ty? ht
  have hasI : ∀ i ∈ ord c.inputs, c.has i = true := by
    intro i hi
    rw [(hord _).mem_iff, mem_inputs hnd] at hi
    exact has_of_ty? hi
  have hasO : ∀ o ∈ ord c.outputs, c.has o = true := by
    intro o ho
    rw [(hord _).mem_iff] at ho
    unfold Circuit.outputs at ho
    simp only [List.mem_map, List.mem_filter] at ho
    obtain ⟨p, ⟨hp, _⟩, rfl⟩ := ho
    exact (has_iff_mem c p.1).2 (List.mem_map.2 ⟨p, hp, rfl⟩)
  have hasD : ∀ n, (n ∈ ord c.inputs ∨ n ∈ (asgs ord c).map (·.1)) → c.has n = true := by
    rintro n (h | h)
    · exact hasI n h
    · obtain ⟨a, ha, rfl⟩ := List.mem_map.1 h
      exact hasA a ha
  -- the module without the `wire` declarations
  let m0 : Module := Module.mk wm.name (wm.inputs ++ wm.outputs)
    ((ord c.inputs).map (fun i => Item.input [i]) ++ (ord c.outputs).map (fun o => Item.output [o]) ++
      (asgs ord c).map (fun a => Item.assign [a]))
  have hmod : ModOK m0 (ord c.inputs) (ord c.outputs) (asgs ord c) := by
    refine ⟨rfl, ?_, ?_, ?_, ?_, ?_, ?_⟩
    · intro x
      show x ∈ wm.inputs ++ wm.outputs ↔ _
      rw [hin, hout, List.mem_append]
    · rw [List.nodup_append]
      refine ⟨(hord _).nodup_iff.2 ?_, hAnd, ?_⟩
      · unfold Circuit.inputs Circuit.filterType
        exact (List.filter_sublist.map _).nodup hnd
      · intro x hx y hy hxy
        subst hxy
        obtain ⟨a, ha, rfl⟩ := List.mem_map.1 hy
        obtain ⟨t, ht, hti, _⟩ := hA a ha
        rw [(hord _).mem_iff, mem_inputs hnd, ht] at hx
        injection hx with hx
        exact hti hx
    · intro o ho
      exact cls o (hasO o ho)
    · intro a ha x hx
      obtain ⟨t, _, _, _, _, hids, _⟩ := hA a ha
      exact cls x (hids x hx)
    · intro a ha
      obtain ⟨t, _, _, hb, _⟩ := hA a ha
      exact hb
    · intro n hn
      have hh := hasD n hn
      have hp := pname n hh
      refine ⟨nsyn n hh, hp.2.2.2.2, hp.2.1, ?_⟩
      cases he : n.isEmpty with
      | false => rfl
      | true => exact absurd (String.isEmpty_iff.mp he) hp.1
  obtain ⟨c', ht, hnm, hins, houts, hval⟩ := transform_ok hmod [] ord'
  have hread : transform wm.toModule [] ord' = .ok c' := by
    have : wm.toModule = Module.mk wm.name (wm.inputs ++ wm.outputs)
        (((ord c.inputs).map (fun i => Item.input [i]) ++ (ord c.outputs).map (fun o => Item.output [o])) ++
          wm.wires.map (fun w => Item.wire [w]) ++ (asgs ord c).map (fun a => Item.assign [a])) := by
      unfold WModule.toModule
      rw [hstmts]
      simp only [hin, hout]
    rw [this, transform_wires]
    exact ht
  have hnomux : ∀ a ∈ asgs ord c, VP.NoMux a.2 := by
    intro a ha
    obtain ⟨t, _, _, _, h, _⟩ := hA a ha
    exact h
  refine ⟨wm, c', hw, hread, by rw [hnm]; exact hname, ?_, ?_, ?_, ?_⟩
  · intro x; rw [hins, (hord _).mem_iff]
  · intro x; rw [houts, (hord _).mem_iff]
  · -- every valuation of the result is one of `c`
    intro v' hv' p hp t htp b hb
    have hpa : c.attr? p.1 = some p.2 := attr?_of_mem hnd hp
    have hty : c.ty? p.1 = some t := by rw [ty_of_attr hpa]; exact htp
    by_cases hti : t = "input"
    · rw [hti] at hb
      simp [gateFn] at hb
    · obtain ⟨a, ha, hap⟩ := List.mem_map.1 (hAall p.1 t hty hti)
      obtain ⟨t', ht', _, _, _, _, hsem⟩ := hA a ha
      have hap : a.1 = p.1 := hap
      rw [hap, hty] at ht'
      injection ht' with ht'
      subst ht'
      have h1 := hsem v'
      rw [hap, hb] at h1
      injection h1 with h1
      rw [h1, ← hap]
      exact hval v' hv' a ha
  · -- every valuation of `c` extends
    intro v hv
    let v0 : Val := fun x => if x = "tie_0" then false else if x = "tie_1" then true else v x
    have agree0 : ∀ x, c.has x = true → v0 x = v x := by
      intro x hx
      have := ntie x hx
      show (if x = "tie_0" then false else if x = "tie_1" then true else v x) = v x
      rw [if_neg this.1, if_neg this.2.1]
    have hasg : ∀ a ∈ asgs ord c, v0 a.1 = denote v0 a.2 := by
      intro a ha
      obtain ⟨t, ht', _, _, _, hids, hsem⟩ := hA a ha
      rw [agree0 a.1 (hasA a ha), denote_congr a.2 (fun x hx => agree0 x (hids x hx))]
      obtain ⟨at', hat, hatt⟩ := VR.ty_mem ht'
      exact hv (a.1, at') hat t hatt _ (hsem v)
    obtain ⟨v', hv', ag⟩ := transform_back hmod hnomux [] ord' c' ht v0 (if_pos rfl)
      (by show (if "tie_1" = "tie_0" then false else if "tie_1" = "tie_1" then true else v "tie_1") = true
          rw [if_neg (by decide), if_pos rfl]) hasg
    exact ⟨v', hv', fun n hn => (ag n (nsyn n hn)).trans (agree0 n hn)⟩

end VB
end CG
