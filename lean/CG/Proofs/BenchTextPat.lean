/- C15 (character level) helper: the four regular expressions of the bench reader as concrete `Re` trees -/
import CG.Bench
import CG.Proofs.BenchTextComplete
namespace CG
namespace BenchText
open Regex

deriving instance DecidableEq for Re

def ch (c : Char) : Re := .set { ranges := [(c, c)] }
def lit : List Char → Re
  | [] => .eps
  | [c] => ch c
  | c :: d :: w => .seq (ch c) (lit (d :: w))
def altL : List Re → Re
  | [] => .eps
  | [r] => r
  | r :: r' :: rs => .alt r (altL (r' :: rs))
def wsS : CSet := { ranges := wsRanges }
def ws : Re := .star (.set wsS) true
def idS : CSet := { ranges := [('a', 'z'), ('A', 'Z'), ('_', '_')] }
def idC : CSet := { ranges := [('a', 'z'), ('A', 'Z'), ('0', '9'), ('_', '_')] }
def ident : Re := .seq (.set idS) (.star (.set idC) true)
def nrp : CSet := { neg := true, ranges := [(')', ')')] }

/-- `(?:K|k)\s*\(\s*(ident)\s*\)` -/
def rxIO (K k : List Char) : Re :=
  .seq (.alt (lit K) (lit k)) (.seq ws (.seq (ch '(') (.seq ws (.seq (.group 1 ident) (.seq ws (ch ')'))))))

/-- `(ident)\s*=\s*(kw1|kw2|…)\s*\(([^\)]+)\)` -/
def rxGate (kws : List (List Char)) : Re :=
  .seq (.group 1 ident) (.seq ws (.seq (ch '=') (.seq ws (.seq (.group 2 (altL (kws.map lit))) (.seq ws (.seq (ch '(')
    (.seq (.group 3 (.plus (.set nrp) true)) (ch ')'))))))))

def kINPUT : List Char := ['I', 'N', 'P', 'U', 'T']
def kinput : List Char := ['i', 'n', 'p', 'u', 't']
def kOUTPUT : List Char := ['O', 'U', 'T', 'P', 'U', 'T']
def koutput : List Char := ['o', 'u', 't', 'p', 'u', 't']
def gateKws : List (List Char) :=
  [['b', 'u', 'f'], ['b', 'u', 'f', 'f'], ['n', 'o', 't'], ['o', 'r'], ['n', 'o', 'r'], ['a', 'n', 'd'],
   ['n', 'a', 'n', 'd'], ['x', 'o', 'r'], ['x', 'n', 'o', 'r'],
   ['B', 'U', 'F'], ['B', 'U', 'F', 'F'], ['N', 'O', 'T'], ['O', 'R'], ['N', 'O', 'R'], ['A', 'N', 'D'],
   ['N', 'A', 'N', 'D'], ['X', 'O', 'R'], ['X', 'N', 'O', 'R']]
def dffKws : List (List Char) := [['D', 'F', 'F'], ['d', 'f', 'f']]

def rx0 : Re := rxIO kINPUT kinput
def rx1 : Re := rxGate gateKws
def rx2 : Re := rxGate dffKws
def rx3 : Re := rxIO kOUTPUT koutput

theorem parse_rx0 : Regex.parse (Bench.rx 0).1 = some (rx0, 1) ∧ (Bench.rx 0).2 = true := by decide +kernel
theorem parse_rx1 : Regex.parse (Bench.rx 1).1 = some (rx1, 3) ∧ (Bench.rx 1).2 = false := by decide +kernel
theorem parse_rx2 : Regex.parse (Bench.rx 2).1 = some (rx2, 3) ∧ (Bench.rx 2).2 = false := by decide +kernel
theorem parse_rx3 : Regex.parse (Bench.rx 3).1 = some (rx3, 1) ∧ (Bench.rx 3).2 = true := by decide +kernel

/-- `findall` for a pattern whose parse is known -/
theorem findall_eq {pat : String} {r : Re} {ng : Nat} (h : Regex.parse pat = some (r, ng)) (text : String) (dotall : Bool) :
    Regex.findall pat text dotall =
      some ((allMatches { s := text.toList.toArray, dotall := dotall } r ng (text.toList.toArray.size + 2) 0).map
        (fun mt => if ng == 0 then [slice text.toList.toArray mt.start mt.stop] else mt.groups.map (·.getD ""))) := by
  unfold Regex.findall
  rw [h]

theorem need_lit_le (N : Nat) : ∀ w, need N (lit w) ≤ 2 * w.length + 1
  | [] => by simp [lit, need]
  | [c] => by simp [lit, need, ch]
  | c :: d :: w => by
    have := need_lit_le N (d :: w)
    simp only [lit, need, ch, List.length_cons] at this ⊢
    omega

theorem need_rx0 (s : Array Char) : need s.size rx0 ≤ fuelFor s := by
  simp only [rx0, rxIO, need, ws, ident, ch, lit, kINPUT, kinput, fuelFor]
  omega
theorem need_rx3 (s : Array Char) : need s.size rx3 ≤ fuelFor s := by
  simp only [rx3, rxIO, need, ws, ident, ch, lit, kOUTPUT, koutput, fuelFor]
  omega
theorem need_rx1 (s : Array Char) : need s.size rx1 ≤ fuelFor s := by
  simp only [rx1, rxGate, need, ws, ident, ch, lit, altL, gateKws, List.map, fuelFor]
  omega
theorem need_rx2 (s : Array Char) : need s.size rx2 ≤ fuelFor s := by
  simp only [rx2, rxGate, need, ws, ident, ch, lit, altL, dffKws, List.map, fuelFor]
  omega

end BenchText
end CG
