/- C15 (character level) helper: `String.splitOn` with a one-character separator, at the level of character lists -/
namespace CG
namespace BenchText

/-- UTF-8 length of a list of characters -/
def ulen : List Char → Nat
  | [] => 0
  | c :: cs => c.utf8Size + ulen cs

theorem ulen_append (a b : List Char) : ulen (a ++ b) = ulen a + ulen b := by
  induction a with
  | nil => simp [ulen]
  | cons c a ih => simp only [List.cons_append, ulen, ih]; omega

theorem byteSize_ofList (l : List Char) : (String.ofList l).utf8ByteSize = ulen l := by
  induction l with
  | nil => rfl
  | cons c l ih =>
    have : String.ofList (c :: l) = String.singleton c ++ String.ofList l := by
      rw [String.singleton_eq_ofList, ← String.ofList_append]; rfl
    rw [this, String.utf8ByteSize_append, String.utf8ByteSize_singleton, ih]
    rfl

theorem byteSize_eq (s : String) : s.utf8ByteSize = ulen s.toList := by
  rw [← byteSize_ofList, String.ofList_toList]

theorem getAux_at (x : Char) (b : List Char) : ∀ (a : List Char) (k : Nat),
    String.Pos.Raw.utf8GetAux (a ++ x :: b) ⟨k⟩ ⟨k + ulen a⟩ = x
  | [], k => by simp [String.Pos.Raw.utf8GetAux, ulen]
  | y :: a, k => by
    have hpos := Char.utf8Size_pos y
    have hne : (⟨k⟩ : String.Pos.Raw) ≠ ⟨k + ulen (y :: a)⟩ := by
      intro h
      have := congrArg String.Pos.Raw.byteIdx h
      simp only [ulen] at this
      omega
    simp only [List.cons_append, String.Pos.Raw.utf8GetAux, if_neg hne]
    have := getAux_at x b a (k + y.utf8Size)
    have e : k + y.utf8Size + ulen a = k + ulen (y :: a) := by simp only [ulen]; omega
    rw [e] at this
    exact this

theorem get_at {s : String} {a b : List Char} {x : Char} (h : s.toList = a ++ x :: b) :
    String.Pos.Raw.get s ⟨ulen a⟩ = x := by
  unfold String.Pos.Raw.get
  rw [h]
  have := getAux_at x b a 0
  simp only [Nat.zero_add] at this
  exact this

theorem go₂_at (b : List Char) : ∀ (m : List Char) (k : Nat),
    String.Pos.Raw.extract.go₂ (m ++ b) ⟨k⟩ ⟨k + ulen m⟩ = m
  | [], k => by
    cases b with
    | nil => rfl
    | cons c cs => simp [String.Pos.Raw.extract.go₂, ulen]
  | y :: m, k => by
    have hpos := Char.utf8Size_pos y
    have hne : (⟨k⟩ : String.Pos.Raw) ≠ ⟨k + ulen (y :: m)⟩ := by
      intro h
      have := congrArg String.Pos.Raw.byteIdx h
      simp only [ulen] at this
      omega
    simp only [List.cons_append, String.Pos.Raw.extract.go₂, if_neg hne]
    have := go₂_at b m (k + y.utf8Size)
    have e : k + y.utf8Size + ulen m = k + ulen (y :: m) := by simp only [ulen]; omega
    rw [e] at this
    show y :: String.Pos.Raw.extract.go₂ (m ++ b) ⟨k + y.utf8Size⟩ ⟨k + ulen (y :: m)⟩ = y :: m
    rw [this]

theorem go₁_at (t : List Char) (e : String.Pos.Raw) : ∀ (a : List Char) (k : Nat),
    String.Pos.Raw.extract.go₁ (a ++ t) ⟨k⟩ ⟨k + ulen a⟩ e = String.Pos.Raw.extract.go₂ t ⟨k + ulen a⟩ e
  | [], k => by
    cases t with
    | nil => rfl
    | cons c cs => simp [String.Pos.Raw.extract.go₁, ulen]
  | y :: a, k => by
    have hpos := Char.utf8Size_pos y
    have hne : (⟨k⟩ : String.Pos.Raw) ≠ ⟨k + ulen (y :: a)⟩ := by
      intro h
      have := congrArg String.Pos.Raw.byteIdx h
      simp only [ulen] at this
      omega
    simp only [List.cons_append, String.Pos.Raw.extract.go₁, if_neg hne]
    have := go₁_at t e a (k + y.utf8Size)
    have e' : k + y.utf8Size + ulen a = k + ulen (y :: a) := by simp only [ulen]; omega
    rw [e'] at this
    exact this

theorem extract_at {s : String} {a m b : List Char} (h : s.toList = a ++ (m ++ b)) :
    String.Pos.Raw.extract s ⟨ulen a⟩ ⟨ulen a + ulen m⟩ = String.ofList m := by
  show (if (⟨ulen a⟩ : String.Pos.Raw).byteIdx ≥ (⟨ulen a + ulen m⟩ : String.Pos.Raw).byteIdx then ""
    else String.ofList (String.Pos.Raw.extract.go₁ s.toList 0 ⟨ulen a⟩ ⟨ulen a + ulen m⟩)) = _
  by_cases hm : m = []
  · subst hm
    simp [ulen]
  · have hpos : 0 < ulen m := by
      cases m with
      | nil => exact absurd rfl hm
      | cons y m => have := Char.utf8Size_pos y; simp only [ulen]; omega
    rw [if_neg (by simp only [ge_iff_le]; omega), h]
    have h2 := go₂_at b m (ulen a)
    have h1 : String.Pos.Raw.extract.go₁ (a ++ (m ++ b)) 0 ⟨ulen a⟩ ⟨ulen a + ulen m⟩ =
        String.Pos.Raw.extract.go₂ (m ++ b) ⟨ulen a⟩ ⟨ulen a + ulen m⟩ := by
      have := go₁_at (m ++ b) ⟨ulen a + ulen m⟩ a 0
      simp only [Nat.zero_add] at this
      exact this
    rw [h1, h2]

/-- the loop of `String.splitOn` for a one-character separator -/
theorem splitOnAux_single (s : String) (c : Char) : ∀ (rest pre cur : List Char) (r : List String),
    s.toList = pre ++ (cur ++ rest) → c ∉ cur →
    String.splitOnAux s (String.singleton c) ⟨ulen pre⟩ ⟨ulen pre + ulen cur⟩ 0 r =
      r.reverse ++ ((cur ++ rest).splitOn c).map String.ofList
  | [], pre, cur, r, h, hc => by
    rw [String.splitOnAux]
    have hend : String.Pos.Raw.atEnd s ⟨ulen pre + ulen cur⟩ = true := by
      simp only [String.Pos.Raw.atEnd, byteSize_eq, h, ulen_append, ulen, decide_eq_true_eq]
      omega
    rw [if_pos hend, extract_at h, List.append_nil, List.splitOn_eq_singleton hc]
    simp
  | x :: rest, pre, cur, r, h, hc => by
    rw [String.splitOnAux]
    have hpos := Char.utf8Size_pos x
    have hend : String.Pos.Raw.atEnd s ⟨ulen pre + ulen cur⟩ = false := by
      simp only [String.Pos.Raw.atEnd, byteSize_eq, h, ulen_append, ulen, decide_eq_false_iff_not]
      omega
    have hget : String.Pos.Raw.get s ⟨ulen pre + ulen cur⟩ = x := by
      have h' : s.toList = (pre ++ cur) ++ x :: rest := by rw [h]; simp
      have := get_at h'
      rw [ulen_append] at this
      exact this
    have hsep : String.Pos.Raw.get (String.singleton c) 0 = c := by
      have := get_at (s := String.singleton c) (a := []) (b := []) (x := c) (by rw [String.singleton_eq_ofList, String.toList_ofList]; rfl)
      exact this
    have hnext : String.Pos.Raw.next s ⟨ulen pre + ulen cur⟩ = ⟨ulen pre + ulen (cur ++ [x])⟩ := by
      unfold String.Pos.Raw.next
      rw [hget, ulen_append]
      simp only [ulen]
      show (⟨ulen pre + ulen cur + x.utf8Size⟩ : String.Pos.Raw) = _
      congr 1
      omega
    simp only [hend, Bool.false_eq_true, if_false, hget, hsep]
    by_cases hx : x = c
    · subst hx
      have hnexts : String.Pos.Raw.next (String.singleton x) 0 = ⟨x.utf8Size⟩ := by
        unfold String.Pos.Raw.next
        rw [hsep]
        show (⟨0 + x.utf8Size⟩ : String.Pos.Raw) = _
        rw [Nat.zero_add]
      have hends : String.Pos.Raw.atEnd (String.singleton x) ⟨x.utf8Size⟩ = true := by
        simp [String.Pos.Raw.atEnd, String.utf8ByteSize_singleton]
      simp only [beq_self_eq_true, if_true, hnexts, hends, hnext]
      have hun : (String.Pos.Raw.unoffsetBy ⟨ulen pre + ulen (cur ++ [x])⟩ ⟨x.utf8Size⟩ : String.Pos.Raw) =
          ⟨ulen pre + ulen cur⟩ := by
        simp only [String.Pos.Raw.unoffsetBy, ulen_append, ulen]
        congr 1
        omega
      rw [hun, extract_at h]
      have h' : s.toList = (pre ++ (cur ++ [x])) ++ ([] ++ rest) := by rw [h]; simp
      have ih := splitOnAux_single s x rest (pre ++ (cur ++ [x])) [] (String.ofList cur :: r) h' (by simp)
      simp only [ulen_append, ulen, Nat.add_zero, List.nil_append] at ih
      simp only [ulen_append, ulen, Nat.add_zero]
      rw [ih, List.splitOn_append_cons_self_of_not_mem hc]
      simp
    · have hbeq : (x == c) = false := by rw [beq_eq_false_iff_ne]; exact hx
      simp only [hbeq, Bool.false_eq_true, if_false]
      have hun : (String.Pos.Raw.unoffsetBy ⟨ulen pre + ulen cur⟩ 0 : String.Pos.Raw) = ⟨ulen pre + ulen cur⟩ := by
        simp [String.Pos.Raw.unoffsetBy]
      rw [hun, hnext]
      have h' : s.toList = pre ++ ((cur ++ [x]) ++ rest) := by rw [h]; simp
      have ih := splitOnAux_single s c rest pre (cur ++ [x]) r h' (by
        intro hm
        rcases List.mem_append.mp hm with hm | hm
        · exact hc hm
        · exact hx (List.mem_singleton.mp hm).symm)
      rw [ih]
      simp

/-- **`String.splitOn` with a one-character separator** is `List.splitOn` on the characters -/
theorem splitOn_single (s : String) (c : Char) :
    s.splitOn (String.singleton c) = (s.toList.splitOn c).map String.ofList := by
  unfold String.splitOn
  have hne : (String.singleton c == "") = false := by
    rw [beq_eq_false_iff_ne]
    intro h
    have := congrArg String.utf8ByteSize h
    rw [String.utf8ByteSize_singleton] at this
    have := Char.utf8Size_pos c
    simp_all
  rw [hne]
  simp only [Bool.false_eq_true, if_false]
  have := splitOnAux_single s c s.toList [] [] [] (by simp) (by simp)
  simp only [ulen, Nat.add_zero, List.reverse_nil, List.nil_append] at this
  exact this

end BenchText
end CG
