/- C17 (super-circuit) helpers, part 5: the super-circuit before the first instance (primary inputs and the output) -/
import CG.Proofs.SGSuperBuildB
namespace CG
namespace SGSuper
namespace Build
open Supergates SGA Circuit

def s00 (c2 : Circuit) : Circuit := { name := c2.name ++ "_supergates" }

theorem inputs_nodup' {c : Circuit} (h : c.nodeNames.Nodup) : c.inputs.Nodup := by
  unfold Circuit.inputs Circuit.filterType
  exact (List.filter_sublist.map _).nodup h

theorem s00_has (c2 : Circuit) (x : Name) : (s00 c2).has x = false := rfl

/-- the two loops over the primary inputs and the (single) output -/
def baseOf (c2 : Circuit) (ord : Ord) : E Circuit :=
  (ord c2.inputs).foldlM (fun (s : Circuit) i => Tx.addC s { n := i, ty := "input" }) (s00 c2) >>= fun s =>
  (ord c2.outputs).foldlM (fun (s : Circuit) o =>
      if s.has o then liftO (s.setOutput [o] true) else Tx.addC s { n := o, ty := "buf", output := true }) s

theorem superCircuit_eq (c2 : Circuit) (ord : Ord) (ms : List (Found × Circuit)) :
    superCircuit c2 ord ms = baseOf c2 ord >>= fun s => ms.foldlM (superStep ord) s := by
  unfold superCircuit baseOf s00
  rw [bind_assoc]

theorem base_desc (c2 : Circuit) (hwf : WF c2) (hN : NamesOK c2) (ord : Ord) (hord : OrdOK ord) (o : Name)
    (hout : c2.outputs = [o]) :
    ∃ s0, baseOf c2 ord = .ok s0 ∧ MixDesc c2 [] [] s0 := by
  have hin_nd : (ord c2.inputs).Nodup := (hord _).nodup_iff.mpr (inputs_nodup' hwf.nodup)
  have hin_mem : ∀ x, x ∈ ord c2.inputs ↔ x ∈ c2.inputs := fun x => (hord _).mem_iff
  obtain ⟨s1, e1, g1⟩ := addInputs (ord c2.inputs) (s00 c2) hin_nd (fun i _ => s00_has c2 i)
    (fun i hi => nameOK_of c2 hN (mem_inputs_has ((hin_mem i).mp hi)))
  have hoo : ord c2.outputs = [o] := by
    have := hord c2.outputs
    rw [hout] at this ⊢
    exact List.perm_singleton.mp this
  have ho2 : c2.has o = true := mem_outputs_has (by rw [hout]; exact List.mem_singleton_self o)
  have h1has : ∀ x, s1.has x = true ↔ x ∈ c2.inputs := by
    intro x
    rw [g1.has, s00_has, hin_mem]
    simp
  have h1attr : ∀ x, x ∈ c2.inputs → s1.attr? x = some { ty := some "input", out := some false } :=
    fun x hx => g1.new x ((hin_mem x).mpr hx) (s00_has c2 x)
  have h1nd : s1.nodeNames.Nodup := g1.nodup List.nodup_nil
  have h1e : s1.edges = [] := g1.edges
  have h1b : s1.bbs = [] := g1.bbs
  have hmemout : ∀ x, x ∈ c2.outputs ↔ x = o := by intro x; rw [hout, List.mem_singleton]
  unfold baseOf
  rw [e1, hoo]
  simp only [bind, Except.bind, List.foldlM_cons, List.foldlM_nil]
  by_cases hso : s1.has o = true
  · -- the output is a primary input
    have hoin : o ∈ c2.inputs := (h1has o).mp hso
    have e2 : liftO (s1.setOutput [o] true) = .ok (s1.setOutRaw o true) := by
      unfold Circuit.setOutput
      rw [if_pos hso]
      rfl
    rw [if_pos hso, e2]
    refine ⟨_, rfl, ?_⟩
    refine ⟨⟨?_, ?_, ?_⟩, ?_, ?_, ?_, ?_, ?_⟩
    · rw [setOutRaw_nodeNames]; exact h1nd
    · rw [setOutRaw_edges, h1e]; exact List.nodup_nil
    · intro e he; rw [setOutRaw_edges, h1e] at he; exact absurd he List.not_mem_nil
    · rw [setOutRaw_bbs, h1b]; rfl
    · intro x
      rw [setOutRaw_has, h1has]
      constructor
      · intro h; exact Or.inl (Or.inl h)
      · rintro ((h | h | ⟨p, hp, _⟩) | ⟨p, hp, _⟩ | ⟨p, hp, _⟩)
        · exact h
        · rw [(hmemout x).mp h]; exact hoin
        · exact absurd hp List.not_mem_nil
        · exact absurd hp List.not_mem_nil
        · exact absurd hp List.not_mem_nil
    · intro x hx
      have hxin : x ∈ c2.inputs := by
        rcases hx with h | h | ⟨p, hp, _⟩
        · exact h
        · rw [(hmemout x).mp h]; exact hoin
        · exact absurd hp List.not_mem_nil
      rw [setOutRaw_attr?, h1attr x hxin, if_pos hxin]
      by_cases hxo : x = o
      · subst hxo
        simp [hout]
      · have : x ∉ c2.outputs := fun h => hxo ((hmemout x).mp h)
        simp [hxo, this]
    · intro p hp; exact absurd hp List.not_mem_nil
    · intro e
      rw [setOutRaw_edges, h1e]
      constructor
      · intro h; exact absurd h List.not_mem_nil
      · rintro (⟨p, hp, _⟩ | ⟨p, hp, _⟩) <;> exact absurd hp List.not_mem_nil
  · have hso' : s1.has o = false := by simpa using hso
    have honin : o ∉ c2.inputs := fun h => hso ((h1has o).mpr h)
    rw [if_neg hso, add_fresh s1 o "buf" true hso' (nameOK_of c2 hN ho2) (by decide)]
    refine ⟨_, rfl, ?_⟩
    refine ⟨⟨?_, ?_, ?_⟩, ?_, ?_, ?_, ?_, ?_⟩
    · exact addNodeAttr_nodup _ _ h1nd
    · rw [addNodeAttr_edges, h1e]; exact List.nodup_nil
    · intro e he; rw [addNodeAttr_edges, h1e] at he; exact absurd he List.not_mem_nil
    · rw [addNodeAttr_bbs, h1b]; rfl
    · intro x
      rw [addNodeAttr_has, Bool.or_eq_true, h1has, beq_iff_eq]
      constructor
      · rintro (h | h)
        · exact Or.inl (Or.inl h)
        · exact Or.inl (Or.inr (Or.inl ((hmemout x).mpr h)))
      · rintro ((h | h | ⟨p, hp, _⟩) | ⟨p, hp, _⟩ | ⟨p, hp, _⟩)
        · exact Or.inl h
        · exact Or.inr ((hmemout x).mp h)
        · exact absurd hp List.not_mem_nil
        · exact absurd hp List.not_mem_nil
        · exact absurd hp List.not_mem_nil
    · intro x hx
      rw [addNodeAttr_attr?]
      by_cases hxo : x = o
      · subst hxo
        rw [if_pos rfl]
        have : s1.attr? x = none := by
          have := has_eq_isSome s1 x
          rw [hso'] at this
          cases h : s1.attr? x with
          | none => rfl
          | some _ => rw [h] at this; cases this
        rw [this, if_neg honin]
        simp [hout]
      · rw [if_neg hxo]
        have hxin : x ∈ c2.inputs := by
          rcases hx with h | h | ⟨p, hp, _⟩
          · exact h
          · exact absurd ((hmemout x).mp h) hxo
          · exact absurd hp List.not_mem_nil
        have : x ∉ c2.outputs := fun h => hxo ((hmemout x).mp h)
        rw [h1attr x hxin, if_pos hxin]
        simp [this]
    · intro p hp; exact absurd hp List.not_mem_nil
    · intro e
      rw [addNodeAttr_edges, h1e]
      constructor
      · intro h; exact absurd h List.not_mem_nil
      · rintro (⟨p, hp, _⟩ | ⟨p, hp, _⟩) <;> exact absurd hp List.not_mem_nil

end Build
end SGSuper
end CG
