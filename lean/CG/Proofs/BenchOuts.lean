/- C15 helper: the DFF fold and the OUTPUT pass of the reader; the final description `Built` -/
import CG.Proofs.BenchDffs
set_option linter.unusedSimpArgs false
set_option linter.unusedVariables false
namespace CG
namespace BenchP
open Circuit Ternary Bench

theorem build_dffs {D : List Def} (hDnd : (names D).Nodup) (hDty : ∀ d' ∈ D, d'.2.1 ∈ okTypes)
    (hDok : ∀ x ∈ names D, Limit.NameOK x ∧ ¬ hasDotB x) :
    ∀ (l : List (Name × Name)) (c : Circuit) (P : List (Name × Name)), DInv c D P →
    (∀ p ∈ l, (p.1, "buf", []) ∈ D ∧ p.2 ∈ names D) → (P.map (·.1) ++ l.map (·.1)).Nodup →
    ∃ c', (l.map (fun d => Stmt.dff d.1 d.2)).foldlM build1 c = .ok c' ∧ DInv c' D (P ++ l)
  | [], c, P, h, _, _ => ⟨c, rfl, by simpa using h⟩
  | p :: l, c, P, h, hl, hnd => by
    have hnd' : (P.map (·.1) ++ p.1 :: l.map (·.1)).Nodup := by simpa using hnd
    have hqP : p.1 ∉ P.map (·.1) := by
      intro hm
      exact (List.nodup_append.mp hnd').2.2 _ hm p.1 (by simp) rfl
    obtain ⟨c1, e1, h1⟩ := h.step p.1 p.2 hDnd hDty hDok (hl p (by simp)).1 hqP (hl p (by simp)).2
    obtain ⟨c', e2, h2⟩ := build_dffs hDnd hDty hDok l c1 (P ++ [p]) h1 (fun q hq => hl q (by simp [hq]))
      (by rw [List.map_append, List.append_assoc]; simpa using hnd)
    refine ⟨c', ?_, by simpa using h2⟩
    rw [List.map_cons, List.foldlM_cons, e1]
    exact e2

/-! ### outputs -/

/-- `c` is `c0` with the nodes `O` marked as outputs -/
structure OInv (c0 c : Circuit) (O : List Name) : Prop where
  names : c.nodeNames = c0.nodeNames
  edges : c.edges = c0.edges
  bbs : c.bbs = c0.bbs
  attr : ∀ x, c.attr? x = (c0.attr? x).map (fun a => if x ∈ O then { a with out := some true } else a)

theorem OInv.init (c0 : Circuit) : OInv c0 c0 [] :=
  ⟨rfl, rfl, rfl, by intro x; cases c0.attr? x <;> simp⟩

theorem OInv.has {c0 c : Circuit} {O : List Name} (h : OInv c0 c O) (x : Name) : c.has x = c0.has x := by
  rw [Bool.eq_iff_iff, has_iff_mem, has_iff_mem, h.names]

theorem OInv.step {c0 c : Circuit} {O : List Name} (h : OInv c0 c O) (n : Name) (hn : c0.has n = true) :
    ∃ c', build1 c (.output n) = .ok c' ∧ OInv c0 c' (O ++ [n]) := by
  refine ⟨c.setOutRaw n true, ?_, ?_⟩
  · unfold build1
    simp only []
    rw [setOutput, if_pos (by rw [h.has]; exact hn), setOutput]
    rfl
  · refine ⟨by rw [setOutRaw_nodeNames, h.names], by rw [setOutRaw_edges, h.edges],
      by rw [setOutRaw_bbs, h.bbs], ?_⟩
    intro x
    rw [setOutRaw_attr?, h.attr]
    cases c0.attr? x with
    | none => rfl
    | some a =>
      simp only [Option.map_some, List.mem_append, List.mem_singleton, beq_iff_eq]
      by_cases h1 : x = n
      · subst h1
        by_cases h2 : x ∈ O <;> simp [h2]
      · by_cases h2 : x ∈ O <;> simp [h1, h2]

theorem build_outs (c0 : Circuit) : ∀ (l : List Name) (c : Circuit) (O : List Name), OInv c0 c O →
    (∀ n ∈ l, c0.has n = true) →
    ∃ c', (l.map Stmt.output).foldlM build1 c = .ok c' ∧ OInv c0 c' (O ++ l)
  | [], c, O, h, _ => ⟨c, rfl, by simpa using h⟩
  | n :: l, c, O, h, hl => by
    obtain ⟨c1, e1, h1⟩ := h.step n (hl n (by simp))
    obtain ⟨c', e2, h2⟩ := build_outs c0 l c1 (O ++ [n]) h1 (fun m hm => hl m (by simp [hm]))
    refine ⟨c', ?_, by simpa using h2⟩
    rw [List.map_cons, List.foldlM_cons, e1]
    exact e2

/-- the circuit the reader builds -/
structure Built (D : List Def) (dffs : List (Name × Name)) (outs : List Name) (c : Circuit) : Prop where
  nodupN : c.nodeNames.Nodup
  nodupE : c.edges.Nodup
  closed : ∀ e ∈ c.edges, c.has e.1 = true ∧ c.has e.2 = true
  has : ∀ x, c.has x = true ↔ (x ∈ names D ∨ ∃ d ∈ dffs, x = pinD d.1 ∨ x = pinQ d.1)
  attrD : ∀ d ∈ D, c.attr? d.1 = some { ty := some d.2.1, out := some (decide (d.1 ∈ outs)) }
  attrP : ∀ d ∈ dffs, c.attr? (pinD d.1) = some pinAttrD ∧ c.attr? (pinQ d.1) = some pinAttrQ
  edges : ∀ e, e ∈ c.edges ↔ ((∃ d ∈ D, e.2 = d.1 ∧ e.1 ∈ d.2.2) ∨
    ∃ d ∈ dffs, e = (d.2, pinD d.1) ∨ e = (pinQ d.1, d.1))
  bbsP : ∀ d ∈ dffs, c.bbs.lookup (d.1 ++ "_dff") = some dffBB
  bbsN : ∀ i, (∀ d ∈ dffs, i ≠ d.1 ++ "_dff") → c.bbs.lookup i = none

theorem Built.of {D : List Def} {dffs : List (Name × Name)} {outs : List Name} {c0 c : Circuit}
    (h : DInv c0 D dffs) (o : OInv c0 c outs) (hDok : ∀ x ∈ names D, ¬ hasDotB x)
    (houts : ∀ x ∈ outs, x ∈ names D) : Built D dffs outs c := by
  refine ⟨by rw [o.names]; exact h.nodupN, by rw [o.edges]; exact h.nodupE, ?_, ?_, ?_, ?_, ?_, ?_, ?_⟩
  · intro e he
    rw [o.edges] at he
    rw [o.has, o.has]; exact h.closed e he
  · intro x; rw [o.has]; exact h.has x
  · intro d hd
    rw [o.attr, h.attrD d hd]
    by_cases h1 : d.1 ∈ outs <;> simp [h1]
  · intro d hd
    have hp := h.attrP d hd
    have n1 : pinD d.1 ∉ outs := fun hm => hDok _ (houts _ hm) (pinD_dot _)
    have n2 : pinQ d.1 ∉ outs := fun hm => hDok _ (houts _ hm) (pinQ_dot _)
    rw [o.attr, o.attr, hp.1, hp.2]
    simp [n1, n2]
  · intro e; rw [o.edges]; exact h.edges e
  · intro d hd; rw [o.bbs]; exact h.bbsP d hd
  · intro i hi; rw [o.bbs]; exact h.bbsN i hi

end BenchP
end CG
