/- C17 (algorithm): the per-supergate clauses for every supergate returned by `algo` -/
import CG.Proofs.SGAlgoFound
import CG.Props.C17
set_option linter.unusedSectionVars false
set_option linter.unusedVariables false
set_option linter.unusedSimpArgs false
namespace CG
namespace SGA
open Query Supergates Q CG.C12

theorem ancR_of_reachR {c : Circuit} {a b : Name} (h : C17.ReachR c a b) : AncR c a b := by
  rcases h with h | h
  · exact h ▸ Star.refl _
  · exact (reach1_iff.mp h).star

theorem reachR_of_ancR {c : Circuit} {a b : Name} (h : AncR c a b) : C17.ReachR c a b := by
  rcases h.cases with h | h
  · exact Or.inl h
  · exact Or.inr (reach1_iff.mpr h)

theorem ne_of_nodup_getElem? {l : List Name} (hnd : l.Nodup) {i j : Nat} {a b : Name} (hi : l[i]? = some a)
    (hj : l[j]? = some b) (hij : i ≠ j) : a ≠ b := by
  intro hab
  subst hab
  obtain ⟨hi', hia⟩ := List.getElem?_eq_some_iff.mp hi
  obtain ⟨hj', hja⟩ := List.getElem?_eq_some_iff.mp hj
  exact hij ((List.getElem_inj hnd).mp (hia.trans hja.symm))

theorem algo_single (c2 : Circuit) (hc : LintClean c2) (hac : Acyclic c2) (hfi : ∀ n, (c2.fanin n).length ≤ 2)
    (outs : List Name) (houts : outs.Perm c2.outputs) :
    ∀ p ∈ (algo c2 outs).sgs, p.2.outputs.length = 1 := by
  intro p hp
  obtain ⟨h1, _, X⟩ := algo_ctx c2 hc hac hfi outs houts hp
  rw [h1]
  exact X.single

theorem algo_induced (c2 : Circuit) (hc : LintClean c2) (hac : Acyclic c2) (hfi : ∀ n, (c2.fanin n).length ≤ 2)
    (outs : List Name) (houts : outs.Perm c2.outputs) :
    ∀ p ∈ (algo c2 outs).sgs, ∀ n ∈ internal p.2, c2.has n = true ∧ p.2.ty? n = c2.ty? n ∧
      (∀ x, x ∈ p.2.fanin n ↔ x ∈ c2.fanin n) := by
  intro p hp
  obtain ⟨h1, _, X⟩ := algo_ctx c2 hc hac hfi outs houts hp
  rw [h1]
  exact fun n hn => X.induced hn

theorem algo_inputsIn (c2 : Circuit) (hc : LintClean c2) (hac : Acyclic c2) (hfi : ∀ n, (c2.fanin n).length ≤ 2)
    (outs : List Name) (houts : outs.Perm c2.outputs) :
    ∀ p ∈ (algo c2 outs).sgs, ∀ i ∈ p.2.inputs, c2.has i = true := by
  intro p hp
  obtain ⟨h1, _, X⟩ := algo_ctx c2 hc hac hfi outs houts hp
  rw [h1]
  exact fun i hi => X.inputs_has hi

theorem algo_independent (c2 : Circuit) (hc : LintClean c2) (hac : Acyclic c2) (hfi : ∀ n, (c2.fanin n).length ≤ 2)
    (outs : List Name) (houts : outs.Perm c2.outputs) :
    ∀ p ∈ (algo c2 outs).sgs, ∀ (i j : Nat) (a b : Name), p.2.inputs[i]? = some a → p.2.inputs[j]? = some b → i ≠ j →
      ∀ x, ¬ (C17.ReachR c2 x a ∧ C17.ReachR c2 x b) := by
  intro p hp
  obtain ⟨h1, _, X⟩ := algo_ctx c2 hc hac hfi outs houts hp
  rw [h1]
  intro i j a b hi hj hij x hx
  exact X.independent (List.mem_of_getElem? hi) (List.mem_of_getElem? hj)
    (ne_of_nodup_getElem? X.inputs_nodup hi hj hij) x ⟨ancR_of_reachR hx.1, ancR_of_reachR hx.2⟩

end SGA
end CG
