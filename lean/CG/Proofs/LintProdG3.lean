/- C20 (second half, sequential_unroll): the result of a successful call is lint-clean and dot-free -/
import CG.Proofs.LintProdG2
import CG.Proofs.LintProdBUnrollB
set_option linter.unusedSimpArgs false
set_option linter.unusedVariables false
namespace CG
namespace LintProdG
open Circuit Unroll USS Strip

/-- the two attribute folds keep the registry -/
theorem final_bbs {insts : List Name} {m : List (Name × List Name)} {d q : Name} {afo : Bool} {initStr : Option String}
    {P uc1 uc : Circuit}
    (h1 : insts.foldlM (outStep m d afo) P = .ok uc1)
    (h2 : (match initStr with
       | some v => insts.foldlM (tyStep m q v) uc1
       | none => .ok uc1) = .ok uc) : uc.bbs = P.bbs := by
  have a := outPhase_bbs m d afo _ _ _ h1
  cases initStr with
  | none =>
    injection h2 with h2
    subst h2
    exact a
  | some s =>
    rw [tyPhase_bbs m q s _ _ _ h2, a]

/-- **sequential_unroll of a good sequential circuit is lint-clean and dot-free**, provided every dotted node is a pin
    and the flops' output pins other than the data output drive nothing -/
theorem seq_unroll_clean {c : Circuit} {bb : BBox} {n : Nat} {d q : Name} {ig : List Name} {afo : Bool}
    {initStr : Option String} {ru : Bool} {pfx : String} {ord : Ord} (hord : OrdOK ord)
    (G : SeqGood' c bb d q) (hown : PinsOwned c bb) (K : NoClash c bb ig) (hig : d ∉ ig ∧ q ∉ ig)
    (hinit : ∀ s, initStr = some s → s = "0" ∨ s = "1")
    (hdots : LintProdD.DotsArePins c) (hpfx : hasDot pfx = false) (hx : ExtraOutsUnloaded c bb q)
    {uc : Circuit} {ioMap : List (Name × List Name)}
    (h : Tx.sequentialUnroll c n d q ig afo initStr [] ru pfx ord = .ok (uc, ioMap)) :
    LintClean uc ∧ LintLink.NoDots uc := by
  obtain ⟨cs0, u0, bb0, rest, r, uc1, hs, hbbs, hr, h1, h2, hm⟩ := seq_unfold' h
  have hbb : bb0 = bb := G.oneType (u0, bb0) (by rw [hbbs]; simp)
  subst hbb
  have T := setup (ru := ru) hord G K hig hs hr
  obtain ⟨hb, S⟩ := strip_ok (ig := ig) hord G.clean.toWF hs
  have hdrop := droppedOuts G hown hx (fun u hu => (T.qName u hu).2.1)
  have hcl0 := LintProdD.strip_lintClean G.clean S hdrop
  have hnd0 := LintProdD.strip_noDots S hb hdots
  obtain ⟨hcl3, hnd3⟩ := prune_clean G K S hx hcl0 hnd0 ru
  have hr' : Tx.unroll (prune cs0 bb0 (insts c) d q ig ru) n (sio c d q) pfx ord = .ok (r.1, r.2) := hr
  obtain ⟨hclr, hndr⟩ := LintProdB.unroll_clean hord hcl3 hnd3 T.C.valsIn T.C.valsNodup hpfx hr'
  obtain ⟨e1, e2, e3, _⟩ := final_ty h1 h2
  have hbbs' := final_bbs h1 h2
  refine ⟨retype_lintClean hclr e1 e2 ?_, ⟨by rw [hbbs']; exact hndr.bbs, ?_⟩⟩
  · intro x
    rcases e3 x with h | ⟨s, hs', hty, b, hb', e⟩
    · exact Or.inl h
    · obtain ⟨u, hu, rfl⟩ := List.mem_map.1 hb'
      right
      refine ⟨?_, ?_⟩
      · rw [e, T.ioName (T.qName u hu).2.2.2 T.npos]
        exact T.q0_input hu
      · rcases hinit s hs' with rfl | rfl
        · exact Or.inl hty
        · exact Or.inr hty
  · intro g hg
    apply hndr.names
    rw [has_iff_mem] at hg ⊢
    rw [← e2]
    exact hg

end LintProdG
end CG
