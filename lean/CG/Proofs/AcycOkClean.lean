/- C18 total correctness helpers: the circuit built by `acyclic_unroll` is lint-clean, so the final `lint` call and the
   final acyclicity test cannot fire -/
import CG.Proofs.AcycOkBase
import CG.Props.C20
set_option linter.unusedSimpArgs false
set_option linter.unusedVariables false
namespace CG
namespace AU
open Circuit Query

/-- every node of the result, with its type and fan-in -/
structure Fin (c cCut a : Circuit) (F sp : List Name) : Prop where
  wf : WF a
  has : ∀ x, a.has x = true → x ∈ sp ∨ (∃ i ≤ F.length, ∃ n, cCut.has n = true ∧ x = pref (cn i) n) ∨
    (x ∈ c.outputs ∧ x ∉ sp)
  inGate : ∀ n ∈ sp, Gate a n "input" []
  copy : ∀ i ≤ F.length, Copy cCut F i a
  aux0 : ∀ f ∈ F, Gate a (pref (cn 0) (aux f)) "input" []
  outGate : ∀ o ∈ c.outputs, o ∉ sp → Gate a o "buf" [pref (cn F.length) o]

/-- what is used about the original circuit and its cut -/
structure FinReq (c cCut : Circuit) (F sp : List Name) : Prop where
  clean : LintClean c
  cut : CutFacts c F cCut
  typed : ∀ n, cCut.has n = true → ∃ t, cCut.ty? n = some t
  noBBO : ∀ n, c.ty? n ≠ some "bb_output"
  outBBI : ∀ o ∈ c.outputs, c.ty? o ≠ some "bb_input"
  fbEdge : ∀ f ∈ F, ∃ v, (f, v) ∈ c.edges
  spIn : ∀ n ∈ cCut.inputs, n ∈ sp

variable {c cCut a : Circuit} {F sp : List Name}

/-- type of a node of a copy -/
theorem copy_ty (Q : FinReq c cCut F sp) (U : Fin c cCut a F sp) {i : Nat} (hi : i ≤ F.length) {m : Name}
    (hm : cCut.has m = true) :
    ∃ t, a.ty? (pref (cn i) m) = some t ∧ (t = "buf" ∨ t = "input" ∨ (c.has m = true ∧ c.ty? m = some t)) := by
  obtain ⟨t0, ht0⟩ := Q.typed m hm
  have C := U.copy i hi
  by_cases haux : m ∈ F.map aux
  · obtain ⟨f, hf, rfl⟩ := List.mem_map.1 haux
    by_cases hi0 : 0 < i
    · exact ⟨"buf", (C.2.2 hi0 f hf).1, Or.inl rfl⟩
    · have : i = 0 := by omega
      subst this
      exact ⟨"input", (U.aux0 f hf).1, Or.inr (Or.inl rfl)⟩
  · by_cases hti : t0 = "input"
    · subst hti
      exact ⟨"buf", (C.2.1 m ((CG.mem_inputs Q.cut.wf.nodup m).2 ht0)).1, Or.inl rfl⟩
    · refine ⟨t0, (C.1 m t0 ht0 hti haux).1, Or.inr (Or.inr ?_)⟩
      rcases Q.cut.ty_cases ht0 with h | ⟨f, hf, e, _⟩
      · exact h
      · exact absurd (List.mem_map.2 ⟨f, hf, e.symm⟩) haux

theorem not_bbi_of_edge (Q : FinReq c cCut F sp) {m v t : Name} (he : (m, v) ∈ c.edges) (ht : c.ty? m = some t) :
    t ≠ "bb_input" := by
  intro e
  subst e
  exact Q.clean.noBBInFanout _ he ht

/-- the lint-relevant facts about one node of the result -/
theorem node_cases (Q : FinReq c cCut F sp) (U : Fin c cCut a F sp) {x : Name} (hx : a.has x = true) :
    ∃ t fi, Gate a x t fi ∧ t ∈ Expected.supported_types ∧ (t ∈ sourceTypes → fi = []) ∧
      (t ∈ singleTypes → fi.length = 1) ∧ (t ∈ multiTypes → 1 ≤ fi.length) ∧ t ≠ "bb_output" ∧
      (∀ u ∈ fi, a.ty? u ≠ some "bb_input") := by
  have hc := Q.clean
  have hwf : WF c := hc.toWF
  have K := Q.cut
  rcases U.has x hx with h | ⟨i, hi, n, hn, rfl⟩ | ⟨ho, hns⟩
  · refine ⟨"input", [], U.inGate x h, by decide, fun _ => rfl, fun h => absurd h (by decide),
      fun h => absurd h (by decide), by decide, fun u hu => by cases hu⟩
  · obtain ⟨t0, ht0⟩ := Q.typed n hn
    have C := U.copy i hi
    by_cases haux : n ∈ F.map aux
    · obtain ⟨f, hf, rfl⟩ := List.mem_map.1 haux
      by_cases hi0 : 0 < i
      · refine ⟨"buf", _, C.2.2 hi0 f hf, by decide, fun h => absurd h (by decide), fun _ => rfl,
          fun h => absurd h (by decide), by decide, ?_⟩
        intro u hu
        simp only [List.mem_singleton] at hu
        subst hu
        obtain ⟨v, hv⟩ := Q.fbEdge f hf
        have hcf : cCut.has f = true := (K.has f).2 (Or.inl (hwf.closed _ hv).1)
        obtain ⟨t, ht, hcase⟩ := copy_ty Q U (i := i - 1) (by omega) hcf
        rw [ht]
        rcases hcase with rfl | rfl | ⟨_, h2⟩
        · decide
        · decide
        · intro e
          injection e with e
          exact not_bbi_of_edge Q hv h2 e
      · have : i = 0 := by omega
        subst this
        refine ⟨"input", [], U.aux0 f hf, by decide, fun _ => rfl, fun h => absurd h (by decide),
          fun h => absurd h (by decide), by decide, fun u hu => by cases hu⟩
    · by_cases hti : t0 = "input"
      · subst hti
        have hin : n ∈ cCut.inputs := (CG.mem_inputs K.wf.nodup n).2 ht0
        refine ⟨"buf", _, C.2.1 n hin, by decide, fun h => absurd h (by decide), fun _ => rfl,
          fun h => absurd h (by decide), by decide, ?_⟩
        intro u hu
        simp only [List.mem_singleton] at hu
        subst hu
        rw [(U.inGate u (Q.spIn u hin)).1]
        decide
      · have hcn : c.has n = true ∧ c.ty? n = some t0 := by
          rcases K.ty_cases ht0 with h | ⟨f, hf, e, _⟩
          · exact h
          · exact absurd (List.mem_map.2 ⟨f, hf, e.symm⟩) haux
        have hsup : t0 ∈ Expected.supported_types := by
          obtain ⟨a0, ha0⟩ := has_exists hcn.1
          obtain ⟨t, ht, hs⟩ := hc.typed _ ha0
          have : c.ty? n = some t := by rw [Arith.ty?_of_mem hwf.nodup ha0]; exact ht
          rw [hcn.2] at this
          injection this with this
          rw [this]; exact hs
        have hlen : ((cCut.fanin n).map (pref (cn i))).length = (c.fanin n).length := by
          rw [List.length_map, K.fanin_length hwf n]
        refine ⟨t0, _, C.1 n t0 ht0 hti haux, hsup, ?_, ?_, ?_, ?_, ?_⟩
        · intro hs
          have := hc.noFanin n t0 hcn.2 hs
          rw [this] at hlen
          exact List.eq_nil_of_length_eq_zero hlen
        · intro hs
          rw [hlen]; exact hc.single n t0 hcn.2 hs
        · intro hs
          rw [hlen]; exact hc.multi n t0 hcn.2 hs
        · intro e
          exact Q.noBBO n (e ▸ hcn.2)
        · intro u hu
          obtain ⟨m, hm, rfl⟩ := List.mem_map.1 hu
          have hme : (m, n) ∈ cCut.edges := mem_fanin.1 hm
          obtain ⟨t, ht, hcase⟩ := copy_ty Q U hi (K.wf.closed _ hme).1
          rw [ht]
          rcases hcase with rfl | rfl | ⟨h1, h2⟩
          · decide
          · decide
          · intro e
            injection e with e
            rcases (K.mem _).1 hme with ⟨k1, _⟩ | ⟨f, hf, k1, _⟩
            · exact not_bbi_of_edge Q k1 h2 e
            · have := K.fresh f hf
              simp only [] at k1
              rw [← k1, h1] at this
              cases this
  · refine ⟨"buf", _, U.outGate x ho hns, by decide, fun h => absurd h (by decide), fun _ => rfl,
      fun h => absurd h (by decide), by decide, ?_⟩
    intro u hu
    simp only [List.mem_singleton] at hu
    subst hu
    have hcx : cCut.has x = true := (K.has x).2 (Or.inl (mem_outputs_has ho))
    obtain ⟨t, ht, hcase⟩ := copy_ty Q U (Nat.le_refl _) hcx
    rw [ht]
    rcases hcase with rfl | rfl | ⟨_, h2⟩
    · decide
    · decide
    · intro e
      injection e with e
      subst e
      exact Q.outBBI x ho h2

theorem fin_clean (Q : FinReq c cCut F sp) (U : Fin c cCut a F sp) : LintClean a where
  toWF := U.wf
  typed := by
    intro p hp
    have hx : a.has p.1 = true := (has_iff_mem a p.1).2 (List.mem_map.2 ⟨p, hp, rfl⟩)
    obtain ⟨t, fi, g, hs, _⟩ := node_cases Q U hx
    refine ⟨t, ?_, hs⟩
    rw [← Arith.ty?_of_mem U.wf.nodup (n := p.1) (a := p.2) hp]
    exact g.1
  noFanin := by
    intro n t ht hs
    obtain ⟨t', fi, g, _, h1, _⟩ := node_cases Q U (has_of_ty? ht)
    have : t' = t := by rw [g.1] at ht; injection ht
    subst this
    rw [g.2]; exact h1 hs
  single := by
    intro n t ht hs
    obtain ⟨t', fi, g, _, _, h1, _⟩ := node_cases Q U (has_of_ty? ht)
    have : t' = t := by rw [g.1] at ht; injection ht
    subst this
    rw [g.2]; exact h1 hs
  multi := by
    intro n t ht hs
    obtain ⟨t', fi, g, _, _, _, h1, _⟩ := node_cases Q U (has_of_ty? ht)
    have : t' = t := by rw [g.1] at ht; injection ht
    subst this
    rw [g.2]; exact h1 hs
  bbOut := by
    intro e he ht
    obtain ⟨t', fi, g, _, _, _, _, h1, _⟩ := node_cases Q U (U.wf.closed e he).1
    rw [g.1] at ht
    injection ht with ht
    exact absurd ht h1
  noBBInFanout := by
    intro e he
    obtain ⟨t', fi, g, _, _, _, _, _, h1⟩ := node_cases Q U (U.wf.closed e he).2
    apply h1
    rw [← g.2]
    exact mem_fanin.2 he

/-- the two final checks of `acyclic_unroll` pass -/
theorem fin_checks {ord : Ord} (hord : OrdOK ord) (Q : FinReq c cCut F sp) (U : Fin c cCut a F sp)
    (hnd : LintLink.NoDots a) (hac : Acyclic a) : lint a {} ord = .ok ∧ isCyclic a = false := by
  refine ⟨C20.lint_accepts a ord hord (fin_clean Q U) (C20.registryOK_of_noDots hnd), ?_⟩
  cases h : isCyclic a with
  | false => rfl
  | true =>
    obtain ⟨n, hn⟩ := (CG.Q.isCyclic_iff a U.wf).1 h
    exact absurd hn (CG.Q.no_cycle_of_acyclic a hac n)

end AU
end CG
