/- C15 (character level) helper: the writer's text for a writable circuit whose node names are identifiers is read
   back into the writer's statements -/
import CG.Proofs.BenchTextLayout
import CG.Proofs.BenchRound
set_option linter.unusedSimpArgs false
set_option linter.unusedVariables false
namespace CG
namespace BenchText
open Regex Bench BenchP Circuit

/-- the identifier test of the property file, on characters -/
theorem identL_of (n : String)
    (h : match n.toList with
      | [] => False
      | ch :: rest => (ch.isAlpha || ch == '_') = true ∧ ∀ x ∈ rest, (x.isAlpha || x.isDigit || x == '_') = true) :
    NameOK n := by
  unfold NameOK IdentL
  cases hn : n.toList with
  | nil => rw [hn] at h; exact absurd h id
  | cons ch rest =>
    rw [hn] at h
    refine ⟨ch, rest, rfl, ?_, ?_⟩
    · have h1 := h.1
      simp only [Bool.or_eq_true, beq_iff_eq, isAlpha_iff, eq_iff, Char.reduceToNat] at h1
      rw [idS_mem]; omega
    · intro x hx
      have h1 := h.2 x hx
      simp only [Bool.or_eq_true, beq_iff_eq, isAlpha_iff, isDigit_iff, eq_iff, Char.reduceToNat] at h1
      rw [idC_mem]; omega

theorem NameOK.append {a b : String} (ha : NameOK a) (hb : AllIdC b.toList) : NameOK (a ++ b) := by
  obtain ⟨x, r, e, hx, hr⟩ := ha
  refine ⟨x, r ++ b.toList, by rw [String.toList_append, e]; rfl, hx, ?_⟩
  intro y hy
  rcases List.mem_append.mp hy with hy | hy
  · exact hr y hy
  · exact hb y hy

/-- the fresh name of the lazily created inverter is an identifier -/
theorem uid_ident (c : Circuit) (i r : Name) (hi : NameOK i) (h : c.uid (i ++ "_inv") = some r) : NameOK r := by
  have h0 : NameOK (i ++ "_inv") := hi.append (by unfold AllIdC; decide)
  rcases (Limit.uid_spec c _ r h).2 with rfl | ⟨j, rfl⟩
  · exact h0
  · unfold uidName
    refine (h0.append (by unfold AllIdC; decide)).append ?_
    intro x hx
    have := Arith.toString_digits j x hx
    rw [isDigit_iff] at this
    rw [idC_mem]; omega

theorem parse_write_core (c : Circuit) (ord : Ord) (hord : OrdOK ord) (hc : WritableP c)
    (hid : ∀ p ∈ c.nodes, NameOK p.1) (hname : '\n' ∉ c.name.toList) :
    ∃ text ss, write c ord = .ok text ∧ toStmts c ord = .ok ss ∧ Bench.parse text = some ss := by
  obtain ⟨i, gs, invO, hi, h, e⟩ := hc.written hord
  have hw := hc.wfp hord hi h
  have hnode : ∀ x, c.has x = true → NameOK x := by
    intro x hx
    obtain ⟨a, t, hm, _⟩ := hc.attr hx
    exact hid (x, a) hm
  have hin : ∀ x ∈ ord c.inputs, NameOK x := fun x hx => hnode x (mem_inputs_has ((hord _).mem_iff.mp hx))
  have hout : ∀ x ∈ ord c.outputs, NameOK x := fun x hx => hnode x (mem_outputs_has ((hord _).mem_iff.mp hx))
  have hgname : ∀ x ∈ BenchP.names gs, NameOK x := by
    intro x hx
    rcases (h.mem x).mp hx with h1 | h1
    · exact hnode x (h.doneHas x h1)
    · exact uid_ident c i x (hnode i (mem_inputs_has hi)) (h.uid x h1).1
  -- the gate statements
  have hg : toGateStmts c ord = .ok (gs.map toS) := by
    unfold toStmts at e
    cases hgs : toGateStmts c ord with
    | error err => rw [hgs] at e; cases e
    | ok gs' =>
      rw [hgs] at e
      simp only [bind, Except.bind, pure, Except.pure, stmtsP, List.map_nil, List.append_nil, Except.ok.injEq] at e
      rw [List.append_assoc, List.append_assoc] at e
      have e1 := List.append_cancel_left e
      have e2 := List.append_cancel_right e1
      rw [e2]
      rfl
  have hwrite : write c ord = .ok ("# " ++ c.name ++ "\n" ++
      String.join ((ord c.inputs).map (fun i => renderStmt (.input i) ++ "\n")) ++ "\n" ++
      String.join ((ord c.outputs).map (fun o => renderStmt (.output o) ++ "\n")) ++ "\n" ++
      "\n".intercalate ((gs.map toS).map renderStmt)) := by
    unfold write
    rw [hg]
    rfl
  refine ⟨_, _, hwrite, e, ?_⟩
  · have hss : stmtsP (ord c.inputs) gs [] (ord c.outputs) =
        (ord c.inputs).map Stmt.input ++ gs.map toS ++ (ord c.outputs).map Stmt.output := by
      simp [stmtsP, toS]
    rw [hss]
    apply parse_written c.name (ord c.inputs) (ord c.outputs) (gs.map toS) hname hin hout
    intro s hs
    obtain ⟨g, hgm, rfl⟩ := List.mem_map.mp hs
    refine ⟨⟨hgname g.1 (List.mem_map.mpr ⟨g, hgm, rfl⟩), hw.gateTy g hgm, (hw.gateArity g hgm).1, ?_⟩, trivial⟩
    intro x hx
    rcases hw.uses g hgm x hx with h1 | h1 | h1
    · exact hin x h1
    · exact hgname x h1
    · simp at h1

end BenchText
end CG
