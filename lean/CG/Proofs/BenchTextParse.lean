/- C15 (character level) helper: `Bench.parse` on a text whose comment-free form is a list of canonical lines -/
import CG.Proofs.BenchTextSpecGate
import CG.Proofs.BenchTextStr2
set_option linter.unusedSimpArgs false
set_option linter.unusedVariables false
namespace CG
namespace BenchText
open Regex Bench

def gTys : List String := ["buf", "not", "or", "nor", "and", "nand", "xor", "xnor"]

def NameOK (n : String) : Prop := IdentL n.toList

/-- statements that are rendered as canonical lines (`dffNet` stands for a blank line) -/
def StOK : Stmt → Prop
  | .input n => NameOK n
  | .output n => NameOK n
  | .gate n t ins => NameOK n ∧ t ∈ gTys ∧ ins ≠ [] ∧ ∀ i ∈ ins, NameOK i
  | .dff q d => NameOK q ∧ NameOK d
  | .dffNet _ => True

def lnOf : Stmt → Ln
  | .input n => .inp n.toList
  | .output n => .out n.toList
  | .gate n t ins => .gate n.toList (upper t).toList (", ".intercalate ins).toList
  | .dff q d => .dff q.toList d.toList
  | .dffNet _ => .blank

theorem render_chars (s : Stmt) : (renderStmt s).toList = (lnOf s).chars := by
  cases s <;> simp [renderStmt, lnOf, Ln.chars, String.toList_append, kINPUT, kOUTPUT, kDFF]

def selIn : Stmt → Option Stmt | .input n => some (.input n) | _ => none
def selOut : Stmt → Option Stmt | .output n => some (.output n) | _ => none
def selGate : Stmt → Option Stmt | .gate n t ins => some (.gate n t ins) | _ => none
def selDffNet : Stmt → Option Stmt | .dff q _ => some (.dffNet q) | _ => none
def selDff : Stmt → Option Stmt | .dff q d => some (.dff q d) | _ => none

/-- the statements of a list of lines, in the order of the reader's passes -/
def collect (L : List Stmt) : List Stmt :=
  L.filterMap selIn ++ L.filterMap selGate ++ L.filterMap selDffNet ++ L.filterMap selDff ++ L.filterMap selOut

theorem NameOK.solid {n : String} (h : NameOK n) : Solid n.toList := by
  intro x hx
  have hi := h.all x hx
  refine ⟨?_, (idC_ne hi).2.2.2.2.1⟩
  rw [idC_mem] at hi
  exact pySpace_false_of_range (by omega) (by omega)

theorem mem_intercalate {sep : List Char} : ∀ {ls : List (List Char)} {x : Char}, x ∈ sep.intercalate ls →
    x ∈ sep ∨ ∃ l ∈ ls, x ∈ l
  | [], x, h => by simp [List.intercalate] at h
  | [l], x, h => by
    simp only [List.intercalate, List.intersperse_singleton, List.flatten_cons, List.flatten_nil, List.append_nil] at h
    exact Or.inr ⟨l, by simp, h⟩
  | l :: l' :: ls, x, h => by
    have ih := @mem_intercalate sep (l' :: ls) x
    simp only [List.intercalate] at ih h
    simp only [List.intersperse_cons_cons, List.flatten_cons, List.mem_append] at h
    rcases h with h | h | h
    · exact Or.inr ⟨l, by simp, h⟩
    · exact Or.inl h
    · rcases ih h with h | ⟨m, hm, h⟩
      · exact Or.inl h
      · exact Or.inr ⟨m, by simp [hm], h⟩

theorem upper_mem {t : String} (h : t ∈ gTys) : (upper t).toList ∈ upKws ∧
    (if upper t == "buff" || upper t == "BUFF" then "buf" else lower (upper t)) = t := by
  have : ∀ t ∈ gTys, (upper t).toList ∈ upKws ∧
      (if upper t == "buff" || upper t == "BUFF" then "buf" else lower (upper t)) = t := by decide
  exact this t h

theorem StOK.ln {s : Stmt} (h : StOK s) : (lnOf s).ok := by
  cases s with
  | input n => exact h
  | output n => exact h
  | dffNet n => trivial
  | dff q d =>
    refine ⟨h.1, fun x hx => Or.inl (h.2.all x hx), h.2.ne_nil⟩
  | gate n t ins =>
    obtain ⟨hn, ht, hne, hins⟩ := h
    refine ⟨hn, (upper_mem ht).1, ?_, ?_⟩
    · intro x hx
      rw [String.toList_intercalate] at hx
      rcases mem_intercalate hx with hx | ⟨l, hl, hx⟩
      · have : (", " : String).toList = [',', ' '] := rfl
        rw [this] at hx
        simp only [List.mem_cons, List.not_mem_nil, or_false] at hx
        rcases hx with rfl | rfl
        · exact Or.inr (Or.inl rfl)
        · exact Or.inr (Or.inr rfl)
      · obtain ⟨i, hi, rfl⟩ := List.mem_map.mp hl
        exact Or.inl ((hins i hi).all x hx)
    · obtain ⟨i, ins', rfl⟩ := List.exists_cons_of_ne_nil hne
      obtain ⟨x, r, hx, _⟩ := hins i (by simp)
      rw [String.toList_intercalate]
      intro hnil
      have : x ∈ (", " : String).toList.intercalate ((i :: ins').map String.toList) := by
        cases ins' with
        | nil => simp [List.intercalate, hx]
        | cons j ins'' => simp [List.intercalate, hx]
      rw [hnil] at this
      cases this

/-! ### the four passes -/

theorem filterMap_flatMap {α β γ : Type} (f : α → Option β) (g : β → List γ) (sel : α → Option γ) :
    ∀ (L : List α), (∀ s ∈ L, ((f s).map g).getD [] = (sel s).toList) → (L.filterMap f).flatMap g = L.filterMap sel
  | [], _ => rfl
  | s :: L, h => by
    have ih := filterMap_flatMap f g sel L (fun x hx => h x (by simp [hx]))
    have hs := h s (by simp)
    rw [List.filterMap_cons, List.filterMap_cons]
    cases hf : f s with
    | none =>
      cases hsel : sel s with
      | none => exact ih
      | some c => rw [hf, hsel] at hs; cases hs
    | some b =>
      rw [hf] at hs
      simp only [Option.map_some, Option.getD_some] at hs
      cases hsel : sel s with
      | none => rw [hsel] at hs; simp only [Option.toList_none] at hs; simp [hs, ih]
      | some c => rw [hsel] at hs; simp only [Option.toList_some] at hs; simp [hs, ih]

theorem filterMap_map' {α β γ : Type} (f : α → Option β) (g : β → γ) (sel : α → Option γ) (L : List α)
    (h : ∀ s ∈ L, (f s).map g = sel s) : (L.filterMap f).map g = L.filterMap sel := by
  rw [List.map_filterMap]
  induction L with
  | nil => rfl
  | cons x L ih =>
    rw [List.filterMap_cons, List.filterMap_cons, h x (by simp), ih (fun s hs => h s (by simp [hs]))]

theorem pass_in (L : List Stmt) (hok : ∀ s ∈ L, StOK s) :
    (L.filterMap (fun s => hitIO true (lnOf s))).flatMap
      (fun g => ((squeeze (g.getD 0 "")).splitOn ",").map Stmt.input) = L.filterMap selIn := by
  apply filterMap_flatMap
  intro s hs
  have h := hok s hs
  cases s with
  | input n =>
    show List.map Stmt.input ((squeeze (String.ofList n.toList)).splitOn ",") = [Stmt.input n]
    rw [String.ofList_toList, split_one n (NameOK.solid h)]
    rfl
  | output n => rfl
  | gate n t ins => rfl
  | dff q d => rfl
  | dffNet n => rfl

theorem pass_out (L : List Stmt) (hok : ∀ s ∈ L, StOK s) :
    (L.filterMap (fun s => hitIO false (lnOf s))).flatMap
      (fun g => ((squeeze (g.getD 0 "")).splitOn ",").map Stmt.output) = L.filterMap selOut := by
  apply filterMap_flatMap
  intro s hs
  have h := hok s hs
  cases s with
  | output n =>
    show List.map Stmt.output ((squeeze (String.ofList n.toList)).splitOn ",") = [Stmt.output n]
    rw [String.ofList_toList, split_one n (NameOK.solid h)]
    rfl
  | input n => rfl
  | gate n t ins => rfl
  | dff q d => rfl
  | dffNet n => rfl

theorem pass_gate (L : List Stmt) (hok : ∀ s ∈ L, StOK s) :
    (L.filterMap (fun s => hitG true (lnOf s))).map (fun g =>
      let gate := g.getD 1 ""
      let ty := if gate == "buff" || gate == "BUFF" then "buf" else lower gate
      Stmt.gate (g.getD 0 "") ty ((squeeze (g.getD 2 "")).splitOn ",")) = L.filterMap selGate := by
  apply filterMap_map'
  intro s hs
  have h := hok s hs
  cases s with
  | gate n t ins =>
    obtain ⟨hn, ht, hne, hins⟩ := h
    show some (Stmt.gate (String.ofList n.toList)
      (if String.ofList (upper t).toList == "buff" || String.ofList (upper t).toList == "BUFF" then "buf"
        else lower (String.ofList (upper t).toList))
      ((squeeze (String.ofList (", ".intercalate ins).toList)).splitOn ",")) = some (Stmt.gate n t ins)
    rw [String.ofList_toList, String.ofList_toList, String.ofList_toList,
      split_operands ins hne (fun i hi => NameOK.solid (hins i hi)), (upper_mem ht).2]
  | input n => rfl
  | output n => rfl
  | dff q d => rfl
  | dffNet n => rfl

theorem pass_dffNet (L : List Stmt) (hok : ∀ s ∈ L, StOK s) :
    (L.filterMap (fun s => hitG false (lnOf s))).map (fun g => Stmt.dffNet (g.getD 0 "")) = L.filterMap selDffNet := by
  apply filterMap_map'
  intro s hs
  cases s with
  | dff q d =>
    show some (Stmt.dffNet (String.ofList q.toList)) = some (Stmt.dffNet q)
    rw [String.ofList_toList]
  | input n => rfl
  | output n => rfl
  | gate n t ins => rfl
  | dffNet n => rfl

theorem pass_dff (L : List Stmt) (hok : ∀ s ∈ L, StOK s) :
    (L.filterMap (fun s => hitG false (lnOf s))).map (fun g => Stmt.dff (g.getD 0 "") (squeeze (g.getD 2 ""))) =
      L.filterMap selDff := by
  apply filterMap_map'
  intro s hs
  have h := hok s hs
  cases s with
  | dff q d =>
    show some (Stmt.dff (String.ofList q.toList) (squeeze (String.ofList d.toList))) = some (Stmt.dff q d)
    rw [String.ofList_toList, String.ofList_toList, squeeze_solid (NameOK.solid h.2)]
  | input n => rfl
  | output n => rfl
  | gate n t ins => rfl
  | dffNet n => rfl

/-! ### `findall` for the four patterns -/

theorem findall_lines (text : String) (L : List Stmt) (hL : L ≠ []) (hok : ∀ s ∈ L, StOK s)
    (h : text.toList = ['\n'].intercalate (L.map (fun s => (lnOf s).chars))) :
    Regex.findall (rx 0).1 text (rx 0).2 = some (L.filterMap (fun s => hitIO true (lnOf s))) ∧
    Regex.findall (rx 1).1 text (rx 1).2 = some (L.filterMap (fun s => hitG true (lnOf s))) ∧
    Regex.findall (rx 2).1 text (rx 2).2 = some (L.filterMap (fun s => hitG false (lnOf s))) ∧
    Regex.findall (rx 3).1 text (rx 3).2 = some (L.filterMap (fun s => hitIO false (lnOf s))) := by
  obtain ⟨s0, L', rfl⟩ := List.exists_cons_of_ne_nil hL
  have hok' : ∀ x ∈ (s0 :: L').map lnOf, x.ok := by
    intro x hx
    obtain ⟨s, hs, rfl⟩ := List.mem_map.mp hx
    exact (hok s hs).ln
  have key : ∀ (dotall : Bool) (r : Re) (ng : Nat) (hit : Ln → Option (List String)), ng ≠ 0 →
      (∀ ctx : Ctx, need ctx.s.size r ≤ fuelFor ctx.s → LineSpec Ln.chars ctx r ng Ln.ok hit) →
      (∀ s : Array Char, need s.size r ≤ fuelFor s) →
      (allMatches { s := text.toList.toArray, dotall := dotall } r ng (text.toList.toArray.size + 2) 0).map
        (fun mt => if ng == 0 then [slice text.toList.toArray mt.start mt.stop] else mt.groups.map (·.getD "")) =
        (s0 :: L').filterMap (fun s => hit (lnOf s)) := by
    intro dotall r ng hit hng hspec hneed
    have hng' : (ng == 0) = false := by rw [beq_eq_false_iff_ne]; exact hng
    simp only [hng', Bool.false_eq_true, if_false]
    have S := hspec { s := text.toList.toArray, dotall := dotall } (hneed _)
    have := S.scan (lnOf s0) (L'.map lnOf) (by simpa using hok') (by
      show text.toList.toArray.toList = _
      rw [List.toList_toArray, h]
      simp only [List.map_cons, List.map_map]
      rfl)
    rw [this, ← List.map_cons, List.filterMap_map]
    rfl
  refine ⟨?_, ?_, ?_, ?_⟩
  · rw [parse_rx0.2, findall_eq parse_rx0.1]
    exact congrArg some (key true rx0 1 _ (by decide) (fun ctx hn => specIO ctx true hn) need_rx0)
  · rw [parse_rx1.2, findall_eq parse_rx1.1]
    exact congrArg some (key false rx1 3 _ (by decide) (fun ctx hn => specG ctx true hn) need_rx1)
  · rw [parse_rx2.2, findall_eq parse_rx2.1]
    exact congrArg some (key false rx2 3 _ (by decide) (fun ctx hn => specG ctx false hn) need_rx2)
  · rw [parse_rx3.2, findall_eq parse_rx3.1]
    exact congrArg some (key true rx3 1 _ (by decide) (fun ctx hn => specIO ctx false hn) need_rx3)

/-- **the reader on a text whose comment-free form consists of canonical lines** -/
theorem parse_of_lines (text0 : String) (L : List Stmt) (hL : L ≠ []) (hok : ∀ s ∈ L, StOK s)
    (h : (stripComments text0).toList = ['\n'].intercalate (L.map (fun s => (lnOf s).chars))) :
    Bench.parse text0 = some (collect L) := by
  obtain ⟨h0, h1, h2, h3⟩ := findall_lines (stripComments text0) L hL hok h
  unfold Bench.parse
  simp only [h0, h1, h2, h3, bind, Option.bind, pure]
  rw [pass_in L hok, pass_gate L hok, pass_dffNet L hok, pass_dff L hok, pass_out L hok]
  rfl

end BenchText
end CG
