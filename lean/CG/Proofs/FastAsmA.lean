/- C14 helper: the bookkeeping of the fast reader (net dictionary, edge list, registry) per statement -/
import CG.Proofs.FastFacts
namespace CG
namespace FV
open Verilog FastVerilog Circuit

/-! ### the insertion-ordered dict of lists -/

def inNets (d : List (String × List Name)) (k : String) (n : Name) : Prop := ∃ vs, (k, vs) ∈ d ∧ n ∈ vs

theorem inNets_nil (k : String) (n : Name) : ¬ inNets [] k n := by
  rintro ⟨vs, h, _⟩; cases h

theorem inNets_pushNet (d : List (String × List Name)) (k0 : String) (vs0 : List Name) (k : String) (n : Name) :
    inNets (pushNet d k0 vs0) k n ↔ inNets d k n ∨ (k = k0 ∧ n ∈ vs0) := by
  unfold pushNet
  by_cases h : (d.lookup k0).isSome = true
  · rw [if_pos h]
    obtain ⟨w, hw⟩ := Option.isSome_iff_exists.1 h
    have hmem := lookup_mem hw
    constructor
    · rintro ⟨vs, hvs, hn⟩
      obtain ⟨p, hp, e⟩ := List.mem_map.1 hvs
      by_cases hk : (p.1 == k0) = true
      · rw [if_pos hk] at e
        injection e with e1 e2
        subst e1; subst e2
        have hk' : p.1 = k0 := by simpa using hk
        rcases List.mem_append.1 hn with h1 | h1
        · left; exact ⟨p.2, by rw [← hk']; exact hp, h1⟩
        · right; exact ⟨rfl, h1⟩
      · rw [if_neg hk] at e; subst e; left; exact ⟨_, hp, hn⟩
    · rintro (⟨vs, hvs, hn⟩ | ⟨rfl, hn⟩)
      · by_cases hk : k = k0
        · subst hk
          exact ⟨vs ++ vs0, List.mem_map.2 ⟨(k, vs), hvs, by simp⟩, by simp [hn]⟩
        · exact ⟨vs, List.mem_map.2 ⟨(k, vs), hvs, by simp [hk]⟩, hn⟩
      · exact ⟨w ++ vs0, List.mem_map.2 ⟨(k, w), hmem, by simp⟩, by simp [hn]⟩
  · rw [if_neg h]
    constructor
    · rintro ⟨vs, hvs, hn⟩
      rcases List.mem_append.1 hvs with h1 | h1
      · exact Or.inl ⟨vs, h1, hn⟩
      · rw [List.mem_singleton] at h1
        injection h1 with e1 e2
        subst e1; subst e2
        exact Or.inr ⟨rfl, hn⟩
    · rintro (⟨vs, hvs, hn⟩ | ⟨rfl, hn⟩)
      · exact ⟨vs, by simp [hvs], hn⟩
      · exact ⟨vs0, by simp, hn⟩

/-! ### constant operands as text -/

theorem plain_ne_const {n : Name} (h : Plain n) :
    n ≠ "1'b0" ∧ n ≠ "1'b1" ∧ n ≠ "1'h0" ∧ n ≠ "1'h1" ∧ n ≠ "1'd0" ∧ n ≠ "1'd1" := by
  have hd := h.2.1
  refine ⟨?_, ?_, ?_, ?_, ?_, ?_⟩ <;> intro e <;> rw [e] at hd <;> revert hd <;> decide

theorem constName_plain {n : Name} (h : Plain n) : constName "tie0" "tie1" n = n := by
  obtain ⟨h0, h1, _⟩ := plain_ne_const h
  unfold constName
  rw [if_neg (by simpa using h0), if_neg (by simpa using h1)]

theorem constName_text {o : ROp} (h : ∀ n ∈ o.nets, Plain n) : constName "tie0" "tie1" o.text = o.nm "tie0" "tie1" := by
  cases o with
  | net n => exact constName_plain (h n (by simp [ROp.nets]))
  | c0 => rfl
  | c1 => rfl

theorem assignSrc_text {o : ROp} (h : ∀ n ∈ o.nets, Plain n) :
    (if ["1'b0", "1'h0", "1'd0"].contains o.text then "tie0"
     else if ["1'b1", "1'h1", "1'd1"].contains o.text then "tie1" else o.text) = o.nm "tie0" "tie1" := by
  cases o with
  | net n =>
    obtain ⟨h0, h1, h2, h3, h4, h5⟩ := plain_ne_const (h n (by simp [ROp.nets]))
    have e0 : ["1'b0", "1'h0", "1'd0"].contains n = false := by simp [h0, h2, h4]
    have e1 : ["1'b1", "1'h1", "1'd1"].contains n = false := by simp [h1, h3, h5]
    show (if ["1'b0", "1'h0", "1'd0"].contains n = true then "tie0"
      else if ["1'b1", "1'h1", "1'd1"].contains n = true then "tie1" else n) = n
    rw [e0, e1]; rfl
  | c0 => rfl
  | c1 => rfl

theorem valid_of_plain {o : ROp} (h : ∀ n ∈ o.nets, Plain n) : o.Valid "tie0" "tie1" := by
  cases o with
  | net n =>
    have := (h n (by simp [ROp.nets])).ne_ties
    exact ⟨this.1, this.2.1⟩
  | c0 => trivial
  | c1 => trivial

/-! ### the invariant of the accumulator -/

/-- the accumulator holds exactly the contributions of the statements selected by `P` -/
structure AInv (bbs : List BBox) (P : RStmt → Prop) (a : Acc) : Prop where
  nets : ∀ k n, inNets a.nets k n ↔ ∃ s, P s ∧ s.dty bbs n k
  edges : ∀ e, e ∈ a.edges ↔ ∃ s, P s ∧ ∃ x b, s.edge bbs x b ∧ e = (x.nm "tie0" "tie1", b)
  bbs : ∀ q, q ∈ a.bbs ↔ ∃ s, P s ∧ s.reg bbs q

theorem AInv.congr {bbs : List BBox} {P Q : RStmt → Prop} {a : Acc} (h : AInv bbs P a) (hpq : ∀ s, P s ↔ Q s) :
    AInv bbs Q a := by
  have : P = Q := funext fun s => propext (hpq s)
  rw [← this]; exact h

theorem AInv.empty (bbs : List BBox) : AInv bbs (fun _ => False) {} := by
  refine ⟨?_, ?_, ?_⟩
  · intro k n
    constructor
    · intro h; exact absurd h (inNets_nil k n)
    · rintro ⟨_, h, _⟩; exact h.elim
  · intro e
    constructor
    · intro h; cases h
    · rintro ⟨_, h, _⟩; exact h.elim
  · intro q
    constructor
    · intro h; cases h
    · rintro ⟨_, h, _⟩; exact h.elim

/-- what one statement adds -/
structure Step (bbs : List BBox) (s : RStmt) (a a' : Acc) : Prop where
  nets : ∀ k n, inNets a'.nets k n ↔ inNets a.nets k n ∨ s.dty bbs n k
  edges : ∀ e, e ∈ a'.edges ↔ e ∈ a.edges ∨ ∃ x b, s.edge bbs x b ∧ e = (x.nm "tie0" "tie1", b)
  bbs : ∀ q, q ∈ a'.bbs ↔ q ∈ a.bbs ∨ s.reg bbs q

theorem AInv.step {bbs : List BBox} {P : RStmt → Prop} {a a' : Acc} {s : RStmt} (h : AInv bbs P a)
    (hs : Step bbs s a a') : AInv bbs (fun x => P x ∨ x = s) a' := by
  refine ⟨?_, ?_, ?_⟩
  · intro k n
    rw [hs.nets, h.nets]
    constructor
    · rintro (⟨x, hx, hd⟩ | hd)
      · exact ⟨x, Or.inl hx, hd⟩
      · exact ⟨s, Or.inr rfl, hd⟩
    · rintro ⟨x, hx | rfl, hd⟩
      · exact Or.inl ⟨x, hx, hd⟩
      · exact Or.inr hd
  · intro e
    rw [hs.edges, h.edges]
    constructor
    · rintro (⟨x, hx, hd⟩ | hd)
      · exact ⟨x, Or.inl hx, hd⟩
      · exact ⟨s, Or.inr rfl, hd⟩
    · rintro ⟨x, hx | rfl, hd⟩
      · exact Or.inl ⟨x, hx, hd⟩
      · exact Or.inr hd
  · intro q
    rw [hs.bbs, h.bbs]
    constructor
    · rintro (⟨x, hx, hd⟩ | hd)
      · exact ⟨x, Or.inl hx, hd⟩
      · exact ⟨s, Or.inr rfl, hd⟩
    · rintro ⟨x, hx | rfl, hd⟩
      · exact Or.inl ⟨x, hx, hd⟩
      · exact Or.inr hd

/-! ### a primitive gate -/

theorem step_gate {bbs : List BBox} (ord : Ord) (a : Acc) {ty inst out : Name} {ops : List ROp}
    (hok : (RStmt.gate ty inst out ops).OK bbs) :
    ∃ a', doInst bbs ord "tie0" "tie1" a (.inst ty inst (out :: ops.map ROp.text) []) = .ok a' ∧
      Step bbs (.gate ty inst out ops) a a' := by
  obtain ⟨hty, _, hout, hne, _, hops⟩ := hok
  have hopl : ∀ o ∈ ops, ∀ n ∈ o.nets, Plain n := fun o ho n hn => hops n (List.mem_flatMap.2 ⟨o, ho, hn⟩)
  have hmap : (out :: ops.map ROp.text).map (constName "tie0" "tie1") = out :: ops.map (ROp.nm "tie0" "tie1") := by
    rw [List.map_cons, constName_plain hout, List.map_map]
    congr 1
    apply List.map_congr_left
    intro o ho
    exact constName_text (hopl o ho)
  have hpar := parity_map "tie0" "tie1" (by decide) ty ops (fun o ho => valid_of_plain (hopl o ho))
  refine ⟨{ a with nets := pushNet a.nets ty [out],
                    edges := a.edges ++ (FastVerilog.parityFanin "tie0" ty (ops.map (ROp.nm "tie0" "tie1"))).map
                      (fun i => (i, out)) }, ?_, ?_, ?_, ?_⟩
  · simp only [doInst]
    rw [if_pos (VR.primitive_of_gate hty)]
    simp only [hmap]
    rfl
  · intro k n
    simp only []
    rw [inNets_pushNet]
    simp only [RStmt.dty, List.mem_singleton]
    constructor
    · rintro (h | ⟨h1, h2⟩)
      · exact Or.inl h
      · exact Or.inr ⟨h2, h1⟩
    · rintro (h | ⟨h1, h2⟩)
      · exact Or.inl h
      · exact Or.inr ⟨h2, h1⟩
  · intro e
    simp only []
    rw [List.mem_append, hpar, List.map_map, List.mem_map]
    simp only [RStmt.edge, Function.comp]
    constructor
    · rintro (h | ⟨x, hx, rfl⟩)
      · exact Or.inl h
      · exact Or.inr ⟨x, out, ⟨hx, rfl⟩, rfl⟩
    · rintro (h | ⟨x, b, ⟨hx, rfl⟩, rfl⟩)
      · exact Or.inl h
      · exact Or.inr ⟨x, hx, rfl⟩
  · intro q
    simp only [RStmt.reg, or_false]

/-! ### an assign -/

theorem step_assign {bbs : List BBox} (a : Acc) {l : Name} {r : ROp} (hok : (RStmt.assign l r).OK bbs) :
    Step bbs (.assign l r) a
      { a with nets := pushNet a.nets "buf" [l],
               edges := a.edges ++ [((if ["1'b0", "1'h0", "1'd0"].contains r.text then "tie0"
                 else if ["1'b1", "1'h1", "1'd1"].contains r.text then "tie1" else r.text), l)] } := by
  rw [assignSrc_text hok.2]
  refine ⟨?_, ?_, ?_⟩
  · intro k n
    simp only []
    rw [inNets_pushNet]
    simp only [RStmt.dty, List.mem_singleton]
    constructor
    · rintro (h | ⟨h1, h2⟩)
      · exact Or.inl h
      · exact Or.inr ⟨h2, h1⟩
    · rintro (h | ⟨h1, h2⟩)
      · exact Or.inl h
      · exact Or.inr ⟨h2, h1⟩
  · intro e
    simp only []
    rw [List.mem_append, List.mem_singleton]
    simp only [RStmt.edge]
    constructor
    · rintro (h | rfl)
      · exact Or.inl h
      · exact Or.inr ⟨r, l, ⟨rfl, rfl⟩, rfl⟩
    · rintro (h | ⟨x, b, ⟨rfl, rfl⟩, rfl⟩)
      · exact Or.inl h
      · exact Or.inr rfl
  · intro q
    simp only [RStmt.reg, or_false]

end FV
end CG
