/- C09 (sequential_unroll, semantics): the pruned circuit handed to `unroll` against the sequential circuit —
   names of the data pins, surviving outputs, and the two-way transport of consistent valuations -/
import CG.Proofs.UnrollSeqSemNames
import CG.Proofs.UnrollSeqSemUnfold
import CG.Proofs.UnrollSeqSemStrip
set_option linter.unusedSimpArgs false
set_option linter.unusedVariables false
namespace CG
namespace USS
open Circuit Unroll Strip

/-- mirror of `C09.SeqGood` (the fields the proofs use) -/
structure SeqGood' (c : Circuit) (bb : BBox) (dPort qPort : Name) : Prop where
  clean : LintClean c
  oneType : ∀ u ∈ c.bbs, u.2 = bb
  instNodup : (c.bbs.map (·.1)).Nodup
  dIn : dPort ∈ bb.ins
  qOut : qPort ∈ bb.outs
  pinsPresent : ∀ u ∈ c.bbs, (∀ g ∈ bb.ins, c.ty? (u.1 ++ "." ++ g) = some "bb_input") ∧
    (∀ g ∈ bb.outs, c.ty? (u.1 ++ "." ++ g) = some "bb_output")
  outsOrdinary : ∀ o ∈ c.outputs, isPin c o = false

/-- no node of `c` carries the exposed name `inst_pin` of a pin that is not ignored (mirror of the hypothesis `hclash` of
    the C09 theorems; it depends on `ignore_pins` and is therefore not a field of `SeqGood'`) -/
def NoClash (c : Circuit) (bb : BBox) (ig : List Name) : Prop :=
  ∀ u ∈ c.bbs, ∀ g ∈ bb.ins ++ bb.outs, g ∉ ig → c.has (u.1 ++ "_" ++ g) = false

/-- instance names -/
def insts (c : Circuit) : List Name := c.bbs.map (fun p : Name × BBox => p.1)

/-- the state pairing handed to `unroll` -/
def sio (c : Circuit) (dPort qPort : Name) : List (Name × Name) :=
  (insts c).map (fun (b : Name) => (b ++ "_" ++ dPort, b ++ "_" ++ qPort))

/-- everything removed from the stripped circuit before the unloaded inputs -/
def R12 (c : Circuit) (bb : BBox) (dPort qPort : Name) (ig : List Name) : List Name :=
  R1 bb (insts c) dPort ig ++ R2 bb (insts c) qPort ig

theorem cs2_eq (c cs0 : Circuit) (bb : BBox) (dPort qPort : Name) (ig : List Name) :
    cs2 cs0 bb (insts c) dPort qPort ig = cs0.remove (R12 c bb dPort qPort ig) := by
  unfold cs2 R12
  rw [remove_append]

theorem not_ig_of_filter {ig : List Name} {p e : Name} (h : (p != e && !ig.contains p) = true) : p ∉ ig := by
  intro hp
  rw [List.contains_iff_mem.2 hp] at h
  simp at h

/-- only exposed (not ignored) pins are removed by name -/
theorem mem_R12 {c : Circuit} {bb : BBox} {dPort qPort x : Name} {ig : List Name} (h : x ∈ R12 c bb dPort qPort ig) :
    ∃ u ∈ c.bbs, ∃ g ∈ bb.ins ++ bb.outs, g ∉ ig ∧ x = u.1 ++ "_" ++ g := by
  unfold R12 R1 R2 insts at h
  rcases List.mem_append.1 h with h | h
  · obtain ⟨p, hp, hx⟩ := List.mem_flatMap.1 h
    obtain ⟨b, hb, e⟩ := List.mem_map.1 hx
    obtain ⟨u, hu, rfl⟩ := List.mem_map.1 hb
    exact ⟨u, hu, p, List.mem_append.2 (Or.inl (List.mem_filter.1 hp).1), not_ig_of_filter (List.mem_filter.1 hp).2, e.symm⟩
  · obtain ⟨p, hp, hx⟩ := List.mem_flatMap.1 h
    obtain ⟨b, hb, e⟩ := List.mem_map.1 hx
    obtain ⟨u, hu, rfl⟩ := List.mem_map.1 hb
    exact ⟨u, hu, p, List.mem_append.2 (Or.inr (List.mem_filter.1 hp).1), not_ig_of_filter (List.mem_filter.1 hp).2, e.symm⟩

section
variable {c cs0 : Circuit} {bb : BBox} {dPort qPort : Name} {ig : List Name}

/-- no ordinary node is among the removed names -/
theorem not_R12_of_has (K : NoClash c bb ig) {x : Name} (hx : c.has x = true) : x ∉ R12 c bb dPort qPort ig := by
  intro h
  obtain ⟨u, hu, g, hg, hgi, rfl⟩ := mem_R12 h
  rw [K u hu g hg hgi] at hx
  cases hx

theorem R12_removable (G : SeqGood' c bb dPort qPort) (K : NoClash c bb ig) (S : StripView c ig cs0) :
    ∀ x ∈ R12 c bb dPort qPort ig, cs0.has x = true → Removable cs0 x := by
  intro x hx hhas
  obtain ⟨u, hu, g, hg, hgi, rfl⟩ := mem_R12 hx
  obtain ⟨n, hk, e⟩ := pin_image S hhas (K u hu g hg hgi)
  rw [e]
  exact removable_of_kept G.clean S hk

theorem R3_removable (c2 : Circuit) (l : List Name) (q : Name) (ru : Bool) :
    ∀ x ∈ R3 c2 l q ru, c2.has x = true → Removable c2 x := by
  intro x hx _
  left
  unfold R3 at hx
  cases ru with
  | false => cases hx
  | true =>
    simp only [if_true, List.mem_filter, Bool.and_eq_true, List.isEmpty_iff] at hx
    exact hx.2.1.1

/-- the circuit handed to `unroll`, as two removals from the stripped circuit -/
theorem prune_eq (c cs0 : Circuit) (bb : BBox) (dPort qPort : Name) (ig : List Name) (ru : Bool) :
    prune cs0 bb (insts c) dPort qPort ig ru =
      (cs0.remove (R12 c bb dPort qPort ig)).remove (R3 (cs0.remove (R12 c bb dPort qPort ig)) (insts c) qPort ru) := by
  unfold prune
  rw [cs2_eq]

/-- a pin that is not ignored and whose exposed name is a node of the stripped circuit is kept under that name -/
theorem key_name (G : SeqGood' c bb dPort qPort) (K : NoClash c bb ig) (S : StripView c ig cs0) {u : Name × BBox} (hu : u ∈ c.bbs) {g : Name}
    (hg : g ∈ bb.ins ++ bb.outs) (hgi : g ∉ ig) (hhas : cs0.has (u.1 ++ "_" ++ g) = true) :
    kept c ig (u.1 ++ "." ++ g) = true ∧ sname c ig (u.1 ++ "." ++ g) = u.1 ++ "_" ++ g := by
  obtain ⟨n, _, e⟩ := pin_image S hhas (K u hu g hg hgi)
  have hnd : hasDot (u.1 ++ "_" ++ g) = false := by rw [e]; exact hasDot_replaceDots n
  obtain ⟨d1, d2⟩ := hasDot_under hnd
  have hpin : isPin c (u.1 ++ "." ++ g) = true := by
    rw [isPin_iff]
    rcases List.mem_append.1 hg with h | h
    · exact Or.inl ((G.pinsPresent u hu).1 g h)
    · exact Or.inr ((G.pinsPresent u hu).2 g h)
  have hk : kept c ig (u.1 ++ "." ++ g) = true := by
    unfold kept
    rw [hpin, lastDot_pin u.1 d2]
    have : ig.contains g = false := by
      cases hh : ig.contains g with
      | false => rfl
      | true => exact absurd (List.contains_iff_mem.1 hh) hgi
    rw [this]
    rfl
  exact ⟨hk, by rw [sname_of_kept hk, replaceDots_pin d1 d2]⟩

end
end USS
end CG
