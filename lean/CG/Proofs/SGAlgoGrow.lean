/- C17 (algorithm) helpers, part 5: the inner queue `growSG` computes the single-child chains below the head -/
import CG.Proofs.SGAlgoTree
set_option linter.unusedSectionVars false
set_option linter.unusedVariables false
set_option linter.unusedSimpArgs false
namespace CG
namespace SGA
open Query Supergates Q

theorem insertNew_of_not_mem {l : List Name} {x : Name} (h : x ∉ l) : insertNew l x = l ++ [x] := by
  unfold insertNew
  rw [if_neg]
  rw [List.contains_iff_mem]
  exact h

section
variable {tbl : List (Name × List Name)} {cone : List Name} {root : Name} {par : Name → Option Name}
  {depth : Name → Nat}

/-- loop invariant of `growSG` -/
structure GInv (tbl : List (Name × List Name)) (cone : List Name) (par : Name → Option Name) (depth : Name → Nat)
    (h : Name) (f : Nat) (q sg fr : List Name) : Prop where
  nd : (sg ++ q).Nodup
  sub : ∀ y ∈ sg ++ q, y ∈ cone
  fuel : cone.length + 2 ≤ f + sg.length
  anc : ∀ y ∈ sg ++ q, y = h ∨ (depth h < depth y ∧ ∃ p ∈ sg, par y = some p)
  frnd : fr.Nodup
  frsub : ∀ y ∈ fr, y ∈ sg

theorem growSG_loop (T : TreeOK tbl cone root par depth) (h : Name) : ∀ (f : Nat) (q sg fr : List Name),
    GInv tbl cone par depth h f q sg fr →
    (growSG tbl f q sg fr).1.Nodup ∧
    (∀ x, x ∈ (growSG tbl f q sg fr).1 ↔ x ∈ sg ∨ ∃ y ∈ q, SC tbl y x) ∧
    (growSG tbl f q sg fr).2.Nodup ∧
    (∀ x, x ∈ (growSG tbl f q sg fr).2 ↔ x ∈ fr ∨ ((∃ y ∈ q, SC tbl y x) ∧ 1 < (childrenOf tbl x).length)) := by
  intro f
  induction f with
  | zero =>
    intro q sg fr I
    have hnd : sg.Nodup := (List.nodup_append.mp I.nd).1
    have := Q.nodup_length_le sg cone hnd (fun x hx => I.sub x (List.mem_append_left _ hx))
    have := I.fuel
    omega
  | succ f ih =>
    intro q sg fr I
    cases q with
    | nil =>
      have hnd : sg.Nodup := (List.nodup_append.mp I.nd).1
      refine ⟨hnd, ?_, I.frnd, ?_⟩
      · intro x; simp [growSG]
      · intro x; simp [growSG]
    | cons fi rest =>
      obtain ⟨hsgnd, hqnd, hdisj⟩ := List.nodup_append.mp I.nd
      have hfi : fi ∉ sg := fun hm => hdisj fi hm fi List.mem_cons_self rfl
      have hfirest : fi ∉ rest := (List.nodup_cons.mp hqnd).1
      have hrestnd : rest.Nodup := (List.nodup_cons.mp hqnd).2
      have hfic : fi ∈ cone := I.sub fi (List.mem_append_right _ List.mem_cons_self)
      have hins : insertNew sg fi = sg ++ [fi] := insertNew_of_not_mem hfi
      have hfr : fi ∉ fr := fun hm => hfi (I.frsub fi hm)
      have hsg'nd : (sg ++ [fi]).Nodup := by
        refine List.nodup_append.mpr ⟨hsgnd, List.nodup_cons.mpr ⟨List.not_mem_nil, List.nodup_nil⟩, ?_⟩
        intro a ha b hb
        rw [List.mem_singleton] at hb
        subst hb
        exact fun hab => hfi (hab ▸ ha)
      -- the state after dropping `fi` from the queue (used by the cases `> 1` and `0` children)
      have Idrop : ∀ fr', fr'.Nodup → (∀ y ∈ fr', y ∈ sg ++ [fi]) →
          GInv tbl cone par depth h f rest (sg ++ [fi]) fr' := by
        intro fr' h1 h2
        refine ⟨?_, ?_, ?_, ?_, h1, h2⟩
        · refine List.nodup_append.mpr ⟨hsg'nd, hrestnd, ?_⟩
          intro a ha b hb hab
          subst hab
          rcases List.mem_append.mp ha with ha | ha
          · exact hdisj a ha a (List.mem_cons_of_mem _ hb) rfl
          · rw [List.mem_singleton] at ha
            subst ha
            exact hfirest hb
        · intro y hy
          apply I.sub
          rcases List.mem_append.mp hy with hy | hy
          · rcases List.mem_append.mp hy with hy | hy
            · exact List.mem_append_left _ hy
            · rw [List.mem_singleton] at hy
              subst hy
              exact List.mem_append_right _ List.mem_cons_self
          · exact List.mem_append_right _ (List.mem_cons_of_mem _ hy)
        · have := I.fuel
          simp only [List.length_append, List.length_cons, List.length_nil]
          omega
        · intro y hy
          have hy' : y ∈ sg ++ fi :: rest := by
            rcases List.mem_append.mp hy with hy | hy
            · rcases List.mem_append.mp hy with hy | hy
              · exact List.mem_append_left _ hy
              · rw [List.mem_singleton] at hy
                subst hy
                exact List.mem_append_right _ List.mem_cons_self
            · exact List.mem_append_right _ (List.mem_cons_of_mem _ hy)
          rcases I.anc y hy' with h1 | ⟨h1, p, hp, h2⟩
          · exact Or.inl h1
          · exact Or.inr ⟨h1, p, List.mem_append_left _ hp, h2⟩
      by_cases hgt : (childrenOf tbl fi).length > 1
      · -- several children: to the frontier
        have heq : growSG tbl (f + 1) (fi :: rest) sg fr = growSG tbl f rest (sg ++ [fi]) (fr ++ [fi]) := by
          rw [growSG, hins]
          simp only [hgt, if_true]
        rw [heq]
        have I' := Idrop (fr ++ [fi])
          (by
            refine List.nodup_append.mpr ⟨I.frnd, List.nodup_cons.mpr ⟨List.not_mem_nil, List.nodup_nil⟩, ?_⟩
            intro a ha b hb
            rw [List.mem_singleton] at hb
            subst hb
            exact fun hab => hfr (hab ▸ ha))
          (by
            intro y hy
            rcases List.mem_append.mp hy with hy | hy
            · exact List.mem_append_left _ (I.frsub y hy)
            · exact List.mem_append_right _ hy)
        obtain ⟨r1, r2, r3, r4⟩ := ih rest (sg ++ [fi]) (fr ++ [fi]) I'
        have hsc : ∀ x, SC tbl fi x ↔ x = fi := by
          intro x
          constructor
          · intro hs; exact SC_of_not_single hs (by omega)
          · intro hx; exact hx ▸ .refl _
        refine ⟨r1, ?_, r3, ?_⟩
        · intro x
          rw [r2 x]
          simp only [List.mem_append, List.mem_cons, List.not_mem_nil, or_false, exists_eq_or_imp, hsc]
          constructor
          · rintro ((h1 | h1) | h1)
            · exact Or.inl h1
            · exact Or.inr (Or.inl h1)
            · exact Or.inr (Or.inr h1)
          · rintro (h1 | h1 | h1)
            · exact Or.inl (Or.inl h1)
            · exact Or.inl (Or.inr h1)
            · exact Or.inr h1
        · intro x
          rw [r4 x]
          simp only [List.mem_append, List.mem_cons, List.not_mem_nil, or_false, exists_eq_or_imp, hsc]
          constructor
          · rintro ((h1 | h1) | h1)
            · exact Or.inl h1
            · exact Or.inr ⟨Or.inl h1, by rw [h1]; exact hgt⟩
            · exact Or.inr ⟨Or.inr h1.1, h1.2⟩
          · rintro (h1 | ⟨h1 | h1, h2⟩)
            · exact Or.inl (Or.inl h1)
            · exact Or.inl (Or.inr h1)
            · exact Or.inr ⟨h1, h2⟩
      · by_cases hone : (childrenOf tbl fi).length = 1
        · -- exactly one child: absorbed
          obtain ⟨c, hc⟩ : ∃ c, childrenOf tbl fi = [c] := by
            match hch : childrenOf tbl fi, hone with
            | [c], _ => exact ⟨c, rfl⟩
          have heq : growSG tbl (f + 1) (fi :: rest) sg fr = growSG tbl f (rest ++ [c]) (sg ++ [fi]) fr := by
            rw [growSG, hins]
            rw [hc]
            simp
          rw [heq]
          have hcch : c ∈ childrenOf tbl fi := mem_children_of_single hc
          have hcpar := T.ch_par _ _ hcch
          have hdep := T.dep _ _ hcpar.1 hcpar.2
          have hfianc := I.anc fi (List.mem_append_right _ List.mem_cons_self)
          have hcfresh : c ∉ sg ++ fi :: rest := by
            intro hm
            rcases I.anc c hm with h1 | ⟨_, p, hp, h2⟩
            · subst h1
              rcases hfianc with h2 | ⟨h2, _⟩
              · subst h2; omega
              · omega
            · rw [hcpar.2] at h2
              cases h2
              exact hfi hp
          have I' : GInv tbl cone par depth h f (rest ++ [c]) (sg ++ [fi]) fr := by
            have I0 := Idrop fr I.frnd (fun y hy => List.mem_append_left _ (I.frsub y hy))
            refine ⟨?_, ?_, I0.fuel, ?_, I.frnd, I0.frsub⟩
            · rw [← List.append_assoc]
              refine List.nodup_append.mpr ⟨I0.nd, List.nodup_cons.mpr ⟨List.not_mem_nil, List.nodup_nil⟩, ?_⟩
              intro a ha b hb hab
              rw [List.mem_singleton] at hb
              subst hb
              subst hab
              apply hcfresh
              rcases List.mem_append.mp ha with ha | ha
              · rcases List.mem_append.mp ha with ha | ha
                · exact List.mem_append_left _ ha
                · rw [List.mem_singleton] at ha
                  subst ha
                  exact List.mem_append_right _ List.mem_cons_self
              · exact List.mem_append_right _ (List.mem_cons_of_mem _ ha)
            · intro y hy
              rw [← List.append_assoc] at hy
              rcases List.mem_append.mp hy with hy | hy
              · exact I0.sub y hy
              · rw [List.mem_singleton] at hy
                subst hy
                exact hcpar.1
            · intro y hy
              rw [← List.append_assoc] at hy
              rcases List.mem_append.mp hy with hy | hy
              · exact I0.anc y hy
              · rw [List.mem_singleton] at hy
                subst hy
                refine Or.inr ⟨?_, fi, List.mem_append_right _ (List.mem_singleton.mpr rfl), hcpar.2⟩
                rcases hfianc with h2 | ⟨h2, _⟩
                · subst h2; exact hdep
                · omega
          obtain ⟨r1, r2, r3, r4⟩ := ih (rest ++ [c]) (sg ++ [fi]) fr I'
          have hsc : ∀ x, SC tbl fi x ↔ x = fi ∨ SC tbl c x := fun x => SC_single hc
          have hq : ∀ x, (∃ y ∈ rest ++ [c], SC tbl y x) ↔ (∃ y ∈ rest, SC tbl y x) ∨ SC tbl c x := by
            intro x
            constructor
            · rintro ⟨y, hy, hs⟩
              rcases List.mem_append.mp hy with hy | hy
              · exact Or.inl ⟨y, hy, hs⟩
              · rw [List.mem_singleton] at hy
                subst hy
                exact Or.inr hs
            · rintro (⟨y, hy, hs⟩ | hs)
              · exact ⟨y, List.mem_append_left _ hy, hs⟩
              · exact ⟨c, List.mem_append_right _ (List.mem_singleton.mpr rfl), hs⟩
          have hone' : ¬ 1 < (childrenOf tbl fi).length := hgt
          refine ⟨r1, ?_, r3, ?_⟩
          · intro x
            rw [r2 x, hq]
            simp only [List.mem_append, List.mem_cons, List.not_mem_nil, or_false, exists_eq_or_imp, hsc]
            constructor
            · rintro ((h1 | h1) | h1 | h1)
              · exact Or.inl h1
              · exact Or.inr (Or.inl (Or.inl h1))
              · exact Or.inr (Or.inr h1)
              · exact Or.inr (Or.inl (Or.inr h1))
            · rintro (h1 | (h1 | h1) | h1)
              · exact Or.inl (Or.inl h1)
              · exact Or.inl (Or.inr h1)
              · exact Or.inr (Or.inr h1)
              · exact Or.inr (Or.inl h1)
          · intro x
            rw [r4 x, hq]
            simp only [List.mem_cons, exists_eq_or_imp, hsc]
            constructor
            · rintro (h1 | ⟨h1 | h1, h2⟩)
              · exact Or.inl h1
              · exact Or.inr ⟨Or.inr h1, h2⟩
              · exact Or.inr ⟨Or.inl (Or.inr h1), h2⟩
            · rintro (h1 | ⟨(h1 | h1) | h1, h2⟩)
              · exact Or.inl h1
              · subst h1; exact absurd h2 hone'
              · exact Or.inr ⟨Or.inr h1, h2⟩
              · exact Or.inr ⟨Or.inl h1, h2⟩
        · -- no child
          have heq : growSG tbl (f + 1) (fi :: rest) sg fr = growSG tbl f rest (sg ++ [fi]) fr := by
            rw [growSG, hins]
            have : ((childrenOf tbl fi).length == 1) = false := by
              rw [beq_eq_false_iff_ne]; exact hone
            simp only [hgt, if_false, this]
            rfl
          rw [heq]
          have I' := Idrop fr I.frnd (fun y hy => List.mem_append_left _ (I.frsub y hy))
          obtain ⟨r1, r2, r3, r4⟩ := ih rest (sg ++ [fi]) fr I'
          have hsc : ∀ x, SC tbl fi x ↔ x = fi := by
            intro x
            constructor
            · intro hs; exact SC_of_not_single hs hone
            · intro hx; exact hx ▸ .refl _
          have hone' : ¬ 1 < (childrenOf tbl fi).length := hgt
          refine ⟨r1, ?_, r3, ?_⟩
          · intro x
            rw [r2 x]
            simp only [List.mem_append, List.mem_cons, List.not_mem_nil, or_false, exists_eq_or_imp, hsc]
            constructor
            · rintro ((h1 | h1) | h1)
              · exact Or.inl h1
              · exact Or.inr (Or.inl h1)
              · exact Or.inr (Or.inr h1)
            · rintro (h1 | h1 | h1)
              · exact Or.inl (Or.inl h1)
              · exact Or.inl (Or.inr h1)
              · exact Or.inr h1
          · intro x
            rw [r4 x]
            simp only [List.mem_cons, exists_eq_or_imp, hsc]
            constructor
            · rintro (h1 | ⟨h1, h2⟩)
              · exact Or.inl h1
              · exact Or.inr ⟨Or.inr h1, h2⟩
            · rintro (h1 | ⟨h1 | h1, h2⟩)
              · exact Or.inl h1
              · subst h1; exact absurd h2 hone'
              · exact Or.inr ⟨h1, h2⟩

/-- the node set and the frontier computed for the head `h` -/
theorem growSG_spec (T : TreeOK tbl cone root par depth) {h : Name} (hh : h ∈ cone) :
    (growSG tbl (tbl.length + 1) (childrenOf tbl h) [h] []).1.Nodup ∧
    (∀ x, x ∈ (growSG tbl (tbl.length + 1) (childrenOf tbl h) [h] []).1 ↔ x = h ∨ Chain tbl h x) ∧
    (growSG tbl (tbl.length + 1) (childrenOf tbl h) [h] []).2.Nodup ∧
    (∀ x, x ∈ (growSG tbl (tbl.length + 1) (childrenOf tbl h) [h] []).2 ↔
      Chain tbl h x ∧ 1 < (childrenOf tbl x).length) := by
  have I : GInv tbl cone par depth h (tbl.length + 1) (childrenOf tbl h) [h] [] := by
    refine ⟨?_, ?_, ?_, ?_, List.nodup_nil, fun y hy => absurd hy List.not_mem_nil⟩
    · rw [List.singleton_append, List.nodup_cons]
      refine ⟨?_, T.ch_nd h⟩
      intro hm
      have := T.dep _ _ (T.ch_par _ _ hm).1 (T.ch_par _ _ hm).2
      omega
    · intro y hy
      rw [List.singleton_append, List.mem_cons] at hy
      rcases hy with hy | hy
      · exact hy ▸ hh
      · exact (T.ch_par _ _ hy).1
    · rw [T.len]; simp
    · intro y hy
      rw [List.singleton_append, List.mem_cons] at hy
      rcases hy with hy | hy
      · exact Or.inl hy
      · exact Or.inr ⟨T.dep _ _ (T.ch_par _ _ hy).1 (T.ch_par _ _ hy).2, h, List.mem_singleton.mpr rfl,
          (T.ch_par _ _ hy).2⟩
  obtain ⟨r1, r2, r3, r4⟩ := growSG_loop T h _ _ _ _ I
  refine ⟨r1, ?_, r3, ?_⟩
  · intro x
    rw [r2 x, List.mem_singleton, chain_iff_SC]
  · intro x
    rw [r4 x, chain_iff_SC]
    simp

end

end SGA
end CG
